import GoawkModel.C20
import Proofs.C04Render
/-! C20 — the printed form of an expression (tokens) denotes the tree with `group` nodes where `parenthesize` writes
parentheses; on the parser's range that tree is canonical again, so the text re-parses to the same tree modulo grouping
and prints to the same text. -/
namespace GoawkModel.C20
open GoawkModel.C04

theorem pg_render (p : Nat) (parent child : Expr) (hp : goPrec parent = p) (ih : showE child = render (addShow child)) :
    parenT child parent (showE child) = render (pg p child (addShow child)) := by
  unfold parenT pg
  rw [hp]
  split
  · simp only [render, ih]
  · exact ih

theorem goPrec_addShow (e : Expr) : goPrec (addShow e) = goPrec e := by
  cases e <;> simp [addShow, goPrec]

theorem strip_pg (p : Nat) (child shown : Expr) : strip (pg p child shown) = strip shown := by
  unfold pg; split <;> simp [strip]

theorem strip_pgOpt (p : Nat) (child shown : Expr) (h : strip shown = strip child) :
    strip (pgOpt p child shown) = strip child := by
  unfold pgOpt
  split
  · rename_i hc; subst hc; rfl
  · rw [strip_pg, h]

theorem strip_addShow (e : Expr) : strip (addShow e) = strip e := by
  induction e with
  | getline c t f ihc iht ihf => simp only [addShow, strip, strip_pgOpt _ _ _ ihc, strip_pgOpt _ _ _ ihf, iht]
  | _ => simp_all [addShow, strip, strip_pg]

theorem pg_idem (p : Nat) (child : Expr) (hp : p ≤ 16) (ih : addShow (addShow child) = addShow child) :
    pg p (pg p child (addShow child)) (addShow (pg p child (addShow child))) = pg p child (addShow child) := by
  unfold pg
  split
  · simp [goPrec, addShow, ih]
    omega
  · simp [goPrec_addShow, *]

theorem pg_zero (c s : Expr) : pg 0 c s = s := by simp [pg]

theorem bopPrec_le (op : BOp) : bopPrec op ≤ 16 := by cases op <;> simp [bopPrec]

theorem addShow_eq_none (e : Expr) : addShow e = .none ↔ e = .none := by
  cases e <;> simp [addShow]

theorem pg_ne_none (p : Nat) (c : Expr) (h : c ≠ .none) : pg p c (addShow c) ≠ .none := by
  unfold pg; split
  · simp
  · intro h'; exact h ((addShow_eq_none c).mp h')

theorem pgOpt_none (p : Nat) (s : Expr) : pgOpt p .none s = .none := by simp [pgOpt]
theorem pgOpt_some (p : Nat) (c s : Expr) (h : c ≠ .none) : pgOpt p c s = pg p c s := by simp [pgOpt, h]

theorem pgOpt_idem (p : Nat) (c : Expr) (hp : p ≤ 16) (ih : c ≠ .none → addShow (addShow c) = addShow c) :
    pgOpt p (pgOpt p c (addShow c)) (addShow (pgOpt p c (addShow c))) = pgOpt p c (addShow c) := by
  by_cases hc : c = .none
  · subst hc; simp [pgOpt]
  · rw [pgOpt_some p c _ hc, pgOpt_some p _ _ (pg_ne_none p c hc)]
    exact pg_idem p c hp (ih hc)

theorem addShow_lv (t : Expr) (h : t.isLValue = true) : (addShow t).isLValue = true := by
  cases t <;> simp [Expr.isLValue] at h <;> simp [addShow, Expr.isLValue]

/-- the parts of a canonical getline form -/
theorem canon_getline_parts (pc : Bool) (k : Nat) (c t f : Expr) (h : canon pc k (.getline c t f) = true) :
    (t = .none ∨ (t.isLValue = true ∧ canon false 14 t = true)) ∧
    ((c = .none ∧ k ≤ 7 ∧ (f = .none ∨ canon false 14 f = true)) ∨
     (c ≠ .none ∧ f = .none ∧ k ≤ 1 ∧ pc = false ∧ canon false 3 c = true)) := by
  simp only [canon, Bool.and_eq_true, Bool.or_eq_true, beq_iff_eq] at h
  refine ⟨h.1, ?_⟩
  have h2 := h.2
  by_cases hcn : c = .none
  · simp only [hcn, if_true, Bool.and_eq_true, decide_eq_true_eq, Bool.or_eq_true, beq_iff_eq] at h2
    exact Or.inl ⟨hcn, h2.1, h2.2⟩
  · simp only [hcn, if_false, Bool.and_eq_true, decide_eq_true_eq, beq_iff_eq, Bool.not_eq_true'] at h2
    exact Or.inr ⟨hcn, h2.1.1.1, h2.1.1.2, h2.1.2, h2.2⟩

/-- the operand of `++`/`--` in a canonical tree is an lvalue that `primary()` reads -/
theorem canon_incr_arg (pc : Bool) (k : Nat) (p d : Bool) (e : Expr) (h : canon pc k (.incr p d e) = true) :
    e.isLValue = true ∧ canon false 14 e = true := by
  cases p
  · cases e <;> simp [canon] at h <;> simp [canon, Expr.isLValue, h]
  · simp only [canon, Bool.and_eq_true] at h; exact ⟨h.1.2, h.2⟩

theorem incrPrec_le (p : Bool) : (if p then 12 else 13) ≤ 16 := by cases p <;> simp

/-- the printer's tree transformation is idempotent -/
theorem addShow_idem (e : Expr) (pc : Bool) (k : Nat) (hc : canon pc k e = true) : addShow (addShow e) = addShow e := by
  induction e generalizing pc k with
  | num i => rfl
  | var i => rfl
  | str i => rfl
  | group e ih =>
    simp only [canon, Bool.and_eq_true] at hc
    simp only [addShow, ih _ _ hc.2]
  | unary op e ih =>
    simp only [canon, Bool.and_eq_true] at hc
    simp only [addShow, pg_idem 10 e (by omega) (ih _ _ hc.2)]
  | binary op l r ihl ihr =>
    simp only [canon, Bool.and_eq_true] at hc
    simp only [addShow, pg_idem _ l (bopPrec_le op) (ihl _ _ hc.1.1.2), pg_idem _ r (bopPrec_le op) (ihr _ _ hc.1.2)]
  | cond c t f ihc iht ihf =>
    simp only [canon, Bool.and_eq_true] at hc
    simp only [addShow, pg_idem 1 c (by omega) (ihc _ _ hc.1.1.2), pg_idem 1 t (by omega) (iht _ _ hc.1.2),
      pg_idem 1 f (by omega) (ihf _ _ hc.2)]
  | assign op l r ihl ihr =>
    simp only [canon, Bool.and_eq_true] at hc
    simp only [addShow, pg_zero, ihl _ _ hc.1.2, ihr _ _ hc.2]
  | inArr e a ih =>
    simp only [canon, Bool.and_eq_true] at hc
    simp only [addShow, pg_idem 4 e (by omega) (ih _ _ hc.2)]
  | incr p d e ih =>
    have ha := canon_incr_arg pc k p d e hc
    simp only [addShow, pg_idem _ e (incrPrec_le p) (ih _ _ ha.2)]
  | field e ih =>
    simp only [canon, Bool.and_eq_true] at hc
    simp only [addShow, pg_idem 14 e (by omega) (ih _ _ hc.2)]
  | index a i ih =>
    simp only [canon, Bool.and_eq_true] at hc
    simp only [addShow, ih _ _ hc.2]
  | none => simp [canon] at hc
  | namedField e ih =>
    simp only [canon, Bool.and_eq_true] at hc
    simp only [addShow, pg_idem 14 e (by omega) (ih _ _ hc.2)]
  | getline c t f ihc iht ihf =>
    obtain ⟨ht, hcf⟩ := canon_getline_parts pc k c t f hc
    have hT : addShow (addShow t) = addShow t := by
      rcases ht with rfl | ht
      · rfl
      · exact iht _ _ ht.2
    have hC : c ≠ .none → addShow (addShow c) = addShow c := by
      intro hcn
      rcases hcf with h | h
      · exact absurd h.1 hcn
      · exact ihc _ _ h.2.2.2.2
    have hF : f ≠ .none → addShow (addShow f) = addShow f := by
      intro hfn
      rcases hcf with h | h
      · rcases h.2.2 with h' | h'
        · exact absurd h' hfn
        · exact ihf _ _ h'
      · exact absurd h.2.1 hfn
    simp only [addShow, hT, pgOpt_idem 15 c (by omega) hC, pgOpt_idem 15 f (by omega) hF]

theorem showE_eq_render (e : Expr) (pc : Bool) (k : Nat) (hc : canon pc k e = true) : showE e = render (addShow e) := by
  induction e generalizing pc k with
  | num i => rfl
  | var i => rfl
  | str i => rfl
  | group e ih =>
    simp only [canon, Bool.and_eq_true] at hc
    simp only [showE, addShow, render, ih _ _ hc.2]
  | unary op e ih =>
    simp only [canon, Bool.and_eq_true] at hc
    simp only [showE, addShow, render, pg_render 10 (.unary op e) e rfl (ih _ _ hc.2)]
  | binary op l r ihl ihr =>
    simp only [canon, Bool.and_eq_true] at hc
    simp only [showE, addShow, render, pg_render (bopPrec op) (.binary op l r) l rfl (ihl _ _ hc.1.1.2),
      pg_render (bopPrec op) (.binary op l r) r rfl (ihr _ _ hc.1.2)]
  | cond c t f ihc iht ihf =>
    simp only [canon, Bool.and_eq_true] at hc
    simp only [showE, addShow, render, pg_render 1 (.cond c t f) c rfl (ihc _ _ hc.1.1.2),
      pg_render 1 (.cond c t f) t rfl (iht _ _ hc.1.2), pg_render 1 (.cond c t f) f rfl (ihf _ _ hc.2)]
  | assign op l r ihl ihr =>
    simp only [canon, Bool.and_eq_true] at hc
    simp only [showE, addShow, render, pg_render 0 (.assign op l r) l rfl (ihl _ _ hc.1.2),
      pg_render 0 (.assign op l r) r rfl (ihr _ _ hc.2)]
  | inArr e a ih =>
    simp only [canon, Bool.and_eq_true] at hc
    simp only [showE, addShow, render, pg_render 4 (.inArr e a) e rfl (ih _ _ hc.2)]
  | incr p d e ih =>
    have ha := canon_incr_arg pc k p d e hc
    have hp : goPrec (.incr p d e) = (if p then 12 else 13) := rfl
    simp only [showE, addShow, render, pg_render _ (.incr p d e) e hp (ih _ _ ha.2)]
  | field e ih =>
    simp only [canon, Bool.and_eq_true] at hc
    simp only [showE, addShow, render, pg_render 14 (.field e) e rfl (ih _ _ hc.2)]
  | index a i ih =>
    simp only [canon, Bool.and_eq_true] at hc
    simp only [showE, addShow, render, ih _ _ hc.2]
  | none => simp [canon] at hc
  | namedField e ih =>
    simp only [canon, Bool.and_eq_true] at hc
    simp only [showE, addShow, render, pg_render 14 (.namedField e) e rfl (ih _ _ hc.2)]
  | getline c t f ihc iht ihf =>
    obtain ⟨ht, hcf⟩ := canon_getline_parts pc k c t f hc
    have hT : showE t = render (addShow t) := by
      rcases ht with rfl | ht
      · rfl
      · exact iht _ _ ht.2
    have hC : (if c = Expr.none then [] else parenT c (.getline c t f) (showE c) ++ [Tok.pipe]) =
        (if pgOpt 15 c (addShow c) = Expr.none then [] else render (pgOpt 15 c (addShow c)) ++ [Tok.pipe]) := by
      by_cases hcn : c = .none
      · simp [hcn, pgOpt_none]
      · have hcc : canon false 3 c = true := by
          rcases hcf with h | h
          · exact absurd h.1 hcn
          · exact h.2.2.2.2
        rw [pgOpt_some 15 c _ hcn]
        simp only [hcn, if_false, pg_ne_none 15 c hcn, pg_render 15 (.getline c t f) c rfl (ihc _ _ hcc)]
    have hF : (if f = Expr.none then [] else Tok.cmp Cmp.lt :: parenT f (.getline c t f) (showE f)) =
        (if pgOpt 15 f (addShow f) = Expr.none then [] else Tok.cmp Cmp.lt :: render (pgOpt 15 f (addShow f))) := by
      by_cases hfn : f = .none
      · simp [hfn, pgOpt_none]
      · have hfc : canon false 14 f = true := by
          rcases hcf with h | h
          · rcases h.2.2 with h' | h'
            · exact absurd h' hfn
            · exact h'
          · exact absurd h.2.1 hfn
        rw [pgOpt_some 15 f _ hfn]
        simp only [hfn, if_false, pg_ne_none 15 f hfn, pg_render 15 (.getline c t f) f rfl (ihf _ _ hfc)]
    simp only [showE, addShow, render, hT, hC, hF]

theorem canon_false_of_true (e : Expr) : ∀ k, canon true k e = true → canon false k e = true := by
  induction e with
  | num i => intro k h; simpa [canon] using h
  | var i => intro k h; simpa [canon] using h
  | str i => intro k h; simpa [canon] using h
  | group e ih => intro k h; simpa [canon] using h
  | unary op e ih =>
    intro k h
    simp only [canon, Bool.and_eq_true] at h ⊢
    exact ⟨h.1, ih _ h.2⟩
  | binary op l r ihl ihr =>
    intro k h
    simp only [canon, Bool.and_eq_true] at h ⊢
    refine ⟨⟨⟨⟨?_, h.1.1.1.2⟩, ihl _ h.1.1.2⟩, ihr _ h.1.2⟩, h.2⟩
    have := h.1.1.1.1
    cases op <;> simp_all [BOp.stageA]
  | cond c t f ihc iht ihf =>
    intro k h
    simp only [canon, Bool.and_eq_true] at h ⊢
    exact ⟨⟨⟨h.1.1.1, ihc _ h.1.1.2⟩, h.1.2⟩, ihf _ h.2⟩
  | assign op l r ihl ihr =>
    intro k h
    simp only [canon, Bool.and_eq_true] at h ⊢
    exact ⟨h.1, ihr _ h.2⟩
  | none => intro k h; simp [canon] at h
  | namedField e _ => intro k h; simpa [canon] using h
  | inArr e a ih =>
    intro k h
    simp only [canon, Bool.and_eq_true] at h ⊢
    exact ⟨h.1, ih _ h.2⟩
  | incr p d e _ =>
    intro k h
    cases p
    · cases e <;> simpa [canon] using h
    · simpa [canon] using h
  | field e _ => intro k h; simpa [canon] using h
  | index a i _ => intro k h; simpa [canon] using h
  | getline c t f _ _ _ =>
    intro k h
    obtain ⟨ht, hcf⟩ := canon_getline_parts true k c t f h
    rcases hcf with h' | h'
    · simpa [canon, h'.1] using h
    · exact absurd h'.2.2.2.1 (by simp)

theorem canon_false (pc : Bool) (k : Nat) (e : Expr) (h : canon pc k e = true) : canon false k e = true := by
  cases pc
  · exact h
  · exact canon_false_of_true e k h

theorem canon_pg (pc : Bool) (q p : Nat) (child : Expr) (hq : q ≤ 15) (hq1 : 1 ≤ q) (h0 : canon pc q child = true)
    (ih : ∀ pc k, canon pc k child = true → canon pc k (addShow child) = true) :
    canon pc q (pg p child (addShow child)) = true := by
  unfold pg
  split
  · simp only [canon, Bool.and_eq_true, decide_eq_true_eq]
    exact ⟨hq, ih false 1 (canon_false pc 1 child (canon_mono pc child q 1 h0 hq1))⟩
  · exact ih pc q h0

/-- first token of the rendering of a (canonical) tree -/
def firstTok : Expr → Tok
  | .num i => .num i
  | .var i => .name i
  | .str i => .str i
  | .group _ => .lparen
  | .unary op _ => uopTok op
  | .binary _ l _ => firstTok l
  | .cond c _ _ => firstTok c
  | .assign _ l _ => firstTok l
  | .inArr e _ => firstTok e
  | .incr pre dec e => if pre then (if dec then Tok.decr else Tok.incr) else firstTok e
  | .field _ => .dollar
  | .index a _ => .name a
  | .namedField _ => .at
  | .getline c _ _ => if c = .none then .getline else firstTok c
  | _ => .eof

theorem render_first (e : Expr) : ∀ (pc : Bool) (k : Nat), canon pc k e = true → ∃ ts, render e = firstTok e :: ts := by
  induction e with
  | num i => intros; exact ⟨_, rfl⟩
  | var i => intros; exact ⟨_, rfl⟩
  | str i => intros; exact ⟨_, rfl⟩
  | group e _ => intros; exact ⟨_, rfl⟩
  | unary op e _ => intros; exact ⟨_, rfl⟩
  | binary op l r ihl _ =>
    intro pc k hc
    simp only [canon, Bool.and_eq_true] at hc
    obtain ⟨ts, h1⟩ := ihl pc _ hc.1.1.2
    exact ⟨ts ++ (bopToks op ++ render r), by simp only [render, firstTok, h1, List.cons_append, List.append_assoc]⟩
  | cond c t f ihc _ _ =>
    intro pc k hc
    simp only [canon, Bool.and_eq_true] at hc
    obtain ⟨ts, h1⟩ := ihc pc _ hc.1.1.2
    exact ⟨ts ++ (.question :: render t ++ .colon :: render f), by simp only [render, firstTok, h1, List.cons_append, List.append_assoc]⟩
  | assign op l r ihl _ =>
    intro pc k hc
    simp only [canon, Bool.and_eq_true] at hc
    obtain ⟨ts, h1⟩ := ihl false _ hc.1.2
    exact ⟨ts ++ (.asg op :: render r), by simp only [render, firstTok, h1, List.cons_append]⟩
  | inArr e a ih =>
    intro pc k hc
    simp only [canon, Bool.and_eq_true] at hc
    obtain ⟨ts, h1⟩ := ih pc _ hc.2
    exact ⟨ts ++ [.in_, .name a], by simp only [render, firstTok, h1, List.cons_append]⟩
  | incr p d e ih =>
    intro pc k hc
    have ha := canon_incr_arg pc k p d e hc
    obtain ⟨ts, h1⟩ := ih false 14 ha.2
    cases p
    · exact ⟨ts ++ [if d then Tok.decr else Tok.incr], by simp [render, firstTok, h1]⟩
    · exact ⟨render e, by simp [render, firstTok]⟩
  | field e _ => intros; exact ⟨_, rfl⟩
  | index a i _ => intros; exact ⟨_, rfl⟩
  | none => intro pc k hc; simp [canon] at hc
  | namedField e _ => intros; exact ⟨_, rfl⟩
  | getline c t f ihc _ _ =>
    intro pc k hc
    obtain ⟨_, hcf⟩ := canon_getline_parts pc k c t f hc
    rcases hcf with h | h
    · obtain ⟨rfl, _⟩ := h
      exact ⟨render t ++ fileToks f, by rw [render_getline_none]; simp [firstTok]⟩
    · obtain ⟨ts, h1⟩ := ihc false 3 h.2.2.2.2
      exact ⟨ts ++ (.pipe :: .getline :: (render t ++ fileToks f)), by rw [render_getline_cmd c t f h.1, h1]; simp [firstTok, h.1]⟩

theorem hd_render_first (e : Expr) (pc : Bool) (k : Nat) (hc : canon pc k e = true) : hd (render e) = firstTok e := by
  obtain ⟨ts, h⟩ := render_first e pc k hc
  rw [h]; rfl

theorem firstTok_pg (p : Nat) (c : Expr) (h : firstTok (addShow c) = firstTok c ∨ firstTok (addShow c) = .lparen) :
    firstTok (pg p c (addShow c)) = firstTok c ∨ firstTok (pg p c (addShow c)) = .lparen := by
  unfold pg; split
  · right; rfl
  · exact h

/-- the printer keeps the first token of a tree, or opens a parenthesis there -/
theorem firstTok_addShow (e : Expr) : firstTok (addShow e) = firstTok e ∨ firstTok (addShow e) = .lparen := by
  induction e with
  | binary op l r ihl _ => simp only [addShow, firstTok]; exact firstTok_pg _ l ihl
  | cond c t f ihc _ _ => simp only [addShow, firstTok]; exact firstTok_pg _ c ihc
  | assign op l r ihl _ => simp only [addShow, firstTok]; exact firstTok_pg _ l ihl
  | inArr e a ih => simp only [addShow, firstTok]; exact firstTok_pg _ e ih
  | incr p d e ih =>
    simp only [addShow, firstTok]
    cases p
    · simpa using firstTok_pg _ e ih
    · left; rfl
  | getline c t f ihc _ _ =>
    simp only [addShow, firstTok]
    by_cases hcn : c = .none
    · left; simp [hcn, pgOpt_none]
    · rw [pgOpt_some 15 c _ hcn]
      simp only [hcn, if_false, pg_ne_none 15 c hcn]
      exact firstTok_pg 15 c ihc
  | _ => left; simp [addShow, firstTok]

theorem startOk_lparen : startOk .lparen = true := rfl

/-- printing maps the parser's range into itself -/
theorem canon_addShow (e : Expr) : ∀ pc k, canon pc k e = true → canon pc k (addShow e) = true := by
  induction e with
  | num i => intro pc k h; exact h
  | var i => intro pc k h; exact h
  | str i => intro pc k h; exact h
  | group e ih =>
    intro pc k h
    simp only [addShow, canon, Bool.and_eq_true] at h ⊢
    exact ⟨h.1, ih _ _ h.2⟩
  | unary op e ih =>
    intro pc k h
    simp only [addShow, canon, Bool.and_eq_true] at h ⊢
    exact ⟨h.1, canon_pg pc 11 10 e (by omega) (by omega) h.2 ih⟩
  | binary op l r ihl ihr =>
    intro pc k h
    simp only [addShow, canon, Bool.and_eq_true] at h ⊢
    have hs := sides_le op
    have h1 : 1 ≤ op.lhs ∧ 1 ≤ op.rhs := by cases op <;> simp [BOp.lhs, BOp.rhs, BOp.assoc, BOp.prec]
    have hr' := canon_pg pc _ (bopPrec op) r hs.2 h1.2 h.1.2 ihr
    refine ⟨⟨⟨h.1.1.1, canon_pg pc _ _ l hs.1 h1.1 h.1.1.2 ihl⟩, hr'⟩, ?_⟩
    -- the blank operator: the printed right operand still starts with a token on which `concat()` continues
    have hcat := h.2
    unfold catOk at hcat ⊢
    by_cases hop : (op != BOp.concat) = true
    · simp [hop]
    · simp only [hop, Bool.false_or] at hcat ⊢
      rw [hd_render_first _ pc _ hr']
      rw [hd_render_first r pc _ h.1.2] at hcat
      rcases firstTok_pg (bopPrec op) r (firstTok_addShow r) with h' | h'
      · rw [h']; exact hcat
      · rw [h']; rfl
  | cond c t f ihc iht ihf =>
    intro pc k h
    simp only [addShow, canon, Bool.and_eq_true] at h ⊢
    exact ⟨⟨⟨h.1.1.1, canon_pg pc 3 1 c (by omega) (by omega) h.1.1.2 ihc⟩, canon_pg false 1 1 t (by omega) (by omega) h.1.2 iht⟩,
      canon_pg pc 1 1 f (by omega) (by omega) h.2 ihf⟩
  | assign op l r ihl ihr =>
    intro pc k h
    simp only [addShow, pg_zero, canon, Bool.and_eq_true, decide_eq_true_eq] at h ⊢
    refine ⟨⟨⟨h.1.1.1, ?_⟩, ihl _ _ h.1.2⟩, ihr _ _ h.2⟩
    have := h.1.1.2
    cases l <;> simp [Expr.isLValue] at this <;> simp [addShow, Expr.isLValue]
  | inArr e a ih =>
    intro pc k h
    simp only [addShow, canon, Bool.and_eq_true] at h ⊢
    exact ⟨h.1, canon_pg pc 5 4 e (by omega) (by omega) h.2 ih⟩
  | incr p d e ih =>
    intro pc k h
    have hk : k ≤ 13 := canon_incr_le pc k p d e h
    have ha := canon_incr_arg pc k p d e h
    have h14 := ih false 14 ha.2
    -- an lvalue is never parenthesised under `++`/`--` (its precedence is at least that of `$`)
    have hpg : pg (if p then 12 else 13) e (addShow e) = addShow e := by
      unfold pg
      have : ¬ goPrec e < (if p then 12 else 13) := by
        have := ha.1
        cases e <;> simp [Expr.isLValue] at this <;> cases p <;> simp [goPrec]
      simp [this]
    simp only [addShow, hpg]
    cases p
    · cases e with
      | var a => simpa [addShow, canon] using hk
      | index a i =>
        simp only [addShow, canon, Bool.and_eq_true, decide_eq_true_eq] at h14 ⊢
        exact ⟨hk, h14.2⟩
      | field e' =>
        simp only [canon, Bool.and_eq_true, decide_eq_true_eq] at h
        simp only [addShow, canon, Bool.and_eq_true, decide_eq_true_eq] at h14 ⊢
        refine ⟨⟨hk, ?_⟩, h14.2⟩
        have hcl := h.1.2
        unfold pg
        cases e' <;> simp [closed] at hcl <;> simp [addShow, goPrec, closed]
      | _ => simp [Expr.isLValue] at ha
    · simp only [canon, Bool.and_eq_true, decide_eq_true_eq]
      refine ⟨⟨hk, ?_⟩, h14⟩
      have := ha.1
      cases e <;> simp [Expr.isLValue] at this <;> simp [addShow, Expr.isLValue]
  | field e ih =>
    intro pc k h
    simp only [addShow, canon, Bool.and_eq_true] at h ⊢
    exact ⟨h.1, canon_pg false 14 14 e (by omega) (by omega) h.2 ih⟩
  | index a i ih =>
    intro pc k h
    simp only [addShow, canon, Bool.and_eq_true] at h ⊢
    exact ⟨h.1, ih _ _ h.2⟩
  | none => intro pc k h; simp [canon] at h
  | namedField e ih =>
    intro pc k h
    simp only [addShow, canon, Bool.and_eq_true] at h ⊢
    exact ⟨h.1, canon_pg false 14 14 e (by omega) (by omega) h.2 ih⟩
  | getline c t f ihc iht ihf =>
    intro pc k h
    obtain ⟨ht, hcf⟩ := canon_getline_parts pc k c t f h
    have hT : (addShow t == Expr.none || ((addShow t).isLValue && canon false 14 (addShow t))) = true := by
      rcases ht with rfl | ht
      · simp [addShow]
      · simp [addShow_lv t ht.1, iht _ _ ht.2]
    simp only [addShow, canon, Bool.and_eq_true]
    refine ⟨hT, ?_⟩
    rcases hcf with h' | h'
    · obtain ⟨rfl, hk, hf⟩ := h'
      simp only [pgOpt_none, beq_self_eq_true, if_true, Bool.and_eq_true, decide_eq_true_eq, Bool.or_eq_true, beq_iff_eq]
      refine ⟨hk, ?_⟩
      by_cases hfn : f = .none
      · left; simp [hfn, pgOpt_none]
      · right
        rw [pgOpt_some 15 f _ hfn]
        exact canon_pg false 14 15 f (by omega) (by omega) (hf.resolve_left hfn) ihf
    · obtain ⟨hcn, rfl, hk, rfl, hcc⟩ := h'
      rw [pgOpt_some 15 c _ hcn]
      simp only [beq_iff_eq, pg_ne_none 15 c hcn, if_false, pgOpt_none, beq_self_eq_true, Bool.and_eq_true, decide_eq_true_eq,
        Bool.not_false, true_and, and_true]
      exact ⟨hk, canon_pg false 3 15 c (by omega) (by omega) hcc ihc⟩

end GoawkModel.C20
