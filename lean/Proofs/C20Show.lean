import GoawkModel.C20
import Proofs.C04Render
/-! C20 — the printed form of an expression (tokens) denotes the tree with `group` nodes where `parenthesize` writes
parentheses; on the parser's range that tree is canonical again, so the text re-parses to the same tree modulo grouping
and prints to the same text. -/
namespace GoawkModel.C20
open GoawkModel.C04

theorem pg_render (p : Nat) (parent child : Expr) (hp : goPrec parent = p) (ih : showE child = render (addShow child)) :
    parenT child parent (showE child) = render (pg p child (addShow child)) := by
  unfold parenT pg
  rw [hp]
  split
  · simp only [render, ih]
  · exact ih

theorem goPrec_addShow (e : Expr) : goPrec (addShow e) = goPrec e := by
  cases e <;> simp [addShow, goPrec]

theorem strip_pg (p : Nat) (child shown : Expr) : strip (pg p child shown) = strip shown := by
  unfold pg; split <;> simp [strip]

theorem strip_pgOpt (p : Nat) (child shown : Expr) (h : strip shown = strip child) :
    strip (pgOpt p child shown) = strip child := by
  unfold pgOpt
  split
  · rename_i hc; subst hc; rfl
  · rw [strip_pg, h]

theorem strip_addShow (e : Expr) : strip (addShow e) = strip e := by
  induction e with
  | getline c t f ihc iht ihf => simp only [addShow, strip, strip_pgOpt _ _ _ ihc, strip_pgOpt _ _ _ ihf, iht]
  | _ => simp_all [addShow, strip, strip_pg]

theorem pg_idem (p : Nat) (child : Expr) (hp : p ≤ 16) (ih : addShow (addShow child) = addShow child) :
    pg p (pg p child (addShow child)) (addShow (pg p child (addShow child))) = pg p child (addShow child) := by
  unfold pg
  split
  · simp [goPrec, addShow, ih]
    omega
  · simp [goPrec_addShow, *]

theorem pg_zero (c s : Expr) : pg 0 c s = s := by simp [pg]

theorem bopPrec_le (op : BOp) : bopPrec op ≤ 16 := by cases op <;> simp [bopPrec]

/-- the language of the printer theorems: no concatenation node, no `++ --`, `$`, `a[i]`; assignment targets are variables -/
def noConcat : Expr → Bool
  | .group e => noConcat e
  | .unary _ e => noConcat e
  | .binary op l r => op != .concat && noConcat l && noConcat r
  | .cond c t f => noConcat c && noConcat t && noConcat f
  | .assign _ (.var _) r => noConcat r
  | .inArr e _ => noConcat e
  | .num _ | .var _ | .str _ => true
  | _ => false

/-- the printer's tree transformation is idempotent -/
theorem addShow_idem (e : Expr) (hn : noConcat e = true) (pc : Bool) (k : Nat) (hc : canon pc k e = true) :
    addShow (addShow e) = addShow e := by
  induction e generalizing pc k with
  | num i => rfl
  | var i => rfl
  | str i => rfl
  | group e ih =>
    simp only [noConcat] at hn
    simp only [canon, Bool.and_eq_true] at hc
    simp only [addShow, ih hn _ _ hc.2]
  | unary op e ih =>
    simp only [noConcat] at hn
    simp only [canon, Bool.and_eq_true] at hc
    simp only [addShow, pg_idem 10 e (by omega) (ih hn _ _ hc.2)]
  | binary op l r ihl ihr =>
    simp only [noConcat, Bool.and_eq_true] at hn
    simp only [canon, Bool.and_eq_true] at hc
    simp only [addShow, pg_idem _ l (bopPrec_le op) (ihl hn.1.2 _ _ hc.1.1.2), pg_idem _ r (bopPrec_le op) (ihr hn.2 _ _ hc.1.2)]
  | cond c t f ihc iht ihf =>
    simp only [noConcat, Bool.and_eq_true] at hn
    simp only [canon, Bool.and_eq_true] at hc
    simp only [addShow, pg_idem 1 c (by omega) (ihc hn.1.1 _ _ hc.1.1.2), pg_idem 1 t (by omega) (iht hn.1.2 _ _ hc.1.2),
      pg_idem 1 f (by omega) (ihf hn.2 _ _ hc.2)]
  | assign op l r ihl ihr =>
    cases l <;> simp only [noConcat, Bool.false_eq_true] at hn
    simp only [canon, Bool.and_eq_true] at hc
    simp only [addShow, pg_zero, ihr hn _ _ hc.2]
  | inArr e a ih =>
    simp only [noConcat] at hn
    simp only [canon, Bool.and_eq_true] at hc
    simp only [addShow, pg_idem 4 e (by omega) (ih hn _ _ hc.2)]
  | none => simp [noConcat] at hn
  | incr p d e _ => simp [noConcat] at hn
  | field e _ => simp [noConcat] at hn
  | index a i _ => simp [noConcat] at hn
  | getline c t f _ _ _ => simp [noConcat] at hn

theorem showE_eq_render (e : Expr) (hn : noConcat e = true) (pc : Bool) (k : Nat) (hc : canon pc k e = true) :
    showE e = render (addShow e) := by
  induction e generalizing pc k with
  | num i => rfl
  | var i => rfl
  | str i => rfl
  | group e ih =>
    simp only [noConcat] at hn
    simp only [canon, Bool.and_eq_true] at hc
    simp only [showE, addShow, render, ih hn _ _ hc.2]
  | unary op e ih =>
    simp only [noConcat] at hn
    simp only [canon, Bool.and_eq_true] at hc
    simp only [showE, addShow, render, pg_render 10 (.unary op e) e rfl (ih hn _ _ hc.2)]
  | binary op l r ihl ihr =>
    simp only [noConcat, Bool.and_eq_true] at hn
    simp only [canon, Bool.and_eq_true] at hc
    simp only [showE, addShow, render, pg_render (bopPrec op) (.binary op l r) l rfl (ihl hn.1.2 _ _ hc.1.1.2),
      pg_render (bopPrec op) (.binary op l r) r rfl (ihr hn.2 _ _ hc.1.2)]
  | cond c t f ihc iht ihf =>
    simp only [noConcat, Bool.and_eq_true] at hn
    simp only [canon, Bool.and_eq_true] at hc
    simp only [showE, addShow, render, pg_render 1 (.cond c t f) c rfl (ihc hn.1.1 _ _ hc.1.1.2),
      pg_render 1 (.cond c t f) t rfl (iht hn.1.2 _ _ hc.1.2), pg_render 1 (.cond c t f) f rfl (ihf hn.2 _ _ hc.2)]
  | assign op l r ihl ihr =>
    cases l <;> simp only [noConcat, Bool.false_eq_true] at hn
    rename_i a
    simp only [canon, Bool.and_eq_true] at hc
    simp only [showE, addShow, render, pg_render 0 (.assign op (.var a) r) r rfl (ihr hn _ _ hc.2), pg_zero]
    simp [parenT, goPrec]
  | inArr e a ih =>
    simp only [noConcat] at hn
    simp only [canon, Bool.and_eq_true] at hc
    simp only [showE, addShow, render, pg_render 4 (.inArr e a) e rfl (ih hn _ _ hc.2)]
  | none => simp [noConcat] at hn
  | incr p d e _ => simp [noConcat] at hn
  | field e _ => simp [noConcat] at hn
  | index a i _ => simp [noConcat] at hn
  | getline c t f _ _ _ => simp [noConcat] at hn

theorem noConcat_pg (p : Nat) (c s : Expr) (h : noConcat s = true) : noConcat (pg p c s) = true := by
  unfold pg; split <;> simp [noConcat, h]

theorem noConcat_addShow (e : Expr) (hn : noConcat e = true) : noConcat (addShow e) = true := by
  induction e with
  | num i => exact hn
  | var i => exact hn
  | str i => exact hn
  | group e ih => simp only [noConcat] at hn; simp only [addShow, noConcat, ih hn]
  | unary op e ih => simp only [noConcat] at hn; simp only [addShow, noConcat, noConcat_pg _ _ _ (ih hn)]
  | binary op l r ihl ihr =>
    simp only [noConcat, Bool.and_eq_true] at hn
    simp only [addShow, noConcat, Bool.and_eq_true, noConcat_pg _ _ _ (ihl hn.1.2), noConcat_pg _ _ _ (ihr hn.2), hn.1.1, and_self]
  | cond c t f ihc iht ihf =>
    simp only [noConcat, Bool.and_eq_true] at hn
    simp only [addShow, noConcat, Bool.and_eq_true, noConcat_pg _ _ _ (ihc hn.1.1), noConcat_pg _ _ _ (iht hn.1.2),
      noConcat_pg _ _ _ (ihf hn.2), and_self]
  | assign op l r ihl ihr =>
    cases l <;> simp only [noConcat, Bool.false_eq_true] at hn
    simp only [addShow, pg_zero, noConcat, ihr hn]
  | inArr e a ih => simp only [noConcat] at hn; simp only [addShow, noConcat, noConcat_pg _ _ _ (ih hn)]
  | none => simp [noConcat] at hn
  | incr p d e _ => simp [noConcat] at hn
  | field e _ => simp [noConcat] at hn
  | index a i _ => simp [noConcat] at hn
  | getline c t f _ _ _ => simp [noConcat] at hn

theorem canon_false_of_true (e : Expr) : ∀ k, canon true k e = true → canon false k e = true := by
  induction e with
  | num i => intro k h; simpa [canon] using h
  | var i => intro k h; simpa [canon] using h
  | str i => intro k h; simpa [canon] using h
  | group e ih => intro k h; simpa [canon] using h
  | unary op e ih =>
    intro k h
    simp only [canon, Bool.and_eq_true] at h ⊢
    exact ⟨h.1, ih _ h.2⟩
  | binary op l r ihl ihr =>
    intro k h
    simp only [canon, Bool.and_eq_true] at h ⊢
    refine ⟨⟨⟨⟨?_, h.1.1.1.2⟩, ihl _ h.1.1.2⟩, ihr _ h.1.2⟩, h.2⟩
    have := h.1.1.1.1
    cases op <;> simp_all [BOp.stageA]
  | cond c t f ihc iht ihf =>
    intro k h
    simp only [canon, Bool.and_eq_true] at h ⊢
    exact ⟨⟨⟨h.1.1.1, ihc _ h.1.1.2⟩, h.1.2⟩, ihf _ h.2⟩
  | assign op l r ihl ihr =>
    intro k h
    simp only [canon, Bool.and_eq_true] at h ⊢
    exact ⟨h.1, ihr _ h.2⟩
  | none => intro k h; simp [canon] at h
  | inArr e a ih =>
    intro k h
    simp only [canon, Bool.and_eq_true] at h ⊢
    exact ⟨h.1, ih _ h.2⟩
  | incr p d e _ =>
    intro k h
    cases p
    · cases e <;> simpa [canon] using h
    · simpa [canon] using h
  | field e _ => intro k h; simpa [canon] using h
  | index a i _ => intro k h; simpa [canon] using h
  | getline c t f _ _ _ => intro k h; simp [canon] at h

theorem canon_false (pc : Bool) (k : Nat) (e : Expr) (h : canon pc k e = true) : canon false k e = true := by
  cases pc
  · exact h
  · exact canon_false_of_true e k h

theorem canon_pg (pc : Bool) (q p : Nat) (child : Expr) (hq : q ≤ 15) (hq1 : 1 ≤ q) (h0 : canon pc q child = true)
    (ih : ∀ pc k, canon pc k child = true → canon pc k (addShow child) = true) :
    canon pc q (pg p child (addShow child)) = true := by
  unfold pg
  split
  · simp only [canon, Bool.and_eq_true, decide_eq_true_eq]
    exact ⟨hq, ih false 1 (canon_false pc 1 child (canon_mono pc child q 1 h0 hq1))⟩
  · exact ih pc q h0

theorem canon_addShow (e : Expr) (hn : noConcat e = true) : ∀ pc k, canon pc k e = true → canon pc k (addShow e) = true := by
  induction e with
  | num i => intro pc k h; exact h
  | var i => intro pc k h; exact h
  | str i => intro pc k h; exact h
  | group e ih =>
    intro pc k h
    simp only [noConcat] at hn
    simp only [addShow, canon, Bool.and_eq_true] at h ⊢
    exact ⟨h.1, ih hn _ _ h.2⟩
  | unary op e ih =>
    intro pc k h
    simp only [noConcat] at hn
    simp only [addShow, canon, Bool.and_eq_true] at h ⊢
    exact ⟨h.1, canon_pg pc 11 10 e (by omega) (by omega) h.2 (ih hn)⟩
  | binary op l r ihl ihr =>
    intro pc k h
    simp only [noConcat, Bool.and_eq_true] at hn
    simp only [addShow, canon, Bool.and_eq_true] at h ⊢
    have hs := sides_le op
    have h1 : 1 ≤ op.lhs ∧ 1 ≤ op.rhs := by cases op <;> simp [BOp.lhs, BOp.rhs, BOp.assoc, BOp.prec]
    refine ⟨⟨⟨h.1.1.1, canon_pg pc _ _ l hs.1 h1.1 h.1.1.2 (ihl hn.1.2)⟩, canon_pg pc _ _ r hs.2 h1.2 h.1.2 (ihr hn.2)⟩, ?_⟩
    simp [catOk, hn.1.1]
  | cond c t f ihc iht ihf =>
    intro pc k h
    simp only [noConcat, Bool.and_eq_true] at hn
    simp only [addShow, canon, Bool.and_eq_true] at h ⊢
    exact ⟨⟨⟨h.1.1.1, canon_pg pc 3 1 c (by omega) (by omega) h.1.1.2 (ihc hn.1.1)⟩,
      canon_pg false 1 1 t (by omega) (by omega) h.1.2 (iht hn.1.2)⟩, canon_pg pc 1 1 f (by omega) (by omega) h.2 (ihf hn.2)⟩
  | assign op l r ihl ihr =>
    intro pc k h
    cases l <;> simp only [noConcat, Bool.false_eq_true] at hn
    simp only [addShow, pg_zero, canon, Bool.and_eq_true, decide_eq_true_eq] at h ⊢
    exact ⟨h.1, ihr hn _ _ h.2⟩
  | inArr e a ih =>
    intro pc k h
    simp only [noConcat] at hn
    simp only [addShow, canon, Bool.and_eq_true] at h ⊢
    exact ⟨h.1, canon_pg pc 5 4 e (by omega) (by omega) h.2 (ih hn)⟩
  | none => intro pc k h; simp [canon] at h
  | incr p d e _ => simp [noConcat] at hn
  | field e _ => simp [noConcat] at hn
  | index a i _ => simp [noConcat] at hn
  | getline c t f _ _ _ => intro pc k h; simp [canon] at h

end GoawkModel.C20
