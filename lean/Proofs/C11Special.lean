import Proofs.C11Lift
import Proofs.C11Input
import Proofs.C11Stream
/-!
Special variables that everybody may write (FILENAME, FS) and the input bookkeeping.

* `RecInv` / `recInv_stable`: the records delivered by the main input — forgetting the FILENAME each one was shown with — are the
  declarative stream of the operand list, **whatever** the program, the operands or `-v` assign to FILENAME (and FS): the
  operand walk and the stdin fallback read `hadFiles`, `idx`, ARGV / ARGC only. The proviso is `walkEdited = false` (no
  ARGV / ARGC assignment, no nextfile); assignments to FILENAME do not set that flag.
* `nextLine` never touches `$0` nor the FS saved with it: looking for the next record — or finding the end of the input, with
  every `FS=…` operand crossed on the way — leaves NF of the current record alone; a record is split with the FS in force when
  it is set.
-/
namespace GoawkModel.C11

/-- (FNR, record): an item of the stream without its FILENAME -/
abbrev Item2 := Nat × Rec

def dropName (i : Item) : Item2 := (i.2.1, i.2.2)

theorem numbered_dropName (fn fn' : Bytes) : ∀ (k : Nat) (rs : List Rec),
    (numbered fn k rs).map dropName = (numbered fn' k rs).map dropName
  | _, [] => rfl
  | k, r :: rs => by
    simp only [numbered, List.map_cons, numbered_dropName fn fn' (k + 1) rs]
    rfl

def pending2 (s : St) : List Item2 := (pending s).map dropName

def takes2 (s : St) : List Item2 := (s.takes.map TakeInfo.item).map dropName

/-- what is pending, names forgotten, does not depend on FILENAME -/
theorem pending2_filename (s : St) (v : Bytes) (e : Bool) :
    pending2 { s with filename := v, edited := e } = pending2 s := by
  unfold pending2 pending
  simp only [List.map_append, remaining]
  congr 1
  cases s.cur with
  | none => rfl
  | some rs => exact numbered_dropName _ _ _ _

theorem setVarByName_fields3 (s : St) (n v : Bytes) :
    (s.setVarByName n v).walkEdited = s.walkEdited ∧ (s.setVarByName n v).recFs = s.recFs ∧
    (s.setVarByName n v).line = s.line := by
  unfold St.setVarByName
  split
  · simp
  · split
    · simp
    · split <;> simp

/-- the operand walk touches neither the `walkEdited` flag, nor `$0`, nor the FS saved with `$0` -/
theorem openWalk_frame2 : ∀ (n : Nat) (s : St),
    (openWalk n s).2.walkEdited = s.walkEdited ∧ (openWalk n s).2.recFs = s.recFs ∧ (openWalk n s).2.line = s.line
  | 0, s => by
    unfold openWalk
    split
    · exact ⟨rfl, rfl, rfl⟩
    · split <;> simp [St.setFile, St.took]
  | n + 1, s => by
    have ih := openWalk_frame2 n
    unfold openWalk
    simp only [St.fetch]
    split
    · simp [ih, setVarByName_fields3]
    · simp [ih]
    · split <;> simp [ih, St.setFile, St.took]
    · split <;> simp [ih, St.setFile, St.took]

theorem nextLine_frame2 (s : St) :
    (nextLine s).2.walkEdited = s.walkEdited ∧ (nextLine s).2.recFs = s.recFs ∧ (nextLine s).2.line = s.line := by
  unfold nextLine
  split
  · simp [St.took]
  · simp [openWalk_frame2]

/-- while the program has not assigned ARGV / ARGC nor executed nextfile: the records taken so far (oldest first, with their
FNR), followed by what is still pending, are the fixed stream `full` — FILENAME may have been assigned by anybody -/
def RecInv (full : List Item2) (s : St) : Prop :=
  s.walkEdited = false → (takes2 s).reverse ++ pending2 s = full

theorem recInv_of_same {full : List Item2} {s s1 : St} (h : RecInv full s) (he : s1.walkEdited = s.walkEdited)
    (ht : s1.takes = s.takes) (hp : pending2 s1 = pending2 s) : RecInv full s1 := by
  intro h1
  unfold takes2
  rw [ht, hp]
  exact h (by rw [← he]; exact h1)

theorem recInv_nextLine {full : List Item2} {s : St} (h : RecInv full s) : RecInv full (nextLine s).2 := by
  intro h1
  obtain ⟨hp, ht, -⟩ := nextLine_pending s
  rw [(nextLine_frame2 s).1] at h1
  have ht2 : takes2 (nextLine s).2 = (delivered (nextLine s).1 (nextLine s).2).map dropName ++ takes2 s := by
    unfold takes2
    rw [ht, List.map_append]
  have hp2 : pending2 s = (delivered (nextLine s).1 (nextLine s).2).map dropName ++ pending2 (nextLine s).2 := by
    unfold pending2
    rw [hp, List.map_append]
  have hr : ((delivered (nextLine s).1 (nextLine s).2).map dropName).reverse =
      (delivered (nextLine s).1 (nextLine s).2).map dropName := by
    rw [← List.map_reverse, delivered_reverse]
  rw [ht2, List.reverse_append, hr, List.append_assoc, ← hp2]
  exact h h1

theorem recInv_walkEdited {full : List Item2} {s : St} (he : s.walkEdited = true) : RecInv full s := by
  intro h1
  rw [he] at h1
  cases h1

theorem recInv_stable (full : List Item2) : Stable (RecInv full) where
  emit s tag h := recInv_of_same h rfl rfl rfl
  ev s e _ h := recInv_of_same h rfl rfl rfl
  exitSome s n h := recInv_of_same h rfl rfl rfl
  gl s h := by
    have h1 := recInv_nextLine h
    unfold doGetline
    rcases hn : nextLine s with ⟨t, s1⟩
    rw [hn] at h1
    cases t <;> exact recInv_of_same h1 rfl rfl rfl
  glv s v h := by
    have h1 := recInv_nextLine h
    unfold doGetlineVar
    rcases hn : nextLine s with ⟨t, s1⟩
    rw [hn] at h1
    cases t <;> exact recInv_of_same h1 rfl rfl rfl
  glf s f h := by
    unfold doGetlineFile readStream
    cases lookup f s.streams with
    | some rs => cases rs <;> exact recInv_of_same h rfl rfl rfl
    | none =>
      cases lookup f s.fs with
      | none => exact recInv_of_same h rfl rfl rfl
      | some rs => cases rs <;> exact recInv_of_same h rfl rfl rfl
  glvf s v f h := by
    unfold doGetlineVarFile readStream
    cases lookup f s.streams with
    | some rs => cases rs <;> exact recInv_of_same h rfl rfl rfl
    | none =>
      cases lookup f s.fs with
      | none => exact recInv_of_same h rfl rfl rfl
      | some rs => cases rs <;> exact recInv_of_same h rfl rfl rfl
  argv s i v _ := recInv_walkEdited rfl
  argc s n _ := recInv_walkEdited rfl
  close s f h := recInv_of_same h rfl rfl rfl
  fname s v h := recInv_of_same h rfl rfl (pending2_filename s v true)
  fsep s v h := recInv_of_same h rfl rfl rfl
  enter s h := recInv_of_same h rfl rfl rfl
  leave s h := recInv_of_same h rfl rfl rfl
  take s r s1 h hn := by
    have h1 := recInv_nextLine h
    rw [hn] at h1
    exact recInv_of_same h1 rfl rfl rfl
  eof s s1 h hn := by
    have h1 := recInv_nextLine h
    rw [hn] at h1
    exact h1
  err s s1 h hn := by
    have h1 := recInv_nextLine h
    rw [hn] at h1
    exact h1
  nextfile s _ := recInv_walkEdited rfl
  visit s v h := recInv_of_same h rfl rfl rfl

/-- an operand that names no input: an assignment or the empty string -/
def namesNoInput (o : Bytes) : Bool :=
  match classify o with
  | .assign _ _ => true
  | .empty => true
  | _ => false

/-- when no operand names an input, the stream is stdin under the name `-` — by the operand list alone -/
theorem streamSpec_no_input (fs : List (Bytes × List Rec)) : ∀ (ops : List Bytes) (stdin : List Rec),
    (∀ o ∈ ops, namesNoInput o = true) → streamSpec fs ops false stdin = numbered [45] 0 stdin
  | [], stdin, _ => by simp [streamSpec]
  | o :: os, stdin, h => by
    have ho := h o (List.mem_cons_self ..)
    have ih := streamSpec_no_input fs os stdin (fun o' ho' => h o' (List.mem_cons_of_mem _ ho'))
    unfold streamSpec
    unfold namesNoInput at ho
    split <;> simp_all

end GoawkModel.C11
