import GoawkModel.C04Canon
/-! C04 — the parser model reads back canonical trees: `parse_canon`. Core Lean only. -/
namespace GoawkModel.C04

@[simp] theorem bindR_ok (e : Expr) (rest : List Tok) (f : Expr → List Tok → Res) :
    bindR (.ok (e, rest)) f = f e rest := rfl

theorem hd_cons (t : Tok) (ts : List Tok) : hd (t :: ts) = t := rfl

/-! ### tails pass when the next token is not theirs -/

theorem loopL_stop (H : Parser) (isOp : Tok → Option BOp) (nl : Bool) (n : Nat) (acc : Expr) (ts : List Tok)
    (h : isOp (hd ts) = Option.none) : loopL H isOp nl n acc ts = .ok (acc, ts) := by
  cases n with
  | zero => rfl
  | succ n =>
    cases ts with
    | nil => rfl
    | cons t rest => simp only [hd] at h; simp [loopL, h]

theorem loopC_stop (H : Parser) (n : Nat) (acc : Expr) (ts : List Tok)
    (h : concatStart (hd ts) = false) : loopC H n acc ts = .ok (acc, ts) := by
  cases n with
  | zero => rfl
  | succ n => simp [loopC, h]

theorem loopIn_stop (n : Nat) (acc : Expr) (ts : List Tok) (h : hd ts ≠ .in_) : loopIn n acc ts = .ok (acc, ts) := by
  cases n with
  | zero => rfl
  | succ n =>
    cases ts with
    | nil => rfl
    | cons t rest =>
      cases t <;> first | rfl | (exfalso; exact h rfl)

theorem postT_pass (e : Expr) (ts : List Tok) (pc : Bool) (h : cl pc (hd ts) < 13) : postT e ts = .ok (e, ts) := by
  cases ts with
  | nil => rfl
  | cons t rest => cases t <;> first | rfl | (simp [hd, cl] at h)

theorem powT_pass (b : Back) (e : Expr) (ts : List Tok) (pc : Bool) (h : cl pc (hd ts) < 12) : powT b e ts = .ok (e, ts) := by
  cases ts with
  | nil => rfl
  | cons t rest => cases t <;> first | rfl | (simp [hd, cl] at h)

theorem mulT_pass (b : Back) (e : Expr) (ts : List Tok) (pc : Bool) (h : cl pc (hd ts) < 10) : mulT b e ts = .ok (e, ts) := by
  apply loopL_stop
  cases ts with
  | nil => rfl
  | cons t rest => cases t <;> first | rfl | (simp [hd, cl] at h)

theorem addT_pass (b : Back) (e : Expr) (ts : List Tok) (pc : Bool) (h : cl pc (hd ts) < 9) : addT b e ts = .ok (e, ts) := by
  apply loopL_stop
  cases ts with
  | nil => rfl
  | cons t rest => cases t <;> first | rfl | (simp [hd, cl] at h)

theorem concatT_pass (b : Back) (e : Expr) (ts : List Tok) (pc : Bool) (h : cl pc (hd ts) < 8) : concatT b e ts = .ok (e, ts) := by
  apply loopC_stop
  cases ts with
  | nil => rfl
  | cons t rest => cases t <;> first | rfl | (simp [hd, cl] at h)

theorem cmpOp_none (pc : Bool) (t : Tok) (h : cl pc t < 7) : cmpOp pc t = Option.none := by
  cases t <;> first | rfl | skip
  case cmp c =>
    simp only [cl] at h
    simp only [cmpOp]
    split at h
    · simp_all
    · omega

theorem compareT_pass (b : Back) (pc : Bool) (e : Expr) (ts : List Tok) (h : cl pc (hd ts) < 7) :
    compareT b pc e ts = .ok (e, ts) := by
  cases ts with
  | nil => rfl
  | cons t rest => simp only [hd] at h; simp [compareT, cmpOp_none pc t h]

theorem matchT_pass (b : Back) (pc : Bool) (e : Expr) (ts : List Tok) (h : cl pc (hd ts) < 6) :
    matchT b pc e ts = .ok (e, ts) := by
  cases ts with
  | nil => rfl
  | cons t rest => cases t <;> first | rfl | (simp [hd, cl] at h)

theorem inT_pass (pc : Bool) (e : Expr) (ts : List Tok) (h : cl pc (hd ts) < 5) : inT e ts = .ok (e, ts) := by
  apply loopIn_stop
  intro h'
  rw [h'] at h
  simp [cl] at h

theorem andT_pass (b : Back) (pc : Bool) (e : Expr) (ts : List Tok) (h : cl pc (hd ts) < 4) : andT b pc e ts = .ok (e, ts) := by
  apply loopL_stop
  cases ts with
  | nil => rfl
  | cons t rest => cases t <;> first | rfl | (simp [hd, cl] at h)

theorem orT_pass (b : Back) (pc : Bool) (e : Expr) (ts : List Tok) (h : cl pc (hd ts) < 3) : orT b pc e ts = .ok (e, ts) := by
  apply loopL_stop
  cases ts with
  | nil => rfl
  | cons t rest => cases t <;> first | rfl | (simp [hd, cl] at h)

theorem condT_pass (b : Back) (pc : Bool) (e : Expr) (ts : List Tok) (h : cl pc (hd ts) < 2) : condT b pc e ts = .ok (e, ts) := by
  cases ts with
  | nil => rfl
  | cons t rest => cases t <;> first | rfl | (simp [hd, cl] at h)

theorem assignT_pass (b : Back) (pc : Bool) (e : Expr) (ts : List Tok) (h : cl pc (hd ts) < 2) : assignT b pc e ts = .ok (e, ts) := by
  cases ts with
  | nil => rfl
  | cons t rest => cases t <;> first | rfl | (simp [hd, cl] at h)

theorem getlineP_pass (b : Back) (ts : List Tok) (e : Expr) (rest : List Tok)
    (h0 : condP b false ts = .ok (e, rest)) (h : cl false (hd rest) < 2) : getlineP b ts = .ok (e, rest) := by
  simp only [getlineP, h0, bindR_ok]
  cases rest with
  | nil => rfl
  | cons t rest' => cases t <;> first | rfl | (simp [hd, cl] at h)

/-! ### descending from a tighter level to a looser one -/

theorem desc_step (b : Back) (pc : Bool) (j : Nat) (ts : List Tok) (e : Expr) (rest : List Tok)
    (h0 : lv b pc (j+1) ts = .ok (e, rest)) (h : cl pc (hd rest) < j) : lv b pc j ts = .ok (e, rest) := by
  match j with
  | 0 => omega
  | 1 =>
    simp only [lv] at h0 ⊢
    simp only [assignP]
    cases pc with
    | true => simp only [if_true, h0, bindR_ok]; exact assignT_pass b true e rest (by omega)
    | false =>
      simp only [Bool.false_eq_true, if_false, getlineP_pass b ts e rest h0 (by omega), bindR_ok]
      exact assignT_pass b false e rest (by omega)
  | 2 => simp only [lv] at h0 ⊢; simp only [condP, h0, bindR_ok]; exact condT_pass b pc e rest (by omega)
  | 3 => simp only [lv] at h0 ⊢; simp only [orP, h0, bindR_ok]; exact orT_pass b pc e rest (by omega)
  | 4 => simp only [lv] at h0 ⊢; simp only [andP, h0, bindR_ok]; exact andT_pass b pc e rest (by omega)
  | 5 => simp only [lv] at h0 ⊢; simp only [inP, h0, bindR_ok]; exact inT_pass pc e rest (by omega)
  | 6 => simp only [lv] at h0 ⊢; simp only [matchP, h0, bindR_ok]; exact matchT_pass b pc e rest (by omega)
  | 7 => simp only [lv] at h0 ⊢; simp only [compareP, h0, bindR_ok]; exact compareT_pass b pc e rest (by omega)
  | 8 => simp only [lv] at h0 ⊢; simp only [concatP, h0, bindR_ok]; exact concatT_pass b e rest pc (by omega)
  | 9 => simp only [lv] at h0 ⊢; simp only [addP, h0, bindR_ok]; exact addT_pass b e rest pc (by omega)
  | 10 => simp only [lv] at h0 ⊢; simp only [mulP, h0, bindR_ok]; exact mulT_pass b e rest pc (by omega)
  | 11 => simp only [lv] at h0 ⊢; exact h0
  | 12 => simp only [lv] at h0 ⊢; simp only [powP, h0, bindR_ok]; exact powT_pass b e rest pc (by omega)
  | 13 => simp only [lv] at h0 ⊢; simp only [postP, h0, bindR_ok]; exact postT_pass e rest pc (by omega)
  | j+14 => simp only [lv] at h0 ⊢; exact h0

theorem descend (b : Back) (pc : Bool) (k : Nat) (ts : List Tok) (e : Expr) (rest : List Tok) (h : cl pc (hd rest) < k) :
    ∀ d, lv b pc (k+d) ts = .ok (e, rest) → lv b pc k ts = .ok (e, rest) := by
  intro d
  induction d with
  | zero => intro h0; exact h0
  | succ d ih => intro h0; exact ih (desc_step b pc (k+d) ts e rest h0 (by omega))

theorem descend' (b : Back) (pc : Bool) (k k' : Nat) (ts : List Tok) (e : Expr) (rest : List Tok) (hk : k ≤ k')
    (h : cl pc (hd rest) < k) (h0 : lv b pc k' ts = .ok (e, rest)) : lv b pc k ts = .ok (e, rest) := by
  obtain ⟨d, rfl⟩ := Nat.exists_eq_add_of_le hk
  exact descend b pc k ts e rest h d h0

end GoawkModel.C04

namespace GoawkModel.C04

/-! ### the round trip on canonical trees -/

theorem lv_ge14 (b : Back) (pc : Bool) (k : Nat) (h : 14 ≤ k) : lv b pc k = primaryF b := by
  obtain ⟨j, rfl⟩ := Nat.exists_eq_add_of_le h
  rw [Nat.add_comm]
  rfl

theorem from_primary (b : Back) (pc : Bool) (k : Nat) (ts : List Tok) (e : Expr) (rest : List Tok)
    (h0 : primaryF b ts = .ok (e, rest)) (h : cl pc (hd rest) < k) : lv b pc k ts = .ok (e, rest) := by
  by_cases hk : k ≤ 14
  · exact descend' b pc k 14 ts e rest hk h h0
  · rw [lv_ge14 b pc k (by omega)]; exact h0

theorem cl_ne_one (pc : Bool) (t : Tok) : cl pc t ≠ 1 := by
  cases t <;> simp [cl] <;> split <;> simp

theorem cl_ne_eleven (pc : Bool) (t : Tok) : cl pc t ≠ 11 := by
  cases t <;> simp [cl] <;> split <;> simp

theorem skipNl_cons (t : Tok) (ts : List Tok) (h : t ≠ .newline) : skipNl (t :: ts) = t :: ts := by
  cases t <;> first | rfl | (exfalso; exact h rfl)

/-- ` < file` of a getline -/
def fileToks (f : Expr) : List Tok := if f = .none then [] else .cmp .lt :: render f

theorem fileToks_none : fileToks .none = [] := rfl
theorem fileToks_some (f : Expr) (h : f ≠ .none) : fileToks f = .cmp .lt :: render f := by
  simp [fileToks, h]

theorem render_getline_none (t f : Expr) : render (.getline .none t f) = .getline :: (render t ++ fileToks f) := by
  simp [render, fileToks]

theorem render_getline_cmd (c t f : Expr) (h : c ≠ .none) :
    render (.getline c t f) = render c ++ (.pipe :: .getline :: (render t ++ fileToks f)) := by
  simp [render, fileToks, h]

/-- tokens with which the rendering of a canonical tree can start -/
def isHead : Tok → Bool
  | .num _ | .name _ | .str _ | .lparen | .sub | .add | .not | .dollar | .incr | .decr | .getline | .at => true
  | _ => false

theorem render_hd (e : Expr) : ∀ (pc : Bool) (k : Nat), canon pc k e = true →
    ∃ t ts, render e = t :: ts ∧ isHead t = true := by
  induction e with
  | num i => intros; exact ⟨_, _, rfl, rfl⟩
  | var i => intros; exact ⟨_, _, rfl, rfl⟩
  | str i => intros; exact ⟨_, _, rfl, rfl⟩
  | group e _ => intros; exact ⟨_, _, rfl, rfl⟩
  | unary op e _ => intro pc k _; cases op <;> exact ⟨_, _, rfl, rfl⟩
  | binary op l r ihl _ =>
    intro pc k hc
    simp only [canon, Bool.and_eq_true] at hc
    obtain ⟨t, ts, h1, h2⟩ := ihl pc _ hc.1.1.2
    exact ⟨t, ts ++ (bopToks op ++ render r), by simp only [render, h1, List.cons_append, List.append_assoc], h2⟩
  | cond c t f ihc _ _ =>
    intro pc k hc
    simp only [canon, Bool.and_eq_true] at hc
    obtain ⟨t', ts, h1, h2⟩ := ihc pc _ hc.1.1.2
    exact ⟨t', ts ++ (.question :: render t ++ .colon :: render f), by simp only [render, h1, List.cons_append, List.append_assoc], h2⟩
  | assign op l r ihl _ =>
    intro pc k hc
    simp only [canon, Bool.and_eq_true] at hc
    obtain ⟨t, ts, h1, h2⟩ := ihl false _ hc.1.2
    exact ⟨t, ts ++ (.asg op :: render r), by simp only [render, h1, List.cons_append], h2⟩
  | inArr e a ih =>
    intro pc k hc
    simp only [canon, Bool.and_eq_true] at hc
    obtain ⟨t, ts, h1, h2⟩ := ih pc _ hc.2
    exact ⟨t, ts ++ [.in_, .name a], by simp only [render, h1, List.cons_append], h2⟩
  | none => intro pc k hc; simp [canon] at hc
  | namedField e _ => intro pc k hc; exact ⟨_, _, rfl, rfl⟩
  | incr p d e _ =>
    intro pc k hc
    cases p
    · cases e <;> simp [canon] at hc <;> cases d <;> exact ⟨_, _, rfl, rfl⟩
    · cases d <;> exact ⟨_, _, rfl, rfl⟩
  | field e _ => intro pc k hc; exact ⟨_, _, rfl, rfl⟩
  | index a i _ => intro pc k hc; exact ⟨_, _, rfl, rfl⟩
  | getline c t f ihc _ _ =>
    intro pc k hc
    simp only [canon, Bool.and_eq_true] at hc
    by_cases hcn : c = .none
    · subst hcn; exact ⟨.getline, _, render_getline_none t f, rfl⟩
    · simp only [beq_iff_eq, hcn, if_false, Bool.and_eq_true] at hc
      obtain ⟨t', ts, h1, h2⟩ := ihc false 3 hc.2.2
      exact ⟨t', ts ++ (.pipe :: .getline :: (render t ++ fileToks f)), by rw [render_getline_cmd c t f hcn, h1]; rfl, h2⟩

theorem hd_render_append (e : Expr) (pc : Bool) (k : Nat) (Y : List Tok) (hc : canon pc k e = true) :
    hd (render e ++ Y) = hd (render e) ∧ isHead (hd (render e)) = true := by
  obtain ⟨t, ts, h1, h2⟩ := render_hd e pc k hc
  rw [h1]; exact ⟨rfl, h2⟩

theorem skipNl_render (e : Expr) (pc : Bool) (k : Nat) (Y : List Tok) (hc : canon pc k e = true) :
    skipNl (render e ++ Y) = render e ++ Y := by
  obtain ⟨t, ts, h1, h2⟩ := render_hd e pc k hc
  rw [h1]
  exact skipNl_cons t _ (by intro h; rw [h] at h2; simp [isHead] at h2)

def opsOf : Nat → Tok → Option BOp
  | 3 => orOp
  | 4 => andOp
  | 9 => addOp
  | 10 => mulOp
  | _ => fun _ => Option.none

def nlOf (h : Nat) : Bool := h == 3 || h == 4

def LeftLevel (h : Nat) : Prop := h = 3 ∨ h = 4 ∨ h = 9 ∨ h = 10

theorem lv_left (b : Back) (pc : Bool) (h : Nat) (ts : List Tok) (hl : LeftLevel h) :
    lv b pc h ts = bindR (lv b pc (h+1) ts) (fun e r => loopL (lv b pc (h+1)) (opsOf h) (nlOf h) r.length e r) := by
  rcases hl with rfl | rfl | rfl | rfl <;> rfl

/-- the loop of a looping level with explicit fuel: `binaryLeft` (3, 4, 9, 10), `_in` (5), `concat` (8) -/
def loopAt (b : Back) (pc : Bool) : Nat → Nat → Expr → List Tok → Res
  | 3 => loopL (lv b pc 4) orOp true
  | 4 => loopL (lv b pc 5) andOp true
  | 5 => loopIn
  | 8 => loopC (lv b pc 9)
  | 9 => loopL (lv b pc 10) addOp false
  | 10 => loopL (lv b pc 11) mulOp false
  | _ => fun _ e ts => .ok (e, ts)

def LoopLevel (h : Nat) : Prop := h = 3 ∨ h = 4 ∨ h = 5 ∨ h = 8 ∨ h = 9 ∨ h = 10

theorem LeftLevel.loop {h : Nat} (hl : LeftLevel h) : LoopLevel h := by
  rcases hl with rfl | rfl | rfl | rfl <;> simp [LoopLevel]

theorem lv_loop (b : Back) (pc : Bool) (h : Nat) (ts : List Tok) (hl : LoopLevel h) :
    lv b pc h ts = bindR (lv b pc (h+1) ts) (fun e r => loopAt b pc h r.length e r) := by
  rcases hl with rfl | rfl | rfl | rfl | rfl | rfl <;> rfl

theorem loopAt_left (b : Back) (pc : Bool) (h : Nat) (hl : LeftLevel h) :
    loopAt b pc h = loopL (lv b pc (h+1)) (opsOf h) (nlOf h) := by
  rcases hl with rfl | rfl | rfl | rfl <;> rfl

def BOp.tok : BOp → Tok
  | .or => .or | .and => .and | .match_ => .match_ false | .notMatch => .match_ true | .cmp c => .cmp c | .concat => .eof
  | .add => .add | .sub => .sub | .mul => .mul | .div => .div | .mod => .mod | .pow => .pow

theorem left_facts (pc : Bool) (op : BOp) (hs : op.stageA pc = true) (hl : LeftLevel op.prec) :
    op.lhs = op.prec ∧ op.rhs = op.prec + 1 ∧ opsOf op.prec op.tok = some op ∧ bopToks op = [op.tok] ∧
    cl pc op.tok = op.prec := by
  cases op <;> simp_all [BOp.stageA, LeftLevel, BOp.prec, BOp.lhs, BOp.rhs, BOp.assoc, opsOf, BOp.tok, bopToks, cl,
    orOp, andOp, addOp, mulOp]

theorem opsOf_none (pc : Bool) (h : Nat) (t : Tok) (hc : cl pc t < h) : opsOf h t = Option.none := by
  unfold opsOf
  split
  · cases t <;> first | rfl | (simp [cl] at hc)
  · cases t <;> first | rfl | (simp [cl] at hc)
  · cases t <;> first | rfl | (simp [cl] at hc)
  · cases t <;> first | rfl | (simp [cl] at hc)
  · rfl

theorem stageA_cases (pc : Bool) (op : BOp) (hs : op.stageA pc = true) :
    LeftLevel op.prec ∨ op = .pow ∨ (∃ c, op = .cmp c ∧ cmpOp pc (.cmp c) = some (.cmp c) ∧ cl pc (.cmp c) = 7) ∨
    op = .concat ∨ op = .match_ ∨ op = .notMatch := by
  cases op <;> simp_all [BOp.stageA, LeftLevel, BOp.prec, cmpOp, cl]
  case cmp c =>
    intro hp
    rcases hs with h | h
    · simp [h] at hp
    · exact h

def PA (e : Expr) : Prop :=
  ∀ (n : Nat) (pc : Bool) (k : Nat) (rest : List Tok), depth e ≤ n → canon pc k e = true → cl pc (hd rest) < k →
    lv (ps (n+1)) pc k (render e ++ rest) = .ok (e, rest)

def PB (e : Expr) : Prop :=
  ∀ (n : Nat) (pc : Bool) (h : Nat) (Y : List Tok) (res : Res), depth e ≤ n → LoopLevel h → canon pc h e = true →
    cl pc (hd Y) < h + 1 →
    (∀ m, Y.length ≤ m → loopAt (ps (n+1)) pc h m e Y = res) →
    lv (ps (n+1)) pc h (render e ++ Y) = res

theorem PB_of_PA (e : Expr) (hA : PA e) (n : Nat) (pc : Bool) (h : Nat) (Y : List Tok) (res : Res) (hd' : depth e ≤ n)
    (hl : LoopLevel h) (hc : canon pc (h+1) e = true) (hY : cl pc (hd Y) < h + 1)
    (hcont : ∀ m, Y.length ≤ m → loopAt (ps (n+1)) pc h m e Y = res) :
    lv (ps (n+1)) pc h (render e ++ Y) = res := by
  rw [lv_loop _ _ _ _ hl, hA n pc (h+1) Y hd' hc hY]
  exact hcont Y.length (Nat.le_refl _)

theorem ps_expr (m : Nat) : (ps (m+2)).expr = lv (ps (m+1)) false 1 := rfl
theorem ps_printExpr (m : Nat) : (ps (m+2)).printExpr = lv (ps (m+1)) true 1 := rfl
theorem ps_pow (m : Nat) (pc : Bool) : (ps (m+2)).pow = lv (ps (m+1)) pc 12 := rfl
theorem ps_pow11 (m : Nat) (pc : Bool) : (ps (m+2)).pow = lv (ps (m+1)) pc 11 := rfl

end GoawkModel.C04
