import Proofs.C01Stmt
/-!
# C01 Stage B — framework: moves between offsets of a code fragment (forward and backward jumps), halting, outcomes
-/
namespace GoawkModel.C01
variable {S : Sem}

def stopOf : Eff S → Option (VmOut S)
  | .stopNext w => some (.next w)
  | .stopExit w => some (.exit w)
  | .stopRet v w => some (.ret v w)
  | _ => none

/-- the VM, started in `st`, stops with `next` / `exit` outcome `o` -/
def Halts (S : Sem) (C : Code) (st : St S) (o : VmOut S) : Prop :=
  ∃ st' i e, Reach S C st st' ∧ fetch C st'.pc = some i ∧ execInstr S i st'.stk st'.w = some e ∧ stopOf e = some o

theorem Halts.of_reach {C : Code} {a b : St S} {o : VmOut S} (h : Reach S C a b) (hb : Halts S C b o) : Halts S C a o := by
  obtain ⟨st', i, e, r, hf, he, ho⟩ := hb
  exact ⟨st', i, e, h.trans r, hf, he, ho⟩

/-- wherever `c` sits, the VM goes from offset `i` of `c` to offset `j` of `c` -/
def Moves (S : Sem) (c : Code) (i : Nat) (s : List S.V) (w : S.W) (j : Nat) (s' : List S.V) (w' : S.W) : Prop :=
  ∀ C pc, CodeAt C pc c → Reach S C ⟨pc + i, s, w⟩ ⟨pc + j, s', w'⟩

def MovesHalt (S : Sem) (c : Code) (i : Nat) (s : List S.V) (w : S.W) (o : VmOut S) : Prop :=
  ∀ C pc, CodeAt C pc c → Halts S C ⟨pc + i, s, w⟩ o

theorem Moves.refl (c : Code) (i : Nat) (s : List S.V) (w : S.W) : Moves S c i s w i s w := fun _ _ _ => .refl _

theorem Moves.trans {c : Code} {i j k : Nat} {s s1 s2 : List S.V} {w w1 w2 : S.W}
    (h1 : Moves S c i s w j s1 w1) (h2 : Moves S c j s1 w1 k s2 w2) : Moves S c i s w k s2 w2 :=
  fun C pc hc => (h1 C pc hc).trans (h2 C pc hc)

theorem Moves.thenHalt {c : Code} {i j : Nat} {s s1 : List S.V} {w w1 : S.W} {o : VmOut S}
    (h1 : Moves S c i s w j s1 w1) (h2 : MovesHalt S c j s1 w1 o) : MovesHalt S c i s w o :=
  fun C pc hc => Halts.of_reach (h1 C pc hc) (h2 C pc hc)

theorem CodeAt.mid {C : Code} {pc : Nat} {pre mid post : Code} (h : CodeAt C pc (pre ++ mid ++ post)) :
    CodeAt C (pc + csize pre) mid := h.left.right

theorem Moves.embed {mid : Code} {i j : Nat} {s s' : List S.V} {w w' : S.W} (pre post : Code)
    (h : Moves S mid i s w j s' w') : Moves S (pre ++ mid ++ post) (csize pre + i) s w (csize pre + j) s' w' := by
  intro C pc hc
  have := h C (pc + csize pre) hc.mid
  simpa [Nat.add_assoc] using this

theorem MovesHalt.embed {mid : Code} {i : Nat} {s : List S.V} {w : S.W} {o : VmOut S} (pre post : Code)
    (h : MovesHalt S mid i s w o) : MovesHalt S (pre ++ mid ++ post) (csize pre + i) s w o := by
  intro C pc hc
  have := h C (pc + csize pre) hc.mid
  simpa [Nat.add_assoc] using this

/-- the VM gets to a `Return` with `v` on top of the otherwise unchanged stack `s` (or to a `ReturnNull` with stack `s`) -/
def MovesRet (S : Sem) (c : Code) (i : Nat) (s : List S.V) (w : S.W) (v : S.V) (w' : S.W) : Prop :=
  ∀ C pc, CodeAt C pc c → ∃ st', Reach S C ⟨pc + i, s, w⟩ st' ∧ st'.w = w' ∧
    ((fetch C st'.pc = some .ret ∧ st'.stk = v :: s) ∨ (fetch C st'.pc = some .retNull ∧ st'.stk = s ∧ v = S.nullV))

theorem MovesRet.embed {mid : Code} {i : Nat} {s : List S.V} {w : S.W} {v : S.V} {w' : S.W} (pre post : Code)
    (h : MovesRet S mid i s w v w') : MovesRet S (pre ++ mid ++ post) (csize pre + i) s w v w' := by
  intro C pc hc
  have := h C (pc + csize pre) hc.mid
  simpa [Nat.add_assoc] using this

theorem Moves.thenRet {c : Code} {i j : Nat} {s : List S.V} {w w1 : S.W} {v : S.V} {w' : S.W}
    (h1 : Moves S c i s w j s w1) (h2 : MovesRet S c j s w1 v w') : MovesRet S c i s w v w' := by
  intro C pc hc
  obtain ⟨st', r, hw, hh⟩ := h2 C pc hc
  exact ⟨st', (h1 C pc hc).trans r, hw, hh⟩

theorem MovesRet.toHalt {c : Code} {i : Nat} {s : List S.V} {w : S.W} {v : S.V} {w' : S.W}
    (h : MovesRet S c i s w v w') : MovesHalt S c i s w (.ret v w') := by
  intro C pc hc
  obtain ⟨st', r, hw, hh⟩ := h C pc hc
  rcases hh with ⟨hf, hs⟩ | ⟨hf, hs, hv⟩
  · exact ⟨st', .ret, .stopRet v st'.w, r, hf, by rw [hs]; rfl, by simp [stopOf, hw]⟩
  · exact ⟨st', .retNull, .stopRet S.nullV st'.w, r, hf, rfl, by simp [stopOf, hw, hv]⟩

theorem Moves.ofFrag {c : Code} {s s' : List S.V} {w w' : S.W} (h : Frag S c s w s' w') : Moves S c 0 s w (csize c) s' w' :=
  fun C pc hc => by simpa using h C pc hc

theorem CodeAt.fetch_mid {C : Code} {pc : Nat} {pre post : Code} {i : Instr} (h : CodeAt C pc (pre ++ i :: post)) :
    C01.fetch C (pc + csize pre) = some i := (CodeAt.right h).fetch

/-- an instruction inside `c` that falls through -/
theorem Moves.stepNext {pre post : Code} {i : Instr} {s s' : List S.V} {w w' : S.W}
    (h : execInstr S i s w = some (.next s' w')) :
    Moves S (pre ++ i :: post) (csize pre) s w (csize pre + i.size) s' w' := by
  intro C pc hc
  apply Reach.one
  simp [stepTo, hc.fetch_mid, h, Nat.add_assoc]

/-- an instruction inside `c` that jumps (forward or backward) to offset `j` of `c` -/
theorem Moves.stepJump {pre post : Code} {i : Instr} {off : Int} {j : Nat} {s s' : List S.V} {w w' : S.W}
    (h : execInstr S i s w = some (.jump off s' w')) (hj : ((csize pre + i.size : Nat) : Int) + off = j) :
    Moves S (pre ++ i :: post) (csize pre) s w j s' w' := by
  intro C pc hc
  apply Reach.one
  simp only [stepTo, hc.fetch_mid, h]
  congr 2
  omega

theorem MovesHalt.step {pre post : Code} {i : Instr} {e : Eff S} {o : VmOut S} {s : List S.V} {w : S.W}
    (h : execInstr S i s w = some e) (ho : stopOf e = some o) : MovesHalt S (pre ++ i :: post) (csize pre) s w o :=
  fun C pc hc => ⟨_, i, e, .refl _, hc.fetch_mid, h, ho⟩

/-- where the VM must get to for each outcome of a statement: the given offsets of `c` for normal / break / continue,
or a halt with the `next` / `exit` outcome; the stack is unchanged -/
def OutAt (S : Sem) (c : Code) (i tn tb tc : Nat) (stk : List S.V) (w : S.W) : Out S.V S.W → Prop
  | .normal w' => Moves S c i stk w tn stk w'
  | .brk w' => Moves S c i stk w tb stk w'
  | .cont w' => Moves S c i stk w tc stk w'
  | .next w' => MovesHalt S c i stk w (.next w')
  | .exit w' => MovesHalt S c i stk w (.exit w')
  | .ret v w' => MovesRet S c i stk w v w'

theorem OutAt.embed {mid : Code} {i tn tb tc : Nat} {stk : List S.V} {w : S.W} {o : Out S.V S.W} (pre post : Code)
    (h : OutAt S mid i tn tb tc stk w o) :
    OutAt S (pre ++ mid ++ post) (csize pre + i) (csize pre + tn) (csize pre + tb) (csize pre + tc) stk w o := by
  cases o <;> first | exact Moves.embed pre post h | exact MovesHalt.embed pre post h | exact MovesRet.embed pre post h

theorem OutAt.prepend {c : Code} {i j tn tb tc : Nat} {stk : List S.V} {w w1 : S.W} {o : Out S.V S.W}
    (h1 : Moves S c i stk w j stk w1) (h2 : OutAt S c j tn tb tc stk w1 o) : OutAt S c i tn tb tc stk w o := by
  cases o <;> first | exact Moves.trans h1 h2 | exact Moves.thenHalt h1 h2 | exact Moves.thenRet h1 h2

theorem OutAt.cast {c : Code} {i i' tn tb tc tn' tb' tc' : Nat} {stk : List S.V} {w : S.W} {o : Out S.V S.W}
    (h : OutAt S c i tn tb tc stk w o) (hi : i = i') (hn : tn = tn') (hb : tb = tb') (hc : tc = tc') :
    OutAt S c i' tn' tb' tc' stk w o := by subst hi hn hb hc; exact h

theorem OutAt.code {c c' : Code} {i tn tb tc : Nat} {stk : List S.V} {w : S.W} {o : Out S.V S.W}
    (h : OutAt S c i tn tb tc stk w o) (hc : c = c') : OutAt S c' i tn tb tc stk w o := by subst hc; exact h

/-- the normal target is irrelevant for an outcome that is not normal -/
theorem OutAt.notNormal {c : Code} {i tn tn' tb tc : Nat} {stk : List S.V} {w : S.W} {o : Out S.V S.W}
    (h : OutAt S c i tn tb tc stk w o) (hn : ∀ w', o ≠ .normal w') : OutAt S c i tn' tb tc stk w o := by
  cases o with
  | normal w' => exact absurd rfl (hn w')
  | _ => exact h

/-! ### sizes -/

@[simp] theorem cJumpT_size (c : Expr) (off : Int) : (cJumpT c off).size = 2 := by
  cases c with
  | cmp op l r => cases op <;> rfl
  | _ => rfl
@[simp] theorem cJumpF_size (c : Expr) (off : Int) : (cJumpF c off).size = 2 := by
  cases c <;> rfl

@[simp] theorem size_jump (o : Int) : (Instr.jump o).size = 2 := rfl
@[simp] theorem size_next : Instr.next.size = 1 := rfl
@[simp] theorem size_exit : Instr.exit.size = 1 := rfl
@[simp] theorem size_exitStatus : Instr.exitStatus.size = 1 := rfl
@[simp] theorem size_print (n : Nat) : (Instr.print n).size = 3 := rfl

@[simp] theorem csize_cStmt (s : Stmt) : ∀ bk ct, csize (cStmt bk ct s) = stmtSize s := by
  induction s with
  | «for» pre c post b ihp iho ihb =>
    intro bk ct
    cases c <;> simp [cStmt, stmtSize, ihp, iho, ihb] <;> omega
  | exit e => intro bk ct; cases e <;> simp [cStmt, stmtSize]
  | ret e => intro bk ct; cases e <;> simp [cStmt, stmtSize, Instr.size]
  | _ => intro bk ct; simp_all [cStmt, stmtSize] <;> omega

/-! ### from `Halts` to `run` -/

theorem run_of_halts {C : Code} {a : St S} {o : VmOut S} (h : Halts S C a o) : ∃ n, run S C n a = o := by
  obtain ⟨b, i, e, r, hf, he, ho⟩ := h
  induction r with
  | refl st =>
    refine ⟨1, ?_⟩
    have hne : st.pc ≠ csize C := by intro h; rw [h, fetch_end] at hf; simp at hf
    rw [run, if_neg hne, hf]
    cases e <;> simp_all [stopOf]
  | @step a b c hs _ ih =>
    obtain ⟨n, hn⟩ := ih hf he
    refine ⟨n + 1, ?_⟩
    have hne : a.pc ≠ csize C := by
      intro he
      simp [stepTo, he, fetch_end] at hs
    simp only [stepTo] at hs
    rw [run, if_neg hne]
    split at hs
    · simp at hs
    · rename_i i hf
      split at hs
      · rename_i s' w' he
        simp only [Option.some.injEq] at hs; subst hs
        simpa [he] using hn
      · rename_i off s' w' he
        simp only [Option.some.injEq] at hs; subst hs
        simpa [he] using hn
      · simp at hs

end GoawkModel.C01
