import Proofs.C01Expr
import GoawkModel.C01Conc
import GoawkModel.Generated.Opcodes
/-!
# C01 — the values of `&&`, `||`, comparisons and `!` are normalised, and why the trailing `Boolean` cannot be elided by
looking at the last emitted code WORD

`compiler.expr` ends the code of `l && r` / `l || r` with `Boolean`. A peephole that drops it "when both operands already
leave 0/1" is only sound if it inspects INSTRUCTIONS; the emitted code is a flat stream in which opcodes and their inline
operands share one number space (`encode`), so the last word of `$48` is the field number 48 = `Equals`.
-/
namespace GoawkModel.C01
variable {S : Sem}

/-- direct evaluation: `l && r` is `ofBool _` -/
theorem and_value_normalised (l r : Expr) (w : S.W) (v : S.V) (w' : S.W) (h : eval S (.and l r) w = some (v, w')) :
    ∃ b, v = S.ofBool b := by
  eval_inv h
  obtain ⟨lv, w1, _, h⟩ := h
  cases hb : S.toBool lv with
  | true =>
    simp only [hb, if_true] at h
    eval_inv h
    obtain ⟨rv, w2, _, rfl, _⟩ := h
    exact ⟨_, rfl⟩
  | false =>
    simp only [hb, Bool.false_eq_true, if_false] at h
    eval_inv h
    exact ⟨_, h.1.symm⟩

theorem or_value_normalised (l r : Expr) (w : S.W) (v : S.V) (w' : S.W) (h : eval S (.or l r) w = some (v, w')) :
    ∃ b, v = S.ofBool b := by
  eval_inv h
  obtain ⟨lv, w1, _, h⟩ := h
  cases hb : S.toBool lv with
  | false =>
    simp only [hb, Bool.false_eq_true, if_false] at h
    eval_inv h
    obtain ⟨rv, w2, _, rfl, _⟩ := h
    exact ⟨_, rfl⟩
  | true =>
    simp only [hb, if_true] at h
    eval_inv h
    exact ⟨_, h.1.symm⟩

theorem cmp_value_normalised (op : CmpOp) (l r : Expr) (w : S.W) (v : S.V) (w' : S.W) (h : eval S (.cmp op l r) w = some (v, w')) :
    ∃ b, v = S.ofBool b := by
  eval_inv h
  obtain ⟨lv, w1, _, rv, w2, _, rfl, _⟩ := h
  exact ⟨_, rfl⟩

theorem not_value_normalised (e : Expr) (w : S.W) (v : S.V) (w' : S.W) (h : eval S (.unary .not e) w = some (v, w')) :
    ∃ b, v = S.ofBool b := by
  eval_inv h
  obtain ⟨x, w1, _, rfl, _⟩ := h
  exact ⟨_, rfl⟩

/-- the code of `l && r` as the compiler emits it, minus the final `Boolean` -/
def andNoBoolean (l r : Expr) : Code :=
  cExpr l ++ ([.dupe] ++ (.jumpFalse (csize ([.drop] ++ cExpr r)) :: ([.drop] ++ cExpr r)))
def orNoBoolean (l r : Expr) : Code :=
  cExpr l ++ ([.dupe] ++ (.jumpTrue (csize ([.drop] ++ cExpr r)) :: ([.drop] ++ cExpr r)))

theorem cExpr_and_eq (l r : Expr) : cExpr (.and l r) = andNoBoolean l r ++ [.boolean] := by
  simp [cExpr, cE, andNoBoolean, Instr.size]
theorem cExpr_or_eq (l r : Expr) : cExpr (.or l r) = orNoBoolean l r ++ [.boolean] := by
  simp [cExpr, cE, orNoBoolean, Instr.size]

/-- without the final `Boolean`, `l && r` with a true `l` leaves the RAW value of `r` on the stack -/
theorem and_without_boolean_raw (L : Laws S) (l r : Expr) (s : List S.V) (w w1 w' : S.W) (lv rv : S.V)
    (hl : eval S l w = some (lv, w1)) (hb : S.toBool lv = true) (hr : eval S r w1 = some (rv, w')) :
    Frag S (andNoBoolean l r) s w (rv :: s) w' := by
  have f1 : Frag S (cExpr l) s w (lv :: s) w1 := (expr_all L l).1 _ _ _ _ hl
  have f2 : Frag S [.dupe] (lv :: s) w1 (lv :: lv :: s) w1 := by sl
  have f3 : Frag S [.jumpFalse (csize ([.drop] ++ cExpr r))] (lv :: lv :: s) w1 (lv :: s) w1 := by sl [hb]
  have f4 : Frag S [.drop] (lv :: s) w1 s w1 := by sl
  have f5 : Frag S (cExpr r) s w1 (rv :: s) w' := (expr_all L r).1 _ _ _ _ hr
  exact f1.append (f2.append (f3.append (f4.append f5)))

/-- without the final `Boolean`, `l || r` with a false `l` leaves the RAW value of `r` -/
theorem or_without_boolean_raw (L : Laws S) (l r : Expr) (s : List S.V) (w w1 w' : S.W) (lv rv : S.V)
    (hl : eval S l w = some (lv, w1)) (hb : S.toBool lv = false) (hr : eval S r w1 = some (rv, w')) :
    Frag S (orNoBoolean l r) s w (rv :: s) w' := by
  have f1 : Frag S (cExpr l) s w (lv :: s) w1 := (expr_all L l).1 _ _ _ _ hl
  have f2 : Frag S [.dupe] (lv :: s) w1 (lv :: lv :: s) w1 := by sl
  have f3 : Frag S [.jumpTrue (csize ([.drop] ++ cExpr r))] (lv :: lv :: s) w1 (lv :: s) w1 := by sl [hb]
  have f4 : Frag S [.drop] (lv :: s) w1 s w1 := by sl
  have f5 : Frag S (cExpr r) s w1 (rv :: s) w' := (expr_all L r).1 _ _ _ _ hr
  exact f1.append (f2.append (f3.append (f4.append f5)))

/-! ## the flat code stream: operand words and opcode words share one number space -/

def realOps : Tables := ⟨Generated.Opcodes.opcodes, Generated.Opcodes.augOps, [], []⟩

/-- opcode names whose instruction leaves 0/1 -/
def boolOpNames : List String :=
  ["Equals", "NotEquals", "Less", "Greater", "LessOrEqual", "GreaterOrEqual", "Match", "NotMatch", "Not", "Boolean"]

/-- the word-level test "the last emitted word is a boolean-producing opcode" -/
def lastWordLooksBoolean (t : Tables) (ws : List Int) : Bool :=
  match ws.getLast? with
  | some x => boolOpNames.any fun n => opNum t.opcodes n == x
  | none => false

/-- the instruction-level fact -/
def endsInBooleanInstr (c : Code) : Bool :=
  match c.getLast? with
  | some (.cmp _) | some .not | some .boolean => true
  | _ => false

def fieldN (n : Nat) : Expr := .field (.num ⟨true, n⟩)

/-- the ten field numbers that are the numbers of the boolean-producing opcodes in the real opcode list: the code of `$n` is
the single instruction `FieldInt n`, its last WORD is `n` and passes the word-level test, its last INSTRUCTION does not
produce a boolean -/
theorem last_word_ambiguous :
    [48, 49, 50, 51, 52, 53, 55, 56, 57, 60].all (fun n =>
      cExpr (fieldN n) == [.fieldInt n] &&
      lastWordLooksBoolean realOps (encode realOps (cExpr (fieldN n))) &&
      !endsInBooleanInstr (cExpr (fieldN n))) = true := by decide

/-- ... and only those: for every other field number below the opcode count the word-level test answers correctly -/
theorem last_word_ok_elsewhere :
    ((List.range 100).filter fun n => lastWordLooksBoolean realOps (encode realOps (cExpr (fieldN n)))) =
      [48, 49, 50, 51, 52, 53, 55, 56, 57, 60] := by decide

/-- `l && r` compiled with a peephole that drops the final `Boolean` when `looks` accepts the code of both operands -/
def cAndPeephole (looks : Code → Bool) (l r : Expr) : Code :=
  if looks (cExpr l) && looks (cExpr r) then andNoBoolean l r else cExpr (.and l r)

/-- a small concrete semantics: values are numbers, field `n` holds `100 + n`, `print` appends to the log -/
def semFld : Sem where
  V := Nat
  W := List Nat
  numV c := c.val
  strV _ := 0
  ofBool b := if b then 1 else 0
  toBool v := v != 0
  arith _ a b := some (a + b)
  augOp _ a b := some (a + b)
  incrBy _ v := v + 1
  cmp op a b _ := match op with
    | .eq => a == b | .ne => !(a == b) | .lt => a < b | .le => a ≤ b | .gt => b < a | .ge => b ≤ a
  concat a b _ := a + b
  concatMulti vs _ := vs.foldl (· + ·) 0
  unop _ v := v
  getVar _ _ _ := 0
  setVar _ _ _ w := some w
  getField i _ := 100 + i
  getFieldInt n _ := 100 + n
  setField _ _ w := some w
  getArr _ _ _ w := (0, w)
  setArr _ _ _ _ w := w
  inArr _ _ _ _ := false
  multiIndex _ _ := 0
  print vs w := some (w ++ vs)
  setExit _ w := w
  nullV := 0
  call _ _ _ _ := none

/-- The word-level peephole is UNSOUND: `print ($48 && $49)` prints 1 by direct evaluation and through the real compilation
scheme, but 149 (the raw value of `$49`) when the final `Boolean` is dropped because the last words 48 and 49 "look like"
`Equals` and `NotEquals`. With `$5 && $6` the same peephole changes nothing. -/
theorem word_peephole_unsound :
    exec semFld 3 (.print [.and (fieldN 48) (fieldN 49)]) [] = some (.normal [1]) ∧
    run semFld (cExpr (.and (fieldN 48) (fieldN 49)) ++ [.print 1]) 20 ⟨0, [], []⟩ = .normal [1] ∧
    run semFld (cAndPeephole (fun c => lastWordLooksBoolean realOps (encode realOps c)) (fieldN 48) (fieldN 49) ++ [.print 1]) 20 ⟨0, [], []⟩
      = .normal [149] ∧
    cAndPeephole (fun c => lastWordLooksBoolean realOps (encode realOps c)) (fieldN 5) (fieldN 6) = cExpr (.and (fieldN 5) (fieldN 6)) := by
  refine ⟨?_, ?_, ?_, ?_⟩ <;> rfl

/-- `5 ? 7 : 5 < 3` : the last instruction of a `?:` is the last instruction of its ELSE branch only -/
def ternCmp : Expr := .cond (.num ⟨true, 5⟩) (.num ⟨true, 7⟩) (.cmp .lt (.num ⟨true, 5⟩) (.num ⟨true, 3⟩))

/-- Even the INSTRUCTION-level test "the code ends in a boolean-producing instruction" is unsound as a licence to drop the final
`Boolean`: the code of `c ? t : f` ends with the code of `f`, but at run time the value may come from `t`.
`print ((5 < 7) && (5 ? 7 : 5 < 3))` prints 1, the peepholed code prints 7. -/
theorem last_instr_peephole_unsound :
    endsInBooleanInstr (cExpr ternCmp) = true ∧
    exec semFld 3 (.print [.and (.cmp .lt (.num ⟨true, 5⟩) (.num ⟨true, 7⟩)) ternCmp]) [] = some (.normal [1]) ∧
    run semFld (cAndPeephole endsInBooleanInstr (.cmp .lt (.num ⟨true, 5⟩) (.num ⟨true, 7⟩)) ternCmp ++ [.print 1]) 30 ⟨0, [], []⟩
      = .normal [7] := by
  refine ⟨?_, ?_, ?_⟩ <;> rfl

end GoawkModel.C01
