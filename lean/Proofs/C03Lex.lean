import Proofs.C03Tok
/-! C03 — the whole token stream: `ScanRegex` preserves the invariant; every token of `lex` is correct (REGEX tokens excepted, see Props). -/
namespace GoawkModel.C03
open GoawkModel
open GoawkModel.Generated.C03Lex

theorem scanRegex_inv {src : Bytes} (fuel : Nat) {s : St} (h : Inv src s) : Inv src (scanRegex src fuel s).1 := by
  have hr := regexLoop_inv fuel s (if s.lastTok = T.DIV then [] else [61]) h
  unfold scanRegex
  dsimp only
  split
  · exact inv_lastTok _ h
  · split
    · exact inv_lastTok _ hr
    · exact inv_lastTok _ (next_inv hr)

/-- a token of `scanRegex` is ILLEGAL at a position inside the source, or it is the REGEX token -/
theorem scanRegex_tok {src : Bytes} (fuel : Nat) {s : St} (h : Inv src s) :
    TokOK src (scanRegex src fuel s).2 ∨ (scanRegex src fuel s).2.tok = T.REGEX := by
  have hr := regexLoop_inv fuel s (if s.lastTok = T.DIV then [] else [61]) h
  unfold scanRegex
  dsimp only
  split
  · exact Or.inl (Or.inr ⟨Or.inl rfl, inv_posInSrc h⟩)
  · split
    · exact Or.inl (illegalHere_ok _ hr).2
    · exact Or.inr rfl

theorem lexLoop_ok {src : Bytes} (fuel : Nat) : ∀ (n : Nat) (s : St) (bits : List Bool), Inv src s →
    ∀ t ∈ lexLoop src fuel n s bits, TokOK src t ∨ t.tok = T.REGEX
  | 0, _, _, _ => by intro t ht; simp [lexLoop] at ht
  | n + 1, s, bits, h => by
    have hs := scanTok_ok fuel h
    have hr := scanRegex_inv fuel hs.1
    have ht := scanRegex_tok fuel hs.1
    intro t
    unfold lexLoop
    dsimp only
    split
    · intro hm; simp at hm; subst hm; exact Or.inl hs.2
    · split
      · split
        · split
          · intro hm
            simp at hm
            rcases hm with hm | hm
            · subst hm; exact Or.inl hs.2
            · subst hm; exact ht
          · intro hm
            simp only [List.mem_cons] at hm
            rcases hm with hm | hm | hm
            · subst hm; exact Or.inl hs.2
            · subst hm; exact ht
            · exact lexLoop_ok fuel n _ _ hr t hm
        · intro hm
          simp only [List.mem_cons] at hm
          rcases hm with hm | hm
          · subst hm; exact Or.inl hs.2
          · exact lexLoop_ok fuel n _ _ hs.1 t hm
        · intro hm
          simp only [List.mem_cons] at hm
          rcases hm with hm | hm
          · subst hm; exact Or.inl hs.2
          · exact lexLoop_ok fuel n _ _ hs.1 t hm
      · intro hm
        simp only [List.mem_cons] at hm
        rcases hm with hm | hm
        · subst hm; exact Or.inl hs.2
        · exact lexLoop_ok fuel n _ _ hs.1 t hm
end GoawkModel.C03
