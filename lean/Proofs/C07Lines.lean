import GoawkModel.C07
import Proofs.C07Regex
namespace GoawkModel.C07
open GoawkModel.Scanner

theorem indexByte_none_not_mem {c : UInt8} {d : Bytes} (h : indexByte c d = none) : c ∉ d := by
  induction d with
  | nil => simp
  | cons b bs ih =>
    simp only [indexByte] at h
    by_cases hbc : b = c
    · simp [hbc] at h
    · simp only [hbc, if_false] at h
      cases hh : indexByte c bs with
      | none =>
        intro hm
        rcases List.mem_cons.mp hm with h1 | h1
        · exact hbc h1.symm
        · exact ih hh h1
      | some j => simp [hh] at h

theorem indexByte_some_not_mem_take {c : UInt8} {d : Bytes} {i : Nat} (h : indexByte c d = some i) : c ∉ d.take i := by
  induction d generalizing i with
  | nil => simp [indexByte] at h
  | cons b bs ih =>
    simp only [indexByte] at h
    by_cases hbc : b = c
    · simp [hbc] at h; subst h; simp
    · simp only [hbc, if_false] at h
      cases hh : indexByte c bs with
      | none => simp [hh] at h
      | some j =>
        simp [hh] at h; subst h
        simp only [List.take_succ_cons]
        intro hm
        rcases List.mem_cons.mp hm with h1 | h1
        · exact hbc h1.symm
        · exact ih hh h1

/-- no record of a single-byte-RS scan contains the separator: records are separator-free segments -/
theorem byte_records_no_sep (c : UInt8) : ∀ x, ∀ p ∈ final (splitByte c) x, c ∉ p.1 := by
  intro x
  induction h : x.length using Nat.strongRecOn generalizing x with
  | ind k ih =>
    intro p hp
    by_cases hx : x = []
    · subst hx; rw [final, scan] at hp; simp [splitByte] at hp
    · rw [final, scan] at hp
      simp only [ne_eq, hx, not_false_eq_true, true_or, if_true] at hp
      simp only [splitByte, hx, and_false, if_false, if_true] at hp
      have hpos : 0 < x.length := List.length_pos_iff.mpr hx
      cases hi : indexByte c x with
      | none =>
        simp only [hi, hpos, Nat.le_refl, and_self, dite_true, List.drop_length] at hp
        rw [scan] at hp
        simp [splitByte] at hp
        subst hp
        exact indexByte_none_not_mem hi
      | some i =>
        have hlt := indexByte_lt hi
        have hi1 : 0 < i + 1 ∧ i + 1 ≤ x.length := by omega
        simp only [hi, hi1, and_self, dite_true, List.mem_cons] at hp
        rcases hp with hp | hp
        · subst hp; exact indexByte_some_not_mem_take hi
        · exact ih (x.length - (i + 1)) (by omega) (x.drop (i + 1)) (by simp) p hp

/-- RS="\n" is the single-byte scan for LF with one trailing CR dropped from every record (`bufio.ScanLines`) -/
theorem newline_is_byte_dropCR : ∀ x, final splitNewline x = (final (splitByte 10) x).map fun p => (dropCR p.1, p.2) := by
  intro x
  induction h : x.length using Nat.strongRecOn generalizing x with
  | ind k ih =>
    by_cases hx : x = []
    · subst hx
      have h1 : final splitNewline [] = [] := by rw [final, scan]; simp [splitNewline]
      have h2 : final (splitByte 10) [] = [] := by rw [final, scan]; simp [splitByte]
      rw [h1, h2]; rfl
    · rw [final, scan]
      conv => rhs; rw [final, scan]
      simp only [ne_eq, hx, not_false_eq_true, true_or, if_true]
      simp only [splitByte, splitNewline, hx, and_false, if_false, if_true]
      have hpos : 0 < x.length := List.length_pos_iff.mpr hx
      cases hi : indexByte 10 x with
      | none =>
        simp only [hpos, Nat.le_refl, and_self, dite_true, List.drop_length]
        rw [scan]; conv => rhs; rw [scan]
        simp [splitByte, splitNewline]
      | some i =>
        have hlt := indexByte_lt hi
        have hi1 : 0 < i + 1 ∧ i + 1 ≤ x.length := by omega
        simp only [hi1, and_self, dite_true, List.map_cons]
        have := ih (x.length - (i + 1)) (by omega) (x.drop (i + 1)) (by simp)
        simp only [final] at this
        rw [this]

end GoawkModel.C07
