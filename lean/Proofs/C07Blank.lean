import GoawkModel.C07
import Proofs.ScannerChunk
namespace GoawkModel.C07
open GoawkModel.Scanner

theorem takeWhile_append_of_short {p : UInt8 → Bool} {l : Bytes} (h : (l.takeWhile p).length < l.length) (ext : Bytes) :
    (l ++ ext).takeWhile p = l.takeWhile p := by
  induction l with
  | nil => simp at h
  | cons b bs ih =>
    simp only [List.cons_append, List.takeWhile_cons]
    by_cases hb : p b = true
    · simp only [hb, if_true, List.cons.injEq, true_and]
      apply ih
      simp [hb] at h
      exact h
    · simp [hb]

theorem tw_len_le (p : UInt8 → Bool) (l : Bytes) : (l.takeWhile p).length ≤ l.length := by
  induction l with
  | nil => simp
  | cons b bs ih => simp only [List.takeWhile_cons]; split <;> simp <;> omega

theorem tw_eq_of_len (p : UInt8 → Bool) (l : Bytes) (h : (l.takeWhile p).length ≥ l.length) : l.takeWhile p = l := by
  induction l with
  | nil => simp
  | cons b bs ih =>
    simp only [List.takeWhile_cons] at h ⊢
    by_cases hb : p b = true
    · simp only [hb, if_true, List.length_cons] at h ⊢
      rw [ih (by omega)]
    · simp [hb] at h

theorem findBlank_append {x : Bytes} {k e a : Nat} (h : findBlank x k = some (e, a)) (ext : Bytes) :
    findBlank (x ++ ext) k = some (e, a) ∧ k ≤ e ∧ e < a ∧ a ≤ k + x.length := by
  induction x generalizing k with
  | nil => simp [findBlank] at h
  | cons b rest ih =>
    simp only [findBlank, List.cons_append] at h ⊢
    by_cases hb : b = 10
    · simp only [hb, if_true] at h ⊢
      cases rest with
      | nil => simp at h
      | cons c rest2 =>
        simp only [List.cons_append] at h ⊢
        by_cases hc : c = 10
        · simp only [hc, if_true] at h ⊢
          injection h with h; injection h with h1 h2
          subst h1 h2
          refine ⟨rfl, by omega, by omega, ?_⟩
          simp only [List.length_cons]; omega
        · simp only [hc, if_false] at h ⊢
          by_cases hc13 : c = 13
          · subst hc13
            simp only [if_true] at h ⊢
            cases rest2 with
            | nil =>
              simp [findBlank] at h
            | cons e' rest3 =>
              simp only [List.cons_append] at h ⊢
              by_cases he : e' = 10
              · simp only [he, if_true] at h ⊢
                injection h with h; injection h with h1 h2
                subst h1 h2
                refine ⟨rfl, by omega, by omega, ?_⟩
                simp only [List.length_cons]; omega
              · simp only [he, if_false] at h ⊢
                have := ih h
                simp only [List.cons_append, List.length_cons] at this ⊢
                exact ⟨this.1, by omega, this.2.2.1, by omega⟩
          · simp only [hc13, if_false] at h ⊢
            have := ih h
            simp only [List.cons_append, List.length_cons] at this ⊢
            exact ⟨this.1, by omega, this.2.2.1, by omega⟩
    · simp only [hb, if_false] at h ⊢
      have := ih h
      simp only [List.length_cons] at this ⊢
      exact ⟨this.1, by omega, this.2.2.1, by omega⟩

theorem blankBody_stable (body : Bytes) (n : Nat) (r t : Bytes) (h : blankBody body false = .token n r t) :
    0 < n ∧ n ≤ body.length ∧ ∀ ext eof, blankBody (body ++ ext) eof = .token n r t := by
  simp only [blankBody, Bool.false_eq_true, if_false, and_true] at h
  cases hf : findBlank body 0 with
  | none => simp [hf] at h
  | some ea =>
    obtain ⟨e, a⟩ := ea
    simp only [hf] at h
    generalize hrun : ((body.drop a).takeWhile isNL).length = run at h
    by_cases hi : a + run ≥ body.length
    · simp [hi] at h
    · simp only [hi, if_false] at h
      injection h with h1 h2 h3
      obtain ⟨_, _, hea, hal⟩ := findBlank_append hf []
      refine ⟨by omega, by omega, ?_⟩
      intro ext eof
      have hrun' : (((body ++ ext).drop a).takeWhile isNL).length = run := by
        rw [List.drop_append_of_le_length (by omega), takeWhile_append_of_short (by simp only [List.length_drop]; omega)]
        exact hrun
      simp only [blankBody, (findBlank_append hf ext).1, hrun']
      have hi' : ¬ (a + run ≥ (body ++ ext).length ∧ eof = false) := by
        simp only [List.length_append]; omega
      simp only [hi', if_false]
      subst h1 h2 h3
      congr 1
      · rw [List.take_append_of_le_length (by omega)]
      · rw [List.drop_append_of_le_length (by omega), List.take_append_of_le_length (by simp only [List.length_drop]; omega)]

theorem blank_tokenStable (d : Bytes) (n : Nat) (r t : Bytes) (hd : d ≠ []) (h : splitBlank d false = .token n r t) :
    0 < n ∧ n ≤ d.length ∧ ∀ ext eof, splitBlank (d ++ ext) eof = .token n r t := by
  simp only [splitBlank, Bool.false_eq_true, false_and, if_false] at h
  generalize hlead : (d.takeWhile isNL).length = lead at h
  by_cases hl : lead ≥ d.length
  · simp [hl] at h
  · simp only [hl, if_false] at h
    cases hb : blankBody (d.drop lead) false with
    | more => simp [hb, shift] at h
    | skip k => simp [hb, shift] at h
    | token n' r' t' =>
      simp only [hb, shift] at h
      injection h with h1 h2 h3
      obtain ⟨h0, hn, hs⟩ := blankBody_stable _ _ _ _ hb
      simp only [List.length_drop] at hn
      refine ⟨by omega, by omega, ?_⟩
      intro ext eof
      have hne : d ++ ext ≠ [] := by simp [hd]
      have hlead' : ((d ++ ext).takeWhile isNL).length = lead := by
        rw [takeWhile_append_of_short (by omega)]; exact hlead
      have hl' : ¬ lead ≥ (d ++ ext).length := by simp only [List.length_append]; omega
      simp only [splitBlank, hne, and_false, if_false, hlead', hl']
      rw [List.drop_append_of_le_length (by omega), hs ext eof]
      simp only [shift]
      subst h1 h2 h3
      rfl

theorem blankBody_ne_skip (body : Bytes) (eof : Bool) (k : Nat) : blankBody body eof ≠ .skip k := by
  simp only [blankBody]
  cases findBlank body 0 with
  | none => simp only; split <;> simp
  | some ea => obtain ⟨e, a⟩ := ea; simp only; split <;> simp

theorem blankBody_eof (body : Bytes) (hb : body ≠ []) :
    ∃ n r t, blankBody body true = .token n r t ∧ 0 < n ∧ n ≤ body.length := by
  have hpos : 0 < body.length := List.length_pos_iff.mpr hb
  simp only [blankBody]
  cases hf : findBlank body 0 with
  | none => exact ⟨body.length, dropCR (dropLF body), body.drop (dropCR (dropLF body)).length, by simp, hpos, Nat.le_refl _⟩
  | some ea =>
    obtain ⟨e, a⟩ := ea
    obtain ⟨_, _, hea, hal⟩ := findBlank_append hf []
    have hrun : ((body.drop a).takeWhile isNL).length ≤ (body.drop a).length := tw_len_le _ _
    simp only [List.length_drop] at hrun
    refine ⟨a + ((body.drop a).takeWhile isNL).length, dropCR (body.take e),
      (body.drop e).take (a + ((body.drop a).takeWhile isNL).length - e), ?_, by omega, by omega⟩
    simp

theorem takeWhile_all_append {d : Bytes} (hall : d.takeWhile isNL = d) (ext : Bytes) :
    (d ++ ext).takeWhile isNL = d ++ ext.takeWhile isNL := by
  induction d with
  | nil => simp
  | cons b bs ih =>
    simp only [List.takeWhile_cons] at hall
    by_cases hb : isNL b = true
    · simp only [hb, if_true, List.cons.injEq, true_and] at hall
      simp [List.takeWhile_cons, hb, ih hall]
    · simp [hb] at hall

theorem blank_skip_prefix (d : Bytes) (hd : d ≠ []) (hall : d.takeWhile isNL = d) (ext : Bytes) :
    scan splitBlank (d ++ ext) [] true = scan splitBlank ext [] true := by
  have hne : d ++ ext ≠ [] := by simp [hd]
  have hdl : 0 < d.length := List.length_pos_iff.mpr hd
  have hlead : ((d ++ ext).takeWhile isNL).length = d.length + (ext.takeWhile isNL).length := by
    rw [takeWhile_all_append hall]; simp
  by_cases hext : (ext.takeWhile isNL).length ≥ ext.length
  · -- the rest is all newlines (or empty): both scans deliver nothing
    have h1 : scan splitBlank (d ++ ext) [] true = [] := by
      rw [scan]
      simp only [ne_eq, hne, not_false_eq_true, true_or, if_true]
      have : splitBlank (d ++ ext) true = .skip (d.length + (ext.takeWhile isNL).length) := by
        simp only [splitBlank, hne, and_false, if_false, hlead]
        have : d.length + (ext.takeWhile isNL).length ≥ (d ++ ext).length := by simp only [List.length_append]; omega
        rw [if_pos this]
      simp [this]
    have h2 : scan splitBlank ext [] true = [] := by
      rw [scan]
      simp only [or_true, if_true]
      by_cases he : ext = []
      · subst he; simp [splitBlank]
      · have : splitBlank ext true = .skip (ext.takeWhile isNL).length := by
          simp only [splitBlank, he, and_false, if_false]
          rw [if_pos hext]
        simp [this]
    rw [h1, h2]
  · have hel : (ext.takeWhile isNL).length < ext.length := by omega
    have hene : ext ≠ [] := by intro h; subst h; simp at hel
    have hbne : ext.drop (ext.takeWhile isNL).length ≠ [] := by
      intro h
      have := congrArg List.length h
      simp only [List.length_drop, List.length_nil] at this
      omega
    obtain ⟨n, r, t, hbb, hn0, hnl⟩ := blankBody_eof _ hbne
    simp only [List.length_drop] at hnl
    have hL : splitBlank (d ++ ext) true = .token (d.length + (ext.takeWhile isNL).length + n) r t := by
      simp only [splitBlank, hne, and_false, if_false, hlead]
      have : ¬ d.length + (ext.takeWhile isNL).length ≥ (d ++ ext).length := by simp only [List.length_append]; omega
      simp only [this, if_false]
      have hdrop : (d ++ ext).drop (d.length + (ext.takeWhile isNL).length) = ext.drop (ext.takeWhile isNL).length := by
        rw [List.drop_append]; simp
      rw [hdrop, hbb]; simp [shift]
    have hR : splitBlank ext true = .token ((ext.takeWhile isNL).length + n) r t := by
      simp only [splitBlank, hene, and_false, if_false]
      have : ¬ (ext.takeWhile isNL).length ≥ ext.length := by omega
      simp only [this, if_false, hbb]; simp [shift]
    rw [scan]
    conv => rhs; rw [scan]
    simp only [ne_eq, hne, hene, not_false_eq_true, true_or, if_true, hL, hR]
    have c1 : 0 < d.length + (ext.takeWhile isNL).length + n ∧ d.length + (ext.takeWhile isNL).length + n ≤ (d ++ ext).length := by
      simp only [List.length_append]; omega
    have c2 : 0 < (ext.takeWhile isNL).length + n ∧ (ext.takeWhile isNL).length + n ≤ ext.length := by omega
    simp only [c1, c2, and_self, dite_true]
    congr 2
    rw [List.drop_append]
    have : d.length + (ext.takeWhile isNL).length + n - d.length = (ext.takeWhile isNL).length + n := by omega
    have hz : List.drop (d.length + (ext.takeWhile isNL).length + n) d = [] := by
      apply List.drop_eq_nil_of_le; omega
    rw [this, hz]; simp

theorem wf_blank : WellFormed splitBlank where
  tokenStable := blank_tokenStable
  skipInvisible := by
    intro d n hd h
    simp only [splitBlank, Bool.false_eq_true, false_and, if_false] at h
    by_cases hl : (d.takeWhile isNL).length ≥ d.length
    · simp only [hl, if_true] at h
      injection h with h
      have hle : (d.takeWhile isNL).length ≤ d.length := tw_len_le _ _
      have hall : d.takeWhile isNL = d := tw_eq_of_len _ _ hl
      subst h
      refine ⟨hle, ?_⟩
      intro ext
      have : d.drop (d.takeWhile isNL).length = [] := by apply List.drop_eq_nil_of_le; omega
      rw [this]
      simp only [final, List.nil_append]
      exact blank_skip_prefix d hd hall ext
    · simp only [hl, if_false] at h
      cases hb : blankBody (d.drop (d.takeWhile isNL).length) false with
      | more => simp [hb, shift] at h
      | token n' r' t' => simp [hb, shift] at h
      | skip k => exact absurd hb (blankBody_ne_skip _ _ _)

end GoawkModel.C07
