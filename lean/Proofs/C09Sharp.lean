import GoawkModel.C09
import Proofs.C09
import Proofs.C09Conv
/-! Go's `#` post-processing of `strconv`'s floating-point text (`fmt.fmtFloat`, modelled by `goSharpFloat`) against C's `#`
rule: "the result always contains a decimal-point character; for g and G conversions trailing zeros are not removed". -/
namespace GoawkModel.C09
open GoawkModel

def notExp (c : UInt8) : Bool := c ≠ 101 && c ≠ 69

/-- an exponent part: nothing, or text starting with `e`/`E` -/
def IsExp (x : Bytes) : Prop := x = [] ∨ ∃ h t, x = h :: t ∧ (h = 101 ∨ h = 69)

theorem takeWhile_all (p : UInt8 → Bool) : ∀ (a : Bytes), (∀ c ∈ a, p c = true) → a.takeWhile p = a ∧ a.dropWhile p = [] := by
  intro a; induction a with
  | nil => intro _; exact ⟨rfl, rfl⟩
  | cons c r ih =>
    intro h
    have hc := h c (by simp)
    have := ih (fun x hx => h x (by simp [hx]))
    simp [List.takeWhile, List.dropWhile, hc, this.1, this.2]

theorem split_exp (a x : Bytes) (ha : ∀ c ∈ a, notExp c = true) (hx : IsExp x) :
    (a ++ x).takeWhile notExp = a ∧ (a ++ x).dropWhile notExp = x := by
  rcases hx with rfl | ⟨h, t, rfl, hh⟩
  · simp only [List.append_nil]
    constructor
    · exact (takeWhile_all notExp a ha).1
    · exact (takeWhile_all notExp a ha).2
  · have hn : notExp h = false := by rcases hh with rfl | rfl <;> decide
    constructor
    · rw [List.takeWhile_append_of_pos ha]; simp [List.takeWhile, hn]
    · rw [List.dropWhile_append_of_pos ha]; simp [List.dropWhile, hn]

/-- significant digits as `fmtFloat` counts them: digits after the leading zeros, the point not counted -/
def sigCount (b : Bytes) : Nat := ((b.filter (· ≠ 46)).dropWhile (· == 48)).length

/-- `goSharpFloat` on mantissa `a` followed by an exponent part -/
theorem goSharp_split (verb : UInt8) (prec : Nat) (a x : Bytes) (ha : ∀ c ∈ a, notExp c = true) (hx : IsExp x) :
    goSharpFloat verb prec (a ++ x) =
      (if a.contains 46 then a else a ++ [46]) ++
        zeros (((if (verb = 103 || verb = 71) then (prec : Int) else 0) - (sigCount a : Int)) -
          (if !a.contains 46 && a = [48] then 1 else 0)).toNat ++ x := by
  have hs := split_exp a x ha hx
  have h1 : (a ++ x).takeWhile (fun c => c ≠ 101 && c ≠ 69) = a := hs.1
  have h2 : (a ++ x).dropWhile (fun c => c ≠ 101 && c ≠ 69) = x := hs.2
  unfold goSharpFloat
  simp only [h1, h2, sigCount]
  cases hc : a.contains 46 <;> by_cases h48 : a = [48] <;> simp [hc, h48]

def DigitsOnly (b : Bytes) : Prop := ∀ c ∈ b, isDigit c = true

theorem digit_notExp (c : UInt8) (h : isDigit c = true) : notExp c = true ∧ c ≠ 46 := by
  constructor
  · unfold notExp
    simp only [Bool.and_eq_true, decide_eq_true_eq]
    constructor <;> (intro hc; subst hc; revert h; decide)
  · intro hc; subst hc; revert h; decide

theorem digits_filter (b : Bytes) (h : DigitsOnly b) : b.filter (· ≠ 46) = b := by
  rw [List.filter_eq_self]; intro c hc; simpa using (digit_notExp c (h c hc)).2

theorem digits_no_point (b : Bytes) (h : DigitsOnly b) : b.contains 46 = false := by
  rw [Bool.eq_false_iff]; intro hc
  exact (digit_notExp 46 (h 46 (List.contains_iff_mem.mp hc))).2 rfl

/-- number of digits from the first non-zero one on -/
def sigDigitsOf (b : Bytes) : Nat := (b.dropWhile (· == 48)).length

theorem sigCount_digits (b : Bytes) (h : DigitsOnly b) : sigCount b = sigDigitsOf b := by
  unfold sigCount sigDigitsOf; rw [digits_filter b h]

theorem sigCount_point (ip fp : Bytes) (hi : DigitsOnly ip) (hf : DigitsOnly fp) :
    sigCount (ip ++ 46 :: fp) = sigDigitsOf (ip ++ fp) := by
  unfold sigCount sigDigitsOf
  rw [List.filter_append, List.filter_cons_of_neg (by decide), digits_filter ip hi, digits_filter fp hf]

def isGv (verb : UInt8) : Bool := verb = 103 || verb = 71

/-- `e E f`: C shows the point exactly when the precision is not 0; with `#` always. `fmt` restores it. -/
theorem sharp_ef (verb : UInt8) (prec : Nat) (ip fp x : Bytes) (hv : isGv verb = false)
    (hi : DigitsOnly ip) (hf : DigitsOnly fp) (hx : IsExp x) :
    goSharpFloat verb prec (if fp = [] then ip ++ x else ip ++ 46 :: fp ++ x) = ip ++ 46 :: fp ++ x := by
  have hvv : (verb = 103 || verb = 71) = false := hv
  by_cases hfp : fp = []
  · subst hfp
    simp only [if_true]
    rw [goSharp_split verb prec ip x (fun c hc => (digit_notExp c (hi c hc)).1) hx]
    simp only [digits_no_point ip hi, hvv, Bool.false_eq_true, if_false]
    have : ((0 : Int) - (sigCount ip : Int) - (if (!false && decide (ip = [48])) = true then 1 else 0)).toNat = 0 := by
      split <;> omega
    rw [this]; simp [zeros]
  · simp only [hfp, if_false]
    have ha : ∀ c ∈ ip ++ 46 :: fp, notExp c = true := by
      intro c hc
      simp only [List.mem_append, List.mem_cons] at hc
      rcases hc with hc | rfl | hc
      · exact (digit_notExp c (hi c hc)).1
      · decide
      · exact (digit_notExp c (hf c hc)).1
    have hcp : (ip ++ 46 :: fp).contains 46 = true := by simp
    rw [show ip ++ 46 :: fp ++ x = (ip ++ 46 :: fp) ++ x by simp, goSharp_split verb prec (ip ++ 46 :: fp) x ha hx]
    simp only [hcp, hvv, Bool.false_eq_true, if_false, if_true, Bool.not_true, Bool.false_and]
    have : ((0 : Int) - (sigCount (ip ++ 46 :: fp) : Int) - 0).toNat = 0 := by omega
    rw [this]; simp [zeros]

/-- `g G`, non-zero value: C's `#` form has exactly P significant digits (P = precision, 1 for 0); without `#` the `k` trailing
zeros of the fraction (and the point, if nothing is left) are removed. `fmt` counts the digits that are there and restores
exactly the `k` zeros and the point. -/
theorem sharp_g (verb : UInt8) (prec : Nat) (ip fp : Bytes) (k : Nat) (x : Bytes) (hv : isGv verb = true)
    (hi : DigitsOnly ip) (hf : DigitsOnly fp) (hx : IsExp x)
    (hnz : sigDigitsOf (ip ++ fp) ≥ 1)
    (hs : sigDigitsOf (ip ++ fp) + k = (if prec = 0 then 1 else prec)) :
    goSharpFloat verb prec (if fp = [] then ip ++ x else ip ++ 46 :: fp ++ x) = ip ++ 46 :: (fp ++ zeros k) ++ x := by
  have hvv : (verb = 103 || verb = 71) = true := hv
  by_cases hfp : fp = []
  · subst hfp
    simp only [if_true, List.append_nil] at hnz hs ⊢
    rw [goSharp_split verb prec ip x (fun c hc => (digit_notExp c (hi c hc)).1) hx]
    have h48 : ip ≠ [48] := by intro h; subst h; simp [sigDigitsOf] at hnz
    simp only [digits_no_point ip hi, hvv, if_true, Bool.false_eq_true, if_false, sigCount_digits ip hi, h48, decide_false,
      Bool.and_false]
    have : ((prec : Int) - (sigDigitsOf ip : Int) - 0).toNat = k := by split at hs <;> omega
    rw [this]; simp
  · simp only [hfp, if_false]
    have ha : ∀ c ∈ ip ++ 46 :: fp, notExp c = true := by
      intro c hc
      simp only [List.mem_append, List.mem_cons] at hc
      rcases hc with hc | rfl | hc
      · exact (digit_notExp c (hi c hc)).1
      · decide
      · exact (digit_notExp c (hf c hc)).1
    have hcp : (ip ++ 46 :: fp).contains 46 = true := by simp
    rw [show ip ++ 46 :: fp ++ x = (ip ++ 46 :: fp) ++ x by simp, goSharp_split verb prec (ip ++ 46 :: fp) x ha hx]
    simp only [hcp, hvv, if_true, Bool.not_true, Bool.false_and, Bool.false_eq_true, if_false, sigCount_point ip fp hi hf]
    have : ((prec : Int) - (sigDigitsOf (ip ++ fp) : Int) - 0).toNat = k := by split at hs <;> omega
    rw [this]; simp

theorem toNat_sub_one (prec : Nat) : ((prec : Int) - 1).toNat = (if prec = 0 then 1 else prec) - 1 := by
  by_cases hp : prec = 0
  · subst hp; rfl
  · simp only [hp, if_false]; omega

/-- `g G` of zero: C prints `0.` followed by P-1 zeros with `#`, `0` without -/
theorem sharp_g_zero (verb : UInt8) (prec : Nat) (hv : isGv verb = true) :
    goSharpFloat verb prec [48] = 48 :: 46 :: zeros ((if prec = 0 then 1 else prec) - 1) := by
  have hvv : (verb = 103 || verb = 71) = true := hv
  have := goSharp_split verb prec [48] [] (by decide) (Or.inl rfl)
  simp only [List.append_nil] at this
  rw [this]
  have hsc : sigCount [48] = 0 := by decide
  have hc : ([48] : Bytes).contains 46 = false := by decide
  simp only [hvv, if_true, hsc, hc, Bool.false_eq_true, if_false, Bool.not_false, Bool.true_and, decide_true, Int.ofNat_zero, Int.sub_zero,
    Int.natCast_zero]
  rw [toNat_sub_one]
  rfl

/-- C's `#` rule as a relation between the plain and the `#` text of one value -/
def SharpShape (verb : UInt8) (prec : Nat) (plain sharp : Bytes) : Prop :=
  (isGv verb = false ∧ ∃ ip fp x, DigitsOnly ip ∧ DigitsOnly fp ∧ IsExp x ∧
      plain = (if fp = [] then ip ++ x else ip ++ 46 :: fp ++ x) ∧ sharp = ip ++ 46 :: fp ++ x) ∨
  (isGv verb = true ∧ ∃ ip fp k x, DigitsOnly ip ∧ DigitsOnly fp ∧ IsExp x ∧ sigDigitsOf (ip ++ fp) ≥ 1 ∧
      sigDigitsOf (ip ++ fp) + k = (if prec = 0 then 1 else prec) ∧
      plain = (if fp = [] then ip ++ x else ip ++ 46 :: fp ++ x) ∧ sharp = ip ++ 46 :: (fp ++ zeros k) ++ x) ∨
  (isGv verb = true ∧ plain = [48] ∧ sharp = 48 :: 46 :: zeros ((if prec = 0 then 1 else prec) - 1))

/-- whenever the two texts are related by C's `#` rule, `fmt`'s post-processing of the plain text yields the `#` text -/
theorem goSharp_of_shape (verb : UInt8) (prec : Nat) (plain sharp : Bytes) (h : SharpShape verb prec plain sharp) :
    goSharpFloat verb prec plain = sharp := by
  rcases h with ⟨hv, ip, fp, x, hi, hf, hx, rfl, rfl⟩ | ⟨hv, ip, fp, k, x, hi, hf, hx, hnz, hs, rfl, rfl⟩ | ⟨hv, rfl, rfl⟩
  · exact sharp_ef verb prec ip fp x hv hi hf hx
  · exact sharp_g verb prec ip fp k x hv hi hf hx hnz hs
  · exact sharp_g_zero verb prec hv

/-- a digit generator follows C's `#` rule -/
def CSharpRule (dg : DigitGen) : Prop :=
  ∀ verb prec m e, SharpShape verb prec (dg.gen verb false prec m e) (dg.gen verb true prec m e)

theorem sharpCoherent_of_rule (dg : DigitGen) (h : CSharpRule dg) : SharpCoherent dg :=
  fun verb prec m e => goSharp_of_shape verb prec _ _ (h verb prec m e)

end GoawkModel.C09
