import GoawkModel.C20Stmt
/-! C20 — the printed form of the control-flow skeleton (simple | if/else | while | do | for | for-in | block, with
expressions and simple statements as opaque tokens) is read back by the statement parser model as the same tree. -/
namespace GoawkModel.C20Stmt

/-- fuel the parser needs for a printed statement / statement list -/
def need : S → Nat
  | .skip => 1
  | .seq s r => 1 + need s + need r
  | .simple _ => 1
  | .ifS _ b e => 3 + need b + need e
  | .whileS _ b => 3 + need b
  | .doS b _ => 3 + need b
  | .forS _ _ _ b => 3 + need b
  | .forIn _ b => 3 + need b
  | .block b => 2 + need b

/-- append statement lists -/
def app : S → S → S
  | .skip, b => b
  | .seq a r, b => .seq a (app r b)
  | x, _ => x

/-- `if p.tok == SEMICOLON { p.next() }` after a closing brace -/
def stripSemi : List STok → List STok
  | .semi :: r => r
  | r => r

def stmtStart : STok → Bool
  | .kIf | .kWhile | .kDo | .kFor | .lbrace | .simple _ => true
  | _ => false

theorem app_skip (a : S) (h : isList a = true) : app a .skip = a := by
  induction a with
  | skip => rfl
  | seq s r _ ihr => simp only [isList, Bool.and_eq_true] at h; simp only [app, ihr h.2]
  | _ => simp [isList] at h

theorem app_snoc (a s b : S) (h : isList a = true) : app (snoc a s) b = app a (.seq s b) := by
  induction a with
  | skip => rfl
  | seq x r _ ihr => simp only [isList, Bool.and_eq_true] at h; simp only [snoc, app, ihr h.2]
  | _ => simp [isList] at h

theorem isList_snoc (a s : S) (h : isList a = true) (hs : isStmt s = true) : isList (snoc a s) = true := by
  induction a with
  | skip => simp [snoc, isList, hs]
  | seq x r _ ihr => simp only [isList, Bool.and_eq_true] at h; simp [snoc, isList, h.1, ihr h.2]
  | _ => simp [isList] at h

theorem showS_start (s : S) (h : isStmt s = true) : ∃ t ts, showS s = t :: ts ∧ stmtStart t = true := by
  cases s <;> simp [isStmt] at h <;> simp [showS, stmtStart]

/-- what follows a printed statement list inside braces starts with a statement or the closing brace -/
theorem lines_start (b : S) (X : List STok) (h : isList b = true) :
    ∃ t ts, showLines b ++ .rbrace :: X = t :: ts ∧ (stmtStart t = true ∨ t = .rbrace) := by
  cases b with
  | skip => exact ⟨_, _, rfl, Or.inr rfl⟩
  | seq s r =>
    simp only [isList, Bool.and_eq_true] at h
    obtain ⟨t, ts, h1, h2⟩ := showS_start s h.1
    exact ⟨t, ts ++ .nl :: showLines r ++ .rbrace :: X, by simp [showLines, h1], Or.inl h2⟩
  | _ => simp [isList] at h

theorem skipNl_start (t : STok) (ts : List STok) (h : stmtStart t = true ∨ t = .rbrace) : skipNl (t :: ts) = t :: ts := by
  rcases h with h | rfl
  · cases t <;> simp [stmtStart] at h <;> rfl
  · rfl

theorem dropSeps_start (t : STok) (ts : List STok) (h : stmtStart t = true ∨ t = .rbrace) : dropSeps (t :: ts) = t :: ts := by
  rcases h with h | rfl
  · cases t <;> simp [stmtStart] at h <;> rfl
  · rfl

theorem dropSeps_skipNl (r : List STok) : dropSeps (skipNl r) = dropSeps r := by
  induction r with
  | nil => rfl
  | cons t ts ih => cases t <;> simp [skipNl, dropSeps, ih]

theorem pLoop_start (n : Nat) (acc : S) (t : STok) (ts : List STok) (h : stmtStart t = true) :
    pLoop (n+1) acc (t :: ts) =
      match pStmt n (t :: ts) with
      | some (s, r, _) => pLoop n (snoc acc s) r
      | none => none := by
  cases t <;> simp [stmtStart] at h <;> rfl

theorem pLoop_end (n : Nat) (acc : S) (X : List STok) : pLoop (n+1) acc (.rbrace :: X) = some (acc, stripSemi X, true) := by
  cases X with
  | nil => simp [pLoop, stripSemi]
  | cons t ts => cases t <;> simp [pLoop, stripSemi]

theorem finish_sep (s : S) (r : List STok) (p : Bool) (h : isSep (hd r) = true) : finish s r p = some (s, dropSeps r, true) := by
  simp [finish, h]

theorem finish_prev (s : S) (r : List STok) : finish s r true = some (s, dropSeps r, true) := by
  simp [finish]

/-- the claims proved together by induction on the tree -/
def StmtOk (s : S) : Prop :=
  isStmt s = true → ∀ n rest, need s ≤ n → hd (skipNl rest) ≠ .kElse →
    pStmt n (showS s ++ .nl :: rest) = some (s, dropSeps rest, true)

def ListOk (b : S) : Prop :=
  isList b = true → ∀ n acc X, isList acc = true → need b ≤ n →
    pLoop n acc (showLines b ++ .rbrace :: X) = some (app acc b, stripSemi X, true)

/-- a printed `{ … }` body read by `stmtsBrace()` -/
theorem brace_ok (b : S) (hb : ListOk b) (hl : isList b = true) (n : Nat) (X : List STok) (hn : need b + 1 ≤ n) :
    pBrace n (.lbrace :: .nl :: (showLines b ++ .rbrace :: X)) = some (b, stripSemi X, true) := by
  obtain ⟨k, rfl⟩ : ∃ k, n = k + 1 := ⟨n - 1, by omega⟩
  obtain ⟨t, ts, h1, h2⟩ := lines_start b X hl
  have := hb hl k .skip X rfl (by omega)
  simp only [pBrace, skipNl, h1, skipNl_start t ts h2]
  rw [← h1, this]
  rfl

/-- … and by `stmts()` -/
theorem stmts_ok (b : S) (hb : ListOk b) (hl : isList b = true) (n : Nat) (X : List STok) (hn : need b + 2 ≤ n) :
    pStmts n (.lbrace :: .nl :: (showLines b ++ .rbrace :: X)) = some (b, stripSemi X, true) := by
  obtain ⟨k, rfl⟩ : ∃ k, n = k + 1 := ⟨n - 1, by omega⟩
  simp only [pStmts]
  exact brace_ok b hb hl k X (by omega)

theorem stripSemi_nl (rest : List STok) : stripSemi (.nl :: rest) = .nl :: rest := rfl

theorem else_split (r3 : List STok) (h : hd r3 ≠ .kElse) (f : List STok → R) (g : R) :
    (match (generalizing := false) r3 with
      | .kElse :: r4 => f r4
      | _ => g) = g := by
  cases r3 with
  | nil => rfl
  | cons t ts => cases t <;> first | rfl | (exfalso; exact h rfl)

theorem ListOk_skip : ListOk .skip := by
  intro _ n acc X hacc hn
  obtain ⟨k, rfl⟩ : ∃ k, n = k + 1 := ⟨n - 1, by simp [need] at hn; omega⟩
  simp only [showLines, List.nil_append, pLoop_end, app_skip acc hacc]

theorem ListOk_seq (s r : S) (hs : StmtOk s) (hr : ListOk r) : ListOk (.seq s r) := by
  intro hl n acc X hacc hn
  simp only [isList, Bool.and_eq_true] at hl
  simp only [need] at hn
  obtain ⟨k, rfl⟩ : ∃ k, n = k + 1 := ⟨n - 1, by omega⟩
  obtain ⟨t, ts, h1, h2⟩ := showS_start s hl.1
  obtain ⟨t', ts', h1', h2'⟩ := lines_start r X hl.2
  have hstmt := hs hl.1 k (showLines r ++ .rbrace :: X) (by omega)
    (by
      rw [h1', skipNl_start t' ts' h2']
      intro heq
      simp only [hd] at heq
      rcases h2' with h | h
      · rw [heq] at h; simp [stmtStart] at h
      · rw [heq] at h; cases h)
  have e1 : showLines (.seq s r) ++ .rbrace :: X = showS s ++ .nl :: (showLines r ++ .rbrace :: X) := by
    simp [showLines]
  rw [e1]
  have e2 : showS s ++ .nl :: (showLines r ++ .rbrace :: X) = t :: (ts ++ .nl :: (showLines r ++ .rbrace :: X)) := by
    rw [h1]; rfl
  rw [e2, pLoop_start k acc t _ h2, ← e2, hstmt]
  simp only []
  rw [h1', dropSeps_start t' ts' h2', ← h1']
  rw [hr hl.2 k (snoc acc s) X (isList_snoc acc s hacc hl.1) (by omega), app_snoc acc s r hacc]

theorem StmtOk_simple (k : Nat) : StmtOk (.simple k) := by
  intro _ n rest hn _
  obtain ⟨m, rfl⟩ : ∃ m, n = m + 1 := ⟨n - 1, by simp [need] at hn; omega⟩
  simp only [showS, List.cons_append, List.nil_append, pStmt]
  exact finish_sep _ _ _ rfl

theorem StmtOk_block (b : S) (hb : ListOk b) : StmtOk (.block b) := by
  intro hs n rest hn _
  simp only [isStmt] at hs
  simp only [need] at hn
  obtain ⟨m, rfl⟩ : ∃ m, n = m + 1 := ⟨n - 1, by omega⟩
  have h := brace_ok b hb hs m (.nl :: rest) (by omega)
  simp only [showS, List.cons_append, List.append_assoc, List.singleton_append, List.nil_append, pStmt, h, stripSemi_nl]
  exact finish_prev _ _

theorem StmtOk_while (c : Nat) (b : S) (hb : ListOk b) : StmtOk (.whileS c b) := by
  intro hs n rest hn _
  simp only [isStmt] at hs
  simp only [need] at hn
  obtain ⟨m, rfl⟩ : ∃ m, n = m + 1 := ⟨n - 1, by omega⟩
  have h := stmts_ok b hb hs m (.nl :: rest) (by omega)
  simp only [showS, List.cons_append, List.append_assoc, List.singleton_append, List.nil_append, pStmt, skipNl, h, stripSemi_nl]
  exact finish_prev _ _

theorem StmtOk_forIn (k : Nat) (b : S) (hb : ListOk b) : StmtOk (.forIn k b) := by
  intro hs n rest hn _
  simp only [isStmt] at hs
  simp only [need] at hn
  obtain ⟨m, rfl⟩ : ∃ m, n = m + 1 := ⟨n - 1, by omega⟩
  have h := stmts_ok b hb hs m (.nl :: rest) (by omega)
  simp only [showS, List.cons_append, List.append_assoc, List.singleton_append, List.nil_append, pStmt, skipNl, h, stripSemi_nl]
  exact finish_prev _ _

theorem StmtOk_do (b : S) (c : Nat) (hb : ListOk b) : StmtOk (.doS b c) := by
  intro hs n rest hn _
  simp only [isStmt] at hs
  simp only [need] at hn
  obtain ⟨m, rfl⟩ : ∃ m, n = m + 1 := ⟨n - 1, by omega⟩
  have h := stmts_ok b hb hs m (.kWhile :: .lparen :: .expr c :: .rparen :: .nl :: rest) (by omega)
  simp only [showS, List.cons_append, List.append_assoc, List.nil_append, pStmt, skipNl, h, stripSemi]
  exact finish_sep _ _ _ rfl

theorem StmtOk_for (pre cond post : Option Nat) (b : S) (hb : ListOk b) : StmtOk (.forS pre cond post b) := by
  intro hs n rest hn _
  simp only [isStmt] at hs
  simp only [need] at hn
  obtain ⟨m, rfl⟩ : ∃ m, n = m + 1 := ⟨n - 1, by omega⟩
  have h := stmts_ok b hb hs m (.nl :: rest) (by omega)
  cases pre <;> cases cond <;> cases post <;>
    simp only [showS, List.cons_append, List.append_assoc, List.singleton_append, List.nil_append, pStmt, skipNl, h,
      stripSemi_nl] <;>
    exact finish_prev _ _

theorem StmtOk_if (c : Nat) (b e : S) (hb : ListOk b) (he : ListOk e) : StmtOk (.ifS c b e) := by
  intro hs n rest hn hrest
  simp only [isStmt, Bool.and_eq_true] at hs
  simp only [need] at hn
  obtain ⟨m, rfl⟩ : ∃ m, n = m + 1 := ⟨n - 1, by omega⟩
  cases e with
  | skip =>
    have h := stmts_ok b hb hs.1 m (.nl :: rest) (by omega)
    simp only [showS, List.cons_append, List.append_assoc, List.nil_append, pStmt, skipNl, h, stripSemi_nl]
    rw [← dropSeps_skipNl rest]
    generalize skipNl rest = r3 at hrest ⊢
    have hf : ∀ p, finish (S.ifS c b S.skip) r3 (true || p) = some (S.ifS c b S.skip, dropSeps r3, true) := by
      intro p; simp [finish]
    cases r3 with
    | nil => exact hf _
    | cons t ts => cases t <;> first | exact hf _ | (exfalso; exact hrest rfl)
  | seq s r =>
    have h := stmts_ok b hb hs.1 m (.kElse :: .lbrace :: .nl :: (showLines (.seq s r) ++ .rbrace :: .nl :: rest)) (by omega)
    have h2 := stmts_ok (.seq s r) he hs.2 m (.nl :: rest) (by omega)
    simp only [showS, List.cons_append, List.append_assoc, List.singleton_append, List.nil_append, pStmt, skipNl, h, stripSemi,
      h2]
    exact finish_prev _ _
  | _ => simp [isList] at hs

theorem stmt_all (s : S) : StmtOk s ∧ ListOk s := by
  induction s with
  | skip => exact ⟨by intro h; simp [isStmt] at h, ListOk_skip⟩
  | seq s r ihs ihr => exact ⟨by intro h; simp [isStmt] at h, ListOk_seq s r ihs.1 ihr.2⟩
  | simple k => exact ⟨StmtOk_simple k, by intro h; simp [isList] at h⟩
  | ifS c b e ihb ihe => exact ⟨StmtOk_if c b e ihb.2 ihe.2, by intro h; simp [isList] at h⟩
  | whileS c b ihb => exact ⟨StmtOk_while c b ihb.2, by intro h; simp [isList] at h⟩
  | doS b c ihb => exact ⟨StmtOk_do b c ihb.2, by intro h; simp [isList] at h⟩
  | forS p c q b ihb => exact ⟨StmtOk_for p c q b ihb.2, by intro h; simp [isList] at h⟩
  | forIn k b ihb => exact ⟨StmtOk_forIn k b ihb.2, by intro h; simp [isList] at h⟩
  | block b ihb => exact ⟨StmtOk_block b ihb.2, by intro h; simp [isList] at h⟩

theorem need_le (s : S) :
    (isStmt s = true → need s ≤ 2 * (showS s).length) ∧ (isList s = true → need s ≤ 2 * (showLines s).length + 1) := by
  induction s with
  | skip => exact ⟨by intro h; simp [isStmt] at h, by intro _; simp [need, showLines]⟩
  | seq s r ihs ihr =>
    refine ⟨by intro h; simp [isStmt] at h, ?_⟩
    intro h
    simp only [isList, Bool.and_eq_true] at h
    have h1 := ihs.1 h.1
    have h2 := ihr.2 h.2
    simp only [need, showLines, List.length_append, List.length_cons]
    omega
  | simple k => exact ⟨by intro _; simp [need, showS], by intro h; simp [isList] at h⟩
  | ifS c b e ihb ihe =>
    refine ⟨?_, by intro h; simp [isList] at h⟩
    intro h
    simp only [isStmt, Bool.and_eq_true] at h
    have h1 := ihb.2 h.1
    have h2 := ihe.2 h.2
    cases e with
    | skip => simp only [need, showS, showLines, List.length_append, List.length_cons, List.length_nil] at h2 ⊢; omega
    | seq x y => simp only [need, showS, List.length_append, List.length_cons, List.length_nil] at h2 ⊢; omega
    | _ => simp [isList] at h
  | whileS c b ihb =>
    refine ⟨?_, by intro h; simp [isList] at h⟩
    intro h; simp only [isStmt] at h
    have h1 := ihb.2 h
    simp only [need, showS, List.length_append, List.length_cons, List.length_nil]; omega
  | doS b c ihb =>
    refine ⟨?_, by intro h; simp [isList] at h⟩
    intro h; simp only [isStmt] at h
    have h1 := ihb.2 h
    simp only [need, showS, List.length_append, List.length_cons, List.length_nil]; omega
  | forS p c q b ihb =>
    refine ⟨?_, by intro h; simp [isList] at h⟩
    intro h; simp only [isStmt] at h
    have h1 := ihb.2 h
    simp only [need, showS, List.length_append, List.length_cons, List.length_nil]; omega
  | forIn k b ihb =>
    refine ⟨?_, by intro h; simp [isList] at h⟩
    intro h; simp only [isStmt] at h
    have h1 := ihb.2 h
    simp only [need, showS, List.length_append, List.length_cons, List.length_nil]; omega
  | block b ihb =>
    refine ⟨?_, by intro h; simp [isList] at h⟩
    intro h; simp only [isStmt] at h
    have h1 := ihb.2 h
    simp only [need, showS, List.length_append, List.length_cons, List.length_nil]; omega

/-- `parseStmt` (fuel from the token count) reads a printed statement back -/
theorem parseStmt_show (s : S) (rest : List STok) (hs : isStmt s = true) (hrest : hd (skipNl rest) ≠ .kElse) :
    parseStmt (showS s ++ .nl :: rest) = some (s, dropSeps rest, true) := by
  unfold parseStmt
  apply (stmt_all s).1 hs _ rest _ hrest
  have := (need_le s).1 hs
  simp only [List.length_append, List.length_cons]
  omega

end GoawkModel.C20Stmt
