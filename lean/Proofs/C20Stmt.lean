import GoawkModel.C20Stmt
/-! C20 — the printed form of the control-flow skeleton (simple | if/else | while | do | for | for-in | block, with
expressions and simple statements as opaque tokens) is read back by the statement parser model as the same tree. -/
namespace GoawkModel.C20Stmt

/-- fuel the parser needs for a printed statement / statement list -/
def need : S → Nat
  | .skip => 1
  | .seq s r => 1 + need s + need r
  | .simple _ => 1
  | .ifS _ b e => 3 + need b + need e
  | .whileS _ b => 3 + need b
  | .doS b _ => 3 + need b
  | .forS _ _ _ b => 3 + need b
  | .forIn _ b => 3 + need b
  | .block b => 2 + need b

/-- append statement lists -/
def app : S → S → S
  | .skip, b => b
  | .seq a r, b => .seq a (app r b)
  | x, _ => x

/-- `if p.tok == SEMICOLON { p.next() }` after a closing brace -/
def stripSemi : List STok → List STok
  | .semi :: r => r
  | r => r

def stmtStart : STok → Bool
  | .kIf | .kWhile | .kDo | .kFor | .lbrace | .simple _ => true
  | _ => false

theorem app_skip (a : S) (h : isList a = true) : app a .skip = a := by
  induction a with
  | skip => rfl
  | seq s r _ ihr => simp only [isList, Bool.and_eq_true] at h; simp only [app, ihr h.2]
  | _ => simp [isList] at h

theorem app_snoc (a s b : S) (h : isList a = true) : app (snoc a s) b = app a (.seq s b) := by
  induction a with
  | skip => rfl
  | seq x r _ ihr => simp only [isList, Bool.and_eq_true] at h; simp only [snoc, app, ihr h.2]
  | _ => simp [isList] at h

theorem isList_snoc (a s : S) (h : isList a = true) (hs : isStmt s = true) : isList (snoc a s) = true := by
  induction a with
  | skip => simp [snoc, isList, hs]
  | seq x r _ ihr => simp only [isList, Bool.and_eq_true] at h; simp [snoc, isList, h.1, ihr h.2]
  | _ => simp [isList] at h

theorem showS_start (s : S) (h : isStmt s = true) : ∃ t ts, showS s = t :: ts ∧ stmtStart t = true := by
  cases s <;> simp [isStmt] at h <;> simp [showS, stmtStart]

/-- what follows a printed statement list inside braces starts with a statement or the closing brace -/
theorem lines_start (b : S) (X : List STok) (h : isList b = true) :
    ∃ t ts, showLines b ++ .rbrace :: X = t :: ts ∧ (stmtStart t = true ∨ t = .rbrace) := by
  cases b with
  | skip => exact ⟨_, _, rfl, Or.inr rfl⟩
  | seq s r =>
    simp only [isList, Bool.and_eq_true] at h
    obtain ⟨t, ts, h1, h2⟩ := showS_start s h.1
    exact ⟨t, ts ++ .nl :: showLines r ++ .rbrace :: X, by simp [showLines, h1], Or.inl h2⟩
  | _ => simp [isList] at h

theorem skipNl_start (t : STok) (ts : List STok) (h : stmtStart t = true ∨ t = .rbrace) : skipNl (t :: ts) = t :: ts := by
  rcases h with h | rfl
  · cases t <;> simp [stmtStart] at h <;> rfl
  · rfl

theorem dropSeps_start (t : STok) (ts : List STok) (h : stmtStart t = true ∨ t = .rbrace) : dropSeps (t :: ts) = t :: ts := by
  rcases h with h | rfl
  · cases t <;> simp [stmtStart] at h <;> rfl
  · rfl

theorem dropSeps_skipNl (r : List STok) : dropSeps (skipNl r) = dropSeps r := by
  induction r with
  | nil => rfl
  | cons t ts ih => cases t <;> simp [skipNl, dropSeps, ih]

theorem pLoop_start (n : Nat) (acc : S) (t : STok) (ts : List STok) (h : stmtStart t = true) :
    pLoop (n+1) acc (t :: ts) =
      match pStmt n (t :: ts) with
      | some (s, r, _) => pLoop n (snoc acc s) r
      | none => none := by
  cases t <;> simp [stmtStart] at h <;> rfl

theorem pLoop_end (n : Nat) (acc : S) (X : List STok) : pLoop (n+1) acc (.rbrace :: X) = some (acc, stripSemi X, true) := by
  cases X with
  | nil => simp [pLoop, stripSemi]
  | cons t ts => cases t <;> simp [pLoop, stripSemi]

theorem finish_sep (s : S) (r : List STok) (p : Bool) (h : isSep (hd r) = true) : finish s r p = some (s, dropSeps r, true) := by
  simp [finish, h]

theorem finish_prev (s : S) (r : List STok) : finish s r true = some (s, dropSeps r, true) := by
  simp [finish]

/-- the claims proved together by induction on the tree -/
def StmtOk (s : S) : Prop :=
  isStmt s = true → ∀ n rest, need s ≤ n → hd (skipNl rest) ≠ .kElse →
    pStmt n (showS s ++ .nl :: rest) = some (s, dropSeps rest, true)

def ListOk (b : S) : Prop :=
  isList b = true → ∀ n acc X, isList acc = true → need b ≤ n →
    pLoop n acc (showLines b ++ .rbrace :: X) = some (app acc b, stripSemi X, true)

/-- a printed `{ … }` body read by `stmtsBrace()` -/
theorem brace_ok (b : S) (hb : ListOk b) (hl : isList b = true) (n : Nat) (X : List STok) (hn : need b + 1 ≤ n) :
    pBrace n (.lbrace :: .nl :: (showLines b ++ .rbrace :: X)) = some (b, stripSemi X, true) := by
  obtain ⟨k, rfl⟩ : ∃ k, n = k + 1 := ⟨n - 1, by omega⟩
  obtain ⟨t, ts, h1, h2⟩ := lines_start b X hl
  have := hb hl k .skip X rfl (by omega)
  simp only [pBrace, skipNl, h1, skipNl_start t ts h2]
  rw [← h1, this]
  rfl

/-- … and by `stmts()` -/
theorem stmts_ok (b : S) (hb : ListOk b) (hl : isList b = true) (n : Nat) (X : List STok) (hn : need b + 2 ≤ n) :
    pStmts n (.lbrace :: .nl :: (showLines b ++ .rbrace :: X)) = some (b, stripSemi X, true) := by
  obtain ⟨k, rfl⟩ : ∃ k, n = k + 1 := ⟨n - 1, by omega⟩
  simp only [pStmts]
  exact brace_ok b hb hl k X (by omega)

theorem stripSemi_nl (rest : List STok) : stripSemi (.nl :: rest) = .nl :: rest := rfl

theorem else_split (r3 : List STok) (h : hd r3 ≠ .kElse) (f : List STok → R) (g : R) :
    (match (generalizing := false) r3 with
      | .kElse :: r4 => f r4
      | _ => g) = g := by
  cases r3 with
  | nil => rfl
  | cons t ts => cases t <;> first | rfl | (exfalso; exact h rfl)

theorem ListOk_skip : ListOk .skip := by
  intro _ n acc X hacc hn
  obtain ⟨k, rfl⟩ : ∃ k, n = k + 1 := ⟨n - 1, by simp [need] at hn; omega⟩
  simp only [showLines, List.nil_append, pLoop_end, app_skip acc hacc]

theorem ListOk_seq (s r : S) (hs : StmtOk s) (hr : ListOk r) : ListOk (.seq s r) := by
  intro hl n acc X hacc hn
  simp only [isList, Bool.and_eq_true] at hl
  simp only [need] at hn
  obtain ⟨k, rfl⟩ : ∃ k, n = k + 1 := ⟨n - 1, by omega⟩
  obtain ⟨t, ts, h1, h2⟩ := showS_start s hl.1
  obtain ⟨t', ts', h1', h2'⟩ := lines_start r X hl.2
  have hstmt := hs hl.1 k (showLines r ++ .rbrace :: X) (by omega)
    (by
      rw [h1', skipNl_start t' ts' h2']
      intro heq
      simp only [hd] at heq
      rcases h2' with h | h
      · rw [heq] at h; simp [stmtStart] at h
      · rw [heq] at h; cases h)
  have e1 : showLines (.seq s r) ++ .rbrace :: X = showS s ++ .nl :: (showLines r ++ .rbrace :: X) := by
    simp [showLines]
  rw [e1]
  have e2 : showS s ++ .nl :: (showLines r ++ .rbrace :: X) = t :: (ts ++ .nl :: (showLines r ++ .rbrace :: X)) := by
    rw [h1]; rfl
  rw [e2, pLoop_start k acc t _ h2, ← e2, hstmt]
  simp only []
  rw [h1', dropSeps_start t' ts' h2', ← h1']
  rw [hr hl.2 k (snoc acc s) X (isList_snoc acc s hacc hl.1) (by omega), app_snoc acc s r hacc]

theorem StmtOk_simple (k : Nat) : StmtOk (.simple k) := by
  intro _ n rest hn _
  obtain ⟨m, rfl⟩ : ∃ m, n = m + 1 := ⟨n - 1, by simp [need] at hn; omega⟩
  simp only [showS, List.cons_append, List.nil_append, pStmt]
  exact finish_sep _ _ _ rfl

theorem StmtOk_block (b : S) (hb : ListOk b) : StmtOk (.block b) := by
  intro hs n rest hn _
  simp only [isStmt] at hs
  simp only [need] at hn
  obtain ⟨m, rfl⟩ : ∃ m, n = m + 1 := ⟨n - 1, by omega⟩
  have h := brace_ok b hb hs m (.nl :: rest) (by omega)
  simp only [showS, List.cons_append, List.append_assoc, List.singleton_append, List.nil_append, pStmt, h, stripSemi_nl]
  exact finish_prev _ _

theorem StmtOk_while (c : Nat) (b : S) (hb : ListOk b) : StmtOk (.whileS c b) := by
  intro hs n rest hn _
  simp only [isStmt] at hs
  simp only [need] at hn
  obtain ⟨m, rfl⟩ : ∃ m, n = m + 1 := ⟨n - 1, by omega⟩
  have h := stmts_ok b hb hs m (.nl :: rest) (by omega)
  simp only [showS, List.cons_append, List.append_assoc, List.singleton_append, List.nil_append, pStmt, skipNl, h, stripSemi_nl]
  exact finish_prev _ _

theorem StmtOk_forIn (k : Nat) (b : S) (hb : ListOk b) : StmtOk (.forIn k b) := by
  intro hs n rest hn _
  simp only [isStmt] at hs
  simp only [need] at hn
  obtain ⟨m, rfl⟩ : ∃ m, n = m + 1 := ⟨n - 1, by omega⟩
  have h := stmts_ok b hb hs m (.nl :: rest) (by omega)
  simp only [showS, List.cons_append, List.append_assoc, List.singleton_append, List.nil_append, pStmt, skipNl, h, stripSemi_nl]
  exact finish_prev _ _

theorem StmtOk_do (b : S) (c : Nat) (hb : ListOk b) : StmtOk (.doS b c) := by
  intro hs n rest hn _
  simp only [isStmt] at hs
  simp only [need] at hn
  obtain ⟨m, rfl⟩ : ∃ m, n = m + 1 := ⟨n - 1, by omega⟩
  have h := stmts_ok b hb hs m (.kWhile :: .lparen :: .expr c :: .rparen :: .nl :: rest) (by omega)
  simp only [showS, List.cons_append, List.append_assoc, List.nil_append, pStmt, skipNl, h, stripSemi]
  exact finish_sep _ _ _ rfl

theorem StmtOk_for (pre cond post : Option Nat) (b : S) (hb : ListOk b) : StmtOk (.forS pre cond post b) := by
  intro hs n rest hn _
  simp only [isStmt] at hs
  simp only [need] at hn
  obtain ⟨m, rfl⟩ : ∃ m, n = m + 1 := ⟨n - 1, by omega⟩
  have h := stmts_ok b hb hs m (.nl :: rest) (by omega)
  cases pre <;> cases cond <;> cases post <;>
    simp only [showS, List.cons_append, List.append_assoc, List.singleton_append, List.nil_append, pStmt, skipNl, h,
      stripSemi_nl] <;>
    exact finish_prev _ _

theorem StmtOk_if (c : Nat) (b e : S) (hb : ListOk b) (he : ListOk e) : StmtOk (.ifS c b e) := by
  intro hs n rest hn hrest
  simp only [isStmt, Bool.and_eq_true] at hs
  simp only [need] at hn
  obtain ⟨m, rfl⟩ : ∃ m, n = m + 1 := ⟨n - 1, by omega⟩
  cases e with
  | skip =>
    have h := stmts_ok b hb hs.1 m (.nl :: rest) (by omega)
    simp only [showS, List.cons_append, List.append_assoc, List.nil_append, pStmt, skipNl, h, stripSemi_nl]
    rw [← dropSeps_skipNl rest]
    generalize skipNl rest = r3 at hrest ⊢
    have hf : ∀ p, finish (S.ifS c b S.skip) r3 (true || p) = some (S.ifS c b S.skip, dropSeps r3, true) := by
      intro p; simp [finish]
    cases r3 with
    | nil => exact hf _
    | cons t ts => cases t <;> first | exact hf _ | (exfalso; exact hrest rfl)
  | seq s r =>
    have h := stmts_ok b hb hs.1 m (.kElse :: .lbrace :: .nl :: (showLines (.seq s r) ++ .rbrace :: .nl :: rest)) (by omega)
    have h2 := stmts_ok (.seq s r) he hs.2 m (.nl :: rest) (by omega)
    simp only [showS, List.cons_append, List.append_assoc, List.singleton_append, List.nil_append, pStmt, skipNl, h, stripSemi,
      h2]
    exact finish_prev _ _
  | _ => simp [isList] at hs

theorem stmt_all (s : S) : StmtOk s ∧ ListOk s := by
  induction s with
  | skip => exact ⟨by intro h; simp [isStmt] at h, ListOk_skip⟩
  | seq s r ihs ihr => exact ⟨by intro h; simp [isStmt] at h, ListOk_seq s r ihs.1 ihr.2⟩
  | simple k => exact ⟨StmtOk_simple k, by intro h; simp [isList] at h⟩
  | ifS c b e ihb ihe => exact ⟨StmtOk_if c b e ihb.2 ihe.2, by intro h; simp [isList] at h⟩
  | whileS c b ihb => exact ⟨StmtOk_while c b ihb.2, by intro h; simp [isList] at h⟩
  | doS b c ihb => exact ⟨StmtOk_do b c ihb.2, by intro h; simp [isList] at h⟩
  | forS p c q b ihb => exact ⟨StmtOk_for p c q b ihb.2, by intro h; simp [isList] at h⟩
  | forIn k b ihb => exact ⟨StmtOk_forIn k b ihb.2, by intro h; simp [isList] at h⟩
  | block b ihb => exact ⟨StmtOk_block b ihb.2, by intro h; simp [isList] at h⟩

theorem need_le (s : S) :
    (isStmt s = true → need s ≤ 2 * (showS s).length) ∧ (isList s = true → need s ≤ 2 * (showLines s).length + 1) := by
  induction s with
  | skip => exact ⟨by intro h; simp [isStmt] at h, by intro _; simp [need, showLines]⟩
  | seq s r ihs ihr =>
    refine ⟨by intro h; simp [isStmt] at h, ?_⟩
    intro h
    simp only [isList, Bool.and_eq_true] at h
    have h1 := ihs.1 h.1
    have h2 := ihr.2 h.2
    simp only [need, showLines, List.length_append, List.length_cons]
    omega
  | simple k => exact ⟨by intro _; simp [need, showS], by intro h; simp [isList] at h⟩
  | ifS c b e ihb ihe =>
    refine ⟨?_, by intro h; simp [isList] at h⟩
    intro h
    simp only [isStmt, Bool.and_eq_true] at h
    have h1 := ihb.2 h.1
    have h2 := ihe.2 h.2
    cases e with
    | skip => simp only [need, showS, showLines, List.length_append, List.length_cons, List.length_nil] at h2 ⊢; omega
    | seq x y => simp only [need, showS, List.length_append, List.length_cons, List.length_nil] at h2 ⊢; omega
    | _ => simp [isList] at h
  | whileS c b ihb =>
    refine ⟨?_, by intro h; simp [isList] at h⟩
    intro h; simp only [isStmt] at h
    have h1 := ihb.2 h
    simp only [need, showS, List.length_append, List.length_cons, List.length_nil]; omega
  | doS b c ihb =>
    refine ⟨?_, by intro h; simp [isList] at h⟩
    intro h; simp only [isStmt] at h
    have h1 := ihb.2 h
    simp only [need, showS, List.length_append, List.length_cons, List.length_nil]; omega
  | forS p c q b ihb =>
    refine ⟨?_, by intro h; simp [isList] at h⟩
    intro h; simp only [isStmt] at h
    have h1 := ihb.2 h
    simp only [need, showS, List.length_append, List.length_cons, List.length_nil]; omega
  | forIn k b ihb =>
    refine ⟨?_, by intro h; simp [isList] at h⟩
    intro h; simp only [isStmt] at h
    have h1 := ihb.2 h
    simp only [need, showS, List.length_append, List.length_cons, List.length_nil]; omega
  | block b ihb =>
    refine ⟨?_, by intro h; simp [isList] at h⟩
    intro h; simp only [isStmt] at h
    have h1 := ihb.2 h
    simp only [need, showS, List.length_append, List.length_cons, List.length_nil]; omega

/-- `parseStmt` (fuel from the token count) reads a printed statement back -/
theorem parseStmt_show (s : S) (rest : List STok) (hs : isStmt s = true) (hrest : hd (skipNl rest) ≠ .kElse) :
    parseStmt (showS s ++ .nl :: rest) = some (s, dropSeps rest, true) := by
  unfold parseStmt
  apply (stmt_all s).1 hs _ rest _ hrest
  have := (need_le s).1 hs
  simp only [List.length_append, List.length_cons]
  omega

/-! ### items -/

/-- what follows a printed item: nothing, or the blank line before the next item -/
def tailOk (X : List STok) : Prop := X = [] ∨ ∃ Y, X = .nl :: Y

theorem stripSemi_tail (X : List STok) (h : tailOk X) : stripSemi X = X := by
  rcases h with rfl | ⟨Y, rfl⟩ <;> rfl

theorem body_ok (b : S) (hl : isList b = true) (fuel : Nat) (X : List STok) (hf : need b + 1 ≤ fuel) (hX : tailOk X) :
    pBrace fuel (showBody b ++ X) = some (b, X, true) := by
  have := brace_ok b (stmt_all b).2 hl fuel X hf
  rw [stripSemi_tail X hX] at this
  simpa [showBody] using this

/-- `, p₂ , p₃ …` -/
def moreParams : List Nat → List STok
  | [] => []
  | p :: ps => .comma :: .param p :: moreParams ps

theorem showParams_cons (p : Nat) (ps : List Nat) : showParams (p :: ps) = .param p :: moreParams ps := by
  induction ps generalizing p with
  | nil => rfl
  | cons q qs ih => simp [showParams, moreParams, ih q]

theorem pParams_more (ps : List Nat) (X : List STok) : ∀ n, ps.length < n →
    pParams n false (moreParams ps ++ .rparen :: X) = some (ps, X) := by
  induction ps with
  | nil =>
    intro n hn
    obtain ⟨m, rfl⟩ : ∃ m, n = m + 1 := ⟨n - 1, by simp at hn; omega⟩
    rfl
  | cons p ps ih =>
    intro n hn
    obtain ⟨m, rfl⟩ : ∃ m, n = m + 1 := ⟨n - 1, by simp at hn; omega⟩
    have := ih m (by simp at hn; omega)
    simp only [moreParams, List.cons_append, pParams, Bool.false_eq_true, if_false, skipNl, this]

theorem pParams_show (ps : List Nat) (X : List STok) (n : Nat) (hn : ps.length < n) :
    pParams (n+1) true (showParams ps ++ .rparen :: X) = some (ps, X) := by
  cases ps with
  | nil => rfl
  | cons p ps =>
    have := pParams_more ps X n (by simp at hn; omega)
    rw [showParams_cons]
    simp only [List.cons_append, pParams, if_true, this]

theorem showParams_length (ps : List Nat) : ps.length ≤ (showParams ps).length := by
  cases ps with
  | nil => simp
  | cons p ps =>
    rw [showParams_cons]
    induction ps with
    | nil => simp [moreParams]
    | cons q qs ih => simp only [moreParams, List.length_cons] at ih ⊢; omega

/-- `needsTerminator` after the item -/
def bodiless : Item → Bool
  | .action _ none => true
  | _ => false

/-- fuel `stmtsBrace()` needs for the item's body -/
def itemNeed : Item → Nat
  | .begin b => need b + 1
  | .end_ b => need b + 1
  | .func _ _ b => need b + 1
  | .action _ (some b) => need b + 1
  | .action _ none => 0

theorem skipNl_body (b : S) (X : List STok) : skipNl (showBody b ++ X) = showBody b ++ X := rfl

theorem pItemAt_show (i : Item) (X : List STok) (fuel : Nat) (hok : okItem i = true) (hf : itemNeed i ≤ fuel) (hX : tailOk X) :
    pItemAt fuel (showItem i ++ X) = some (i, X, bodiless i) := by
  cases i with
  | begin b =>
    have := body_ok b hok fuel X hf hX
    simp only [showItem, List.cons_append, pItemAt, this, bodiless]
  | end_ b =>
    have := body_ok b hok fuel X hf hX
    simp only [showItem, List.cons_append, pItemAt, this, bodiless]
  | func k ps b =>
    have hb := body_ok b hok fuel X hf hX
    have hp := pParams_show ps (showBody b ++ X) (showParams ps ++ .rparen :: (showBody b ++ X)).length
      (by have := showParams_length ps; simp only [List.length_append, List.length_cons]; omega)
    simp only [showItem, List.cons_append, List.append_assoc, pItemAt, Nat.succ_eq_add_one, hp, skipNl_body, hb, bodiless]
  | action pats body =>
    cases body with
    | none =>
      -- a pattern (or a range) without an action
      match pats, hok with
      | [c], _ => rcases hX with rfl | ⟨Y, rfl⟩ <;> simp [showItem, showPats, pItemAt, hd, isSep, bodiless]
      | [c, d], _ => rcases hX with rfl | ⟨Y, rfl⟩ <;> simp [showItem, showPats, pItemAt, hd, isSep, skipNl, bodiless]
    | some b =>
      simp only [okItem, Bool.and_eq_true, decide_eq_true_eq] at hok
      have hb := body_ok b hok.2 fuel X hf hX
      have e : showBody b ++ X = .lbrace :: .nl :: (showLines b ++ .rbrace :: X) := by simp [showBody]
      rw [e] at hb
      match pats, hok.1 with
      | [], _ => simp [showItem, showPats, pItemAt, showBody, hd, hb, bodiless]
      | [c], _ => simp [showItem, showPats, pItemAt, showBody, hd, hb, bodiless]
      | [c, d], _ => simp [showItem, showPats, pItemAt, showBody, hd, isSep, skipNl, hb, bodiless]

/-- the blank line and the remaining items -/
def restToks : List Item → List STok
  | [] => []
  | is => .nl :: .nl :: showProg is

theorem showProg_cons (i : Item) (is : List Item) : showProg (i :: is) = showItem i ++ restToks is := by
  cases is with
  | nil => simp [showProg, restToks]
  | cons j js => simp [showProg, restToks]

theorem restToks_tailOk (is : List Item) : tailOk (restToks is) := by
  cases is with
  | nil => exact Or.inl rfl
  | cons j js => exact Or.inr ⟨_, rfl⟩

/-- a printed item starts with a token that is neither a newline nor a separator -/
theorem item_head (i : Item) (hok : okItem i = true) (X : List STok) :
    ∃ t ts, showItem i ++ X = t :: ts ∧ skipNl (t :: ts) = t :: ts := by
  cases i with
  | begin b => exact ⟨_, _, rfl, rfl⟩
  | end_ b => exact ⟨_, _, rfl, rfl⟩
  | func k ps b => exact ⟨_, _, rfl, rfl⟩
  | action pats body =>
    cases body with
    | none =>
      match pats, hok with
      | [c], _ => exact ⟨_, _, rfl, rfl⟩
      | [c, d], _ => exact ⟨_, _, rfl, rfl⟩
    | some b =>
      simp only [okItem, Bool.and_eq_true, decide_eq_true_eq] at hok
      match pats, hok.1 with
      | [], _ => exact ⟨_, _, rfl, rfl⟩
      | [c], _ => exact ⟨_, _, rfl, rfl⟩
      | [c, d], _ => exact ⟨_, _, rfl, rfl⟩

theorem itemNeed_le (i : Item) (hok : okItem i = true) : itemNeed i ≤ 2 * (showItem i).length + 2 := by
  cases i with
  | begin b => have := (need_le b).2 hok; simp only [itemNeed, showItem, showBody, List.length_cons, List.length_append]; omega
  | end_ b => have := (need_le b).2 hok; simp only [itemNeed, showItem, showBody, List.length_cons, List.length_append]; omega
  | func k ps b =>
    have := (need_le b).2 hok
    simp only [itemNeed, showItem, showBody, List.length_cons, List.length_append]; omega
  | action pats body =>
    cases body with
    | none => simp [itemNeed]
    | some b =>
      simp only [okItem, Bool.and_eq_true] at hok
      have := (need_le b).2 hok.2
      simp only [itemNeed, showItem, showBody, List.length_cons, List.length_append]; omega

/-- one round of the item loop on a printed item -/
theorem pItems_step (i : Item) (is : List Item) (n : Nat) (needs : Bool) (pre : List STok) (hok : okItem i = true)
    (hpre : (pre = [] ∧ needs = false) ∨ pre = [.nl, .nl]) :
    pItems (n+1) needs (pre ++ (showItem i ++ restToks is)) = (pItems n (bodiless i) (restToks is)).map (i :: ·) := by
  obtain ⟨t, ts, h1, h2⟩ := item_head i hok (restToks is)
  have hfuel : ∀ L : List STok, itemNeed i ≤ 2 * (L ++ (showItem i ++ restToks is)).length + 2 := by
    intro L
    have := itemNeed_le i hok
    simp only [List.length_append]; omega
  have hitem := fun fuel hf => pItemAt_show i (restToks is) fuel hok hf (restToks_tailOk is)
  rcases hpre with ⟨rfl, rfl⟩ | rfl
  · rw [List.nil_append, h1]
    simp only [pItems, Bool.false_eq_true, if_false, h2]
    rw [← h1, hitem _ (by have := hfuel []; simpa using this)]
  · have e : [STok.nl, STok.nl] ++ (showItem i ++ restToks is) = .nl :: .nl :: (showItem i ++ restToks is) := rfl
    rw [e]
    have hf2 := hfuel [STok.nl, STok.nl]
    cases needs
    · simp only [pItems, Bool.false_eq_true, if_false, skipNl, h1, h2]
      rw [← h1, hitem _ (by simpa using hf2)]
    · simp only [pItems, if_true, isSep, skipNl, h1, h2]
      rw [← h1, hitem _ (by simpa using hf2)]

theorem pItems_rest (is : List Item) (hok : ∀ i ∈ is, okItem i = true) : ∀ n needs, is.length < n →
    pItems n needs (restToks is) = some is := by
  induction is with
  | nil =>
    intro n needs hn
    obtain ⟨m, rfl⟩ : ∃ m, n = m + 1 := ⟨n - 1, by simp at hn; omega⟩
    rfl
  | cons i is ih =>
    intro n needs hn
    obtain ⟨m, rfl⟩ : ∃ m, n = m + 1 := ⟨n - 1, by simp at hn; omega⟩
    have e : restToks (i :: is) = [STok.nl, STok.nl] ++ (showItem i ++ restToks is) := by
      simp [restToks, showProg_cons]
    rw [e, pItems_step i is m needs _ (hok i (by simp)) (Or.inr rfl),
      ih (fun j hj => hok j (by simp [hj])) m _ (by simp at hn; omega)]
    rfl

theorem restToks_length (is : List Item) : is.length ≤ (restToks is).length := by
  induction is with
  | nil => simp [restToks]
  | cons i is ih =>
    have : restToks (i :: is) = .nl :: .nl :: (showItem i ++ restToks is) := by simp [restToks, showProg_cons]
    rw [this]; simp only [List.length_cons, List.length_append]; omega

/-- the printed program skeleton is read back by `program()` as the same list of items -/
theorem parseProg_show (is : List Item) (hok : ∀ i ∈ is, okItem i = true) : parseProg (showProg is) = some is := by
  cases is with
  | nil => rfl
  | cons i is =>
    unfold parseProg
    rw [showProg_cons]
    have := pItems_step i is (showItem i ++ restToks is).length false [] (hok i (by simp)) (Or.inl ⟨rfl, rfl⟩)
    rw [List.nil_append] at this
    rw [this, pItems_rest is (fun j hj => hok j (by simp [hj])) _ _
      (by
        have := restToks_length is
        obtain ⟨t, ts, h1, _⟩ := item_head i (hok i (by simp)) []
        have h2 : 1 ≤ (showItem i).length := by
          have := congrArg List.length h1; simp at this; omega
        simp only [List.length_append]; omega)]
    rfl

end GoawkModel.C20Stmt
