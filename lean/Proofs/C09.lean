import GoawkModel.C09
import GoawkModel.C09Spec
/-! Helper lemmas for property C09: ASCII text and `fmt.pad`, digit strings, and the per-family equalities between Go's `fmt`
formatting (as modelled) and the C rules. -/
namespace GoawkModel.C09
open GoawkModel

def AllAscii (b : Bytes) : Prop := ∀ x ∈ b, x < 128

theorem runeSize_ascii_cons (x : UInt8) (r : Bytes) (h : x < 128) : runeSize (x :: r) = 1 := by
  have : x < 0x80 := h
  simp [runeSize, this]

theorem runeCountAux_ascii : ∀ (b : Bytes) (fuel : Nat), b.length ≤ fuel → AllAscii b → runeCountAux fuel b = b.length := by
  intro b
  induction b with
  | nil => intro fuel _ _; cases fuel <;> simp [runeCountAux]
  | cons x r ih =>
    intro fuel hf ha
    cases fuel with
    | zero => simp at hf
    | succ f =>
      have hx : x < 128 := ha x (by simp)
      have hr : AllAscii r := fun y hy => ha y (by simp [hy])
      simp only [runeCountAux, runeSize_ascii_cons x r hx, List.drop_succ_cons, List.drop_zero, List.length_cons]
      rw [ih f (by simpa using hf) hr]; omega

theorem runeCount_ascii (b : Bytes) (h : AllAscii b) : runeCount b = b.length :=
  runeCountAux_ascii b b.length (Nat.le_refl _) h

theorem truncRunesAux_ascii : ∀ (b : Bytes) (fuel n : Nat), b.length ≤ fuel → AllAscii b → truncRunesAux fuel n b = b.take n := by
  intro b
  induction b with
  | nil => intro fuel n _ _; cases fuel <;> cases n <;> simp [truncRunesAux]
  | cons x r ih =>
    intro fuel n hf ha
    cases fuel with
    | zero => simp at hf
    | succ f =>
      cases n with
      | zero => simp [truncRunesAux]
      | succ n =>
        have hx : x < 128 := ha x (by simp)
        have hr : AllAscii r := fun y hy => ha y (by simp [hy])
        simp only [truncRunesAux, runeSize_ascii_cons x r hx, List.drop_succ_cons, List.drop_zero, List.take_succ_cons, List.take_zero]
        rw [ih f n (by simpa using hf) hr]; simp

theorem truncRunes_ascii (n : Nat) (b : Bytes) (h : AllAscii b) : truncRunes n b = b.take n :=
  truncRunesAux_ascii b b.length n (Nat.le_refl _) h

/-- `fmt.pad` on ASCII text: pad to `w` bytes -/
theorem goPad_ascii (fl : Flags) (z : Bool) (wid : Option Nat) (b : Bytes) (h : AllAscii b) :
    goPad fl z wid b =
      if fl.minus then b ++ spaces ((wid.getD 0) - b.length)
      else (if z then zeros ((wid.getD 0) - b.length) else spaces ((wid.getD 0) - b.length)) ++ b := by
  cases wid with
  | none => cases fl.minus <;> cases z <;> simp [goPad, spaces, zeros]
  | some w =>
    cases w with
    | zero => cases fl.minus <;> cases z <;> simp [goPad, spaces, zeros]
    | succ w => cases hm : fl.minus <;> cases z <;> simp [goPad, hm, runeCount_ascii b h]

theorem digitChar_ascii (up : Bool) (d : Nat) (h : d < 16) : digitChar up d < 128 := by
  have : ∀ d, d < 16 → ∀ up, digitChar up d < 128 := by decide
  exact this d h up

theorem natDigitsAux_ascii (base : Nat) (hb : 2 ≤ base ∧ base ≤ 16) (up : Bool) :
    ∀ (fuel n : Nat) (acc : Bytes), AllAscii acc → AllAscii (natDigitsAux base up fuel n acc) := by
  intro fuel
  induction fuel with
  | zero => intro n acc h; simpa [natDigitsAux] using h
  | succ f ih =>
    intro n acc h
    unfold natDigitsAux
    split
    · rename_i hlt
      intro x hx
      rcases List.mem_cons.mp hx with rfl | hx
      · exact digitChar_ascii up n (by omega)
      · exact h x hx
    · apply ih
      intro x hx
      rcases List.mem_cons.mp hx with rfl | hx
      · exact digitChar_ascii up _ (by have := Nat.mod_lt n (show base > 0 by omega); omega)
      · exact h x hx

theorem natDigits_ascii (base : Nat) (hb : 2 ≤ base ∧ base ≤ 16) (up : Bool) (n : Nat) : AllAscii (natDigits base up n) :=
  natDigitsAux_ascii base hb up _ _ [] (by intro x hx; simp at hx)

theorem natDigitsAux_ne_nil (base : Nat) (up : Bool) : ∀ (fuel n : Nat) (acc : Bytes), (fuel = 0 → acc ≠ []) → natDigitsAux base up fuel n acc ≠ [] := by
  intro fuel
  induction fuel with
  | zero => intro n acc h; simpa [natDigitsAux] using h rfl
  | succ f ih =>
    intro n acc _
    unfold natDigitsAux
    split
    · simp
    · apply ih; intro _; simp

theorem natDigits_ne_nil (base : Nat) (up : Bool) (n : Nat) : natDigits base up n ≠ [] :=
  natDigitsAux_ne_nil base up _ _ [] (by omega)

theorem allAscii_append {a b : Bytes} (ha : AllAscii a) (hb : AllAscii b) : AllAscii (a ++ b) := by
  intro x hx; rcases List.mem_append.mp hx with h | h; exact ha x h; exact hb x h
theorem allAscii_cons {x : UInt8} {b : Bytes} (hx : x < 128) (hb : AllAscii b) : AllAscii (x :: b) := by
  intro y hy; rcases List.mem_cons.mp hy with rfl | h; exact hx; exact hb y h
theorem allAscii_zeros (n : Nat) : AllAscii (zeros n) := by
  intro x hx; simp [zeros] at hx; rw [hx.2]; decide
theorem allAscii_nil : AllAscii [] := by intro x hx; simp at hx


theorem goPad_false_eq (fl : Flags) (wid : Option Nat) (b : Bytes) (h : AllAscii b) :
    goPad fl false wid b = cPadSpaces fl wid b.length b := by
  rw [goPad_ascii fl false wid b h]; unfold cPadSpaces; cases fl.minus <;> simp

theorem zeros_append_zeros (a b : Nat) : zeros a ++ zeros b = zeros (a + b) := by
  simp [zeros, List.replicate_append_replicate]

theorem length_zeros (n : Nat) : (zeros n).length = n := by simp [zeros]
theorem length_spaces (n : Nat) : (spaces n).length = n := by simp [spaces]
theorem zeros_zero : zeros 0 = [] := rfl
theorem spaces_zero : spaces 0 = [] := rfl

def signOf (neg : Bool) (fl : Flags) : Bytes :=
  if neg then [45] else if fl.plus then [43] else if fl.space then [32] else []

theorem signOf_ascii (neg : Bool) (fl : Flags) : AllAscii (signOf neg fl) := by
  unfold signOf; intro x hx; split at hx
  · simp at hx; rw [hx]; decide
  · split at hx
    · simp at hx; rw [hx]; decide
    · split at hx
      · simp at hx; rw [hx]; decide
      · simp at hx

theorem signOf_len (neg : Bool) (fl : Flags) : (signOf neg fl).length = if neg || fl.plus || fl.space then 1 else 0 := by
  unfold signOf; cases neg <;> cases fl.plus <;> cases fl.space <;> simp

theorem go_sign_eq (neg : Bool) (fl : Flags) (ds : Bytes) :
    (if neg then 45 :: ds else if fl.plus then 43 :: ds else if fl.space then 32 :: ds else ds) = signOf neg fl ++ ds := by
  unfold signOf; cases neg <;> cases fl.plus <;> cases fl.space <;> simp



theorem pad_congr (fl : Flags) (wid : Option Nat) (a b : Bytes) (n : Nat) (h : a = b) (hn : n = b.length) (ha : AllAscii a) :
    goPad fl false wid a = cPadSpaces fl wid n b := by
  subst h; subst hn; exact goPad_false_eq fl wid a ha

/-- `cFmtInteger` with the verb tests abstracted -/
def cIntCore (fl : Flags) (wid prec : Option Nat) (signed oct hex upper : Bool) (base : Nat) (neg : Bool) (mag : Nat) : Bytes :=
  let p := prec.getD 1
  let ds : Bytes := if mag = 0 ∧ p = 0 then [] else natDigits base upper mag
  let ds := zeros (p - ds.length) ++ ds
  let ds := if fl.sharp && oct && ds.head? ≠ some 48 then 48 :: ds else ds
  let sign : Bytes := if signed then signOf neg fl else []
  let pre : Bytes := if fl.sharp && hex && mag ≠ 0 then [48, if upper then 88 else 120] else []
  let len := sign.length + pre.length + ds.length
  if fl.zero && !fl.minus && prec.isNone then
    sign ++ pre ++ zeros ((wid.getD 0) - len) ++ ds
  else cPadSpaces fl wid len (sign ++ pre ++ ds)

theorem cFmtInteger_core (fl : Flags) (wid prec : Option Nat) (neg : Bool) (mag : Nat) :
    cFmtInteger ⟨fl, wid, prec, 100⟩ neg mag = cIntCore fl wid prec true false false false 10 neg mag ∧
    cFmtInteger ⟨fl, wid, prec, 105⟩ neg mag = cIntCore fl wid prec true false false false 10 neg mag ∧
    cFmtInteger ⟨fl, wid, prec, 117⟩ neg mag = cIntCore fl wid prec false false false false 10 neg mag ∧
    cFmtInteger ⟨fl, wid, prec, 111⟩ neg mag = cIntCore fl wid prec false true false false 8 neg mag ∧
    cFmtInteger ⟨fl, wid, prec, 120⟩ neg mag = cIntCore fl wid prec false false true false 16 neg mag ∧
    cFmtInteger ⟨fl, wid, prec, 88⟩ neg mag = cIntCore fl wid prec false false true true 16 neg mag := by
  refine ⟨?_, ?_, ?_, ?_, ?_, ?_⟩ <;> simp [cFmtInteger, cIntCore, signOf]


theorem zeros_snoc (a : Nat) (ds : Bytes) : zeros a ++ 48 :: ds = zeros (a + 1) ++ ds := by
  simp [zeros, List.replicate_succ']

theorem head_zeros_append (k : Nat) (ds : Bytes) (hk : k > 0) : (zeros k ++ ds).head? = some 48 := by
  cases k with
  | zero => omega
  | succ k => simp [zeros, List.replicate_succ]

/-- the integer conversions: Go's `fmtInteger` is C's rule, outside the recorded classes -/
theorem goInt_eq_cIntCore (fl : Flags) (wid prec : Option Nat) (signed oct hex upper : Bool) (base : Nat)
    (hb : 2 ≤ base ∧ base ≤ 16) (neg : Bool) (u : Nat)
    (hoct : oct = true ↔ base = 8) (hhex : hex = true ↔ base = 16)
    (hsharpdom : fl.sharp = true → oct = true ∨ hex = true)
    (hsigned : signed = false → neg = false ∧ fl.plus = false ∧ fl.space = false)
    (hunsigned : oct = true ∨ hex = true → signed = false)
    (hF15a : ¬ (u = 0 ∧ prec = some 0 ∧ (neg = true ∨ fl.plus = true ∨ fl.space = true)))
    (hF15b : ¬ (u = 0 ∧ fl.sharp = true ∧ hex = true ∧ prec ≠ some 0))
    (hF15c : ¬ (u = 0 ∧ fl.sharp = true ∧ oct = true ∧ prec = some 0))
    (hG1 : ¬ (fl.sharp = true ∧ hex = true ∧ fl.zero = true ∧ fl.minus = false ∧ prec = none ∧
              ∃ w, wid = some w ∧ w > (natDigits base upper u).length)) :
    goFmtInteger fl wid prec neg u base upper = cIntCore fl wid prec signed oct hex upper base neg u := by
  have hds := natDigits_ascii base hb upper u
  have hne := natDigits_ne_nil base upper u
  have hsgn : (if signed = true then signOf neg fl else []) = signOf neg fl := by
    cases signed with
    | true => rfl
    | false =>
      obtain ⟨h1, h2, h3⟩ := hsigned rfl
      simp [signOf, h1, h2, h3]
  unfold goFmtInteger cIntCore
  simp only [go_sign_eq, hsgn]
  generalize natDigits base upper u = ds at *
  have hnd : ds.length ≥ 1 := by cases ds with | nil => exact absurd rfl hne | cons _ _ => simp
  have hsl := signOf_len neg fl
  have hsa := signOf_ascii neg fl
  have h1sub : 1 - ds.length = 0 := by omega
  -- the zero-padding precision of Go when no zero padding applies
  have hP0 : (fl.zero && !fl.minus) = false →
      (if (fl.zero && !fl.minus && wid.isSome) = true then wid.getD 0 - (if (neg || fl.plus || fl.space) = true then 1 else 0) else 0) = 0 := by
    intro h; simp [h]
  cases hsh : fl.sharp with
  | false =>
    simp only [Bool.false_and, Bool.false_eq_true, if_false, List.nil_append, List.length_nil, Nat.add_zero, List.append_nil]
    cases prec with
    | some p =>
      by_cases h0 : p = 0 ∧ u = 0
      · obtain ⟨hp, hu⟩ := h0
        subst hp; subst hu
        have hs : signOf neg fl = [] := by
          have : ¬ (neg = true ∨ fl.plus = true ∨ fl.space = true) := fun h => hF15a ⟨rfl, rfl, h⟩
          unfold signOf; cases neg <;> cases hp : fl.plus <;> cases hsp : fl.space <;> simp_all
        simp [hs, cPadSpaces, zeros_zero]
      · have h1 : ¬ (some p = some 0 ∧ u = 0) := by intro h; apply h0; simp_all
        have h2 : ¬ (u = 0 ∧ p = 0) := by intro h; apply h0; simp_all
        simp only [h1, if_false, Option.getD_some, h2, Option.isNone_some, Bool.and_false, Bool.false_eq_true]
        apply pad_congr
        · rfl
        · simp [length_zeros]
        · exact allAscii_append hsa (allAscii_append (allAscii_zeros _) hds)
    | none =>
      have h1 : ¬ ((none : Option Nat) = some 0 ∧ u = 0) := by simp
      have h2 : ¬ (u = 0 ∧ 1 = 0) := by simp
      simp only [h1, if_false, Option.getD_none, Option.isNone_none, Bool.and_true, h2, h1sub, zeros_zero, List.nil_append]
      cases hz : (fl.zero && !fl.minus) with
      | true =>
        have hz' : fl.zero = true ∧ fl.minus = false := by simpa using hz
        simp only [if_true]
        cases wid with
        | none => simp [goPad, zeros_zero]
        | some w =>
          simp only [Option.isSome_some, Option.getD_some, Bool.and_true, if_true]
          rw [goPad_ascii _ _ _ _ (allAscii_append hsa (allAscii_append (allAscii_zeros _) hds))]
          simp only [hz'.2, Bool.false_eq_true, if_false, Option.getD_some, List.length_append, length_zeros]
          have hlen : (w - ((signOf neg fl).length + (w - (if (neg || fl.plus || fl.space) = true then 1 else 0) - ds.length + ds.length))) = 0 := by
            rw [hsl]; split <;> omega
          rw [hlen, spaces_zero, List.nil_append]
          simp only [List.append_assoc]
          have : (w - (if (neg || fl.plus || fl.space) = true then 1 else 0) - ds.length) = (w - ((signOf neg fl).length + ds.length)) := by
            rw [hsl]; split <;> omega
          rw [this]
      | false =>
        simp only [Bool.false_and, Bool.false_eq_true, if_false, Nat.zero_sub, zeros_zero, List.nil_append]
        apply pad_congr
        · rfl
        · simp
        · exact allAscii_append hsa hds
  | true =>
    have hoh := hsharpdom hsh
    have hsf : signed = false := hunsigned hoh
    obtain ⟨hn, hpl, hsp⟩ := hsigned hsf
    have hs0 : signOf neg fl = [] := by simp [signOf, hn, hpl, hsp]
    have hs1 : (if (neg || fl.plus || fl.space) = true then 1 else 0) = 0 := by simp [hn, hpl, hsp]
    simp only [hs0, hs1, List.nil_append, List.length_nil, Nat.zero_add, Nat.sub_zero, Bool.true_and, if_true]
    rcases hoh with ho | hh
    · -- octal
      have hb8 : base = 8 := hoct.mp ho
      have hhf : hex = false := by
        cases hx : hex with
        | false => rfl
        | true => have := hhex.mp hx; omega
      simp only [hb8, ho, hhf, if_true, Bool.false_and, Bool.false_eq_true, if_false, List.length_nil, Nat.zero_add, List.nil_append, Bool.true_and]
      cases prec with
      | some p =>
        by_cases h0 : p = 0 ∧ u = 0
        · exact absurd ⟨h0.2, hsh, ho, by rw [h0.1]⟩ hF15c
        · have h1 : ¬ (some p = some 0 ∧ u = 0) := by intro h; apply h0; simp_all
          have h2 : ¬ (u = 0 ∧ p = 0) := by intro h; apply h0; simp_all
          simp only [h1, if_false, Option.getD_some, h2, Option.isNone_some, Bool.and_false, Bool.false_eq_true]
          by_cases hh : (zeros (p - ds.length) ++ ds).head? = some 48
          · simp only [hh, if_true, ne_eq, not_true_eq_false, decide_false, Bool.false_eq_true, if_false]
            apply pad_congr
            · rfl
            · rfl
            · exact allAscii_append (allAscii_zeros _) hds
          · simp only [hh, if_false, ne_eq, not_false_eq_true, decide_true, if_true]
            apply pad_congr
            · rfl
            · rfl
            · exact allAscii_cons (by decide) (allAscii_append (allAscii_zeros _) hds)
      | none =>
        have h1 : ¬ ((none : Option Nat) = some 0 ∧ u = 0) := by simp
        have h2 : ¬ (u = 0 ∧ 1 = 0) := by simp
        simp only [h1, if_false, Option.getD_none, Option.isNone_none, Bool.and_true, h2, h1sub, zeros_zero, List.nil_append]
        cases hz : (fl.zero && !fl.minus) with
        | true =>
          have hz' : fl.zero = true ∧ fl.minus = false := by simpa using hz
          simp only [if_true]
          cases wid with
          | none =>
            simp only [Option.isSome_none, Bool.and_false, Bool.false_eq_true, if_false, Nat.zero_sub, zeros_zero, List.nil_append, Option.getD_none]
            by_cases hh : ds.head? = some 48 <;> simp [hh, goPad]
          | some w =>
            simp only [Option.isSome_some, Option.getD_some, Bool.and_true, if_true]
            by_cases hh : ds.head? = some 48
            · have hh2 : (zeros (w - ds.length) ++ ds).head? = some 48 := by
                by_cases hk : w - ds.length > 0
                · exact head_zeros_append _ _ hk
                · have : w - ds.length = 0 := by omega
                  rw [this, zeros_zero, List.nil_append]; exact hh
              simp only [hh, hh2, if_true, ne_eq, not_true_eq_false, decide_false, Bool.false_eq_true, if_false]
              rw [goPad_ascii _ _ _ _ (allAscii_append (allAscii_zeros _) hds)]
              simp only [hz'.2, Bool.false_eq_true, if_false, Option.getD_some, List.length_append, length_zeros]
              have : w - (w - ds.length + ds.length) = 0 := by omega
              rw [this, spaces_zero, List.nil_append]
            · simp only [hh, if_false, ne_eq, not_false_eq_true, decide_true, if_true, List.length_cons]
              by_cases hk : w - ds.length > 0
              · have hh2 := head_zeros_append (w - ds.length) ds hk
                simp only [hh2, if_true]
                rw [goPad_ascii _ _ _ _ (allAscii_append (allAscii_zeros _) hds)]
                simp only [hz'.2, Bool.false_eq_true, if_false, Option.getD_some, List.length_append, length_zeros]
                have : w - (w - ds.length + ds.length) = 0 := by omega
                rw [this, spaces_zero, List.nil_append, zeros_snoc]
                have : w - (ds.length + 1) + 1 = w - ds.length := by omega
                rw [this]
              · have hk0 : w - ds.length = 0 := by omega
                simp only [hk0, zeros_zero, List.nil_append, hh, if_false]
                rw [goPad_ascii _ _ _ _ (allAscii_cons (by decide) hds)]
                simp only [hz'.2, Bool.false_eq_true, if_false, Option.getD_some, List.length_cons]
                have : w - (ds.length + 1) = 0 := by omega
                rw [this]; simp [spaces_zero, zeros_zero]
        | false =>
          simp only [Bool.false_and, Bool.false_eq_true, if_false, Nat.zero_sub, zeros_zero, List.nil_append]
          by_cases hh : ds.head? = some 48
          · simp only [hh, if_true, ne_eq, not_true_eq_false, decide_false, Bool.false_eq_true, if_false]
            exact pad_congr _ _ _ _ _ rfl rfl hds
          · simp only [hh, if_false, ne_eq, not_false_eq_true, decide_true, if_true]
            exact pad_congr _ _ _ _ _ rfl rfl (allAscii_cons (by decide) hds)
    · -- hexadecimal
      have hb16 : base = 16 := hhex.mp hh
      have hof : oct = false := by
        cases hx : oct with
        | false => rfl
        | true => have := hoct.mp hx; omega
      simp only [hb16, hh, hof, show ((16:Nat) = 8) = False by decide, if_false, if_true, Bool.false_and, Bool.false_eq_true, Bool.true_and]
      by_cases hu : u = 0
      · -- value 0: only `%#.0x` is outside F15
        have hp0 : prec = some 0 := by
          by_cases hp : prec = some 0
          · exact hp
          · exact absurd ⟨hu, hsh, hh, hp⟩ hF15b
        subst hp0
        simp [hu, cPadSpaces, zeros_zero, spaces]
      · have hune : (decide (u ≠ 0)) = true := by simp [hu]
        have hu1 : ¬ (prec = some 0 ∧ u = 0) := fun h => hu h.2
        have hu2 : ∀ p : Nat, ¬ (u = 0 ∧ p = 0) := fun _ h => hu h.1
        simp only [hu1, if_false, hu2, hune, if_true]
        cases prec with
        | some p =>
          simp only [Option.getD_some, Option.isNone_some, Bool.and_false, Bool.false_eq_true, if_false]
          apply pad_congr
          · simp
          · simp; omega
          · exact allAscii_cons (by decide) (allAscii_cons (by cases upper <;> decide) (allAscii_append (allAscii_zeros _) hds))
        | none =>
          simp only [Option.getD_none, Option.isNone_none, Bool.and_true, h1sub, zeros_zero, List.nil_append]
          cases hz : (fl.zero && !fl.minus) with
          | true =>
            have hz' : fl.zero = true ∧ fl.minus = false := by simpa using hz
            simp only [if_true]
            cases wid with
            | none => simp [goPad, zeros_zero]
            | some w =>
              have hw : ¬ w > ds.length := fun hgt => hG1 ⟨hsh, hh, hz'.1, hz'.2, rfl, w, rfl, hgt⟩
              have hw0 : w - ds.length = 0 := by omega
              simp only [Option.isSome_some, Option.getD_some, Bool.and_true, if_true, hw0, zeros_zero, List.nil_append]
              rw [goPad_ascii _ _ _ _ (allAscii_cons (by decide) (allAscii_cons (by cases upper <;> decide) hds))]
              simp only [hz'.2, Bool.false_eq_true, if_false, Option.getD_some, List.length_cons]
              have h3 : w - (ds.length + 1 + 1) = 0 := by omega
              have h4 : w - (2 + ds.length) = 0 := by omega
              simp [h3, h4, spaces_zero, zeros_zero]
          | false =>
            simp only [Bool.false_and, Bool.false_eq_true, if_false, Nat.zero_sub, zeros_zero, List.nil_append]
            apply pad_congr
            · simp
            · simp; omega
            · exact allAscii_cons (by decide) (allAscii_cons (by cases upper <;> decide) hds)


/-! ### strings and characters -/

theorem allAscii_take {b : Bytes} (n : Nat) (h : AllAscii b) : AllAscii (b.take n) :=
  fun x hx => h x (List.mem_of_mem_take hx)

theorem goFmtS_is_c (fl : Flags) (wid prec : Option Nat) (s : Bytes) (ha : AllAscii s) (hz : fl.zero = false) :
    goFmtS fl wid prec s = cFmtStr ⟨fl, wid, prec, 115⟩ s := by
  unfold goFmtS cFmtStr
  cases prec with
  | none => simp only [hz]; exact goPad_false_eq fl wid s ha
  | some p =>
    simp only [hz, truncRunes_ascii p s ha]
    exact goPad_false_eq fl wid (s.take p) (allAscii_take p ha)

theorem runeCount_single (b : UInt8) : runeCount [b] = 1 := by
  simp [runeCount, runeCountAux]

theorem goFmtS_chr_is_c (fl : Flags) (wid : Option Nat) (c : Bytes) (hz : fl.zero = false)
    (hc : runeCount c = 1 ∨ wid = none) :
    goFmtS fl wid none c = cFmtChr ⟨fl, wid, none, 99⟩ c := by
  unfold goFmtS cFmtChr cPadSpaces goPad
  cases wid with
  | none => cases fl.minus <;> simp [spaces]
  | some w =>
    have h1 : runeCount c = 1 := by
      rcases hc with h | h
      · exact h
      · cases h
    cases w with
    | zero => cases fl.minus <;> simp [spaces]
    | succ w => simp only [hz, h1, Option.getD_some]; cases fl.minus <;> simp

/-! ### floating point (finite values) -/

theorem float_shown (fl : Flags) (wid : Option Nat) (sgn : UInt8) (hs : sgn < 128) (ds : Bytes) (hasc : AllAscii ds) :
    (if (fl.zero && !fl.minus && decide (wid.getD 0 > (sgn :: ds).length)) = true then sgn :: zeros (wid.getD 0 - (sgn :: ds).length) ++ ds
        else goPad fl fl.zero wid (sgn :: ds)) =
    (if (fl.zero && !fl.minus) = true then [sgn] ++ zeros (wid.getD 0 - ([sgn].length + ds.length)) ++ ds
     else cPadSpaces fl wid ([sgn].length + ds.length) ([sgn] ++ ds)) := by
  have ha : AllAscii (sgn :: ds) := allAscii_cons hs hasc
  rw [goPad_ascii _ _ _ _ ha]
  simp only [List.length_cons, List.length_nil, Nat.zero_add, show 1 + ds.length = ds.length + 1 by omega]
  unfold cPadSpaces
  generalize wid.getD 0 = w
  cases hz : fl.zero <;> cases hm : fl.minus <;> simp [hz, hm]
  intro hw
  have h1 : w - (ds.length + 1) = 0 := by omega
  simp [h1, zeros_zero]

theorem float_hidden (fl : Flags) (wid : Option Nat) (ds : Bytes) (hasc : AllAscii ds) :
    goPad fl fl.zero wid ds =
    (if (fl.zero && !fl.minus) = true then [] ++ zeros (wid.getD 0 - (([] : Bytes).length + ds.length)) ++ ds
     else cPadSpaces fl wid (([] : Bytes).length + ds.length) ([] ++ ds)) := by
  rw [goPad_ascii _ _ _ _ hasc]
  unfold cPadSpaces
  cases hz : fl.zero <;> cases hm : fl.minus <;> simp [hz, hm]

theorem goFmtFloat_is_c (dg : DigitGen) (fl : Flags) (wid : Option Nat) (prec : Nat) (verb : UInt8) (neg : Bool) (m : Nat) (e : Int)
    (hasc : AllAscii (dg.gen verb fl.sharp prec m e))
    (hsharp : fl.sharp = true → goSharpFloat verb prec (dg.gen verb false prec m e) = dg.gen verb true prec m e) :
    goFmtFloat dg fl wid prec verb (.fin neg m e) = cFmtFloat dg ⟨fl, wid, some prec, verb⟩ (.fin neg m e) := by
  unfold goFmtFloat cFmtFloat
  have hbody : (if fl.sharp = true then goSharpFloat verb prec (dg.gen verb false prec m e) else dg.gen verb false prec m e)
      = dg.gen verb fl.sharp prec m e := by
    cases hs : fl.sharp with
    | true => simp [hsharp hs]
    | false => simp
  simp only [hbody, Option.getD_some]
  generalize dg.gen verb fl.sharp prec m e = ds at *
  cases neg with
  | true =>
    simp only [if_true, Bool.or_true, ne_eq, show ((45:UInt8) = 43) = False by decide, not_false_eq_true, decide_true]
    exact float_shown fl wid 45 (by decide) ds hasc
  | false =>
    cases hp : fl.plus with
    | true =>
      simp only [Bool.false_eq_true, if_false, if_true, Bool.true_or, Bool.not_true, Bool.and_false]
      exact float_shown fl wid 43 (by decide) ds hasc
    | false =>
      cases hsp : fl.space with
      | true =>
        simp only [Bool.false_eq_true, if_false, if_true, Bool.not_false, Bool.and_true, Bool.false_or, ne_eq,
          show ((32:UInt8) = 43) = False by decide, not_false_eq_true, decide_true]
        exact float_shown fl wid 32 (by decide) ds hasc
      | false =>
        simp only [Bool.false_eq_true, if_false, Bool.false_and, Bool.false_or, ne_eq, not_true_eq_false, decide_false]
        exact float_hidden fl wid ds hasc

end GoawkModel.C09
