import GoawkModel.C12
/-! Helper lemmas for C12: the one-step invariant of the I/O dispatch model and its lifting over operation lists. -/
namespace GoawkModel.C12

/-- an effect respects the flags: no process effect under noExec, no file-write effect under noWrites, no file-read effect
under noReads, and every open goes through the configured open function -/
def Good (f : Flags) (e : Effect) : Prop :=
  (f.noExec = true → e.process = false) ∧ (f.noWrites = true → e.fileWrite = false) ∧
  (f.noReads = true → e.fileRead = false) ∧ e.viaHook = true

theorem find_mem {n : Bytes} {l : List (Bytes × Kind)} {k : Kind} : find n l = some k → (n, k) ∈ l := by
  induction l with
  | nil => simp [find]
  | cons p rest ih =>
    obtain ⟨m, k'⟩ := p
    simp only [find]
    split
    · rename_i h; intro hk; cases hk; simp [h]
    · intro hk; exact List.mem_cons_of_mem _ (ih hk)

theorem inv_find {f : Flags} {s : St} {n : Bytes} {k : Kind} (h : Inv f s) (hf : find n s.streams = some k) :
    k.allowed f = true := h (n, k) (find_mem hf)

theorem inv_remove {f : Flags} {s : St} (n : Bytes) (h : Inv f s) : Inv f { s with streams := remove n s.streams } := by
  intro p hp
  simp only [remove] at hp
  exact h p (List.mem_filter.mp hp).1

theorem inv_cons {f : Flags} {s : St} (n : Bytes) (k : Kind) (ex : List Bytes) (h : Inv f s) (hk : k.allowed f = true) :
    Inv f { s with streams := (n, k) :: s.streams, existing := ex } := by
  intro p hp
  rcases List.mem_cons.mp hp with rfl | hp
  · exact hk
  · exact h p hp

theorem good_useStream_of_allowed {f : Flags} {n : Bytes} {k : Kind} (hk : k.allowed f = true) : Good f (.useStream n k) := by
  cases k <;> simp_all [Good, Kind.allowed, Effect.process, Effect.fileWrite, Effect.fileRead, Effect.viaHook, Kind.isCmd]

theorem good_closeStream_of_allowed {f : Flags} {n : Bytes} {k : Kind} (hk : k.allowed f = true) : Good f (.closeStream n k) := by
  cases k <;> simp_all [Good, Kind.allowed, Effect.process, Effect.fileWrite, Effect.fileRead, Effect.viaHook, Kind.isCmd]

theorem good_error (f : Flags) (e : Err) : Good f (.error e) := by
  simp [Good, Effect.process, Effect.fileWrite, Effect.fileRead, Effect.viaHook]

theorem good_simple (f : Flags) : Good f .useStdout ∧ Good f .useStderr ∧ Good f .useStdin ∧ Good f .soft := by
  simp [Good, Effect.process, Effect.fileWrite, Effect.fileRead, Effect.viaHook]

/-- what every dispatch function guarantees -/
def StepOk (f : Flags) (r : List Effect × St) : Prop := (∀ e ∈ r.1, Good f e) ∧ Inv f r.2

theorem outFile_ok (f : Flags) (s : St) (n : Bytes) (m : Mode) (ok : Bool) (hm : m ≠ .rd) (h : Inv f s) :
    StepOk f (outFile f s n m ok) := by
  unfold outFile
  split
  · rename_i k hk
    have hk' := inv_find h hk
    split
    · exact ⟨by simp [good_error], h⟩
    · exact ⟨by simpa using good_useStream_of_allowed hk', h⟩
  · have gs := good_simple f
    split
    · exact ⟨by simp [gs.1], h⟩
    split
    · exact ⟨by simp [good_error], h⟩
    rename_i hw
    split
    · exact ⟨by simp [gs.2.1], h⟩
    split
    · exact ⟨by simp [gs.1], h⟩
    have hw' : f.noWrites = false := by simpa using hw
    split
    · refine ⟨?_, inv_cons n .outFile _ h (by simp [Kind.allowed, hw'])⟩
      intro e he
      simp only [List.mem_cons, List.not_mem_nil, or_false] at he
      rcases he with rfl | rfl
      · cases m <;> simp_all [Good, Effect.process, Effect.fileWrite, Effect.fileRead, Effect.viaHook]
      · exact good_useStream_of_allowed (by simp [Kind.allowed, hw'])
    · refine ⟨?_, h⟩
      intro e he
      simp only [List.mem_cons, List.not_mem_nil, or_false] at he
      rcases he with rfl | rfl
      · cases m <;> simp_all [Good, Effect.process, Effect.fileWrite, Effect.fileRead, Effect.viaHook]
      · exact good_error f _

theorem outPipe_ok (f : Flags) (s : St) (n : Bytes) (ok : Bool) (h : Inv f s) : StepOk f (outPipe f s n ok) := by
  unfold outPipe
  split
  · rename_i k hk
    have hk' := inv_find h hk
    split
    · exact ⟨by simp [good_error], h⟩
    · exact ⟨by simpa using good_useStream_of_allowed hk', h⟩
  · split
    · exact ⟨by simp [good_error], h⟩
    rename_i hx
    have hx' : f.noExec = false := by simpa using hx
    split
    · refine ⟨?_, inv_cons n .outCmd _ h (by simp [Kind.allowed, hx'])⟩
      intro e he
      simp only [List.mem_cons, List.not_mem_nil, or_false] at he
      rcases he with rfl | rfl
      · simp [Good, hx', Effect.process, Effect.fileWrite, Effect.fileRead, Effect.viaHook]
      · exact good_useStream_of_allowed (by simp [Kind.allowed, hx'])
    · refine ⟨?_, inv_cons n .outNull _ h (by simp [Kind.allowed, hx'])⟩
      intro e he
      simp only [List.mem_cons, List.not_mem_nil, or_false] at he
      rcases he with rfl | rfl
      · simp [Good, hx', Effect.process, Effect.fileWrite, Effect.fileRead, Effect.viaHook]
      · exact good_useStream_of_allowed (by simp [Kind.allowed, hx'])

theorem inFile_ok (f : Flags) (s : St) (n : Bytes) (h : Inv f s) : StepOk f (inFile f s n) := by
  unfold inFile
  split
  · rename_i k hk
    have hk' := inv_find h hk
    split
    · exact ⟨by simpa using good_useStream_of_allowed hk', h⟩
    · exact ⟨by simp [good_error], h⟩
  · have gs := good_simple f
    split
    · exact ⟨by simp [gs.2.2.1], fun p hp => h p hp⟩
    split
    · exact ⟨by simp [good_error], h⟩
    rename_i hr
    have hr' : f.noReads = false := by simpa using hr
    split
    · refine ⟨?_, inv_cons n .inFile _ h (by simp [Kind.allowed, hr'])⟩
      intro e he
      simp only [List.mem_cons, List.not_mem_nil, or_false] at he
      rcases he with rfl | rfl
      · simp [Good, hr', Effect.process, Effect.fileWrite, Effect.fileRead, Effect.viaHook]
      · exact good_useStream_of_allowed (by simp [Kind.allowed, hr'])
    · refine ⟨?_, h⟩
      intro e he
      simp only [List.mem_cons, List.not_mem_nil, or_false] at he
      rcases he with rfl | rfl
      · simp [Good, hr', Effect.process, Effect.fileWrite, Effect.fileRead, Effect.viaHook]
      · exact gs.2.2.2

theorem inPipe_ok (f : Flags) (s : St) (n : Bytes) (ok : Bool) (h : Inv f s) : StepOk f (inPipe f s n ok) := by
  unfold inPipe
  split
  · rename_i k hk
    have hk' := inv_find h hk
    split
    · exact ⟨by simpa using good_useStream_of_allowed hk', h⟩
    · exact ⟨by simp [good_error], h⟩
  · split
    · exact ⟨by simp [good_error], h⟩
    rename_i hx
    have hx' : f.noExec = false := by simpa using hx
    split
    · refine ⟨?_, inv_cons n .inCmd _ h (by simp [Kind.allowed, hx'])⟩
      intro e he
      simp only [List.mem_cons, List.not_mem_nil, or_false] at he
      rcases he with rfl | rfl
      · simp [Good, hx', Effect.process, Effect.fileWrite, Effect.fileRead, Effect.viaHook]
      · exact good_useStream_of_allowed (by simp [Kind.allowed, hx'])
    · refine ⟨?_, h⟩
      intro e he
      simp only [List.mem_cons, List.not_mem_nil, or_false] at he
      subst he
      simp [Good, hx', Effect.process, Effect.fileWrite, Effect.fileRead, Effect.viaHook]

/-- the operand walk never touches the stream table and only reads: `useStdin`, or a read-open when reads are allowed -/
theorem nextOperand_ok (f : Flags) (l : List Bytes) : ∀ s : St,
    (∀ e ∈ (nextOperand f s l).1, Good f e) ∧ (nextOperand f s l).2.1.streams = s.streams := by
  have gs := good_simple f
  induction l with
  | nil =>
    intro s
    simp only [nextOperand]
    split
    · simp
    split <;> simp [gs.2.2.1]
  | cons a rest ih =>
    intro s
    simp only [nextOperand]
    split
    · exact ih s
    split
    · split
      · have := ih { s with hadFiles := true, cur := 0, stdinRecs := 0 }
        refine ⟨?_, this.2⟩
        intro e he
        rcases List.mem_cons.mp he with rfl | he
        · exact gs.2.2.1
        · exact this.1 e he
      · simp [gs.2.2.1]
    split
    · simp
    rename_i hr
    have hr' : f.noReads = false := by simpa using hr
    split <;> simp [Good, hr', Effect.process, Effect.fileWrite, Effect.fileRead, Effect.viaHook]

theorem nextLine_ok (f : Flags) (s : St) :
    (∀ e ∈ (nextLine f s).1, Good f e) ∧ (nextLine f s).2.1.streams = s.streams := by
  unfold nextLine
  split
  · simp
  · exact nextOperand_ok f s.args s

theorem mainLoop_ok (f : Flags) (fuel : Nat) : ∀ s : St,
    (∀ e ∈ (mainLoop f fuel s).1, Good f e) ∧ (mainLoop f fuel s).2.streams = s.streams := by
  induction fuel with
  | zero => intro s; simp [mainLoop]
  | succ n ih =>
    intro s
    have hn := nextLine_ok f s
    simp only [mainLoop]
    split
    · rename_i es s' heq
      rw [heq] at hn
      have := ih s'
      refine ⟨?_, this.2.trans hn.2⟩
      intro e he
      rcases List.mem_append.mp he with he | he
      · exact hn.1 e he
      · exact this.1 e he
    · rename_i es s' heq
      rw [heq] at hn
      exact hn
    · rename_i es s' e' heq
      rw [heq] at hn
      refine ⟨?_, hn.2⟩
      intro e he
      rcases List.mem_append.mp he with he | he
      · exact hn.1 e he
      · simp only [List.mem_cons, List.not_mem_nil, or_false] at he
        subst he
        exact good_error f _

theorem inv_of_streams_eq {f : Flags} {s s' : St} (h : Inv f s) (he : s'.streams = s.streams) : Inv f s' := by
  intro p hp
  rw [he] at hp
  exact h p hp

/-- one step: every effect respects the flags and the invariant is kept -/
theorem step_ok (f : Flags) (s : St) (op : IoOp) (h : Inv f s) : StepOk f (step f s op) := by
  have gs := good_simple f
  cases op with
  | printGt n ok => exact outFile_ok f s n .wrTrunc ok (by simp) h
  | printApp n ok => exact outFile_ok f s n .wrAppend ok (by simp) h
  | printPipe n ok => exact outPipe_ok f s n ok h
  | getlineFile n => exact inFile_ok f s n h
  | getlineCmd n ok => exact inPipe_ok f s n ok h
  | system n ok =>
    simp only [step]
    split
    · exact ⟨by simp [good_error], h⟩
    · rename_i hx
      have hx' : f.noExec = false := by simpa using hx
      exact ⟨by simp [Good, hx', Effect.process, Effect.fileWrite, Effect.fileRead, Effect.viaHook], h⟩
  | getline =>
    have hn := nextLine_ok f s
    simp only [step]
    split
    · rename_i es s' heq
      rw [heq] at hn
      refine ⟨?_, inv_of_streams_eq h hn.2⟩
      intro e he
      rcases List.mem_append.mp he with he | he
      · exact hn.1 e he
      · simp only [List.mem_cons, List.not_mem_nil, or_false] at he
        subst he
        exact good_error f _
    · rename_i es s' e' _ heq
      rw [heq] at hn
      refine ⟨?_, inv_of_streams_eq h hn.2⟩
      intro e he
      rcases List.mem_append.mp he with he | he
      · exact hn.1 e he
      · simp only [List.mem_cons, List.not_mem_nil, or_false] at he
        subst he
        exact gs.2.2.2
    · rename_i es s' r _ _ heq
      rw [heq] at hn
      exact ⟨hn.1, inv_of_streams_eq h hn.2⟩
  | mainLoop =>
    have hm := mainLoop_ok f (mainFuel s) s
    exact ⟨hm.1, inv_of_streams_eq h hm.2⟩
  | close n =>
    simp only [step]
    split
    · rename_i k hk
      exact ⟨by simpa using good_closeStream_of_allowed (inv_find h hk), inv_remove n h⟩
    · exact ⟨by simp [gs.2.2.2], h⟩
  | fflush n => exact ⟨by simp [step], h⟩

/-- lifted over arbitrary operation lists -/
theorem trace_ok (f : Flags) (ops : List IoOp) : ∀ s : St, Inv f s → ∀ g ∈ trace f s ops, ∀ e ∈ g, Good f e := by
  induction ops with
  | nil => intro s _ g hg; simp [trace] at hg
  | cons op rest ih =>
    intro s h g hg e he
    have hs := step_ok f s op h
    simp only [trace] at hg
    split at hg
    · simp only [List.mem_cons, List.not_mem_nil, or_false] at hg
      subst hg
      exact hs.1 e he
    · rcases List.mem_cons.mp hg with rfl | hg
      · exact hs.1 e he
      · exact ih _ hs.2 g hg e he

theorem effects_ok (f : Flags) (s : St) (h : Inv f s) (ops : List IoOp) : ∀ e ∈ effects f s ops, Good f e := by
  intro e he
  obtain ⟨g, hg, heg⟩ := List.mem_flatten.mp he
  exact trace_ok f ops s h g hg e heg

theorem inv_init (f : Flags) (ex as : List Bytes) (r : Nat) : Inv f (St.init ex as r) := by
  intro p hp
  simp [St.init] at hp

/-! ### a denied attempt is an error, and the run ends there -/

theorem denied_step (f : Flags) (s : St) (op : IoOp) (e : Err) (h : denied f s op = some e) :
    (step f s op).1 = [.error e] := by
  cases op with
  | printGt n ok =>
    simp only [denied] at h
    split at h
    · rename_i hc
      simp only [Bool.and_eq_true, Option.isNone_iff_eq_none, decide_eq_true_eq] at hc
      cases h
      simp [step, outFile, hc.1.1, hc.1.2, hc.2]
    · cases h
  | printApp n ok =>
    simp only [denied] at h
    split at h
    · rename_i hc
      simp only [Bool.and_eq_true, Option.isNone_iff_eq_none, decide_eq_true_eq] at hc
      cases h
      simp [step, outFile, hc.1.1, hc.1.2, hc.2]
    · cases h
  | printPipe n ok =>
    simp only [denied] at h
    split at h
    · rename_i hc
      simp only [Bool.and_eq_true, Option.isNone_iff_eq_none] at hc
      cases h
      simp [step, outPipe, hc.1, hc.2]
    · cases h
  | getlineFile n =>
    simp only [denied] at h
    split at h
    · rename_i hc
      simp only [Bool.and_eq_true, Option.isNone_iff_eq_none, decide_eq_true_eq] at hc
      cases h
      simp [step, inFile, hc.1.1, hc.1.2, hc.2]
    · cases h
  | getlineCmd n ok =>
    simp only [denied] at h
    split at h
    · rename_i hc
      simp only [Bool.and_eq_true, Option.isNone_iff_eq_none] at hc
      cases h
      simp [step, inPipe, hc.1, hc.2]
    · cases h
  | system n ok =>
    simp only [denied] at h
    split at h
    · rename_i hc
      cases h
      simp [step, hc]
    · cases h
  | getline => simp [denied] at h
  | mainLoop => simp [denied] at h
  | close n => simp [denied] at h
  | fflush n => simp [denied] at h

theorem denied_trace (f : Flags) (s : St) (op : IoOp) (rest : List IoOp) (e : Err) (h : denied f s op = some e) :
    trace f s (op :: rest) = [[.error e]] := by
  simp [trace, denied_step f s op e h, Effect.isError]

/-! ### operands -/

/-- the first operand that is not skipped is a regular file name (not `""`, not `"-"`) -/
def firstRegular : List Bytes → Bool
  | [] => false
  | a :: rest => if a = [] then firstRegular rest else a ≠ dash

theorem nextOperand_denied (f : Flags) (hr : f.noReads = true) (l : List Bytes) : ∀ s : St, firstRegular l = true →
    (nextOperand f s l).1 = [] ∧ (nextOperand f s l).2.2 = .err .noFileReads := by
  induction l with
  | nil => intro s h; simp [firstRegular] at h
  | cons a rest ih =>
    intro s h
    simp only [firstRegular] at h
    simp only [nextOperand]
    split
    · rename_i ha
      simp only [ha, if_true] at h
      exact ih s h
    · rename_i ha
      simp only [ha, if_false, decide_eq_true_eq] at h
      simp [h]

/-- the pattern-action loop reaching a regular operand under NoFileReads: no effect at all except the error -/
theorem mainLoop_operand_denied (f : Flags) (hr : f.noReads = true) (s : St) (hc : s.cur = 0)
    (h : firstRegular s.args = true) : (step f s .mainLoop).1 = [.error .noFileReads] := by
  have hn := nextOperand_denied f hr s.args s h
  simp only [step, mainFuel, mainLoop, nextLine, hc, Nat.lt_irrefl, if_false]
  generalize hgen : nextOperand f s s.args = r at hn
  obtain ⟨es, s', res⟩ := r
  simp only at hn
  obtain ⟨h1, h2⟩ := hn
  subst h1 h2
  simp

/-- the same operand reached by an un-redirected getline: also exactly the error (G12-1 is repaired) -/
theorem getline_operand_denied (f : Flags) (hr : f.noReads = true) (s : St) (hc : s.cur = 0)
    (h : firstRegular s.args = true) : (step f s .getline).1 = [.error .noFileReads] := by
  have hn := nextOperand_denied f hr s.args s h
  simp only [step, nextLine, hc, Nat.lt_irrefl, if_false]
  generalize hgen : nextOperand f s s.args = r at hn
  obtain ⟨es, s', res⟩ := r
  simp only at hn
  obtain ⟨h1, h2⟩ := hn
  subst h1 h2
  simp

/-! ### operands that name standard input only -/

theorem nextOperand_onlyStdin (f f' : Flags) : ∀ (l : List Bytes) (s : St), onlyStdin l = true →
    nextOperand f s l = nextOperand f' s l ∧ onlyStdin (nextOperand f s l).2.1.args = true ∧
    (∀ e, (nextOperand f s l).2.2 ≠ .err e) ∧ (∀ e ∈ (nextOperand f s l).1, e = .useStdin) := by
  intro l
  induction l with
  | nil =>
    intro s _
    by_cases hf : s.hadFiles = true <;> by_cases hz : s.stdinRecs = 0 <;> simp [nextOperand, hf, hz, onlyStdin]
  | cons a rest ih =>
    intro s h
    have hr : onlyStdin rest = true := by
      simp only [onlyStdin, List.all_cons, Bool.and_eq_true] at h ⊢; exact h.2
    have ha : a = [] ∨ a = dash := by
      simp only [onlyStdin, List.all_cons, Bool.and_eq_true, Bool.or_eq_true, beq_iff_eq] at h; exact h.1
    rcases ha with rfl | rfl
    · simpa [nextOperand] using ih s hr
    · by_cases hz : s.stdinRecs = 0
      · have := ih { s with hadFiles := true, cur := 0, stdinRecs := 0 } hr
        simp only [nextOperand, dash, hz] at this ⊢
        simp only [show ([45] : Bytes) ≠ [] by decide, if_false, if_true]
        refine ⟨by rw [this.1], this.2.1, this.2.2.1, ?_⟩
        intro e he
        rcases List.mem_cons.mp he with rfl | he
        · rfl
        · exact this.2.2.2 e he
      · simp [nextOperand, dash, hz, hr]

theorem nextLine_onlyStdin (f f' : Flags) (s : St) (h : onlyStdin s.args = true) :
    nextLine f s = nextLine f' s ∧ onlyStdin (nextLine f s).2.1.args = true ∧
    (∀ e, (nextLine f s).2.2 ≠ .err e) ∧ (∀ e ∈ (nextLine f s).1, e = .useStdin) := by
  by_cases hc : s.cur > 0
  · simp [nextLine, hc, h]
  · simpa [nextLine, hc] using nextOperand_onlyStdin f f' s.args s h

theorem mainLoop_onlyStdin (f f' : Flags) : ∀ (fuel : Nat) (s : St), onlyStdin s.args = true →
    mainLoop f fuel s = mainLoop f' fuel s ∧ (∀ e ∈ (mainLoop f fuel s).1, e = .useStdin) := by
  intro fuel
  induction fuel with
  | zero => intro s _; simp [mainLoop]
  | succ n ih =>
    intro s h
    obtain ⟨heq, hargs, hne, hes⟩ := nextLine_onlyStdin f f' s h
    rw [mainLoop, mainLoop, ← heq]
    rcases hnl : nextLine f s with ⟨es, s', r⟩
    rw [hnl] at hargs hne hes
    cases r with
    | record =>
      have := ih s' hargs
      simp only [this.1, true_and]
      intro e he
      rcases List.mem_append.mp he with he | he
      · exact hes e he
      · exact this.2 e (by rw [this.1]; exact he)
    | eof => exact ⟨rfl, hes⟩
    | err e => exact absurd rfl (hne e)

end GoawkModel.C12
