import GoawkModel.C10
namespace GoawkModel.C10

theorem storeFrom_length : ∀ (ps : List Bytes) (i : Nat), (storeFrom i ps).length = ps.length := by
  intro ps; induction ps with
  | nil => intro i; rfl
  | cons p ps ih => intro i; simp [storeFrom, ih]

theorem storeFrom_keys : ∀ (ps : List Bytes) (i : Nat), (storeFrom i ps).map (·.1) = (List.range' i ps.length).map Key.idx := by
  intro ps; induction ps with
  | nil => intro i; rfl
  | cons p ps ih => intro i; simp [storeFrom, ih, List.range'_succ]

theorem storeFrom_values : ∀ (ps : List Bytes) (i : Nat), (storeFrom i ps).map (·.2) = ps := by
  intro ps; induction ps with
  | nil => intro i; rfl
  | cons p ps ih => intro i; simp [storeFrom, ih]

theorem storeFrom_get : ∀ (ps : List Bytes) (i j : Nat) (h : j < ps.length),
    arrayGet (storeFrom i ps) (.idx (i + j)) = some ps[j] := by
  intro ps; induction ps with
  | nil => intro i j h; simp at h
  | cons p ps ih =>
    intro i j h
    cases j with
    | zero => simp [storeFrom, arrayGet]
    | succ j =>
      have hne : (Key.idx i == Key.idx (i + (j + 1))) = false := by
        simp only [beq_eq_false_iff_ne, ne_eq, Key.idx.injEq]; omega
      have := ih (i + 1) j (by simpa using h)
      simp only [arrayGet, storeFrom, List.find?_cons, hne] at this ⊢
      rw [show i + (j + 1) = i + 1 + j by omega]
      simpa using this

theorem storeFrom_get_other (ps : List Bytes) (i : Nat) (b : Bytes) : arrayGet (storeFrom i ps) (.other b) = none := by
  induction ps generalizing i with
  | nil => rfl
  | cons p ps ih =>
    have hne : (Key.idx i == Key.other b) = false := by
      simp only [beq_eq_false_iff_ne, ne_eq]; intro h; cases h
    have := ih (i + 1)
    simp only [arrayGet, storeFrom, List.find?_cons, hne] at this ⊢
    exact this
end GoawkModel.C10
