import Proofs.C11Lift
import Proofs.C11Input
/-! `NR = records taken by the main loop + successful getline + successful getline var`, as an invariant of the machine,
and the exit-status invariant. -/
namespace GoawkModel.C11

def Event.nrOk : Event → Prop
  | .emit _ nr _ _ _ _ _ ghost => nr = ghost
  | _ => True

/-- the invariant: the record counter agrees with the ghost call-site counters, and every emit already traced showed an
`NR` equal to the counters of its moment -/
def NrInv (s : St) : Prop := s.nr = s.iters + s.gl + s.glv ∧ ∀ e ∈ s.out, e.nrOk

theorem nrInv_of_fields {s s1 : St} (h : NrInv s) (hnr : s1.nr = s1.iters + s1.gl + s1.glv) (hout : s1.out = s.out) :
    NrInv s1 := ⟨hnr, by rw [hout]; exact h.2⟩

theorem nrInv_plainEv {s : St} (h : NrInv s) (e : Event) (he : e.nrOk) : NrInv (s.emitEv e) := by
  refine ⟨h.1, ?_⟩
  intro e' he'
  simp only [St.emitEv, List.mem_cons] at he'
  rcases he' with rfl | he'
  · exact he
  · exact h.2 e' he'

theorem nrInv_stable : Stable NrInv where
  emit s tag h := nrInv_plainEv (s := s) h _ (by simp [Event.nrOk]; exact h.1)
  ev s e he h := by
    apply nrInv_plainEv h
    cases e <;> simp_all [Event.isPlain, Event.nrOk]
  exitSome s n h := by
    have h' : NrInv (s.setStatus n) := nrInv_of_fields h h.1 rfl
    exact nrInv_plainEv h' _ (by simp [Event.nrOk])
  gl s h := by
    have hf := nextLine_frame s
    unfold doGetline
    rcases hn : nextLine s with ⟨t, s1⟩
    rw [hn] at hf
    obtain ⟨h1, h2, h3, h4, -, -, -, -, -, -, h5⟩ := hf
    simp only at h1 h2 h3 h4 h5
    cases t <;> simp only [Take.delta] at h5
    · apply nrInv_plainEv _ _ (by simp [Event.nrOk])
      exact nrInv_of_fields h (by simp [St.setLine]; rw [h5, h1, h2, h3, h.1]; omega) (by simpa [St.setLine] using h4)
    · apply nrInv_plainEv _ _ (by simp [Event.nrOk])
      exact nrInv_of_fields h (by rw [h5, h1, h2, h3, h.1]; omega) h4
    · apply nrInv_plainEv _ _ (by simp [Event.nrOk])
      exact nrInv_of_fields h (by rw [h5, h1, h2, h3, h.1]; omega) h4
  glv s v h := by
    have hf := nextLine_frame s
    unfold doGetlineVar
    rcases hn : nextLine s with ⟨t, s1⟩
    rw [hn] at hf
    obtain ⟨h1, h2, h3, h4, -, -, -, -, -, -, h5⟩ := hf
    simp only at h1 h2 h3 h4 h5
    cases t <;> simp only [Take.delta] at h5
    · apply nrInv_plainEv _ _ (by simp [Event.nrOk])
      exact nrInv_of_fields h (by simp [St.setVar]; rw [h5, h1, h2, h3, h.1]; omega) (by simpa [St.setVar] using h4)
    · apply nrInv_plainEv _ _ (by simp [Event.nrOk])
      exact nrInv_of_fields h (by rw [h5, h1, h2, h3, h.1]; omega) h4
    · apply nrInv_plainEv _ _ (by simp [Event.nrOk])
      exact nrInv_of_fields h (by rw [h5, h1, h2, h3, h.1]; omega) h4
  glf s f h := by
    have hf := readStream_fields s f
    unfold doGetlineFile
    rcases hr : readStream s f with ⟨ret, o, s1⟩
    rw [hr] at hf
    obtain ⟨h1, -, -, h2, h3, h4, h5, -⟩ := hf
    simp only at h1 h2 h3 h4 h5
    cases o <;>
      exact nrInv_plainEv (nrInv_of_fields h (by show s1.nr = s1.iters + s1.gl + s1.glv; have := h.1; omega) (by show s1.out = s.out; exact h5)) _
        (by simp [Event.nrOk])
  glvf s v f h := by
    have hf := readStream_fields s f
    unfold doGetlineVarFile
    rcases hr : readStream s f with ⟨ret, o, s1⟩
    rw [hr] at hf
    obtain ⟨h1, -, -, h2, h3, h4, h5, -⟩ := hf
    simp only at h1 h2 h3 h4 h5
    cases o <;>
      exact nrInv_plainEv (nrInv_of_fields h (by show s1.nr = s1.iters + s1.gl + s1.glv; have := h.1; omega) (by show s1.out = s.out; exact h5)) _
        (by simp [Event.nrOk])
  argv s i v h := nrInv_of_fields h h.1 rfl
  argc s n h := nrInv_of_fields h h.1 rfl
  close s f h := nrInv_of_fields h h.1 rfl
  fname s v h := nrInv_of_fields h h.1 rfl
  fsep s v h := nrInv_of_fields h h.1 rfl
  enter s h := nrInv_of_fields h h.1 rfl
  leave s h := nrInv_of_fields h h.1 rfl
  take s r s1 h hn := by
    have hf := nextLine_frame s
    rw [hn] at hf
    obtain ⟨h1, h2, h3, h4, -, -, -, -, -, -, h5⟩ := hf
    simp only [Take.delta] at h1 h2 h3 h4 h5
    exact nrInv_of_fields h (by simp [St.beginRecord]; rw [h5, h1, h2, h3, h.1]; omega) (by simpa [St.beginRecord] using h4)
  eof s s1 h hn := by
    have hf := nextLine_frame s
    rw [hn] at hf
    obtain ⟨h1, h2, h3, h4, -, -, -, -, -, -, h5⟩ := hf
    simp only [Take.delta] at h1 h2 h3 h4 h5
    exact nrInv_of_fields h (by rw [h5, h1, h2, h3, h.1]; omega) h4
  err s s1 h hn := by
    have hf := nextLine_frame s
    rw [hn] at hf
    obtain ⟨h1, h2, h3, h4, -, -, -, -, -, -, h5⟩ := hf
    simp only [Take.delta] at h1 h2 h3 h4 h5
    exact nrInv_of_fields h (by rw [h5, h1, h2, h3, h.1]; omega) h4
  nextfile s h := nrInv_of_fields h h.1 rfl
  visit s v h := nrInv_of_fields h h.1 rfl

end GoawkModel.C11
