import Proofs.C01Expr
import GoawkModel.C01Conc
/-! # C01 — the concrete semantics `semC` satisfies the laws assumed by the Stage A theorem (non-vacuity) -/
namespace GoawkModel.C01
open Conc

theorem intBytes_nat (n : Nat) : intBytes (n : Int) = decBytes n := by
  simp [intBytes, Int.natAbs_natCast]

theorem toStr_numV (b : Bool) (c : NumC) (n : Nat) (h : c.int64? = some n) : toStr ((semC b).numV c) = decBytes n := by
  simp only [NumC.int64?] at h
  split at h
  · rename_i hi
    simp only [Option.some.injEq] at h; subst h
    simp [semC, hi, toStr, intBytes_nat]
  · simp at h

theorem int64_inv {c : NumC} {n : Nat} (h : c.int64? = some n) : c.isInt = true ∧ c.val = n := by
  simp only [NumC.int64?] at h
  split at h
  · rename_i hi; simp only [Option.some.injEq] at h; exact ⟨hi, h⟩
  · simp at h

theorem concatMulti_fold (v1 : CV) (rest : List CV) :
    rest.foldl (fun acc v => CV.str (toStr acc ++ toStr v)) v1 = if rest = [] then v1 else .str ((v1 :: rest).map toStr).flatten := by
  induction rest generalizing v1 with
  | nil => simp
  | cons a rest ih =>
    rw [List.foldl_cons, ih]
    by_cases hr : rest = []
    · simp [hr, toStr]
    · simp [hr, toStr]

theorem l_get (b c n sc a) (w : CW) (h : c.int64? = some n) :
    (semC b).getArr sc a ((semC b).strV (decBytes n)) w = (semC b).getArr sc a ((semC b).numV c) w := by
  obtain ⟨hi, rfl⟩ := int64_inv h
  cases sc <;> simp [semC, hi, toStr, intBytes_nat]
theorem l_set (b c n sc a) (v : CV) (w : CW) (h : c.int64? = some n) :
    (semC b).setArr sc a ((semC b).strV (decBytes n)) v w = (semC b).setArr sc a ((semC b).numV c) v w := by
  obtain ⟨hi, rfl⟩ := int64_inv h
  cases sc <;> simp [semC, hi, toStr, intBytes_nat]
theorem l_in (b c n sc a) (w : CW) (h : c.int64? = some n) :
    (semC b).inArr sc a ((semC b).strV (decBytes n)) w = (semC b).inArr sc a ((semC b).numV c) w := by
  obtain ⟨hi, rfl⟩ := int64_inv h
  cases sc <;> simp [semC, hi, toStr, intBytes_nat]
theorem l_ml (b c n) (v : CV) (w : CW) (h : c.int64? = some n) :
    (semC b).multiIndex [(semC b).strV (decBytes n), v] w = (semC b).multiIndex [(semC b).numV c, v] w := by
  obtain ⟨hi, rfl⟩ := int64_inv h
  simp [semC, hi, toStr, intBytes_nat]
theorem l_mr (b c n) (u : CV) (w : CW) (h : c.int64? = some n) :
    (semC b).multiIndex [u, (semC b).strV (decBytes n)] w = (semC b).multiIndex [u, (semC b).numV c] w := by
  obtain ⟨hi, rfl⟩ := int64_inv h
  simp [semC, hi, toStr, intBytes_nat]
theorem l_cm (b) (v1 v2 : CV) (rest : List CV) (w : CW) :
    (semC b).concatMulti (v1 :: v2 :: rest) w = (v2 :: rest).foldl (fun acc v => (semC b).concat acc v w) v1 := by
  show CV.str ((v1 :: v2 :: rest).map toStr).flatten = (v2 :: rest).foldl (fun acc v => CV.str (toStr acc ++ toStr v)) v1
  rw [concatMulti_fold]; simp

theorem semC_laws (b : Bool) : Laws (semC b) where
  toBool_ofBool x := by cases x <;> simp [semC, Conc.toBool]
  cmp_ne a c w := by
    simp only [semC, cmp]
    split <;> simp [cmpWith]
  fieldInt c n w h := by
    simp only [NumC.int32?] at h
    split at h
    · rename_i hi
      simp only [Option.some.injEq] at h; subst h
      simp [semC, hi.1, toNum]
    · simp at h
  idx_get c n sc a w h := l_get b c n sc a w h
  idx_set c n sc a v w h := l_set b c n sc a v w h
  idx_in c n sc a w h := l_in b c n sc a w h
  idx_multi_l c n v w h := l_ml b c n v w h
  idx_multi_r c n u w h := l_mr b c n u w h
  concat_stable _ _ _ _ := rfl
  concatMulti_spec v1 v2 rest w := l_cm b v1 v2 rest w

end GoawkModel.C01
