import Proofs.C01Expr
import Proofs.C01Stmt
import GoawkModel.C01Conc
/-! # C01 — the concrete semantics `semC` satisfies the laws assumed by the Stage A theorem (non-vacuity) -/
namespace GoawkModel.C01
open Conc

theorem intBytes_nat (n : Nat) : intBytes (n : Int) = decBytes n := by
  simp [intBytes, Int.natAbs_natCast]

theorem toStr_numV (b : Bool) (c : NumC) (n : Nat) (h : c.int64? = some n) : toStr ((semC b).numV c) = decBytes n := by
  simp only [NumC.int64?] at h
  split at h
  · rename_i hi
    simp only [Option.some.injEq] at h; subst h
    simp [semC, hi, toStr, intBytes_nat]
  · simp at h

theorem int64_inv {c : NumC} {n : Nat} (h : c.int64? = some n) : c.isInt = true ∧ c.val = n := by
  simp only [NumC.int64?] at h
  split at h
  · rename_i hi; simp only [Option.some.injEq] at h; exact ⟨hi, h⟩
  · simp at h

theorem concatMulti_fold (v1 : CV) (rest : List CV) :
    rest.foldl (fun acc v => CV.str (toStr acc ++ toStr v)) v1 = if rest = [] then v1 else .str ((v1 :: rest).map toStr).flatten := by
  induction rest generalizing v1 with
  | nil => simp
  | cons a rest ih =>
    rw [List.foldl_cons, ih]
    by_cases hr : rest = []
    · simp [hr, toStr]
    · simp [hr, toStr]

theorem l_get (b c n sc a) (w : CW) (h : c.int64? = some n) :
    (semC b).getArr sc a ((semC b).strV (decBytes n)) w = (semC b).getArr sc a ((semC b).numV c) w := by
  obtain ⟨hi, rfl⟩ := int64_inv h
  cases sc <;> simp [semC, hi, toStr, intBytes_nat]
theorem l_set (b c n sc a) (v : CV) (w : CW) (h : c.int64? = some n) :
    (semC b).setArr sc a ((semC b).strV (decBytes n)) v w = (semC b).setArr sc a ((semC b).numV c) v w := by
  obtain ⟨hi, rfl⟩ := int64_inv h
  cases sc <;> simp [semC, hi, toStr, intBytes_nat]
theorem l_in (b c n sc a) (w : CW) (h : c.int64? = some n) :
    (semC b).inArr sc a ((semC b).strV (decBytes n)) w = (semC b).inArr sc a ((semC b).numV c) w := by
  obtain ⟨hi, rfl⟩ := int64_inv h
  cases sc <;> simp [semC, hi, toStr, intBytes_nat]
theorem l_ml (b c n) (v : CV) (w : CW) (h : c.int64? = some n) :
    (semC b).multiIndex [(semC b).strV (decBytes n), v] w = (semC b).multiIndex [(semC b).numV c, v] w := by
  obtain ⟨hi, rfl⟩ := int64_inv h
  simp [semC, hi, toStr, intBytes_nat]
theorem l_mr (b c n) (u : CV) (w : CW) (h : c.int64? = some n) :
    (semC b).multiIndex [u, (semC b).strV (decBytes n)] w = (semC b).multiIndex [u, (semC b).numV c] w := by
  obtain ⟨hi, rfl⟩ := int64_inv h
  simp [semC, hi, toStr, intBytes_nat]
theorem l_cm (b) (v1 v2 : CV) (rest : List CV) (w : CW) :
    (semC b).concatMulti (v1 :: v2 :: rest) w = (v2 :: rest).foldl (fun acc v => (semC b).concat acc v w) v1 := by
  show CV.str ((v1 :: v2 :: rest).map toStr).flatten = (v2 :: rest).foldl (fun acc v => CV.str (toStr acc ++ toStr v)) v1
  rw [concatMulti_fold]; simp

theorem semC_laws (b : Bool) : Laws (semC b) where
  toBool_ofBool x := by cases x <;> simp [semC, Conc.toBool]
  cmp_ne a c w := by
    simp only [semC, cmp]
    split <;> simp [cmpWith]
  fieldInt c n w h := by
    simp only [NumC.int32?] at h
    split at h
    · rename_i hi
      simp only [Option.some.injEq] at h; subst h
      simp [semC, hi.1, toNum]
    · simp at h
  idx_get c n sc a w h := l_get b c n sc a w h
  idx_set c n sc a v w h := l_set b c n sc a v w h
  idx_in c n sc a w h := l_in b c n sc a w h
  idx_multi_l c n v w h := l_ml b c n v w h
  idx_multi_r c n u w h := l_mr b c n u w h
  concat_stable _ _ _ _ := rfl
  concatMulti_spec v1 v2 rest w := l_cm b v1 v2 rest w

theorem getNth_setNth {α} [Inhabited α] : ∀ (l : List α) (a : Nat) (v : α), getNth (setNth l a v) a = v
  | [], 0, v => by simp [setNth, getNth]
  | [], a+1, v => by simpa [setNth, getNth] using getNth_setNth [] a v
  | _ :: l, 0, v => by simp [setNth, getNth]
  | _ :: l, a+1, v => by simpa [setNth, getNth] using getNth_setNth l a v

theorem setNth_setNth {α} [Inhabited α] : ∀ (l : List α) (a : Nat) (v v' : α), setNth (setNth l a v) a v' = setNth l a v'
  | [], 0, v, v' => by simp [setNth]
  | [], a+1, v, v' => by simp [setNth, setNth_setNth [] a v v']
  | _ :: l, 0, v, v' => by simp [setNth]
  | _ :: l, a+1, v, v' => by simp [setNth, setNth_setNth l a v v']

theorem arrSet_fresh (arr : List (Bytes × CV)) (k : Bytes) (x : CV) (h : arrLookup arr k = none) :
    arrSet (arrSet arr k .null) k x = arrSet arr k x := by
  have hn : ∀ p ∈ arr, ¬ (p.1 = k) := by
    intro p hp
    simp only [arrLookup, Option.map_eq_none_iff, List.find?_eq_none] at h
    simpa using h p hp
  have hany : arr.any (fun p => decide (p.1 = k)) = false := by
    simp only [List.any_eq_false]; intro p hp; simpa using hn p hp
  have hmap : arr.map (fun p => if p.1 = k then (k, x) else p) = arr := by
    conv => rhs; rw [← List.map_id arr]
    apply List.map_congr_left
    intro p hp; simp [hn p hp]
  simp [arrSet, hany, hmap]

theorem l_set_get (sc : AScope) (a : Nat) (i x : CV) (w : CW) :
    (semC false).setArr sc a i x ((semC false).getArr sc a i w).2 = (semC false).setArr sc a i x w := by
  cases sc with
  | loc => rfl
  | global =>
    simp only [semC]
    cases hl : arrLookup (getNth w.arrays a) (toStr i) with
    | some v => simp
    | none =>
      simp only [getNth_setNth, setNth_setNth]
      rw [arrSet_fresh _ _ _ hl]

theorem semC_stmtLaws : StmtLaws (semC false) where
  aug_eq _ _ _ := rfl
  incr_eq dec v := by
    cases dec <;> simp [semC, incrArith, Conc.arith, NumC.one, toNum] <;> omega
  incr_plus dec v := by cases dec <;> simp [semC, toNum]
  set_get sc a i x w := l_set_get sc a i x w

end GoawkModel.C01
