import GoawkModel.C13Newline
/-! Lemmas about the per-write newline transformation of `writeOutput` (model: `GoawkModel.C13Newline`). -/
namespace GoawkModel.C13

theorem expandLF_append (a b : Bytes) : expandLF (a ++ b) = expandLF a ++ expandLF b := by
  induction a with
  | nil => rfl
  | cons x r ih => by_cases h : x = 10 <;> simp [expandLF, h, ih]

theorem expandLF_head_ne_lf (t : Bytes) : (expandLF t).head? ≠ some 10 := by
  cases t with
  | nil => simp [expandLF]
  | cons x r => by_cases h : x = 10 <;> simp [expandLF, h]

theorem normCRLF_cons_of_head (x : UInt8) (t : Bytes) (h : t.head? ≠ some 10) :
    normCRLF (x :: t) = x :: normCRLF t := by
  cases t with
  | nil => simp [normCRLF]
  | cons y r =>
    have : y ≠ 10 := by simpa using h
    simp [normCRLF, this]

/-- reading CR LF as LF undoes writing LF as CR LF — for every text, also one that contains CRs of its own -/
theorem normCRLF_expandLF (t : Bytes) : normCRLF (expandLF t) = t := by
  induction t with
  | nil => rfl
  | cons x r ih =>
    by_cases h : x = 10
    · simp [expandLF, h, normCRLF, ih]
    · simp only [expandLF, h, if_false]
      rw [normCRLF_cons_of_head _ _ (expandLF_head_ne_lf r), ih]

theorem xfWrites_crlf (ws : List Bytes) : xfWrites true ws = expandLF (ws.map normCRLF).flatten := by
  induction ws with
  | nil => rfl
  | cons w r ih => simp [xfWrites, xfWrite, ih, expandLF_append]

theorem xfWrites_raw (ws : List Bytes) : xfWrites false ws = ws.flatten := by
  induction ws with
  | nil => rfl
  | cons w r ih => simp [xfWrites, xfWrite, ih]

/-- CR LF normalisation distributes over a boundary unless a CR at the end of the left part meets an LF at the start of the right part -/
theorem normCRLF_append (a b : Bytes) (h : ¬ (a.getLast? = some 13 ∧ b.head? = some 10)) :
    normCRLF (a ++ b) = normCRLF a ++ normCRLF b := by
  induction a using normCRLF.induct with
  | case1 => rfl
  | case2 x =>
    cases b with
    | nil => simp [normCRLF]
    | cons y r =>
      have hxy : ¬ (x = 13 ∧ y = 10) := by simpa using h
      simp [normCRLF, hxy]
  | case3 x y r hp ih =>
    have hr : ¬ (r.getLast? = some 13 ∧ b.head? = some 10) := by
      cases r with
      | nil =>
        simp
      | cons z r' => simpa [List.getLast?_cons_cons] using h
    simp [normCRLF, hp, ih hr]
  | case4 x y r hp ih =>
    have hr : ¬ ((y :: r).getLast? = some 13 ∧ b.head? = some 10) := by
      simpa [List.getLast?_cons_cons] using h
    have := ih hr
    simp only [List.cons_append] at this ⊢
    simp [normCRLF, hp, this]

theorem normCRLF_lf_cons (b : Bytes) : normCRLF (10 :: b) = 10 :: normCRLF b := by
  cases b with
  | nil => simp [normCRLF]
  | cons y r => simp [normCRLF]

/-- … and it does NOT distribute when a CR at the end of the left part meets an LF at the start of the right part: the two
are taken for one line end and the CR is gone -/
theorem normCRLF_append_merges (a b : Bytes) (ha : a.getLast? = some 13) (hb : b.head? = some 10) :
    normCRLF (a ++ b) ≠ normCRLF a ++ normCRLF b := by
  obtain ⟨a', rfl⟩ := List.getLast?_eq_some_iff.mp ha
  cases b with
  | nil => simp at hb
  | cons y b' =>
    have hy : y = 10 := by simpa using hb
    subst hy
    have h1 : normCRLF (a' ++ [13]) = normCRLF a' ++ [13] := by
      rw [normCRLF_append a' [13] (by simp)]; simp [normCRLF]
    have h2 : normCRLF (a' ++ [13] ++ 10 :: b') = normCRLF a' ++ 10 :: normCRLF b' := by
      rw [List.append_assoc, normCRLF_append a' _ (by simp)]
      simp [normCRLF]
    rw [h1, h2, normCRLF_lf_cons]
    intro h
    have := congrArg List.length h
    simp at this

end GoawkModel.C13
