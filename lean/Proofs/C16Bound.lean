import Proofs.C16Pass
/-! The pass cap of resolve.go (`maxIterations` = number of entries of `varInfo` after the first pass) is never reached:
after the first pass every global that will ever exist has been declared, so every later pass that reports an update has
given a type to at least one of the `cap` slots, and at least one slot (ARGV) had its type before the first pass. -/
namespace GoawkModel.C16

/-! ### what one step does to `decl` -/

theorem recordCore_decl {s s' : State} {fn v : Name} {cur t : Ty} {c : Bool}
    (h : recordCore s fn v cur t = .ok (s', c)) : s'.decl = s.decl := by
  unfold recordCore at h
  split at h
  · cases h
  · split at h
    · injection h with h; injection h with h _; rw [← h]; rfl
    · injection h with h; injection h with h _; rw [← h]

/-- after `recordVar fn v`, `v` exists if it is a global; nothing is ever undeclared; only `v` can be declared -/
theorem recordVar_decl {p : Program} {s s' : State} {fn v : Name} {t : Ty} {c : Bool}
    (h : recordVar p s fn v t = .ok (s', c)) :
    (refOf p fn v = .glob → s'.decl v = true) ∧ (∀ w, s.decl w = true → s'.decl w = true) ∧
      (∀ w, s'.decl w = true → s.decl w = true ∨ (w = v ∧ refOf p fn v = .glob)) := by
  unfold recordVar at h
  cases hr : refOf p fn v with
  | loc =>
    simp only [hr] at h
    have := recordCore_decl h
    rw [this]
    exact ⟨fun x => Ref.noConfusion x, fun _ hw => hw, fun _ hw => Or.inl hw⟩
  | special =>
    simp only [hr] at h
    split at h
    · cases h
    · injection h with h; injection h with h _; rw [← h]
      exact ⟨fun x => Ref.noConfusion x, fun _ hw => hw, fun _ hw => Or.inl hw⟩
  | glob =>
    simp only [hr] at h
    split at h
    · rename_i hd
      have := recordCore_decl h
      rw [this]
      exact ⟨fun _ => hd, fun _ hw => hw, fun _ hw => Or.inl hw⟩
    · injection h with h; injection h with h _; rw [← h]
      refine ⟨fun _ => by simp [State.declare, State.setTy], ?_, ?_⟩
      · intro w hw
        simp only [State.declare, State.setTy]
        split
        · rfl
        · exact hw
      · intro w hw
        simp only [State.declare, State.setTy] at hw
        by_cases hwv : w = v
        · exact Or.inr ⟨hwv, rfl⟩
        · simp only [hwv, if_false] at hw; exact Or.inl hw

/-- the glob-referenced names of an event are declared after the step; declarations only grow, and only by names of the event -/
theorem step_decl {p : Program} {s s' : State} {fn : Name} {e : Event} {c : Bool} (ha : ArgOK p e)
    (h : step p fn s e = .ok (s', c)) :
    (∀ v ∈ eventNames e, refOf p fn v = .glob → s'.decl v = true) ∧ (∀ w, s.decl w = true → s'.decl w = true) ∧
      (∀ w, s'.decl w = true → s.decl w = true ∨ (w ∈ eventNames e ∧ refOf p fn w = .glob)) := by
  cases e with
  | call f n =>
    simp only [step] at h; injection h with h; injection h with h _; rw [← h]
    exact ⟨fun _ hv => (nomatch hv), fun _ hw => hw, fun _ hw => Or.inl hw⟩
  | exprArg f i =>
    simp only [step] at h
    split at h
    · cases h
    · injection h with h; injection h with h _; rw [← h]
      exact ⟨fun _ hv => (nomatch hv), fun _ hw => hw, fun _ hw => Or.inl hw⟩
  | use v t =>
    simp only [step] at h
    have := recordVar_decl h
    refine ⟨?_, this.2.1, ?_⟩
    · intro v' hv'
      simp only [eventNames, List.mem_singleton] at hv'
      rw [hv']; exact this.1
    · intro w hw
      rcases this.2.2 w hw with h1 | h1
      · exact Or.inl h1
      · exact Or.inr ⟨by simp [eventNames, h1.1], by rw [h1.1]; exact h1.2⟩
  | varArg f i v =>
    simp only [ArgOK] at ha
    simp only [step] at h
    have direct : ∀ {t : Ty}, recordVar p s fn v t = .ok (s', c) →
        (∀ v' ∈ eventNames (Event.varArg f i v), refOf p fn v' = .glob → s'.decl v' = true) ∧
        (∀ w, s.decl w = true → s'.decl w = true) ∧
        (∀ w, s'.decl w = true → s.decl w = true ∨ (w ∈ eventNames (Event.varArg f i v) ∧ refOf p fn w = .glob)) := by
      intro t h
      have := recordVar_decl h
      refine ⟨?_, this.2.1, ?_⟩
      · intro v' hv'
        simp only [eventNames, List.mem_singleton] at hv'
        rw [hv']; exact this.1
      · intro w hw
        rcases this.2.2 w hw with h1 | h1
        · exact Or.inl h1
        · exact Or.inr ⟨by simp [eventNames, h1.1], by rw [h1.1]; exact h1.2⟩
    split at h
    · exact direct h
    · split at h
      · rename_i h2
        have := recordVar_decl h
        have hloc := refOf_param (p := p) ha.1 ha.2
        refine ⟨?_, this.2.1, ?_⟩
        · intro v' hv' hg
          simp only [eventNames, List.mem_singleton] at hv'
          rw [hv'] at hg ⊢
          apply this.2.1
          have hk := h2.1
          unfold getTy at hk
          simp only [hg] at hk
          by_cases hd : s.decl v = true
          · exact hd
          · simp [hd] at hk
        · intro w hw
          rcases this.2.2 w hw with h1 | h1
          · exact Or.inl h1
          · rw [hloc] at h1; exact absurd h1.2 (fun x => Ref.noConfusion x)
      · split at h
        · cases h
        · exact direct h

/-! ### lifting over a pass: what is declared afterwards -/

/-- every glob-referenced name of the visited events is declared in `D` -/
def Visited (p : Program) (order : List Name) (fn : Name) (e : Event) : Prop :=
  (fn = 0 ∧ e ∈ p.main) ∨ (fn ∈ order ∧ fn ≠ 0 ∧ ∃ f, p.findFunc fn = some f ∧ e ∈ f.body)

def ClosedD (p : Program) (order : List Name) (D : Name → Bool) : Prop :=
  ∀ fn e, Visited p order fn e → ∀ v ∈ eventNames e, refOf p fn v = .glob → D v = true

theorem runBody_decl {p : Program} (fn : Name) :
    ∀ (es : List Event) (i : Nat) (s : State) (ch : Bool) (s' : State) (c : Bool),
      (∀ e ∈ es, ArgOK p e) → runBody p fn es i s ch = .ok (s', c) →
      (∀ w, s.decl w = true → s'.decl w = true) ∧
        ∀ e ∈ es, ∀ v ∈ eventNames e, refOf p fn v = .glob → s'.decl v = true := by
  intro es
  induction es with
  | nil =>
    intro i s ch s' c _ h
    simp only [runBody] at h; injection h with h; injection h with h _; rw [← h]
    exact ⟨fun _ hw => hw, fun _ he => (nomatch he)⟩
  | cons e es ih =>
    intro i s ch s' c hok h
    simp only [runBody] at h
    split at h
    · cases h
    · rename_i s1 c1 hst
      have h1 := step_decl (hok e List.mem_cons_self) hst
      have h2 := ih (i + 1) s1 (ch || c1) s' c (fun e he => hok e (List.mem_cons_of_mem _ he)) h
      refine ⟨fun w hw => h2.1 w (h1.2.1 w hw), ?_⟩
      intro e' he' v hv hg
      rcases List.mem_cons.mp he' with h3 | h3
      · rw [h3] at hv; exact h2.1 v (h1.1 v hv hg)
      · exact h2.2 e' h3 v hv hg

theorem runFuncs_decl {p : Program} (wf : WF p) :
    ∀ (ns : List Name) (s : State) (ch : Bool) (s' : State) (c : Bool),
      runFuncs p ns s ch = .ok (s', c) →
      (∀ w, s.decl w = true → s'.decl w = true) ∧
        ∀ n ∈ ns, n ≠ 0 → ∀ f, p.findFunc n = some f → ∀ e ∈ f.body, ∀ v ∈ eventNames e,
          refOf p n v = .glob → s'.decl v = true := by
  intro ns
  induction ns with
  | nil =>
    intro s ch s' c h
    simp only [runFuncs] at h; injection h with h; injection h with h _; rw [← h]
    exact ⟨fun _ hw => hw, fun _ hn => (nomatch hn)⟩
  | cons n ns ih =>
    intro s ch s' c h
    simp only [runFuncs] at h
    split at h
    · rename_i hn
      have := ih s ch s' c h
      refine ⟨this.1, ?_⟩
      intro n' hn' hne
      rcases List.mem_cons.mp hn' with h1 | h1
      · rw [h1] at hne; exact absurd hn hne
      · exact this.2 n' h1 hne
    · split at h
      · rename_i hnone
        have := ih s ch s' c h
        refine ⟨this.1, ?_⟩
        intro n' hn' hne f hf
        rcases List.mem_cons.mp hn' with h1 | h1
        · rw [h1, hnone] at hf; cases hf
        · exact this.2 n' h1 hne f hf
      · rename_i f hf
        split at h
        · cases h
        · rename_i s1 c1 hb
          have hbody : ∀ e ∈ f.body, ArgOK p e := fun e he => wf.funcArgs f (findFunc_some hf).1 e he
          have h1 := runBody_decl n f.body 0 s ch s1 c1 hbody hb
          have h2 := ih s1 c1 s' c h
          refine ⟨fun w hw => h2.1 w (h1.1 w hw), ?_⟩
          intro n' hn' hne f' hf' e he v hv hg
          rcases List.mem_cons.mp hn' with h3 | h3
          · rw [h3, hf] at hf'
            injection hf' with hf'
            rw [← hf'] at he
            rw [h3] at hg
            exact h2.1 v (h1.2 e he v hv hg)
          · exact h2.2 n' h3 hne f' hf' e he v hv hg

theorem pass_closed {p : Program} (wf : WF p) (order : List Name) (s s' : State) (c : Bool)
    (h : pass p order s = .ok (s', c)) :
    (∀ w, s.decl w = true → s'.decl w = true) ∧ ClosedD p order s'.decl := by
  simp only [pass] at h
  split at h
  · cases h
  · rename_i s1 c1 hf
    have h1 := runFuncs_decl wf order s false s1 c1 hf
    have h2 := runBody_decl 0 p.main 0 s1 c1 s' c wf.mainArgs h
    refine ⟨fun w hw => h2.1 w (h1.1 w hw), ?_⟩
    intro fn e hv v hve hg
    rcases hv with ⟨h0, he⟩ | ⟨ho, hne, f, hf', he⟩
    · rw [h0] at hg; exact h2.2 e he v hve hg
    · exact h2.1 v (h1.2 fn ho hne f hf' e he v hve hg)

/-! ### declared names are mentioned names -/

theorem mem_mentioned_of_inProg {p : Program} {fn : Name} {e : Event} (h : InProg p fn e) {v : Name}
    (hv : v ∈ eventNames e) : v ∈ p.mentioned := by
  unfold Program.mentioned
  rcases h with ⟨_, he⟩ | ⟨f, hf, _, he⟩
  · exact List.mem_append_right _ (List.mem_flatMap.mpr ⟨e, he, hv⟩)
  · apply List.mem_append_left
    apply List.mem_append_right
    exact List.mem_flatMap.mpr ⟨f, hf, List.mem_flatMap.mpr ⟨e, he, hv⟩⟩

def DeclMentioned (p : Program) (s : State) : Prop := ∀ v, s.decl v = true → v ∈ p.mentioned

theorem declMentioned_stepInv {p : Program} (wf : WF p) : StepInv p (DeclMentioned p) := by
  intro fn e s s' c hin hI hst v hv
  rcases (step_decl (inProg_argOK wf hin) hst).2.2 v hv with h1 | h1
  · exact hI v h1
  · exact mem_mentioned_of_inProg hin h1.1

theorem prelude_decl_aux (b : Name) :
    ∀ (bs : List Name) (s : State), (bs.foldl (fun s b => (s.setTy 0 b .array).declare b) s).decl b = true →
      b ∈ bs ∨ s.decl b = true := by
  intro bs
  induction bs with
  | nil => intro s h; exact Or.inr h
  | cons x xs ih =>
    intro s h
    simp only [List.foldl_cons] at h
    rcases ih _ h with h1 | h1
    · exact Or.inl (List.mem_cons_of_mem _ h1)
    · simp only [State.declare, State.setTy] at h1
      by_cases hx : b = x
      · exact Or.inl (by rw [hx]; exact List.mem_cons_self)
      · simp only [hx, if_false] at h1; exact Or.inr h1

theorem prelude_declMentioned (p : Program) : DeclMentioned p (prelude p) := by
  intro v hv
  rcases prelude_decl_aux v p.builtins State.init hv with h | h
  · exact List.mem_append_left _ (List.mem_append_left _ h)
  · simp [State.init] at h

/-! ### the measure -/

def slots (p : Program) (D : Name → Bool) : List (Name × Name) :=
  (p.funcs.flatMap fun f => f.params.map fun v => (f.name, v)) ++ (p.universe.filter D).map fun v => (0, v)

def knownB (s : State) (k : Name × Name) : Bool := decide (s.ty k.1 k.2 ≠ .unknown)

def K (p : Program) (D : Name → Bool) (s : State) : Nat := (slots p D).countP (knownB s)

theorem slots_length (p : Program) (s : State) : (slots p s.decl).length = cap p s := by
  simp only [slots, cap, List.length_append, List.length_map, List.length_flatMap]

theorem K_le (p : Program) (D : Name → Bool) (s : State) : K p D s ≤ (slots p D).length := List.countP_le_length

theorem countP_lt {α : Type} (l : List α) (q r : α → Bool) (hmono : ∀ x ∈ l, q x = true → r x = true)
    (k : α) (hk : k ∈ l) (hq : q k = false) (hr : r k = true) : l.countP q < l.countP r := by
  induction l with
  | nil => exact nomatch hk
  | cons x xs ih =>
    have hm : ∀ y ∈ xs, q y = true → r y = true := fun y hy => hmono y (List.mem_cons_of_mem _ hy)
    have hle : xs.countP q ≤ xs.countP r := List.countP_mono_left hm
    rcases List.mem_cons.mp hk with h1 | h1
    · subst h1
      simp only [List.countP_cons, hq, hr, if_true]
      simp
      omega
    · have := ih hm h1
      simp only [List.countP_cons]
      by_cases hqx : q x = true
      · simp only [hqx, hmono x List.mem_cons_self hqx, if_true]; omega
      · by_cases hrx : r x = true
        · simp [hqx, hrx]; omega
        · simp [hqx, hrx]; omega

/-- progress relation of a step in the passes after the first: declarations fixed, decided types kept, and an update decides a slot -/
structure Adv (p : Program) (D : Name → Bool) (s s' : State) (c : Bool) : Prop where
  decl : s'.decl = s.decl
  keep : ∀ fn v, s.ty fn v ≠ .unknown → s'.ty fn v = s.ty fn v
  gain : c = true → ∃ k ∈ slots p D, s.ty k.1 k.2 = .unknown ∧ s'.ty k.1 k.2 ≠ .unknown

theorem Adv.refl (p : Program) (D : Name → Bool) (s : State) : Adv p D s s false :=
  ⟨rfl, fun _ _ _ => rfl, fun h => Bool.noConfusion h⟩

theorem Adv.K_mono {p : Program} {D : Name → Bool} {s s' : State} {c : Bool} (h : Adv p D s s' c) : K p D s ≤ K p D s' := by
  apply List.countP_mono_left
  intro k _ hk
  simp only [knownB, decide_eq_true_eq] at hk ⊢
  rw [h.keep k.1 k.2 hk]; exact hk

theorem Adv.K_lt {p : Program} {D : Name → Bool} {s s' : State} (h : Adv p D s s' true) : K p D s < K p D s' := by
  obtain ⟨k, hk, hu, hn⟩ := h.gain rfl
  apply countP_lt (slots p D) (knownB s) (knownB s') _ k hk
  · simp [knownB, hu]
  · simp [knownB, hn]
  · intro x _ hx
    simp only [knownB, decide_eq_true_eq] at hx ⊢
    rw [h.keep x.1 x.2 hx]; exact hx

theorem Adv.trans {p : Program} {D : Name → Bool} {s s1 s2 : State} {c1 c2 : Bool}
    (h1 : Adv p D s s1 c1) (h2 : Adv p D s1 s2 c2) : Adv p D s s2 (c1 || c2) := by
  refine ⟨h2.decl.trans h1.decl, ?_, ?_⟩
  · intro fn v hk
    have := h1.keep fn v hk
    rw [h2.keep fn v (by rw [this]; exact hk), this]
  · intro hc
    cases c1 with
    | true =>
      obtain ⟨k, hk, hu, hn⟩ := h1.gain rfl
      refine ⟨k, hk, hu, ?_⟩
      rw [h2.keep k.1 k.2 hn]; exact hn
    | false =>
      simp only [Bool.false_or] at hc
      obtain ⟨k, hk, hu, hn⟩ := h2.gain hc
      refine ⟨k, hk, ?_, hn⟩
      cases hk1 : s.ty k.1 k.2 with
      | unknown => rfl
      | scalar => have := h1.keep k.1 k.2 (by rw [hk1]; exact fun x => Ty.noConfusion x); rw [this, hk1] at hu; exact Ty.noConfusion hu
      | array => have := h1.keep k.1 k.2 (by rw [hk1]; exact fun x => Ty.noConfusion x); rw [this, hk1] at hu; exact Ty.noConfusion hu

theorem recordCore_adv {p : Program} {D : Name → Bool} {s s' : State} {fn v : Name} {t : Ty} {c : Bool}
    (hslot : (fn, v) ∈ slots p D) (h : recordCore s fn v (s.ty fn v) t = .ok (s', c)) : Adv p D s s' c := by
  unfold recordCore at h
  split at h
  · cases h
  · split at h
    · rename_i h2
      injection h with h; injection h with h hc; rw [← h, ← hc]
      refine ⟨rfl, ?_, fun _ => ⟨(fn, v), hslot, h2.1, ?_⟩⟩
      · intro f' v' hk
        simp only [State.setTy]
        by_cases hkey : f' = fn ∧ v' = v
        · rw [hkey.1, hkey.2] at hk; exact absurd h2.1 hk
        · simp only [hkey, if_false]
      · simp only [State.setTy, and_self, if_true]; exact h2.2
    · injection h with h; injection h with h hc; rw [← h, ← hc]; exact Adv.refl p D s

theorem loc_slot {p : Program} {D : Name → Bool} {fn v : Name} (h : refOf p fn v = .loc) : (fn, v) ∈ slots p D := by
  unfold refOf at h
  split at h
  · rename_i hl
    apply List.mem_append_left
    have hv := hl.2
    unfold Program.paramsOf at hv
    split at hv
    · rename_i g hg
      have := findFunc_some hg
      exact List.mem_flatMap.mpr ⟨g, this.1, List.mem_map.mpr ⟨v, hv, by rw [this.2]⟩⟩
    · exact nomatch hv
  · split at h <;> cases h

theorem glob_slot {p : Program} {D : Name → Bool} {v : Name} (hD : D v = true) (hm : v ∈ p.mentioned) : (0, v) ∈ slots p D := by
  apply List.mem_append_right
  apply List.mem_map.mpr
  refine ⟨v, List.mem_filter.mpr ⟨?_, hD⟩, rfl⟩
  unfold Program.universe
  exact List.mem_eraseDups.mpr hm

theorem recordVar_adv {p : Program} {D : Name → Bool} {s s' : State} {fn v : Name} {t : Ty} {c : Bool}
    (hD : s.decl = D) (hm : DeclMentioned p s) (hcl : refOf p fn v = .glob → D v = true)
    (h : recordVar p s fn v t = .ok (s', c)) : Adv p D s s' c := by
  unfold recordVar at h
  cases hr : refOf p fn v with
  | loc => simp only [hr] at h; exact recordCore_adv (loc_slot hr) h
  | special =>
    simp only [hr] at h
    split at h
    · cases h
    · injection h with h; injection h with h hc; rw [← h, ← hc]; exact Adv.refl p D s
  | glob =>
    simp only [hr] at h
    have hd : s.decl v = true := by rw [hD]; exact hcl hr
    simp only [hd, if_true] at h
    exact recordCore_adv (glob_slot (hcl hr) (hm v hd)) h

theorem step_adv {p : Program} {D : Name → Bool} {s s' : State} {fn : Name} {e : Event} {c : Bool} (ha : ArgOK p e)
    (hD : s.decl = D) (hm : DeclMentioned p s) (hcl : ∀ v ∈ eventNames e, refOf p fn v = .glob → D v = true)
    (h : step p fn s e = .ok (s', c)) : Adv p D s s' c := by
  cases e with
  | call f n => simp only [step] at h; injection h with h; injection h with h hc; rw [← h, ← hc]; exact Adv.refl p D s
  | exprArg f i =>
    simp only [step] at h
    split at h
    · cases h
    · injection h with h; injection h with h hc; rw [← h, ← hc]; exact Adv.refl p D s
  | use v t =>
    simp only [step] at h
    exact recordVar_adv hD hm (hcl v (by simp [eventNames])) h
  | varArg f i v =>
    simp only [ArgOK] at ha
    simp only [step] at h
    have hv := hcl v (by simp [eventNames])
    split at h
    · exact recordVar_adv hD hm hv h
    · split at h
      · have hloc := refOf_param (p := p) ha.1 ha.2
        exact recordVar_adv hD hm (fun hg => by rw [hloc] at hg; exact Ref.noConfusion hg) h
      · split at h
        · cases h
        · exact recordVar_adv hD hm hv h

end GoawkModel.C16

namespace GoawkModel.C16

/-! ### lifting the progress relation over a pass -/

theorem runBody_adv {p : Program} {D : Name → Bool} (fn : Name) :
    ∀ (es : List Event) (i : Nat) (s : State) (ch : Bool) (s' : State) (c : Bool),
      (∀ e ∈ es, ArgOK p e) → (∀ e ∈ es, ∀ v ∈ eventNames e, refOf p fn v = .glob → D v = true) →
      s.decl = D → DeclMentioned p s → runBody p fn es i s ch = .ok (s', c) →
      ∃ c0, Adv p D s s' c0 ∧ c = (ch || c0) := by
  intro es
  induction es with
  | nil =>
    intro i s ch s' c _ _ _ _ h
    simp only [runBody] at h; injection h with h; injection h with h hc
    rw [← h, ← hc]
    exact ⟨false, Adv.refl p D s, by simp⟩
  | cons e es ih =>
    intro i s ch s' c hok hcl hD hm h
    simp only [runBody] at h
    split at h
    · cases h
    · rename_i s1 c1 hst
      have a1 := step_adv (hok e List.mem_cons_self) hD hm (hcl e List.mem_cons_self) hst
      have hD1 : s1.decl = D := a1.decl.trans hD
      have hm1 : DeclMentioned p s1 := by intro v hv; rw [a1.decl] at hv; exact hm v hv
      obtain ⟨c0, a2, hc⟩ := ih (i + 1) s1 (ch || c1) s' c (fun e he => hok e (List.mem_cons_of_mem _ he))
        (fun e he => hcl e (List.mem_cons_of_mem _ he)) hD1 hm1 h
      exact ⟨c1 || c0, Adv.trans a1 a2, by rw [hc, Bool.or_assoc]⟩

theorem runFuncs_adv {p : Program} {D : Name → Bool} (wf : WF p) (order : List Name) (hcl : ClosedD p order D) :
    ∀ (ns : List Name), (∀ n ∈ ns, n ∈ order) → ∀ (s : State) (ch : Bool) (s' : State) (c : Bool),
      s.decl = D → DeclMentioned p s → runFuncs p ns s ch = .ok (s', c) →
      ∃ c0, Adv p D s s' c0 ∧ c = (ch || c0) := by
  intro ns
  induction ns with
  | nil =>
    intro _ s ch s' c _ _ h
    simp only [runFuncs] at h; injection h with h; injection h with h hc
    rw [← h, ← hc]
    exact ⟨false, Adv.refl p D s, by simp⟩
  | cons n ns ih =>
    intro hsub s ch s' c hD hm h
    have hsub' : ∀ n' ∈ ns, n' ∈ order := fun n' hn' => hsub n' (List.mem_cons_of_mem _ hn')
    simp only [runFuncs] at h
    split at h
    · exact ih hsub' s ch s' c hD hm h
    · rename_i hn0
      split at h
      · exact ih hsub' s ch s' c hD hm h
      · rename_i f hf
        split at h
        · cases h
        · rename_i s1 c1 hb
          have hbody : ∀ e ∈ f.body, ArgOK p e := fun e he => wf.funcArgs f (findFunc_some hf).1 e he
          have hclb : ∀ e ∈ f.body, ∀ v ∈ eventNames e, refOf p n v = .glob → D v = true :=
            fun e he => hcl n e (Or.inr ⟨hsub n List.mem_cons_self, hn0, f, hf, he⟩)
          obtain ⟨c0, a1, hc1⟩ := runBody_adv n f.body 0 s ch s1 c1 hbody hclb hD hm hb
          have hD1 : s1.decl = D := a1.decl.trans hD
          have hm1 : DeclMentioned p s1 := by intro v hv; rw [a1.decl] at hv; exact hm v hv
          obtain ⟨c2, a2, hc2⟩ := ih hsub' s1 c1 s' c hD1 hm1 h
          exact ⟨c0 || c2, Adv.trans a1 a2, by rw [hc2, hc1, Bool.or_assoc]⟩

theorem pass_adv {p : Program} {D : Name → Bool} (wf : WF p) (order : List Name) (hcl : ClosedD p order D)
    (s s' : State) (c : Bool) (hD : s.decl = D) (hm : DeclMentioned p s) (h : pass p order s = .ok (s', c)) :
    Adv p D s s' c := by
  simp only [pass] at h
  split at h
  · cases h
  · rename_i s1 c1 hf
    obtain ⟨c0, a1, hc1⟩ := runFuncs_adv wf order hcl order (fun _ hn => hn) s false s1 c1 hD hm hf
    have hD1 : s1.decl = D := a1.decl.trans hD
    have hm1 : DeclMentioned p s1 := by intro v hv; rw [a1.decl] at hv; exact hm v hv
    obtain ⟨c2, a2, hc2⟩ := runBody_adv 0 p.main 0 s1 c1 s' c wf.mainArgs
      (fun e he => hcl 0 e (Or.inl ⟨rfl, he⟩)) hD1 hm1 h
    have := Adv.trans a1 a2
    simp only [Bool.false_or] at hc1
    rw [hc2, hc1]
    exact this

/-! ### errors raised inside a pass are never the cap error -/

theorem recordVar_err {p : Program} {s : State} {fn v : Name} {t : Ty} {er : Err}
    (h : recordVar p s fn v t = .error er) : er ≠ .tooMany := by
  unfold recordVar at h
  split at h
  · unfold recordCore at h
    split at h
    · injection h with h; rw [← h]; exact fun x => Err.noConfusion x
    · split at h <;> cases h
  · split at h
    · injection h with h; rw [← h]; exact fun x => Err.noConfusion x
    · cases h
  · split at h
    · unfold recordCore at h
      split at h
      · injection h with h; rw [← h]; exact fun x => Err.noConfusion x
      · split at h <;> cases h
    · cases h

theorem step_err {p : Program} {s : State} {fn : Name} {e : Event} {er : Err}
    (h : step p fn s e = .error er) : er ≠ .tooMany := by
  cases e with
  | call f n => simp only [step] at h; cases h
  | use v t => exact recordVar_err h
  | exprArg f i =>
    simp only [step] at h
    split at h
    · injection h with h; rw [← h]; exact fun x => Err.noConfusion x
    · cases h
  | varArg f i v =>
    simp only [step] at h
    split at h
    · exact recordVar_err h
    · split at h
      · exact recordVar_err h
      · split at h
        · injection h with h; rw [← h]; exact fun x => Err.noConfusion x
        · exact recordVar_err h

theorem runBody_err {p : Program} (fn : Name) :
    ∀ (es : List Event) (i : Nat) (s : State) (ch : Bool) (er : LErr),
      runBody p fn es i s ch = .error er → er.2.2 ≠ .tooMany := by
  intro es
  induction es with
  | nil => intro i s ch er h; simp only [runBody] at h; cases h
  | cons e es ih =>
    intro i s ch er h
    simp only [runBody] at h
    split at h
    · rename_i er' hst
      injection h with h; rw [← h]; exact step_err hst
    · exact ih _ _ _ er h

theorem runFuncs_err {p : Program} :
    ∀ (ns : List Name) (s : State) (ch : Bool) (er : LErr), runFuncs p ns s ch = .error er → er.2.2 ≠ .tooMany := by
  intro ns
  induction ns with
  | nil => intro s ch er h; simp only [runFuncs] at h; cases h
  | cons n ns ih =>
    intro s ch er h
    simp only [runFuncs] at h
    split at h
    · exact ih s ch er h
    · split at h
      · exact ih s ch er h
      · split at h
        · rename_i er' hb
          injection h with h; rw [← h]; exact runBody_err _ _ _ _ _ er' hb
        · exact ih _ _ er h

theorem pass_err {p : Program} (order : List Name) (s : State) (er : LErr) (h : pass p order s = .error er) :
    er.2.2 ≠ .tooMany := by
  simp only [pass] at h
  split at h
  · rename_i er' hf
    injection h with h; rw [← h]; exact runFuncs_err order s false er' hf
  · exact runBody_err 0 p.main 0 _ _ er h

/-! ### the loop never runs out of fuel -/

theorem loop_bound {p : Program} {D : Name → Bool} (wf : WF p) (order : List Name) (hcl : ClosedD p order D) :
    ∀ (n : Nat) (s : State) (ch : Bool), s.decl = D → DeclMentioned p s →
      (ch = true → (slots p D).length + 1 ≤ K p D s + n) → loop p order n s ch ≠ .error (0, 0, .tooMany) := by
  intro n
  induction n with
  | zero =>
    intro s ch hD hm hk h
    simp only [loop] at h
    split at h
    · rename_i hc
      have := hk hc
      have := K_le p D s
      omega
    · cases h
  | succ n ih =>
    intro s ch hD hm hk h
    simp only [loop] at h
    split at h
    · rename_i hc
      split at h
      · rename_i er hp
        injection h with h
        have := pass_err order s er hp
        rw [h] at this
        exact this rfl
      · rename_i s1 c1 hp
        have a := pass_adv wf order hcl s s1 c1 hD hm hp
        have hD1 : s1.decl = D := a.decl.trans hD
        have hm1 : DeclMentioned p s1 := by intro v hv; rw [a.decl] at hv; exact hm v hv
        apply ih s1 c1 hD1 hm1 _ h
        intro hc1
        rw [hc1] at a
        have := a.K_lt
        have := hk hc
        omega
    · cases h

/-- The pass cap is never the reason for rejecting a program. -/
theorem resolve_not_tooMany (p : Program) (order : List Name) (wf : WF p) (hb : p.builtins ≠ []) :
    resolve p order ≠ .error (0, 0, .tooMany) := by
  intro h
  simp only [resolve] at h
  split at h
  · rename_i er hp
    injection h with h
    have := pass_err order _ er hp
    rw [h] at this
    exact this rfl
  · rename_i s1 c1 hp
    have hcl := (pass_closed wf order _ s1 c1 hp).2
    have hm1 : DeclMentioned p s1 := pass_inv (declMentioned_stepInv wf) order _ s1 c1 (prelude_declMentioned p) hp
    obtain ⟨b, bs, hbs⟩ := List.exists_cons_of_ne_nil hb
    have hbm : b ∈ p.builtins := by rw [hbs]; exact List.mem_cons_self
    have hk : KeepsArr b s1 := pass_inv (keeps_stepInv p b) order _ s1 c1 (prelude_keeps hbm) hp
    have hK : 1 ≤ K p s1.decl s1 := by
      have hslot : (0, b) ∈ slots p s1.decl :=
        glob_slot hk.1 (List.mem_append_left _ (List.mem_append_left _ hbm))
      unfold K
      apply List.countP_pos_iff.mpr
      exact ⟨(0, b), hslot, by simp [knownB, hk.2]⟩
    refine loop_bound wf order hcl (cap p s1) s1 c1 rfl hm1 ?_ h
    intro _
    rw [slots_length]
    omega

end GoawkModel.C16
