import GoawkModel.C05Store
import GoawkModel.Generated.C05Store
/-! C05 helper lemmas: stores that may not happen, and the tie of `GoawkModel.C05Store` to the source text. -/
namespace GoawkModel.C05
open GoawkModel

theorem getlineStore_ne (ret : Int) (line : Bytes) (old : Val) (h : ret ≠ 1) : getlineStore ret line old = old := by
  simp [getlineStore, h]

theorem getlineStore_one (line : Bytes) (old : Val) : getlineStore 1 line old = .numstr line := by
  simp [getlineStore]

theorem forInStore_cons (k : Bytes) (ks : List Bytes) (old : Val) :
    forInStore (k :: ks) old = forInStore ks (.str k) := rfl

theorem forInStore_str (ks : List Bytes) : ∀ k : Bytes, ∃ k' ∈ k :: ks, forInStore ks (.str k) = .str k' := by
  induction ks with
  | nil => intro k; exact ⟨k, by simp, rfl⟩
  | cons a as ih =>
    intro k
    obtain ⟨k', hk', he⟩ := ih a
    exact ⟨k', List.mem_cons_of_mem _ hk', by rw [forInStore_cons]; exact he⟩

/-- the case bodies as the model was written against them: every store of a getline opcode sits under `if ret == 1`
(and stores `numStr(line)`; the field store the line), the field store of sub/gsub under `if n.num() > 0`, the loop-variable
store of for-in (`str(index)`) inside the loop over the keys -/
def expectedStoreBodies : List (String × String) := [("GetlineField", "redirect := lexer.Token(code[ip]) ; ip++ ; ret, line, err := p.getline(redirect) ; if err != nil { return err } ; index := p.peekTop() ; if ret == 1 { err := p.setField(floatToInt(index.num()), line) if err != nil { return err } } ; p.replaceTop(num(ret))"),
  ("GetlineGlobal", "redirect := lexer.Token(code[ip]) ; index := code[ip+1] ; ip += 2 ; ret, line, err := p.getline(redirect) ; if err != nil { return err } ; if ret == 1 { p.globals[index] = numStr(line) } ; p.push(num(ret))"),
  ("GetlineLocal", "redirect := lexer.Token(code[ip]) ; index := code[ip+1] ; ip += 2 ; ret, line, err := p.getline(redirect) ; if err != nil { return err } ; if ret == 1 { p.frame[index] = numStr(line) } ; p.push(num(ret))"),
  ("GetlineSpecial", "redirect := lexer.Token(code[ip]) ; index := code[ip+1] ; ip += 2 ; ret, line, err := p.getline(redirect) ; if err != nil { return err } ; if ret == 1 { err := p.setSpecial(int(index), numStr(line)) if err != nil { return err } } ; p.push(num(ret))"),
  ("GetlineArray", "redirect := lexer.Token(code[ip]) ; arrayScope := code[ip+1] ; arrayIndex := code[ip+2] ; ip += 3 ; ret, line, err := p.getline(redirect) ; if err != nil { return err } ; index := p.toString(p.peekTop()) ; if ret == 1 { array := p.array(resolver.Scope(arrayScope), int(arrayIndex)) array[index] = numStr(line) } ; p.replaceTop(num(ret))"),
  ("AssignFieldSub", "right, index := p.popTwo() ; n := p.peekTop() ; if n.num() > 0 { err := p.setField(floatToInt(index.num()), p.toString(right)) if err != nil { return err } }"),
  ("ForIn", "varScope := code[ip] ; varIndex := code[ip+1] ; arrayScope := code[ip+2] ; arrayIndex := code[ip+3] ; offset := code[ip+4] ; ip += 5 ; array := p.array(resolver.Scope(arrayScope), int(arrayIndex)) ; loopCode := code[ip : ip+int(offset)] ; for index := range array { switch resolver.Scope(varScope) { case resolver.Global: p.globals[varIndex] = str(index) case resolver.Local: p.frame[varIndex] = str(index) default: err := p.setSpecial(int(varIndex), str(index)) if err != nil { return err } } err := p.execute(loopCode) if err == errBreak { break } if err != nil { return err } } ; ip += int(offset)")]

/-- `BuiltinSub` / `BuiltinGsub`: `in` itself is pushed for the store when `n == 0`, `str(out)` otherwise -/
def expectedSubBodies : List (String × String) := [("BuiltinSub", "regex, repl, in := p.peekPeekPop() ; out, n, err := p.sub(p.toString(regex), p.toString(repl), p.toString(in), false) ; if err != nil { return err } ; if n == 0 { p.replaceTwo(num(0), in) } else { p.replaceTwo(num(float64(n)), str(out)) }"),
  ("BuiltinGsub", "regex, repl, in := p.peekPeekPop() ; out, n, err := p.sub(p.toString(regex), p.toString(repl), p.toString(in), true) ; if err != nil { return err } ; if n == 0 { p.replaceTwo(num(0), in) } else { p.replaceTwo(num(float64(n)), str(out)) }")]

/-- the case bodies of the getline opcodes, `AssignFieldSub` and `ForIn` are the ones the model was written against:
every store of a getline sits under `if ret == 1`, the field store of sub/gsub under `if n.num() > 0`, the loop-variable
store of for-in inside the loop over the keys -/
theorem gen_matches_store_bodies : Generated.C05Store.storeBodies = expectedStoreBodies := by rfl

/-- `BuiltinSub`/`BuiltinGsub` push the original value when nothing was substituted -/
theorem gen_matches_sub_bodies :
    Generated.C05Store.subBodies = expectedSubBodies := by rfl

/-- `getline()` returns a line only together with status 1, and `split()` stores a fresh array of `numStr` pieces -/
theorem gen_matches_getline_split :
    Generated.C05Store.getlineReturns =
      ["return 0, \"\", err", "return -1, \"\", nil", "return 0, \"\", nil", "return 1, scanner.Text(), nil",
       "return -1, \"\", nil", "return 0, \"\", err", "return -1, \"\", nil", "return 0, \"\", nil", "return 1, scanner.Text(), nil",
       "return 0, \"\", nil", "return 0, \"\", err", "return -1, \"\", nil", "return 1, line, nil"] ∧
    Generated.C05Store.splitArrayStmts =
      ["array := make(map[string]value, len(parts))", "for i, part := range parts { array[strconv.Itoa(i+1)] = numStr(part) }",
       "p.arrays[p.arrayIndex(scope, index)] = array", "return len(array), nil"] := ⟨rfl, rfl⟩

end GoawkModel.C05
