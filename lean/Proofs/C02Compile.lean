import Proofs.C02Decode
import Proofs.C02TypingAll
import Proofs.C02Sound
/-! From the instruction-level typing of C01's compiled code to the word-level checker of C02: the scan heights are a certificate
that `checkBlock` accepts for the encoded block, hence (by the invariant behind `verify_sound`) no run gets stuck. -/
namespace GoawkModel.C02
open GoawkModel.Generated GoawkModel.C01

/-- the certificate: scan height at every word offset 0 … csize C -/
def heightsOf (C : C01.Code) : Heights := (List.range (csize C + 1)).map fun (x : Nat) => Ty.env C 0 (x : Int)

theorem hAt_heightsOf (C : C01.Code) (pc : Nat) : hAt (heightsOf C) pc = Ty.env C 0 (pc : Int) := by
  unfold hAt heightsOf
  by_cases h : pc < csize C + 1
  · simp [List.getD_eq_getElem?_getD, h]
  · rw [List.getD_eq_getElem?_getD, List.getElem?_eq_none (by simp; omega)]
    cases he : Ty.env C 0 (pc : Int) with
    | none => rfl
    | some v => have := Ty.env_some_range C 0 _ _ he; omega

theorem sum_const_two {α} (l : List α) : (l.map fun _ => 2).sum = 2 * l.length := by
  induction l with
  | nil => rfl
  | cons a l ih => simp only [List.map_cons, List.sum_cons, List.length_cons, ih]; omega

theorem operands_length (tb : C01.Tables) (i : C01.Instr) : (i.operands tb).length + 1 = i.size := by
  cases i <;> simp [Instr.operands, Instr.size]
  rw [sum_const_two]; omega

theorem encode_cons (tb : C01.Tables) (i : C01.Instr) (c : C01.Code) :
    encode tb (i :: c) = (opNum tb.opcodes i.opName :: i.operands tb) ++ encode tb c := by
  simp [encode]

theorem encode_append (tb : C01.Tables) (a b : C01.Code) : encode tb (a ++ b) = encode tb a ++ encode tb b := by
  simp [encode]

theorem encode_length (tb : C01.Tables) (c : C01.Code) : (encode tb c).length = csize c := by
  induction c with
  | nil => simp [encode]
  | cons i c ih =>
    rw [encode_cons, List.length_append, ih]
    have := operands_length tb i
    simp only [List.length_cons, csize_cons]
    omega

/-- a boundary of the scan is the end of a prefix -/
theorem env_some_split : ∀ (C : C01.Code) (h0 : Nat) (x : Nat) (v : Nat), Ty.env C h0 (x : Int) = some v →
    ∃ P Q, C = P ++ Q ∧ csize P = x ∧ Ty.exitH P h0 = v
  | [], h0, x, v, h => by
    simp only [Ty.env] at h
    split at h
    · exact ⟨[], [], rfl, by simp; omega, by simpa using h⟩
    · cases h
  | i :: C, h0, x, v, h => by
    simp only [Ty.env] at h
    split at h
    · exact ⟨[], i :: C, rfl, by simp; omega, by simpa using h⟩
    · split at h
      · cases h
      · rename_i h1 h2
        have hx : i.size ≤ x := by omega
        have := env_some_split C (Ty.after i h0) (x - i.size) v (by rw [← h]; congr 1; omega)
        obtain ⟨P, Q, rfl, hs, he⟩ := this
        exact ⟨i :: P, Q, rfl, by simp only [csize_cons]; omega, by simpa using he⟩

theorem opName_lookup' (i : C01.Instr) :
    0 ≤ opNum Opcodes.opcodes i.opName ∧ Opcodes.opcodes[(opNum Opcodes.opcodes i.opName).toNat]? = some i.opName := by
  cases i with
  | getVar sc k => cases sc <;> (simp only [Instr.opName, VScope.suffix, AScope.suffix]; decide)
  | assignVar sc k => cases sc <;> (simp only [Instr.opName, VScope.suffix, AScope.suffix]; decide)
  | incrVar sc d k => cases sc <;> (simp only [Instr.opName, VScope.suffix, AScope.suffix]; decide)
  | augVar sc op k => cases sc <;> (simp only [Instr.opName, VScope.suffix, AScope.suffix]; decide)
  | arrGet sc a => cases sc <;> (simp only [Instr.opName, VScope.suffix, AScope.suffix]; decide)
  | arrIn sc a => cases sc <;> (simp only [Instr.opName, VScope.suffix, AScope.suffix]; decide)
  | arrAssign sc a => cases sc <;> (simp only [Instr.opName, VScope.suffix, AScope.suffix]; decide)
  | arrIncr sc d a => cases sc <;> (simp only [Instr.opName, VScope.suffix, AScope.suffix]; decide)
  | arrAug sc op a => cases sc <;> (simp only [Instr.opName, VScope.suffix, AScope.suffix]; decide)
  | arith op => cases op <;> (simp only [Instr.opName, ArithOp.opName, CmpOp.opName, CmpOp.jumpName]; decide)
  | cmp op => cases op <;> (simp only [Instr.opName, ArithOp.opName, CmpOp.opName, CmpOp.jumpName]; decide)
  | jumpCmp op off => cases op <;> (simp only [Instr.opName, ArithOp.opName, CmpOp.opName, CmpOp.jumpName]; decide)
  | _ => simp only [Instr.opName]; decide

theorem opName_lookup (i : C01.Instr) :
    ∃ k : Nat, opNum Opcodes.opcodes i.opName = (k : Int) ∧ Opcodes.opcodes[k]? = some i.opName := by
  obtain ⟨h0, h1⟩ := opName_lookup' i
  exact ⟨(opNum Opcodes.opcodes i.opName).toNat, (Int.toNat_of_nonneg h0).symm, h1⟩

theorem operandCount_opName (tb : C01.Tables) (i : C01.Instr) (hc : ∀ f n a, i ≠ .callUser f n a) :
    operandCount i.opName = some (i.operands tb).length := by
  cases i with
  | callUser f n a => exact absurd rfl (hc f n a)
  | getVar sc k => cases sc <;> simp [Instr.operands, Instr.opName, VScope.suffix] <;> decide
  | assignVar sc k => cases sc <;> simp [Instr.operands, Instr.opName, VScope.suffix] <;> decide
  | incrVar sc d k => cases sc <;> simp [Instr.operands, Instr.opName, VScope.suffix] <;> decide
  | augVar sc op k => cases sc <;> simp [Instr.operands, Instr.opName, VScope.suffix] <;> decide
  | arrGet sc a => cases sc <;> simp [Instr.operands, Instr.opName, AScope.suffix] <;> decide
  | arrIn sc a => cases sc <;> simp [Instr.operands, Instr.opName, AScope.suffix] <;> decide
  | arrAssign sc a => cases sc <;> simp [Instr.operands, Instr.opName, AScope.suffix] <;> decide
  | arrIncr sc d a => cases sc <;> simp [Instr.operands, Instr.opName, AScope.suffix] <;> decide
  | arrAug sc op a => cases sc <;> simp [Instr.operands, Instr.opName, AScope.suffix] <;> decide
  | arith op => cases op <;> simp [Instr.operands, Instr.opName, ArithOp.opName] <;> decide
  | cmp op => cases op <;> simp [Instr.operands, Instr.opName, CmpOp.opName] <;> decide
  | jumpCmp op off => cases op <;> simp [Instr.operands, Instr.opName, CmpOp.jumpName, CmpOp.opName] <;> decide
  | _ => simp [Instr.operands, Instr.opName] <;> decide

theorem drop_mid {α} (a : List α) (x : α) (m r : List α) : (a ++ x :: m ++ r).drop (a.length + 1) = m ++ r := by
  have : a ++ x :: m ++ r = (a ++ [x]) ++ (m ++ r) := by simp
  rw [this]
  exact List.drop_left' (by simp)

theorem drop_mid2 {α} (a : List α) (x : α) (m r : List α) : (a ++ x :: m ++ r).drop (a.length + 1 + m.length) = r := by
  have : a ++ x :: m ++ r = (a ++ [x] ++ m) ++ r := by simp
  rw [this]
  exact List.drop_left' (by simp; omega)

/-- the decoder at the start of an encoded instruction -/
theorem decode_encoded (t : Tables) (tb : C01.Tables) (cx : Ctx) (P Q : C01.Code) (i : C01.Instr)
    (hO : tb.opcodes = Opcodes.opcodes) (hA : tb.augOps = Opcodes.augOps) (hF : Fits t tb cx i)
    (hJ : JumpIn i (csize P) (csize (P ++ i :: Q))) :
    decode t cx (encode tb (P ++ i :: Q)) (csize P) = some (toI i (csize P)) := by
  obtain ⟨k, hk1, hk2⟩ := opName_lookup i
  have hcount := operandCount_opName tb i (by intro f n a h; subst h; exact hF)
  have hlen := encode_length tb P
  have hcode : encode tb (P ++ i :: Q) = encode tb P ++ ((k : Int) :: i.operands tb) ++ encode tb Q := by
    rw [encode_append, encode_cons, hO, hk1]; simp
  have hL : (encode tb (P ++ i :: Q)).length = csize (P ++ i :: Q) := encode_length tb _
  have hget : (encode tb (P ++ i :: Q))[csize P]? = some (k : Int) := by
    rw [hcode, ← hlen]; simp
  have hargs : ((encode tb (P ++ i :: Q)).drop (csize P + 1)).take (i.operands tb).length = i.operands tb := by
    rw [hcode, ← hlen, drop_mid]; exact List.take_left' rfl
  have hrest : (encode tb (P ++ i :: Q)).drop (csize P + 1 + (i.operands tb).length) = encode tb Q := by
    rw [hcode, ← hlen, drop_mid2]
  have hfit : ¬ (csize P + 1 + (i.operands tb).length > (encode tb (P ++ i :: Q)).length) := by
    rw [hL]; have := operands_length tb i; simp only [csize_append, csize_cons]; omega
  unfold decode
  rw [hget]
  simp only [Int.natCast_nonneg, Int.toNat_natCast, hk2, hcount, hfit, if_false]
  rw [if_neg (by omega), hargs, hrest, hL]
  exact decodeNamed_enc t tb cx _ _ _ i hA hF hJ

/-- The scan heights are a certificate for the encoded block. -/
theorem encode_certified (t : Tables) (tb : C01.Tables) (cx : Ctx) (il : Bool) (C : C01.Code) (endH : Nat)
    (hO : tb.opcodes = Opcodes.opcodes) (hA : tb.augOps = Opcodes.augOps) (hF : ∀ i ∈ C, Fits t tb cx i)
    (hT : Ty.Typed C 0 endH) :
    checkBlock t cx il endH (encode tb C) (heightsOf C) (fun _ => false) = true := by
  have hAg : Ty.Agree (Ty.env C 0) 0 C 0 := fun x _ _ => by simp
  obtain ⟨hLoc, hExit⟩ := hT (Ty.env C 0) 0 hAg
  have hL := encode_length tb C
  simp only [checkBlock, Bool.and_eq_true, decide_eq_true_eq, beq_iff_eq, Bool.or_eq_true, List.all_eq_true, List.mem_range]
  refine ⟨⟨⟨by simp [heightsOf, hL], by rw [hAt_heightsOf]; simp⟩, Or.inr (by rw [hAt_heightsOf, hL, Ty.env_end, hExit])⟩, ?_⟩
  intro pc hpc
  unfold checkAt
  rw [hAt_heightsOf]
  cases he : Ty.env C 0 (pc : Int) with
  | none => rfl
  | some h =>
    obtain ⟨P, Q, rfl, hP, hPh⟩ := env_some_split C 0 pc h he
    cases Q with
    | nil => simp only [List.append_nil] at hpc hL; omega
    | cons i Q =>
      have hLoc' := (Ty.Loc_append _ P (i :: Q) 0 0).1 hLoc
      rw [hPh] at hLoc'
      obtain ⟨hneed, hjmp, _⟩ := hLoc'.2
      have hnext : Ty.env (P ++ i :: Q) 0 ((pc + i.size : Nat) : Int) = some (Ty.after i h) := by
        have := Ty.env_prefix (P ++ [i]) Q 0
        simp only [List.append_assoc, List.singleton_append, csize_append, csize_cons, csize_nil, Ty.exitH_append, Ty.exitH_cons,
          Ty.exitH_nil, hPh, hP] at this
        simpa using this
      have hJ : JumpIn i (csize P) (csize (P ++ i :: Q)) := by
        unfold JumpIn
        cases hs : Ty.sh i with
        | jmp p c off =>
          rw [hs] at hjmp
          simp only at hjmp
          have := Ty.env_some_range _ _ _ _ hjmp
          simp only
          push_cast at this ⊢
          omega
        | _ => trivial
      rw [← hP, decode_encoded t tb cx P Q i hO hA (hF i (by simp)) hJ]
      unfold toI
      cases hs : Ty.sh i with
      | simple p q =>
        simp only [Ty.needs, hs] at hneed
        simp only [Bool.and_eq_true, decide_eq_true_eq, beq_iff_eq]
        refine ⟨hneed, ?_⟩
        rw [hAt_heightsOf, hP, hnext]
        simp [Ty.after, hs]
      | jmp p c off =>
        simp only [Ty.needs, hs] at hneed
        rw [hs] at hjmp
        simp only at hjmp
        have hrange := Ty.env_some_range _ _ _ _ hjmp
        simp only [Bool.and_eq_true, decide_eq_true_eq, beq_iff_eq, Bool.or_eq_true, Bool.not_eq_true']
        refine ⟨⟨hneed, ?_⟩, ?_⟩
        · rw [hAt_heightsOf, Int.toNat_of_nonneg (by push_cast at hrange ⊢; omega)]
          rw [← hjmp]; congr 1; push_cast; omega
        · cases c with
          | false => exact Or.inl rfl
          | true =>
            refine Or.inr ?_
            rw [hAt_heightsOf, hP, hnext]
            simp [Ty.after, hs]
      | halt p =>
        simp only [Ty.needs, hs] at hneed
        simpa using hneed

/-- Hence the machine started on the encoded block is in a good state, and stays so. -/
theorem encoded_block_good (t : Tables) (tb : C01.Tables) (C : C01.Code) (endH : Nat)
    (hO : tb.opcodes = Opcodes.opcodes) (hA : tb.augOps = Opcodes.augOps) (hF : ∀ i ∈ C, Fits t tb topCtx i)
    (hT : Ty.Typed C 0 endH) : Good t (initState (encode tb C) endH) := by
  have hcb := encode_certified t tb topCtx false C endH hO hA hF hT
  have h00 := (checkBlock_parts hcb).2.1
  exact ⟨_, _, rfl, .top _ 0 rfl rfl ⟨heightsOf C, fun _ => false, by simp, hcb, h00⟩⟩

end GoawkModel.C02
