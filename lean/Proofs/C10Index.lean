import GoawkModel.C10
import Proofs.C10Chars
namespace GoawkModel.C10
/-! ### index -/

theorem indexOf_some : ∀ (s t : Bytes) (i : Nat), indexOf s t = some i →
    t <+: s.drop i ∧ i ≤ s.length ∧ ∀ j, j < i → ¬ t <+: s.drop j := by
  intro s
  induction s with
  | nil =>
    intro t i h
    simp only [indexOf] at h
    split at h
    · cases h; subst t; simp
    · cases h
  | cons b s ih =>
    intro t i h
    simp only [indexOf] at h
    split at h
    · cases h
      rename_i hp
      exact ⟨by simpa using List.isPrefixOf_iff_prefix.mp hp, by simp, by intro j hj; omega⟩
    · rename_i hp
      cases h' : indexOf s t with
      | none => simp [h'] at h
      | some k =>
        simp only [h', Option.map_some, Option.some.injEq] at h
        subst h
        obtain ⟨h1, h2, h3⟩ := ih t k h'
        refine ⟨by simpa using h1, by simp; omega, ?_⟩
        intro j hj
        cases j with
        | zero => simpa using fun hh => hp (List.isPrefixOf_iff_prefix.mpr hh)
        | succ j => simpa using h3 j (by omega)

theorem indexOf_none : ∀ (s t : Bytes), indexOf s t = none → ∀ j, j ≤ s.length → ¬ t <+: s.drop j := by
  intro s
  induction s with
  | nil =>
    intro t h j hj
    simp only [indexOf] at h
    split at h
    · cases h
    · rename_i ht
      have : j = 0 := by simpa using hj
      subst this
      simpa using ht
  | cons b s ih =>
    intro t h j hj
    simp only [indexOf] at h
    split at h
    · cases h
    · rename_i hp
      cases h' : indexOf s t with
      | some k => simp [h'] at h
      | none =>
        cases j with
        | zero => simpa using fun hh => hp (List.isPrefixOf_iff_prefix.mpr hh)
        | succ j => simpa using ih t h' j (by simpa using hj)

theorem indexOf_split (s t : Bytes) (i : Nat) (h : indexOf s t = some i) :
    s = s.take i ++ t ++ s.drop (i + t.length) := by
  obtain ⟨⟨r, hr⟩, _, _⟩ := indexOf_some s t i h
  have : s.drop (i + t.length) = r := by
    rw [← List.drop_drop, ← hr]; simp
  rw [this, List.append_assoc, hr, List.take_append_drop]

/-! ### numbers -/

theorem trunc_intCast (z : Int) : trunc (z : Rat) = z := by
  by_cases h : (0 : Rat) ≤ (z : Rat)
  · simp only [trunc, h, if_true, Rat.floor_intCast]
  · simp only [trunc, h, if_false]
    rw [← Rat.intCast_neg, Rat.floor_intCast]; omega

theorem floatToInt_ofInt (z : Int) (h1 : minInt ≤ z) (h2 : z ≤ maxInt) : floatToInt (ofInt z) = z := by
  simp only [floatToInt, ofInt]
  by_cases a : (maxInt : Rat) ≤ (z : Rat)
  · simp only [a, if_true]
    have := Rat.intCast_le_intCast.mp a; omega
  · simp only [a, if_false]
    by_cases b : (z : Rat) ≤ (minInt : Rat)
    · simp only [b, if_true]
      have := Rat.intCast_le_intCast.mp b; omega
    · simp only [b, if_false, trunc_intCast]

theorem trunc_spec_nonneg (q : Rat) (h : 0 ≤ q) : ((trunc q : Int) : Rat) ≤ q ∧ q < ((trunc q + 1 : Int) : Rat) := by
  simp only [trunc, h, if_true]
  exact ⟨Rat.floor_le q, Rat.lt_floor_add_one q⟩

theorem trunc_spec_neg (q : Rat) (h : q < 0) : q ≤ ((trunc q : Int) : Rat) ∧ ((trunc q - 1 : Int) : Rat) < q := by
  have h' : ¬ (0 : Rat) ≤ q := Rat.not_le.mpr h
  simp only [trunc, h', if_false]
  have a := Rat.floor_le (-q)
  have b := Rat.lt_floor_add_one (-q)
  constructor
  · rw [Rat.intCast_neg]; grind
  · have e : (-(-q).floor - 1 : Int) = -((-q).floor + 1) := by omega
    rw [e, Rat.intCast_neg]; grind

/-- `int(x)` for finite x: truncation, provided x is an integer already when |x| ≥ 2^63 (every float64 is) -/
theorem awkInt_fin (q : Rat) (h : (q ≤ -(9223372036854775808 : Rat) ∨ (9223372036854775808 : Rat) ≤ q) → ∃ z : Int, q = (z : Rat)) :
    awkInt (.fin q) = .fin ((trunc q : Int) : Rat) := by
  simp only [awkInt]
  split
  · rfl
  · rename_i hc
    have : q ≤ -(9223372036854775808 : Rat) ∨ (9223372036854775808 : Rat) ≤ q := by
      by_cases h1 : -(9223372036854775808 : Rat) < q
      · right
        have : ¬ q < (9223372036854775808 : Rat) := fun h2 => hc ⟨h1, h2⟩
        exact Rat.not_lt.mp this
      · left; exact Rat.not_lt.mp h1
    obtain ⟨z, hz⟩ := h this
    rw [hz, trunc_intCast]

/-- a float64 with a fractional part has magnitude below 2^53 (so below 2^63) -/
theorem frac_small (m : Int) (d : Nat) (hd : 0 < d) (h1 : -9007199254740992 < m) (h2 : m < 9007199254740992) :
    -(9223372036854775808 : Rat) < (m : Rat) / (d : Rat) ∧ (m : Rat) / (d : Rat) < (9223372036854775808 : Rat) := by
  have hd1 : (1 : Rat) ≤ (d : Rat) := by
    have : ((1 : Nat) : Rat) ≤ ((d : Nat) : Rat) := Rat.natCast_le_natCast.mpr hd
    simpa using this
  have hd0 : (0 : Rat) < (d : Rat) := by grind
  have a : (m : Rat) < (9007199254740992 : Rat) := by
    have : (m : Rat) < ((9007199254740992 : Int) : Rat) := Rat.intCast_lt_intCast.mpr h2
    simpa using this
  have b : -(9007199254740992 : Rat) < (m : Rat) := by
    have : ((-9007199254740992 : Int) : Rat) < (m : Rat) := Rat.intCast_lt_intCast.mpr h1
    simpa using this
  have e1 : (9223372036854775808 : Rat) * 1 ≤ (9223372036854775808 : Rat) * (d : Rat) :=
    Rat.mul_le_mul_of_nonneg_left hd1 (by decide)
  constructor
  · have : (-(9223372036854775808 : Rat)) * (d : Rat) < (m : Rat) := by grind
    have h := (Rat.div_lt_iff (a := -(m : Rat)) (c := (9223372036854775808 : Rat)) hd0).mpr (by grind)
    have e : -(m : Rat) / (d : Rat) = -((m : Rat) / (d : Rat)) := by grind
    grind
  · exact (Rat.div_lt_iff hd0).mpr (by grind)

theorem awkInt_float64 (q : Rat) (h : IsFloat64Value q) : awkInt (.fin q) = .fin ((trunc q : Int) : Rat) := by
  apply awkInt_fin
  intro hbig
  rcases h with ⟨z, hz⟩ | ⟨m, e, h1, h2, hq⟩
  · exact ⟨z, hz⟩
  · have := frac_small m (2 ^ e) (Nat.pow_pos (by decide)) h1 h2
    rw [← hq] at this
    rcases hbig with hb | hb
    · exact absurd hb (Rat.not_le.mpr this.1)
    · exact absurd hb (Rat.not_le.mpr this.2)
end GoawkModel.C10
