import Proofs.C03Pos
/-! C03 — the invariant `Inv` is preserved by every loop and sub-scanner of the lexer model; a dangling exponent is un-read exactly. -/
namespace GoawkModel.C03
open GoawkModel
open GoawkModel.Generated.C03Lex

theorem inv_of_eq {src : Bytes} {s s' : St} (h : Inv src s) (h1 : s'.offset = s.offset) (h2 : s'.ch = s.ch)
    (h3 : s'.pos = s.pos) (h4 : s'.nextPos = s.nextPos) : Inv src s' := by
  rcases h with ⟨a, b', c, d, e⟩ | ⟨a, b', c, d⟩
  · exact Or.inl ⟨by omega, by omega, by rw [h2, h1]; exact c, by rw [h3, h1]; exact d, by rw [h4, h1]; exact e⟩
  · exact Or.inr ⟨by rw [h2]; exact a, by omega, by rw [h3]; exact c, by rw [h4]; exact d⟩

theorem inv_hadSpace {src : Bytes} {s : St} (b : Bool) (h : Inv src s) : Inv src { s with hadSpace := b } :=
  inv_of_eq h rfl rfl rfl rfl

theorem inv_lastTok {src : Bytes} {s : St} (t : Nat) (h : Inv src s) : Inv src { s with lastTok := t } :=
  inv_of_eq h rfl rfl rfl rfl

syntax "inv_step" : tactic
macro_rules
  | `(tactic| inv_step) => `(tactic| first | assumption | with_reducible apply next_inv | split | dsimp only)

theorem whileCh_inv {src : Bytes} (p : UInt8 → Bool) : ∀ (n : Nat) (s : St), Inv src s → Inv src (whileCh src p n s)
  | 0, _, h => h
  | n + 1, s, h => by
    unfold whileCh
    split
    · exact whileCh_inv p n _ (next_inv h)
    · exact h

theorem skipWs_inv {src : Bytes} : ∀ (n : Nat) (s : St), Inv src s → Inv src (skipWs src n s).1
  | 0, _, h => h
  | n + 1, s, h => by
    have h1 := inv_hadSpace (src := src) true h
    unfold skipWs
    repeat (first | with_reducible apply skipWs_inv n | inv_step)

theorem skipComment_inv {src : Bytes} (n : Nat) {s : St} (h : Inv src s) : Inv src (skipComment src n s) := by
  unfold skipComment
  repeat (first | with_reducible apply whileCh_inv | inv_step)

theorem uniDigits_inv {src : Bytes} : ∀ (k : Nat) (s : St) (r : Nat), Inv src s → Inv src (uniDigits src k s r).1
  | 0, _, _, h => h
  | k + 1, s, r, h => by
    unfold uniDigits
    repeat (first | with_reducible apply uniDigits_inv k | inv_step)

theorem octDigits_inv {src : Bytes} : ∀ (k : Nat) (s : St) (c : UInt8), Inv src s → Inv src (octDigits src k s c).1
  | 0, _, _, h => h
  | k + 1, s, c, h => by
    unfold octDigits
    repeat (first | with_reducible apply octDigits_inv k | inv_step)

theorem escHex_inv {src : Bytes} {s : St} (h : Inv src s) : Inv src (escHex src s).1 := by
  unfold escHex
  repeat inv_step

theorem escUni_inv {src : Bytes} {s : St} (h : Inv src s) : Inv src (escUni src s).1 := by
  unfold escUni
  repeat (first | with_reducible apply uniDigits_inv | inv_step)

theorem escape_inv {src : Bytes} {s : St} (h : Inv src s) : Inv src (escape src s).1 := by
  unfold escape
  repeat (first | with_reducible apply escHex_inv | with_reducible apply escUni_inv | with_reducible apply octDigits_inv | inv_step)

theorem parseString_inv {src : Bytes} (q : UInt8) : ∀ (n : Nat) (s : St) (acc : Bytes), Inv src s → Inv src (parseString src q n s acc).1
  | 0, _, _, h => h
  | n + 1, s, acc, h => by
    have he := escape_inv h
    unfold parseString
    repeat (first | with_reducible apply parseString_inv q n | inv_step)

theorem regexLoop_inv {src : Bytes} : ∀ (n : Nat) (s : St) (acc : Bytes), Inv src s → Inv src (regexLoop src n s acc).1
  | 0, _, _, h => h
  | n + 1, s, acc, h => by
    unfold regexLoop
    repeat (first | with_reducible apply regexLoop_inv n | inv_step)

theorem scanOp_inv {src : Bytes} {s : St} (d : Nat) (alts : List (Nat × Nat × List (Nat × Nat))) (h : Inv src s) :
    Inv src (scanOp src s d alts).1 := by
  unfold scanOp
  repeat inv_step

theorem whileCh_stop {src : Bytes} (p : UInt8 → Bool) (n : Nat) (s : St) (h : p s.ch = false) : whileCh src p n s = s := by
  cases n <;> simp [whileCh, h]

theorem inv_G_of_ne {src : Bytes} {s : St} (h : Inv src s) (hc : s.ch ≠ 0) : G src s := by
  rcases h with h | h
  · exact h
  · exact absurd h.ch hc

theorem scanMantissa_inv {src : Bytes} (fuel : Nat) (c : UInt8) {s : St} (h : Inv src s) : Inv src (scanMantissa src fuel c s).1 := by
  unfold scanMantissa
  repeat (first | with_reducible apply whileCh_inv | inv_step)

/-- a dangling exponent leaves the lexer exactly where it was at the `e` -/
theorem scanExponent_dangling {src : Bytes} (fuel : Nat) {s : St} (h : Inv src s) (he : s.ch = 101 ∨ s.ch = 69)
    (hd : isDigit (if (next src s).ch = 43 ∨ (next src s).ch = 45 then next src (next src s) else next src s).ch = false) :
    scanExponent src fuel s = s := by
  have h0 : s.ch ≠ 0 := by rcases he with he | he <;> simp [he]
  have h10 : s.ch ≠ 10 := by rcases he with he | he <;> simp [he]
  have h13 : s.ch ≠ 13 := by rcases he with he | he <;> simp [he]
  have hG := inv_G_of_ne h h0
  have hcond : (s.ch = 101 || s.ch = 69) = true := by rcases he with he | he <;> simp [he]
  unfold scanExponent
  simp only [hcond, if_true]
  by_cases hs : (next src s).ch = 43 ∨ (next src s).ch = 45
  · have hsb : ((next src s).ch = 43 || (next src s).ch = 45) = true := by rcases hs with hs | hs <;> simp [hs]
    simp only [hs, if_true] at hd
    simp only [hsb, if_true]
    rw [whileCh_stop _ _ _ hd]
    simp only [hd, Bool.not_false, if_true]
    have hG3 := (next_G hG h0).1
    have h30 : (next src s).ch ≠ 0 := by rcases hs with hs | hs <;> simp [hs]
    have h310 : (next src s).ch ≠ 10 := by rcases hs with hs | hs <;> simp [hs]
    have h313 : (next src s).ch ≠ 13 := by rcases hs with hs | hs <;> simp [hs]
    rw [unread_next hG3 h30 h310 h313, unread_next hG h0 h10 h13]
  · have hsb : ((next src s).ch = 43 || (next src s).ch = 45) = false := by
      simp only [not_or] at hs; simp [hs.1, hs.2]
    simp only [hs, if_false] at hd
    simp only [hsb, if_false, Bool.false_eq_true]
    rw [whileCh_stop _ _ _ hd]
    simp only [hd, Bool.not_false, if_true]
    rw [unread_next hG h0 h10 h13]

theorem scanExponent_inv {src : Bytes} (fuel : Nat) {s : St} (h : Inv src s) : Inv src (scanExponent src fuel s) := by
  by_cases he : s.ch = 101 ∨ s.ch = 69
  · by_cases hd : isDigit (if (next src s).ch = 43 ∨ (next src s).ch = 45 then next src (next src s) else next src s).ch = false
    · rw [scanExponent_dangling fuel h he hd]; exact h
    · have hcond : (s.ch = 101 || s.ch = 69) = true := by rcases he with he | he <;> simp [he]
      have hd' : isDigit (if (next src s).ch = 43 ∨ (next src s).ch = 45 then next src (next src s) else next src s).ch = true := by
        simpa using hd
      unfold scanExponent
      simp only [hcond, if_true]
      by_cases hs : (next src s).ch = 43 ∨ (next src s).ch = 45
      · have hsb : ((next src s).ch = 43 || (next src s).ch = 45) = true := by rcases hs with hs | hs <;> simp [hs]
        simp only [hs, if_true] at hd'
        simp only [hsb, if_true, hd', Bool.not_true, Bool.false_eq_true, if_false]
        exact whileCh_inv _ _ _ (next_inv (next_inv h))
      · have hsb : ((next src s).ch = 43 || (next src s).ch = 45) = false := by
          simp only [not_or] at hs; simp [hs.1, hs.2]
        simp only [hs, if_false] at hd'
        simp only [hsb, Bool.false_eq_true, if_false, hd', Bool.not_true]
        exact whileCh_inv _ _ _ (next_inv h)
  · have hcond : (s.ch = 101 || s.ch = 69) = false := by
      simp only [not_or] at he; simp [he.1, he.2]
    unfold scanExponent
    simp only [hcond, Bool.false_eq_true, if_false]
    exact h

end GoawkModel.C03
