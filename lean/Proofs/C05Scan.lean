import GoawkModel.C05
/-! C05 helper lemmas, syntactic layer: a text that Go's `readFloat` consumes entirely is re-read identically by GoAWK's
prefix scanner, also when ASCII blanks follow it. -/
namespace GoawkModel.C05
open GoawkModel

/-- what may follow the trimmed text inside the untrimmed string: nothing, or something that starts with an ASCII blank -/
def Stop (post : Bytes) : Prop := ∀ c, post.head? = some c → isAsciiSpace c = true

theorem space_facts {c : UInt8} (h : isAsciiSpace c = true) :
    isDigit c = false ∧ isHexDigit c = false ∧ isDot c = false ∧ isSign c = false ∧ isE c = false ∧ isP c = false := by
  simp [isAsciiSpace] at h
  rcases h with ((((h | h) | h) | h) | h) | h <;> subst h <;> decide

theorem takeWhile_append_stop {p : UInt8 → Bool} {post : Bytes} (h : ∀ c, post.head? = some c → p c = false) (s : Bytes) :
    (s ++ post).takeWhile p = s.takeWhile p := by
  induction s with
  | nil =>
    cases post with
    | nil => rfl
    | cons c rest => simp [List.takeWhile, h c rfl]
  | cons x xs ih => by_cases hx : p x <;> simp [List.takeWhile, hx, ih]

theorem dropWhile_append_stop {p : UInt8 → Bool} {post : Bytes} (h : ∀ c, post.head? = some c → p c = false) (s : Bytes) :
    (s ++ post).dropWhile p = s.dropWhile p ++ post := by
  induction s with
  | nil =>
    cases post with
    | nil => rfl
    | cons c rest => simp [List.dropWhile, h c rfl]
  | cons x xs ih => by_cases hx : p x <;> simp [List.dropWhile, hx, ih]

theorem optDot_append {post : Bytes} (h : ∀ c, post.head? = some c → isDot c = false) (r : Bytes) :
    optDot (r ++ post) = ((optDot r).1, (optDot r).2 ++ post) := by
  cases r with
  | nil =>
    cases post with
    | nil => rfl
    | cons c rest => simp [optDot, h c rfl]
  | cons x xs => by_cases hx : isDot x <;> simp [optDot, hx]

theorem optSign_append {post : Bytes} (h : ∀ c, post.head? = some c → isSign c = false) (r : Bytes) :
    optSign (r ++ post) = ((optSign r).1, (optSign r).2 ++ post) := by
  cases r with
  | nil =>
    cases post with
    | nil => rfl
    | cons c rest => simp [optSign, h c rfl]
  | cons x xs => by_cases hx : isSign x <;> simp [optSign, hx]

theorem optDot_parts (r : Bytes) : (optDot r).1 ++ (optDot r).2 = r := by
  cases r with
  | nil => rfl
  | cons x xs => by_cases hx : isDot x <;> simp [optDot, hx]

theorem optSign_parts (r : Bytes) : (optSign r).1 ++ (optSign r).2 = r := by
  cases r with
  | nil => rfl
  | cons x xs => by_cases hx : isSign x <;> simp [optSign, hx]

theorem tw_dw (p : UInt8 → Bool) (s : Bytes) : s.takeWhile p ++ s.dropWhile p = s := List.takeWhile_append_dropWhile

/-- decimal: accepted entirely by `readFloat` ⇒ the prefix scanner hands exactly that text to `strconv` -/
theorem decPrefix_of_readDec (sign s post : Bytes) (hp : Stop post) (h : readDec s = some []) :
    decPrefix sign (s ++ post) = .conv (sign ++ s) := by
  have hdg : ∀ c, post.head? = some c → isDigit c = false := fun c hc => (space_facts (hp c hc)).1
  have hdt : ∀ c, post.head? = some c → isDot c = false := fun c hc => (space_facts (hp c hc)).2.2.1
  have hsg : ∀ c, post.head? = some c → isSign c = false := fun c hc => (space_facts (hp c hc)).2.2.2.1
  have e1 := tw_dw isDigit s
  have e2 := optDot_parts (s.dropWhile isDigit)
  have e3 := tw_dw isDigit (optDot (s.dropWhile isDigit)).2
  unfold readDec at h
  unfold decPrefix
  simp only [takeWhile_append_stop hdg, dropWhile_append_stop hdg, optDot_append hdt] at h ⊢
  generalize s.takeWhile isDigit = d1 at *
  generalize s.dropWhile isDigit = r1 at *
  generalize (optDot r1).1 = dot at *
  generalize (optDot r1).2 = r2 at *
  generalize hd2 : r2.takeWhile isDigit = d2 at *
  generalize hr3 : r2.dropWhile isDigit = r3 at *
  by_cases hnd : (d1.isEmpty && d2.isEmpty) = true
  · simp [hnd] at h
  · simp only [hnd] at h ⊢
    have hs : s = d1 ++ dot ++ d2 ++ r3 := by rw [← e1, ← e2, ← e3]; simp
    cases r3 with
    | nil =>
      simp only [List.nil_append, List.append_nil] at hs ⊢
      cases post with
      | nil => simp [hs]
      | cons c rest =>
        have : isE c = false := (space_facts (hp c rfl)).2.2.2.2.1
        simp [this, hs]
    | cons c r4 =>
      simp only [List.cons_append] at h ⊢
      by_cases hc : isE c = true
      · simp only [hc, if_true] at h ⊢
        have e4 := optSign_parts r4
        have e5 := tw_dw isDigit (optSign r4).2
        simp only [optSign_append hsg, takeWhile_append_stop hdg]
        generalize (optSign r4).1 = es at *
        generalize (optSign r4).2 = r5 at *
        by_cases hd3 : (r5.takeWhile isDigit).isEmpty = true
        · simp [hd3] at h
        · simp only [hd3] at h ⊢
          simp at h
          rw [h] at e5
          simp at e5
          simp [hs, ← e4, e5]
      · simp [hc] at h

/-- hexadecimal with a `p` exponent -/
theorem hexPrefix_of_readHex (pre s post : Bytes) (hp : Stop post) (h : readHex s = some []) :
    hexPrefix pre (s ++ post) = .conv (pre ++ s) := by
  have hhx : ∀ c, post.head? = some c → isHexDigit c = false := fun c hc => (space_facts (hp c hc)).2.1
  have hdg : ∀ c, post.head? = some c → isDigit c = false := fun c hc => (space_facts (hp c hc)).1
  have hdt : ∀ c, post.head? = some c → isDot c = false := fun c hc => (space_facts (hp c hc)).2.2.1
  have hsg : ∀ c, post.head? = some c → isSign c = false := fun c hc => (space_facts (hp c hc)).2.2.2.1
  have e1 := tw_dw isHexDigit s
  have e2 := optDot_parts (s.dropWhile isHexDigit)
  have e3 := tw_dw isHexDigit (optDot (s.dropWhile isHexDigit)).2
  unfold readHex at h
  unfold hexPrefix
  simp only [takeWhile_append_stop hhx, dropWhile_append_stop hhx, optDot_append hdt] at h ⊢
  generalize s.takeWhile isHexDigit = d1 at *
  generalize s.dropWhile isHexDigit = r1 at *
  generalize (optDot r1).1 = dot at *
  generalize (optDot r1).2 = r2 at *
  generalize hd2 : r2.takeWhile isHexDigit = d2 at *
  generalize hr3 : r2.dropWhile isHexDigit = r3 at *
  by_cases hnd : (d1.isEmpty && d2.isEmpty) = true
  · simp [hnd] at h
  · simp only [hnd] at h ⊢
    have hs : s = d1 ++ dot ++ d2 ++ r3 := by rw [← e1, ← e2, ← e3]; simp
    cases r3 with
    | nil => simp at h
    | cons c r4 =>
      simp only [List.cons_append] at h ⊢
      by_cases hc : isP c = true
      · simp only [hc, if_true] at h ⊢
        have e4 := optSign_parts r4
        have e5 := tw_dw isDigit (optSign r4).2
        simp only [optSign_append hsg, takeWhile_append_stop hdg]
        generalize (optSign r4).1 = es at *
        generalize (optSign r4).2 = r5 at *
        by_cases hd3 : (r5.takeWhile isDigit).isEmpty = true
        · simp [hd3] at h
        · simp only [hd3] at h ⊢
          simp at h
          rw [h] at e5
          simp at e5
          simp [hs, ← e4, e5]
      · simp [hc] at h

end GoawkModel.C05

namespace GoawkModel.C05
open GoawkModel

theorem not_word_of_digit_or_dot {x : UInt8} (h : isDigit x = true ∨ isDot x = true) :
    (x == 110 || x == 78) = false ∧ (x == 105 || x == 73) = false := by
  have : x ≠ 110 ∧ x ≠ 78 ∧ x ≠ 105 ∧ x ≠ 73 := by
    refine ⟨?_, ?_, ?_, ?_⟩ <;> (intro hx; subst hx; revert h; decide)
  simp [this.1, this.2.1, this.2.2.1, this.2.2.2]

/-- a text `readFloat` (base 10) accepts starts with a digit or a dot -/
theorem readDec_head {s rest : Bytes} (h : readDec s = some rest) :
    ∃ x xs, s = x :: xs ∧ (isDigit x = true ∨ isDot x = true) := by
  cases s with
  | nil => simp [readDec, optDot] at h
  | cons x xs =>
    refine ⟨x, xs, rfl, ?_⟩
    by_cases hd : isDigit x = true
    · exact Or.inl hd
    · by_cases ht : isDot x = true
      · exact Or.inr ht
      · exfalso
        simp [readDec, List.takeWhile, List.dropWhile, hd, optDot, ht] at h

theorem words_false_of_head {x : UInt8} (xs : Bytes) (h : isDigit x = true ∨ isDot x = true) :
    hasNaNPrefix (x :: xs) = false ∧ hasInfPrefix (x :: xs) = false := by
  have := not_word_of_digit_or_dot h
  cases xs with
  | nil => simp [hasNaNPrefix, hasInfPrefix]
  | cons y ys =>
    cases ys with
    | nil => simp [hasNaNPrefix, hasInfPrefix]
    | cons z zs => simp [hasNaNPrefix, hasInfPrefix, this.1, this.2]

theorem hasHexPrefix_head {a b : UInt8} {rest : Bytes} (h : hasHexPrefix (a :: b :: rest) = true) : a = 48 ∧ isX b = true := by
  simpa [hasHexPrefix] using h

/-- a text that `readFloat` consumes entirely (decimal, or hexadecimal with a `p` exponent; optional sign) and that is
followed by nothing or by an ASCII blank is converted by the prefix scanner from exactly that text -/
theorem prefixCore_of_readFloat (t post : Bytes) (hp : Stop post) (h : readFloat t = some []) :
    prefixCore (t ++ post) = .conv t := by
  have hsg : ∀ c, post.head? = some c → isSign c = false := fun c hc => (space_facts (hp c hc)).2.2.2.1
  have e0 := optSign_parts t
  unfold readFloat at h
  unfold prefixCore
  simp only [optSign_append hsg]
  generalize (optSign t).1 = sign at *
  generalize (optSign t).2 = body at *
  subst e0
  match body, h with
  | a :: b :: c :: rest, h =>
    simp only [List.cons_append]
    by_cases hx : hasHexPrefix (a :: b :: c :: rest) = true
    · simp only [hx, if_true] at h
      obtain ⟨ha, hb⟩ := hasHexPrefix_head hx
      have hx' : hasHexPrefix (a :: b :: c :: (rest ++ post)) = true := by simpa [hasHexPrefix] using hx
      have hw := words_false_of_head (b :: c :: (rest ++ post)) (x := a) (Or.inl (by subst ha; decide))
      simp only [hw.1, hw.2, hx', if_true]
      have := hexPrefix_of_readHex (sign ++ [a, b]) (c :: rest) post hp h
      simpa using this
    · simp only [hx] at h
      obtain ⟨x, xs, hxs, hd⟩ := readDec_head h
      have hx' : hasHexPrefix (a :: b :: c :: (rest ++ post)) = false := by simpa [hasHexPrefix] using hx
      injection hxs with hxa _
      subst hxa
      have hw := words_false_of_head (b :: c :: (rest ++ post)) hd
      simp only [hw.1, hw.2, hx']
      have := decPrefix_of_readDec sign (a :: b :: c :: rest) post hp h
      simpa using this
  | [], h => simp at h
  | [a], h =>
    simp only [List.isEmpty_cons] at h
    obtain ⟨x, xs, hxs, hd⟩ := readDec_head h
    injection hxs with hxa _
    subst hxa
    have key := decPrefix_of_readDec sign [a] post hp h
    have hw := fun ys => words_false_of_head ys hd
    cases post with
    | nil => simpa [hw] using key
    | cons p1 post1 =>
      cases post1 with
      | nil => simpa [hw] using key
      | cons p2 post2 =>
        have hsp := space_facts (hp p1 rfl)
        have : hasHexPrefix (a :: p1 :: p2 :: post2) = false := by
          simp only [hasHexPrefix]
          have : isX p1 = false := by
            have h9 := hp p1 rfl
            simp [isAsciiSpace] at h9
            rcases h9 with ((((h9 | h9) | h9) | h9) | h9) | h9 <;> subst h9 <;> decide
          simp [this]
        simp only [List.cons_append, List.nil_append, hw, this]
        simpa using key
  | [a, b], h =>
    simp only [List.isEmpty_cons] at h
    obtain ⟨x, xs, hxs, hd⟩ := readDec_head h
    injection hxs with hxa _
    subst hxa
    have key := decPrefix_of_readDec sign [a, b] post hp h
    have hw := fun ys => words_false_of_head ys hd
    cases post with
    | nil => simpa [hw] using key
    | cons p1 post1 =>
      have : hasHexPrefix (a :: b :: p1 :: post1) = false := by
        by_cases hxx : hasHexPrefix (a :: b :: p1 :: post1) = true
        · exfalso
          obtain ⟨ha, hb⟩ := hasHexPrefix_head hxx
          subst ha
          simp [isX] at hb
          rcases hb with hb | hb <;> subst hb <;> simp [readDec, List.takeWhile, List.dropWhile, optDot, isDigit, isDot, isE] at h
        · simpa using hxx
      simp only [List.cons_append, List.nil_append, hw, this]
      simpa using key

end GoawkModel.C05

namespace GoawkModel.C05
open GoawkModel

theorem mem_takeWhile_imp {p : UInt8 → Bool} : ∀ (l : Bytes) (c : UInt8), c ∈ l.takeWhile p → p c = true
  | [], _, h => by simp at h
  | x :: xs, c, h => by
    by_cases hx : p x = true
    · simp [List.takeWhile, hx] at h
      rcases h with h | h
      · subst h; exact hx
      · exact mem_takeWhile_imp xs c h
    · simp [List.takeWhile, hx] at h

/-- the string after its leading blanks is the trimmed text followed by blanks only -/
theorem trim_decomp (s : Bytes) : ∃ post, s.dropWhile isAsciiSpace = trimAscii s ++ post ∧ Stop post := by
  refine ⟨((s.dropWhile isAsciiSpace).reverse.takeWhile isAsciiSpace).reverse, ?_, ?_⟩
  · unfold trimAscii
    rw [← List.reverse_append, List.takeWhile_append_dropWhile, List.reverse_reverse]
  · intro c hc
    have : c ∈ ((s.dropWhile isAsciiSpace).reverse.takeWhile isAsciiSpace).reverse := List.mem_of_mem_head? hc
    exact mem_takeWhile_imp _ c (List.mem_reverse.mp this)

theorem p0_stop_hex : ∀ c, p0.head? = some c → isHexDigit c = false := by
  intro c hc; simp [p0] at hc; subst hc; decide
theorem p0_stop_dot : ∀ c, p0.head? = some c → isDot c = false := by
  intro c hc; simp [p0] at hc; subst hc; decide

/-- hexadecimal without exponent: `parseFloat` appends `p0` before calling `strconv`, and so does the prefix scanner -/
theorem hexPrefix_of_readHex_p0 (pre s post : Bytes) (hp : Stop post) (hnp : hasP s = false)
    (h : readHex (s ++ p0) = some []) : hexPrefix pre (s ++ post) = .conv (pre ++ s ++ p0) := by
  have hhx : ∀ c, post.head? = some c → isHexDigit c = false := fun c hc => (space_facts (hp c hc)).2.1
  have hdt : ∀ c, post.head? = some c → isDot c = false := fun c hc => (space_facts (hp c hc)).2.2.1
  have e1 := tw_dw isHexDigit s
  have e2 := optDot_parts (s.dropWhile isHexDigit)
  have e3 := tw_dw isHexDigit (optDot (s.dropWhile isHexDigit)).2
  unfold readHex at h
  unfold hexPrefix
  simp only [takeWhile_append_stop hhx, dropWhile_append_stop hhx, optDot_append hdt,
    takeWhile_append_stop p0_stop_hex, dropWhile_append_stop p0_stop_hex, optDot_append p0_stop_dot] at h ⊢
  generalize s.takeWhile isHexDigit = d1 at *
  generalize s.dropWhile isHexDigit = r1 at *
  generalize (optDot r1).1 = dot at *
  generalize (optDot r1).2 = r2 at *
  generalize hd2 : r2.takeWhile isHexDigit = d2 at *
  generalize hr3 : r2.dropWhile isHexDigit = r3 at *
  by_cases hnd : (d1.isEmpty && d2.isEmpty) = true
  · simp [hnd] at h
  · simp only [hnd] at h ⊢
    have hs : s = d1 ++ dot ++ d2 ++ r3 := by rw [← e1, ← e2, ← e3]; simp
    cases r3 with
    | nil =>
      simp only [List.nil_append, List.append_nil] at hs ⊢
      cases post with
      | nil => simp [hs]
      | cons c rest =>
        have : isP c = false := (space_facts (hp c rfl)).2.2.2.2.2
        simp [this, hs]
    | cons c r4 =>
      exfalso
      have hc : isP c = false := by
        rw [hs] at hnp
        simp [hasP] at hnp
        exact hnp.2.2.2.1
      simp [hc] at h

theorem hasP_append (a b : Bytes) : hasP (a ++ b) = (hasP a || hasP b) := by simp [hasP]

/-- signed or unsigned hexadecimal without exponent, as rewritten by `parseFloat` -/
theorem prefixCore_of_readFloat_p0 (t post : Bytes) (hp : Stop post) (hnp : hasP t = false)
    (hx : hasHexPrefix (optSign t).2 = true) (h : readFloat (t ++ p0) = some []) :
    prefixCore (t ++ post) = .conv (t ++ p0) := by
  have hsg : ∀ c, post.head? = some c → isSign c = false := fun c hc => (space_facts (hp c hc)).2.2.2.1
  have hsg0 : ∀ c, p0.head? = some c → isSign c = false := by intro c hc; simp [p0] at hc; subst hc; decide
  have e0 := optSign_parts t
  unfold readFloat at h
  unfold prefixCore
  simp only [optSign_append hsg, optSign_append hsg0] at h ⊢
  generalize (optSign t).1 = sign at *
  generalize (optSign t).2 = body at *
  subst e0
  match body, hx, h with
  | [a, b], hx, h =>
    -- "0x" alone: `0xp0` is not accepted
    exfalso
    obtain ⟨ha, hb⟩ := hasHexPrefix_head hx
    have hx1 : hasHexPrefix [a, b, 112, 48] = true := by simpa [hasHexPrefix] using hx
    simp [p0, hx1, readHex, List.takeWhile, List.dropWhile, optDot, isHexDigit, isDot] at h
  | a :: b :: c :: rest, hx, h =>
    have hx1 : hasHexPrefix (a :: b :: c :: (rest ++ p0)) = true := by simpa [hasHexPrefix] using hx
    have hx2 : hasHexPrefix (a :: b :: c :: (rest ++ post)) = true := by simpa [hasHexPrefix] using hx
    simp only [List.cons_append, hx1, if_true] at h
    obtain ⟨ha, hb⟩ := hasHexPrefix_head hx
    have hw := words_false_of_head (b :: c :: (rest ++ post)) (x := a) (Or.inl (by subst ha; decide))
    simp only [List.cons_append, hw.1, hw.2, hx2, if_true]
    have hnp' : hasP (c :: rest) = false := by
      have : hasP (sign ++ ([a, b] ++ c :: rest)) = false := by simpa using hnp
      rw [hasP_append, hasP_append] at this
      simp at this
      exact this.2.2
    have := hexPrefix_of_readHex_p0 (sign ++ [a, b]) (c :: rest) post hp hnp' (by simpa using h)
    simpa using this
  | [], hx, _ => simp [hasHexPrefix] at hx
  | [a], hx, _ => simp [hasHexPrefix] at hx

end GoawkModel.C05

namespace GoawkModel.C05
open GoawkModel

set_option maxRecDepth 100000 in
theorem lower_cases_aux : ∀ n : Fin 256,
    (lowerASCII (UInt8.ofNat n.val) == 105) = (UInt8.ofNat n.val == 105 || UInt8.ofNat n.val == 73) ∧
    (lowerASCII (UInt8.ofNat n.val) == 110) = (UInt8.ofNat n.val == 110 || UInt8.ofNat n.val == 78) ∧
    (lowerASCII (UInt8.ofNat n.val) == 102) = (UInt8.ofNat n.val == 102 || UInt8.ofNat n.val == 70) ∧
    (lowerASCII (UInt8.ofNat n.val) == 97) = (UInt8.ofNat n.val == 97 || UInt8.ofNat n.val == 65) := by decide

theorem lower_cases (x : UInt8) :
    (lowerASCII x == 105) = (x == 105 || x == 73) ∧ (lowerASCII x == 110) = (x == 110 || x == 78) ∧
    (lowerASCII x == 102) = (x == 102 || x == 70) ∧ (lowerASCII x == 97) = (x == 97 || x == 65) := by
  have := lower_cases_aux ⟨x.toNat, UInt8.toNat_lt x⟩
  simpa using this

/-- three letters matching `inf` / `nan` case-insensitively are what `hasInfPrefix` / `hasNaNPrefix` test -/
theorem inf_of_commonPrefix (s post : Bytes) (h : 3 ≤ commonPrefixLen s infinityWord) :
    hasInfPrefix (s ++ post) = true ∧ hasNaNPrefix (s ++ post) = false := by
  match s, h with
  | x :: y :: z :: rest, h =>
    simp only [commonPrefixLen, infinityWord] at h
    by_cases h1 : (lowerASCII x == 105) = true
    · by_cases h2 : (lowerASCII y == 110) = true
      · by_cases h3 : (lowerASCII z == 102) = true
        · rw [(lower_cases x).1] at h1; rw [(lower_cases y).2.1] at h2; rw [(lower_cases z).2.2.1] at h3
          have hx : (x == 110 || x == 78) = false := by
            simp at h1 ⊢; rcases h1 with h1 | h1 <;> subst h1 <;> decide
          simp [hasInfPrefix, hasNaNPrefix, h1, h2, h3, hx]
        · simp [h1, h2, h3] at h
      · simp [h1, h2] at h
    · simp [h1] at h
  | [], h => simp [commonPrefixLen] at h
  | [x], h => simp [commonPrefixLen, infinityWord, nanWord] at h; split at h <;> omega
  | [x, y], h => simp [commonPrefixLen, infinityWord, nanWord] at h; split at h <;> (try split at h) <;> omega

theorem nan_of_commonPrefix (s post : Bytes) (h : commonPrefixLen s nanWord = 3) : hasNaNPrefix (s ++ post) = true := by
  match s, h with
  | x :: y :: z :: rest, h =>
    simp only [commonPrefixLen, nanWord] at h
    by_cases h1 : (lowerASCII x == 110) = true
    · by_cases h2 : (lowerASCII y == 97) = true
      · by_cases h3 : (lowerASCII z == 110) = true
        · rw [(lower_cases x).2.1] at h1; rw [(lower_cases y).2.2.2] at h2; rw [(lower_cases z).2.1] at h3
          simp [hasNaNPrefix, h1, h2, h3]
        · simp [h1, h2, h3] at h
      · simp [h1, h2] at h
    · simp [h1] at h
  | [], h => simp [commonPrefixLen] at h
  | [x], h => simp [commonPrefixLen, infinityWord, nanWord] at h; split at h <;> omega
  | [x, y], h => simp [commonPrefixLen, infinityWord, nanWord] at h; split at h <;> (try split at h) <;> omega

theorem specialInfLen_ge {s : Bytes} {n : Nat} (h : specialInfLen s = some n) : 3 ≤ commonPrefixLen s infinityWord := by
  unfold specialInfLen at h
  generalize commonPrefixLen s infinityWord = m at *
  by_cases hm : 3 < m ∧ m < 8
  · omega
  · have hm' : (decide (3 < m) && decide (m < 8)) = false := by
      simp only [Bool.and_eq_false_iff, decide_eq_false_iff_not]
      omega
    simp [hm'] at h
    omega

/-- the words `inf`, `infinity`, `nan` (any case, `inf…` optionally signed) that `strconv` accepts give the same special
value in the prefix scanner -/
theorem prefixCore_of_special (t post : Bytes) (r : Res) (n : Nat) (h : special t = some (r, n)) :
    prefixCore (t ++ post) = r := by
  cases t with
  | nil => simp [special] at h
  | cons c s =>
    unfold special at h
    unfold prefixCore
    by_cases hs : isSign c = true
    · simp only [hs, if_true] at h
      cases hl : specialInfLen s with
      | none => simp [hl] at h
      | some m =>
        simp [hl] at h
        have hw := inf_of_commonPrefix s post (specialInfLen_ge hl)
        simp [optSign, hs, hw.1, hw.2, h.1]
    · simp only [hs] at h
      have hos : optSign (c :: (s ++ post)) = ([], c :: (s ++ post)) := by simp [optSign, hs]
      by_cases hi : (c == 105 || c == 73) = true
      · simp only [hi, if_true] at h
        cases hl : specialInfLen (c :: s) with
        | none => simp [hl] at h
        | some m =>
          simp [hl] at h
          have hw := inf_of_commonPrefix (c :: s) post (specialInfLen_ge hl)
          simp only [List.cons_append] at hw
          simp [hos, hw.1, hw.2, h.1]
      · simp only [hi] at h
        by_cases hn : (c == 110 || c == 78) = true
        · simp only [hn, if_true] at h
          by_cases h3 : (commonPrefixLen (c :: s) nanWord == 3) = true
          · simp [h3] at h
            have hw := nan_of_commonPrefix (c :: s) post (by simpa using h3)
            simp only [List.cons_append] at hw
            simp [hos, hw, h.1]
          · simp [h3] at h
        · simp [hn] at h

end GoawkModel.C05

namespace GoawkModel.C05
open GoawkModel

theorem goParseFloat_prefix (ovf : Bytes → Bool) (t post : Bytes) (r : Res) (hp : Stop post)
    (h : goParseFloat ovf t = some r) : prefixCore (t ++ post) = r := by
  unfold goParseFloat at h
  cases hs : special t with
  | some rn =>
    obtain ⟨r', n⟩ := rn
    simp only [hs] at h
    by_cases hn : (n == t.length) = true
    · simp [hn] at h
      subst h
      exact prefixCore_of_special t post r' n hs
    · simp [hn] at h
  | none =>
    simp only [hs] at h
    cases hr : readFloat t with
    | none => simp [hr] at h
    | some rest =>
      cases rest with
      | cons x xs => simp [hr] at h
      | nil =>
        simp only [hr] at h
        by_cases ho : ovf t = true
        · simp [ho] at h
        · simp [ho] at h
          subst h
          exact prefixCore_of_readFloat t post hp hr

theorem special_none_of_zero (s : Bytes) : special (48 :: s) = none := by
  simp [special, isSign]

theorem specialInfLen_none_of_zero (s : Bytes) : specialInfLen (48 :: s) = none := by
  have : lowerASCII 48 = 48 := by decide
  simp [specialInfLen, commonPrefixLen, infinityWord, this]

theorem goParseFloat_p0_prefix (ovf : Bytes → Bool) (t post : Bytes) (r : Res) (hp : Stop post)
    (hnp : hasP t = false) (hx : hasHexPrefix (optSign t).2 = true)
    (h : goParseFloat ovf (t ++ p0) = some r) : prefixCore (t ++ post) = r := by
  have hspec : special (t ++ p0) = none := by
    have e0 := optSign_parts t
    cases t with
    | nil => simp [optSign, hasHexPrefix] at hx
    | cons c rest =>
      by_cases hs : isSign c = true
      · simp [optSign, hs] at hx
        cases rest with
        | nil => simp [hasHexPrefix] at hx
        | cons a rest2 =>
          cases rest2 with
          | nil => simp [hasHexPrefix] at hx
          | cons b rest3 =>
            obtain ⟨ha, _⟩ := hasHexPrefix_head hx
            subst ha
            simp [special, hs, specialInfLen_none_of_zero]
      · simp [optSign, hs] at hx
        cases rest with
        | nil => simp [hasHexPrefix] at hx
        | cons b rest3 =>
          obtain ⟨ha, _⟩ := hasHexPrefix_head hx
          subst ha
          exact special_none_of_zero _
  unfold goParseFloat at h
  simp only [hspec] at h
  cases hr : readFloat (t ++ p0) with
  | none => simp [hr] at h
  | some rest =>
    cases rest with
    | cons x xs => simp [hr] at h
    | nil =>
      simp only [hr] at h
      by_cases ho : ovf (t ++ p0) = true
      · simp [ho] at h
      · simp [ho] at h
        subst h
        exact prefixCore_of_readFloat_p0 t post hp hnp hx hr

theorem ite_none_some {α : Type} {b : Bool} {x : Option α} {r : α} (h : (if b = true then none else x) = some r) :
    x = some r := by
  cases b <;> simp_all

/-- `parseFloat` on the trimmed text `t` vs `parseFloatPrefix` on `t` followed by blanks -/
theorem whole_prefix_core (ovf : Bytes → Bool) (t post : Bytes) (r : Res) (hp : Stop post)
    (h : (match preprocess t with
          | none => some Res.nan
          | some t' => if t'.any isUnderscore then none else goParseFloat ovf t') = some r) :
    prefixCore (t ++ post) = r := by
  unfold preprocess at h
  cases t with
  | nil => simp [goParseFloat, special, readFloat, optSign] at h
  | cons c rest =>
    simp only [] at h
    by_cases hsr : (!rest.isEmpty && isSign c) = true
    · simp only [hsr, if_true] at h
      have hsc : isSign c = true := by simp at hsr; exact hsr.2
      by_cases hnan : (rest.length == 3 && hasNaNPrefix rest) = true
      · simp only [hnan, if_true] at h
        simp at h
        subst h
        simp at hnan
        match rest, hnan with
        | [x, y, z], hnan =>
          have : hasNaNPrefix (x :: y :: z :: post) = true := by simpa [hasNaNPrefix] using hnan.2
          simp [prefixCore, optSign, hsc, this]
      · simp only [hnan] at h
        by_cases hhex : (decide (rest.length > 2) && hasHexPrefix rest && !hasP (c :: rest)) = true
        · simp only [hhex, if_true] at h
          have h := ite_none_some h
          simp at hhex
          exact goParseFloat_p0_prefix ovf (c :: rest) post r hp (by simpa using hhex.2) (by simpa [optSign, hsc] using hhex.1.2) h
        · simp only [hhex] at h
          exact goParseFloat_prefix ovf (c :: rest) post r hp (ite_none_some h)
    · simp only [hsr] at h
      by_cases hhex : (decide ((c :: rest).length > 2) && hasHexPrefix (c :: rest) && !hasP (c :: rest)) = true
      · simp only [hhex, if_true] at h
        · have h := ite_none_some h
          simp at hhex
          have hc : isSign c = false := by
            cases rest with
            | nil => simp [hasHexPrefix] at hhex
            | cons b rest2 =>
              obtain ⟨ha, _⟩ := hasHexPrefix_head hhex.1.2
              subst ha; decide
          exact goParseFloat_p0_prefix ovf (c :: rest) post r hp (by simpa using hhex.2) (by simpa [optSign, hc] using hhex.1.2) h
      · simp only [hhex] at h
        exact goParseFloat_prefix ovf (c :: rest) post r hp (ite_none_some h)

/-- **whole_prefix_agree**: whenever `parseFloat` accepts a string (so that it is compared and truth-tested as a
number), `parseFloatPrefix` produces the same special value or hands exactly the same text to `strconv.ParseFloat`. -/
theorem whole_prefix_agree' (ovf : Bytes → Bool) (s : Bytes) (r : Res) (h : scanWhole ovf s = some r) :
    scanPrefix s = r := by
  obtain ⟨post, hd, hp⟩ := trim_decomp s
  unfold scanPrefix
  rw [hd]
  exact whole_prefix_core ovf (trimAscii s) post r hp h

end GoawkModel.C05
