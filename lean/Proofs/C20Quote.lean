import GoawkModel.C20Quote
/-!
C20, literal level: the printed form of a string literal (`quoteString`) and of a regex literal
(`formatRegex`) is read back by the lexer (`parseString` + end-quote check, `scanRegex`) as the original
value, whatever follows the literal.  Core Lean only (no Mathlib).

Main results: `quote_roundtrip` (every byte string, every `IsPrint` on the non-ASCII code points),
`regex_roundtrip` (every `RegexOk` string), `lexRegex_range` / `regexOk_iff_lexable` (`RegexOk` is exactly the
set of values `scanRegex` can return — the parser builds regex nodes only from `ScanRegex` output),
`regex_roundtrip_needs_ok` (outside that set the round trip does fail, e.g. `a\/b`).
-/
open GoawkModel GoawkModel.C20Quote
namespace GoawkModel.C20Quote

/-! ## regex literals -/

theorem lexRegex_cons (c : UInt8) (t : Bytes) : lexRegex (c :: t) =
    if c == 0x2f then some ([], t)
    else if c == 0 then none
    else if c == 0x0d || c == 0x0a then none
    else if c == 0x5c then
      match t with
      | [] => none
      | d :: t' =>
        if d == 0x2f then (lexRegex t').map fun p => (0x2f :: p.1, p.2)
        else (lexRegex t').map fun p => (0x5c :: d :: p.1, p.2)
    else (lexRegex t).map fun p => (c :: p.1, p.2) := by
  cases t <;> simp [lexRegex]

theorem regexOk_cons (c : UInt8) (t : Bytes) : regexOk (c :: t) =
    if c == 0x5c then
      match t with
      | [] => false
      | d :: t' => d != 0x2f && regexOk t'
    else c != 0 && c != 0x0d && c != 0x0a && regexOk t := by
  cases t <;> simp [regexOk]

theorem lexRegex_escape (r rest : Bytes) (h : regexOk r = true) :
    lexRegex (escapeSlashes r ++ 0x2f :: rest) = some (r, rest) := by
  induction r using regexOk.induct with
  | case1 => simp [escapeSlashes, lexRegex_cons]
  | case2 c hc => simp [regexOk, hc] at h
  | case3 c hc d t ih =>
    have hc' : c = 0x5c := by simpa using hc
    subst hc'
    simp [regexOk] at h
    obtain ⟨hd, ht⟩ := h
    simp [escapeSlashes, lexRegex_cons, hd, ih ht]
  | case4 c t hc ih =>
    simp [regexOk_cons, hc] at h
    obtain ⟨⟨⟨h0, h1⟩, h2⟩, ht⟩ := h
    have hc' : c ≠ 0x5c := by simpa using hc
    by_cases hs : c = 0x2f
    · subst hs
      simp [escapeSlashes, lexRegex_cons, ih ht]
    · simp [escapeSlashes, lexRegex_cons, hs, h0, h1, h2, hc', ih ht]

/-- C20, regex literals: every value the lexer can produce (`RegexOk`) is printed by `formatRegex` to a literal
that the lexer reads back as the same value, stopping right after the closing `/`. -/
theorem regex_roundtrip (r rest : Bytes) (h : RegexOk r) :
    lexRegex ((formatRegex r).tail ++ rest) = some (r, rest) := by
  simpa [formatRegex] using lexRegex_escape r rest h

/-- the regex reader only produces `RegexOk` values -/
theorem lexRegex_range (src r rest : Bytes) (h : lexRegex src = some (r, rest)) : RegexOk r := by
  unfold RegexOk
  induction src using lexRegex.induct generalizing r with
  | case1 => simp [lexRegex] at h
  | case2 c t hc =>
    simp [lexRegex_cons, hc] at h
    simp [h.1, regexOk]
  | case3 c t hc h0 => simp [lexRegex_cons, hc, h0] at h
  | case4 c t hc h0 hn => simp [lexRegex_cons, hc, h0, hn] at h
  | case5 c hc h0 hn hb => simp [lexRegex_cons, hc, h0, hn, hb] at h
  | case6 c hc h0 hn hb d t hd ih =>
    simp [lexRegex_cons, hc, h0, hn, hb, hd] at h
    obtain ⟨a, hab, rfl⟩ := h
    simp [regexOk_cons, ih a hab]
  | case7 c hc h0 hn hb d t hd ih =>
    simp [lexRegex_cons, hc, h0, hn, hb, hd] at h
    obtain ⟨a, hab, rfl⟩ := h
    have hb' : c = 0x5c := by simpa using hb
    have hd' : d ≠ 0x2f := by simpa using hd
    simp [regexOk_cons, hd', ih a hab]
  | case8 c t hc h0 hn hb ih =>
    simp [lexRegex_cons, hc, h0, hn, hb] at h
    obtain ⟨a, hab, rfl⟩ := h
    have hb' : c ≠ 0x5c := by simpa using hb
    have h0' : c ≠ 0 := by simpa using h0
    simp at hn
    simp [regexOk_cons, hb', h0', hn, ih a hab]

/-- after a `DIV_ASSIGN` token (`/=`) `scanRegex` starts with `=` already in the value: same as reading the `=`. -/
theorem lexRegex_divAssign (src : Bytes) :
    lexRegex (0x3d :: src) = (lexRegex src).map fun p => (0x3d :: p.1, p.2) := by
  simp [lexRegex_cons]

/-- `RegexOk` is exactly the range of the lexer's regex reader. -/
theorem regexOk_iff_lexable (r : Bytes) : RegexOk r ↔ ∃ src rest, lexRegex src = some (r, rest) :=
  ⟨fun h => ⟨_, [], regex_roundtrip r [] h⟩, fun ⟨src, rest, h⟩ => lexRegex_range src r rest h⟩

/-- the hypothesis of `regex_roundtrip` is needed: `a\/b` (never produced by the lexer: `\/` is read as `/`) is
printed as `/a\\/b/`, which reads back as `a\\` followed by garbage. -/
theorem regex_roundtrip_needs_ok :
    ¬ RegexOk [0x61, 0x5c, 0x2f, 0x62] ∧
    lexRegex ((formatRegex [0x61, 0x5c, 0x2f, 0x62]).tail ++ []) = some ([0x61, 0x5c, 0x5c], [0x62, 0x2f]) := by
  decide

-- non-vacuity: `a/b`, `\.` `\\` `\<newline>`, the empty regex
example : RegexOk [0x61, 0x2f, 0x62] := by decide
example : formatRegex [0x61, 0x2f, 0x62] = [0x2f, 0x61, 0x5c, 0x2f, 0x62, 0x2f] := by decide
example : lexRegex ([0x61, 0x5c, 0x2f, 0x62, 0x2f] ++ [0x20]) = some ([0x61, 0x2f, 0x62], [0x20]) := by decide
example : RegexOk [0x5c, 0x2e, 0x5c, 0x5c, 0x2f, 0x5c, 0x0a] := by decide
example : RegexOk [] := by decide
example : ¬ RegexOk [0x0a] := by decide
example : ¬ RegexOk [0x5c] := by decide
example : lexRegex [0x61, 0x0a, 0x2f] = none := by decide
example : lexRegex [0x61, 0x5c] = none := by decide

/-! ## string literals -/

theorem lexStringF_mono {f f' : Nat} {inp : Bytes} {x : Bytes × Bytes}
    (h : lexStringF f inp = some x) (hle : f ≤ f') : lexStringF f' inp = some x := by
  induction f generalizing f' inp x with
  | zero => simp [lexStringF] at h
  | succ f ih =>
    cases f' with
    | zero => omega
    | succ f' =>
      simp only [lexStringF] at h ⊢
      split <;> rename_i hs <;> simp only [hs] at h
      · exact h
      · rename_i out rest'
        cases hr : lexStringF f rest' with
        | none => simp [hr] at h
        | some y => rw [ih hr (by omega)]; simpa [hr] using h
      · exact h

/-- `Lex inp v rest`: the string reader, with fuel at most `length + 1`, reads value `v` and leaves `rest`. -/
def Lex (inp v rest : Bytes) : Prop := ∃ f, f ≤ inp.length + 1 ∧ lexStringF f inp = some (v, rest)

theorem Lex.toLexString {inp v rest : Bytes} (h : Lex inp v rest) : lexString inp = some (v, rest) := by
  obtain ⟨f, hf, h⟩ := h
  exact lexStringF_mono h hf

theorem Lex.done (rest : Bytes) : Lex (0x22 :: rest) [] rest :=
  ⟨1, by simp, by simp [lexStringF, step, peek]⟩

theorem Lex.ofStep {inp out tail v rest : Bytes} (hs : step inp = .emit out tail)
    (hlen : tail.length < inp.length) (h : Lex tail v rest) : Lex inp (out ++ v) rest := by
  obtain ⟨f, hf, h⟩ := h
  exact ⟨f + 1, by omega, by simp [lexStringF, hs, h]⟩

theorem hexDigitVal_hexLower : ∀ n : Fin 16, hexDigitVal (hexLower n.val) = some n.val := by decide

theorem step_hexEsc (b : UInt8) (tail : Bytes) : step (hexEsc b ++ tail) = .emit [b] tail := by
  have hb := UInt8.toNat_lt b
  have h1 := hexDigitVal_hexLower ⟨b.toNat / 16, by omega⟩
  have h2 := hexDigitVal_hexLower ⟨b.toNat % 16, by omega⟩
  simp only at h1 h2
  have h3 : UInt8.ofNat (b.toNat / 16 * 16 + b.toNat % 16) = b := by
    rw [Nat.div_add_mod']; exact UInt8.ofNat_toNat
  simp [step, hexEsc, peek, h1, h2, h3]

theorem Lex.ofHexEsc (b : UInt8) {tail v rest : Bytes} (h : Lex tail v rest) :
    Lex (hexEsc b ++ tail) (b :: v) rest :=
  Lex.ofStep (step_hexEsc b tail) (by simp [hexEsc]; omega) h

theorem Lex.ofHexEscs (l : Bytes) {tail v rest : Bytes} (h : Lex tail v rest) :
    Lex (l.flatMap hexEsc ++ tail) (l ++ v) rest := by
  induction l with
  | nil => simpa using h
  | cons b l ih => simpa using Lex.ofHexEsc b ih

/-- bytes the string reader copies through -/
def plain (c : UInt8) : Bool := c != 0x22 && c != 0 && c != 0x0d && c != 0x0a && c != 0x5c

theorem step_plain {c : UInt8} (hc : plain c = true) (tail : Bytes) : step (c :: tail) = .emit [c] tail := by
  simp [plain] at hc
  simp [step, peek, hc]

theorem Lex.ofPlain {c : UInt8} (hc : plain c = true) {tail v rest : Bytes} (h : Lex tail v rest) :
    Lex (c :: tail) (c :: v) rest :=
  Lex.ofStep (step_plain hc tail) (by simp) h

theorem Lex.ofPlains (l : Bytes) (hl : ∀ c ∈ l, plain c = true) {tail v rest : Bytes} (h : Lex tail v rest) :
    Lex (l ++ tail) (l ++ v) rest := by
  induction l with
  | nil => simpa using h
  | cons b l ih =>
    simp at hl
    simpa using Lex.ofPlain hl.1 (ih hl.2)

theorem Lex.esc2 (e c : UInt8) {tail v rest : Bytes} (hs : ∀ tail, step (0x5c :: e :: tail) = .emit [c] tail)
    (h : Lex tail v rest) : Lex (0x5c :: e :: tail) (c :: v) rest :=
  Lex.ofStep (hs tail) (by simp; omega) h


theorem ofNat_eq_of_toNat {b : UInt8} {n : Nat} (h : n = b.toNat) : UInt8.ofNat n = b := by
  subst h; exact UInt8.ofNat_toNat

theorem encodeRune_2 {r : Nat} {b0 b1 : UInt8} (h1 : 0x80 ≤ r) (h2 : r < 0x800)
    (e0 : 0xC0 + r / 64 = b0.toNat) (e1 : 0x80 + r % 64 = b1.toNat) : encodeRune r = [b0, b1] := by
  unfold encodeRune
  rw [if_neg (by omega), if_pos h2, ofNat_eq_of_toNat e0, ofNat_eq_of_toNat e1]

theorem encodeRune_3 {r : Nat} {b0 b1 b2 : UInt8} (h1 : 0x800 ≤ r) (h2 : r < 0x10000)
    (hv : r < 0xD800 ∨ 0xDFFF < r)
    (e0 : 0xE0 + r / 4096 = b0.toNat) (e1 : 0x80 + r / 64 % 64 = b1.toNat) (e2 : 0x80 + r % 64 = b2.toNat) :
    encodeRune r = [b0, b1, b2] := by
  have hv' : validRune r = true := by simp [validRune]; omega
  unfold encodeRune
  rw [if_neg (by omega), if_neg (by omega), hv', if_neg (by simp), if_pos h2,
    ofNat_eq_of_toNat e0, ofNat_eq_of_toNat e1, ofNat_eq_of_toNat e2]

theorem encodeRune_4 {r : Nat} {b0 b1 b2 b3 : UInt8} (h1 : 0x10000 ≤ r) (h2 : r ≤ 0x10FFFF)
    (e0 : 0xF0 + r / 262144 = b0.toNat) (e1 : 0x80 + r / 4096 % 64 = b1.toNat)
    (e2 : 0x80 + r / 64 % 64 = b2.toNat) (e3 : 0x80 + r % 64 = b3.toNat) :
    encodeRune r = [b0, b1, b2, b3] := by
  have hv' : validRune r = true := by simp [validRune]; omega
  unfold encodeRune
  rw [if_neg (by omega), if_neg (by omega), hv', if_neg (by simp), if_neg (by omega),
    ofNat_eq_of_toNat e0, ofNat_eq_of_toNat e1, ofNat_eq_of_toNat e2, ofNat_eq_of_toNat e3]

/-- what `decodeRune` returns on a non-empty input -/
inductive DecSpec (b0 : UInt8) (t : Bytes) : Nat → Nat → Prop
  | ascii : b0.toNat < 0x80 → DecSpec b0 t b0.toNat 1
  | bad : 0x80 ≤ b0.toNat → decodeRune [b0] = (runeError, 1) → DecSpec b0 t runeError 1
  | multi (r n : Nat) : 2 ≤ n → n ≤ t.length + 1 → 0x80 ≤ r → encodeRune r = (b0 :: t).take n →
      (∀ x ∈ (b0 :: t).take n, 0x80 ≤ x.toNat) → decodeRune ((b0 :: t).take n) = (r, n) → DecSpec b0 t r n

theorem decodeRune_single_bad {b0 : UInt8} (h : 0x80 ≤ b0.toNat) : decodeRune [b0] = (runeError, 1) := by
  have : ¬ b0.toNat < 0x80 := by omega
  simp only [decodeRune.eq_def, this, if_false]
  repeat' split
  all_goals rfl

theorem DecSpec.ite {b0 : UInt8} {t : Bytes} {c : Prop} [Decidable c] {p q : Nat × Nat}
    (hp : c → DecSpec b0 t p.1 p.2) (hq : DecSpec b0 t q.1 q.2) :
    DecSpec b0 t (if c then p else q).1 (if c then p else q).2 := by
  split
  · exact hp ‹_›
  · exact hq

theorem decodeRune_spec (b0 : UInt8) (t : Bytes) :
    DecSpec b0 t (decodeRune (b0 :: t)).1 (decodeRune (b0 :: t)).2 := by
  have hb0 := UInt8.toNat_lt b0
  by_cases h1 : b0.toNat < 0x80
  · simp only [decodeRune.eq_def, h1, if_true]; exact .ascii h1
  have hbad : DecSpec b0 t runeError 1 := .bad (by omega) (decodeRune_single_bad (by omega))
  by_cases h2 : b0.toNat < 0xC2
  · simp only [decodeRune.eq_def, h1, h2, if_true, if_false]; exact hbad
  by_cases h3 : b0.toNat < 0xE0
  · cases t with
    | nil => simp only [decodeRune.eq_def, h1, h2, h3, if_true, if_false]; exact hbad
    | cons b1 t' =>
      by_cases hc : isCont b1 = true
      · simp only [decodeRune.eq_def, h1, h2, h3, hc, if_true, if_false]
        simp [isCont] at hc
        refine .multi _ 2 (by omega) (by simp) (by omega) ?_ ?_ ?_
        · exact encodeRune_2 (by omega) (by omega) (by omega) (by omega)
        · simp; omega
        · simp [decodeRune.eq_def, h1, h2, h3, isCont, hc]
      · simp only [decodeRune.eq_def, h1, h2, h3, hc, if_true, if_false]; exact hbad
  by_cases h4 : b0.toNat < 0xF0
  · match t with
    | [] | [_] => simp only [decodeRune.eq_def, h1, h2, h3, h4, if_true, if_false]; exact hbad
    | b1 :: b2 :: t' =>
      simp only [decodeRune.eq_def, h1, h2, h3, h4, if_true, if_false]
      refine DecSpec.ite (fun hc => ?_) hbad
      · simp [isCont] at hc
        refine .multi _ 3 (by omega) (by simp) (by split at hc <;> omega) ?_ ?_ ?_
        · refine encodeRune_3 ?_ ?_ ?_ ?_ ?_ ?_ <;> (split at hc <;> split at hc <;> omega)
        · simp; split at hc <;> omega
        · simp [decodeRune.eq_def, h1, h2, h3, h4, isCont, hc]
  by_cases h5 : b0.toNat < 0xF5
  · match t with
    | [] | [_] | [_, _] => simp only [decodeRune.eq_def, h1, h2, h3, h4, h5, if_true, if_false]; exact hbad
    | b1 :: b2 :: b3 :: t' =>
      simp only [decodeRune.eq_def, h1, h2, h3, h4, h5, if_true, if_false]
      refine DecSpec.ite (fun hc => ?_) hbad
      · simp [isCont] at hc
        refine .multi _ 4 (by omega) (by simp) (by split at hc <;> omega) ?_ ?_ ?_
        · refine encodeRune_4 ?_ ?_ ?_ ?_ ?_ ?_ <;> (split at hc <;> split at hc <;> omega)
        · simp; split at hc <;> omega
        · simp [decodeRune.eq_def, h1, h2, h3, h4, h5, isCont, hc]
  simp only [decodeRune.eq_def, h1, h2, h3, h4, h5, if_false]; exact hbad


theorem plain_of_ge {x : UInt8} (h : 0x80 ≤ x.toNat) : plain x = true := by
  have e : ∀ k : UInt8, k.toNat < 0x80 → x ≠ k := fun k hk hx => by subst hx; omega
  simp [plain, e 0x22 (by decide), e 0 (by decide), e 0x0d (by decide), e 0x0a (by decide), e 0x5c (by decide)]

theorem Lex.ascii (p : Nat → Bool) (b0 : UInt8) (h : b0.toNat < 0x80) {tail v rest : Bytes}
    (hl : Lex tail v rest) : Lex (quoteChunk p [b0] ++ tail) (b0 :: v) rest := by
  have hd : decodeRune [b0] = (b0.toNat, 1) := by simp [decodeRune.eq_def, h]
  have conc : ∀ (k e : UInt8), b0.toNat = k.toNat → quoteChunk p [k] = [0x5c, e] →
      (∀ tail, step (0x5c :: e :: tail) = .emit [k] tail) →
      Lex (quoteChunk p [b0] ++ tail) (b0 :: v) rest := by
    intro k e hk hq hs
    have : b0 = k := UInt8.toNat_inj.1 hk
    subst this
    rw [hq]
    exact Lex.esc2 e b0 hs hl
  by_cases h22 : b0.toNat = 0x22
  · exact conc 0x22 0x22 h22 rfl (fun _ => by simp [step, peek])
  by_cases h5c : b0.toNat = 0x5c
  · exact conc 0x5c 0x5c h5c rfl (fun _ => by simp [step, peek])
  by_cases h07 : b0.toNat = 0x07
  · exact conc 0x07 0x61 h07 rfl (fun _ => by simp [step, peek])
  by_cases h08 : b0.toNat = 0x08
  · exact conc 0x08 0x62 h08 rfl (fun _ => by simp [step, peek])
  by_cases h0c : b0.toNat = 0x0c
  · exact conc 0x0c 0x66 h0c rfl (fun _ => by simp [step, peek])
  by_cases h0a : b0.toNat = 0x0a
  · exact conc 0x0a 0x6e h0a rfl (fun _ => by simp [step, peek])
  by_cases h0d : b0.toNat = 0x0d
  · exact conc 0x0d 0x72 h0d rfl (fun _ => by simp [step, peek])
  by_cases h09 : b0.toNat = 0x09
  · exact conc 0x09 0x74 h09 rfl (fun _ => by simp [step, peek])
  by_cases h0b : b0.toNat = 0x0b
  · exact conc 0x0b 0x76 h0b rfl (fun _ => by simp [step, peek])
  by_cases hpr : 0x20 ≤ b0.toNat ∧ b0.toNat ≤ 0x7e
  · have hq : quoteChunk p [b0] = [b0] := by
      simp [quoteChunk, strconvQuote1, hd, runeError, isPrint, encodeRune, h, hpr, h22, h5c]
      have h4 : b0.toNat ≠ 65533 := by omega
      simp [h4]
    rw [hq]
    have e : ∀ k : UInt8, b0.toNat ≠ k.toNat → b0 ≠ k := fun k hk hx => by subst hx; exact hk rfl
    refine Lex.ofPlain ?_ hl
    simp [plain, e 0x22 h22, e 0 (by simp; omega), e 0x0d h0d, e 0x0a h0a, e 0x5c h5c]
  · have hq : quoteChunk p [b0] = hexEsc b0 := by
      have : ¬ (0x20 ≤ b0.toNat ∧ b0.toNat ≤ 0x7e) := hpr
      have h3 : b0.toNat < 0x20 ∨ b0.toNat = 0x7f := by omega
      have h4 : b0.toNat ≠ runeError := by simp [runeError]; omega
      simp [quoteChunk, strconvQuote1, hd, isPrint, h, h22, h5c, h07, h08, h09, h0a, h0b, h0c, h0d, h3, h4, hexEsc, hpr]
    rw [hq]
    exact Lex.ofHexEsc b0 hl


theorem Lex.bad (p : Nat → Bool) (b0 : UInt8) (hd : decodeRune [b0] = (runeError, 1)) {tail v rest : Bytes}
    (hl : Lex tail v rest) : Lex (quoteChunk p [b0] ++ tail) (b0 :: v) rest := by
  have hq : quoteChunk p [b0] = hexEsc b0 := by
    simp [quoteChunk, strconvQuote1, hd, hexEsc]
  rw [hq]
  exact Lex.ofHexEsc b0 hl

theorem Lex.multi (p : Nat → Bool) (chunk : Bytes) (r n : Nat) (hn : 2 ≤ n) (hr : 0x80 ≤ r)
    (henc : encodeRune r = chunk) (hge : ∀ x ∈ chunk, 0x80 ≤ x.toNat) (hd : decodeRune chunk = (r, n))
    {tail v rest : Bytes} (hl : Lex tail v rest) : Lex (quoteChunk p chunk ++ tail) (chunk ++ v) rest := by
  have hn1 : n ≠ 1 := by omega
  have e : ∀ k, k < 0x80 → r ≠ k := fun k hk => by omega
  have hlt : ¬ r < 0x80 := by omega
  by_cases hp : p r = true
  · have hq : quoteChunk p chunk = chunk := by
      have : strconvQuote1 p chunk = chunk := by
        simp [strconvQuote1, hd, hn1, isPrint, hlt, hp, henc, e]
      unfold quoteChunk
      simp only [this]
      match chunk, hge with
      | [], _ => simp
      | b0 :: t, hge =>
        have : 0x80 ≤ b0.toNat := hge b0 (by simp)
        have : b0 ≠ 0x5c := fun hx => by subst hx; simp at this
        simp [this]
    rw [hq]
    exact Lex.ofPlains chunk (fun c hc => plain_of_ge (hge c hc)) hl
  · have hq : quoteChunk p chunk = chunk.flatMap hexEsc := by
      unfold quoteChunk
      simp only [strconvQuote1, hd]
      simp [hn1, isPrint, hlt, hp, e]
      intro h1 h2
      have h32 : ¬ r < 32 := by omega
      by_cases hc : (if validRune r = true then r else runeError) < 65536 <;> simp [h32, hc] at h1 h2
    rw [hq]
    exact Lex.ofHexEscs chunk hl


/-- one iteration of the `quoteString` loop is read back as the rune's bytes -/
theorem Lex.chunk (p : Nat → Bool) (b0 : UInt8) (t : Bytes) {tail v rest : Bytes} (hl : Lex tail v rest) :
    1 ≤ (decodeRune (b0 :: t)).2 ∧
    Lex (quoteChunk p ((b0 :: t).take (decodeRune (b0 :: t)).2) ++ tail)
      ((b0 :: t).take (decodeRune (b0 :: t)).2 ++ v) rest := by
  have sp := decodeRune_spec b0 t
  generalize (decodeRune (b0 :: t)).1 = r at sp
  generalize (decodeRune (b0 :: t)).2 = n at sp
  cases sp with
  | ascii h => exact ⟨by omega, by simpa using Lex.ascii p b0 h hl⟩
  | bad h hd => exact ⟨by omega, by simpa using Lex.bad p b0 hd hl⟩
  | multi _ _ hn hlen hr henc hge hd => exact ⟨by omega, Lex.multi p _ r n hn hr henc hge hd hl⟩

theorem Lex.quoteBody (p : Nat → Bool) (rest : Bytes) :
    ∀ (f : Nat) (s : Bytes), s.length ≤ f → Lex (quoteBody p f s ++ 0x22 :: rest) s rest := by
  intro f
  induction f with
  | zero =>
    intro s hs
    have : s = [] := List.eq_nil_of_length_eq_zero (by omega)
    subst this
    simpa [C20Quote.quoteBody] using Lex.done rest
  | succ f ih =>
    intro s hs
    cases s with
    | nil => simpa [C20Quote.quoteBody] using Lex.done rest
    | cons b0 t =>
      have hn : 1 ≤ (decodeRune (b0 :: t)).2 := (Lex.chunk p b0 t (Lex.done [])).1
      have hrec := ih ((b0 :: t).drop (decodeRune (b0 :: t)).2)
      obtain ⟨_, hc⟩ := Lex.chunk p b0 t (hrec (by simp at hs ⊢; omega))
      simp only [C20Quote.quoteBody, List.append_assoc]
      rw [List.take_append_drop] at hc
      exact hc

/-- C20, string literals: for every byte string `s` (all 256 byte values, invalid UTF-8 included), every
printability predicate on the non-ASCII code points and every continuation `rest`, the lexer reads the printed
literal `quoteString(s)` back as exactly `s` and stops right after the closing quote. -/
theorem quote_roundtrip (printable : Nat → Bool) (s rest : Bytes) :
    lexString ((quote printable s).tail ++ rest) = some (s, rest) := by
  have h := (Lex.quoteBody printable rest s.length s (Nat.le_refl _)).toLexString
  simpa [quote] using h


-- non-vacuity / regression examples on tricky strings (`"`, `\`, NUL, DEL, a stray continuation byte, a
-- non-printable two-byte rune followed by a hex digit, U+E0001, a surrogate encoding, printable `€`)
example : quote (fun _ => false) [0x22, 0x5c, 0x00, 0x7f, 0x80] =
    [0x22, 0x5c, 0x22, 0x5c, 0x5c, 0x5c, 0x78, 0x30, 0x30, 0x5c, 0x78, 0x37, 0x66, 0x5c, 0x78, 0x38, 0x30, 0x22] := by
  decide
example : lexString ((quote (fun _ => false) [0x22, 0x5c, 0x00, 0x7f, 0x80]).tail ++ [0x3b]) =
    some ([0x22, 0x5c, 0x00, 0x7f, 0x80], [0x3b]) := by decide
example : quote (fun _ => false) [0xc2, 0x80, 0x61] =
    [0x22, 0x5c, 0x78, 0x63, 0x32, 0x5c, 0x78, 0x38, 0x30, 0x61, 0x22] := by decide
example : lexString ((quote (fun _ => false) [0xc2, 0x80, 0x61]).tail ++ []) = some ([0xc2, 0x80, 0x61], []) := by
  decide
example : lexString ((quote (fun _ => false) [0xf3, 0xa0, 0x80, 0x81]).tail ++ [0x31]) =
    some ([0xf3, 0xa0, 0x80, 0x81], [0x31]) := by decide
example : quote (fun r => r == 0x20ac) [0xe2, 0x82, 0xac, 0xed, 0xa0, 0x80] =
    [0x22, 0xe2, 0x82, 0xac, 0x5c, 0x78, 0x65, 0x64, 0x5c, 0x78, 0x61, 0x30, 0x5c, 0x78, 0x38, 0x30, 0x22] := by decide
example : lexString ((quote (fun r => r == 0x20ac) [0xe2, 0x82, 0xac, 0xed, 0xa0, 0x80]).tail ++ []) =
    some ([0xe2, 0x82, 0xac, 0xed, 0xa0, 0x80], []) := by decide
-- `\x01` followed by the digit `2`: printed `\x012`, the reader takes at most two hex digits
example : quote (fun _ => false) [0x01, 0x32] = [0x22, 0x5c, 0x78, 0x30, 0x31, 0x32, 0x22] := by decide
example : lexString [0x5c, 0x78, 0x30, 0x31, 0x32, 0x22] = some ([0x01, 0x32], []) := by decide
-- the reader itself: octal, `\u`, unknown escape, raw newline / NUL / missing end quote are errors
example : lexString [0x5c, 0x31, 0x32, 0x33, 0x34, 0x5c, 0x75, 0x65, 0x39, 0x7a, 0x5c, 0x2f, 0x22, 0x78] =
    some ([0x53, 0x34, 0xc3, 0xa9, 0x7a, 0x2f], [0x78]) := by decide
example : lexString [0x61, 0x0a, 0x22] = none := by decide
example : lexString [0x61, 0x00, 0x22] = none := by decide
example : lexString [0x61] = none := by decide
example : decodeRune [0xed, 0xa0, 0x80] = (0xFFFD, 1) := by decide
example : decodeRune [0xc0, 0x80] = (0xFFFD, 1) := by decide
example : decodeRune [0xf4, 0x90, 0x80, 0x80] = (0xFFFD, 1) := by decide
example : decodeRune [0xf3, 0xa0, 0x80, 0x81, 0x41] = (0xE0001, 4) := by decide

end GoawkModel.C20Quote
