import Proofs.C06Refine
/-! C06: the numeric reading of "NF is the number of fields" for histories that assign strings such as "3x" to NF. -/
namespace GoawkModel.C06
variable {ρ : Type} (M : ρ → Bytes → List (Nat × Nat))

/-- weaker invariant: the stored NF is *numerically* the number of fields (its text may be e.g. "3x") -/
def InvW (r : Rec ρ) : Prop := r.haveFields = true → r.numFields.val = .rat (r.fields.length : Int) 1

/-- observations agree, NF being compared as a number -/
def Out.numEq : Out → Out → Prop
  | .nf v, .nf v' => v.val = v'.val
  | o, o' => o = o'

theorem Out.numEq_refl (o : Out) : Out.numEq o o := by
  cases o <;> simp [Out.numEq]

theorem Out.numEq_of_eq {o o' : Out} (h : o = o') : Out.numEq o o' := h ▸ Out.numEq_refl o

/-- `NF = <string>` is allowed when the string's numeric value is an integer (e.g. "3x", " 2 ") -/
def NFArg.Integral : NFArg → Prop
  | .num _ => True
  | .str _ x => x = .rat (goInt x) 1

def Op.Integral : Op ρ → Prop
  | .setNF a => a.Integral
  | _ => True

theorem ensure_invW (r : Rec ρ) (h : InvW r) : InvW (ensure M r) := by
  unfold ensure; split
  · exact h
  · intro _; rfl

theorem nfStored_integral (a : NFArg) (hc : a.Integral) (hn : 0 ≤ goInt a.val) :
    (nfStored a (goInt a.val).toNat).val = .rat ((goInt a.val).toNat : Int) 1 := by
  cases a with
  | num x => rfl
  | str s x =>
    simp only [nfStored, NFArg.val, NFArg.Integral] at *
    have : ((goInt x).toNat : Int) = goInt x := Int.toNat_of_nonneg hn
    rw [this, ← hc]

theorem refines_step_num (r : Rec ρ) (op : Op ρ) (hinv : InvW r) (hc : op.Integral) :
    abs M (step M r op).1 = (specStep M (abs M r) op).1 ∧ Out.numEq (step M r op).2 (specStep M (abs M r) op).2 ∧
      InvW (step M r op).1 := by
  cases op with
  | setLine s t =>
    refine ⟨?_, Out.numEq_refl _, ?_⟩
    · simp [step, specStep, setLine, specSetLine, abs]
    · intro h; simp [step, setLine] at h
  | getField i =>
    simp only [step, specStep, getField, specGetField]
    by_cases h0 : floatToInt i = 0
    · simp [h0, hinv, Out.numEq]
    · simp only [h0, if_false]
      rw [ensure_fields]
      cases hr : resolveIdx (abs M r).fields.length (floatToInt i) with
      | none => simp [abs_ensure, ensure_invW M r hinv, Out.numEq]
      | some k =>
        simp only []
        cases hk : (abs M r).fields[k - 1]? <;> simp [abs_ensure, ensure_invW M r hinv, Out.numEq]
  | setField i v =>
    simp only [step, specStep, setField, specSetField]
    by_cases h0 : floatToInt i = 0
    · simp only [h0, if_true]
      refine ⟨?_, ?_, ?_⟩
      · simp [setLine, specSetLine, abs]
      · exact Out.numEq_refl _
      · intro h; simp [setLine] at h
    · simp only [h0, if_false]
      by_cases hbig : floatToInt i > maxFieldIndex
      · simp [hbig, hinv, Out.numEq]
      · simp only [hbig, if_false]
        rw [ensure_fields]
        cases hr : resolveIdx (abs M r).fields.length (floatToInt i) with
        | none => simp [abs_ensure, ensure_invW M r hinv, Out.numEq]
        | some k =>
          refine ⟨?_, ?_, ?_⟩
          · simp [abs, ensure_have, ensure_env]
          · exact Out.numEq_refl _
          · intro _; rfl
  | getNF =>
    simp only [step, specStep]
    refine ⟨abs_ensure M r, ?_, ensure_invW M r hinv⟩
    have := ensure_invW M r hinv (ensure_have M r)
    simp only [Out.numEq, this, ensure_fields, NFv.count]
  | setNF a =>
    simp only [step, specStep, setNF, specSetNF]
    by_cases hneg : goInt a.val < 0
    · simp [hneg, hinv, Out.numEq]
    · simp only [hneg, if_false]
      by_cases hbig : goInt a.val > maxFieldIndex
      · simp [hbig, hinv, Out.numEq]
      · simp only [hbig, if_false]
        refine ⟨?_, ?_, ?_⟩
        · simp [abs, ensure_have, ensure_env, ensure_fields]
        · exact Out.numEq_refl _
        · intro _
          simp only []
          rw [nfStored_integral a hc (by omega), resize_length]
  | setFS fs re =>
    simp only [step, specStep]
    split
    · exact ⟨rfl, Out.numEq_refl _, hinv⟩
    · refine ⟨?_, Out.numEq_refl _, hinv⟩
      simp [abs, splitFlds, setFSEnv]
  | setOFS s =>
    refine ⟨?_, Out.numEq_refl _, hinv⟩
    simp [step, specStep, abs, splitFlds]
    rfl
  | setOutMode m =>
    cases m with
    | invalid => refine ⟨?_, Out.numEq_refl _, hinv⟩; (simp [step, specStep, abs, splitFlds, setModeEnv]; rfl)
    | default => refine ⟨?_, Out.numEq_refl _, hinv⟩; (simp [step, specStep, abs, splitFlds, setModeEnv]; rfl)
    | csv sep => refine ⟨?_, Out.numEq_refl _, hinv⟩; (simp [step, specStep, abs, splitFlds, setModeEnv]; rfl)

theorem numEq_err {o : Out} {e : Err} (h : Out.numEq o (.err e)) : o = .err e := by
  cases o <;> simp [Out.numEq] at h ⊢ <;> exact h

theorem numEq_notErr {o o' : Out} (h : Out.numEq o o') (hne : ∀ e, o' ≠ .err e) : ∀ e, o ≠ .err e := by
  intro e he; subst he
  cases o' <;> simp [Out.numEq] at h
  exact hne _ rfl

def outsNumEq : List Out → List Out → Prop
  | [], [] => True
  | a :: as, b :: bs => Out.numEq a b ∧ outsNumEq as bs
  | _, _ => False

theorem run_cons_err (r : Rec ρ) (op : Op ρ) (ops : List (Op ρ)) (e : Err) (h : (step M r op).2 = .err e) :
    run M r (op :: ops) = [.err e] := by
  simp only [run, h]

theorem run_cons_ok (r : Rec ρ) (op : Op ρ) (ops : List (Op ρ)) (h : ∀ e, (step M r op).2 ≠ .err e) :
    run M r (op :: ops) = (step M r op).2 :: run M (step M r op).1 ops := by
  simp only [run]

theorem specRun_cons_err (s : Spec ρ) (op : Op ρ) (ops : List (Op ρ)) (e : Err) (h : (specStep M s op).2 = .err e) :
    specRun M s (op :: ops) = [.err e] := by
  simp only [specRun, h]

theorem specRun_cons_ok (s : Spec ρ) (op : Op ρ) (ops : List (Op ρ)) (h : ∀ e, (specStep M s op).2 ≠ .err e) :
    specRun M s (op :: ops) = (specStep M s op).2 :: specRun M (specStep M s op).1 ops := by
  simp only [specRun]

/-- any history whose string-typed NF assignments have integral values: same observations, NF compared numerically -/
theorem lift_run_num (r : Rec ρ) (ops : List (Op ρ)) (hinv : InvW r) (hc : ∀ op ∈ ops, op.Integral) :
    outsNumEq (run M r ops) (specRun M (abs M r) ops) := by
  induction ops generalizing r with
  | nil => simp [run, specRun, outsNumEq]
  | cons op ops ih =>
    obtain ⟨h1, h2, h3⟩ := refines_step_num M r op hinv (hc op (by simp))
    have ih' := ih (step M r op).1 h3 (fun o ho => hc o (by simp [ho]))
    rw [h1] at ih'
    by_cases herr : ∃ e, (specStep M (abs M r) op).2 = .err e
    · obtain ⟨e, he⟩ := herr
      rw [he] at h2
      rw [specRun_cons_err M _ op ops e he, run_cons_err M r op ops e (numEq_err h2)]
      simp [outsNumEq, Out.numEq]
    · have hne : ∀ e, (specStep M (abs M r) op).2 ≠ .err e := fun e he => herr ⟨e, he⟩
      rw [specRun_cons_ok M _ op ops hne, run_cons_ok M r op ops (numEq_notErr h2 hne)]
      exact ⟨h2, ih'⟩

theorem init_invW (rs : Bool) : InvW (Rec.init rs : Rec ρ) := by
  intro h; simp [Rec.init] at h

end GoawkModel.C06
