import Proofs.C04Parse
/-! C04 — `parse_all`: the level parsers read back every canonical stage-A tree (induction on the tree; a loop invariant
for the left-associative levels). -/
namespace GoawkModel.C04

theorem le_of_max_succ_left {a b n : Nat} (h : max a b + 1 ≤ n) : a ≤ n - 1 := by
  have := Nat.le_max_left a b; omega
theorem le_of_max_succ_right {a b n : Nat} (h : max a b + 1 ≤ n) : b ≤ n - 1 := by
  have := Nat.le_max_right a b; omega

theorem PA_atom (e : Expr) (t : Tok) (hr : render e = [t]) (hp : ∀ b ts, hd ts ≠ .lbracket → primaryF b (t :: ts) = .ok (e, ts))
    (hc : ∀ pc k, canon pc k e = true → k ≤ 15) : PA e := by
  intro n pc k rest _ hcan hf
  have hk := hc pc k hcan
  apply from_primary _ _ _ _ _ _ _ hf
  rw [hr]
  show primaryF _ (t :: rest) = _
  apply hp
  intro hl
  rw [hl] at hf
  simp [cl] at hf
  omega

theorem PA_num (i : Nat) : PA (.num i) :=
  PA_atom _ (.num i) rfl (fun _ _ _ => rfl) (fun pc k h => by simpa [canon] using h)

theorem PA_str (i : Nat) : PA (.str i) :=
  PA_atom _ (.str i) rfl (fun _ _ _ => rfl) (fun pc k h => by simpa [canon] using h)

theorem primary_var (b : Back) (a : Nat) (ts : List Tok) (h : hd ts ≠ .lbracket) :
    primaryF b (.name a :: ts) = .ok (.var a, ts) := by
  cases ts with
  | nil => rfl
  | cons t rest => cases t <;> first | rfl | (exfalso; exact h rfl)

theorem PA_var (i : Nat) : PA (.var i) :=
  PA_atom _ (.name i) rfl (fun b ts h => primary_var b i ts h) (fun pc k h => by simpa [canon] using h)

theorem PA_group (e : Expr) (ih : PA e) : PA (.group e) := by
  intro n pc k rest hd' hcan hf
  simp only [canon, Bool.and_eq_true, decide_eq_true_eq] at hcan
  simp only [depth] at hd'
  obtain ⟨m, rfl⟩ : ∃ m, n = m + 1 := ⟨n - 1, by omega⟩
  apply from_primary _ _ _ _ _ _ _ hf
  have h1 := ih m false 1 (.rparen :: rest) (by omega) hcan.2 (by simp [hd, cl])
  simp only [render, List.cons_append, List.append_assoc, List.nil_append, primaryF, ps_expr, h1]

theorem PA_unary (op : UOp) (e : Expr) (ih : PA e) : PA (.unary op e) := by
  intro n pc k rest hd' hcan hf
  simp only [canon, Bool.and_eq_true, decide_eq_true_eq] at hcan
  simp only [depth] at hd'
  obtain ⟨m, rfl⟩ : ∃ m, n = m + 1 := ⟨n - 1, by omega⟩
  apply from_primary _ _ _ _ _ _ _ hf
  have h1 := ih m pc 11 rest (by omega) hcan.2 (by have := cl_ne_eleven pc (hd rest); omega)
  cases op <;> simp only [render, uopTok, List.cons_append, primaryF, ps_pow11 m pc, h1, bindR_ok]

theorem PA_cond (c t f : Expr) (ihc : PA c) (iht : PA t) (ihf : PA f) : PA (.cond c t f) := by
  intro n pc k rest hd' hcan hf
  simp only [canon, Bool.and_eq_true, decide_eq_true_eq] at hcan
  obtain ⟨⟨⟨hk, hcc⟩, hct⟩, hcf⟩ := hcan
  simp only [depth] at hd'
  have hdc : depth c ≤ n - 1 := le_of_max_succ_left hd'
  have hdtf := le_of_max_succ_right hd'
  have hdt : depth t ≤ n - 1 := Nat.le_trans (Nat.le_max_left _ _) hdtf
  have hdf : depth f ≤ n - 1 := Nat.le_trans (Nat.le_max_right _ _) hdtf
  obtain ⟨m, rfl⟩ : ∃ m, n = m + 1 := ⟨n - 1, by omega⟩
  simp only [Nat.add_sub_cancel] at hdc hdt hdf
  have hrest : cl pc (hd rest) < 1 := by
    have := cl_ne_one pc (hd rest); omega
  apply descend' _ _ k 2 _ _ _ hk hf
  have h1 := ihc (m+1) pc 3 (.question :: (render t ++ .colon :: (render f ++ rest))) (by omega) hcc (by simp [hd, cl])
  have h2 := iht m false 1 (.colon :: (render f ++ rest)) hdt hct (by simp [hd, cl])
  have h3 := ihf m pc 1 rest hdf hcf hrest
  simp only [lv] at h1 ⊢
  simp only [condP, render, List.append_assoc, List.cons_append, h1, bindR_ok, condT, skipNl_render t false 1 _ hct,
    ps_expr, h2, skipNl_render f pc 1 _ hcf]
  cases pc
  · simp only [Bool.false_eq_true, if_false, h3, bindR_ok]
  · simp only [if_true, ps_printExpr, h3, bindR_ok]

theorem lv2_var_asg (b : Back) (pc : Bool) (a : Nat) (op : AOp) (X : List Tok) :
    lv b pc 2 (.name a :: .asg op :: X) = .ok (.var a, .asg op :: X) := by
  have h3 : lv b pc 3 (.name a :: .asg op :: X) = .ok (.var a, .asg op :: X) :=
    from_primary b pc 3 _ _ _ (primary_var b a _ (by simp [hd])) (by simp [hd, cl])
  simp only [lv] at h3 ⊢
  simp only [condP, h3, bindR_ok]
  rfl

theorem PA_assign (op : AOp) (l r : Expr) (ihr : PA r) : PA (.assign op l r) := by
  intro n pc k rest hd' hcan hf
  cases l <;> simp only [canon, Bool.and_eq_true, decide_eq_true_eq, Bool.false_eq_true] at hcan
  case var a =>
    obtain ⟨hk, hcr⟩ := hcan
    simp only [depth] at hd'
    have hdr : depth r ≤ n - 1 := le_of_max_succ_right hd'
    obtain ⟨m, rfl⟩ : ∃ m, n = m + 1 := ⟨n - 1, by omega⟩
    simp only [Nat.add_sub_cancel] at hdr
    have h3 := ihr m pc 1 rest hdr hcr (by omega)
    have h2 := lv2_var_asg (ps (m+1+1)) pc a op (render r ++ rest)
    apply descend' _ _ k 1 _ _ _ hk hf
    simp only [lv] at h2 ⊢
    simp only [assignP, render, List.cons_append, List.nil_append]
    cases pc
    · simp only [Bool.false_eq_true, if_false, getlineP, h2, bindR_ok, assignT, ps_expr, h3, Expr.isLValue, if_true]
    · simp only [if_true, h2, bindR_ok, assignT, ps_printExpr, h3, Expr.isLValue]

/-- one iteration of a `binaryLeft` loop over `op r` -/
theorem loopL_step (H : Parser) (isOp : Tok → Option BOp) (nl : Bool) (op : BOp) (tok : Tok) (l r : Expr) (X Y : List Tok)
    (res : Res) (hop : isOp tok = some op) (hX : (if nl then skipNl X else X) = X) (hr : H X = .ok (r, Y))
    (hlen : Y.length ≤ X.length)
    (hcont : ∀ m, Y.length ≤ m → loopL H isOp nl m (.binary op l r) Y = res) :
    ∀ m, (tok :: X).length ≤ m → loopL H isOp nl m l (tok :: X) = res := by
  intro m hm
  obtain ⟨m', rfl⟩ : ∃ m', m = m' + 1 := ⟨m - 1, by simp at hm; omega⟩
  simp only [loopL, hop, hX, hr]
  apply hcont
  simp at hm
  omega

theorem startOk_facts (pc : Bool) (t : Tok) (h : startOk t = true) : concatStart t = true ∧ cl pc t = 8 := by
  cases t <;> simp_all [startOk, concatStart, signStart, cl]

/-- the loop invariant step: a left-associative node at its own level -/
theorem PB_binary_eq (op : BOp) (l r : Expr) (ihlB : PB l) (ihrA : PA r)
    (n : Nat) (pc : Bool) (Y : List Tok) (res : Res) (hd' : depth (.binary op l r) ≤ n)
    (hl : LeftLevel op.prec) (hcan : canon pc op.prec (.binary op l r) = true) (hY : cl pc (hd Y) < op.prec + 1)
    (hcont : ∀ m, Y.length ≤ m → loopAt (ps (n+1)) pc op.prec m (.binary op l r) Y = res) :
    lv (ps (n+1)) pc op.prec (render (.binary op l r) ++ Y) = res := by
  simp only [canon, Bool.and_eq_true, decide_eq_true_eq] at hcan
  obtain ⟨⟨⟨⟨hs, _⟩, hcl⟩, hcr⟩, _⟩ := hcan
  obtain ⟨hlhs, hrhs, hops, htoks, hclt⟩ := left_facts pc op hs hl
  rw [hlhs] at hcl
  rw [hrhs] at hcr
  simp only [depth] at hd'
  have hdl : depth l ≤ n := by have := Nat.le_max_left (depth l) (depth r); omega
  have hdr : depth r ≤ n := by have := Nat.le_max_right (depth l) (depth r); omega
  have hr := ihrA n pc (op.prec + 1) Y hdr hcr hY
  have e1 : render (.binary op l r) ++ Y = render l ++ (op.tok :: (render r ++ Y)) := by
    simp only [render, htoks, List.append_assoc, List.cons_append, List.nil_append]
  rw [e1]
  apply ihlB n pc op.prec _ res hdl hl.loop hcl (by simp only [hd, hclt]; omega)
  simp only [loopAt_left _ _ _ hl] at hcont ⊢
  apply loopL_step _ _ _ op op.tok l r (render r ++ Y) Y res hops _ hr (by simp) hcont
  cases nlOf op.prec
  · rfl
  · simp only [if_true]; exact skipNl_render r pc _ Y hcr

/-- the loop invariant step of `concat()` -/
theorem PB_concat_eq (l r : Expr) (ihlB : PB l) (ihrA : PA r)
    (n : Nat) (pc : Bool) (Y : List Tok) (res : Res) (hd' : depth (.binary .concat l r) ≤ n)
    (hcan : canon pc 8 (.binary .concat l r) = true) (hY : cl pc (hd Y) < 9)
    (hcont : ∀ m, Y.length ≤ m → loopAt (ps (n+1)) pc 8 m (.binary .concat l r) Y = res) :
    lv (ps (n+1)) pc 8 (render (.binary .concat l r) ++ Y) = res := by
  simp only [canon, Bool.and_eq_true, decide_eq_true_eq] at hcan
  obtain ⟨⟨⟨⟨_, _⟩, hcl⟩, hcr⟩, hcat⟩ := hcan
  have hcl' : canon pc 8 l = true := hcl
  have hcr' : canon pc 9 r = true := hcr
  simp only [catOk, bne_self_eq_false, Bool.false_or] at hcat
  obtain ⟨hhd, _⟩ := hd_render_append r pc 9 Y hcr'
  obtain ⟨hcs, hc8⟩ := startOk_facts pc _ hcat
  simp only [depth] at hd'
  have hdl : depth l ≤ n := by have := Nat.le_max_left (depth l) (depth r); omega
  have hdr : depth r ≤ n := by have := Nat.le_max_right (depth l) (depth r); omega
  have hr := ihrA n pc 9 Y hdr hcr' hY
  have e1 : render (.binary .concat l r) ++ Y = render l ++ (render r ++ Y) := by
    simp only [render, bopToks, List.append_assoc, List.nil_append]
  rw [e1]
  apply ihlB n pc 8 _ res hdl (by simp [LoopLevel]) hcl' (by rw [hhd, hc8]; omega)
  intro m hm
  obtain ⟨t, ts, h1, _⟩ := render_hd r pc 9 hcr'
  have hlen : 1 ≤ (render r).length := by rw [h1]; simp
  obtain ⟨m', rfl⟩ : ∃ m', m = m' + 1 := ⟨m - 1, by simp at hm; omega⟩
  show loopC (lv (ps (n+1)) pc 9) (m'+1) l (render r ++ Y) = res
  simp only [lv] at hr
  simp only [loopC, hhd, hcs, if_true, lv, hr]
  apply hcont
  simp at hm
  omega

/-- the loop invariant step of `_in` -/
theorem PB_in_eq (e : Expr) (a : Nat) (ihB : PB e)
    (n : Nat) (pc : Bool) (Y : List Tok) (res : Res) (hd' : depth (.inArr e a) ≤ n)
    (hcan : canon pc 5 (.inArr e a) = true)
    (hcont : ∀ m, Y.length ≤ m → loopAt (ps (n+1)) pc 5 m (.inArr e a) Y = res) :
    lv (ps (n+1)) pc 5 (render (.inArr e a) ++ Y) = res := by
  simp only [canon, Bool.and_eq_true, decide_eq_true_eq] at hcan
  simp only [depth] at hd'
  have e1 : render (.inArr e a) ++ Y = render e ++ (.in_ :: .name a :: Y) := by
    simp only [render, List.append_assoc, List.cons_append, List.nil_append]
  rw [e1]
  apply ihB n pc 5 _ res (by omega) (by simp [LoopLevel]) hcan.2 (by simp [hd, cl])
  intro m hm
  obtain ⟨m', rfl⟩ : ∃ m', m = m' + 1 := ⟨m - 1, by simp at hm; omega⟩
  show loopIn (m'+1) e (.in_ :: .name a :: Y) = res
  simp only [loopIn]
  apply hcont
  simp at hm
  omega

theorem PA_inArr (e : Expr) (a : Nat) (ihB : PB e) : PA (.inArr e a) := by
  intro n pc k rest hd' hcan hf
  have hcan' := hcan
  simp only [canon, Bool.and_eq_true, decide_eq_true_eq] at hcan
  apply descend' _ _ k 5 _ _ _ hcan.1 hf
  apply PB_in_eq e a ihB n pc rest _ hd'
  · simp only [canon, Bool.and_eq_true, decide_eq_true_eq]; exact ⟨Nat.le_refl _, hcan.2⟩
  · intro m _
    show loopIn m _ rest = _
    apply loopIn_stop
    intro h
    rw [h] at hf
    simp [cl] at hf
    omega

theorem matchT_go (b : Back) (pc : Bool) (e : Expr) (neg : Bool) (X : List Tok) (h : isHead (hd X) = true) :
    matchT b pc e (.match_ neg :: X) =
      bindR (compareP b pc X) (fun r rest' => .ok (.binary (if neg then .notMatch else .match_) e r, rest')) := by
  simp only [matchT]
  split <;> simp_all [isHead]

theorem PA_binary (op : BOp) (l r : Expr) (ihlA : PA l) (ihlB : PB l) (ihrA : PA r) : PA (.binary op l r) := by
  intro n pc k rest hd' hcan hf
  have hcan' := hcan
  simp only [canon, Bool.and_eq_true, decide_eq_true_eq] at hcan
  obtain ⟨⟨⟨⟨hs, hk⟩, hcl⟩, hcr⟩, hcat⟩ := hcan
  apply descend' _ _ k op.prec _ _ _ hk hf
  rcases stageA_cases pc op hs with hl | rfl | ⟨c, rfl, hcmp, hclc⟩ | rfl | hm
  · -- left-associative levels: the loop invariant with an empty continuation
    apply PB_binary_eq op l r ihlB ihrA n pc rest _ hd' hl _ (by omega)
    · intro m _
      rw [loopAt_left _ _ _ hl]
      exact loopL_stop _ _ _ _ _ _ (opsOf_none pc op.prec (hd rest) (by omega))
    · simp only [canon, Bool.and_eq_true, decide_eq_true_eq]
      exact ⟨⟨⟨⟨hs, Nat.le_refl _⟩, hcl⟩, hcr⟩, hcat⟩
  · -- `^` (right-associative)
    simp only [depth] at hd'
    have hdl : depth l ≤ n := by have := Nat.le_max_left (depth l) (depth r); omega
    have hdr : depth r ≤ n - 1 := le_of_max_succ_right hd'
    obtain ⟨m, rfl⟩ : ∃ m, n = m + 1 := ⟨n - 1, by omega⟩
    simp only [Nat.add_sub_cancel] at hdr
    simp only [BOp.prec] at hk
    have h1 := ihlA (m+1) pc 13 (.pow :: (render r ++ rest)) hdl hcl (by simp [hd, cl])
    have h2 := ihrA m pc 12 rest hdr hcr (by omega)
    simp only [BOp.prec, lv] at h1 ⊢
    simp only [powP, render, bopToks, List.append_assoc, List.cons_append, List.nil_append, h1, bindR_ok, powT,
      ps_pow m pc, h2]
  · -- relational operators (non-associative)
    simp only [depth] at hd'
    have hdl : depth l ≤ n := by have := Nat.le_max_left (depth l) (depth r); omega
    have hdr : depth r ≤ n := by have := Nat.le_max_right (depth l) (depth r); omega
    simp only [BOp.prec] at hk
    have h1 := ihlA n pc 8 (.cmp c :: (render r ++ rest)) hdl hcl (by simp only [hd, hclc]; omega)
    have h2 := ihrA n pc 8 rest hdr hcr (by omega)
    simp only [BOp.prec, lv] at h1 h2 ⊢
    simp only [compareP, render, bopToks, List.append_assoc, List.cons_append, List.nil_append, h1, bindR_ok, compareT,
      hcmp, h2]
  · -- concatenation: the loop invariant of `concat()` with an empty continuation
    simp only [BOp.prec] at hk ⊢
    apply PB_concat_eq l r ihlB ihrA n pc rest _ hd' _ (by omega)
    · intro m _
      show loopC _ m _ rest = _
      apply loopC_stop
      have : cl pc (hd rest) < 8 := by omega
      cases hh : hd rest <;> first | rfl | (rw [hh] at this; simp [cl] at this)
    · simp only [canon, Bool.and_eq_true, decide_eq_true_eq]
      exact ⟨⟨⟨⟨hs, Nat.le_refl _⟩, hcl⟩, hcr⟩, hcat⟩
  · -- `~`, `!~` (non-associative)
    simp only [depth] at hd'
    have hdl : depth l ≤ n := by have := Nat.le_max_left (depth l) (depth r); omega
    have hdr : depth r ≤ n := by have := Nat.le_max_right (depth l) (depth r); omega
    have hp : op.prec = 6 ∧ op.lhs = 7 ∧ op.rhs = 7 := by rcases hm with rfl | rfl <;> simp [BOp.prec, BOp.lhs, BOp.rhs, BOp.assoc]
    rw [hp.1] at hk ⊢
    rw [hp.2.1] at hcl
    rw [hp.2.2] at hcr
    obtain ⟨hh1, hh2⟩ := hd_render_append r pc 7 rest hcr
    rw [← hh1] at hh2
    have h2 := ihrA n pc 7 rest hdr hcr (by omega)
    rcases hm with rfl | rfl
    · have h1 := ihlA n pc 7 (.match_ false :: (render r ++ rest)) hdl hcl (by simp [hd, cl])
      simp only [lv] at h1 h2 ⊢
      simp only [matchP, render, bopToks, List.append_assoc, List.cons_append, List.nil_append, h1, bindR_ok,
        matchT_go _ _ _ _ _ hh2, h2]
      rfl
    · have h1 := ihlA n pc 7 (.match_ true :: (render r ++ rest)) hdl hcl (by simp [hd, cl])
      simp only [lv] at h1 h2 ⊢
      simp only [matchP, render, bopToks, List.append_assoc, List.cons_append, List.nil_append, h1, bindR_ok,
        matchT_go _ _ _ _ _ hh2, h2]
      rfl

theorem canon_up (pc : Bool) (h : Nat) (e : Expr) (hl : LoopLevel h) (hc : canon pc h e = true)
    (hne : ∀ op l r, e = .binary op l r → op.prec ≠ h) (hni : ∀ e' a, e = .inArr e' a → h ≠ 5) :
    canon pc (h+1) e = true := by
  have h10 : h ≤ 10 := by rcases hl with rfl | rfl | rfl | rfl | rfl | rfl <;> omega
  have h3 : 3 ≤ h := by rcases hl with rfl | rfl | rfl | rfl | rfl | rfl <;> omega
  cases e with
  | num i => simp only [canon, decide_eq_true_eq] at hc ⊢; omega
  | var i => simp only [canon, decide_eq_true_eq] at hc ⊢; omega
  | str i => simp only [canon, decide_eq_true_eq] at hc ⊢; omega
  | group e => simp only [canon, Bool.and_eq_true, decide_eq_true_eq] at hc ⊢; exact ⟨by omega, hc.2⟩
  | unary op e => simp only [canon, Bool.and_eq_true, decide_eq_true_eq] at hc ⊢; exact ⟨by omega, hc.2⟩
  | binary op l r =>
    simp only [canon, Bool.and_eq_true, decide_eq_true_eq] at hc ⊢
    have := hne op l r rfl
    exact ⟨⟨⟨⟨hc.1.1.1.1, by omega⟩, hc.1.1.2⟩, hc.1.2⟩, hc.2⟩
  | cond c t f => simp only [canon, Bool.and_eq_true, decide_eq_true_eq] at hc; omega
  | assign op l r =>
    cases l <;> simp [canon] at hc
    omega
  | inArr e a =>
    simp only [canon, Bool.and_eq_true, decide_eq_true_eq] at hc ⊢
    have := hni e a rfl
    have : h ≠ 8 ∧ h ≠ 9 ∧ h ≠ 10 := by omega
    exact ⟨by rcases hl with rfl | rfl | rfl | rfl | rfl | rfl <;> omega, hc.2⟩
  | none => simp [canon] at hc
  | incr p d e => simp [canon] at hc
  | field e => simp [canon] at hc
  | index a i => simp [canon] at hc
  | getline c t f => simp [canon] at hc

theorem PB_of_PA' (e : Expr) (hA : PA e) (hne : ∀ op l r, e = .binary op l r → False) (hni : ∀ e' a, e = .inArr e' a → False) :
    PB e := by
  intro n pc h Y res hd' hl hc hY hcont
  exact PB_of_PA e hA n pc h Y res hd' hl
    (canon_up pc h e hl hc (fun op l r he => (hne op l r he).elim) (fun e' a he => (hni e' a he).elim)) hY hcont

/-- every level parser reads back every canonical tree, and the loop invariant of the looping levels -/
theorem parse_all (e : Expr) : PA e ∧ PB e := by
  induction e with
  | num i => exact ⟨PA_num i, PB_of_PA' _ (PA_num i) (by intro _ _ _ h; cases h) (by intro _ _ h; cases h)⟩
  | var i => exact ⟨PA_var i, PB_of_PA' _ (PA_var i) (by intro _ _ _ h; cases h) (by intro _ _ h; cases h)⟩
  | str i => exact ⟨PA_str i, PB_of_PA' _ (PA_str i) (by intro _ _ _ h; cases h) (by intro _ _ h; cases h)⟩
  | group e ih =>
    exact ⟨PA_group e ih.1, PB_of_PA' _ (PA_group e ih.1) (by intro _ _ _ h; cases h) (by intro _ _ h; cases h)⟩
  | unary op e ih =>
    exact ⟨PA_unary op e ih.1, PB_of_PA' _ (PA_unary op e ih.1) (by intro _ _ _ h; cases h) (by intro _ _ h; cases h)⟩
  | cond c t f ihc iht ihf =>
    exact ⟨PA_cond c t f ihc.1 iht.1 ihf.1,
      PB_of_PA' _ (PA_cond c t f ihc.1 iht.1 ihf.1) (by intro _ _ _ h; cases h) (by intro _ _ h; cases h)⟩
  | assign op l r _ ihr =>
    exact ⟨PA_assign op l r ihr.1, PB_of_PA' _ (PA_assign op l r ihr.1) (by intro _ _ _ h; cases h) (by intro _ _ h; cases h)⟩
  | binary op l r ihl ihr =>
    have hA := PA_binary op l r ihl.1 ihl.2 ihr.1
    refine ⟨hA, ?_⟩
    intro n pc h Y res hd' hl hc hY hcont
    by_cases heq : op.prec = h
    · subst heq
      have hs : op.stageA pc = true := by
        simp only [canon, Bool.and_eq_true] at hc; exact hc.1.1.1.1
      rcases stageA_cases pc op hs with hll | rfl | ⟨c, rfl, _, _⟩ | rfl | hm
      · exact PB_binary_eq op l r ihl.2 ihr.1 n pc Y res hd' hll hc hY hcont
      · simp [LoopLevel, BOp.prec] at hl
      · simp [LoopLevel, BOp.prec] at hl
      · exact PB_concat_eq l r ihl.2 ihr.1 n pc Y res hd' hc hY hcont
      · rcases hm with rfl | rfl <;> simp [LoopLevel, BOp.prec] at hl
    · exact PB_of_PA _ hA n pc h Y res hd' hl
        (canon_up pc h _ hl hc (by intro op' l' r' he; cases he; exact heq) (by intro _ _ he; cases he)) hY hcont
  | inArr e a ih =>
    have hA := PA_inArr e a ih.2
    refine ⟨hA, ?_⟩
    intro n pc h Y res hd' hl hc hY hcont
    by_cases heq : h = 5
    · subst heq
      exact PB_in_eq e a ih.2 n pc Y res hd' hc hcont
    · exact PB_of_PA _ hA n pc h Y res hd' hl
        (canon_up pc h _ hl hc (by intro _ _ _ he; cases he) (by intro _ _ _; exact heq)) hY hcont
  | none => exact ⟨by intro n pc k rest _ hc; simp [canon] at hc, by intro n pc h Y res _ _ hc; simp [canon] at hc⟩
  | incr p d e _ => exact ⟨by intro n pc k rest _ hc; simp [canon] at hc, by intro n pc h Y res _ _ hc; simp [canon] at hc⟩
  | field e _ => exact ⟨by intro n pc k rest _ hc; simp [canon] at hc, by intro n pc h Y res _ _ hc; simp [canon] at hc⟩
  | index a i _ => exact ⟨by intro n pc k rest _ hc; simp [canon] at hc, by intro n pc h Y res _ _ hc; simp [canon] at hc⟩
  | getline c t f _ _ _ =>
    exact ⟨by intro n pc k rest _ hc; simp [canon] at hc, by intro n pc h Y res _ _ hc; simp [canon] at hc⟩

end GoawkModel.C04
