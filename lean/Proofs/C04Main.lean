import Proofs.C04Parse
/-! C04 — `parse_all`: the level parsers read back every canonical stage-A tree (induction on the tree; a loop invariant
for the left-associative levels). -/
namespace GoawkModel.C04

theorem le_of_max_succ_left {a b n : Nat} (h : max a b + 1 ≤ n) : a ≤ n - 1 := by
  have := Nat.le_max_left a b; omega
theorem le_of_max_succ_right {a b n : Nat} (h : max a b + 1 ≤ n) : b ≤ n - 1 := by
  have := Nat.le_max_right a b; omega

theorem PA_atom (e : Expr) (t : Tok) (hr : render e = [t]) (hp : ∀ b ts, hd ts ≠ .lbracket → primaryF b (t :: ts) = .ok (e, ts))
    (hc : ∀ pc k, canon pc k e = true → k ≤ 15) : PA e := by
  intro n pc k rest _ hcan hf
  have hk := hc pc k hcan
  apply from_primary _ _ _ _ _ _ _ hf
  rw [hr]
  show primaryF _ (t :: rest) = _
  apply hp
  intro hl
  rw [hl] at hf
  simp [cl] at hf
  omega

theorem PA_num (i : Nat) : PA (.num i) :=
  PA_atom _ (.num i) rfl (fun _ _ _ => rfl) (fun pc k h => by simpa [canon] using h)

theorem PA_str (i : Nat) : PA (.str i) :=
  PA_atom _ (.str i) rfl (fun _ _ _ => rfl) (fun pc k h => by simpa [canon] using h)

theorem primary_var (b : Back) (a : Nat) (ts : List Tok) (h : hd ts ≠ .lbracket) :
    primaryF b (.name a :: ts) = .ok (.var a, ts) := by
  cases ts with
  | nil => rfl
  | cons t rest => cases t <;> first | rfl | (exfalso; exact h rfl)

theorem PA_var (i : Nat) : PA (.var i) :=
  PA_atom _ (.name i) rfl (fun b ts h => primary_var b i ts h) (fun pc k h => by simpa [canon] using h)

theorem PA_group (e : Expr) (ih : PA e) : PA (.group e) := by
  intro n pc k rest hd' hcan hf
  simp only [canon, Bool.and_eq_true, decide_eq_true_eq] at hcan
  simp only [depth] at hd'
  obtain ⟨m, rfl⟩ : ∃ m, n = m + 1 := ⟨n - 1, by omega⟩
  apply from_primary _ _ _ _ _ _ _ hf
  have h1 := ih m false 1 (.rparen :: rest) (by omega) hcan.2 (by simp [hd, cl])
  simp only [render, List.cons_append, List.append_assoc, List.nil_append, primaryF, ps_expr, h1]

theorem PA_unary (op : UOp) (e : Expr) (ih : PA e) : PA (.unary op e) := by
  intro n pc k rest hd' hcan hf
  simp only [canon, Bool.and_eq_true, decide_eq_true_eq] at hcan
  simp only [depth] at hd'
  obtain ⟨m, rfl⟩ : ∃ m, n = m + 1 := ⟨n - 1, by omega⟩
  apply from_primary _ _ _ _ _ _ _ hf
  have h1 := ih m pc 11 rest (by omega) hcan.2 (by have := cl_ne_eleven pc (hd rest); omega)
  cases op <;> simp only [render, uopTok, List.cons_append, primaryF, ps_pow11 m pc, h1, bindR_ok]

theorem PA_cond (c t f : Expr) (ihc : PA c) (iht : PA t) (ihf : PA f) : PA (.cond c t f) := by
  intro n pc k rest hd' hcan hf
  simp only [canon, Bool.and_eq_true, decide_eq_true_eq] at hcan
  obtain ⟨⟨⟨hk, hcc⟩, hct⟩, hcf⟩ := hcan
  simp only [depth] at hd'
  have hdc : depth c ≤ n - 1 := le_of_max_succ_left hd'
  have hdtf := le_of_max_succ_right hd'
  have hdt : depth t ≤ n - 1 := Nat.le_trans (Nat.le_max_left _ _) hdtf
  have hdf : depth f ≤ n - 1 := Nat.le_trans (Nat.le_max_right _ _) hdtf
  obtain ⟨m, rfl⟩ : ∃ m, n = m + 1 := ⟨n - 1, by omega⟩
  simp only [Nat.add_sub_cancel] at hdc hdt hdf
  have hrest : cl pc (hd rest) < 1 := by
    have := cl_ne_one pc (hd rest); omega
  apply descend' _ _ k 2 _ _ _ hk hf
  have h1 := ihc (m+1) pc 3 (.question :: (render t ++ .colon :: (render f ++ rest))) (by omega) hcc (by simp [hd, cl])
  have h2 := iht m false 1 (.colon :: (render f ++ rest)) hdt hct (by simp [hd, cl])
  have h3 := ihf m pc 1 rest hdf hcf hrest
  simp only [lv] at h1 ⊢
  simp only [condP, render, List.append_assoc, List.cons_append, h1, bindR_ok, condT, skipNl_render t false 1 _ hct,
    ps_expr, h2, skipNl_render f pc 1 _ hcf]
  cases pc
  · simp only [Bool.false_eq_true, if_false, h3, bindR_ok]
  · simp only [if_true, ps_printExpr, h3, bindR_ok]

theorem PA_assign (op : AOp) (l r : Expr) (ihl : PA l) (ihr : PA r) : PA (.assign op l r) := by
  intro n pc k rest hd' hcan hf
  simp only [canon, Bool.and_eq_true, decide_eq_true_eq] at hcan
  obtain ⟨⟨⟨hk, hlv⟩, hcl⟩, hcr⟩ := hcan
  simp only [depth] at hd'
  have hdl : depth l ≤ n := by have := Nat.le_max_left (depth l) (depth r); omega
  have hdr : depth r ≤ n - 1 := le_of_max_succ_right hd'
  obtain ⟨m, rfl⟩ : ∃ m, n = m + 1 := ⟨n - 1, by omega⟩
  simp only [Nat.add_sub_cancel] at hdr
  have h3 := ihr m pc 1 rest hdr hcr (by omega)
  -- the target is read by the `||` level and everything above it stops at the assignment operator
  have h14 := ihl (m+1) false 14 (.asg op :: (render r ++ rest)) hdl hcl (by simp [hd, cl])
  have h2 : lv (ps (m+1+1)) pc 2 (render l ++ .asg op :: (render r ++ rest)) = .ok (l, .asg op :: (render r ++ rest)) := by
    have h3' := from_primary (ps (m+1+1)) pc 3 _ _ _ h14 (by simp [hd, cl])
    simp only [lv] at h3' ⊢
    simp only [condP, h3', bindR_ok]
    rfl
  apply descend' _ _ k 1 _ _ _ hk hf
  simp only [lv] at h2 ⊢
  simp only [assignP, render, List.append_assoc, List.cons_append, List.nil_append]
  cases pc
  · simp only [Bool.false_eq_true, if_false, getlineP, h2, bindR_ok, assignT, ps_expr, h3, hlv, if_true]
  · simp only [if_true, h2, bindR_ok, assignT, ps_printExpr, h3, hlv]

/-- one iteration of a `binaryLeft` loop over `op r` -/
theorem loopL_step (H : Parser) (isOp : Tok → Option BOp) (nl : Bool) (op : BOp) (tok : Tok) (l r : Expr) (X Y : List Tok)
    (res : Res) (hop : isOp tok = some op) (hX : (if nl then skipNl X else X) = X) (hr : H X = .ok (r, Y))
    (hlen : Y.length ≤ X.length)
    (hcont : ∀ m, Y.length ≤ m → loopL H isOp nl m (.binary op l r) Y = res) :
    ∀ m, (tok :: X).length ≤ m → loopL H isOp nl m l (tok :: X) = res := by
  intro m hm
  obtain ⟨m', rfl⟩ : ∃ m', m = m' + 1 := ⟨m - 1, by simp at hm; omega⟩
  simp only [loopL, hop, hX, hr]
  apply hcont
  simp at hm
  omega

theorem startOk_facts (pc : Bool) (t : Tok) (h : startOk t = true) : concatStart t = true ∧ cl pc t = 8 := by
  cases t <;> simp_all [startOk, concatStart, signStart, cl]

/-- the loop invariant step: a left-associative node at its own level -/
theorem PB_binary_eq (op : BOp) (l r : Expr) (ihlB : PB l) (ihrA : PA r)
    (n : Nat) (pc : Bool) (Y : List Tok) (res : Res) (hd' : depth (.binary op l r) ≤ n)
    (hl : LeftLevel op.prec) (hcan : canon pc op.prec (.binary op l r) = true) (hY : cl pc (hd Y) < op.prec + 1)
    (hcont : ∀ m, Y.length ≤ m → loopAt (ps (n+1)) pc op.prec m (.binary op l r) Y = res) :
    lv (ps (n+1)) pc op.prec (render (.binary op l r) ++ Y) = res := by
  simp only [canon, Bool.and_eq_true, decide_eq_true_eq] at hcan
  obtain ⟨⟨⟨⟨hs, _⟩, hcl⟩, hcr⟩, _⟩ := hcan
  obtain ⟨hlhs, hrhs, hops, htoks, hclt⟩ := left_facts pc op hs hl
  rw [hlhs] at hcl
  rw [hrhs] at hcr
  simp only [depth] at hd'
  have hdl : depth l ≤ n := by have := Nat.le_max_left (depth l) (depth r); omega
  have hdr : depth r ≤ n := by have := Nat.le_max_right (depth l) (depth r); omega
  have hr := ihrA n pc (op.prec + 1) Y hdr hcr hY
  have e1 : render (.binary op l r) ++ Y = render l ++ (op.tok :: (render r ++ Y)) := by
    simp only [render, htoks, List.append_assoc, List.cons_append, List.nil_append]
  rw [e1]
  apply ihlB n pc op.prec _ res hdl hl.loop hcl (by simp only [hd, hclt]; omega)
  simp only [loopAt_left _ _ _ hl] at hcont ⊢
  apply loopL_step _ _ _ op op.tok l r (render r ++ Y) Y res hops _ hr (by simp) hcont
  cases nlOf op.prec
  · rfl
  · simp only [if_true]; exact skipNl_render r pc _ Y hcr

/-- the loop invariant step of `concat()` -/
theorem PB_concat_eq (l r : Expr) (ihlB : PB l) (ihrA : PA r)
    (n : Nat) (pc : Bool) (Y : List Tok) (res : Res) (hd' : depth (.binary .concat l r) ≤ n)
    (hcan : canon pc 8 (.binary .concat l r) = true) (hY : cl pc (hd Y) < 9)
    (hcont : ∀ m, Y.length ≤ m → loopAt (ps (n+1)) pc 8 m (.binary .concat l r) Y = res) :
    lv (ps (n+1)) pc 8 (render (.binary .concat l r) ++ Y) = res := by
  simp only [canon, Bool.and_eq_true, decide_eq_true_eq] at hcan
  obtain ⟨⟨⟨⟨_, _⟩, hcl⟩, hcr⟩, hcat⟩ := hcan
  have hcl' : canon pc 8 l = true := hcl
  have hcr' : canon pc 9 r = true := hcr
  simp only [catOk, bne_self_eq_false, Bool.false_or] at hcat
  obtain ⟨hhd, _⟩ := hd_render_append r pc 9 Y hcr'
  obtain ⟨hcs, hc8⟩ := startOk_facts pc _ hcat
  simp only [depth] at hd'
  have hdl : depth l ≤ n := by have := Nat.le_max_left (depth l) (depth r); omega
  have hdr : depth r ≤ n := by have := Nat.le_max_right (depth l) (depth r); omega
  have hr := ihrA n pc 9 Y hdr hcr' hY
  have e1 : render (.binary .concat l r) ++ Y = render l ++ (render r ++ Y) := by
    simp only [render, bopToks, List.append_assoc, List.nil_append]
  rw [e1]
  apply ihlB n pc 8 _ res hdl (by simp [LoopLevel]) hcl' (by rw [hhd, hc8]; omega)
  intro m hm
  obtain ⟨t, ts, h1, _⟩ := render_hd r pc 9 hcr'
  have hlen : 1 ≤ (render r).length := by rw [h1]; simp
  obtain ⟨m', rfl⟩ : ∃ m', m = m' + 1 := ⟨m - 1, by simp at hm; omega⟩
  show loopC (lv (ps (n+1)) pc 9) (m'+1) l (render r ++ Y) = res
  simp only [lv] at hr
  simp only [loopC, hhd, hcs, if_true, lv, hr]
  apply hcont
  simp at hm
  omega

/-- the loop invariant step of `_in` -/
theorem PB_in_eq (e : Expr) (a : Nat) (ihB : PB e)
    (n : Nat) (pc : Bool) (Y : List Tok) (res : Res) (hd' : depth (.inArr e a) ≤ n)
    (hcan : canon pc 5 (.inArr e a) = true)
    (hcont : ∀ m, Y.length ≤ m → loopAt (ps (n+1)) pc 5 m (.inArr e a) Y = res) :
    lv (ps (n+1)) pc 5 (render (.inArr e a) ++ Y) = res := by
  simp only [canon, Bool.and_eq_true, decide_eq_true_eq] at hcan
  simp only [depth] at hd'
  have e1 : render (.inArr e a) ++ Y = render e ++ (.in_ :: .name a :: Y) := by
    simp only [render, List.append_assoc, List.cons_append, List.nil_append]
  rw [e1]
  apply ihB n pc 5 _ res (by omega) (by simp [LoopLevel]) hcan.2 (by simp [hd, cl])
  intro m hm
  obtain ⟨m', rfl⟩ : ∃ m', m = m' + 1 := ⟨m - 1, by simp at hm; omega⟩
  show loopIn (m'+1) e (.in_ :: .name a :: Y) = res
  simp only [loopIn]
  apply hcont
  simp at hm
  omega

theorem PA_inArr (e : Expr) (a : Nat) (ihB : PB e) : PA (.inArr e a) := by
  intro n pc k rest hd' hcan hf
  have hcan' := hcan
  simp only [canon, Bool.and_eq_true, decide_eq_true_eq] at hcan
  apply descend' _ _ k 5 _ _ _ hcan.1 hf
  apply PB_in_eq e a ihB n pc rest _ hd'
  · simp only [canon, Bool.and_eq_true, decide_eq_true_eq]; exact ⟨Nat.le_refl _, hcan.2⟩
  · intro m _
    show loopIn m _ rest = _
    apply loopIn_stop
    intro h
    rw [h] at hf
    simp [cl] at hf
    omega

theorem matchT_go (b : Back) (pc : Bool) (e : Expr) (neg : Bool) (X : List Tok) (h : isHead (hd X) = true) :
    matchT b pc e (.match_ neg :: X) =
      bindR (compareP b pc X) (fun r rest' => .ok (.binary (if neg then .notMatch else .match_) e r, rest')) := by
  simp only [matchT]
  split <;> simp_all [isHead]

theorem PA_binary (op : BOp) (l r : Expr) (ihlA : PA l) (ihlB : PB l) (ihrA : PA r) : PA (.binary op l r) := by
  intro n pc k rest hd' hcan hf
  have hcan' := hcan
  simp only [canon, Bool.and_eq_true, decide_eq_true_eq] at hcan
  obtain ⟨⟨⟨⟨hs, hk⟩, hcl⟩, hcr⟩, hcat⟩ := hcan
  apply descend' _ _ k op.prec _ _ _ hk hf
  rcases stageA_cases pc op hs with hl | rfl | ⟨c, rfl, hcmp, hclc⟩ | rfl | hm
  · -- left-associative levels: the loop invariant with an empty continuation
    apply PB_binary_eq op l r ihlB ihrA n pc rest _ hd' hl _ (by omega)
    · intro m _
      rw [loopAt_left _ _ _ hl]
      exact loopL_stop _ _ _ _ _ _ (opsOf_none pc op.prec (hd rest) (by omega))
    · simp only [canon, Bool.and_eq_true, decide_eq_true_eq]
      exact ⟨⟨⟨⟨hs, Nat.le_refl _⟩, hcl⟩, hcr⟩, hcat⟩
  · -- `^` (right-associative)
    simp only [depth] at hd'
    have hdl : depth l ≤ n := by have := Nat.le_max_left (depth l) (depth r); omega
    have hdr : depth r ≤ n - 1 := le_of_max_succ_right hd'
    obtain ⟨m, rfl⟩ : ∃ m, n = m + 1 := ⟨n - 1, by omega⟩
    simp only [Nat.add_sub_cancel] at hdr
    simp only [BOp.prec] at hk
    have h1 := ihlA (m+1) pc 13 (.pow :: (render r ++ rest)) hdl hcl (by simp [hd, cl])
    have h2 := ihrA m pc 12 rest hdr hcr (by omega)
    simp only [BOp.prec, lv] at h1 ⊢
    simp only [powP, render, bopToks, List.append_assoc, List.cons_append, List.nil_append, h1, bindR_ok, powT,
      ps_pow m pc, h2]
  · -- relational operators (non-associative)
    simp only [depth] at hd'
    have hdl : depth l ≤ n := by have := Nat.le_max_left (depth l) (depth r); omega
    have hdr : depth r ≤ n := by have := Nat.le_max_right (depth l) (depth r); omega
    simp only [BOp.prec] at hk
    have h1 := ihlA n pc 8 (.cmp c :: (render r ++ rest)) hdl hcl (by simp only [hd, hclc]; omega)
    have h2 := ihrA n pc 8 rest hdr hcr (by omega)
    simp only [BOp.prec, lv] at h1 h2 ⊢
    simp only [compareP, render, bopToks, List.append_assoc, List.cons_append, List.nil_append, h1, bindR_ok, compareT,
      hcmp, h2]
  · -- concatenation: the loop invariant of `concat()` with an empty continuation
    simp only [BOp.prec] at hk ⊢
    apply PB_concat_eq l r ihlB ihrA n pc rest _ hd' _ (by omega)
    · intro m _
      show loopC _ m _ rest = _
      apply loopC_stop
      have : cl pc (hd rest) < 8 := by omega
      cases hh : hd rest <;> first | rfl | (rw [hh] at this; simp [cl] at this)
    · simp only [canon, Bool.and_eq_true, decide_eq_true_eq]
      exact ⟨⟨⟨⟨hs, Nat.le_refl _⟩, hcl⟩, hcr⟩, hcat⟩
  · -- `~`, `!~` (non-associative)
    simp only [depth] at hd'
    have hdl : depth l ≤ n := by have := Nat.le_max_left (depth l) (depth r); omega
    have hdr : depth r ≤ n := by have := Nat.le_max_right (depth l) (depth r); omega
    have hp : op.prec = 6 ∧ op.lhs = 7 ∧ op.rhs = 7 := by rcases hm with rfl | rfl <;> simp [BOp.prec, BOp.lhs, BOp.rhs, BOp.assoc]
    rw [hp.1] at hk ⊢
    rw [hp.2.1] at hcl
    rw [hp.2.2] at hcr
    obtain ⟨hh1, hh2⟩ := hd_render_append r pc 7 rest hcr
    rw [← hh1] at hh2
    have h2 := ihrA n pc 7 rest hdr hcr (by omega)
    rcases hm with rfl | rfl
    · have h1 := ihlA n pc 7 (.match_ false :: (render r ++ rest)) hdl hcl (by simp [hd, cl])
      simp only [lv] at h1 h2 ⊢
      simp only [matchP, render, bopToks, List.append_assoc, List.cons_append, List.nil_append, h1, bindR_ok,
        matchT_go _ _ _ _ _ hh2, h2]
      rfl
    · have h1 := ihlA n pc 7 (.match_ true :: (render r ++ rest)) hdl hcl (by simp [hd, cl])
      simp only [lv] at h1 h2 ⊢
      simp only [matchP, render, bopToks, List.append_assoc, List.cons_append, List.nil_append, h1, bindR_ok,
        matchT_go _ _ _ _ _ hh2, h2]
      rfl

theorem ps_primary (m : Nat) : (ps (m+2)).primary = primaryF (ps (m+1)) := rfl

theorem cl_false_lt (pc : Bool) (t : Tok) (k : Nat) (h : cl pc t < k) (hk : k ≤ 14) : cl false t < 14 := by
  cases t <;> simp_all [cl] <;> (try split at h) <;> omega

theorem primary_index (a : Nat) (i : Expr) (ih : PA i) (m : Nat) (rest : List Tok) (hd' : depth i ≤ m)
    (hc : canon false 1 i = true) :
    primaryF (ps (m+2)) (.name a :: .lbracket :: (render i ++ .rbracket :: rest)) = .ok (.index a i, rest) := by
  have h1 := ih m false 1 (.rbracket :: rest) hd' hc (by simp [hd, cl])
  simp only [primaryF, indexTail, ps_expr, h1]

theorem PA_index (a : Nat) (i : Expr) (ih : PA i) : PA (.index a i) := by
  intro n pc k rest hd' hcan hf
  simp only [canon, Bool.and_eq_true, decide_eq_true_eq] at hcan
  simp only [depth] at hd'
  obtain ⟨m, rfl⟩ : ∃ m, n = m + 1 := ⟨n - 1, by omega⟩
  apply from_primary _ _ _ _ _ _ _ hf
  simp only [render, List.cons_append, List.append_assoc, List.nil_append]
  exact primary_index a i ih m rest (by omega) hcan.2

theorem field_tail (e : Expr) (rest : List Tok) (hf : cl false (hd rest) < 14) :
    (match rest with
      | .incr :: rest' => (.ok (.incr false false (.field e), rest') : Res)
      | .decr :: rest' => .ok (.incr false true (.field e), rest')
      | _ => .ok (.field e, rest)) = .ok (.field e, rest) := by
  cases rest with
  | nil => rfl
  | cons t r => cases t <;> first | rfl | (simp [hd, cl] at hf)

theorem primary_field (e : Expr) (ih : PA e) (m : Nat) (rest : List Tok) (hd' : depth e ≤ m)
    (hc : canon false 14 e = true) (hf : cl false (hd rest) < 14) :
    primaryF (ps (m+2)) (.dollar :: (render e ++ rest)) = .ok (.field e, rest) := by
  have h1 : (ps (m+2)).primary (render e ++ rest) = .ok (e, rest) := ih m false 14 rest hd' hc hf
  simp only [primaryF, h1]
  exact field_tail e rest hf

theorem PA_field (e : Expr) (ih : PA e) : PA (.field e) := by
  intro n pc k rest hd' hcan hf
  simp only [canon, Bool.and_eq_true, decide_eq_true_eq] at hcan
  simp only [depth] at hd'
  obtain ⟨m, rfl⟩ : ∃ m, n = m + 1 := ⟨n - 1, by omega⟩
  apply from_primary _ _ _ _ _ _ _ hf
  exact primary_field e ih m rest (by omega) hcan.2 (cl_false_lt pc _ k hf hcan.1)

theorem PA_namedField (e : Expr) (ih : PA e) : PA (.namedField e) := by
  intro n pc k rest hd' hcan hf
  simp only [canon, Bool.and_eq_true, decide_eq_true_eq] at hcan
  simp only [depth] at hd'
  obtain ⟨m, rfl⟩ : ∃ m, n = m + 1 := ⟨n - 1, by omega⟩
  apply from_primary _ _ _ _ _ _ _ hf
  have h1 : (ps (m+2)).primary (render e ++ rest) = .ok (e, rest) :=
    ih m false 14 rest (by omega) hcan.2 (cl_false_lt pc _ k hf hcan.1)
  simp only [render, List.cons_append, primaryF, h1, bindR_ok]

/-- closed operands are read by `primary()` whatever follows (except `[` after a name) -/
def PP (e : Expr) : Prop :=
  ∀ (n : Nat) (rest : List Tok), depth e ≤ n → closed e = true → canon false 14 e = true → hd rest ≠ .lbracket →
    primaryF (ps (n+1)) (render e ++ rest) = .ok (e, rest)

/-- `optionalLValue()` reads an lvalue -/
def PO (l : Expr) : Prop :=
  ∀ (n : Nat) (rest : List Tok), depth l ≤ n → l.isLValue = true → canon false 14 l = true → cl false (hd rest) < 14 →
    optLValue (ps (n+1)) (render l ++ rest) = .ok (some (l, rest))

/-- `l ++`, `l --` at the post-increment level -/
def PI (l : Expr) : Prop :=
  ∀ (n : Nat) (pc : Bool) (k : Nat) (dec : Bool) (rest : List Tok), depth l ≤ n → canon pc k (.incr false dec l) = true →
    lv (ps (n+1)) pc 13 (render l ++ ((if dec then Tok.decr else Tok.incr) :: rest)) = .ok (.incr false dec l, rest)

theorem postT_nonlv (e : Expr) (ts : List Tok) (h : e.isLValue = false) : postT e ts = .ok (e, ts) := by
  cases ts with
  | nil => rfl
  | cons t r => cases t <;> simp [postT, h]

theorem postT_lv (e : Expr) (dec : Bool) (rest : List Tok) (h : e.isLValue = true) :
    postT e ((if dec then Tok.decr else Tok.incr) :: rest) = .ok (.incr false dec e, rest) := by
  cases dec <;> simp [postT, h]

theorem hd_incTok_ne (dec : Bool) (rest : List Tok) : hd ((if dec then Tok.decr else Tok.incr) :: rest) ≠ .lbracket := by
  cases dec <;> simp [hd]

theorem PX_var (a : Nat) : PP (.var a) ∧ PO (.var a) ∧ PI (.var a) := by
  refine ⟨?_, ?_, ?_⟩
  · intro n rest _ _ _ h; exact primary_var _ a rest h
  · intro n rest _ _ _ hf
    cases rest with
    | nil => rfl
    | cons t r => cases t <;> first | rfl | (simp [hd, cl] at hf)
  · intro n pc k dec rest _ _
    simp only [lv, postP, render, List.cons_append, List.nil_append, primary_var _ a _ (hd_incTok_ne dec rest), bindR_ok]
    exact postT_lv _ dec rest rfl

theorem PX_index (a : Nat) (i : Expr) (ih : PA i) : PP (.index a i) ∧ PO (.index a i) ∧ PI (.index a i) := by
  refine ⟨?_, ?_, ?_⟩
  · intro n rest hd' _ hc _
    simp only [canon, Bool.and_eq_true] at hc
    simp only [depth] at hd'
    obtain ⟨m, rfl⟩ : ∃ m, n = m + 1 := ⟨n - 1, by omega⟩
    simp only [render, List.cons_append, List.append_assoc, List.nil_append]
    exact primary_index a i ih m rest (by omega) hc.2
  · intro n rest hd' _ hc _
    simp only [canon, Bool.and_eq_true] at hc
    simp only [depth] at hd'
    obtain ⟨m, rfl⟩ : ∃ m, n = m + 1 := ⟨n - 1, by omega⟩
    have h1 := ih m false 1 (.rbracket :: rest) (by omega) hc.2 (by simp [hd, cl])
    simp only [render, List.cons_append, List.append_assoc, List.nil_append, optLValue, indexTail, ps_expr, h1]
  · intro n pc k dec rest hd' hc
    simp only [canon, Bool.and_eq_true] at hc
    simp only [depth] at hd'
    obtain ⟨m, rfl⟩ : ∃ m, n = m + 1 := ⟨n - 1, by omega⟩
    simp only [lv, postP, render, List.cons_append, List.append_assoc, List.nil_append,
      primary_index a i ih m _ (by omega) hc.2, bindR_ok]
    exact postT_lv _ dec rest rfl

theorem PX_field (e : Expr) (ihA : PA e) (ihP : PP e) : PP (.field e) ∧ PO (.field e) ∧ PI (.field e) := by
  refine ⟨?_, ?_, ?_⟩
  · intro n rest _ hcl; simp [closed] at hcl
  · intro n rest hd' _ hc hf
    simp only [canon, Bool.and_eq_true] at hc
    simp only [depth] at hd'
    obtain ⟨m, rfl⟩ : ∃ m, n = m + 1 := ⟨n - 1, by omega⟩
    have h1 := ihA m false 14 rest (by omega) hc.2 hf
    simp only [lv] at h1
    simp only [render, List.cons_append, optLValue, ps_primary, h1]
  · intro n pc k dec rest hd' hc
    simp only [canon, Bool.and_eq_true] at hc
    simp only [depth] at hd'
    obtain ⟨m, rfl⟩ : ∃ m, n = m + 1 := ⟨n - 1, by omega⟩
    have h1 : (ps (m+2)).primary (render e ++ (if dec then Tok.decr else Tok.incr) :: rest) = .ok (e, (if dec then Tok.decr else Tok.incr) :: rest) :=
      ihP m ((if dec then Tok.decr else Tok.incr) :: rest) (by omega) hc.1.2 hc.2 (hd_incTok_ne dec rest)
    simp only [lv, postP, render, List.cons_append, primaryF, h1]
    cases dec
    · simp only [Bool.false_eq_true, if_false, bindR_ok]; exact postT_nonlv _ _ rfl
    · simp only [if_true, bindR_ok]; exact postT_nonlv _ _ rfl

theorem PP_group (e : Expr) (ih : PA e) : PP (.group e) := by
  intro n rest hd' _ hc _
  simp only [canon, Bool.and_eq_true] at hc
  simp only [depth] at hd'
  obtain ⟨m, rfl⟩ : ∃ m, n = m + 1 := ⟨n - 1, by omega⟩
  have h1 := ih m false 1 (.rparen :: rest) (by omega) hc.2 (by simp [hd, cl])
  simp only [render, List.cons_append, List.append_assoc, List.nil_append, primaryF, ps_expr, h1]

theorem PX_trivial' (e : Expr) (hlv : e.isLValue = false) : PO e ∧ PI e := by
  refine ⟨?_, ?_⟩
  · intro n rest _ h; rw [hlv] at h; cases h
  · intro n pc k dec rest _ hc
    cases e <;> simp [canon, Expr.isLValue] at hc hlv

theorem PX_trivial (e : Expr) (hcl : closed e = false) (hlv : e.isLValue = false) : PP e ∧ PO e ∧ PI e := by
  refine ⟨?_, ?_, ?_⟩
  · intro n rest _ h; rw [hcl] at h; cases h
  · intro n rest _ h; rw [hlv] at h; cases h
  · intro n pc k dec rest _ hc
    cases e <;> simp [canon, Expr.isLValue] at hc hlv

theorem PO_trivial (e : Expr) (hlv : e.isLValue = false) : PO e ∧ PI e := (PX_trivial' e hlv)

theorem canon_incr_le (pc : Bool) (k : Nat) (p d : Bool) (l : Expr) (h : canon pc k (.incr p d l) = true) : k ≤ 13 := by
  cases p
  · cases l <;> simp [canon] at h <;> omega
  · simp only [canon, Bool.and_eq_true, decide_eq_true_eq] at h; exact h.1.1

theorem PA_incr_post (d : Bool) (l : Expr) (hI : PI l) : PA (.incr false d l) := by
  intro n pc k rest hd' hcan hf
  have hk := canon_incr_le pc k false d l hcan
  simp only [depth] at hd'
  apply descend' _ _ k 13 _ _ _ hk hf
  have := hI n pc k d rest (by omega) hcan
  simpa only [render, Bool.false_eq_true, if_false, List.append_assoc, List.cons_append, List.nil_append] using this

theorem PA_incr_pre (d : Bool) (l : Expr) (hO : PO l) : PA (.incr true d l) := by
  intro n pc k rest hd' hcan hf
  simp only [canon, Bool.and_eq_true, decide_eq_true_eq] at hcan
  obtain ⟨⟨hk, hlv⟩, hcl⟩ := hcan
  simp only [depth] at hd'
  apply from_primary _ _ _ _ _ _ _ hf
  have h1 := hO n rest (by omega) hlv hcl (cl_false_lt pc _ k hf (by omega))
  cases d <;> simp only [render, if_true, Bool.false_eq_true, if_false, List.cons_append, primaryF, h1]

/-! ### getline forms -/

/-- the second half of `primary()`'s GETLINE case: `[< file]` -/
def glTail (b : Back) (target : Expr) (rest : List Tok) : Res :=
  match rest with
  | .cmp .lt :: rest' => bindR (b.primary rest') fun f rest'' => .ok (.getline .none target f, rest'')
  | _ => .ok (.getline .none target .none, rest)

theorem primary_getline_some (b : Back) (ts X : List Tok) (t : Expr) (h : optLValue b ts = .ok (some (t, X))) :
    primaryF b (.getline :: ts) = glTail b t X := by
  simp only [primaryF, h, glTail]
  cases X with
  | nil => rfl
  | cons x r =>
    cases x <;> first | rfl | (rename_i c; cases c <;> rfl)

theorem primary_getline_noT (b : Back) (ts : List Tok) (h : optLValue b ts = .ok Option.none) :
    primaryF b (.getline :: ts) = glTail b .none ts := by
  simp only [primaryF, h, glTail]
  cases ts with
  | nil => rfl
  | cons x r =>
    cases x <;> first | rfl | (rename_i c; cases c <;> rfl)

theorem glTail_nofile (b : Back) (t : Expr) (rest : List Tok) (pc : Bool) (h : cl pc (hd rest) < 7) :
    glTail b t rest = .ok (.getline .none t .none, rest) := by
  cases rest with
  | nil => rfl
  | cons x r =>
    cases x <;> try rfl
    rename_i c
    cases c <;> first | rfl | (simp [hd, cl] at h)

theorem glTail_file (m : Nat) (t f : Expr) (rest : List Tok) (hAf : PA f) (hd' : depth f ≤ m)
    (hc : canon false 14 f = true) (hf : cl false (hd rest) < 14) :
    glTail (ps (m+2)) t (.cmp .lt :: (render f ++ rest)) = .ok (.getline .none t f, rest) := by
  have h1 : (ps (m+2)).primary (render f ++ rest) = .ok (f, rest) := hAf m false 14 rest hd' hc hf
  simp only [glTail, h1, bindR_ok]

theorem optLValue_noT (b : Back) (rest : List Tok) (pc : Bool) (h : cl pc (hd rest) < 8) : optLValue b rest = .ok Option.none := by
  cases rest with
  | nil => rfl
  | cons t r => cases t <;> first | rfl | (simp [hd, cl] at h)

theorem PA_getline_plain (t f : Expr) (hOt : PO t) (hAf : PA f) : PA (.getline .none t f) := by
  intro n pc k rest hd' hcan hf
  simp only [canon, beq_self_eq_true, if_true, Bool.and_eq_true, decide_eq_true_eq, Bool.or_eq_true, beq_iff_eq] at hcan
  obtain ⟨ht, hk, hfc⟩ := hcan
  simp only [depth] at hd'
  have hdt : depth t ≤ n :=
    Nat.le_trans (Nat.le_max_left _ _) (Nat.le_trans (Nat.le_max_right _ _) hd')
  have hdf : (if f = Expr.none then 0 else depth f + 1) ≤ n :=
    Nat.le_trans (Nat.le_max_right _ _) (Nat.le_trans (Nat.le_max_right _ _) hd')
  have hf14 : cl false (hd rest) < 14 := cl_false_lt pc _ k hf (by omega)
  apply from_primary _ _ _ _ _ _ _ hf
  rw [render_getline_none]
  -- what follows the target
  have htail : ∀ t', glTail (ps (n+1)) t' (fileToks f ++ rest) = .ok (.getline .none t' f, rest) := by
    intro t'
    by_cases hfn : f = .none
    · subst hfn; simp only [fileToks_none, List.nil_append]; exact glTail_nofile _ _ _ pc (by omega)
    · rcases hfc with hfc | hfc
      · exact absurd hfc hfn
      · simp only [hfn, if_false] at hdf
        obtain ⟨m, rfl⟩ : ∃ m, n = m + 1 := ⟨n - 1, by omega⟩
        rw [fileToks_some f hfn]; exact glTail_file m t' f rest hAf (by omega) hfc hf14
  have hX : cl false (hd (fileToks f ++ rest)) < 14 := by
    by_cases hfn : f = .none
    · subst hfn; simpa [fileToks_none] using hf14
    · rw [fileToks_some f hfn]; simp [hd, cl]
  by_cases htn : t = .none
  · subst htn
    have hopt : optLValue (ps (n+1)) (fileToks f ++ rest) = .ok Option.none := by
      by_cases hfn : f = .none
      · subst hfn; simp only [fileToks_none, List.nil_append]; exact optLValue_noT _ _ pc (by omega)
      · rw [fileToks_some f hfn]; rfl
    show primaryF _ (.getline :: ([] ++ (fileToks f ++ rest))) = _
    rw [List.nil_append, primary_getline_noT _ _ hopt]
    exact htail .none
  · rcases ht with ht | ht
    · exact absurd ht htn
    · have hopt := hOt n (fileToks f ++ rest) hdt ht.1 ht.2 hX
      show primaryF _ (.getline :: ((render t ++ fileToks f) ++ rest)) = _
      rw [List.append_assoc, primary_getline_some _ _ _ _ hopt]
      exact htail t

theorem PA_getline_cmd (c t : Expr) (hc0 : c ≠ .none) (hAc : PA c) (hOt : PO t) : PA (.getline c t .none) := by
  intro n pc k rest hd' hcan hf
  simp only [canon, beq_iff_eq, hc0, if_false, Bool.and_eq_true, decide_eq_true_eq, Bool.or_eq_true, beq_self_eq_true,
    Bool.not_eq_true', true_and] at hcan
  obtain ⟨ht, ⟨hk, hpc⟩, hcc⟩ := hcan
  subst hpc
  have hk1 : k = 1 := by omega
  subst hk1
  have h0 : cl false (hd rest) = 0 := by omega
  simp only [depth] at hd'
  have hdc : depth c ≤ n := Nat.le_trans (Nat.le_max_left _ _) hd'
  have hdt : depth t ≤ n := Nat.le_trans (Nat.le_max_left _ _) (Nat.le_trans (Nat.le_max_right _ _) hd')
  rw [render_getline_cmd c t .none hc0, fileToks_none, List.append_nil]
  have h3 := hAc n false 3 (.pipe :: .getline :: (render t ++ rest)) hdc hcc (by simp [hd, cl])
  have hf' : ∀ j, 0 < j → cl false (hd rest) < j := by intro j hj; omega
  have hcp : ∀ (b : Back) (e : Expr) (X : List Tok), condT b false e (.pipe :: X) = .ok (e, .pipe :: X) := fun _ _ _ => rfl
  have hpend : pendingPrimary (ps (n+1)) c (.pipe :: .getline :: (render t ++ rest)) = .ok (.getline c t .none, rest) := by
    by_cases htn : t = .none
    · subst htn
      have : optLValue (ps (n+1)) rest = .ok Option.none := optLValue_noT _ _ false (by omega)
      simp only [pendingPrimary, render, List.nil_append, this]
    · rcases ht with ht | ht
      · exact absurd ht htn
      · have := hOt n rest hdt ht.1 ht.2 (by omega)
        simp only [pendingPrimary, this]
  simp only [lv] at h3 ⊢
  simp only [List.append_assoc, List.cons_append, assignP, Bool.false_eq_true, if_false, getlineP, condP, h3, bindR_ok, hcp, hpend,
    postT_pass _ rest false (hf' _ (by omega)), powT_pass _ _ rest false (hf' _ (by omega)),
    mulT_pass _ _ rest false (hf' _ (by omega)), addT_pass _ _ rest false (hf' _ (by omega)),
    concatT_pass _ _ rest false (hf' _ (by omega)), compareT_pass _ false _ rest (hf' _ (by omega)),
    matchT_pass _ false _ rest (hf' _ (by omega)), inT_pass false _ rest (hf' _ (by omega)),
    andT_pass _ false _ rest (hf' _ (by omega)), orT_pass _ false _ rest (hf' _ (by omega)),
    condT_pass _ false _ rest (hf' _ (by omega)), assignT_pass _ false _ rest (hf' _ (by omega))]

theorem canon_up (pc : Bool) (h : Nat) (e : Expr) (hl : LoopLevel h) (hc : canon pc h e = true)
    (hne : ∀ op l r, e = .binary op l r → op.prec ≠ h) (hni : ∀ e' a, e = .inArr e' a → h ≠ 5) :
    canon pc (h+1) e = true := by
  have h10 : h ≤ 10 := by rcases hl with rfl | rfl | rfl | rfl | rfl | rfl <;> omega
  have h3 : 3 ≤ h := by rcases hl with rfl | rfl | rfl | rfl | rfl | rfl <;> omega
  cases e with
  | num i => simp only [canon, decide_eq_true_eq] at hc ⊢; omega
  | var i => simp only [canon, decide_eq_true_eq] at hc ⊢; omega
  | str i => simp only [canon, decide_eq_true_eq] at hc ⊢; omega
  | group e => simp only [canon, Bool.and_eq_true, decide_eq_true_eq] at hc ⊢; exact ⟨by omega, hc.2⟩
  | unary op e => simp only [canon, Bool.and_eq_true, decide_eq_true_eq] at hc ⊢; exact ⟨by omega, hc.2⟩
  | binary op l r =>
    simp only [canon, Bool.and_eq_true, decide_eq_true_eq] at hc ⊢
    have := hne op l r rfl
    exact ⟨⟨⟨⟨hc.1.1.1.1, by omega⟩, hc.1.1.2⟩, hc.1.2⟩, hc.2⟩
  | cond c t f => simp only [canon, Bool.and_eq_true, decide_eq_true_eq] at hc; omega
  | assign op l r => simp only [canon, Bool.and_eq_true, decide_eq_true_eq] at hc; omega
  | inArr e a =>
    simp only [canon, Bool.and_eq_true, decide_eq_true_eq] at hc ⊢
    have := hni e a rfl
    have : h ≠ 8 ∧ h ≠ 9 ∧ h ≠ 10 := by omega
    exact ⟨by rcases hl with rfl | rfl | rfl | rfl | rfl | rfl <;> omega, hc.2⟩
  | none => simp [canon] at hc
  | namedField e => simp only [canon, Bool.and_eq_true, decide_eq_true_eq] at hc ⊢; exact ⟨by omega, hc.2⟩
  | incr p d e =>
    cases p
    · cases e <;> simp only [canon, Bool.and_eq_true, decide_eq_true_eq, Bool.false_eq_true] at hc ⊢ <;>
        first | omega | exact ⟨by omega, hc.2⟩ | exact ⟨⟨by omega, hc.1.2⟩, hc.2⟩
    · simp only [canon, Bool.and_eq_true, decide_eq_true_eq] at hc ⊢
      exact ⟨⟨by omega, hc.1.2⟩, hc.2⟩
  | field e => simp only [canon, Bool.and_eq_true, decide_eq_true_eq] at hc ⊢; exact ⟨by omega, hc.2⟩
  | index a i => simp only [canon, Bool.and_eq_true, decide_eq_true_eq] at hc ⊢; exact ⟨by omega, hc.2⟩
  | getline c t f =>
    simp only [canon, Bool.and_eq_true] at hc ⊢
    refine ⟨hc.1, ?_⟩
    have h2 := hc.2
    split at h2
    · rename_i hcn
      simp only [hcn, if_true, Bool.and_eq_true, decide_eq_true_eq] at h2 ⊢
      have : h ≠ 8 ∧ h ≠ 9 ∧ h ≠ 10 := by omega
      exact ⟨by rcases hl with rfl | rfl | rfl | rfl | rfl | rfl <;> omega, h2.2⟩
    · simp only [Bool.and_eq_true, decide_eq_true_eq] at h2; omega

theorem PB_of_PA' (e : Expr) (hA : PA e) (hne : ∀ op l r, e = .binary op l r → False) (hni : ∀ e' a, e = .inArr e' a → False) :
    PB e := by
  intro n pc h Y res hd' hl hc hY hcont
  exact PB_of_PA e hA n pc h Y res hd' hl
    (canon_up pc h e hl hc (fun op l r he => (hne op l r he).elim) (fun e' a he => (hni e' a he).elim)) hY hcont

/-- all five invariants of the induction -/
def PAll (e : Expr) : Prop := PA e ∧ PB e ∧ PP e ∧ PO e ∧ PI e

theorem noBin_of (e : Expr) (h : ∀ op l r, e ≠ .binary op l r) : ∀ op l r, e = .binary op l r → False :=
  fun op l r he => h op l r he

/-- every level parser reads back every canonical tree; the loop invariant of the looping levels; `primary()` on closed
    operands, `optionalLValue()` on lvalues, the post-increment level on `l ++` -/
theorem parse_all' (e : Expr) : PAll e := by
  induction e with
  | num i =>
    exact ⟨PA_num i, PB_of_PA' _ (PA_num i) (by intro _ _ _ h; cases h) (by intro _ _ h; cases h),
      (by intro n rest _ _ _ _; rfl), PO_trivial _ rfl⟩
  | var i =>
    exact ⟨PA_var i, PB_of_PA' _ (PA_var i) (by intro _ _ _ h; cases h) (by intro _ _ h; cases h), PX_var i⟩
  | str i =>
    exact ⟨PA_str i, PB_of_PA' _ (PA_str i) (by intro _ _ _ h; cases h) (by intro _ _ h; cases h),
      (by intro n rest _ _ _ _; rfl), PO_trivial _ rfl⟩
  | group e ih =>
    exact ⟨PA_group e ih.1, PB_of_PA' _ (PA_group e ih.1) (by intro _ _ _ h; cases h) (by intro _ _ h; cases h),
      PP_group e ih.1, PO_trivial _ rfl⟩
  | unary op e ih =>
    exact ⟨PA_unary op e ih.1, PB_of_PA' _ (PA_unary op e ih.1) (by intro _ _ _ h; cases h) (by intro _ _ h; cases h),
      PX_trivial _ rfl rfl⟩
  | cond c t f ihc iht ihf =>
    exact ⟨PA_cond c t f ihc.1 iht.1 ihf.1,
      PB_of_PA' _ (PA_cond c t f ihc.1 iht.1 ihf.1) (by intro _ _ _ h; cases h) (by intro _ _ h; cases h), PX_trivial _ rfl rfl⟩
  | assign op l r ihl ihr =>
    exact ⟨PA_assign op l r ihl.1 ihr.1,
      PB_of_PA' _ (PA_assign op l r ihl.1 ihr.1) (by intro _ _ _ h; cases h) (by intro _ _ h; cases h), PX_trivial _ rfl rfl⟩
  | binary op l r ihl ihr =>
    have hA := PA_binary op l r ihl.1 ihl.2.1 ihr.1
    refine ⟨hA, ?_, PX_trivial _ rfl rfl⟩
    intro n pc h Y res hd' hl hc hY hcont
    by_cases heq : op.prec = h
    · subst heq
      have hs : op.stageA pc = true := by
        simp only [canon, Bool.and_eq_true] at hc; exact hc.1.1.1.1
      rcases stageA_cases pc op hs with hll | rfl | ⟨c, rfl, _, _⟩ | rfl | hm
      · exact PB_binary_eq op l r ihl.2.1 ihr.1 n pc Y res hd' hll hc hY hcont
      · simp [LoopLevel, BOp.prec] at hl
      · simp [LoopLevel, BOp.prec] at hl
      · exact PB_concat_eq l r ihl.2.1 ihr.1 n pc Y res hd' hc hY hcont
      · rcases hm with rfl | rfl <;> simp [LoopLevel, BOp.prec] at hl
    · exact PB_of_PA _ hA n pc h Y res hd' hl
        (canon_up pc h _ hl hc (by intro op' l' r' he; cases he; exact heq) (by intro _ _ he; cases he)) hY hcont
  | inArr e a ih =>
    have hA := PA_inArr e a ih.2.1
    refine ⟨hA, ?_, PX_trivial _ rfl rfl⟩
    intro n pc h Y res hd' hl hc hY hcont
    by_cases heq : h = 5
    · subst heq
      exact PB_in_eq e a ih.2.1 n pc Y res hd' hc hcont
    · exact PB_of_PA _ hA n pc h Y res hd' hl
        (canon_up pc h _ hl hc (by intro _ _ _ he; cases he) (by intro _ _ _; exact heq)) hY hcont
  | incr p d e ih =>
    cases p
    · exact ⟨PA_incr_post d e ih.2.2.2.2,
        PB_of_PA' _ (PA_incr_post d e ih.2.2.2.2) (by intro _ _ _ h; cases h) (by intro _ _ h; cases h), PX_trivial _ rfl rfl⟩
    · exact ⟨PA_incr_pre d e ih.2.2.2.1,
        PB_of_PA' _ (PA_incr_pre d e ih.2.2.2.1) (by intro _ _ _ h; cases h) (by intro _ _ h; cases h), PX_trivial _ rfl rfl⟩
  | field e ih =>
    exact ⟨PA_field e ih.1, PB_of_PA' _ (PA_field e ih.1) (by intro _ _ _ h; cases h) (by intro _ _ h; cases h),
      PX_field e ih.1 ih.2.2.1⟩
  | index a i ih =>
    exact ⟨PA_index a i ih.1, PB_of_PA' _ (PA_index a i ih.1) (by intro _ _ _ h; cases h) (by intro _ _ h; cases h),
      PX_index a i ih.1⟩
  | namedField e ih =>
    exact ⟨PA_namedField e ih.1, PB_of_PA' _ (PA_namedField e ih.1) (by intro _ _ _ h; cases h) (by intro _ _ h; cases h),
      PX_trivial _ rfl rfl⟩
  | none =>
    exact ⟨by intro n pc k rest _ hc; simp [canon] at hc, by intro n pc h Y res _ _ hc; simp [canon] at hc, PX_trivial _ rfl rfl⟩
  | getline c t f ihc iht ihf =>
    have hA : PA (.getline c t f) := by
      by_cases hcn : c = .none
      · subst hcn; exact PA_getline_plain t f iht.2.2.2.1 ihf.1
      · by_cases hfn : f = .none
        · subst hfn; exact PA_getline_cmd c t hcn ihc.1 iht.2.2.2.1
        · intro n pc k rest _ hcan
          simp [canon, hcn, hfn] at hcan
    exact ⟨hA, PB_of_PA' _ hA (by intro _ _ _ h; cases h) (by intro _ _ h; cases h), PX_trivial _ rfl rfl⟩

theorem parse_all (e : Expr) : PA e ∧ PB e := ⟨(parse_all' e).1, (parse_all' e).2.1⟩

end GoawkModel.C04
