import GoawkModel.C10
namespace GoawkModel.C10

theorem slice_some (s : Bytes) (a b : Int) (j l : Nat) (ha : a = (j : Int)) (hb : b = (j : Int) + (l : Int))
    (h : j + l ≤ s.length) : slice s a b = some ((s.drop j).take l) := by
  subst ha hb
  have h1 : (0 : Int) ≤ (j : Int) ∧ (j : Int) ≤ (j : Int) + (l : Int) ∧ (j : Int) + (l : Int) ≤ (s.length : Int) := by omega
  have h2 : ((j : Int) + (l : Int) - (j : Int)).toNat = l := by omega
  simp only [slice, h1, and_self, if_true, Int.toNat_natCast, h2]

theorem substrLenBytes_eq (s : Bytes) (pos len : Int) :
    substrLenBytes s pos len = some ((s.drop (pos - 1).toNat).take len.toNat) := by
  obtain ⟨J, hJ⟩ : ∃ J : Nat, (pos - 1).toNat = J := ⟨_, rfl⟩
  obtain ⟨L, hL⟩ : ∃ L : Nat, len.toNat = L := ⟨_, rfl⟩
  rw [hJ, hL]
  unfold substrLenBytes
  simp only []
  by_cases h1 : pos > (s.length : Int)
  · have h1' : ¬ ((s.length : Int) + 1 < 1) := by omega
    simp only [h1, if_true, h1', if_false]
    have hz : ((s.length : Int) - ((s.length : Int) + 1) + 1) = 0 := by omega
    rw [hz]
    have hlen : (if (if len < 0 then 0 else len) > 0 then 0 else if len < 0 then 0 else len) = 0 := by
      split <;> split <;> omega
    rw [hlen, slice_some s _ _ s.length 0 (by omega) (by omega) (by omega)]
    rw [List.drop_eq_nil_of_le (by omega : s.length ≤ J)]
    simp
  · by_cases h2 : pos < 1
    · simp only [h1, if_false, h2, if_true]
      have hJ0 : J = 0 := by omega
      subst hJ0
      by_cases h3 : len < 0
      · have : ¬ ((0:Int) > (s.length : Int) - 1 + 1) := by omega
        simp only [h3, if_true, this, if_false]
        rw [slice_some s _ _ 0 0 (by omega) (by omega) (by omega)]
        have : L = 0 := by omega
        subst this; simp
      · simp only [h3, if_false]
        by_cases h4 : len > (s.length : Int) - 1 + 1
        · simp only [h4, if_true]
          rw [slice_some s _ _ 0 s.length (by omega) (by omega) (by omega)]
          simp only [List.drop_zero]
          rw [List.take_of_length_le (by omega), List.take_of_length_le (by omega)]
        · simp only [h4, if_false]
          rw [slice_some s _ _ 0 L (by omega) (by omega) (by omega)]
    · simp only [h1, if_false, h2, if_false]
      by_cases h3 : len < 0
      · have : ¬ ((0:Int) > (s.length : Int) - pos + 1) := by omega
        simp only [h3, if_true, this, if_false]
        rw [slice_some s _ _ J 0 (by omega) (by omega) (by omega)]
        have : L = 0 := by omega
        subst this; simp
      · simp only [h3, if_false]
        by_cases h4 : len > (s.length : Int) - pos + 1
        · simp only [h4, if_true]
          rw [slice_some s _ _ J (s.length - J) (by omega) (by omega) (by omega)]
          rw [List.take_of_length_le (by simp), List.take_of_length_le (by simp; omega)]
        · simp only [h4, if_false]
          rw [slice_some s _ _ J L (by omega) (by omega) (by omega)]

theorem substrBytes_eq (s : Bytes) (pos : Int) : substrBytes s pos = some (s.drop (pos - 1).toNat) := by
  obtain ⟨J, hJ⟩ : ∃ J : Nat, (pos - 1).toNat = J := ⟨_, rfl⟩
  rw [hJ]
  unfold substrBytes
  simp only []
  by_cases h1 : pos > (s.length : Int)
  · have h1' : ¬ ((s.length : Int) + 1 < 1) := by omega
    simp only [h1, if_true, h1', if_false]
    rw [slice_some s _ _ s.length 0 (by omega) (by omega) (by omega)]
    rw [List.drop_eq_nil_of_le (by omega : s.length ≤ J)]
    simp
  · by_cases h2 : pos < 1
    · simp only [h1, if_false, h2, if_true]
      have hJ0 : J = 0 := by omega
      subst hJ0
      rw [slice_some s _ _ 0 s.length (by omega) (by omega) (by omega)]
      simp
    · simp only [h1, if_false, h2, if_false]
      rw [slice_some s _ _ J (s.length - J) (by omega) (by omega) (by omega)]
      rw [List.take_of_length_le (by simp)]

theorem trunc_ge_of_ge (z : Int) (q : Rat) (hz : 0 ≤ z) (h : (z : Rat) ≤ q) : z ≤ trunc q := by
  have h0 : (0 : Rat) ≤ q := by
    have : ((0 : Int) : Rat) ≤ (z : Rat) := Rat.intCast_le_intCast.mpr hz
    exact Rat.le_trans (by simpa using this) h
  simp only [trunc, h0, if_true]
  exact Rat.le_floor_iff.mpr h

theorem floor_le_of_le (z : Int) (q : Rat) (h : q ≤ (z : Rat)) : q.floor ≤ z := by
  have h1 : (z : Rat) < ((z + 1 : Int) : Rat) := Rat.intCast_lt_intCast.mpr (by omega)
  have := Rat.floor_lt_iff.mpr (show q < ((z + 1 : Int) : Rat) by grind)
  omega

theorem trunc_le_of_le (z : Int) (q : Rat) (h : q ≤ (z : Rat)) : trunc q ≤ z ∨ 0 ≤ z := by
  by_cases hz : 0 ≤ z
  · exact Or.inr hz
  left
  by_cases h0 : (0 : Rat) ≤ q
  · simp only [trunc, h0, if_true]
    exact floor_le_of_le z q h
  · simp only [trunc, h0, if_false]
    have : ((-z : Int) : Rat) ≤ -q := by
      rw [Rat.intCast_neg]; exact Rat.neg_le_neg h
    have := Rat.le_floor_iff.mpr this
    omega

/-- a list of at most `L < maxInt` elements cannot tell the clamped position from the true one -/
theorem drop_floatToInt {α} (l : List α) (L : Nat) (hl : l.length ≤ L) (hL : (L : Int) < maxInt) (m : Num) (hm : m ≠ .nan) :
    l.drop (floatToInt m - 1).toNat = l.drop (skipCount L m) := by
  cases m with
  | nan => exact absurd rfl hm
  | pinf =>
    simp only [floatToInt, skipCount]
    rw [List.drop_eq_nil_of_le (by omega), List.drop_eq_nil_of_le (by omega)]
  | ninf => simp [floatToInt, skipCount, minInt]
  | fin q =>
    simp only [floatToInt, skipCount]
    by_cases h1 : (maxInt : Rat) ≤ q
    · simp only [h1, if_true]
      have := trunc_ge_of_ge maxInt q (by decide) h1
      rw [List.drop_eq_nil_of_le (by omega), List.drop_eq_nil_of_le (by omega)]
    · simp only [h1, if_false]
      by_cases h2 : q ≤ (minInt : Rat)
      · simp only [h2, if_true]
        have := trunc_le_of_le minInt q h2
        have e1 : (minInt - 1).toNat = 0 := by decide
        have e2 : (trunc q - 1).toNat = 0 := by
          have : ¬ (0 ≤ minInt) := by decide
          omega
        rw [e1, e2]
      · simp only [h2, if_false]

theorem take_floatToInt {α} (l : List α) (L : Nat) (hl : l.length ≤ L) (hL : (L : Int) < maxInt) (n : Num) (hn : n ≠ .nan) :
    l.take (floatToInt n).toNat = l.take (takeCount L n) := by
  cases n with
  | nan => exact absurd rfl hn
  | pinf =>
    simp only [floatToInt, takeCount]
    rw [List.take_of_length_le (by omega), List.take_of_length_le (by omega)]
  | ninf => simp [floatToInt, takeCount, minInt]
  | fin q =>
    simp only [floatToInt, takeCount]
    by_cases h1 : (maxInt : Rat) ≤ q
    · simp only [h1, if_true]
      have := trunc_ge_of_ge maxInt q (by decide) h1
      rw [List.take_of_length_le (by omega), List.take_of_length_le (by omega)]
    · simp only [h1, if_false]
      by_cases h2 : q ≤ (minInt : Rat)
      · simp only [h2, if_true]
        have := trunc_le_of_le minInt q h2
        have e1 : (minInt).toNat = 0 := by decide
        have e2 : (trunc q).toNat = 0 := by
          have : ¬ (0 ≤ minInt) := by decide
          omega
        rw [e1, e2]
      · simp only [h2, if_false]

theorem awkSubstr_bytes_spec (s : Bytes) (m : Num) (hL : (s.length : Int) < maxInt) (hm : m ≠ .nan) :
    awkSubstr false s m = some (s.drop (skipCount s.length m)) := by
  simp only [awkSubstr, Bool.false_eq_true, if_false, substrBytes_eq]
  rw [drop_floatToInt s s.length (Nat.le_refl _) hL m hm]

theorem awkSubstrLen_bytes_spec (s : Bytes) (m n : Num) (hL : (s.length : Int) < maxInt) (hm : m ≠ .nan) (hn : n ≠ .nan) :
    awkSubstrLen false s m n = some ((s.drop (skipCount s.length m)).take (takeCount s.length n)) := by
  simp only [awkSubstrLen, Bool.false_eq_true, if_false, substrLenBytes_eq]
  rw [drop_floatToInt s s.length (Nat.le_refl _) hL m hm]
  rw [take_floatToInt _ s.length (by simp) hL n hn]
end GoawkModel.C10
