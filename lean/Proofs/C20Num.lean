import GoawkModel.C20Num
/-! C20 — printing a number literal is a fixed point of parse-and-print; the value is kept to six significant digits. -/
namespace GoawkModel.C20Num

variable {V T : Type}

/-- printing, reading back and printing again gives the same text -/
theorem show_fixed_point (F : NumFmt V T) (L : F.Laws) (v : V) : F.show (F.parse (F.show v)) = F.show v := by
  unfold NumFmt.show
  by_cases hinf : F.isInf v = true
  · have h := L.inf_roundtrip v hinf
    simp only [hinf, if_true, h.1, h.2]
  · have hinf' : F.isInf v = false := by simpa using hinf
    by_cases hint : F.isInt v = true
    · simp only [hinf', Bool.false_eq_true, if_false, hint, if_true, L.int_roundtrip v hint]
    · have hint' : F.isInt v = false := by simpa using hint
      simp only [hinf', Bool.false_eq_true, if_false, hint']
      by_cases hr : F.isInt (F.parse (F.fmtG v)) = true
      · simp only [hr, if_true, L.int_roundtrip _ hr, L.int_finite _ hr, Bool.false_eq_true, if_false]
      · have hr' : F.isInt (F.parse (F.fmtG v)) = false := by simpa using hr
        simp only [hr', Bool.false_eq_true, if_false, L.g_finite v hinf', L.g_projection v hinf']

/-- the value read back agrees with the original to six significant digits (`%.6g` texts are equal) -/
theorem show_value_six_digits (F : NumFmt V T) (L : F.Laws) (v : V) (hinf : F.isInf v = false) :
    F.fmtG (F.parse (F.show v)) = F.fmtG v := by
  unfold NumFmt.show
  simp only [hinf, Bool.false_eq_true, if_false]
  by_cases hint : F.isInt v = true
  · simp only [hint, if_true, L.int_roundtrip v hint]
  · have hint' : F.isInt v = false := by simpa using hint
    simp only [hint', Bool.false_eq_true, if_false]
    by_cases hr : F.isInt (F.parse (F.fmtG v)) = true
    · simp only [hr, if_true, L.int_roundtrip _ hr, L.g_projection v hinf]
    · have hr' : F.isInt (F.parse (F.fmtG v)) = false := by simpa using hr
      simp only [hr', Bool.false_eq_true, if_false, L.g_projection v hinf]

/-- without the repair (print `%.6g` text whenever the value is not an integer) the fixed point fails for a formatter
    satisfying the same laws: the pre-G20-1 behaviour on `1000000.5`, abstractly (values 0 = 1000000.5, 1 = 1000000) -/
def oldShow (F : NumFmt V T) (v : V) : T :=
  if F.isInf v then F.infText v else if F.isInt v then F.fmtInt v else F.fmtG v

def toy : NumFmt Nat String where
  fmtG := fun _ => "1e+06"
  fmtInt := fun _ => "1000000"
  infText := fun _ => "1e999"
  parse := fun _ => 1
  isInt := fun v => v == 1
  isInf := fun _ => false

theorem toy_laws : toy.Laws :=
  ⟨by intro v h; simp [toy] at h ⊢; exact h.symm, by intros; rfl, by intros; rfl, by intros; rfl, by intro v h; simp [toy] at h⟩

theorem oldShow_not_fixed_point : ∃ (F : NumFmt Nat String), F.Laws ∧ ∃ v, oldShow F (F.parse (oldShow F v)) ≠ oldShow F v :=
  ⟨toy, toy_laws, 0, by decide⟩

end GoawkModel.C20Num
