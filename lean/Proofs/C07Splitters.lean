import GoawkModel.C07
import Proofs.ScannerChunk
namespace GoawkModel.C07
open GoawkModel.Scanner

theorem indexByte_lt {c : UInt8} {d : Bytes} {i : Nat} (h : indexByte c d = some i) : i < d.length := by
  induction d generalizing i with
  | nil => simp [indexByte] at h
  | cons b bs ih =>
    simp only [indexByte] at h
    split at h
    · simp at h; subst h; simp
    · cases hh : indexByte c bs with
      | none => simp [hh] at h
      | some j => simp [hh] at h; subst h; have := ih hh; simp; omega

theorem indexByte_append {c : UInt8} {d : Bytes} {i : Nat} (h : indexByte c d = some i) (ext : Bytes) :
    indexByte c (d ++ ext) = some i := by
  induction d generalizing i with
  | nil => simp [indexByte] at h
  | cons b bs ih =>
    simp only [indexByte, List.cons_append] at h ⊢
    by_cases hbc : b = c
    · simpa [hbc] using h
    · simp only [hbc, if_false] at h ⊢
      cases hh : indexByte c bs with
      | none => simp [hh] at h
      | some j => simp [hh] at h; subst h; simp [ih hh]

theorem wf_byte (c : UInt8) : WellFormed (splitByte c) where
  tokenStable := by
    intro d n r t hd h
    simp only [splitByte] at h
    simp only [Bool.false_eq_true, false_and, if_false] at h
    cases hi : indexByte c d with
    | none => simp [hi] at h
    | some i =>
      simp only [hi] at h
      injection h with h1 h2 h3
      subst h1 h2 h3
      have hlt := indexByte_lt hi
      refine ⟨by omega, by omega, ?_⟩
      intro ext eof
      have hne : d ++ ext ≠ [] := by simp [hd]
      simp only [splitByte, hne, and_false, if_false, indexByte_append hi ext]
      congr 1
      rw [List.take_append_of_le_length (by omega)]
  skipInvisible := by
    intro d n _ h
    simp only [splitByte] at h
    simp only [Bool.false_eq_true, false_and, if_false] at h
    cases hi : indexByte c d <;> simp [hi] at h

theorem wf_newline : WellFormed splitNewline where
  tokenStable := by
    intro d n r t hd h
    simp only [splitNewline] at h
    simp only [Bool.false_eq_true, false_and, if_false] at h
    cases hi : indexByte 10 d with
    | none => simp [hi] at h
    | some i =>
      simp only [hi] at h
      injection h with h1 h2 h3
      subst h1 h2 h3
      have hlt := indexByte_lt hi
      refine ⟨by omega, by omega, ?_⟩
      intro ext eof
      have hne : d ++ ext ≠ [] := by simp [hd]
      simp only [splitNewline, hne, and_false, if_false, indexByte_append hi ext]
      congr 2
      rw [List.take_append_of_le_length (by omega)]
  skipInvisible := by
    intro d n _ h
    simp only [splitNewline] at h
    simp only [Bool.false_eq_true, false_and, if_false] at h
    cases hi : indexByte 10 d <;> simp [hi] at h

end GoawkModel.C07
