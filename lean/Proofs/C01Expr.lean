import Proofs.C01Sim
/-!
# C01 Stage A — the compiler is correct on expressions

For every expression `e`: if the reference evaluator gives `eval e w = (v, w')` then the code `cExpr e`, wherever it is
placed, run from its first instruction with any stack `s`, reaches its end with stack `v :: s` and world `w'`.
-/
namespace GoawkModel.C01
variable {S : Sem}

/-- Laws relating primitive operations that the compiler's shortcuts rely on. -/
structure Laws (S : Sem) : Prop where
  toBool_ofBool : ∀ b, S.toBool (S.ofBool b) = b
  cmp_ne : ∀ a b w, S.cmp .ne a b w = !S.cmp .eq a b w
  fieldInt : ∀ c n w, c.int32? = some n → S.getFieldInt n w = S.getField (S.numV c) w
  idx_get : ∀ c n sc a w, c.int64? = some n → S.getArr sc a (S.strV (decBytes n)) w = S.getArr sc a (S.numV c) w
  idx_set : ∀ c n sc a v w, c.int64? = some n → S.setArr sc a (S.strV (decBytes n)) v w = S.setArr sc a (S.numV c) v w
  idx_in : ∀ c n sc a w, c.int64? = some n → S.inArr sc a (S.strV (decBytes n)) w = S.inArr sc a (S.numV c) w
  idx_multi_l : ∀ c n v w, c.int64? = some n → S.multiIndex [S.strV (decBytes n), v] w = S.multiIndex [S.numV c, v] w
  idx_multi_r : ∀ c n u w, c.int64? = some n → S.multiIndex [u, S.strV (decBytes n)] w = S.multiIndex [u, S.numV c] w
  /-- number-to-string conversion inside a concatenation does not depend on the world (CONVFMT is not changed while the
  operands of one concatenation chain are evaluated) -/
  concat_stable : ∀ a b w w', S.concat a b w = S.concat a b w'
  concatMulti_spec : ∀ v1 v2 rest w,
    S.concatMulti (v1 :: v2 :: rest) w = (v2 :: rest).foldl (fun acc v => S.concat acc v w) v1

/-- what the constant-subscript shortcut leaves on the stack instead of the subscript's value -/
def KeyEq (S : Sem) (v v' : S.V) : Prop :=
  v' = v ∨ ∃ c n, c.int64? = some n ∧ v = S.numV c ∧ v' = S.strV (decBytes n)

theorem KeyEq.getArr (L : Laws S) {v v' : S.V} (h : KeyEq S v v') (sc a w) : S.getArr sc a v' w = S.getArr sc a v w := by
  rcases h with rfl | ⟨c, n, hc, rfl, rfl⟩
  · rfl
  · exact L.idx_get c n sc a w hc
theorem KeyEq.setArr (L : Laws S) {v v' : S.V} (h : KeyEq S v v') (sc a x w) : S.setArr sc a v' x w = S.setArr sc a v x w := by
  rcases h with rfl | ⟨c, n, hc, rfl, rfl⟩
  · rfl
  · exact L.idx_set c n sc a x w hc
theorem KeyEq.inArr (L : Laws S) {v v' : S.V} (h : KeyEq S v v') (sc a w) : S.inArr sc a v' w = S.inArr sc a v w := by
  rcases h with rfl | ⟨c, n, hc, rfl, rfl⟩
  · rfl
  · exact L.idx_in c n sc a w hc
theorem KeyEq.multi (L : Laws S) {u u' v v' : S.V} (h1 : KeyEq S u u') (h2 : KeyEq S v v') (w) :
    S.multiIndex [u', v'] w = S.multiIndex [u, v] w := by
  rcases h1 with rfl | ⟨c, n, hc, rfl, rfl⟩ <;> rcases h2 with rfl | ⟨c2, n2, hc2, rfl, rfl⟩
  · rfl
  · exact L.idx_multi_r c2 n2 _ w hc2
  · exact L.idx_multi_l c n _ w hc
  · rw [L.idx_multi_l c n _ w hc, L.idx_multi_r c2 n2 _ w hc2]

def ExprSpec (S : Sem) (e : Expr) : Prop :=
  ∀ s w v w', eval S e w = some (v, w') → Frag S (cExpr e) s w (v :: s) w'

theorem cIdx_spec {i : Expr} (hi : ExprSpec S i) (s : List S.V) (w : S.W) (v : S.V) (w' : S.W)
    (h : eval S i w = some (v, w')) : ∃ v', KeyEq S v v' ∧ Frag S (cIdx i) s w (v' :: s) w' := by
  cases i with
  | num c =>
    cases hc : c.int64? with
    | none =>
      have : cIdx (.num c) = cExpr (.num c) := by simp [cIdx, cIdxOf, hc]
      rw [this]; exact ⟨v, .inl rfl, hi s w v w' h⟩
    | some n =>
      have : cIdx (.num c) = [.str (decBytes n)] := by simp [cIdx, cIdxOf, hc]
      rw [this]
      simp only [eval, Option.some.injEq, Prod.mk.injEq] at h
      obtain ⟨rfl, rfl⟩ := h
      exact ⟨S.strV (decBytes n), .inr ⟨c, n, hc, rfl, rfl⟩, Frag.sl (by simp [execSL, execInstr])⟩
  | _ => exact ⟨v, .inl rfl, hi s w v w' h⟩

section
open Lean Elab Tactic in
/-- unfold one step of `eval` in hypothesis `h` into existentials and equalities -/
macro "eval_inv" h:ident : tactic =>
  `(tactic| try simp only [eval, Option.bind_eq_bind, Option.bind_eq_some_iff, Prod.exists, Option.some.injEq, Prod.mk.injEq,
      Option.pure_def] at $h:ident)
end


/-! ### the left-spine view used by `concatOp` -/

def spineN (e : Expr) : Nat := (cE e).2.1
def spine (e : Expr) : Code := (cE e).2.2

theorem cE_snd (e : Expr) (h : ∀ l r, e ≠ .concat l r) : (cE e).2 = (1, (cE e).1) := by
  cases e with
  | concat l r => exact absurd rfl (h l r)
  | field e => cases e <;> simp [cE]
  | unary op e => cases op <;> simp [cE]
  | cond c t f =>
    cases c with
    | cmp op l r => cases op <;> simp [cE]
    | _ => simp [cE]
  | assign lv r => cases lv <;> simp [cE]
  | augAssign lv op r => cases lv <;> simp [cE]
  | incr lv dec pre => cases lv <;> cases pre <;> simp [cE]
  | _ => simp [cE]

theorem cExpr_concat (l r : Expr) : cExpr (.concat l r) =
    if spineN l = 1 then spine l ++ cExpr r ++ [.concat] else spine l ++ cExpr r ++ [.concatMulti (spineN l + 1)] := by
  simp only [cExpr, cE, spineN, spine]
  split <;> simp_all
theorem spine_concat (l r : Expr) : spine (.concat l r) = spine l ++ cExpr r := by simp [spine, cE, cExpr]
theorem spineN_concat (l r : Expr) : spineN (.concat l r) = spineN l + 1 := by simp [spineN, cE]

/-- the operands of the chain are pushed left to right; the chain's value is the left fold of `concat` over them -/
def SpineSpec (S : Sem) (e : Expr) : Prop :=
  ∀ s w v w', eval S e w = some (v, w') →
    ∃ (v1 : S.V) (rest : List S.V), rest.length + 1 = spineN e ∧ Frag S (spine e) s w (rest.reverse ++ v1 :: s) w' ∧
      ∀ wx, v = rest.foldl (fun acc x => S.concat acc x wx) v1

/-- specifications of the parts that the compiler compiles separately from the expression that contains them -/
def Sub (S : Sem) : Expr → Prop
  | .cmp _ l r => ExprSpec S l ∧ ExprSpec S r
  | .field ie => ExprSpec S ie
  | .index _ _ ie => ExprSpec S ie
  | _ => True

def All (S : Sem) (e : Expr) : Prop := ExprSpec S e ∧ SpineSpec S e ∧ Sub S e

theorem All.mk' {e : Expr} (hn : ∀ l r, e ≠ .concat l r) (h : ExprSpec S e) (hs : Sub S e) : All S e := by
  refine ⟨h, ?_, hs⟩
  unfold SpineSpec
  intro s w v w' hv
  have h2 := cE_snd e hn
  refine ⟨v, [], ?_, ?_, fun _ => rfl⟩
  · simp [spineN, h2]
  · have : spine e = cExpr e := by simp [spine, cExpr, h2]
    rw [this]; exact h s w v w' hv

macro "sl" : tactic => `(tactic| exact Frag.sl (by simp [execSL]))
macro "sl" "[" hs:Lean.Parser.Tactic.simpLemma,* "]" : tactic => `(tactic| exact Frag.sl (by simp [execSL, $hs,*]))
macro "nc" : tactic => `(tactic| (intro _ _ hh; cases hh))

theorem cExpr_cond (c t f : Expr) : cExpr (.cond c t f) = mkCond (cCondT c) (cJumpT c) (cExpr t) (cExpr f) := by
  cases c with
  | cmp op l r => cases op <;> simp [cExpr, cE, cCondT, cJumpT]
  | _ => simp [cExpr, cE, cCondT, cJumpT]

/-- `condition(c, invert = true)`: after the condition code, the returned jump pops the operands and is taken iff the
condition is false -/
def CondTSpec (S : Sem) (c : Expr) : Prop :=
  ∀ s w cv w1, eval S c w = some (cv, w1) →
    ∃ s1, Frag S (cCondT c) s w s1 w1 ∧ ∀ off, execInstr S (cJumpT c off) s1 w1 = some (condJump S (!S.toBool cv) off s w1)

/-- `condition(c, invert = false)`: the returned jump is taken iff the condition is true -/
def CondFSpec (S : Sem) (c : Expr) : Prop :=
  ∀ s w cv w1, eval S c w = some (cv, w1) →
    ∃ s1, Frag S (cCondF c) s w s1 w1 ∧ ∀ off, execInstr S (cJumpF c off) s1 w1 = some (condJump S (S.toBool cv) off s w1)

theorem condT_spec (L : Laws S) {c : Expr} (hc : ExprSpec S c) (hs : Sub S c) : CondTSpec S c := by
  intro s w cv w1 h
  have gen : ∀ {cv w1}, eval S c w = some (cv, w1) → cCondT c = cExpr c → cJumpT c = .jumpFalse →
      ∃ s1, Frag S (cCondT c) s w s1 w1 ∧ ∀ off, execInstr S (cJumpT c off) s1 w1 = some (condJump S (!S.toBool cv) off s w1) := by
    intro cv w1 h h1 h2; rw [h1, h2]
    exact ⟨cv :: s, hc s w cv w1 h, fun off => by simp⟩
  cases c with
  | cmp op l r =>
    obtain ⟨hl, hr⟩ := hs
    have h0 := h
    eval_inv h
    obtain ⟨lv, w0, hlv, rv, w1, hrv, rfl, rfl⟩ := h
    have fl : Frag S (cExpr l) s w (lv :: s) w0 := hl _ _ _ _ hlv
    have fr : Frag S (cExpr r) (lv :: s) w0 (rv :: lv :: s) w1 := hr _ _ _ _ hrv
    cases op with
    | eq => exact ⟨rv :: lv :: s, by simpa [cCondT] using fl.append fr, fun off => by simp [cJumpT, L.toBool_ofBool, L.cmp_ne]⟩
    | ne =>
      refine ⟨rv :: lv :: s, by simpa [cCondT] using fl.append fr, fun off => ?_⟩
      simp [cJumpT, L.toBool_ofBool, L.cmp_ne]
    | _ => exact gen h0 (by simp [cCondT]) (by funext o; simp [cJumpT])
  | _ => exact gen h (by simp [cCondT]) (by funext o; simp [cJumpT])

theorem condF_spec (L : Laws S) {c : Expr} (hc : ExprSpec S c) (hs : Sub S c) : CondFSpec S c := by
  intro s w cv w1 h
  cases c with
  | cmp op l r =>
    obtain ⟨hl, hr⟩ := hs
    eval_inv h
    obtain ⟨lv, w0, hlv, rv, w1, hrv, rfl, rfl⟩ := h
    have fl : Frag S (cExpr l) s w (lv :: s) w0 := hl _ _ _ _ hlv
    have fr : Frag S (cExpr r) (lv :: s) w0 (rv :: lv :: s) w1 := hr _ _ _ _ hrv
    exact ⟨rv :: lv :: s, by simpa [cCondF] using fl.append fr, fun off => by simp [cJumpF, L.toBool_ofBool]⟩
  | _ => exact ⟨cv :: s, by simpa [cCondF] using hc s w cv w1 h, fun off => by simp [cJumpF]⟩

/-- a two-armed conditional built by `mkCond` -/
theorem mkCond_frag {cc ct cf : Code} {j : Int → Instr} {s s1 s' : List S.V} {w w1 w' : S.W} {b : Bool}
    (hcc : Frag S cc s w s1 w1)
    (hj : ∀ off, execInstr S (j off) s1 w1 = some (condJump S (!b) off s w1))
    (ht : b = true → Frag S ct s w1 s' w') (hf : b = false → Frag S cf s w1 s' w') :
    Frag S (mkCond cc j ct cf) s w s' w' := by
  unfold mkCond
  cases b with
  | true =>
    have f2 : Frag S [j (csize ct + 2)] s1 w1 s w1 := Frag.instr (by simp [hj])
    have f4 : Frag S (.jump (csize cf) :: cf) s' w' s' w' := Frag.jumpOver (by simp)
    simpa using ((hcc.append f2).append (ht rfl)).append f4
  | false =>
    have f2 : Frag S (j (csize ct + 2) :: (ct ++ [.jump (csize cf)])) s1 w1 s w1 :=
      Frag.jumpOver (by simp [hj, Instr.size])
    simpa using (hcc.append f2).append (hf rfl)

theorem evalList_length : ∀ (args : List Expr) (w : S.W) (vs : List S.V) (w' : S.W),
    evalList S args w = some (vs, w') → vs.length = args.length
  | [], w, vs, w', h => by
    simp only [evalList, Option.some.injEq, Prod.mk.injEq] at h
    obtain ⟨rfl, rfl⟩ := h; rfl
  | e :: es, w, vs, w', h => by
    simp only [evalList, Option.bind_eq_bind, Option.bind_eq_some_iff, Prod.exists, Option.some.injEq, Prod.mk.injEq] at h
    obtain ⟨v, w1, he, vs', w2, hes, rfl, rfl⟩ := h
    simp [evalList_length es w1 vs' w2 hes]

/-- an expression list pushes its values left to right -/
def ListSpec (S : Sem) (es : List Expr) : Prop :=
  ∀ s w vs w', evalList S es w = some (vs, w') → Frag S (cEs es) s w (vs.reverse ++ s) w'

mutual
theorem expr_all (L : Laws S) : ∀ e, All S e
  | .num c => All.mk' (by nc) (by
      intro s w v w' h
      eval_inv h; obtain ⟨rfl, rfl⟩ := h
      have : cExpr (.num c) = [.num c] := by simp [cExpr, cE]
      rw [this]; sl) trivial
  | .str b => All.mk' (by nc) (by
      intro s w v w' h
      eval_inv h; obtain ⟨rfl, rfl⟩ := h
      have : cExpr (.str b) = [.str b] := by simp [cExpr, cE]
      rw [this]; sl) trivial
  | .var sc i => All.mk' (by nc) (by
      intro s w v w' h
      eval_inv h; obtain ⟨rfl, rfl⟩ := h
      have : cExpr (.var sc i) = [.getVar sc i] := by simp [cExpr, cE]
      rw [this]; sl) trivial
  | .group e => All.mk' (by nc) (by
      intro s w v w' h
      have : cExpr (.group e) = cExpr e := by simp [cExpr, cE]
      rw [this]; exact (expr_all L e).1 s w v w' (by simpa [eval] using h)) trivial
  | .field e => All.mk' (by nc) (by
      have ih := (expr_all L e).1
      intro s w v w' h
      eval_inv h
      obtain ⟨iv, w1, he, rfl, rfl⟩ := h
      have gen : cExpr (.field e) = cExpr e ++ [.field] → Frag S (cExpr (.field e)) s w (S.getField iv w1 :: s) w1 := by
        intro hc; rw [hc]
        have f1 : Frag S (cExpr e) s w (iv :: s) w1 := ih s w iv w1 he
        have f2 : Frag S [.field] (iv :: s) w1 (S.getField iv w1 :: s) w1 := by sl
        exact f1.append f2
      cases e with
      | num c =>
        eval_inv he; obtain ⟨rfl, rfl⟩ := he
        cases hc : c.int32? with
        | none => exact gen (by simp [cExpr, cE, hc])
        | some n =>
          have : cExpr (.field (.num c)) = [.fieldInt n] := by simp [cExpr, cE, hc]
          rw [this]
          sl [L.fieldInt c n w hc]
      | _ => exact gen (by simp [cExpr, cE])) (expr_all L e).1
  | .index sc a i => All.mk' (by nc) (by
      intro s w v w' h
      eval_inv h
      obtain ⟨iv, w1, hi, hg⟩ := h
      obtain ⟨iv', hk, fi⟩ := cIdx_spec (expr_all L i).1 s w iv w1 hi
      have hc : cExpr (.index sc a i) = cIdx i ++ [.arrGet sc a] := by simp [cExpr, cE, cIdx]
      rw [hc]
      have f2 : Frag S [.arrGet sc a] (iv' :: s) w1 (v :: s) w' := by
        sl [hk.getArr L, hg]
      exact fi.append f2) (expr_all L i).1
  | .multi i j => All.mk' (by nc) (by
      intro s w v w' h
      eval_inv h
      obtain ⟨iv, w1, hi, jv, w', hj, rfl, rfl⟩ := h
      obtain ⟨iv', hk, fi⟩ := cIdx_spec (expr_all L i).1 s w iv w1 hi
      obtain ⟨jv', hk2, fj⟩ := cIdx_spec (expr_all L j).1 (iv' :: s) w1 jv w' hj
      have hc : cExpr (.multi i j) = cIdx i ++ cIdx j ++ [.indexMulti 2] := by simp [cExpr, cE, cIdx]
      rw [hc]
      have f3 : Frag S [.indexMulti 2] (jv' :: iv' :: s) w' (S.multiIndex [iv, jv] w' :: s) w' := by
        sl [KeyEq.multi L hk hk2]
      exact (fi.append fj).append f3) trivial
  | .inArr i sc a => All.mk' (by nc) (by
      intro s w v w' h
      eval_inv h
      obtain ⟨iv, w', hi, rfl, rfl⟩ := h
      obtain ⟨iv', hk, fi⟩ := cIdx_spec (expr_all L i).1 s w iv w' hi
      have hc : cExpr (.inArr i sc a) = cIdx i ++ [.arrIn sc a] := by simp [cExpr, cE, cIdx]
      rw [hc]
      have f2 : Frag S [.arrIn sc a] (iv' :: s) w' (S.ofBool (S.inArr sc a iv w') :: s) w' := by
        sl [hk.inArr L]
      exact fi.append f2) trivial
  | .arith op l r => All.mk' (by nc) (by
      intro s w v w' h
      eval_inv h
      obtain ⟨lv, w1, hl, rv, w', hr, v, hx, rfl, rfl⟩ := h
      have hc : cExpr (.arith op l r) = cExpr l ++ cExpr r ++ [.arith op] := by simp [cExpr, cE]
      rw [hc]
      have f1 : Frag S (cExpr l) s w (lv :: s) w1 := (expr_all L l).1 _ _ _ _ hl
      have f2 : Frag S (cExpr r) (lv :: s) w1 (rv :: lv :: s) w' := (expr_all L r).1 _ _ _ _ hr
      have f3 : Frag S [.arith op] (rv :: lv :: s) w' (v :: s) w' := by sl [hx]
      exact (f1.append f2).append f3) trivial
  | .cmp op l r => All.mk' (by nc) (by
      intro s w v w' h
      eval_inv h
      obtain ⟨lv, w1, hl, rv, w', hr, rfl, rfl⟩ := h
      have hc : cExpr (.cmp op l r) = cExpr l ++ cExpr r ++ [.cmp op] := by simp [cExpr, cE]
      rw [hc]
      have f1 : Frag S (cExpr l) s w (lv :: s) w1 := (expr_all L l).1 _ _ _ _ hl
      have f2 : Frag S (cExpr r) (lv :: s) w1 (rv :: lv :: s) w' := (expr_all L r).1 _ _ _ _ hr
      have f3 : Frag S [.cmp op] (rv :: lv :: s) w' (S.ofBool (S.cmp op lv rv w') :: s) w' := by sl
      exact (f1.append f2).append f3) ⟨(expr_all L l).1, (expr_all L r).1⟩
  | .unary op e => All.mk' (by nc) (by
      intro s w v w' h
      have ih := (expr_all L e).1
      cases op with
      | neg =>
        eval_inv h; obtain ⟨x, w', he, rfl, rfl⟩ := h
        have hc : cExpr (.unary .neg e) = cExpr e ++ [.neg] := by simp [cExpr, cE]
        rw [hc]
        have f2 : Frag S [.neg] (x :: s) w' (S.unop .neg x :: s) w' := by sl
        exact (ih _ _ _ _ he).append f2
      | plus =>
        eval_inv h; obtain ⟨x, w', he, rfl, rfl⟩ := h
        have hc : cExpr (.unary .plus e) = cExpr e ++ [.plus] := by simp [cExpr, cE]
        rw [hc]
        have f2 : Frag S [.plus] (x :: s) w' (S.unop .plus x :: s) w' := by sl
        exact (ih _ _ _ _ he).append f2
      | not =>
        eval_inv h; obtain ⟨x, w', he, rfl, rfl⟩ := h
        have hc : cExpr (.unary .not e) = cExpr e ++ [.not] := by simp [cExpr, cE]
        rw [hc]
        have f2 : Frag S [.not] (x :: s) w' (S.ofBool (!S.toBool x) :: s) w' := by sl
        exact (ih _ _ _ _ he).append f2) trivial
  | .and l r => All.mk' (by nc) (by
      intro s w v w' h
      eval_inv h
      obtain ⟨lv, w1, hl, h⟩ := h
      have hc : cExpr (.and l r) = cExpr l ++ ([.dupe] ++ (.jumpFalse (csize ([.drop] ++ cExpr r)) :: ([.drop] ++ cExpr r)) ++ [.boolean]) := by
        simp [cExpr, cE, Instr.size]
      rw [hc]
      have f1 : Frag S (cExpr l) s w (lv :: s) w1 := (expr_all L l).1 _ _ _ _ hl
      have f2 : Frag S [.dupe] (lv :: s) w1 (lv :: lv :: s) w1 := by sl
      cases hb : S.toBool lv with
      | true =>
        simp only [hb, if_true] at h
        eval_inv h
        obtain ⟨rv, w', hr, rfl, rfl⟩ := h
        have f3 : Frag S [.jumpFalse (csize ([.drop] ++ cExpr r))] (lv :: lv :: s) w1 (lv :: s) w1 := by sl [hb]
        have f4 : Frag S [.drop] (lv :: s) w1 s w1 := by sl
        have f5 : Frag S (cExpr r) s w1 (rv :: s) w' := (expr_all L r).1 _ _ _ _ hr
        have f6 : Frag S [.boolean] (rv :: s) w' (S.ofBool (S.toBool rv) :: s) w' := by sl
        exact f1.append ((f2.append (f3.append (f4.append f5))).append f6)
      | false =>
        simp only [hb, Bool.false_eq_true, if_false] at h
        eval_inv h
        obtain ⟨hv, hw⟩ := h
        rw [← hv, ← hw]
        have f3 : Frag S (.jumpFalse (csize ([.drop] ++ cExpr r)) :: ([.drop] ++ cExpr r)) (lv :: lv :: s) w1 (lv :: s) w1 :=
          Frag.jumpOver (by simp [hb])
        have f6 : Frag S [.boolean] (lv :: s) w1 (S.ofBool false :: s) w1 := by sl [hb]
        exact f1.append ((f2.append f3).append f6)) trivial
  | .or l r => All.mk' (by nc) (by
      intro s w v w' h
      eval_inv h
      obtain ⟨lv, w1, hl, h⟩ := h
      have hc : cExpr (.or l r) = cExpr l ++ ([.dupe] ++ (.jumpTrue (csize ([.drop] ++ cExpr r)) :: ([.drop] ++ cExpr r)) ++ [.boolean]) := by
        simp [cExpr, cE, Instr.size]
      rw [hc]
      have f1 : Frag S (cExpr l) s w (lv :: s) w1 := (expr_all L l).1 _ _ _ _ hl
      have f2 : Frag S [.dupe] (lv :: s) w1 (lv :: lv :: s) w1 := by sl
      cases hb : S.toBool lv with
      | false =>
        simp only [hb, Bool.false_eq_true, if_false] at h
        eval_inv h
        obtain ⟨rv, w', hr, rfl, rfl⟩ := h
        have f3 : Frag S [.jumpTrue (csize ([.drop] ++ cExpr r))] (lv :: lv :: s) w1 (lv :: s) w1 := by sl [hb]
        have f4 : Frag S [.drop] (lv :: s) w1 s w1 := by sl
        have f5 : Frag S (cExpr r) s w1 (rv :: s) w' := (expr_all L r).1 _ _ _ _ hr
        have f6 : Frag S [.boolean] (rv :: s) w' (S.ofBool (S.toBool rv) :: s) w' := by sl
        exact f1.append ((f2.append (f3.append (f4.append f5))).append f6)
      | true =>
        simp only [hb, if_true] at h
        eval_inv h
        obtain ⟨hv, hw⟩ := h
        rw [← hv, ← hw]
        have f3 : Frag S (.jumpTrue (csize ([.drop] ++ cExpr r)) :: ([.drop] ++ cExpr r)) (lv :: lv :: s) w1 (lv :: s) w1 :=
          Frag.jumpOver (by simp [hb])
        have f6 : Frag S [.boolean] (lv :: s) w1 (S.ofBool true :: s) w1 := by sl [hb]
        exact f1.append ((f2.append f3).append f6)) trivial
  | .cond c t f => All.mk' (by nc) (by
      intro s w v w' h
      eval_inv h
      obtain ⟨cv, w1, hcv, h⟩ := h
      rw [cExpr_cond]
      obtain ⟨s1, fc, hj⟩ := condT_spec L (expr_all L c).1 (expr_all L c).2.2 s w cv w1 hcv
      refine mkCond_frag (b := S.toBool cv) fc hj ?_ ?_
      · intro hb; rw [hb] at h; exact (expr_all L t).1 _ _ _ _ (by simpa using h)
      · intro hb; rw [hb] at h; exact (expr_all L f).1 _ _ _ _ (by simpa using h)) trivial
  | .concat l r => by
    have hsp : SpineSpec S (.concat l r) := by
      intro s w v w' h
      eval_inv h
      obtain ⟨lv, w1, hl, rv, w', hr, rfl, rfl⟩ := h
      obtain ⟨v1, rest, hn, fl, hv⟩ := (expr_all L l).2.1 s w lv w1 hl
      have fr : Frag S (cExpr r) (rest.reverse ++ v1 :: s) w1 (rv :: (rest.reverse ++ v1 :: s)) w' := (expr_all L r).1 _ _ _ _ hr
      refine ⟨v1, rest ++ [rv], by simp [spineN_concat, hn], ?_, ?_⟩
      · rw [spine_concat]; simpa using fl.append fr
      · intro wx
        rw [List.foldl_append, ← hv wx]
        simp [L.concat_stable lv rv w' wx]
    refine ⟨?_, hsp, trivial⟩
    intro s w v w' h
    eval_inv h
    obtain ⟨lv, w1, hl, rv, w', hr, rfl, rfl⟩ := h
    obtain ⟨v1, rest, hn, fl, hv⟩ := (expr_all L l).2.1 s w lv w1 hl
    have fr : Frag S (cExpr r) (rest.reverse ++ v1 :: s) w1 (rv :: (rest.reverse ++ v1 :: s)) w' := (expr_all L r).1 _ _ _ _ hr
    rw [cExpr_concat]
    split
    · rename_i h1
      have : rest = [] := by
        cases rest with
        | nil => rfl
        | cons _ _ => simp at hn; omega
      subst this
      have f3 : Frag S [.concat] (rv :: v1 :: s) w' (S.concat lv rv w' :: s) w' := by
        have := hv w'; simp at this; subst this; sl
      simpa using (fl.append fr).append f3
    · rename_i h1
      obtain ⟨v2, rest', rfl⟩ : ∃ v2 rest', rest = v2 :: rest' := by
        cases rest with
        | nil => simp at hn; omega
        | cons a b => exact ⟨a, b, rfl⟩
      have f3 : Frag S [.concatMulti (spineN l + 1)] (rv :: ((v2 :: rest').reverse ++ v1 :: s)) w' (S.concat lv rv w' :: s) w' := by
        have hlen : spineN l + 1 = (rv :: ((v2 :: rest').reverse ++ [v1])).length := by simp at hn ⊢; omega
        have hst : rv :: ((v2 :: rest').reverse ++ v1 :: s) = (rv :: ((v2 :: rest').reverse ++ [v1])) ++ s := by simp
        apply Frag.sl
        rw [hst]
        simp only [execSL, ex_concatMulti, hlen, List.length_append, Nat.le_add_right, if_true, List.take_left', List.drop_left']
        have : (rv :: ((v2 :: rest').reverse ++ [v1])).reverse = v1 :: v2 :: (rest' ++ [rv]) := by simp
        rw [this, L.concatMulti_spec, ← List.cons_append, List.foldl_append, ← hv w']
        simp
      simpa using (fl.append fr).append f3
  | .assign lv r => All.mk' (by nc) (by
      intro s w v w' h
      have ihr := (expr_all L r).1
      have hsub := (expr_all L lv).2.2
      cases lv with
      | var sc i =>
        eval_inv h
        obtain ⟨v, w1, hr, w', hs, rfl, rfl⟩ := h
        have hc : cExpr (.assign (.var sc i) r) = cExpr r ++ [.dupe, .assignVar sc i] := by simp [cExpr, cE]
        rw [hc]
        have f1 : Frag S (cExpr r) s w (v :: s) w1 := ihr _ _ _ _ hr
        have f2 : Frag S [.dupe, .assignVar sc i] (v :: s) w1 (v :: s) w' := by sl [hs]
        exact f1.append f2
      | field ie =>
        eval_inv h
        obtain ⟨v, w1, hr, iv, w2, hi, w', hs, rfl, rfl⟩ := h
        have hc : cExpr (.assign (.field ie) r) = cExpr r ++ [.dupe] ++ cExpr ie ++ [.assignField] := by simp [cExpr, cE]
        rw [hc]
        have f1 : Frag S (cExpr r) s w (v :: s) w1 := ihr _ _ _ _ hr
        have f2 : Frag S [.dupe] (v :: s) w1 (v :: v :: s) w1 := by sl
        have f3 : Frag S (cExpr ie) (v :: v :: s) w1 (iv :: v :: v :: s) w2 := hsub _ _ _ _ hi
        have f4 : Frag S [.assignField] (iv :: v :: v :: s) w2 (v :: s) w' := by sl [hs]
        exact ((f1.append f2).append f3).append f4
      | index sc a ie =>
        eval_inv h
        obtain ⟨v, w1, hr, iv, w2, hi, rfl, rfl⟩ := h
        have hc : cExpr (.assign (.index sc a ie) r) = cExpr r ++ [.dupe] ++ cIdx ie ++ [.arrAssign sc a] := by
          simp [cExpr, cE, cIdx]
        rw [hc]
        have f1 : Frag S (cExpr r) s w (v :: s) w1 := ihr _ _ _ _ hr
        have f2 : Frag S [.dupe] (v :: s) w1 (v :: v :: s) w1 := by sl
        obtain ⟨iv', hk, f3⟩ := cIdx_spec hsub (v :: v :: s) w1 iv w2 hi
        have f4 : Frag S [.arrAssign sc a] (iv' :: v :: v :: s) w2 (v :: s) (S.setArr sc a iv v w2) := by sl [hk.setArr L]
        exact ((f1.append f2).append f3).append f4
      | _ => simp [eval] at h) trivial
  | .augAssign lv op r => All.mk' (by nc) (by
      intro s w v w' h
      have ihr := (expr_all L r).1
      have hsub := (expr_all L lv).2.2
      cases lv with
      | var sc i =>
        eval_inv h
        obtain ⟨rv, w1, hr, v, hx, w', hs, rfl, rfl⟩ := h
        have hc : cExpr (.augAssign (.var sc i) op r) = cExpr r ++ [.getVar sc i, .swap, .arith op, .dupe, .assignVar sc i] := by
          simp [cExpr, cE]
        rw [hc]
        have f1 : Frag S (cExpr r) s w (rv :: s) w1 := ihr _ _ _ _ hr
        have f2 : Frag S [.getVar sc i, .swap, .arith op, .dupe, .assignVar sc i] (rv :: s) w1 (v :: s) w' := by sl [hx, hs]
        exact f1.append f2
      | field ie =>
        eval_inv h
        obtain ⟨rv, w1, hr, iv, w2, hi, v, hx, w', hs, rfl, rfl⟩ := h
        have hc : cExpr (.augAssign (.field ie) op r) =
            cExpr r ++ cExpr ie ++ [.dupe, .field, .rote, .arith op, .dupe, .rote, .assignField] := by simp [cExpr, cE]
        rw [hc]
        have f1 : Frag S (cExpr r) s w (rv :: s) w1 := ihr _ _ _ _ hr
        have f2 : Frag S (cExpr ie) (rv :: s) w1 (iv :: rv :: s) w2 := hsub _ _ _ _ hi
        have f3 : Frag S [.dupe, .field, .rote, .arith op, .dupe, .rote, .assignField] (iv :: rv :: s) w2 (v :: s) w' := by
          sl [hx, hs]
        exact (f1.append f2).append f3
      | index sc a ie =>
        eval_inv h
        obtain ⟨rv, w1, hr, iv, w2, hi, v, hx, rfl, rfl⟩ := h
        have hc : cExpr (.augAssign (.index sc a ie) op r) =
            cExpr r ++ cIdx ie ++ [.dupe, .arrGet sc a, .rote, .arith op, .dupe, .rote, .arrAssign sc a] := by
          simp [cExpr, cE, cIdx]
        rw [hc]
        have f1 : Frag S (cExpr r) s w (rv :: s) w1 := ihr _ _ _ _ hr
        obtain ⟨iv', hk, f2⟩ := cIdx_spec hsub (rv :: s) w1 iv w2 hi
        have f3 : Frag S [.dupe, .arrGet sc a, .rote, .arith op, .dupe, .rote, .arrAssign sc a] (iv' :: rv :: s) w2
            (v :: s) (S.setArr sc a iv v (S.getArr sc a iv w2).2) := by
          sl [hk.getArr L, hk.setArr L, hx]
        exact (f1.append f2).append f3
      | _ => simp [eval] at h) trivial
  | .incr lv dec pre => All.mk' (by nc) (by
      intro s w v w' h
      have hsub := (expr_all L lv).2.2
      cases lv with
      | var sc i =>
        cases pre with
        | true =>
          eval_inv h
          simp only [if_true] at h
          obtain ⟨v, hx, w', hs, rfl, rfl⟩ := h
          have hc : cExpr (.incr (.var sc i) dec true) = [.getVar sc i, .num .one, .arith (incrArith dec), .dupe, .assignVar sc i] := by
            simp [cExpr, cE]
          rw [hc]; sl [hx, hs]
        | false =>
          eval_inv h
          simp only [Bool.false_eq_true, if_false] at h
          obtain ⟨x, hx, w', hs, rfl, rfl⟩ := h
          have hc : cExpr (.incr (.var sc i) dec false) =
              [.getVar sc i, .plus, .dupe, .num .one, .arith (incrArith dec), .assignVar sc i] := by simp [cExpr, cE]
          rw [hc]; sl [hx, hs]
      | field ie =>
        cases pre with
        | true =>
          eval_inv h
          simp only [if_true] at h
          obtain ⟨iv, w1, hi, v, hx, w', hs, rfl, rfl⟩ := h
          have hc : cExpr (.incr (.field ie) dec true) =
              cExpr ie ++ [.dupe, .field, .num .one, .arith (incrArith dec), .dupe, .rote, .assignField] := by simp [cExpr, cE]
          rw [hc]
          have f1 : Frag S (cExpr ie) s w (iv :: s) w1 := hsub _ _ _ _ hi
          have f2 : Frag S [.dupe, .field, .num .one, .arith (incrArith dec), .dupe, .rote, .assignField] (iv :: s) w1 (v :: s) w' := by
            sl [hx, hs]
          exact f1.append f2
        | false =>
          eval_inv h
          simp only [Bool.false_eq_true, if_false] at h
          obtain ⟨iv, w1, hi, x, hx, w', hs, rfl, rfl⟩ := h
          have hc : cExpr (.incr (.field ie) dec false) =
              cExpr ie ++ [.dupe, .field, .plus, .dupe, .num .one, .arith (incrArith dec), .rote, .assignField] := by simp [cExpr, cE]
          rw [hc]
          have f1 : Frag S (cExpr ie) s w (iv :: s) w1 := hsub _ _ _ _ hi
          have f2 : Frag S [.dupe, .field, .plus, .dupe, .num .one, .arith (incrArith dec), .rote, .assignField] (iv :: s) w1
              (S.unop .plus (S.getField iv w1) :: s) w' := by
            sl [hx, hs]
          exact f1.append f2
      | index sc a ie =>
        cases pre with
        | true =>
          eval_inv h
          simp only [if_true] at h
          obtain ⟨iv, w1, hi, v, hx, rfl, rfl⟩ := h
          have hc : cExpr (.incr (.index sc a ie) dec true) =
              cIdx ie ++ [.dupe, .arrGet sc a, .num .one, .arith (incrArith dec), .dupe, .rote, .arrAssign sc a] := by
            simp [cExpr, cE, cIdx]
          rw [hc]
          obtain ⟨iv', hk, f1⟩ := cIdx_spec hsub s w iv w1 hi
          have f2 : Frag S [.dupe, .arrGet sc a, .num .one, .arith (incrArith dec), .dupe, .rote, .arrAssign sc a] (iv' :: s) w1
              (v :: s) (S.setArr sc a iv v (S.getArr sc a iv w1).2) := by
            sl [hk.getArr L, hk.setArr L, hx]
          exact f1.append f2
        | false =>
          eval_inv h
          simp only [Bool.false_eq_true, if_false] at h
          obtain ⟨iv, w1, hi, x, hx, rfl, rfl⟩ := h
          have hc : cExpr (.incr (.index sc a ie) dec false) =
              cIdx ie ++ [.dupe, .arrGet sc a, .plus, .dupe, .num .one, .arith (incrArith dec), .rote, .arrAssign sc a] := by
            simp [cExpr, cE, cIdx]
          rw [hc]
          obtain ⟨iv', hk, f1⟩ := cIdx_spec hsub s w iv w1 hi
          have f2 : Frag S [.dupe, .arrGet sc a, .plus, .dupe, .num .one, .arith (incrArith dec), .rote, .arrAssign sc a] (iv' :: s) w1
              (S.unop .plus (S.getArr sc a iv w1).1 :: s) (S.setArr sc a iv x (S.getArr sc a iv w1).2) := by
            sl [hk.getArr L, hk.setArr L, hx]
          exact f1.append f2
      | _ => simp [eval] at h) trivial

  | .call f nsc args arrs => All.mk' (by nc) (by
      intro s w v w' h
      eval_inv h
      obtain ⟨vs, w1, hargs, hcall⟩ := h
      have hl := evalList_length args w vs w1 hargs
      have hc : cExpr (.call f nsc args arrs) =
          cEs args ++ (if args.length < nsc then [Instr.nulls (nsc - args.length)] else []) ++ [.callUser f nsc arrs] := by
        simp [cExpr, cE]
      rw [hc]
      have f1 : Frag S (cEs args) s w (vs.reverse ++ s) w1 := exprs_all L args s w vs w1 hargs
      by_cases hle : vs.length ≤ nsc
      · rw [if_pos hle] at hcall
        have f2 : Frag S (if args.length < nsc then [Instr.nulls (nsc - args.length)] else []) (vs.reverse ++ s) w1
            (List.replicate (nsc - vs.length) S.nullV ++ (vs.reverse ++ s)) w1 := by
          by_cases hlt : args.length < nsc
          · rw [if_pos hlt, hl]; sl
          · rw [if_neg hlt]
            have : nsc - vs.length = 0 := by omega
            rw [this]; simpa using Frag.nil (vs.reverse ++ s) w1
        have f3 : Frag S [.callUser f nsc arrs] (List.replicate (nsc - vs.length) S.nullV ++ (vs.reverse ++ s)) w1 (v :: s) w' := by
          have hX : (List.replicate (nsc - vs.length) S.nullV ++ vs.reverse).length = nsc := by simp; omega
          have hst : List.replicate (nsc - vs.length) S.nullV ++ (vs.reverse ++ s) =
              (List.replicate (nsc - vs.length) S.nullV ++ vs.reverse) ++ s := by simp
          have ht := List.take_left' (l₂ := s) hX
          have hd := List.drop_left' (l₂ := s) hX
          apply Frag.sl
          rw [hst]
          simp only [execSL, ex_callUser]
          rw [if_pos (by rw [List.length_append]; omega), ht, hd]
          simp [hcall]
        exact (f1.append f2).append f3
      · rw [if_neg hle] at hcall; simp at hcall) trivial

theorem exprs_all (L : Laws S) : ∀ es, ListSpec S es
  | [] => by
    intro s w vs w' h
    simp only [evalList, Option.some.injEq, Prod.mk.injEq] at h
    obtain ⟨rfl, rfl⟩ := h
    simpa [cEs] using Frag.nil s w
  | e :: es => by
    intro s w vs w' h
    simp only [evalList, Option.bind_eq_bind, Option.bind_eq_some_iff, Prod.exists, Option.some.injEq, Prod.mk.injEq] at h
    obtain ⟨v, w1, he, vs', w2, hes, rfl, rfl⟩ := h
    have f1 : Frag S (cExpr e) s w (v :: s) w1 := (expr_all L e).1 _ _ _ _ he
    have f2 := exprs_all L es (v :: s) w1 vs' w2 hes
    have hc : cEs (e :: es) = cExpr e ++ cEs es := by simp [cEs, cExpr]
    rw [hc]
    simpa using f1.append f2
end

end GoawkModel.C01
