import GoawkModel.C11
/-! Lifting lemma for the C11 machine: a predicate preserved by every compound step of the machine (`Stable`) holds
after any program, on any world, for any fuel (`run_preserves`) — by mutual induction over the nested operations, then over
the rule list, the main loop's fuel and the three phases of `run`. -/
namespace GoawkModel.C11

/-- the hypotheses of the lifting lemma: `P` is preserved by every compound step of the machine -/
def Event.isPlain : Event → Bool
  | .ctl _ none => true
  | .print _ => true
  | _ => false

structure StableOps (P : St → Prop) : Prop where
  emit : ∀ s tag, P s → P (s.doEmit tag)
  ev : ∀ s e, e.isPlain = true → P s → P (s.emitEv e)
  exitSome : ∀ s n, P s → P ((s.setStatus n).emitEv (.ctl 3 (some n)))
  gl : ∀ s, P s → P (doGetline s)
  glv : ∀ s v, P s → P (doGetlineVar s v)
  glf : ∀ s f, P s → P (doGetlineFile s f)
  glvf : ∀ s v f, P s → P (doGetlineVarFile s v f)
  argv : ∀ s i v, P s → P (s.setArgv i v)
  argc : ∀ s n, P s → P (s.setArgc n)
  close : ∀ s f, P s → P (s.closeStream f)
  fname : ∀ s v, P s → P (s.assignFilename v)
  fsep : ∀ s v, P s → P (s.assignFs v)
  enter : ∀ s, P s → P s.enterCall
  leave : ∀ s, P s → P s.leaveCall

/-- … and by the steps of the main loop itself -/
structure Stable (P : St → Prop) : Prop extends StableOps P where
  take : ∀ s r s1, P s → nextLine s = (.got r, s1) → P (s1.beginRecord r)
  eof : ∀ s s1, P s → nextLine s = (.eof, s1) → P s1
  err : ∀ s s1, P s → nextLine s = (.err, s1) → P s1
  nextfile : ∀ s, P s → P s.dropScanner
  visit : ∀ s v, P s → P { s with visits := v :: s.visits }

theorem iter_preserves {P : St → Prop} (f : St → Sig × St) (hf : ∀ s, P s → P (f s).2) :
    ∀ n s, P s → P (iter f n s).2
  | 0, s, h => h
  | n + 1, s, h => by
    have h1 := hf s h
    unfold iter
    rcases hfs : f s with ⟨sig, s1⟩
    rw [hfs] at h1
    cases sig <;> simp <;> first | exact iter_preserves f hf n s1 h1 | exact h1

mutual
theorem execOp_preserves {P : St → Prop} (hP : StableOps P) : ∀ (o : Op) (s : St), P s → P (execOp o s).2
  | .emit tag, s, h => by simp [execOp]; exact hP.emit s tag h
  | .next, s, h => by simp [execOp]; exact hP.ev s _ rfl h
  | .nextfile, s, h => by simp [execOp]; exact hP.ev s _ rfl h
  | .exit none, s, h => by simp [execOp]; exact hP.ev s _ rfl h
  | .exit (some n), s, h => by simp [execOp]; exact hP.exitSome s n h
  | .getline, s, h => by simp [execOp]; exact hP.gl s h
  | .getlineVar v, s, h => by simp [execOp]; exact hP.glv s v h
  | .getlineFile f, s, h => by simp [execOp]; exact hP.glf s f h
  | .getlineVarFile v f, s, h => by simp [execOp]; exact hP.glvf s v f h
  | .call body, s, h => by
    simp only [execOp]
    split
    · exact h
    · exact hP.leave _ (execOps_preserves hP body _ (hP.enter s h))
  | .loop n body, s, h => by
    simp [execOp]
    exact iter_preserves _ (fun s hs => execOps_preserves hP body s hs) n s h
  | .cond c body, s, h => by
    simp [execOp]
    split
    · exact execOps_preserves hP body s h
    · exact h
  | .setArgv i v, s, h => by simp [execOp]; exact hP.argv s i v h
  | .setArgc n, s, h => by simp [execOp]; exact hP.argc s n h
  | .close f, s, h => by simp [execOp]; exact hP.close s f h
  | .setFilename v, s, h => by simp [execOp]; exact hP.fname s v h
  | .setFs v, s, h => by simp [execOp]; exact hP.fsep s v h
theorem execOps_preserves {P : St → Prop} (hP : StableOps P) : ∀ (os : List Op) (s : St), P s → P (execOps os s).2
  | [], s, h => by simp [execOps]; exact h
  | o :: os, s, h => by
    have h1 := execOp_preserves hP o s h
    unfold execOps
    rcases ho : execOp o s with ⟨sig, s1⟩
    rw [ho] at h1
    cases sig <;> simp <;> first | exact execOps_preserves hP os s1 h1 | exact h1
end


theorem logVisit_preserves {P : St → Prop} (hv : ∀ s v, P s → P { s with visits := v :: s.visits })
    (s : St) (i : Nat) (p : Pat) (f : Bool) (h : P s) : P (s.logVisit i p f) := by
  unfold St.logVisit
  split
  · exact hv s _ h
  · exact h

theorem runRules_preserves {P : St → Prop} (hP : Stable P) :
    ∀ (i : Nat) (rules : List Rule) (fl : List Bool) (s : St), P s → P (runRules i rules fl s).2.2
  | _, [], fl, s, h => by simp [runRules]; exact h
  | _, _ :: _, [], s, h => by simp [runRules]; exact h
  | i, r :: rs, f :: fl, s, h => by
    unfold runRules
    have h0 := logVisit_preserves hP.visit s i r.pat f h
    split
    · split
      · exact h
      · exact h0
    · simp only
      split
      · exact runRules_preserves hP (i + 1) rs fl _ h0
      · split
        · exact runRules_preserves hP (i + 1) rs fl _ (hP.ev _ _ rfl h0)
        · rename_i ops _
          have h1 := execOps_preserves hP.toStableOps ops _ h0
          rcases ho : execOps ops (s.logVisit i r.pat f) with ⟨sig, s1⟩
          rw [ho] at h1
          cases sig <;> simp <;> first | exact runRules_preserves hP (i + 1) rs fl s1 h1 | exact h1

theorem mainLoop_preserves {P : St → Prop} (hP : Stable P) :
    ∀ (fuel : Nat) (rules : List Rule) (fl : List Bool) (s : St), P s → P (mainLoop fuel rules fl s).2
  | 0, _, _, s, h => by simp [mainLoop]; exact h
  | fuel + 1, rules, fl, s, h => by
    unfold mainLoop
    rcases hn : nextLine s with ⟨t, s1⟩
    cases t with
    | eof => simp; exact hP.eof s s1 h hn
    | err => simp; exact hP.err s s1 h hn
    | got r =>
      simp only
      have h2 := hP.take s r s1 h hn
      have h3 := runRules_preserves hP 0 rules fl _ h2
      rcases hr : runRules 0 rules fl (s1.beginRecord r) with ⟨sig, fl', s3⟩
      rw [hr] at h3
      cases sig
      · exact mainLoop_preserves hP fuel rules fl' s3 h3
      · exact mainLoop_preserves hP fuel rules fl' s3 h3
      · exact mainLoop_preserves hP fuel rules fl' _ (hP.nextfile s3 h3)
      · exact h3
      · exact h3

theorem endPhase_snd (p : Prog) (s2 : St) : (endPhase p s2).2 = (execOps (p.end_.getD []) s2).2 := by
  unfold endPhase
  rcases execOps (p.end_.getD []) s2 with ⟨sg, s3⟩
  cases sg <;> rfl

theorem mainPhase_preserves {P : St → Prop} (hP : Stable P) (fuel : Nat) (p : Prog) (sigB : Sig) (s1 : St) (h : P s1) :
    P (mainPhase fuel p sigB s1).2 := by
  unfold mainPhase
  split
  · exact h
  · exact mainLoop_preserves hP fuel _ _ s1 h

theorem run_preserves {P : St → Prop} (hP : Stable P) (fuel : Nat) (p : Prog) (s : St) (h : P s) :
    P (run fuel p s).2 := by
  unfold run
  have h1 := execOps_preserves hP.toStableOps p.begin s h
  rcases hb : execOps p.begin s with ⟨sigB, s1⟩
  rw [hb] at h1
  have key : P (if (p.rules.isEmpty && p.end_.isNone) = true then (true, s1) else
      match mainPhase fuel p sigB s1 with
      | (Sig.fatal, s2) => (false, s2)
      | (_, s2) => endPhase p s2).2 := by
    split
    · exact h1
    · have h2 := mainPhase_preserves hP fuel p sigB s1 h1
      rcases hm : mainPhase fuel p sigB s1 with ⟨sigM, s2⟩
      rw [hm] at h2
      have h3 : P (endPhase p s2).2 := by rw [endPhase_snd]; exact execOps_preserves hP.toStableOps _ s2 h2
      cases sigM <;> first | exact h3 | exact h2
  cases sigB <;> first | exact key | exact h1

end GoawkModel.C11
