import GoawkModel.C10
import Proofs.C10Chars
namespace GoawkModel.C10

theorem groupsLoop_groups {α : Type} (p : α → Bool) : ∀ (xs cur : List α), (∀ x ∈ cur, p x = false) →
    ∀ g ∈ groupsLoop p xs cur, g ≠ [] ∧ ∀ x ∈ g, p x = false := by
  intro xs
  induction xs with
  | nil =>
    intro cur hc g hg
    simp only [groupsLoop] at hg
    split at hg
    · simp at hg
    · rename_i h
      simp only [List.mem_singleton] at hg; subst hg
      exact ⟨by simpa using h, hc⟩
  | cons x xs ih =>
    intro cur hc g hg
    simp only [groupsLoop] at hg
    by_cases hp : p x = true
    · simp only [hp, if_true] at hg
      split at hg
      · exact ih [] (by simp) g hg
      · rename_i h
        rcases List.mem_cons.mp hg with e | e
        · subst e; exact ⟨by simpa using h, hc⟩
        · exact ih [] (by simp) g e
    · simp only [hp] at hg
      refine ih (cur ++ [x]) ?_ g hg
      intro y hy
      rcases List.mem_append.mp hy with e | e
      · exact hc y e
      · simp only [List.mem_singleton] at e; subst e; simpa using hp

theorem groupsLoop_flatten {α : Type} (p : α → Bool) : ∀ (xs cur : List α),
    (groupsLoop p xs cur).flatten = cur ++ xs.filter (fun x => !p x) := by
  intro xs
  induction xs with
  | nil => intro cur; simp only [groupsLoop]; split <;> simp_all
  | cons x xs ih =>
    intro cur
    simp only [groupsLoop]
    by_cases hp : p x = true
    · simp only [hp, if_true]
      split
      · rename_i h; simp_all
      · simp [ih, hp]
    · have hp' : p x = false := by simpa using hp
      simp only [hp', Bool.false_eq_true, if_false]
      rw [ih]
      simp [hp']

theorem groupsLoop_skip {α : Type} (p : α → Bool) : ∀ (sp xs : List α), (∀ x ∈ sp, p x = true) →
    groupsLoop p (sp ++ xs) [] = groupsLoop p xs [] := by
  intro sp
  induction sp with
  | nil => intro xs _; rfl
  | cons y sp ih =>
    intro xs h
    simp only [List.cons_append, groupsLoop, h y (by simp), if_true, List.isEmpty_nil]
    exact ih xs (fun x hx => h x (by simp [hx]))

theorem groupsLoop_word {α : Type} (p : α → Bool) : ∀ (w xs cur : List α), (∀ x ∈ w, p x = false) →
    groupsLoop p (w ++ xs) cur = groupsLoop p xs (cur ++ w) := by
  intro w
  induction w with
  | nil => intro xs cur _; simp
  | cons y w ih =>
    intro xs cur h
    simp only [List.cons_append, groupsLoop, h y (by simp), Bool.false_eq_true, if_false]
    rw [ih xs (cur ++ [y]) (fun x hx => h x (by simp [hx]))]
    simp

/-- a non-empty separator-free word followed by at least one separator is the first field -/
theorem groupsLoop_field {α : Type} (p : α → Bool) (w sp xs : List α) (hw : w ≠ []) (hwp : ∀ x ∈ w, p x = false)
    (hs : sp ≠ []) (hsp : ∀ x ∈ sp, p x = true) :
    groupsLoop p (w ++ sp ++ xs) [] = w :: groupsLoop p xs [] := by
  rw [List.append_assoc, groupsLoop_word p w _ [] hwp, List.nil_append]
  cases sp with
  | nil => exact absurd rfl hs
  | cons y sp =>
    have hne : w.isEmpty = false := by cases w <;> simp_all
    simp only [List.cons_append, groupsLoop, hsp y (by simp), if_true, hne, Bool.false_eq_true, if_false]
    rw [groupsLoop_skip p sp xs (fun x hx => hsp x (by simp [hx]))]

theorem groupsLoop_last {α : Type} (p : α → Bool) (w : List α) (hw : w ≠ []) (hwp : ∀ x ∈ w, p x = false) :
    groupsLoop p w [] = [w] := by
  have := groupsLoop_word p w [] [] hwp
  simp only [List.append_nil, List.nil_append] at this
  rw [this]
  cases w <;> simp_all [groupsLoop]

/-! ### case mapping -/

theorem caseRune_singleton (tbl : UInt8 → UInt8) (uni : Bytes → Bytes) (b : UInt8) (h : b < 128) :
    caseRune tbl uni [b] = [tbl b] := by simp [caseRune, h]

/-- the ASCII fast path and the rune-by-rune path are the same function -/
theorem mapCase_eq (tbl : UInt8 → UInt8) (uni : Bytes → Bytes) (s : Bytes) :
    mapCase tbl uni s = ((runes s).map (caseRune tbl uni)).flatten := by
  unfold mapCase
  split
  · rename_i h
    have ha : ∀ b ∈ s, b < 128 := by simpa using h
    rw [runes_ascii s ha]
    clear h
    induction s with
    | nil => rfl
    | cons b bs ih =>
      have hb := ha b (by simp)
      simp only [List.map_cons, List.flatten_cons, caseRune_singleton tbl uni b hb, List.singleton_append]
      rw [ih (fun x hx => ha x (by simp [hx]))]
  · rfl

theorem mapCase_ascii (tbl : UInt8 → UInt8) (uni : Bytes → Bytes) (s : Bytes) (h : ∀ b ∈ s, b < 128) :
    mapCase tbl uni s = s.map tbl := by
  have : s.all (· < 0x80) = true := by simpa using h
  simp [mapCase, this]

theorem forall_uint8 (P : UInt8 → Prop) (h : ∀ n : Fin 256, P (UInt8.ofBitVec ⟨n⟩)) : ∀ b, P b := by
  intro b
  cases b with
  | ofBitVec v => cases v with
    | ofFin n => exact h n

theorem asciiLower_spec : ∀ b : UInt8,
    (65 ≤ b ∧ b ≤ 90 → asciiLower b = b + 32) ∧ (¬(65 ≤ b ∧ b ≤ 90) → asciiLower b = b) ∧
    asciiLower (asciiLower b) = asciiLower b ∧ asciiUpper (asciiLower b) = asciiUpper b ∧ (b < 128 → asciiLower b < 128) :=
  forall_uint8 _ (by decide +kernel)

theorem asciiUpper_spec : ∀ b : UInt8,
    (97 ≤ b ∧ b ≤ 122 → asciiUpper b = b - 32) ∧ (¬(97 ≤ b ∧ b ≤ 122) → asciiUpper b = b) ∧
    asciiUpper (asciiUpper b) = asciiUpper b ∧ asciiLower (asciiUpper b) = asciiLower b ∧ (b < 128 → asciiUpper b < 128) :=
  forall_uint8 _ (by decide +kernel)

theorem isSpaceRune_ascii : ∀ b : UInt8, isSpaceRune [b] = ((9 ≤ b && b ≤ 13) || b == 32) := by
  intro b; rfl
end GoawkModel.C10
