import Proofs.C03Total
/-! C03 — the byte a token starts at is one the lexer does not skip (not a blank, CR, continuation backslash or comment). -/
namespace GoawkModel.C03
open GoawkModel
open GoawkModel.Generated.C03Lex

/-- the byte is not one the lexer skips before a token: blank, tab, CR, backslash (continuation) or `#` (comment) -/
def NotSkipped (c : UInt8) : Prop := isWs c = false ∧ c ≠ 35

theorem scanBody_off {src : Bytes} (fuel : Nat) (pos : Pos) (off : Nat) (ch : UInt8) (s : St) :
    (scanBody src fuel pos off ch s).2.off = off ∨ (scanBody src fuel pos off ch s).2.tok = T.ILLEGAL := by
  unfold scanBody
  split
  · unfold scanName; dsimp only; split <;> exact Or.inl rfl
  · split
    · unfold scanNum; dsimp only; split
      · exact Or.inr rfl
      · exact Or.inl rfl
    · split
      · unfold scanStr; dsimp only; split
        · exact Or.inr rfl
        · split
          · exact Or.inr rfl
          · exact Or.inl rfl
      · unfold scanPunct; split
        · split
          · exact Or.inl rfl
          · exact Or.inr rfl
        · split <;> exact Or.inl rfl

/-- with the fuel `lex` uses, the byte a `Scan()` token starts at is the first byte that is not skipped -/
theorem scan_first_byte {src : Bytes} {s : St} (h : Inv src s) :
    (scan src (fuelFor src) s).2.tok = T.EOF ∨ (scan src (fuelFor src) s).2.tok = T.ILLEGAL ∨
    NotSkipped (byteAt src (scan src (fuelFor src) s).2.off) := by
  have h1 : Inv src { s with hadSpace := false } := inv_hadSpace false h
  have hn : src.length + 2 ≤ fuelFor src + ({ s with hadSpace := false } : St).offset := by unfold fuelFor; omega
  have hw := skipWs_inv (fuelFor src) _ h1
  have hwe := skipWs_exits (fuelFor src) _ h1 hn
  have hc := skipComment_inv (fuelFor src) hw
  unfold scan
  dsimp only
  split
  · exact Or.inr (Or.inl rfl)
  · rename_i hbad
    have hnws : isWs (skipWs src (fuelFor src) { s with hadSpace := false }).1.ch = false := by
      rcases hwe with hwe | hwe
      · exact absurd hwe hbad
      · exact hwe
    split
    · exact Or.inl rfl
    · rename_i h0
      rcases scanBody_off (fuelFor src) (skipComment src (fuelFor src) (skipWs src (fuelFor src) { s with hadSpace := false }).1).pos
          ((skipComment src (fuelFor src) (skipWs src (fuelFor src) { s with hadSpace := false }).1).offset - 1)
          (skipComment src (fuelFor src) (skipWs src (fuelFor src) { s with hadSpace := false }).1).ch
          (next src (skipComment src (fuelFor src) (skipWs src (fuelFor src) { s with hadSpace := false }).1)) with ho | ho
      · right; right
        rw [ho]
        have hG := inv_G_of_ne hc h0
        rw [← hG.ch]
        -- the comment loop either did not run (not '#') or stopped at '\n' / NUL
        unfold skipComment at h0 ⊢
        split
        · rename_i h35
          have hn2 : src.length + 2 ≤ fuelFor src + (next src (skipWs src (fuelFor src) { s with hadSpace := false }).1).offset := by
            unfold fuelFor; omega
          have := whileCh_exits (src := src) (fun c => c ≠ 10 && c ≠ 0) (by decide) (fuelFor src) _ (next_inv hw) hn2
          simp only [h35, if_true] at h0
          generalize whileCh src (fun c => c ≠ 10 && c ≠ 0) (fuelFor src) (next src (skipWs src (fuelFor src) { s with hadSpace := false }).1) = X at this h0 ⊢
          have h10 : X.ch = 10 := by
            by_cases hx : X.ch = 10
            · exact hx
            · simp [hx] at this; exact absurd this h0
          rw [h10]; exact ⟨by decide, by decide⟩
        · rename_i h35
          exact ⟨hnws, h35⟩
      · exact Or.inr (Or.inl ho)
/-- the REGEX token's offset holds the opening slash -/
theorem scanRegex_slash {src : Bytes} (fuel : Nat) {s : St} {t : Token} (hp : DivPost src s t)
    (hl : s.lastTok = t.tok) (hd : t.tok = T.DIV ∨ t.tok = T.DIV_ASSIGN) (hr : (scanRegex src fuel s).2.tok = T.REGEX) :
    byteAt src (scanRegex src fuel s).2.off = 47 := by
  rcases hd with hd | hd
  · obtain ⟨hG, hoff, h47, hat⟩ := hp.1 hd
    have hlt : s.lastTok = T.DIV := hl.trans hd
    cases hreg : (regexLoop src fuel s []).2 with
    | error m => simp [scanRegex, hlt, hreg, illegalHere] at hr; exact absurd hr (by decide)
    | ok chars =>
      simp only [scanRegex, hlt, hreg, if_true, ne_eq, not_true, Bool.false_and, Bool.false_eq_true, if_false, decide_false]
      show byteAt src (s.offset - 1 - 1) = 47
      rw [hoff, show t.off + 2 - 1 - 1 = t.off by omega, h47]
  · obtain ⟨hG, hoff, h47, h61, hat⟩ := hp.2 hd
    have hlt : s.lastTok = T.DIV_ASSIGN := hl.trans hd
    have hne : ¬ (T.DIV_ASSIGN = T.DIV) := by decide
    cases hreg : (regexLoop src fuel s [61]).2 with
    | error m => simp [scanRegex, hlt, hne, hreg, illegalHere] at hr; exact absurd hr (by decide)
    | ok chars =>
      simp only [scanRegex, hlt, hne, hreg, if_false, ne_eq, not_true, not_false_eq_true, Bool.and_false, Bool.false_eq_true, decide_true, decide_false]
      show byteAt src (s.offset - 1 - 2) = 47
      rw [hoff, show t.off + 3 - 1 - 2 = t.off by omega, h47]

theorem scanRegex_final_or_regex {src : Bytes} (fuel : Nat) (s : St) :
    (scanRegex src fuel s).2.tok = T.ILLEGAL ∨ (scanRegex src fuel s).2.tok = T.REGEX := by
  unfold scanRegex
  dsimp only
  split
  · exact Or.inl rfl
  · split
    · exact Or.inl rfl
    · exact Or.inr rfl

/-- every token of the stream other than EOF / ILLEGAL starts at a byte the lexer does not skip -/
theorem lexLoop_first {src : Bytes} : ∀ (n : Nat) (s : St) (bits : List Bool), Inv src s →
    ∀ t ∈ lexLoop src (fuelFor src) n s bits, t.tok = T.EOF ∨ t.tok = T.ILLEGAL ∨ NotSkipped (byteAt src t.off)
  | 0, _, _, _ => by intro t ht; simp [lexLoop] at ht
  | n + 1, s, bits, h => by
    have hs := scanTok_ok (fuelFor src) h
    have hr := scanRegex_inv (fuelFor src) hs.1
    have hfst : (scanTok src (fuelFor src) s).2.tok = T.EOF ∨ (scanTok src (fuelFor src) s).2.tok = T.ILLEGAL ∨
        NotSkipped (byteAt src (scanTok src (fuelFor src) s).2.off) := scan_first_byte h
    intro t
    unfold lexLoop
    dsimp only
    split
    · intro hm; simp at hm; subst hm; exact hfst
    · split
      · rename_i hdiv
        have hdiv' : (scanTok src (fuelFor src) s).2.tok = T.DIV ∨ (scanTok src (fuelFor src) s).2.tok = T.DIV_ASSIGN := by
          simpa using hdiv
        have ht : (scanRegex src (fuelFor src) (scanTok src (fuelFor src) s).1).2.tok = T.EOF ∨
            (scanRegex src (fuelFor src) (scanTok src (fuelFor src) s).1).2.tok = T.ILLEGAL ∨
            NotSkipped (byteAt src (scanRegex src (fuelFor src) (scanTok src (fuelFor src) s).1).2.off) := by
          rcases scanRegex_final_or_regex (src := src) (fuelFor src) (scanTok src (fuelFor src) s).1 with h' | h'
          · exact Or.inr (Or.inl h')
          · right; right
            rw [scanRegex_slash (fuelFor src) (scanTok_div (fuelFor src) h) rfl hdiv' h']
            exact ⟨by decide, by decide⟩
        split
        · split
          · intro hm
            simp at hm
            rcases hm with hm | hm
            · subst hm; exact hfst
            · subst hm; exact ht
          · intro hm
            simp only [List.mem_cons] at hm
            rcases hm with hm | hm | hm
            · subst hm; exact hfst
            · subst hm; exact ht
            · exact lexLoop_first n _ _ hr t hm
        · intro hm
          simp only [List.mem_cons] at hm
          rcases hm with hm | hm
          · subst hm; exact hfst
          · exact lexLoop_first n _ _ hs.1 t hm
        · intro hm
          simp only [List.mem_cons] at hm
          rcases hm with hm | hm
          · subst hm; exact hfst
          · exact lexLoop_first n _ _ hs.1 t hm
      · intro hm
        simp only [List.mem_cons] at hm
        rcases hm with hm | hm
        · subst hm; exact hfst
        · exact lexLoop_first n _ _ hs.1 t hm
end GoawkModel.C03
