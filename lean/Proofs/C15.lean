import GoawkModel.C15
/-! # C15 — proofs about the step-counter model of the poll -/
namespace GoawkModel.C15

theorem poll_lt {N : Nat} (hN : 0 < N) (c : Nat) : (poll N c).1 < N := by
  unfold poll
  split
  · assumption
  · exact hN

theorem poll_mod {N c : Nat} (hc : c < N) : (poll N c).1 = (c + 1) % N := by
  unfold poll
  split
  · rename_i h; simp [Nat.mod_eq_of_lt h]
  · rename_i h
    have : c + 1 = N := by omega
    simp [this]

theorem counterAfter_lt {N : Nat} (hN : 0 < N) (n c : Nat) (hc : c < N) : counterAfter N n c < N := by
  induction n generalizing c with
  | zero => exact hc
  | succ n ih => exact ih _ (poll_lt hN c)

/-- the counter is the number of dispatches modulo the interval -/
theorem counterAfter_mod {N : Nat} (n c : Nat) (hc : c < N) : counterAfter N n c = (c + n) % N := by
  induction n generalizing c with
  | zero => simp [counterAfter, Nat.mod_eq_of_lt hc]
  | succ n ih =>
    have hN : 0 < N := by omega
    rw [counterAfter, ih _ (poll_lt hN c), poll_mod hc, Nat.mod_add_mod]
    congr 1
    omega

theorem cancelledBy_mono {t : Option Nat} {i j : Nat} (h : cancelledBy t i = true) (hij : i ≤ j) :
    cancelledBy t j = true := by
  cases t with
  | none => simp [cancelledBy] at h
  | some τ =>
    simp [cancelledBy] at h ⊢
    omega

/-- once cancelled, the run returns the context error at the next time the counter wraps: after exactly `N - 1 - c`
more dispatches -/
theorem fire_within {N : Nat} (t : Option Nat) (ds : List D) (i c : Nat) (k : Counts)
    (hc : c < N) (hcan : cancelledBy t i = true) (hlen : N - c ≤ ds.length) :
    ∃ cc kk, run N t ds i c k = .ctxErr (i + (N - 1 - c)) cc kk := by
  induction ds generalizing i c k with
  | nil => simp at hlen; omega
  | cons d ds ih =>
    by_cases h : c + 1 < N
    · have hp : poll N c = (c + 1, false) := by simp [poll, h]
      have hcan' := cancelledBy_mono hcan (Nat.le_succ i)
      have hlen' : N - (c + 1) ≤ ds.length := by simp at hlen; omega
      have hj : i + (N - 1 - c) = (i + 1) + (N - 1 - (c + 1)) := by omega
      cases d with
      | plain =>
        obtain ⟨cc, kk, he⟩ := ih (i + 1) (c + 1) k h hcan' hlen'
        exact ⟨cc, kk, by simp [run, hp, he, hj]⟩
      | tick =>
        obtain ⟨cc, kk, he⟩ := ih (i + 1) (c + 1) ⟨k.ticks + 1, if cancelledBy t i then k.ticksAfter + 1 else k.ticksAfter⟩ h hcan' hlen'
        exact ⟨cc, kk, by simp only [run, hp, Bool.false_and]; simp [he, hj]⟩
    · have hp : poll N c = (0, true) := by simp [poll, h]
      have hz : N - 1 - c = 0 := by omega
      exact ⟨0, k, by simp [run, hp, hcan, hz]⟩

/-- before the cancellation the poll never returns; from the cancellation on it returns within `N` dispatches -/
theorem prompt_aux {N : Nat} (hN : 0 < N) (τ : Nat) (ds : List D) (i c : Nat) (k : Counts)
    (hc : c < N) (hi : i ≤ τ) (hlen : (τ - i) + N ≤ ds.length) :
    ∃ j cc kk, run N (some τ) ds i c k = .ctxErr j cc kk ∧ τ ≤ j ∧ j < τ + N := by
  induction ds generalizing i c k with
  | nil => simp at hlen; omega
  | cons d ds ih =>
    by_cases h : i = τ
    · subst h
      have hcan : cancelledBy (some i) i = true := by simp [cancelledBy]
      obtain ⟨cc, kk, he⟩ := fire_within (some i) (d :: ds) i c k hc hcan (by omega)
      exact ⟨_, cc, kk, he, by omega, by omega⟩
    · have hcan : cancelledBy (some τ) i = false := by simp [cancelledBy]; omega
      have hlen' : (τ - (i + 1)) + N ≤ ds.length := by simp at hlen; omega
      cases d with
      | plain =>
        obtain ⟨j, cc, kk, he, h1, h2⟩ := ih (i + 1) (poll N c).1 k (poll_lt hN c) (by omega) hlen'
        exact ⟨j, cc, kk, by simp [run, hcan, he], h1, h2⟩
      | tick =>
        obtain ⟨j, cc, kk, he, h1, h2⟩ := ih (i + 1) (poll N c).1 ⟨k.ticks + 1, k.ticksAfter⟩ (poll_lt hN c) (by omega) hlen'
        exact ⟨j, cc, kk, by simp [run, hcan, he], h1, h2⟩

/-- with a context that is never cancelled the poll only moves the counter: same tick() calls as the loop without poll -/
theorem never_cancelled_aux (N : Nat) (ds : List D) (i c : Nat) (k : Counts) :
    run N none ds i c k = .finished (counterAfter N ds.length c) (runNoPoll ds k) := by
  induction ds generalizing i c k with
  | nil => rfl
  | cons d ds ih =>
    cases d with
    | plain => simp [run, cancelledBy, ih, runNoPoll, counterAfter]
    | tick => simp [run, cancelledBy, ih, runNoPoll, counterAfter]

/-- tick() calls counted as "after the cancellation" are made by dispatches at or after it and before the aborting poll -/
theorem ticksAfter_bound {N : Nat} (τ : Nat) (ds : List D) (i c : Nat) (k : Counts) (j cc : Nat) (kk : Counts)
    (he : run N (some τ) ds i c k = .ctxErr j cc kk) :
    kk.ticksAfter + max i τ ≤ k.ticksAfter + max j τ ∧ i ≤ j := by
  induction ds generalizing i c k with
  | nil => simp [run] at he
  | cons d ds ih =>
    by_cases hf : ((poll N c).2 && cancelledBy (some τ) i) = true
    · simp only [run, hf, if_true] at he
      injection he with h1 h2 h3
      subst h1; subst h3
      exact ⟨Nat.le_refl _, Nat.le_refl _⟩
    · cases d with
      | plain =>
        simp only [run, hf] at he
        obtain ⟨h1, h2⟩ := ih (i + 1) _ k he
        constructor
        · have : max i τ ≤ max (i + 1) τ := by omega
          omega
        · omega
      | tick =>
        simp only [run, hf] at he
        obtain ⟨h1, h2⟩ := ih (i + 1) _ _ he
        constructor
        · by_cases hcan : cancelledBy (some τ) i = true
          · simp only [hcan, if_true] at h1
            have : τ ≤ i := by simpa [cancelledBy] using hcan
            have e1 : max i τ = i := by omega
            have e2 : max (i + 1) τ = i + 1 := by omega
            omega
          · have hcan' : cancelledBy (some τ) i = false := by simpa using hcan
            simp only [hcan', Bool.false_eq_true, if_false] at h1
            have : max i τ ≤ max (i + 1) τ := by omega
            omega
        · omega

end GoawkModel.C15
