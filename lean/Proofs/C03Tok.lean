import Proofs.C03Scan
/-! C03 — token-level consequences of the invariant: every token `scan` returns is at the true line/column of a real source byte, or is
EOF / ILLEGAL at a position inside the source (end included). -/
namespace GoawkModel.C03
open GoawkModel
open GoawkModel.Generated.C03Lex

/-- the position designates a byte offset of the source, the end included -/
def PosInSrc (src : Bytes) (p : Pos) : Prop := ∃ o, o ≤ src.length ∧ p = trueLineCol src o

/-- the token's position is the true line/column of offset `t.off`, which holds a real (non-NUL) byte of the source -/
def AtByte (src : Bytes) (t : Token) : Prop :=
  t.off < src.length ∧ t.pos = trueLineCol src t.off ∧ byteAt src t.off ≠ 0

def TokOK (src : Bytes) (t : Token) : Prop :=
  AtByte src t ∨ ((t.tok = T.ILLEGAL ∨ t.tok = T.EOF) ∧ PosInSrc src t.pos)

theorem inv_posInSrc {src : Bytes} {s : St} (h : Inv src s) : PosInSrc src s.pos := by
  rcases h with h | h
  · exact ⟨s.offset - 1, by have := h.hi; omega, h.pos⟩
  · exact ⟨src.length, Nat.le_refl _, h.pos⟩

theorem atByte_posInSrc {src : Bytes} {t : Token} (h : AtByte src t) : PosInSrc src t.pos :=
  ⟨t.off, Nat.le_of_lt h.1, h.2.1⟩

theorem illegalHere_ok {src : Bytes} {s : St} (m : String) (h : Inv src s) :
    Inv src (illegalHere s m).1 ∧ TokOK src (illegalHere s m).2 :=
  ⟨h, Or.inr ⟨Or.inl rfl, inv_posInSrc h⟩⟩

/-- what every branch of `scanBody` needs to know about the saved position -/
def Start (src : Bytes) (pos : Pos) (off : Nat) : Prop := ∀ tk v, AtByte src ⟨pos, tk, v, off⟩

theorem scanName_ok {src : Bytes} (fuel : Nat) {pos : Pos} {off : Nat} {s : St} (hs : Start src pos off) (h : Inv src s) :
    Inv src (scanName src fuel pos off s).1 ∧ TokOK src (scanName src fuel pos off s).2 := by
  unfold scanName
  dsimp only
  split
  · exact ⟨whileCh_inv _ _ _ h, Or.inl (hs _ _)⟩
  · exact ⟨whileCh_inv _ _ _ h, Or.inl (hs _ _)⟩

theorem scanNumber_inv {src : Bytes} (fuel : Nat) (c : UInt8) {s s' : St} (h : Inv src s) (hs : scanNumber src fuel c s = some s') :
    Inv src s' := by
  unfold scanNumber at hs
  dsimp only at hs
  split at hs
  · cases hs
  · cases hs
    exact scanExponent_inv fuel (scanMantissa_inv fuel c h)

theorem scanNum_ok {src : Bytes} (fuel : Nat) {pos : Pos} {off : Nat} (ch : UInt8) {s : St} (hs : Start src pos off) (h : Inv src s) :
    Inv src (scanNum src fuel pos off ch s).1 ∧ TokOK src (scanNum src fuel pos off ch s).2 := by
  unfold scanNum
  dsimp only
  split
  · exact illegalHere_ok _ h
  · rename_i s' hs'
    exact ⟨scanNumber_inv fuel ch h hs', Or.inl (hs _ _)⟩

theorem scanStr_ok {src : Bytes} (fuel : Nat) {pos : Pos} {off : Nat} (ch : UInt8) {s : St} (hs : Start src pos off) (h : Inv src s) :
    Inv src (scanStr src fuel pos off ch s).1 ∧ TokOK src (scanStr src fuel pos off ch s).2 := by
  have hp := parseString_inv ch fuel s [] h
  unfold scanStr
  dsimp only
  split
  · exact illegalHere_ok _ hp
  · split
    · exact illegalHere_ok _ hp
    · exact ⟨next_inv hp, Or.inl (hs _ _)⟩

theorem scanPunct_ok {src : Bytes} {pos : Pos} {off : Nat} (ch : UInt8) {s : St} (hs : Start src pos off) (h : Inv src s) :
    Inv src (scanPunct src pos off ch s).1 ∧ TokOK src (scanPunct src pos off ch s).2 := by
  unfold scanPunct
  split
  · split
    · exact ⟨next_inv h, Or.inl (hs _ _)⟩
    · exact illegalHere_ok _ h
  · split
    · exact ⟨scanOp_inv _ _ h, Or.inl (hs _ _)⟩
    · exact ⟨h, Or.inl (hs _ _)⟩

theorem scanBody_ok {src : Bytes} (fuel : Nat) {pos : Pos} {off : Nat} (ch : UInt8) {s : St} (hs : Start src pos off) (h : Inv src s) :
    Inv src (scanBody src fuel pos off ch s).1 ∧ TokOK src (scanBody src fuel pos off ch s).2 := by
  unfold scanBody
  split
  · exact scanName_ok fuel hs h
  · split
    · exact scanNum_ok fuel ch hs h
    · split
      · exact scanStr_ok fuel ch hs h
      · exact scanPunct_ok ch hs h

theorem start_of_G {src : Bytes} {s : St} (h : Inv src s) (hc : s.ch ≠ 0) : Start src s.pos (s.offset - 1) := by
  have hG := inv_G_of_ne h hc
  have hle := hG.lt_of_ne hc
  intro tk v
  refine ⟨?_, hG.pos, ?_⟩
  · have := hG.lo; show s.offset - 1 < src.length; omega
  · show byteAt src (s.offset - 1) ≠ 0
    rw [← hG.ch]; exact hc

theorem scan_ok {src : Bytes} (fuel : Nat) {s : St} (h : Inv src s) :
    Inv src (scan src fuel s).1 ∧ TokOK src (scan src fuel s).2 := by
  have hw := skipWs_inv fuel _ (inv_hadSpace (src := src) false h)
  have hc := skipComment_inv fuel hw
  unfold scan
  dsimp only
  split
  · exact illegalHere_ok _ hw
  · split
    · rename_i h0
      refine ⟨hc, Or.inr ⟨Or.inr rfl, inv_posInSrc hc⟩⟩
    · rename_i h0
      exact scanBody_ok fuel _ (start_of_G hc h0) (next_inv hc)

theorem scanTok_ok {src : Bytes} (fuel : Nat) {s : St} (h : Inv src s) :
    Inv src (scanTok src fuel s).1 ∧ TokOK src (scanTok src fuel s).2 := by
  have := scan_ok fuel h
  exact ⟨inv_lastTok _ this.1, this.2⟩

theorem init_inv (src : Bytes) : Inv src (init src) := by
  unfold init
  cases src with
  | nil =>
    right
    exact ⟨rfl, rfl, by simp [next, trueLineCol_zero], by simp [next, trueLineCol_zero]⟩
  | cons b rest =>
    left
    rw [next_lt (by simp)]
    refine ⟨by simp, by simp, by simp, by simp [trueLineCol_zero], ?_⟩
    simp [trueLineCol_succ (b :: rest) 0 (by simp), trueLineCol_zero]
end GoawkModel.C03
