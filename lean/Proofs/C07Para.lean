import GoawkModel.C07
import Proofs.ScannerChunk
import Proofs.C07Blank
/-!
# C07, RS="": the records are the blank-line-separated paragraphs (CR-free input)

For input without carriage returns the model of `blankLineSplitter.scan` decomposes the input as
`LF* (paragraph LF{2,})* paragraph LF?` resp. `LF* (paragraph LF{2,})*`: every record is a paragraph (non-empty, does not
begin or end with LF, contains no blank line), every RT is a run of LFs, of length at least two unless it belongs to the last
record, and the leading LFs followed by every record and its RT reproduce the input. This decomposition is unique, so the
four facts characterise the record sequence.
-/
namespace GoawkModel.C07
open GoawkModel.Scanner

/-- the text contains an empty line: two consecutive LFs -/
def hasNN : Bytes → Bool
  | a :: b :: rest => (a = 10 && b = 10) || hasNN (b :: rest)
  | _ => false

/-- a paragraph: non-empty, does not begin or end with LF, contains no empty line -/
def IsParagraph (r : Bytes) : Prop :=
  r ≠ [] ∧ r.head? ≠ some 10 ∧ r.getLast? ≠ some 10 ∧ hasNN r = false

/-- every RT except possibly that of the last record is at least two bytes long -/
def sepOK : List (Bytes × Bytes) → Bool
  | [] => true
  | [_] => true
  | p :: q :: rest => decide (2 ≤ p.2.length) && sepOK (q :: rest)

theorem hasNN_cons_cons (a b : UInt8) (rest : Bytes) :
    hasNN (a :: b :: rest) = ((a = 10 && b = 10) || hasNN (b :: rest)) := by
  simp [hasNN]

theorem hasNN_prefix : ∀ (l m : Bytes), hasNN (l ++ m) = false → hasNN l = false := by
  intro l
  induction l with
  | nil => intro m _; simp [hasNN]
  | cons a l ih =>
    intro m h
    cases l with
    | nil => simp [hasNN]
    | cons b l' =>
      simp only [List.cons_append, hasNN_cons_cons, Bool.or_eq_false_iff] at h ⊢
      exact ⟨h.1, ih m (by simpa using h.2)⟩

theorem hasNN_append_two : ∀ (q : Bytes), hasNN (q ++ [10, 10]) = true := by
  intro q
  induction q with
  | nil => simp [hasNN]
  | cons a q ih =>
    cases q with
    | nil => simp [hasNN]
    | cons b q' =>
      simp only [List.cons_append, hasNN_cons_cons, Bool.or_eq_true]
      right; simpa using ih

theorem eq_snoc_of_getLast? : ∀ {l : Bytes} {c : UInt8}, l.getLast? = some c → ∃ q, l = q ++ [c] := by
  intro l c h
  have hne : l ≠ [] := by intro e; subst e; simp at h
  refine ⟨l.dropLast, ?_⟩
  have h1 := List.dropLast_concat_getLast hne
  have h2 : l.getLast hne = c := by
    have := List.getLast?_eq_some_getLast hne
    rw [this] at h; exact Option.some.inj h
  rw [h2] at h1; exact h1.symm

theorem mem_takeWhile_both {p : UInt8 → Bool} : ∀ {l : Bytes} {b : UInt8}, b ∈ l.takeWhile p → b ∈ l ∧ p b = true := by
  intro l
  induction l with
  | nil => intro b h; simp at h
  | cons a l ih =>
    intro b h
    simp only [List.takeWhile_cons] at h
    by_cases ha : p a = true
    · simp only [ha, if_true, List.mem_cons] at h
      rcases h with h | h
      · subst h; exact ⟨by simp, ha⟩
      · exact ⟨List.mem_cons_of_mem _ (ih h).1, (ih h).2⟩
    · simp [ha] at h

theorem mem_of_mem_dropLast' {l : Bytes} {b : UInt8} (h : b ∈ l.dropLast) : b ∈ l := by
  rw [List.dropLast_eq_take] at h
  exact List.mem_of_mem_take h

theorem isNL_of_noCR {b : UInt8} (h : b ≠ 13) : isNL b = decide (b = 10) := by
  simp [isNL, h]

/-- CR-free: a found blank line is the first pair of consecutive LFs -/
theorem findBlank_some_noCR : ∀ (body : Bytes) (k e a : Nat), (13 : UInt8) ∉ body → findBlank body k = some (e, a) →
    ∃ pre post, body = pre ++ 10 :: 10 :: post ∧ e = k + pre.length ∧ a = e + 2 ∧ hasNN (pre ++ [10]) = false := by
  intro body
  induction body with
  | nil => intro k e a _ h; simp [findBlank] at h
  | cons b rest ih =>
    intro k e a hcr h
    have hcr' : (13 : UInt8) ∉ rest := fun hm => hcr (List.mem_cons_of_mem _ hm)
    simp only [findBlank] at h
    by_cases hb : b = 10
    · simp only [hb, if_true] at h
      cases rest with
      | nil => simp at h
      | cons c rest2 =>
        by_cases hc : c = 10
        · simp only [hc, if_true, Option.some.injEq, Prod.mk.injEq] at h
          refine ⟨[], rest2, by simp [hb, hc], by simp [h.1], by omega, by simp [hasNN]⟩
        · have hc13 : c ≠ 13 := fun h13 => hcr (by simp [h13])
          simp only [hc, if_false, hc13] at h
          obtain ⟨pre, post, hbody, he, ha, hnn⟩ := ih (k + 1) e a hcr' h
          refine ⟨b :: pre, post, by simp [hbody], by simp [he]; omega, ha, ?_⟩
          -- pre ++ [10] starts with c (≠ 10) because c :: rest2 = pre ++ 10 :: 10 :: post
          cases pre with
          | nil => simp at hbody; exact absurd hbody.1 hc
          | cons p pre' =>
            simp only [List.cons_append, hasNN_cons_cons, Bool.or_eq_false_iff]
            simp only [List.cons_append, List.cons.injEq] at hbody
            refine ⟨by simp [← hbody.1, hc], by simpa using hnn⟩
    · simp only [hb, if_false] at h
      obtain ⟨pre, post, hbody, he, ha, hnn⟩ := ih (k + 1) e a hcr' h
      refine ⟨b :: pre, post, by simp [hbody], by simp [he]; omega, ha, ?_⟩
      cases pre with
      | nil => simp [hasNN, hb]
      | cons p pre' =>
        simp only [List.cons_append, hasNN_cons_cons, Bool.or_eq_false_iff]
        refine ⟨by simp [hb], by simpa using hnn⟩

/-- CR-free: no blank line found means there is none -/
theorem findBlank_none_noCR : ∀ (body : Bytes) (k : Nat), (13 : UInt8) ∉ body → findBlank body k = none →
    hasNN body = false := by
  intro body
  induction body with
  | nil => intro k _ _; simp [hasNN]
  | cons b rest ih =>
    intro k hcr h
    have hcr' : (13 : UInt8) ∉ rest := fun hm => hcr (List.mem_cons_of_mem _ hm)
    simp only [findBlank] at h
    cases rest with
    | nil => simp [hasNN]
    | cons c rest2 =>
      simp only [hasNN_cons_cons, Bool.or_eq_false_iff]
      by_cases hb : b = 10
      · simp only [hb, if_true] at h
        by_cases hc : c = 10
        · simp [hc] at h
        · have hc13 : c ≠ 13 := fun h13 => hcr (by simp [h13])
          simp only [hc, if_false, hc13] at h
          exact ⟨by simp [hc], ih (k + 1) hcr' h⟩
      · simp only [hb, if_false] at h
        exact ⟨by simp [hb], ih (k + 1) hcr' h⟩

theorem dropCR_noCR {l : Bytes} (h : (13 : UInt8) ∉ l) : dropCR l = l := by
  unfold dropCR
  split
  · rename_i hl; exact absurd (List.mem_of_getLast? hl) h
  · rfl

theorem drop_length_takeWhile (p : UInt8 → Bool) : ∀ (l : Bytes), l.drop (l.takeWhile p).length = l.dropWhile p := by
  intro l
  induction l with
  | nil => simp
  | cons b bs ih =>
    simp only [List.takeWhile_cons, List.dropWhile_cons]
    split <;> simp [ih]

theorem takeWhile_dropWhile_nil (p : UInt8 → Bool) : ∀ (l : Bytes), (l.dropWhile p).takeWhile p = [] := by
  intro l
  induction l with
  | nil => simp
  | cons b bs ih =>
    simp only [List.dropWhile_cons]
    split
    · exact ih
    · rename_i hb; simp [hb]

theorem takeWhile_isNL_all_LF {l : Bytes} (h : (13 : UInt8) ∉ l) : ∀ b ∈ l.takeWhile isNL, b = 10 := by
  intro b hb
  obtain ⟨hm, hp⟩ := mem_takeWhile_both hb
  have h13 : b ≠ 13 := fun e => h (e ▸ hm)
  simpa [isNL, h13] using hp

/-- what one step of the scan does on CR-free data that does not begin with a newline -/
theorem blankBody_eof_noCR (body : Bytes) (hb : body ≠ []) (hcr : (13 : UInt8) ∉ body) (hhead : body.head? ≠ some 10) :
    ∃ n r t, blankBody body true = .token n r t ∧ 0 < n ∧ n ≤ body.length ∧ IsParagraph r ∧ (∀ b ∈ t, b = 10) ∧
      r ++ t ++ body.drop n = body ∧ ((body.drop n).takeWhile isNL = []) ∧ (2 ≤ t.length ∨ body.drop n = []) := by
  simp only [blankBody]
  cases hf : findBlank body 0 with
  | some ea =>
    obtain ⟨e, a⟩ := ea
    obtain ⟨pre, post, hbody, he, ha, hnn⟩ := findBlank_some_noCR body 0 e a hcr hf
    simp only [Nat.zero_add] at he
    subst he; subst ha
    have hpre_cr : (13 : UInt8) ∉ pre := fun hm => hcr (by rw [hbody]; simp [hm])
    have hpost_cr : (13 : UInt8) ∉ post := fun hm => hcr (by rw [hbody]; simp [hm])
    have hdropa : body.drop (pre.length + 2) = post := by
      rw [hbody]
      have : pre ++ 10 :: 10 :: post = (pre ++ [10, 10]) ++ post := by simp
      rw [this, List.drop_left' (by simp)]
    have htake : body.take pre.length = pre := by
      rw [hbody, List.take_left' rfl]
    have hdrope : body.drop pre.length = 10 :: 10 :: post := by
      rw [hbody, List.drop_left' rfl]
    have hrun : (post.takeWhile isNL).length ≤ post.length := tw_len_le _ _
    have hlen : body.length = pre.length + 2 + post.length := by rw [hbody]; simp; omega
    simp only [Bool.true_eq_false, and_false, if_false, hdropa, htake, hdrope, dropCR_noCR hpre_cr]
    have hi : pre.length + 2 + (post.takeWhile isNL).length - pre.length = 2 + (post.takeWhile isNL).length := by omega
    have hrest : body.drop (pre.length + 2 + (post.takeWhile isNL).length) = post.dropWhile isNL := by
      rw [← List.drop_drop, hdropa, drop_length_takeWhile]
    have ht : (10 :: 10 :: post).take (2 + (post.takeWhile isNL).length) = 10 :: 10 :: post.takeWhile isNL := by
      have : 2 + (post.takeWhile isNL).length = (post.takeWhile isNL).length + 1 + 1 := by omega
      rw [this, List.take_succ_cons, List.take_succ_cons]
      congr 2
      have := List.takeWhile_append_dropWhile (p := isNL) (l := post)
      conv => lhs; arg 2; rw [← this]
      rw [List.take_left' rfl]
    refine ⟨_, _, _, rfl, by omega, by omega, ?_, ?_, ?_, ?_, ?_⟩
    · -- IsParagraph pre
      refine ⟨?_, ?_, ?_, hasNN_prefix pre [10] hnn⟩
      · intro hp; subst hp; apply hhead; rw [hbody]; simp
      · intro hp; apply hhead; rw [hbody]
        cases pre with
        | nil => simp
        | cons p pre' => simpa using hp
      · intro hl
        obtain ⟨q, hq⟩ : ∃ q, pre = q ++ [10] := eq_snoc_of_getLast? hl
        rw [hq] at hnn
        have := hasNN_append_two q
        simp only [List.append_assoc, List.cons_append, List.nil_append] at hnn
        rw [this] at hnn
        exact absurd hnn (by simp)
    · rw [hi, ht]
      intro b hbm
      simp only [List.mem_cons] at hbm
      rcases hbm with h | h | h
      · exact h
      · exact h
      · exact takeWhile_isNL_all_LF hpost_cr b h
    · rw [hi, ht, hrest]
      conv => rhs; rw [hbody]
      simp [List.takeWhile_append_dropWhile]
    · rw [hrest]; exact takeWhile_dropWhile_nil _ _
    · left; rw [hi, ht]; simp
  | none =>
    have hnn := findBlank_none_noCR body 0 hcr hf
    have hpos : 0 < body.length := List.length_pos_iff.mpr hb
    have hdl_cr : (13 : UInt8) ∉ dropLF body := by
      unfold dropLF; split
      · exact fun hm => hcr (mem_of_mem_dropLast' hm)
      · exact hcr
    simp only [if_true, dropCR_noCR hdl_cr]
    refine ⟨_, _, _, rfl, hpos, Nat.le_refl _, ?_, ?_, ?_, by simp, by right; simp⟩
    · -- IsParagraph (dropLF body)
      unfold dropLF
      split
      · rename_i hl
        obtain ⟨q, hq⟩ : ∃ q, body = q ++ [10] := eq_snoc_of_getLast? hl
        have hdl : body.dropLast = q := by rw [hq]; simp
        rw [hdl]
        have hqne : q ≠ [] := by
          intro hqe; subst hqe; apply hhead; rw [hq]; simp
        refine ⟨hqne, ?_, ?_, hasNN_prefix q [10] (hq ▸ hnn)⟩
        · intro hp; apply hhead; rw [hq]
          cases q with
          | nil => exact absurd rfl hqne
          | cons p q' => simpa using hp
        · intro hl2
          obtain ⟨q2, hq2⟩ : ∃ q2, q = q2 ++ [10] := eq_snoc_of_getLast? hl2
          rw [hq, hq2] at hnn
          have := hasNN_append_two q2
          simp only [List.append_assoc, List.cons_append, List.nil_append] at hnn
          rw [this] at hnn
          exact absurd hnn (by simp)
      · rename_i hl
        exact ⟨hb, hhead, hl, hnn⟩
    · -- RT is all LF
      unfold dropLF
      split
      · rename_i hl
        intro b hbm
        have hlen : body.dropLast.length = body.length - 1 := by simp
        rw [hlen] at hbm
        obtain ⟨q, hq⟩ : ∃ q, body = q ++ [10] := eq_snoc_of_getLast? hl
        rw [hq] at hbm
        simp at hbm
        exact hbm
      · simp
    · simp
      unfold dropLF
      split
      · rename_i hl
        have hlen : body.dropLast.length = body.length - 1 := by simp
        rw [hlen]
        obtain ⟨q, hq⟩ : ∃ q, body = q ++ [10] := eq_snoc_of_getLast? hl
        rw [hq]; simp
      · simp

/-- The decomposition, by induction over the scan, for CR-free input with all of it in the buffer and EOF known. -/
theorem blank_para_final : ∀ (x : Bytes), (13 : UInt8) ∉ x →
    (∀ p ∈ final splitBlank x, IsParagraph p.1 ∧ ∀ b ∈ p.2, b = 10) ∧
    sepOK (final splitBlank x) = true ∧
    x.takeWhile isNL ++ ((final splitBlank x).map fun p => p.1 ++ p.2).flatten = x := by
  intro x
  induction h : x.length using Nat.strongRecOn generalizing x with
  | ind k ih =>
    intro hcr
    by_cases hx : x = []
    · subst hx; rw [final, scan]; simp [splitBlank, sepOK]
    · rw [final, scan]
      simp only [ne_eq, hx, not_false_eq_true, true_or, if_true]
      simp only [splitBlank, hx, and_false, if_false]
      by_cases hlead : (x.takeWhile isNL).length ≥ x.length
      · simp only [hlead, if_true]
        simp [sepOK, tw_eq_of_len _ _ hlead]
      · simp only [hlead, if_false]
        have hbne : x.drop (x.takeWhile isNL).length ≠ [] := by
          intro he
          have := congrArg List.length he
          simp at this; omega
        have hbcr : (13 : UInt8) ∉ x.drop (x.takeWhile isNL).length := fun hm => hcr (List.mem_of_mem_drop hm)
        have hbhead : (x.drop (x.takeWhile isNL).length).head? ≠ some 10 := by
          rw [drop_length_takeWhile]
          intro hh
          have h1 := takeWhile_dropWhile_nil isNL x
          cases hdw : x.dropWhile isNL with
          | nil => rw [hdw] at hh; simp at hh
          | cons c cs =>
            rw [hdw] at hh h1
            simp only [List.head?_cons, Option.some.injEq] at hh
            subst hh
            simp [isNL] at h1
        obtain ⟨n, r, t, hbb, hn0, hnle, hpara, hrt, hcat, htw, hsep⟩ :=
          blankBody_eof_noCR _ hbne hbcr hbhead
        simp only [hbb, shift]
        have hn1 : 0 < (x.takeWhile isNL).length + n ∧ (x.takeWhile isNL).length + n ≤ x.length := by
          simp only [List.length_drop] at hnle; omega
        simp only [hn1, and_self, dite_true]
        have hrest : x.drop ((x.takeWhile isNL).length + n) = (x.drop (x.takeWhile isNL).length).drop n := by
          rw [List.drop_drop]
        have hrcr : (13 : UInt8) ∉ x.drop ((x.takeWhile isNL).length + n) := fun hm => hcr (List.mem_of_mem_drop hm)
        have hIH := ih (x.drop ((x.takeWhile isNL).length + n)).length (by simp; omega)
          (x.drop ((x.takeWhile isNL).length + n)) rfl hrcr
        simp only [final] at hIH
        obtain ⟨h1, h2, h3⟩ := hIH
        refine ⟨?_, ?_, ?_⟩
        · intro p hp
          simp only [List.mem_cons] at hp
          rcases hp with hp | hp
          · subst hp; exact ⟨hpara, hrt⟩
          · exact h1 p hp
        · rcases hsep with hsep | hsep
          · cases hsc : scan splitBlank (x.drop ((x.takeWhile isNL).length + n)) [] true with
            | nil => simp [sepOK]
            | cons q qs =>
              rw [hsc] at h2
              simp only [sepOK, Bool.and_eq_true, decide_eq_true_eq]
              exact ⟨hsep, h2⟩
          · rw [hrest, hsep]
            rw [scan]; simp [splitBlank, sepOK]
        · rw [hrest] at h3 ⊢
          rw [htw, List.nil_append] at h3
          simp only [List.map_cons, List.flatten_cons]
          rw [h3]
          have : r ++ t ++ (x.drop (x.takeWhile isNL).length).drop n = x.drop (x.takeWhile isNL).length := hcat
          calc x.takeWhile isNL ++ (r ++ t ++ (x.drop (x.takeWhile isNL).length).drop n)
              = x.takeWhile isNL ++ x.drop (x.takeWhile isNL).length := by rw [this]
            _ = x.takeWhile isNL ++ x.dropWhile isNL := by rw [drop_length_takeWhile]
            _ = x := List.takeWhile_append_dropWhile


/-! ## uniqueness of the paragraph decomposition -/

/-- records followed by their RTs, concatenated -/
def catRecs (recs : List (Bytes × Bytes)) : Bytes := (recs.map fun p => p.1 ++ p.2).flatten

/-- a paragraph decomposition: every record a paragraph, every RT a run of LFs, at least two unless the record is the last -/
def GoodDecomp (recs : List (Bytes × Bytes)) : Prop :=
  (∀ p ∈ recs, IsParagraph p.1 ∧ ∀ b ∈ p.2, b = 10) ∧ sepOK recs = true

theorem takeWhile_append_stop {p : UInt8 → Bool} : ∀ (l rest : Bytes), (∀ b ∈ l, p b = true) →
    (∀ c, rest.head? = some c → p c = false) → (l ++ rest).takeWhile p = l := by
  intro l
  induction l with
  | nil =>
    intro rest _ hr
    cases rest with
    | nil => simp
    | cons c cs => simp [hr c (by simp)]
  | cons a l ih =>
    intro rest hl hr
    have ha : p a = true := hl a (by simp)
    simp only [List.cons_append, List.takeWhile_cons, ha, if_true]
    rw [ih rest (fun b hb => hl b (List.mem_cons_of_mem _ hb)) hr]

/-- a run of LFs followed by text that is empty or starts with another byte can be split off in one way only -/
theorem lf_run_unique (l1 l2 r1 r2 : Bytes) (h1 : ∀ b ∈ l1, b = 10) (h2 : ∀ b ∈ l2, b = 10)
    (hr1 : r1.head? ≠ some 10) (hr2 : r2.head? ≠ some 10) (h : l1 ++ r1 = l2 ++ r2) : l1 = l2 ∧ r1 = r2 := by
  have e1 := takeWhile_append_stop (p := fun b => decide (b = 10)) l1 r1 (by simpa using h1)
    (by intro c hc; simp; intro e; exact hr1 (e ▸ hc))
  have e2 := takeWhile_append_stop (p := fun b => decide (b = 10)) l2 r2 (by simpa using h2)
    (by intro c hc; simp; intro e; exact hr2 (e ▸ hc))
  have : l1 = l2 := by rw [← e1, ← e2, h]
  subst this
  exact ⟨rfl, List.append_cancel_left h⟩

theorem catRecs_head (recs : List (Bytes × Bytes)) (hg : GoodDecomp recs) : (catRecs recs).head? ≠ some 10 := by
  cases recs with
  | nil => simp [catRecs]
  | cons p ps =>
    obtain ⟨hne, hhead, _, _⟩ := (hg.1 p (by simp)).1
    cases hp : p.1 with
    | nil => exact absurd hp hne
    | cons c cs =>
      rw [hp] at hhead
      simp only [catRecs, List.map_cons, List.flatten_cons, hp, List.cons_append, List.head?_cons]
      simpa using hhead

theorem catRecs_nil_iff (recs : List (Bytes × Bytes)) (hg : GoodDecomp recs) : catRecs recs = [] ↔ recs = [] := by
  constructor
  · intro h
    cases recs with
    | nil => rfl
    | cons p ps =>
      obtain ⟨hne, _⟩ := (hg.1 p (by simp)).1
      simp only [catRecs, List.map_cons, List.flatten_cons, List.append_eq_nil_iff] at h
      exact absurd h.1.1 hne
  · intro h; subst h; rfl

theorem GoodDecomp_tail {p : Bytes × Bytes} {ps : List (Bytes × Bytes)} (hg : GoodDecomp (p :: ps)) :
    GoodDecomp ps ∧ (2 ≤ p.2.length ∨ ps = []) := by
  obtain ⟨h1, h2⟩ := hg
  cases ps with
  | nil => exact ⟨⟨by simp, by simp [sepOK]⟩, Or.inr rfl⟩
  | cons q qs =>
    simp only [sepOK, Bool.and_eq_true, decide_eq_true_eq] at h2
    exact ⟨⟨fun x hx => h1 x (List.mem_cons_of_mem _ hx), h2.2⟩, Or.inl h2.1⟩

theorem hasNN_mid (a b : Bytes) : hasNN (a ++ 10 :: 10 :: b) = true := by
  have h := hasNN_append_two a
  cases hc : hasNN (a ++ 10 :: 10 :: b) with
  | true => rfl
  | false =>
    have : a ++ 10 :: 10 :: b = (a ++ [10, 10]) ++ b := by simp
    rw [this] at hc
    have := hasNN_prefix _ _ hc
    rw [h] at this; exact absurd this (by simp)

/-- a paragraph cannot continue into the RT/rest of another decomposition of the same text -/
theorem para_no_overrun (r1 t1 rest1 u r2 : Bytes) (ht1 : ∀ b ∈ t1, b = 10) (hsep : 2 ≤ t1.length ∨ rest1 = [])
    (hr2 : IsParagraph r2) (hq : r2 = r1 ++ u) (tail2 : Bytes) (h : t1 ++ rest1 = u ++ tail2) : u = [] := by
  cases u with
  | nil => rfl
  | cons c u' =>
    exfalso
    obtain ⟨_, _, hlast, hnn⟩ := hr2
    cases t1 with
    | nil =>
      rcases hsep with hs | hs
      · simp at hs
      · subst hs; simp at h
    | cons d t1' =>
      have hd : d = 10 := ht1 d (by simp)
      simp only [List.cons_append, List.cons.injEq] at h
      obtain ⟨hdc, h⟩ := h
      subst hdc; subst hd
      cases u' with
      | nil => apply hlast; rw [hq]; simp
      | cons c2 u'' =>
        cases t1' with
        | nil =>
          rcases hsep with hs | hs
          · simp at hs
          · subst hs; simp at h
        | cons d2 t1'' =>
          have hd2 : d2 = 10 := ht1 d2 (by simp)
          simp only [List.cons_append, List.cons.injEq] at h
          obtain ⟨hdc2, _⟩ := h
          subst hdc2; subst hd2
          rw [hq, hasNN_mid] at hnn
          exact absurd hnn (by simp)

theorem para_decomp_unique : ∀ (recs1 recs2 : List (Bytes × Bytes)) (lead1 lead2 : Bytes),
    (∀ b ∈ lead1, b = 10) → (∀ b ∈ lead2, b = 10) → GoodDecomp recs1 → GoodDecomp recs2 →
    lead1 ++ catRecs recs1 = lead2 ++ catRecs recs2 → lead1 = lead2 ∧ recs1 = recs2 := by
  intro recs1
  induction recs1 with
  | nil =>
    intro recs2 lead1 lead2 hl1 hl2 hg1 hg2 h
    obtain ⟨hl, hc⟩ := lf_run_unique _ _ _ _ hl1 hl2 (catRecs_head _ hg1) (catRecs_head _ hg2) h
    exact ⟨hl, ((catRecs_nil_iff recs2 hg2).mp hc.symm).symm⟩
  | cons p ps ih =>
    intro recs2 lead1 lead2 hl1 hl2 hg1 hg2 h
    obtain ⟨hl, hc⟩ := lf_run_unique _ _ _ _ hl1 hl2 (catRecs_head _ hg1) (catRecs_head _ hg2) h
    refine ⟨hl, ?_⟩
    cases recs2 with
    | nil =>
      have := (catRecs_nil_iff (p :: ps) hg1).mp hc
      exact absurd this (by simp)
    | cons q qs =>
      obtain ⟨hgps, hsep1⟩ := GoodDecomp_tail hg1
      obtain ⟨hgqs, hsep2⟩ := GoodDecomp_tail hg2
      obtain ⟨hp1, hp2⟩ := hg1.1 p (by simp)
      obtain ⟨hq1, hq2⟩ := hg2.1 q (by simp)
      have hsep1' : 2 ≤ p.2.length ∨ catRecs ps = [] := hsep1.imp id (fun e => by subst e; rfl)
      have hsep2' : 2 ≤ q.2.length ∨ catRecs qs = [] := hsep2.imp id (fun e => by subst e; rfl)
      have hc' : p.1 ++ (p.2 ++ catRecs ps) = q.1 ++ (q.2 ++ catRecs qs) := by
        simpa [catRecs, List.append_assoc] using hc
      have hfst : p.1 = q.1 := by
        rcases List.append_eq_append_iff.mp hc' with ⟨u, hu1, hu2⟩ | ⟨u, hu1, hu2⟩
        · have := para_no_overrun p.1 p.2 (catRecs ps) u q.1 hp2 hsep1' hq1 hu1 _ hu2
          subst this; simpa using hu1.symm
        · have := para_no_overrun q.1 q.2 (catRecs qs) u p.1 hq2 hsep2' hp1 hu1 _ hu2
          subst this; simpa using hu1
      rw [hfst] at hc'
      have hc2 := List.append_cancel_left hc'
      obtain ⟨hsnd, hrest⟩ := lf_run_unique _ _ _ _ hp2 hq2 (catRecs_head _ hgps) (catRecs_head _ hgqs) hc2
      have htl := (ih qs [] [] (by simp) (by simp) hgps hgqs (by simpa using hrest)).2
      have hpq : p = q := Prod.ext hfst hsnd
      rw [hpq, htl]

end GoawkModel.C07
