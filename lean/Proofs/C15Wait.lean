import GoawkModel.C15Wait
import Proofs.C15
/-! # C15 — proofs about the wait state (waiting for a system() / piped command) -/
namespace GoawkModel.C15

theorem deadAt_some_of_ctx (w : Cmd) (start τ : Nat) :
    ∃ dead, deadAt w start (some τ) = some dead ∧ start ≤ dead ∧ dead ≤ max τ start := by
  unfold deadAt
  cases w.exits with
  | none => exact ⟨_, rfl, by omega, by omega⟩
  | some e => exact ⟨_, rfl, by omega, by omega⟩

theorem waitReturns_blocked (w : Cmd) (start : Nat) (τ : Option Nat) (h : w.copy = .blocked) :
    waitReturns w start τ = none := by
  unfold waitReturns
  cases deadAt w start τ with
  | none => rfl
  | some dead => simp [h]

theorem waitReturns_prompt (w : Cmd) (start τ d : Nat) (h : w.copy.terminatesWithin d) :
    ∃ r, waitReturns w start (some τ) = some r ∧ start ≤ r ∧ r ≤ max τ start + (waitDelay + d) := by
  obtain ⟨dead, hd, h1, h2⟩ := deadAt_some_of_ctx w start τ
  unfold waitReturns
  rw [hd]
  cases hc : w.copy with
  | none =>
    cases w.orphan <;> simp <;> omega
  | yieldsAfter d' =>
    rw [hc] at h
    simp only [StdinCopy.terminatesWithin] at h
    cases w.orphan <;> simp <;> omega
  | blocked =>
    rw [hc] at h
    exact absurd h (by simp [StdinCopy.terminatesWithin])

theorem cancelledW_mono {τi τc : Option Nat} {i j clk clk' : Nat} (h : cancelledW τi τc i clk = true)
    (hij : i ≤ j) (hc : clk ≤ clk') : cancelledW τi τc j clk' = true := by
  unfold cancelledW at h ⊢
  rw [Bool.or_eq_true] at h ⊢
  cases h with
  | inl h => exact Or.inl (cancelledBy_mono h hij)
  | inr h => exact Or.inr (cancelledBy_mono h hc)

theorem runW_prompt_aux {N : Nat} (τ d B : Nat) (τi : Option Nat) (hB : τ + (waitDelay + d) ≤ B) (ss : List Step)
    (hterm : ∀ w, Step.wait w ∈ ss → w.copy.terminatesWithin d)
    (i clk c a : Nat) (k : Counts) (hc : c < N) (hclk : clk ≤ B) (ha : a ≤ c)
    (ha0 : cancelledW τi (some τ) i clk = false → a = 0) :
    match runW N τi (some τ) ss i clk c a k with
    | .stuck _ => False
    | .ctxErr _ clk' a' _ => clk' ≤ B ∧ a' < N
    | .finished clk' a' _ => clk' ≤ B ∧ a' < N := by
  induction ss generalizing i clk c a k with
  | nil => simp only [runW]; exact ⟨hclk, by omega⟩
  | cons s ss ih =>
    have hterm' : ∀ w, Step.wait w ∈ ss → w.copy.terminatesWithin d :=
      fun w hw => hterm w (List.mem_cons_of_mem _ hw)
    have hN : 0 < N := by omega
    unfold runW
    cases hcan : cancelledW τi (some τ) i clk with
    | true =>
      cases hp2 : (poll N c).2 with
      | true => simp only [Bool.and_self, if_true]; exact ⟨hclk, by omega⟩
      | false =>
        have hp1 : (poll N c).1 = c + 1 ∧ c + 1 < N := by
          unfold poll at hp2 ⊢
          split at hp2
          · rename_i hlt; simp [hlt]
          · simp at hp2
        have hnext := ih hterm' (i + 1) clk (c + 1) (a + 1)
        have hmono : cancelledW τi (some τ) (i + 1) clk = false → a + 1 = 0 := by
          intro hfalse
          have := cancelledW_mono hcan (Nat.le_succ i) (Nat.le_refl clk)
          rw [this] at hfalse
          exact absurd hfalse (by simp)
        simp only [Bool.false_and, Bool.false_eq_true, if_false, if_true, hp1.1]
        cases s with
        | d x =>
          cases x with
          | plain => exact hnext k hp1.2 hclk (by omega) hmono
          | tick => exact hnext _ hp1.2 hclk (by omega) hmono
        | wait w => exact hnext k hp1.2 hclk (by omega) hmono
    | false =>
      have ha' : a = 0 := ha0 hcan
      subst ha'
      have hpl : (poll N c).1 < N := poll_lt hN c
      simp only [Bool.and_false, Bool.false_eq_true, if_false]
      cases s with
      | d x =>
        cases x with
        | plain => exact ih hterm' (i + 1) clk (poll N c).1 0 k hpl hclk (Nat.zero_le _) (fun _ => rfl)
        | tick => exact ih hterm' (i + 1) clk (poll N c).1 0 _ hpl hclk (Nat.zero_le _) (fun _ => rfl)
      | wait w =>
        obtain ⟨r, hr, h1, h2⟩ := waitReturns_prompt w clk τ d (hterm w (List.mem_cons_self ..))
        have hlt : clk < τ := by
          unfold cancelledW at hcan
          rw [Bool.or_eq_false_iff] at hcan
          have := hcan.2
          simp [cancelledBy] at this
          exact this
        simp only [hr]
        exact ih hterm' (i + 1) r (poll N c).1 0 k hpl (by omega) (Nat.zero_le _) (fun _ => rfl)

/-- without waits and without a clock-driven cancellation `runW` is `run` -/
theorem runW_no_waits (N : Nat) (τi : Option Nat) (ds : List D) (i clk c a : Nat) (k : Counts) :
    (runW N τi none (ds.map Step.d) i clk c a k).forget = some (run N τi ds i c k).dropCounter := by
  induction ds generalizing i c a k with
  | nil => simp [runW, run, OutcomeW.forget, Outcome.dropCounter]
  | cons x ds ih =>
    have hcw : cancelledW τi none i clk = cancelledBy τi i := by simp [cancelledW, cancelledBy]
    simp only [List.map_cons, runW, run, hcw]
    by_cases hf : ((poll N c).2 && cancelledBy τi i) = true
    · simp [hf, OutcomeW.forget, Outcome.dropCounter]
    · simp only [hf]
      cases x with
      | plain => exact ih ..
      | tick => exact ih ..

theorem closeAll_prompt (τ d B : Nat) (hB : τ + (waitDelay + d) ≤ B) (open_ : List (Cmd × Nat))
    (hterm : ∀ p ∈ open_, p.1.copy.terminatesWithin d ∧ p.2 ≤ τ) (now : Nat) (hnow : now ≤ B) :
    ∃ r, closeAllReturns (some τ) open_ now = some r ∧ r ≤ B := by
  induction open_ generalizing now with
  | nil => exact ⟨now, rfl, hnow⟩
  | cons p rest ih =>
    obtain ⟨w, start⟩ := p
    have hp := hterm (w, start) (List.mem_cons_self ..)
    obtain ⟨r, hr, _, h2⟩ := waitReturns_prompt w start τ d hp.1
    have hs : start ≤ τ := hp.2
    simp only [closeAllReturns, hr]
    exact ih (fun q hq => hterm q (List.mem_cons_of_mem _ hq)) (max now r) (by omega)

end GoawkModel.C15
