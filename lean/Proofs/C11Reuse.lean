import GoawkModel.C11Reuse
import Proofs.C11Input
import Proofs.C11Stream
import Proofs.C11Special
import Proofs.C11OpLog
import Proofs.C11Lift
/-! One interpreter, several executions: `resetCore` ; `setExecuteConfig` re-establish the initial bookkeeping state. -/
namespace GoawkModel.C11

theorem setVarByName_more (s : St) (n v : Bytes) :
    (s.setVarByName n v).visits = s.visits ∧ (s.setVarByName n v).depth = s.depth ∧
    (s.setVarByName n v).consumed = s.consumed ∧ (s.setVarByName n v).varNames = s.varNames ∧
    (s.setVarByName n v).onStdin = s.onStdin := by
  unfold St.setVarByName
  split
  · simp
  · split
    · simp
    · split <;> simp

/-- `Config.Vars` write variables (program globals, FILENAME, FS) and nothing of the bookkeeping -/
theorem applyVars_frame : ∀ (vs : List (Bytes × Bytes)) (s : St),
    (applyVars s vs).nr = s.nr ∧ (applyVars s vs).fnr = s.fnr ∧ (applyVars s vs).iters = s.iters ∧ (applyVars s vs).gl = s.gl ∧
    (applyVars s vs).glv = s.glv ∧ (applyVars s vs).out = s.out ∧ (applyVars s vs).status = s.status ∧
    (applyVars s vs).idx = s.idx ∧ (applyVars s vs).cur = s.cur ∧ (applyVars s vs).hadFiles = s.hadFiles ∧
    (applyVars s vs).takes = s.takes ∧ (applyVars s vs).edited = s.edited ∧ (applyVars s vs).walkEdited = s.walkEdited ∧
    (applyVars s vs).ilog = s.ilog ∧ (applyVars s vs).visits = s.visits ∧ (applyVars s vs).depth = s.depth ∧
    (applyVars s vs).line = s.line ∧ (applyVars s vs).streams = s.streams ∧ (applyVars s vs).fs = s.fs ∧
    (applyVars s vs).argv = s.argv ∧ (applyVars s vs).argc = s.argc ∧ (applyVars s vs).stdin = s.stdin
  | [], s => by simp [applyVars]
  | (n, v) :: rest, s => by
    have ih := applyVars_frame rest (s.setVarByName n v)
    simp only [applyVars]
    simp [ih, setVarByName_fields, setVarByName_fields2, setVarByName_fields3, setVarByName_ilog, setVarByName_more]

/-- **the next execution starts where a fresh interpreter starts.** Whatever state `s` the previous executions left — operand
cursor, had-files flag, a scanner in the middle of a file, half-read getline streams, NR, FNR, FILENAME, `$0`, exit status — the
state in which `Execute` starts execution `e` is the fresh initial state for `e`; of `s` only the variables are left
(`carried`: global scalars, FS and the FS saved with `$0`, ARGV beyond the new operands — none at all after `ResetVars`). -/
theorem startNext_eq_freshStart (s : St) (e : Exec) : s.startNext e = freshStart s.varNames e (carried s e) := by
  cases s
  unfold St.startNext carried freshStart St.setExecuteConfig St.resetCore St.resetVars
  cases e.resetVars <;> rfl

/-- after `ResetVars` nothing is carried -/
theorem carried_after_resetVars (s : St) (e : Exec) (h : e.resetVars = true) : carried s e = {} := by
  unfold carried St.resetVars
  simp [h]

theorem freshStart_fields (names : List Bytes) (e : Exec) (c : Carried) :
    (freshStart names e c).nr = 0 ∧ (freshStart names e c).fnr = 0 ∧ (freshStart names e c).iters = 0 ∧
    (freshStart names e c).gl = 0 ∧ (freshStart names e c).glv = 0 ∧ (freshStart names e c).out = [] ∧
    (freshStart names e c).status = 0 ∧ (freshStart names e c).idx = 1 ∧ (freshStart names e c).cur = none ∧
    (freshStart names e c).hadFiles = false ∧ (freshStart names e c).takes = [] ∧ (freshStart names e c).edited = false ∧
    (freshStart names e c).walkEdited = false ∧ (freshStart names e c).ilog = [] ∧ (freshStart names e c).visits = [] ∧
    (freshStart names e c).depth = 0 ∧ (freshStart names e c).line = [] ∧ (freshStart names e c).streams = [] ∧
    (freshStart names e c).fs = e.fs ∧ (freshStart names e c).argv = ([] :: e.args) ++ c.argvTail ∧
    (freshStart names e c).argc = e.args.length + 1 ∧ (freshStart names e c).stdin = e.stdin := by
  unfold freshStart
  simp [applyVars_frame]

/-- NF of `$0` at the start of an execution is 0 whatever FS was saved with the previous execution's last record -/
theorem freshStart_nf (names : List Bytes) (e : Exec) (c : Carried) : (freshStart names e c).nf = 0 := by
  have h := (freshStart_fields names e c).2.2.2.2.2.2.2.2.2.2.2.2.2.2.2.2.1
  unfold St.nf nfWith
  rw [h]
  split
  · rfl
  · split <;> simp [nfOf, nfAux]

/-- every execution of a history is a run from a fresh start: element by element, `runAll` is `run` applied to
`freshStart` of that execution with the variables carried from the state before it -/
theorem runAll_cons (fuel : Nat) (p : Prog) (s : St) (e : Exec) (es : List Exec) :
    runAll fuel p s (e :: es) =
      run fuel p (freshStart s.varNames e (carried s e)) ::
        runAll fuel p (run fuel p (freshStart s.varNames e (carried s e))).2 es := by
  simp [runAll, startNext_eq_freshStart]

theorem runAll_length (fuel : Nat) (p : Prog) : ∀ (es : List Exec) (s : St), (runAll fuel p s es).length = es.length
  | [], _ => rfl
  | e :: es, s => by simp [runAll, runAll_length fuel p es]

theorem runAll_mem (fuel : Nat) (p : Prog) : ∀ (es : List Exec) (s : St) (r : Bool × St), r ∈ runAll fuel p s es →
    ∃ e ∈ es, ∃ names c, r = run fuel p (freshStart names e c)
  | [], _, r, h => by simp [runAll] at h
  | e :: es, s, r, h => by
    rw [runAll_cons] at h
    rcases List.mem_cons.mp h with h | h
    · exact ⟨e, by simp, _, _, h⟩
    · obtain ⟨e', he', names, c, hr⟩ := runAll_mem fuel p es _ r h
      exact ⟨e', by simp [he'], names, c, hr⟩

/-- … by position: the `i`-th result of the history is a run of the `i`-th execution from a fresh start -/
theorem runAll_get (fuel : Nat) (p : Prog) : ∀ (es : List Exec) (s : St) (i : Nat) (r : Bool × St) (e : Exec),
    (runAll fuel p s es)[i]? = some r → es[i]? = some e → ∃ names c, r = run fuel p (freshStart names e c)
  | [], _, _, _, _, _, he => by simp at he
  | e0 :: es, s, 0, r, e, hr, he => by
    rw [runAll_cons] at hr
    simp at hr he
    exact ⟨_, _, by rw [← hr, he]⟩
  | e0 :: es, s, i + 1, r, e, hr, he => by
    rw [runAll_cons] at hr
    simp at hr he
    exact runAll_get fuel p es _ i r e hr he

/-- the operands of a fresh start are the new operand list: stale ARGV elements beyond it are not operands (ARGC is set anew) -/
theorem operandsFrom_append : ∀ (xs pre tail : List Bytes), operandsFrom (pre ++ xs ++ tail) pre.length xs.length = xs
  | [], _, _ => rfl
  | x :: xs, pre, tail => by
    have ih := operandsFrom_append xs (pre ++ [x]) tail
    simp only [List.length_cons, operandsFrom]
    have e1 : pre ++ [x] ++ xs ++ tail = pre ++ x :: xs ++ tail := by simp
    have e2 : (pre ++ [x]).length = pre.length + 1 := by simp
    rw [e1, e2] at ih
    rw [ih]
    simp [List.getD_eq_getElem?_getD]

theorem freshStart_operands (names : List Bytes) (e : Exec) (c : Carried) :
    operandsFrom (freshStart names e c).argv 1 ((freshStart names e c).argc - 1) = e.args := by
  obtain ⟨-, -, -, -, -, -, -, -, -, -, -, -, -, -, -, -, -, -, -, hargv, hargc, -⟩ := freshStart_fields names e c
  rw [hargv, hargc]
  have h := operandsFrom_append e.args [[]] c.argvTail
  simpa using h

/-! ### the names of the program's globals are a constant of the interpreter -/

theorem openWalk_varNames : ∀ (n : Nat) (s : St), (openWalk n s).2.varNames = s.varNames
  | 0, s => by
    unfold openWalk
    split
    · rfl
    · split <;> simp [St.setFile, St.took]
  | n + 1, s => by
    have ih := openWalk_varNames n
    unfold openWalk
    simp only [St.fetch]
    split
    · rw [ih, (setVarByName_more _ _ _).2.2.2.1]
    · rw [ih]
    · split <;> simp [ih, St.setFile, St.took]
    · split <;> simp [ih, St.setFile, St.took]

theorem nextLine_varNames (s : St) : (nextLine s).2.varNames = s.varNames := by
  unfold nextLine
  split
  · simp [St.took]
  · rw [openWalk_varNames]

theorem readStream_varNames (s : St) (f : Bytes) : (readStream s f).2.2.varNames = s.varNames := by
  unfold readStream
  cases lookup f s.streams with
  | some rs => cases rs <;> simp
  | none =>
    cases lookup f s.fs with
    | none => simp
    | some rs => cases rs <;> simp

theorem varNames_stable (names : List Bytes) : Stable (fun s => s.varNames = names) where
  emit := by intro s tag h; simpa [St.doEmit, St.emitEv] using h
  ev := by intro s e _ h; simpa [St.emitEv] using h
  exitSome := by intro s n h; simpa [St.emitEv, St.setStatus] using h
  gl := by
    intro s h
    have := nextLine_varNames s
    unfold doGetline
    split <;> simp_all [St.emitEv, St.setLine]
  glv := by
    intro s v h
    have := nextLine_varNames s
    unfold doGetlineVar
    split <;> simp_all [St.emitEv, St.setVar]
  glf := by
    intro s f h
    have := readStream_varNames s f
    unfold doGetlineFile
    split <;> simp_all [St.emitEv, St.setLine]
  glvf := by
    intro s v f h
    have := readStream_varNames s f
    unfold doGetlineVarFile
    split <;> simp_all [St.emitEv, St.setVar]
  argv := by intro s i v h; simpa [St.setArgv] using h
  argc := by intro s n h; simpa [St.setArgc] using h
  close := by intro s f h; simpa [St.closeStream] using h
  fname := by intro s v h; simpa [St.assignFilename] using h
  fsep := by intro s v h; simpa [St.assignFs] using h
  enter := by intro s h; simpa [St.enterCall] using h
  leave := by intro s h; simpa [St.leaveCall] using h
  take := by
    intro s r s1 h hn
    have := nextLine_varNames s
    rw [hn] at this
    simp_all [St.beginRecord]
  eof := by
    intro s s1 h hn
    have := nextLine_varNames s
    rw [hn] at this
    simp_all
  err := by
    intro s s1 h hn
    have := nextLine_varNames s
    rw [hn] at this
    simp_all
  nextfile := by intro s h; simpa [St.dropScanner] using h
  visit := by intro s v h; simpa using h

theorem run_varNames (fuel : Nat) (p : Prog) (s : St) : (run fuel p s).2.varNames = s.varNames :=
  run_preserves (varNames_stable s.varNames) fuel p s rfl

theorem applyVars_varNames : ∀ (vs : List (Bytes × Bytes)) (s : St), (applyVars s vs).varNames = s.varNames
  | [], _ => rfl
  | (n, v) :: rest, s => by
    simp only [applyVars]
    rw [applyVars_varNames rest, (setVarByName_more _ _ _).2.2.2.1]

theorem freshStart_varNames (names : List Bytes) (e : Exec) (c : Carried) : (freshStart names e c).varNames = names := by
  unfold freshStart
  rw [applyVars_varNames]

/-- **a history whose executions are each preceded by `ResetVars` is the list of the standalone runs**: the flat specification
of the sequence is, execution by execution, the flat specification of that execution from the initial state -/
theorem runAll_resetVars (fuel : Nat) (p : Prog) : ∀ (es : List Exec) (s : St), (∀ e ∈ es, e.resetVars = true) →
    runAll fuel p s es = es.map fun e => run fuel p (freshStart s.varNames e {})
  | [], _, _ => rfl
  | e :: es, s, h => by
    rw [runAll_cons, carried_after_resetVars s e (h e (by simp))]
    have ih := runAll_resetVars fuel p es (run fuel p (freshStart s.varNames e {})).2 (fun e' he' => h e' (by simp [he']))
    rw [ih, run_varNames, freshStart_varNames]
    simp
end GoawkModel.C11
