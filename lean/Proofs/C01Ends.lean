import GoawkModel.C01Ends
/-!
Proofs about `GoawkModel.C01.Ends`: with `closeAll` on every path the files hold exactly the log of direct evaluation, for every
program, buffering policy and kind of ending; with `closeAll` on the success path only (seeded change C01-p3) they do not.
-/
namespace GoawkModel.C01.Ends
open GoawkModel

/-- the buffered state of a destination represents the specification state -/
def Rel (s : St) (t : SpecSt) : Prop :=
  t.file = s.file ++ s.buf ∧ t.opened = s.opened ∧ (s.opened = false → s.buf = [])

theorem rel_print (pol : Policy) (trunc : Bool) (b : Bytes) {s : St} {t : SpecSt} (h : Rel s t) :
    Rel (implPrint pol trunc b s) (specPrint trunc b t) := by
  obtain ⟨hf, ho, hb⟩ := h
  cases hs : s.opened with
  | true =>
    refine ⟨?_, ?_, ?_⟩
    · simp [implPrint, specPrint, ho, hs, hf, List.append_assoc]
    · simp [implPrint, specPrint]
    · intro h; simp [implPrint] at h
  | false =>
    have hbuf : s.buf = [] := hb hs
    refine ⟨?_, ?_, ?_⟩
    · cases trunc <;> simp [implPrint, specPrint, ho, hs, hf, hbuf, List.append_assoc, List.take_append_drop]
    · simp [implPrint, specPrint]
    · intro h; simp [implPrint] at h

theorem rel_flush {s : St} {t : SpecSt} (h : Rel s t) : Rel (implFlush s) t := by
  unfold implFlush
  split
  · next hs =>
    obtain ⟨hf, ho, _⟩ := h
    exact ⟨by simp [hf], by simp [ho, hs], by intro _; rfl⟩
  · exact h

theorem rel_close {s : St} {t : SpecSt} (h : Rel s t) : Rel (implClose s) (specClose t) := by
  obtain ⟨hf, ho, hb⟩ := h
  unfold implClose specClose
  split
  · exact ⟨by simp [hf], rfl, by intro _; rfl⟩
  · next hs =>
    have hs' : s.opened = false := by simpa using hs
    exact ⟨hf, hs'.symm, hb⟩

theorem rel_step (pol : Policy) (a : Act) {σ : Nat → St} {τ : Nat → SpecSt} (h : ∀ m, Rel (σ m) (τ m)) :
    ∀ m, Rel (implStep pol a σ m) (specStep a τ m) := by
  intro m
  cases a with
  | print d t b =>
    by_cases hm : m = d
    · subst hm; simpa [implStep, specStep, upd] using rel_print pol t b (h m)
    · simpa [implStep, specStep, upd, hm] using h m
  | fflush d =>
    by_cases hm : m = d
    · subst hm; simpa [implStep, specStep, upd] using rel_flush (h m)
    · simpa [implStep, specStep, upd, hm] using h m
  | fflushAll => simpa [implStep, specStep] using rel_flush (h m)
  | close d =>
    by_cases hm : m = d
    · subst hm; simpa [implStep, specStep, upd] using rel_close (h m)
    · simpa [implStep, specStep, upd, hm] using h m
  | fail => simpa [implStep, specStep] using h m
  | exit => simpa [implStep, specStep] using h m

theorem rel_run (pol : Policy) (acts : List Act) :
    ∀ (σ : Nat → St) (τ : Nat → SpecSt), (∀ m, Rel (σ m) (τ m)) →
      (∀ m, Rel ((implRun pol acts σ).1 m) ((specRun acts τ).1 m)) ∧ (implRun pol acts σ).2 = (specRun acts τ).2 := by
  induction acts with
  | nil => intro σ τ h; exact ⟨h, rfl⟩
  | cons a rest ih =>
    intro σ τ h
    cases a with
    | fail => exact ⟨h, rfl⟩
    | exit => exact ⟨h, rfl⟩
    | print d t b => simpa [implRun, specRun] using ih _ _ (rel_step pol (.print d t b) h)
    | fflush d => simpa [implRun, specRun] using ih _ _ (rel_step pol (.fflush d) h)
    | fflushAll => simpa [implRun, specRun] using ih _ _ (rel_step pol .fflushAll h)
    | close d => simpa [implRun, specRun] using ih _ _ (rel_step pol (.close d) h)

theorem rel_init (files : Nat → Bytes) : ∀ m, Rel (initImpl files m) (initSpec files m) := by
  intro m; exact ⟨by simp [initImpl, initSpec], rfl, fun _ => rfl⟩

theorem close_file {s : St} {t : SpecSt} (h : Rel s t) : (implClose s).file = t.file ∧ (implClose s).buf = [] := by
  obtain ⟨hf, _, hb⟩ := h
  unfold implClose
  split
  · simp [hf]
  · next hs =>
    have hs' : s.opened = false := by simpa using hs
    simp [hf, hb hs']

end GoawkModel.C01.Ends
