import GoawkModel.C09
import GoawkModel.C09Spec
/-! Helper lemmas for property C09: what `parseFmtTypes`' loop does at one conversion specification. -/
namespace GoawkModel.C09
open GoawkModel

theorem parseFmtAux_nil (fuel : Nat) : parseFmtAux fuel [] = .ok ([], []) := by
  cases fuel <;> rfl

theorem isSpecChar_ne_pct (c : UInt8) (h : isSpecChar c = true) : c ≠ 37 := by
  intro hc; subst hc; revert h; decide

/-- one `%…verb` item: the scanner skips the flag/width/precision characters, looks the verb up, and continues after it -/
theorem parseFmtAux_spec (fuel : Nat) (body : Bytes) (v : UInt8) (rest : Bytes)
    (hb : ∀ c ∈ body, isSpecChar c = true) (hv : isSpecChar v = false) (hne : body = [] → v ≠ 37) :
    parseFmtAux (fuel + 1) (37 :: (body ++ v :: rest)) =
      match lookupVerb v with
      | none => .error (.badVerb v)
      | some (t, g) =>
        match parseFmtAux fuel rest with
        | .ok (out, ts) => .ok (37 :: body ++ g :: out, starTypes body ++ t :: ts)
        | .error e => .error e := by
  have htw : (body ++ v :: rest).takeWhile isSpecChar = body := by
    rw [List.takeWhile_append_of_pos hb]; simp [List.takeWhile, hv]
  have hdw : (body ++ v :: rest).dropWhile isSpecChar = v :: rest := by
    rw [List.dropWhile_append_of_pos hb]; simp [List.dropWhile, hv]
  cases body with
  | nil =>
    have hv37 : v ≠ 37 := hne rfl
    simp only [List.nil_append] at htw hdw ⊢
    simp only [parseFmtAux, ne_eq, not_true_eq_false, if_false, hv37, htw, hdw]
    cases lookupVerb v with
    | none => rfl
    | some tg => cases tg; rfl
  | cons b bs =>
    have hb37 : b ≠ 37 := isSpecChar_ne_pct b (hb b (by simp))
    simp only [List.cons_append] at htw hdw ⊢
    simp only [parseFmtAux, ne_eq, not_true_eq_false, if_false, hb37, htw, hdw]
    cases lookupVerb v with
    | none => rfl
    | some tg => cases tg; rfl

theorem isGoFlag_isSpecChar (c : UInt8) (h : isGoFlag c = true) : isSpecChar c = true := by
  simp only [isGoFlag, Bool.or_eq_true, decide_eq_true_eq] at h
  rcases h with (((h | h) | h) | h) | h <;> subst h <;> decide

theorem isGoFlag_ne_star (c : UInt8) (h : isGoFlag c = true) : c ≠ 42 := by
  intro hc; subst hc; revert h; decide

end GoawkModel.C09
