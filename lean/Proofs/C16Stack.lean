import GoawkModel.C16Stack
/-! Simulation proof for the value-stack model `GoawkModel.C16.Stack`: in the modes `savedSlice` (the code as it is) and `offset`
the VM observes what the reference semantics (every activation owns its scalars and operands) observes, for every growth policy
that really grows and every initial capacity. -/
namespace GoawkModel.C16.Stack

/-- the backing array through which the activation with frame slice `f` reaches its scalars -/
def la (mode : Mode) (cur : Nat) (f : Slice) : Nat :=
  match mode with
  | .offset => cur
  | _ => f.arr

theorem localArr_eq (mode : Mode) (m : VM) : localArr mode m = la mode m.cur m.frame := by
  cases mode <;> rfl

/-- first cell of the activation whose cells end at `top` -/
def base (a : Act) (top : Nat) : Nat := top - a.ops.length - a.locals.length

/-- one activation: its scalars are where its slice says (in the array through which it reaches them), its operands are in the
current backing array -/
structure Cell (mode : Mode) (heap : Nat → Nat → Nat) (nArr cur : Nat) (a : Act) (f : Slice) (top : Nat) : Prop where
  fits : a.locals.length + a.ops.length ≤ top
  off : f.off = base a top
  arr : f.arr < nArr
  locs : ∀ i, i < a.locals.length → heap (la mode cur f) (f.off + i) = a.locals.getD i 0
  ops : ∀ j, j < a.ops.length → heap cur (top - 1 - j) = a.ops.getD j 0

/-- the activations (innermost first) against the frame of the running one and the saved frames -/
def Inv (mode : Mode) (heap : Nat → Nat → Nat) (nArr cur : Nat) :
    List Act → List (Slice × Nat) → Slice → Nat → Prop
  | [], _, _, _ => False
  | a :: rest, sv, f, top =>
    Cell mode heap nArr cur a f top ∧
    match sv with
    | [] => rest = [] ∧ base a top = 0
    | (g, k) :: sv' => k = a.locals.length ∧ Inv mode heap nArr cur rest sv' g (base a top)

structure Rel (mode : Mode) (m : VM) (acts : List Act) : Prop where
  inv : Inv mode m.heap m.nArr m.cur acts m.saved m.frame m.sp
  cur_lt : m.cur < m.nArr
  sp_le : m.sp ≤ m.cap

theorem base_le (a : Act) (top : Nat) : base a top ≤ top := by unfold base; omega

/-! ### list facts -/

theorem getD_set (l : List Nat) (i j v : Nat) (h : i < l.length) :
    (l.set i v).getD j 0 = if j = i then v else l.getD j 0 := by
  induction l generalizing i j with
  | nil => simp at h
  | cons x xs ih =>
    cases i with
    | zero =>
      cases j with
      | zero => simp
      | succ j => simp
    | succ i =>
      cases j with
      | zero => simp
      | succ j =>
        simp only [List.set_cons_succ, List.getD_cons_succ]
        rw [ih i j (by simpa using h)]
        simp

theorem getD_drop (l : List Nat) (k j : Nat) : (l.drop k).getD j 0 = l.getD (k + j) 0 := by
  simp [List.getD_eq_getElem?_getD, List.getElem?_drop]

theorem getD_reverse_take (l : List Nat) (k i : Nat) (hk : k ≤ l.length) (hi : i < k) :
    ((l.take k).reverse).getD i 0 = l.getD (k - 1 - i) 0 := by
  have hlen : (l.take k).length = k := by simp [List.length_take, Nat.min_eq_left hk]
  simp only [List.getD_eq_getElem?_getD]
  rw [List.getElem?_reverse (by omega), hlen, List.getElem?_take]
  have : k - 1 - i < k := by omega
  simp [this]

/-! ### the invariant is local: it only looks at cells below `top` -/

theorem Cell.congr {mode : Mode} {heap heap' : Nat → Nat → Nat} {nArr cur : Nat} {a : Act} {f : Slice} {top : Nat}
    (hh : ∀ x p, p < top → heap' x p = heap x p) (c : Cell mode heap nArr cur a f top) :
    Cell mode heap' nArr cur a f top := by
  refine ⟨c.fits, c.off, c.arr, ?_, ?_⟩
  · intro i hi
    rw [hh _ _ (by have := c.off; have := c.fits; unfold base at *; omega)]
    exact c.locs i hi
  · intro j hj
    rw [hh _ _ (by have := c.fits; omega)]
    exact c.ops j hj

theorem Inv.congr {mode : Mode} {heap heap' : Nat → Nat → Nat} {nArr cur : Nat} :
    ∀ (acts : List Act) (sv : List (Slice × Nat)) (f : Slice) (top : Nat),
      (∀ x p, p < top → heap' x p = heap x p) →
      Inv mode heap nArr cur acts sv f top → Inv mode heap' nArr cur acts sv f top := by
  intro acts
  induction acts with
  | nil => intro sv f top _ h; exact h
  | cons a rest ih =>
    intro sv f top hh h
    cases sv with
    | nil => exact ⟨h.1.congr hh, h.2⟩
    | cons gk sv' =>
      obtain ⟨g, k⟩ := gk
      refine ⟨h.1.congr hh, h.2.1, ?_⟩
      exact ih sv' g (base a top) (fun x p hp => hh x p (Nat.lt_of_lt_of_le hp (base_le a top))) h.2.2

/-! ### re-allocation -/

def reheap (heap : Nat → Nat → Nat) (nArr cur : Nat) : Nat → Nat → Nat :=
  fun a i => if a = nArr then heap cur i else heap a i

theorem Cell.realloc {mode : Mode} {heap : Nat → Nat → Nat} {nArr cur : Nat} {a : Act} {f : Slice} {top : Nat}
    (_hc : cur < nArr) (c : Cell mode heap nArr cur a f top) :
    Cell mode (reheap heap nArr cur) (nArr + 1) nArr a f top := by
  refine ⟨c.fits, c.off, Nat.lt_succ_of_lt c.arr, ?_, ?_⟩
  · intro i hi
    rw [← c.locs i hi]
    cases mode with
    | offset => simp [la, reheap]
    | savedSlice =>
      have : f.arr ≠ nArr := Nat.ne_of_lt c.arr
      simp [la, reheap, this]
    | reslice =>
      have : f.arr ≠ nArr := Nat.ne_of_lt c.arr
      simp [la, reheap, this]
  · intro j hj
    rw [← c.ops j hj]
    simp [reheap]

theorem Inv.realloc {mode : Mode} {heap : Nat → Nat → Nat} {nArr cur : Nat} (hc : cur < nArr) :
    ∀ (acts : List Act) (sv : List (Slice × Nat)) (f : Slice) (top : Nat),
      Inv mode heap nArr cur acts sv f top → Inv mode (reheap heap nArr cur) (nArr + 1) nArr acts sv f top := by
  intro acts
  induction acts with
  | nil => intro sv f top h; exact h
  | cons a rest ih =>
    intro sv f top h
    cases sv with
    | nil => exact ⟨h.1.realloc hc, h.2⟩
    | cons gk sv' =>
      obtain ⟨g, k⟩ := gk
      exact ⟨h.1.realloc hc, h.2.1, ih sv' g (base a top) h.2.2⟩

theorem Rel.realloc {mode : Mode} {grow : Nat → Nat} (hg : ∀ c, c < grow c) {m : VM} {acts : List Act}
    (r : Rel mode m acts) (hfull : m.sp ≥ m.cap) :
    Rel mode (Stack.realloc grow m) acts ∧ (Stack.realloc grow m).sp < (Stack.realloc grow m).cap := by
  constructor
  · exact ⟨Inv.realloc r.cur_lt acts m.saved m.frame m.sp r.inv, Nat.lt_succ_self _,
      Nat.le_of_lt (Nat.lt_of_le_of_lt r.sp_le (hg m.cap))⟩
  · have := r.sp_le
    have := hg m.cap
    show m.sp < grow m.cap
    omega

/-! ### one more operand -/

theorem Inv.pushCell {mode : Mode} {heap : Nat → Nat → Nat} {nArr cur : Nat} {a : Act} {rest : List Act}
    {sv : List (Slice × Nat)} {f : Slice} {top : Nat} (v : Nat)
    (h : Inv mode heap nArr cur (a :: rest) sv f top) :
    Inv mode (setCell heap cur top v) nArr cur ({ a with ops := v :: a.ops } :: rest) sv f (top + 1) := by
  have c := h.1
  have hb : base { a with ops := v :: a.ops } (top + 1) = base a top := by
    have := c.fits
    simp only [base, List.length_cons]
    omega
  have hh : ∀ x p, p < top → setCell heap cur top v x p = heap x p := by
    intro x p hp
    have : ¬ (x = cur ∧ p = top) := by omega
    simp [setCell, this]
  have cell : Cell mode (setCell heap cur top v) nArr cur { a with ops := v :: a.ops } f (top + 1) := by
    refine ⟨?_, ?_, c.arr, ?_, ?_⟩
    · have := c.fits
      simp only [List.length_cons]
      omega
    · rw [hb]; exact c.off
    · intro i hi
      rw [hh _ _ (by have := c.off; have := c.fits; unfold base at *; change i < a.locals.length at hi; omega)]
      exact c.locs i hi
    · intro j hj
      cases j with
      | zero => simp [setCell]
      | succ j =>
        have hj' : j < a.ops.length := by simpa using hj
        have := c.fits
        have e : top + 1 - 1 - (j + 1) = top - 1 - j := by omega
        rw [e, hh _ _ (by omega)]
        simpa using c.ops j hj'
  cases sv with
  | nil => exact ⟨cell, h.2.1, by rw [hb]; exact h.2.2⟩
  | cons gk sv' =>
    obtain ⟨g, k⟩ := gk
    refine ⟨cell, h.2.1, ?_⟩
    rw [hb]
    exact Inv.congr rest sv' g (base a top) (fun x p hp => hh x p (Nat.lt_of_lt_of_le hp (base_le a top))) h.2.2

theorem Rel.push {mode : Mode} {grow : Nat → Nat} (hg : ∀ c, c < grow c) {m : VM} {a : Act} {rest : List Act} (v : Nat)
    (r : Rel mode m (a :: rest)) : Rel mode (push grow m v) ({ a with ops := v :: a.ops } :: rest) := by
  unfold Stack.push
  by_cases hfull : m.sp ≥ m.cap
  · obtain ⟨r1, hlt⟩ := r.realloc hg hfull
    simp only [hfull, if_true]
    exact ⟨Inv.pushCell v r1.inv, r1.cur_lt, hlt⟩
  · simp only [hfull, if_false]
    exact ⟨Inv.pushCell v r.inv, r.cur_lt, by show m.sp + 1 ≤ m.cap; omega⟩

/-! ### one step -/

theorem step_sim (mode : Mode) (hm : mode ≠ .reslice) (grow : Nat → Nat) (hg : ∀ c, c < grow c)
    (m : VM) (acts acts' : List Act) (e : Ev) (o : Option Nat)
    (r : Rel mode m acts) (hs : refStep acts e = some (acts', o)) :
    (step mode grow m e).2 = o ∧ Rel mode (step mode grow m e).1 acts' := by
  cases acts with
  | nil => cases e <;> simp [refStep] at hs
  | cons a rest =>
    have c := r.inv.1
    cases e with
    | push v =>
      simp only [refStep, Option.some.injEq, Prod.mk.injEq] at hs
      obtain ⟨rfl, rfl⟩ := hs
      exact ⟨rfl, r.push hg v⟩
    | pop =>
      cases hops : a.ops with
      | nil => simp [refStep, hops] at hs
      | cons v os =>
        simp only [refStep, hops, Option.some.injEq, Prod.mk.injEq] at hs
        obtain ⟨rfl, rfl⟩ := hs
        have h0 := c.ops 0 (by simp [hops])
        simp only [hops, List.getD_cons_zero, Nat.sub_zero] at h0
        refine ⟨by simp [step, h0], ?_⟩
        have hfit := c.fits
        simp only [hops, List.length_cons] at hfit
        have hb : base { a with ops := os } (m.sp - 1) = base a m.sp := by
          simp only [base, hops, List.length_cons]
          omega
        have cell : Cell mode m.heap m.nArr m.cur { a with ops := os } m.frame (m.sp - 1) := by
          refine ⟨by simp only []; omega, by rw [hb]; exact c.off, c.arr, c.locs, ?_⟩
          intro j hj
          have := c.ops (j + 1) (by simp only [hops, List.length_cons]; change j < os.length at hj; omega)
          simp only [hops, List.getD_cons_succ] at this
          rw [← this]
          congr 1
          omega
        refine ⟨?_, r.cur_lt, by have := r.sp_le; show m.sp - 1 ≤ m.cap; omega⟩
        show Inv mode m.heap m.nArr m.cur ({ a with ops := os } :: rest) m.saved m.frame (m.sp - 1)
        have hinv := r.inv
        cases hsv : m.saved with
        | nil =>
          rw [hsv] at hinv
          exact ⟨cell, hinv.2.1, by rw [hb]; exact hinv.2.2⟩
        | cons gk sv' =>
          obtain ⟨g, k⟩ := gk
          rw [hsv] at hinv
          exact ⟨cell, hinv.2.1, by rw [hb]; exact hinv.2.2⟩
    | write i v =>
      by_cases hi : i < a.locals.length
      · simp only [refStep, hi, if_true, Option.some.injEq, Prod.mk.injEq] at hs
        obtain ⟨rfl, rfl⟩ := hs
        refine ⟨rfl, ?_⟩
        have hfit := c.fits
        have hoff := c.off
        unfold base at hoff
        have hb : base { a with locals := a.locals.set i v } m.sp = base a m.sp := by
          simp [base]
        -- cells other than the written one keep their contents
        have hh : ∀ x p, p ≠ m.frame.off + i →
            setCell m.heap (localArr mode m) (m.frame.off + i) v x p = m.heap x p := by
          intro x p hp
          have : ¬ (x = localArr mode m ∧ p = m.frame.off + i) := by omega
          simp [setCell, this]
        have cell : Cell mode (setCell m.heap (localArr mode m) (m.frame.off + i) v) m.nArr m.cur
            { a with locals := a.locals.set i v } m.frame m.sp := by
          refine ⟨by simpa using hfit, by rw [hb]; exact c.off, c.arr, ?_, ?_⟩
          · intro i' hi'
            have hi'' : i' < a.locals.length := by simpa using hi'
            show _ = (a.locals.set i v).getD i' 0
            rw [getD_set _ _ _ _ hi, localArr_eq]
            by_cases e : i' = i
            · subst e; simp [setCell]
            · have : ¬ (m.frame.off + i' = m.frame.off + i) := by omega
              simp only [setCell, this, and_false, if_false, e]
              exact c.locs i' hi''
          · intro j hj
            rw [hh _ _ (by change j < a.ops.length at hj; omega)]
            exact c.ops j hj
        refine ⟨?_, r.cur_lt, r.sp_le⟩
        show Inv mode _ m.nArr m.cur ({ a with locals := a.locals.set i v } :: rest) m.saved m.frame m.sp
        have hinv := r.inv
        cases hsv : m.saved with
        | nil =>
          rw [hsv] at hinv
          exact ⟨cell, hinv.2.1, by rw [hb]; exact hinv.2.2⟩
        | cons gk sv' =>
          obtain ⟨g, k⟩ := gk
          rw [hsv] at hinv
          refine ⟨cell, by simpa using hinv.2.1, ?_⟩
          rw [hb]
          exact Inv.congr rest sv' g (base a m.sp)
            (fun x p hp => hh x p (by unfold base at hp; omega)) hinv.2.2
      · simp [refStep, hi] at hs
    | read i =>
      by_cases hi : i < a.locals.length
      · simp only [refStep, hi, if_true, Option.some.injEq, Prod.mk.injEq] at hs
        obtain ⟨rfl, rfl⟩ := hs
        refine ⟨?_, r⟩
        simp only [step, localArr_eq]
        rw [c.locs i hi]
      · simp [refStep, hi] at hs
    | enter k =>
      by_cases hk : k ≤ a.ops.length
      · simp only [refStep, hk, if_true, Option.some.injEq, Prod.mk.injEq] at hs
        obtain ⟨rfl, rfl⟩ := hs
        refine ⟨rfl, ?_⟩
        have hfit := c.fits
        have hlen : ((a.ops.take k).reverse).length = k := by simp [List.length_take, Nat.min_eq_left hk]
        refine ⟨?_, r.cur_lt, r.sp_le⟩
        show Inv mode m.heap m.nArr m.cur (⟨(a.ops.take k).reverse, []⟩ :: { a with ops := a.ops.drop k } :: rest)
          ((m.frame, k) :: m.saved) ⟨m.cur, m.sp - k⟩ m.sp
        have hbn : base ⟨(a.ops.take k).reverse, []⟩ m.sp = m.sp - k := by simp [base, hlen]
        refine ⟨⟨by simp only [hlen, List.length_nil]; omega, by rw [hbn], r.cur_lt, ?_, by intro j hj; simp at hj⟩, hlen.symm, ?_⟩
        · intro i hi
          rw [hlen] at hi
          show m.heap (la mode m.cur ⟨m.cur, m.sp - k⟩) (m.sp - k + i) = ((a.ops.take k).reverse).getD i 0
          rw [getD_reverse_take _ _ _ hk hi, ← c.ops (k - 1 - i) (by omega)]
          have : la mode m.cur ⟨m.cur, m.sp - k⟩ = m.cur := by cases mode <;> rfl
          rw [this]
          congr 1
          omega
        · rw [hbn]
          have hb : base { a with ops := a.ops.drop k } (m.sp - k) = base a m.sp := by
            simp only [base, List.length_drop]
            omega
          have cell : Cell mode m.heap m.nArr m.cur { a with ops := a.ops.drop k } m.frame (m.sp - k) := by
            refine ⟨by simp only [List.length_drop]; omega, by rw [hb]; exact c.off, c.arr, c.locs, ?_⟩
            intro j hj
            have hj' : j < a.ops.length - k := by simpa using hj
            show _ = (a.ops.drop k).getD j 0
            rw [getD_drop, ← c.ops (k + j) (by omega)]
            congr 1
            omega
          have hinv := r.inv
          cases hsv : m.saved with
          | nil =>
            rw [hsv] at hinv
            exact ⟨cell, hinv.2.1, by rw [hb]; exact hinv.2.2⟩
          | cons gk sv' =>
            obtain ⟨g, k'⟩ := gk
            rw [hsv] at hinv
            exact ⟨cell, hinv.2.1, by rw [hb]; exact hinv.2.2⟩
      · simp [refStep, hk] at hs
    | leave v =>
      cases rest with
      | nil => simp [refStep] at hs
      | cons b rest' =>
        by_cases hops : a.ops = []
        · simp only [refStep, hops, if_true, Option.some.injEq, Prod.mk.injEq] at hs
          obtain ⟨rfl, rfl⟩ := hs
          have hinv := r.inv
          cases hsv : m.saved with
          | nil =>
            rw [hsv] at hinv
            exact absurd hinv.2.1 (by simp)
          | cons gk sv' =>
            obtain ⟨g, k⟩ := gk
            rw [hsv] at hinv
            have hk : k = a.locals.length := hinv.2.1
            have hbase : base a m.sp = m.sp - k := by simp [base, hops, hk]
            have htail := hinv.2.2
            rw [hbase] at htail
            have r1 : Rel mode { m with sp := m.sp - k, saved := sv', frame := g } (b :: rest') :=
              ⟨htail, r.cur_lt, by have := r.sp_le; show m.sp - k ≤ m.cap; omega⟩
            have hstep : step mode grow m (.leave v) =
                (push grow { m with sp := m.sp - k, saved := sv', frame := g } v, none) := by
              cases mode with
              | reslice => exact absurd rfl hm
              | savedSlice => simp [step, hsv]
              | offset => simp [step, hsv]
            rw [hstep]
            exact ⟨rfl, r1.push hg v⟩
        · simp [refStep, hops] at hs

theorem run_sim (mode : Mode) (hm : mode ≠ .reslice) (grow : Nat → Nat) (hg : ∀ c, c < grow c) :
    ∀ (es : List Ev) (m : VM) (acts : List Act) (obs : List Nat),
      Rel mode m acts → refRun acts es = some obs → run mode grow m es = obs := by
  intro es
  induction es with
  | nil =>
    intro m acts obs _ h
    simp only [refRun, Option.some.injEq] at h
    simp [run, h]
  | cons e es ih =>
    intro m acts obs r h
    simp only [refRun] at h
    cases hs : refStep acts e with
    | none => simp [hs] at h
    | some p =>
      obtain ⟨acts', o⟩ := p
      obtain ⟨ho, r'⟩ := step_sim mode hm grow hg m acts acts' e o r hs
      simp only [run]
      cases o with
      | none =>
        simp only [hs] at h
        have hst : step mode grow m e = ((step mode grow m e).1, none) := by
          rw [← ho]
        rw [hst]
        exact ih _ _ _ r' h
      | some x =>
        simp only [hs, Option.map_eq_some_iff] at h
        obtain ⟨t, ht, rfl⟩ := h
        have hst : step mode grow m e = ((step mode grow m e).1, some x) := by
          rw [← ho]
        rw [hst]
        simp only [List.cons.injEq, true_and]
        exact ih _ _ _ r' ht

theorem rel_init (mode : Mode) (cap0 : Nat) : Rel mode (init cap0) refInit := by
  refine ⟨⟨⟨by simp, by simp [init, base], by simp [init], ?_, ?_⟩, rfl, by simp [base, init]⟩, by simp [init], by simp [init]⟩
  · intro i hi; simp at hi
  · intro j hj; simp at hj

end GoawkModel.C16.Stack
