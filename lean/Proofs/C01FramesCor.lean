import Proofs.C01Frames
/-!
# C01 — corollaries about call frames; `pushNulls` on the stack memory
-/
namespace GoawkModel.C01
variable {B : Base}

/-- a user call in the framed semantics: the arguments are evaluated left to right, the missing scalar arguments are nulls,
and the body runs in a frame made of exactly these values (see `callBody`) — whatever was evaluated before -/
theorem eval_call_frame (FT : FunTable) (n f nsc : Nat) (args : List Expr) (refs : List (AScope × Nat)) (fw : FW B) :
    eval (FS B FT (n + 1)) (.call f nsc args refs) fw =
      (evalList (FS B FT (n + 1)) args fw).bind fun (r : List B.S.V × FW B) =>
        if r.1.length ≤ nsc then
          callBody B FT (callN B FT n) n f ((r.1 : List B.S.V) ++ List.replicate (nsc - r.1.length) B.S.nullV) refs r.2
        else none := by
  simp only [eval, Option.bind_eq_bind]
  rfl

/-- scalars are passed by value and the callee's frame is private: a call returns the CALLER's frame unchanged -/
theorem call_keeps_caller_frame (FT : FunTable) (n f : Nat) (vs : List B.S.V) (refs : List (AScope × Nat)) (fw : FW B)
    (r : B.S.V × FW B) (h : callN B FT n f vs refs fw = some r) : r.2.1 = fw.1 :=
  callN_frame FT n f vs refs fw r h

/-! ### `pushNulls` on the stack memory: fresh nulls whatever the slots held -/

theorem fillNulls_length {V} (d : V) : ∀ (k : Nat) (mem : List V) (sp : Nat), (fillNulls d mem sp k).length = mem.length
  | 0, mem, sp => rfl
  | k+1, mem, sp => by simp [fillNulls, fillNulls_length d k]

theorem fillNulls_take {V} (d : V) : ∀ (k : Nat) (mem : List V) (sp : Nat), sp + k ≤ mem.length →
    (fillNulls d mem sp k).take (sp + k) = mem.take sp ++ List.replicate k d
  | 0, mem, sp, _ => by simp [fillNulls]
  | k+1, mem, sp, h => by
    have ih := fillNulls_take d k (mem.set sp d) (sp + 1) (by simp; omega)
    have e : sp + (k + 1) = sp + 1 + k := by omega
    rw [fillNulls, e, ih]
    have hsp : sp < mem.length := by omega
    have : (mem.set sp d).take (sp + 1) = mem.take sp ++ [d] := by
      rw [List.take_succ]
      simp [List.take_set_of_le, hsp]
    rw [this, List.replicate_succ]
    simp

/-- `interp.pushNulls`: whatever stale values the slots at and above `sp` hold (and whether or not the array has to grow),
afterwards the `num` slots from the old `sp` are null, the slots below are untouched and `sp` advanced by `num`. In terms
of the list-shaped stack used by the VM model (top first): `num` nulls were pushed. -/
theorem pushNullsMem_spec {V} (d : V) (mem : List V) (sp num : Nat) (h : sp ≤ mem.length) :
    (pushNullsMem d mem sp num).2 = sp + num ∧
    ((pushNullsMem d mem sp num).1.take (pushNullsMem d mem sp num).2).reverse =
      List.replicate num d ++ (mem.take sp).reverse := by
  refine ⟨rfl, ?_⟩
  simp only [pushNullsMem]
  have hlen : sp + num ≤ (growTo d mem (sp + num)).length := by simp [growTo]; omega
  rw [fillNulls_take d num _ sp hlen]
  have : (growTo d mem (sp + num)).take sp = mem.take sp := by
    simp [growTo, List.take_append_of_le_length h]
  rw [this]
  simp

end GoawkModel.C01
