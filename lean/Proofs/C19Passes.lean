import GoawkModel.C19Passes
import Proofs.C19Order
/-! Extra passes of the resolver: the same order in every pass is `resolve`; a different order in the extra passes is observable. -/
namespace GoawkModel.C16

theorem loopWith_const (p : Program) (o : List Name) :
    ∀ (n k : Nat) (s : State) (ch : Bool), loopWith p (fun _ => o) n k s ch = loop p o n s ch := by
  intro n
  induction n with
  | zero =>
    intro k s ch
    simp only [loopWith, loop]
    by_cases h : ch = true
    · simp only [h, if_true]
      cases pass p o s <;> rfl
    · simp only [h]; rfl
  | succ n ih =>
    intro k s ch
    simp only [loopWith, loop]
    by_cases h : ch = true
    · simp only [h, if_true]
      cases pass p o s with
      | error e => rfl
      | ok r => exact ih (k + 1) r.1 r.2
    · simp only [h]; rfl

/-- walking the same order in every pass is what `resolve` does -/
theorem resolveWith_const (p : Program) (o : List Name) : resolveWith p o (fun _ => o) = resolve p o := by
  simp only [resolveWith, resolve]
  cases pass p o (prelude p) with
  | error e => rfl
  | ok r => exact loopWith_const p o _ 0 r.1 r.2

/-! ### the witness: two carrier chains whose clash surfaces in the second pass
```
function u1(q) { }   function c1(s) { u1(s) }   function m1(x, y) { x[1]; c1(x); u1(y); y = 1 }
function u2(q) { }   function c2(s) { u2(s) }   function m2(x, y) { x[1]; c2(x); u2(y); y = 1 }
BEGIN { m1(); m2() }
```
names by rank: ARGV 1, ENVIRON 2, FIELDS 3, c1 4, c2 5, m1 6, m2 7, q 8, s 9, u1 10, u2 11, x 12, y 13 -/
def exLate : Program :=
  { funcs := [⟨10, [8], []⟩, ⟨4, [9], [.call 10 1, .varArg 10 0 9]⟩,
              ⟨6, [12, 13], [.use 12 .array, .call 4 1, .varArg 4 0 12, .call 10 1, .varArg 10 0 13, .use 13 .scalar]⟩,
              ⟨11, [8], []⟩, ⟨5, [9], [.call 11 1, .varArg 11 0 9]⟩,
              ⟨7, [12, 13], [.use 12 .array, .call 5 1, .varArg 5 0 12, .call 11 1, .varArg 11 0 13, .use 13 .scalar]⟩],
    main := [.call 6 0, .call 7 0], specials := [], builtins := [1, 2, 3] }

theorem exLate_order : goOrder id exLate = [10, 4, 6, 11, 5, 7, 0] := by decide

/-- the first pass raises nothing: the verdict is reached in the second pass -/
theorem exLate_passes : passesRun exLate (goOrder id exLate) = 2 := by decide

/-- every pass in Go's order: `u1(y)` in `m1` (event 4 of function 6) — scalar `y` meets the parameter that became an array -/
theorem exLate_same_order :
    resolveWith exLate (goOrder id exLate) (fun _ => goOrder id exLate) = .error (6, 4, .passAs .scalar 13 .array) := rfl

/-- the extra passes in the reversed order: `u2(s)` in `c2` (event 1 of function 5) — array `s` meets the parameter that became a scalar -/
theorem exLate_reversed_later :
    resolveWith exLate (goOrder id exLate) (fun _ => (goOrder id exLate).reverse) = .error (5, 1, .passAs .array 9 .scalar) := rfl

/-- The order walked by the EXTRA passes is observable: there is a program and a permutation of its function order such that
walking the permutation in the extra passes (the first pass unchanged, every function still visited in every pass) reports a
different error. So "revisit the functions in whatever order a map yields them" is not a refinement of `Resolve`. -/
theorem later_pass_order_matters :
    ∃ (p : Program) (o o' : List Name), o'.Perm o ∧ resolveWith p o (fun _ => o') ≠ resolveWith p o (fun _ => o) := by
  refine ⟨exLate, goOrder id exLate, (goOrder id exLate).reverse, List.reverse_perm _, ?_⟩
  rw [exLate_same_order, exLate_reversed_later]
  intro h
  injection h with h
  exact absurd h (by decide)

end GoawkModel.C16
