import GoawkModel.C10
namespace GoawkModel.C10

/-- every cached entry is what a fresh compilation of its key would give -/
def CacheOK {R : Type} (compile : Bytes → Option R) (longest : R → R) (cache : List (Bytes × R)) : Prop :=
  ∀ k v, (k, v) ∈ cache → (compile (addRegexFlags k)).map longest = some v

theorem cacheLookup_mem {R : Type} : ∀ (cache : List (Bytes × R)) (x : Bytes) (v : R),
    cacheLookup cache x = some v → (x, v) ∈ cache := by
  intro cache
  induction cache with
  | nil => intro x v h; simp [cacheLookup] at h
  | cons p rest ih =>
    intro x v h
    obtain ⟨k, w⟩ := p
    simp only [cacheLookup] at h
    split at h
    · rename_i hk; cases h; subst hk; simp
    · exact List.mem_cons_of_mem _ (ih x v h)

theorem compileRegex_transparent {R : Type} (compile : Bytes → Option R) (longest : R → R) (limit : Nat)
    (cache : List (Bytes × R)) (x : Bytes) (hc : CacheOK compile longest cache) :
    (compileRegex compile longest limit cache x).1 = (compile (addRegexFlags x)).map longest ∧
    CacheOK compile longest (compileRegex compile longest limit cache x).2 := by
  unfold compileRegex
  cases hl : cacheLookup cache x with
  | some re => exact ⟨(hc x re (cacheLookup_mem cache x re hl)).symm, hc⟩
  | none =>
    cases hcomp : compile (addRegexFlags x) with
    | none => exact ⟨by simp, hc⟩
    | some re =>
      refine ⟨by simp, ?_⟩
      simp only []
      split
      · intro k v hm
        rcases List.mem_cons.mp hm with h | h
        · cases h; simp [hcomp]
        · exact hc k v h
      · exact hc

theorem compileAll_transparent {R : Type} (compile : Bytes → Option R) (longest : R → R) (limit : Nat) :
    ∀ (xs : List Bytes) (cache : List (Bytes × R)), CacheOK compile longest cache →
    (compileAll compile longest limit cache xs).1 = xs.map fun x => (compile (addRegexFlags x)).map longest := by
  intro xs
  induction xs with
  | nil => intro cache _; rfl
  | cons x xs ih =>
    intro cache hc
    obtain ⟨h1, h2⟩ := compileRegex_transparent compile longest limit cache x hc
    simp only [compileAll, List.map_cons, h1, ih _ h2]
end GoawkModel.C10
