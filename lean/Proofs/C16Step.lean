import GoawkModel.C16Spec
/-! One-step lemmas about `recordVar` / `step`: (1) a step never contradicts a satisfying typing and keeps the state below it,
(2) a step that reports no update leaves the state untouched, (3) what an update-free, error-free step says about the state. -/
namespace GoawkModel.C16

/-- every type the state has decided is the type every satisfying typing assigns -/
def Below (s : State) (σ : Typing) : Prop := ∀ fn v, s.ty fn v ≠ .unknown → s.ty fn v = σ fn v

theorem getTy_below {p : Program} {s : State} {σ : Typing} (hb : Below s σ) (fn v : Name)
    (h : getTy p s fn v ≠ .unknown) : getTy p s fn v = tyOf p σ fn v := by
  unfold getTy at h ⊢
  unfold tyOf
  cases hr : refOf p fn v with
  | loc => simp only [hr] at h ⊢; exact hb _ _ h
  | special => rfl
  | glob =>
    simp only [hr] at h ⊢
    by_cases hd : s.decl v = true
    · simp only [hd, if_true] at h ⊢; exact hb _ _ h
    · simp only [hd] at h; exact absurd rfl h

theorem setTy_below {s : State} {σ : Typing} (hb : Below s σ) (fn v : Name) (t : Ty)
    (ht : t = .unknown ∨ σ fn v = t) : Below (s.setTy fn v t) σ := by
  intro f' v' h
  simp only [State.setTy] at h ⊢
  by_cases hk : f' = fn ∧ v' = v
  · simp only [hk, and_self, if_true] at h ⊢
    rcases ht with ht | ht
    · exact absurd ht h
    · exact ht.symm
  · simp only [hk, if_false] at h ⊢; exact hb _ _ h

theorem declare_below {s : State} {σ : Typing} (hb : Below s σ) (v : Name) : Below (s.declare v) σ := hb

/-- result of a step: never an error, and the new state is still below `σ` -/
def GoodStep (σ : Typing) : StepR → Prop
  | .error _ => False
  | .ok (s', _) => Below s' σ

theorem recordCore_below {s : State} {σ : Typing} (hb : Below s σ) (fn v : Name) (t : Ty)
    (ht : t = .unknown ∨ σ fn v = t) : GoodStep σ (recordCore s fn v (s.ty fn v) t) := by
  unfold recordCore
  split
  · rename_i h
    rcases ht with ht | ht
    · exact absurd ht h.2.2
    · have := hb fn v h.2.1
      exact absurd (this.trans ht) h.1
  · split
    · exact setTy_below hb fn v t ht
    · exact hb

theorem recordVar_below {p : Program} {s : State} {σ : Typing} (hb : Below s σ) (fn v : Name) (t : Ty)
    (ht : t = .unknown ∨ tyOf p σ fn v = t) : GoodStep σ (recordVar p s fn v t) := by
  unfold recordVar
  unfold tyOf at ht
  cases hr : refOf p fn v with
  | loc => simp only [hr] at ht ⊢; exact recordCore_below hb fn v t ht
  | special =>
    simp only [hr] at ht ⊢
    split
    · rename_i h
      rcases ht with ht | ht
      · rw [h] at ht; exact Ty.noConfusion ht
      · rw [h] at ht; exact Ty.noConfusion ht
    · exact hb
  | glob =>
    simp only [hr] at ht ⊢
    split
    · exact recordCore_below hb 0 v t ht
    · exact declare_below (setTy_below hb 0 v t ht) v

theorem param_mem {p : Program} {f : Name} {i : Nat} (h : i < (p.paramsOf f).length) : p.param f i ∈ p.paramsOf f := by
  unfold Program.param
  rw [List.getD_eq_getElem?_getD, List.getElem?_eq_getElem h]
  exact List.getElem_mem h

theorem refOf_param {p : Program} {f : Name} {i : Nat} (hf : f ≠ 0) (h : i < (p.paramsOf f).length) :
    refOf p f (p.param f i) = .loc := by
  unfold refOf
  simp [hf, param_mem h]

theorem tyOf_param {p : Program} {σ : Typing} {f : Name} {i : Nat} (hf : f ≠ 0) (h : i < (p.paramsOf f).length) :
    tyOf p σ f (p.param f i) = σ f (p.param f i) := by
  unfold tyOf
  rw [refOf_param hf h]

theorem step_below {p : Program} {s : State} {σ : Typing} (hb : Below s σ) (fn : Name) (e : Event)
    (hs : EventSat p σ fn e) (ha : ArgOK p e) : GoodStep σ (step p fn s e) := by
  cases e with
  | call f n => exact hb
  | use v t => exact recordVar_below hb fn v t hs
  | exprArg f i =>
    simp only [step]
    split
    · rename_i h
      have h1 := hb f (p.param f i) (by rw [h]; exact fun x => Ty.noConfusion x)
      simp only [EventSat] at hs
      rw [h, hs] at h1
      exact Ty.noConfusion h1
    · exact hb
  | varArg f i v =>
    simp only [EventSat] at hs
    simp only [ArgOK] at ha
    simp only [step]
    split
    · rename_i h
      apply recordVar_below hb
      right
      rw [hs]
      exact (hb _ _ h.2).symm
    · split
      · rename_i h
        apply recordVar_below hb
        right
        rw [tyOf_param ha.1 ha.2, ← hs]
        exact (getTy_below hb fn v h.1).symm
      · split
        · rename_i h
          have h1 := getTy_below (p := p) hb fn v h.2.1
          have h2 := hb _ _ h.2.2
          rw [hs] at h1
          exact absurd (h1.trans h2.symm) h.1
        · exact recordVar_below hb fn v .unknown (Or.inl rfl)

/-! ### update-free steps -/

theorem recordCore_false {s s' : State} {fn v : Name} {cur t : Ty}
    (h : recordCore s fn v cur t = .ok (s', false)) : s' = s ∧ (t = .unknown ∨ cur = t) := by
  unfold recordCore at h
  split at h
  · cases h
  · rename_i h1
    split at h
    · injection h with h; injection h with _ h; exact Bool.noConfusion h
    · rename_i h2
      injection h with h; injection h with h _
      refine ⟨h.symm, ?_⟩
      by_cases ht : t = .unknown
      · exact Or.inl ht
      · right
        by_cases hc : cur = .unknown
        · exact absurd ⟨hc, ht⟩ h2
        · by_cases hct : cur = t
          · exact hct
          · exact absurd ⟨hct, hc, ht⟩ h1

/-- an update-free `recordVar`: same state, the variable exists, and its type agrees with the recorded one -/
theorem recordVar_false {p : Program} {s s' : State} {fn v : Name} {t : Ty}
    (h : recordVar p s fn v t = .ok (s', false)) :
    s' = s ∧ (refOf p fn v = .glob → s.decl v = true) ∧ (t = .unknown ∨ getTy p s fn v = t) := by
  unfold recordVar at h
  unfold getTy
  cases hr : refOf p fn v with
  | loc =>
    simp only [hr] at h ⊢
    have := recordCore_false h
    exact ⟨this.1, fun x => Ref.noConfusion x, this.2⟩
  | special =>
    simp only [hr] at h ⊢
    split at h
    · cases h
    · rename_i h1
      injection h with h; injection h with h _
      refine ⟨h.symm, fun x => Ref.noConfusion x, ?_⟩
      cases t with
      | unknown => exact Or.inl rfl
      | scalar => exact Or.inr rfl
      | array => exact absurd rfl h1
  | glob =>
    simp only [hr] at h ⊢
    split at h
    · rename_i hd
      have := recordCore_false h
      refine ⟨this.1, fun _ => hd, ?_⟩
      simp only [hd, if_true]
      exact this.2
    · injection h with h; injection h with _ h; exact Bool.noConfusion h

/-- what an update-free, error-free visit of `e` inside `fn` says about the state -/
def Settled (p : Program) (s : State) (fn : Name) : Event → Prop
  | .use v t => (refOf p fn v = .glob → s.decl v = true) ∧ (t = .unknown ∨ getTy p s fn v = t)
  | .call _ _ => True
  | .exprArg f i => s.ty f (p.param f i) ≠ .array
  | .varArg f i v => (refOf p fn v = .glob → s.decl v = true) ∧ getTy p s fn v = s.ty f (p.param f i)

theorem recordVar_known_changes {p : Program} {s s' : State} {fn v : Name} {t : Ty}
    (hg : getTy p s fn v = .unknown) (ht : t ≠ .unknown) : recordVar p s fn v t ≠ .ok (s', false) := by
  intro h
  have := (recordVar_false h).2.2
  rcases this with h1 | h1
  · exact ht h1
  · rw [hg] at h1; exact ht h1.symm

theorem step_false {p : Program} {s s' : State} {fn : Name} {e : Event} (ha : ArgOK p e)
    (h : step p fn s e = .ok (s', false)) : s' = s ∧ Settled p s fn e := by
  cases e with
  | call f n =>
    simp only [step] at h
    injection h with h; injection h with h _
    exact ⟨h.symm, trivial⟩
  | use v t =>
    simp only [step] at h
    have := recordVar_false h
    exact ⟨this.1, this.2.1, this.2.2⟩
  | exprArg f i =>
    simp only [step] at h
    split at h
    · cases h
    · rename_i h1
      injection h with h; injection h with h _
      exact ⟨h.symm, h1⟩
  | varArg f i v =>
    simp only [ArgOK] at ha
    simp only [step] at h
    split at h
    · rename_i h1
      exact absurd h (recordVar_known_changes h1.1 h1.2)
    · rename_i h1
      split at h
      · rename_i h2
        have hg : getTy p s f (p.param f i) = .unknown := by
          unfold getTy; rw [refOf_param ha.1 ha.2]; exact h2.2
        exact absurd h (recordVar_known_changes hg h2.1)
      · rename_i h2
        split at h
        · cases h
        · rename_i h3
          have := recordVar_false h
          refine ⟨this.1, this.2.1, ?_⟩
          by_cases hv : getTy p s fn v = .unknown
          · by_cases hp : s.ty f (p.param f i) = .unknown
            · rw [hv, hp]
            · exact absurd ⟨hv, hp⟩ h1
          · by_cases hp : s.ty f (p.param f i) = .unknown
            · exact absurd ⟨hv, hp⟩ h2
            · by_cases heq : getTy p s fn v = s.ty f (p.param f i)
              · exact heq
              · exact absurd ⟨heq, hv, hp⟩ h3

/-! ### from a settled state to a satisfying typing -/

theorem dflt_ne_unknown (t : Ty) : dflt t ≠ .unknown := by cases t <;> exact fun h => Ty.noConfusion h

theorem dflt_known {t : Ty} (h : t ≠ .unknown) : dflt t = t := by
  cases t with
  | unknown => exact absurd rfl h
  | scalar => rfl
  | array => rfl

theorem dflt_not_array {t : Ty} (h : t ≠ .array) : dflt t = .scalar := by
  cases t with
  | unknown => rfl
  | scalar => rfl
  | array => exact absurd rfl h

theorem tyOf_final {p : Program} {s : State} {fn v : Name} (hd : refOf p fn v = .glob → s.decl v = true) :
    tyOf p (final s) fn v = dflt (getTy p s fn v) := by
  unfold tyOf getTy
  cases hr : refOf p fn v with
  | loc => rfl
  | special => rfl
  | glob => simp only [hd hr, if_true]; rfl

theorem settled_sat {p : Program} {s : State} {fn : Name} {e : Event} (h : Settled p s fn e) :
    EventSat p (final s) fn e := by
  cases e with
  | call f n => trivial
  | use v t =>
    simp only [Settled] at h
    simp only [EventSat]
    rcases h.2 with h2 | h2
    · exact Or.inl h2
    · by_cases ht : t = .unknown
      · exact Or.inl ht
      · right; rw [tyOf_final h.1, h2]; exact dflt_known ht
  | exprArg f i =>
    simp only [Settled] at h
    simp only [EventSat, final]
    exact dflt_not_array h
  | varArg f i v =>
    simp only [Settled] at h
    simp only [EventSat]
    rw [tyOf_final h.1, h.2]
    rfl

end GoawkModel.C16
