import GoawkModel.Basic
/-!
# C05 model — number/string conversion and comparison typing (`interp/value.go`, comparison opcodes of `interp/vm.go`)

Two layers.

* **Syntactic layer** (on `Bytes`): `scanPrefix` mirrors the hand-written scanner `parseFloatPrefix` /
  `parseHexFloatPrefix`; `scanWhole` mirrors `parseFloat` (ASCII trim, sign+nan, hex without `p`, underscore rejection)
  followed by the grammar of Go's `strconv.ParseFloat` (`special` + `readFloat`, read from the Go 1.23 sources).
  Both produce a `Res`: either a special value or *the text that is handed to `strconv.ParseFloat`*.
  What `strconv` then does with a grammatical text (rounding; range error) is the abstract `Strconv` parameter; an exact
  executable instance lives in `GoawkModel.C05Float` and is tied to the real `strconv` by the correspondence check only.
* **Value layer**: `Num` (NaN, ±∞, or a finite value `k · 2^-1074`, `k : Int` — every finite binary64 has this form, and
  the order is the order of `Int`), `Val` with the four tags of `value.go`, `isTrueStr`, `toBool`, `toNum`, `toStr`, the
  six comparisons and the six fused jumps.
-/
namespace GoawkModel.C05
open GoawkModel

/-! ## character classes (`asciiSpace`, `isDigit`, `isHexDigit`, and the byte tests written inline in `value.go`) -/

def isAsciiSpace (c : UInt8) : Bool := c == 9 || c == 10 || c == 11 || c == 12 || c == 13 || c == 32
def isDigit (c : UInt8) : Bool := decide (48 ≤ c) && decide (c ≤ 57)
def isHexDigit (c : UInt8) : Bool :=
  (decide (48 ≤ c) && decide (c ≤ 57)) || (decide (97 ≤ c) && decide (c ≤ 102)) || (decide (65 ≤ c) && decide (c ≤ 70))
def isSign (c : UInt8) : Bool := c == 43 || c == 45
def isE (c : UInt8) : Bool := c == 101 || c == 69
def isP (c : UInt8) : Bool := c == 112 || c == 80
def isX (c : UInt8) : Bool := c == 120 || c == 88
def isDot (c : UInt8) : Bool := c == 46
def isUnderscore (c : UInt8) : Bool := c == 95

/-- `hasNaNPrefix` (callers guarantee three bytes; fewer bytes = no) -/
def hasNaNPrefix : Bytes → Bool
  | a :: b :: c :: _ => (a == 110 || a == 78) && (b == 97 || b == 65) && (c == 110 || c == 78)
  | _ => false

/-- `hasInfPrefix` -/
def hasInfPrefix : Bytes → Bool
  | a :: b :: c :: _ => (a == 105 || a == 73) && (b == 110 || b == 78) && (c == 102 || c == 70)
  | _ => false

/-- `hasHexPrefix` -/
def hasHexPrefix : Bytes → Bool
  | a :: b :: _ => a == 48 && isX b
  | _ => false

/-- what a conversion routine produces before `strconv` is involved -/
inductive Res
  | nan
  | inf (neg : Bool)
  | zero                   -- `return 0`: no digit found
  | conv (text : Bytes)    -- `strconv.ParseFloat(text, 64)`
  deriving DecidableEq, Repr

def p0 : Bytes := [112, 48]

/-- an optional sign byte: (the sign as a 0/1-element list, the rest) -/
def optSign : Bytes → Bytes × Bytes
  | c :: r => if isSign c then ([c], r) else ([], c :: r)
  | [] => ([], [])

/-- an optional `.` -/
def optDot : Bytes → Bytes × Bytes
  | c :: r => if isDot c then ([c], r) else ([], c :: r)
  | [] => ([], [])

/-! ## `parseFloatPrefix` -/

/-- `parseHexFloatPrefix(s, start, i+2)`: `pre` = `s[start:i+2]` (sign and `0x`), `s` = `s[i+2:]` -/
def hexPrefix (pre s : Bytes) : Res :=
  let d1 := s.takeWhile isHexDigit
  let r1 := s.dropWhile isHexDigit
  let dot := (optDot r1).1
  let r2 := (optDot r1).2
  let d2 := r2.takeWhile isHexDigit
  let r3 := r2.dropWhile isHexDigit
  if d1.isEmpty && d2.isEmpty then .zero else
  let mant := pre ++ d1 ++ dot ++ d2
  match r3 with
  | c :: r4 =>
    if isP c then
      let es := (optSign r4).1
      let d3 := (optSign r4).2.takeWhile isDigit
      if d3.isEmpty then .conv (mant ++ p0) else .conv (mant ++ c :: es ++ d3)
    else .conv (mant ++ p0)
  | [] => .conv (mant ++ p0)

/-- the decimal branch of `parseFloatPrefix`: `sign` = `s[start:i]`, `s` = `s[i:]` -/
def decPrefix (sign s : Bytes) : Res :=
  let d1 := s.takeWhile isDigit
  let r1 := s.dropWhile isDigit
  let dot := (optDot r1).1
  let r2 := (optDot r1).2
  let d2 := r2.takeWhile isDigit
  let r3 := r2.dropWhile isDigit
  if d1.isEmpty && d2.isEmpty then .zero else
  let mant := sign ++ d1 ++ dot ++ d2
  match r3 with
  | c :: r4 =>
    if isE c then
      let es := (optSign r4).1
      let d3 := (optSign r4).2.takeWhile isDigit
      if d3.isEmpty then .conv mant else .conv (mant ++ c :: es ++ d3)
    else .conv mant
  | [] => .conv mant

/-- `parseFloatPrefix` after the leading ASCII blanks were skipped -/
def prefixCore (s : Bytes) : Res :=
  let sign := (optSign s).1
  let r := (optSign s).2
  if hasNaNPrefix r then .nan
  else if hasInfPrefix r then .inf (sign == [45])
  else match r with
    | a :: b :: c :: rest =>
      if hasHexPrefix (a :: b :: c :: rest) then hexPrefix (sign ++ [a, b]) (c :: rest) else decPrefix sign r
    | _ => decPrefix sign r

/-- `parseFloatPrefix` -/
def scanPrefix (s : Bytes) : Res := prefixCore (s.dropWhile isAsciiSpace)

/-! ## `strconv.ParseFloat` — grammar only (Go 1.23 `strconv/atof.go`: `special`, `readFloat`; strings without `_`) -/

def lowerASCII (c : UInt8) : UInt8 := if decide (65 ≤ c) && decide (c ≤ 90) then c + 32 else c

/-- `commonPrefixLenIgnoreCase(s, prefix)`; `prefix` is lower case -/
def commonPrefixLen : Bytes → Bytes → Nat
  | c :: s, p :: ps => if lowerASCII c == p then commonPrefixLen s ps + 1 else 0
  | _, _ => 0

def infinityWord : Bytes := [105, 110, 102, 105, 110, 105, 116, 121]
def nanWord : Bytes := [110, 97, 110]

/-- the `'i','I'` arm of `special` on the text after an optional sign: number of bytes consumed (3 or 8) -/
def specialInfLen (s : Bytes) : Option Nat :=
  let n := commonPrefixLen s infinityWord
  let n := if 3 < n && n < 8 then 3 else n
  if n == 3 || n == 8 then some n else none

/-- `special`: (value, bytes consumed) -/
def special : Bytes → Option (Res × Nat)
  | [] => none
  | c :: s =>
    if isSign c then (specialInfLen s).map fun n => (.inf (c == 45), n + 1)
    else if c == 105 || c == 73 then (specialInfLen (c :: s)).map fun n => (.inf false, n)
    else if c == 110 || c == 78 then (if commonPrefixLen (c :: s) nanWord == 3 then some (.nan, 3) else none)
    else none

/-- `readFloat` for base 10 after the sign: the unconsumed rest, `none` = `!ok` -/
def readDec (s : Bytes) : Option Bytes :=
  let d1 := s.takeWhile isDigit
  let r1 := s.dropWhile isDigit
  let r2 := (optDot r1).2
  let d2 := r2.takeWhile isDigit
  let r3 := r2.dropWhile isDigit
  if d1.isEmpty && d2.isEmpty then none else
  match r3 with
  | c :: r4 =>
    if isE c then
      let r5 := (optSign r4).2
      if (r5.takeWhile isDigit).isEmpty then none else some (r5.dropWhile isDigit)
    else some r3
  | [] => some []

/-- `readFloat` for base 16 after the sign and `0x` -/
def readHex (s : Bytes) : Option Bytes :=
  let d1 := s.takeWhile isHexDigit
  let r1 := s.dropWhile isHexDigit
  let r2 := (optDot r1).2
  let d2 := r2.takeWhile isHexDigit
  let r3 := r2.dropWhile isHexDigit
  if d1.isEmpty && d2.isEmpty then none else
  match r3 with
  | c :: r4 =>
    if isP c then
      let r5 := (optSign r4).2
      if (r5.takeWhile isDigit).isEmpty then none else some (r5.dropWhile isDigit)
    else none           -- "must have exponent"
  | [] => none

/-- `readFloat`: optional sign, base detection (`i+2 < len(s) && s[i]=='0' && lower(s[i+1])=='x'`), digits, exponent -/
def readFloat (s : Bytes) : Option Bytes :=
  match (optSign s).2 with
  | a :: b :: c :: rest => if hasHexPrefix (a :: b :: c :: rest) then readHex (c :: rest) else readDec (a :: b :: c :: rest)
  | r => if r.isEmpty then none else readDec r

/-- abstract `strconv.ParseFloat` on a text `readFloat` accepts entirely: its value is opaque, `ovf` = it reports
`ErrRange` (the value is then ±Inf) -/
structure Strconv (ν : Type) where
  val : Bytes → ν
  ovf : Bytes → Bool

/-- `strconv.ParseFloat(t, 64)` → `some res` when `err == nil` -/
def goParseFloat (ovf : Bytes → Bool) (t : Bytes) : Option Res :=
  match special t with
  | some (r, n) => if n == t.length then some r else none
  | none =>
    match readFloat t with
    | some [] => if ovf t then none else some (.conv t)
    | _ => none

/-! ## `parseFloat` -/

def trimAscii (s : Bytes) : Bytes := ((s.dropWhile isAsciiSpace).reverse.dropWhile isAsciiSpace).reverse

def hasP (s : Bytes) : Bool := s.any isP

/-- the rewriting `parseFloat` does before calling `strconv.ParseFloat`: `none` = the sign+nan early return -/
def preprocess (t : Bytes) : Option Bytes :=
  match t with
  | c :: rest =>
    if !rest.isEmpty && isSign c then
      if rest.length == 3 && hasNaNPrefix rest then none
      else if decide (rest.length > 2) && hasHexPrefix rest && !hasP t then some (t ++ p0)
      else some t
    else if decide (t.length > 2) && hasHexPrefix t && !hasP t then some (t ++ p0)
    else some t
  | [] => some []

/-- `parseFloat`: `some res` when `err == nil`. (Go calls `ParseFloat` first and rejects `_` afterwards; `ParseFloat`
is pure and any string containing `_` ends up rejected either way, so the test is made first and the grammar is
modelled for underscore-free strings only.) -/
def scanWhole (ovf : Bytes → Bool) (s : Bytes) : Option Res :=
  let t := trimAscii s
  match preprocess t with
  | none => some .nan
  | some t' => if t'.any isUnderscore then none else goParseFloat ovf t'

/-! ## value layer -/

/-- a float64 up to the identification of −0 with +0: NaN, ±∞, or the finite value `k · 2^-1074` -/
inductive Num
  | nan
  | ninf
  | fin (k : Int)
  | pinf
  deriving DecidableEq, Repr

def scale : Int := 2 ^ 1074

def Num.zero : Num := .fin 0
def Num.ofInt (i : Int) : Num := .fin (i * scale)

/-- three-way comparison of integers -/
def intCmp (a b : Int) : Ordering := if a < b then .lt else if b < a then .gt else .eq

/-- IEEE comparison: `none` when an operand is NaN -/
def Num.ord : Num → Num → Option Ordering
  | .nan, _ => none
  | _, .nan => none
  | .ninf, .ninf => some .eq
  | .ninf, _ => some .lt
  | _, .ninf => some .gt
  | .pinf, .pinf => some .eq
  | .pinf, _ => some .gt
  | _, .pinf => some .lt
  | .fin a, .fin b => some (intCmp a b)

/-- Go's `f != 0` -/
def Num.nonzero (x : Num) : Bool := x.ord .zero != some .eq

def resNum (sc : Strconv Num) : Res → Num
  | .nan => .nan
  | .inf true => .ninf
  | .inf false => .pinf
  | .zero => .zero
  | .conv t => sc.val t

/-- the four tags of `value.go` -/
inductive Val
  | null
  | str (s : Bytes)
  | num (x : Num)
  | numstr (s : Bytes)
  deriving DecidableEq, Repr

/-- `isTrueStr`: `none` = true string, `some n` = not a true string, with the number -/
def isTrueStr (sc : Strconv Num) : Val → Option Num
  | .str _ => none
  | .numstr s => (scanWhole sc.ovf s).map (resNum sc)
  | .num x => some x
  | .null => some .zero

/-- `boolean` -/
def toBool (sc : Strconv Num) : Val → Bool
  | .str s => !s.isEmpty
  | .numstr s =>
    match scanWhole sc.ovf s with
    | none => !s.isEmpty
    | some r => (resNum sc r).nonzero
  | .num x => x.nonzero
  | .null => false

/-- `num` -/
def toNum (sc : Strconv Num) : Val → Num
  | .str s => resNum sc (scanPrefix s)
  | .numstr s => resNum sc (scanPrefix s)
  | .num x => x
  | .null => .zero

/-- Go's `int64(f)` on amd64 for a finite `f = k·2^-1074`: truncation, `-2^63` when out of range -/
def toInt64 (k : Int) : Int :=
  let t := Int.tdiv k scale
  if -(2 ^ 63) ≤ t ∧ t < 2 ^ 63 then t else -(2 ^ 63)

def digitsOfNat (n : Nat) : Bytes := (Nat.toDigits 10 n).map fun c => c.toNat.toUInt8

/-- `strconv.FormatInt(i, 10)` -/
def decimal (i : Int) : Bytes := if i < 0 then 45 :: digitsOfNat i.natAbs else digitsOfNat i.natAbs

/-- `value.str(floatFormat)` for a number; `fmt` is `fmt.Sprintf(floatFormat, ·)` for the current CONVFMT/OFMT -/
def numToStr (fmt : Num → Bytes) : Num → Bytes
  | .nan => [110, 97, 110]
  | .pinf => [105, 110, 102]
  | .ninf => [45, 105, 110, 102]
  | .fin k => if Num.fin k = Num.ofInt (toInt64 k) then decimal (toInt64 k) else fmt (.fin k)

/-- `value.str` / `p.toString` -/
def toStr (fmt : Num → Bytes) : Val → Bytes
  | .num x => numToStr fmt x
  | .str s => s
  | .numstr s => s
  | .null => []

/-- Go string comparison: lexicographic on bytes -/
def bytesCmp : Bytes → Bytes → Ordering
  | [], [] => .eq
  | [], _ :: _ => .lt
  | _ :: _, [] => .gt
  | a :: as, b :: bs => if a.toNat < b.toNat then .lt else if b.toNat < a.toNat then .gt else bytesCmp as bs

/-- the six Go comparison operators -/
inductive CmpOp
  | eq | ne | lt | gt | le | ge
  deriving DecidableEq, Repr

/-- a Go comparison of two totally ordered things (strings) -/
def CmpOp.ofOrdering : CmpOp → Ordering → Bool
  | .eq, o => o == .eq
  | .ne, o => o != .eq
  | .lt, o => o == .lt
  | .gt, o => o == .gt
  | .le, o => o != .gt
  | .ge, o => o != .lt

/-- a Go comparison of two float64 (everything but `!=` is false on NaN) -/
def CmpOp.ofNum (op : CmpOp) : Option Ordering → Bool
  | none => op == .ne
  | some o => op.ofOrdering o

inductive Mode
  | numeric | string
  deriving DecidableEq, Repr

/-- `lIsStr || rIsStr` -/
def cmpMode (sc : Strconv Num) (l r : Val) : Mode :=
  match isTrueStr sc l, isTrueStr sc r with
  | some _, some _ => .numeric
  | _, _ => .string

/-- the body shared by the twelve comparison opcodes: `strOp` is the operator written between the two `p.toString`
calls, `numOp` the one between `ln` and `rn` -/
def compareWith (sc : Strconv Num) (fmt : Num → Bytes) (strOp numOp : CmpOp) (l r : Val) : Bool :=
  match isTrueStr sc l, isTrueStr sc r with
  | some ln, some rn => numOp.ofNum (ln.ord rn)
  | _, _ => strOp.ofOrdering (bytesCmp (toStr fmt l) (toStr fmt r))

/-- `boolean(b)` pushed by the unfused opcodes -/
def boolNum (b : Bool) : Num := if b then .ofInt 1 else .ofInt 0

end GoawkModel.C05
