import GoawkModel.C09
/-!
Structured conversion specifications (`%` flags width precision verb, with `*`), their text, and C `printf` for one
specification applied to AWK arguments (`cPrintf`). This is the specification side of `sprintf_is_c`.
-/
namespace GoawkModel.C09
open GoawkModel

/-- a width or precision as written -/
inductive WP
  | absent
  | lit (ds : Bytes)     -- decimal digit characters (`lit []` as a precision is a bare `.`)
  | star
deriving DecidableEq, Repr

structure Spec where
  flags : Bytes          -- flag characters in any order, repeats allowed
  width : WP
  prec : WP
  verb : UInt8
deriving DecidableEq, Repr

def WP.text : WP → Bytes
  | .absent => []
  | .lit ds => ds
  | .star => [42]

/-- the precision as written: nothing, or `.` followed by the digits / `*` -/
def precText : WP → Bytes
  | .absent => []
  | .lit ds => 46 :: ds
  | .star => [46, 42]

/-- everything between `%` and the verb -/
def Spec.body (sp : Spec) : Bytes := sp.flags ++ (sp.width.text ++ precText sp.prec)

def Spec.render (sp : Spec) : Bytes := 37 :: (sp.body ++ [sp.verb])

/-- the grammar of C conversion specifications: flags from `-+ #0`; a literal width is a non-empty digit string not starting
with `0` (a leading `0` is the flag); a literal precision is any digit string -/
def Spec.wellFormed (sp : Spec) : Bool :=
  sp.flags.all isGoFlag &&
  (match sp.width with
   | .lit ds => ds.all isDigit && (match ds with | [] => false | d :: _ => d ≠ 48)
   | _ => true) &&
  (match sp.prec with
   | .lit ds => ds.all isDigit
   | _ => true)

/-- C: a negative `*` width is a `-` flag and a positive width (and `0` is ignored once `-` is there, so it is dropped);
a negative `*` precision is as if omitted -/
def resolveSpec (fl : Flags) (w p : Option Int) (verb : UInt8) : CSpec :=
  let fl' : Flags := match w with
    | some w => if w < 0 then { fl with minus := true, zero := false } else fl
    | none => fl
  let w' : Option Nat := w.map Int.natAbs
  let p' : Option Nat := match p with
    | some p => if p < 0 then none else some p.toNat
    | none => none
  ⟨fl', w', p', verb⟩

/-- number of `*` in a specification -/
def Spec.stars (sp : Spec) : Nat :=
  (if sp.width = .star then 1 else 0) + (if sp.prec = .star then 1 else 0)

/-- a width or precision of C `printf`: a literal, or the next argument taken as `int` (the AWK number truncated) -/
def cTakeInt (w : WP) (args : List Arg) : Option (Option Int × List Arg) :=
  match w with
  | .absent => some (none, args)
  | .lit ds => some (some (numVal ds : Int), args)
  | .star =>
    match args with
    | a :: rest => some (some (toInt64 a.n), rest)
    | [] => none

/-- C `printf` of one conversion specification against an argument list: `*` arguments first, then the value; returns the text
and the arguments that are left -/
def cConv (dg : DigitGen) (chars : Bool) (sp : Spec) (args : List Arg) : Option (Bytes × List Arg) :=
  match cTakeInt sp.width args with
  | none => none
  | some (w, args1) =>
    match cTakeInt sp.prec args1 with
    | none => none
    | some (p, args2) =>
      match args2 with
      | a :: rest =>
        let cs := resolveSpec (goFlags sp.flags) w p sp.verb
        match awkConvert chars sp.verb a with
        | some ca => (cFormat dg cs ca).map (·, rest)
        | none => none
      | [] => none

/-- … applied to exactly its own arguments -/
def cPrintf (dg : DigitGen) (chars : Bool) (sp : Spec) (args : List Arg) : Option Bytes :=
  match cConv dg chars sp args with
  | some (o, []) => some o
  | _ => none

/-! ## whole format strings -/

/-- a format string as a list of segments -/
inductive Seg
  | lit (b : Bytes)      -- literal text (no `%`)
  | pct                  -- `%%`
  | conv (sp : Spec)
deriving DecidableEq, Repr

def Seg.render : Seg → Bytes
  | .lit b => b
  | .pct => [37, 37]
  | .conv sp => sp.render

def renderSegs : List Seg → Bytes
  | [] => []
  | s :: r => s.render ++ renderSegs r

/-- number of arguments a segment consumes -/
def Seg.need : Seg → Nat
  | .conv sp => sp.stars + 1
  | _ => 0

def needSegs : List Seg → Nat
  | [] => 0
  | s :: r => s.need + needSegs r

/-- C `printf` of a whole format: literal text, `%` for `%%`, and each conversion applied to the arguments not yet consumed,
in order (surplus arguments are ignored) -/
def cSegs (dg : DigitGen) (chars : Bool) : List Seg → List Arg → Option Bytes
  | [], _ => some []
  | .lit b :: r, args => (cSegs dg chars r args).map (b ++ ·)
  | .pct :: r, args => (cSegs dg chars r args).map (37 :: ·)
  | .conv sp :: r, args =>
    match cConv dg chars sp args with
    | some (o, rest) => (cSegs dg chars r rest).map (o ++ ·)
    | none => none

end GoawkModel.C09
