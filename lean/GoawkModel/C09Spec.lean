import GoawkModel.C09
/-!
Structured conversion specifications (`%` flags width precision verb, with `*`), their text, and C `printf` for one
specification applied to AWK arguments (`cPrintf`). This is the specification side of `sprintf_is_c`.
-/
namespace GoawkModel.C09
open GoawkModel

/-- a width or precision as written -/
inductive WP
  | absent
  | lit (ds : Bytes)     -- decimal digit characters (`lit []` as a precision is a bare `.`)
  | star
deriving DecidableEq, Repr

structure Spec where
  flags : Bytes          -- flag characters in any order, repeats allowed
  width : WP
  prec : WP
  verb : UInt8
deriving DecidableEq, Repr

def WP.text : WP → Bytes
  | .absent => []
  | .lit ds => ds
  | .star => [42]

def Spec.render (sp : Spec) : Bytes :=
  37 :: sp.flags ++ sp.width.text ++ (match sp.prec with | .absent => [] | p => 46 :: p.text) ++ [sp.verb]

/-- the grammar of C conversion specifications: flags from `-+ #0`; a literal width is a non-empty digit string not starting
with `0` (a leading `0` is the flag); a literal precision is any digit string -/
def Spec.wellFormed (sp : Spec) : Bool :=
  sp.flags.all isGoFlag &&
  (match sp.width with
   | .lit ds => ds.all isDigit && (match ds with | [] => false | d :: _ => d ≠ 48)
   | _ => true) &&
  (match sp.prec with
   | .lit ds => ds.all isDigit
   | _ => true)

/-- C: a negative `*` width is a `-` flag and a positive width; a negative `*` precision is as if omitted -/
def resolveSpec (fl : Flags) (w p : Option Int) (verb : UInt8) : CSpec :=
  let fl' : Flags := match w with
    | some w => if w < 0 then { fl with minus := true } else fl
    | none => fl
  let w' : Option Nat := w.map Int.natAbs
  let p' : Option Nat := match p with
    | some p => if p < 0 then none else some p.toNat
    | none => none
  ⟨fl', w', p', verb⟩

/-- number of `*` in a specification -/
def Spec.stars (sp : Spec) : Nat :=
  (if sp.width = .star then 1 else 0) + (if sp.prec = .star then 1 else 0)

/-- C `printf` of one conversion specification: `*` arguments are taken as `int` (the AWK number truncated), then the value -/
def cPrintf (dg : DigitGen) (chars : Bool) (sp : Spec) (args : List Arg) : Option Bytes :=
  let takeInt (w : WP) (args : List Arg) : Option (Option Int × List Arg) :=
    match w with
    | .absent => some (none, args)
    | .lit ds => some (some (numVal ds : Int), args)
    | .star =>
      match args with
      | a :: rest => some (some (toInt64 a.n), rest)
      | [] => none
  match takeInt sp.width args with
  | none => none
  | some (w, args1) =>
    match takeInt sp.prec args1 with
    | none => none
    | some (p, args2) =>
      match args2 with
      | [a] =>
        let cs := resolveSpec (goFlags sp.flags) w p sp.verb
        match awkConvert chars sp.verb a with
        | some ca => cFormat dg cs ca
        | none => none
      | _ => none

end GoawkModel.C09
