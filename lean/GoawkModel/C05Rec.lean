import GoawkModel.C05
/-!
# C05 — provenance of fields across a record history (`setLine`, `ensureFields`, `getField`, `setField`, `NF =` of
`interp/io.go` / `interp/interp.go`)

Each field carries a flag "assigned by the program ⇒ true string" (`fieldsIsTrueStr`), the record one for `$0`
(`lineIsTrueStr`). `ensureFields` rebuilds the flag vector from nothing whenever a record is split. Field splitting and
joining are abstract parameters (`split`, `join`: the current FS / OFS); lazy splitting is modelled eagerly.
-/
namespace GoawkModel.C05
open GoawkModel

structure Rec where
  line : Bytes
  lineTrue : Bool
  fields : List Bytes
  flags : List Bool
  deriving Repr

/-- `setLine(line, isTrueStr)` followed by `ensureFields`: the flags are rebuilt, one `false` per field -/
def Rec.ofLine (split : Bytes → List Bytes) (line : Bytes) (isTrueStr : Bool) : Rec :=
  ⟨line, isTrueStr, split line, (split line).map fun _ => false⟩

/-- `getField(i)` -/
def Rec.getField (r : Rec) (i : Nat) : Val :=
  match i with
  | 0 => if r.lineTrue then .str r.line else .numstr r.line
  | k + 1 =>
    match r.fields[k]?, r.flags[k]? with
    | some f, some true => .str f
    | some f, _ => .numstr f
    | none, _ => .str []

/-- `setField(i, v)` for `i ≥ 1` (`k = i-1`): pad with empty fields flagged `true`, store, flag `true`, rebuild `$0` -/
def Rec.setField (join : List Bytes → Bytes) (r : Rec) (k : Nat) (v : Bytes) : Rec :=
  let fs := (r.fields ++ List.replicate (k + 1 - r.fields.length) []).set k v
  let gs := (r.flags ++ List.replicate (k + 1 - r.flags.length) true).set k true
  ⟨join fs, true, fs, gs⟩

/-- `NF = n`: truncate, or extend with empty fields flagged `false`; `$0` becomes a true string -/
def Rec.setNF (join : List Bytes → Bytes) (r : Rec) (n : Nat) : Rec :=
  let fs := r.fields.take n ++ List.replicate (n - r.fields.length) []
  let gs := r.flags.take n ++ List.replicate (n - r.flags.length) false
  ⟨join fs, true, fs, gs⟩

inductive RecOp
  | read (line : Bytes)            -- next record from the main loop, plain getline, getline < file
  | assignLine (line : Bytes)      -- `$0 = …`, sub/gsub on `$0`, getline `$0`
  | setField (k : Nat) (v : Bytes) -- `$(k+1) = …`, `++`, `+=`, sub/gsub on a field, getline into a field
  | setNF (n : Nat)

def Rec.step (split : Bytes → List Bytes) (join : List Bytes → Bytes) (r : Rec) : RecOp → Rec
  | .read line => Rec.ofLine split line false
  | .assignLine line => Rec.ofLine split line true
  | .setField k v => r.setField join k v
  | .setNF n => r.setNF join n

def Rec.run (split : Bytes → List Bytes) (join : List Bytes → Bytes) (r : Rec) (ops : List RecOp) : Rec :=
  ops.foldl (Rec.step split join) r

end GoawkModel.C05
