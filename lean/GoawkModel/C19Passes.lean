import GoawkModel.C16
/-! The passes of the resolver made explicit (property C19, "the same verdict, the same error message and position").

`GoawkModel.C16.loop` walks ONE function order in every pass, which is what `Resolve` does (`main.walkOrdered(prog, orderedFuncs)`
inside the `for i := 0; r.updates != updates; i++` loop). Whether that matters is a question about programs whose verdict is not
reached in the first pass, so the model here gives every extra pass an order of its own (`loopWith`, `resolveWith`) and counts the
passes (`passesRun`). `Proofs/C19Passes.lean` shows that (1) with the same order in every pass this is `resolve`, (2) the order
of the extra passes is observable: walking a permutation of the order in the extra passes changes which error is reported. -/
namespace GoawkModel.C16

/-- the extra-pass loop of `Resolve` where the `k`-th extra pass (k = 0 is the second pass) walks `orders k` -/
def loopWith (p : Program) (orders : Nat → List Name) : Nat → Nat → State → Bool → Except LErr State
  | 0, k, s, ch =>
    if ch then
      match pass p (orders k) s with
      | .error e => .error e
      | .ok _ => .error (0, 0, .tooMany)
    else .ok s
  | n + 1, k, s, ch =>
    if ch then
      match pass p (orders k) s with
      | .error e => .error e
      | .ok (s', ch') => loopWith p orders n (k + 1) s' ch'
    else .ok s

/-- `Resolve` with the first pass walking `first` and the extra passes walking `orders 0`, `orders 1`, … -/
def resolveWith (p : Program) (first : List Name) (orders : Nat → List Name) : Except LErr State :=
  match pass p first (prelude p) with
  | .error e => .error e
  | .ok (s1, ch) => loopWith p orders (cap p s1) 0 s1 ch

/-- number of extra passes `loop` makes until it stops (with an error, or after the pass that determined nothing) -/
def loopPasses (p : Program) (order : List Name) : Nat → State → Bool → Nat
  | 0, _, ch => if ch then 1 else 0
  | n + 1, s, ch =>
    if ch then
      match pass p order s with
      | .error _ => 1
      | .ok (s', ch') => 1 + loopPasses p order n s' ch'
    else 0

/-- number of passes `resolve` makes: 1 when the first pass already raises the error (or determines nothing) -/
def passesRun (p : Program) (order : List Name) : Nat :=
  match pass p order (prelude p) with
  | .error _ => 1
  | .ok (s1, ch) => 1 + loopPasses p order (cap p s1) s1 ch

end GoawkModel.C16
