import GoawkModel.C11
/-!
# C11 model — one `interp.Interpreter`, several executions (`interp/newexecute.go`: `Execute`, `ExecuteContext`, `resetCore`,
`ResetVars`; `interp/interp.go`: `setExecuteConfig`)

`Execute` = `resetCore` ; `setExecuteConfig config` ; `executeAll`. The machine state of the previous execution is threaded
through (`runAll`): whatever it ended with — operand cursor, had-files flag, scanner in the middle of a file, half-read getline
streams, NR / FNR / FILENAME / `$0`, exit status, call depth — is what `resetCore` and `setExecuteConfig` find. The range flags
are not part of the state at all: `execActions` allocates them per call (`mainPhase` builds the all-false list).

What the API documents as persisting are the VARIABLES ("variables and the random number generator seed are not [reset]; use
ResetVars"): here the program's global scalars, FS (with the FS saved for the current `$0`) and the ARGV elements beyond the new
operand list.
-/
namespace GoawkModel.C11

/-- the configuration of one `Execute` / `ExecuteContext` call -/
structure Exec where
  fs : List (Bytes × List Rec)
  stdin : List Rec
  args : List Bytes
  /-- `Config.Vars` -/
  vars : List (Bytes × Bytes) := []
  /-- `ResetVars()` is called before the execution -/
  resetVars : Bool := false

/-- `Config.Vars`, applied in order through `setVarByName` -/
def applyVars (s : St) : List (Bytes × Bytes) → St
  | [] => s
  | (n, v) :: rest => applyVars (s.setVarByName n v) rest

/-- what an execution may inherit from the history of its interpreter: variables, nothing else -/
structure Carried where
  vars : List Bytes := []
  fsep : Bytes := [32]
  recFs : Bytes := [32]
  /-- ARGV elements beyond the new operand list (ARGV is a variable; ARGC is set anew) -/
  argvTail : List Bytes := []

/-- the state in which a FRESH interpreter (every bookkeeping field at its initial value) starts execution `e`, given values
for the variables -/
def freshStart (names : List Bytes) (e : Exec) (c : Carried) : St :=
  applyVars { fs := e.fs, stdin := e.stdin, argv := ([] :: e.args) ++ c.argvTail, argc := e.args.length + 1, varNames := names,
              vars := c.vars, fsep := c.fsep, recFs := c.recFs } e.vars

/-- `ResetVars`: global scalars null, arrays (ARGV among them) cleared, FS and the saved FS back to `" "` -/
def St.resetVars (s : St) : St := { s with vars := [], fsep := [32], recFs := [32], argv := [] }

/-- `resetCore`, field by field as far as the machine has the field: scanner, getline streams, call depth, FILENAME, `$0`,
NR, FNR, exit status -/
def St.resetCore (s : St) : St :=
  { s with cur := none, onStdin := false, streams := [], depth := 0, filename := [], line := [], nr := 0, fnr := 0, status := 0 }

/-- `setExecuteConfig`: ARGV[0..n] and ARGC from `Config.Args` (elements beyond stay), the operand cursor back to ARGV[1], no
input seen yet, the new stdin (and file system), then `Config.Vars`. The per-run output and the ghost logs start empty. -/
def St.setExecuteConfig (s : St) (e : Exec) : St :=
  applyVars { s with fs := e.fs, stdin := e.stdin, argv := ([] :: e.args) ++ s.argv.drop (e.args.length + 1),
                     argc := e.args.length + 1, idx := 1, hadFiles := false,
                     out := [], iters := 0, gl := 0, glv := 0, consumed := [], takes := [], edited := false, walkEdited := false,
                     visits := [], ilog := [] } e.vars

/-- the state in which the next `Execute` of the same interpreter starts -/
def St.startNext (s : St) (e : Exec) : St :=
  ((if e.resetVars then s.resetVars else s).resetCore).setExecuteConfig e

/-- the variables the next execution inherits from state `s` -/
def carried (s : St) (e : Exec) : Carried :=
  let s' := if e.resetVars then s.resetVars else s
  { vars := s'.vars, fsep := s'.fsep, recFs := s'.recFs, argvTail := s'.argv.drop (e.args.length + 1) }

/-- a history: the executions `es` performed one after the other by ONE interpreter whose state is `s` -/
def runAll (fuel : Nat) (p : Prog) : St → List Exec → List (Bool × St)
  | _, [] => []
  | s, e :: es => run fuel p (s.startNext e) :: runAll fuel p (run fuel p (s.startNext e)).2 es

end GoawkModel.C11
