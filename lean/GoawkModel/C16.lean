import GoawkModel.Basic
/-! Model of `internal/resolver/resolve.go` (scalar/array type inference) for properties C16 and C19.

An abstract program is what the resolver's `mainVisitor` *does* when it walks a syntax tree: for every function body
(and for the top level: BEGIN blocks, actions, END blocks, in that order) the flat list of `Event`s in visit order.
The traversal itself never depends on the type tables, so the event list is a faithful summary of a body
(the harness flattens its structured programs exactly as `mainVisitor.Visit` + `ast.Walk` traverse them).

Names are natural numbers (`0` is Go's `""`: the global scope / top level); the harness numbers identifiers by their
rank in byte-wise string order, so `Nat` order is `sort.Strings` order.

Scope of the model (assumptions, see `WF`): calls name defined AWK functions with no more arguments than parameters;
no global shares its name with a function; calls of native functions are flattened by the harness to
`rec v scalar` for variable arguments (what the visitor does). The checks `undefined function`, `called with more
arguments than declared`, `can't call local variable`, `global var can't also be a function` are not modelled. -/
namespace GoawkModel.C16

inductive Ty | unknown | scalar | array
  deriving DecidableEq, Repr, Inhabited

abbrev Name := Nat

inductive Event
  /-- `recordVar(curFunc, v, t, pos)` -/
  | use (v : Name) (t : Ty)
  /-- a `UserCallExpr` of `f` with `n` arguments (only the call graph uses it) -/
  | call (f : Name) (n : Nat)
  /-- argument `i` of a call of the AWK function `f` is not a plain variable -/
  | exprArg (f : Name) (i : Nat)
  /-- argument `i` of a call of the AWK function `f` is the variable `v` -/
  | varArg (f : Name) (i : Nat) (v : Name)
  deriving DecidableEq, Repr

structure Func where
  name : Name
  params : List Name
  body : List Event
  deriving Repr

structure Program where
  /-- functions in source order -/
  funcs : List Func
  /-- events of BEGIN blocks, pattern-actions, END blocks (walk order of `walkOrdered`) -/
  main : List Event
  /-- names of special variables (NR, NF, …) occurring in the program -/
  specials : List Name
  /-- ARGV, ENVIRON, FIELDS -/
  builtins : List Name
  deriving Repr

def Program.findFunc (p : Program) (f : Name) : Option Func := p.funcs.find? (fun g => g.name == f)

def Program.paramsOf (p : Program) (f : Name) : List Name :=
  match p.findFunc f with
  | some g => g.params
  | none => []

def Program.param (p : Program) (f : Name) (i : Nat) : Name := (p.paramsOf f).getD i 0

/-- `lookupVar`: local first, then special, then global -/
inductive Ref | loc | special | glob
  deriving DecidableEq, Repr

def refOf (p : Program) (fn v : Name) : Ref :=
  if fn ≠ 0 ∧ v ∈ p.paramsOf fn then .loc
  else if v ∈ p.specials then .special
  else .glob

/-- `resolver.varInfo` (types only) : `ty fn v` for a parameter `v` of `fn`, `ty 0 v` for a global; `decl v` = the global exists -/
structure State where
  ty : Name → Name → Ty
  decl : Name → Bool

def State.init : State := ⟨fun _ _ => .unknown, fun _ => false⟩

def State.setTy (s : State) (fn v : Name) (t : Ty) : State :=
  { s with ty := fun f' v' => if f' = fn ∧ v' = v then t else s.ty f' v' }

def State.declare (s : State) (v : Name) : State :=
  { s with decl := fun v' => if v' = v then true else s.decl v' }

/-- the `VarInfo.Type` that `lookupVar` returns (`unknown` when the variable does not exist yet) -/
def getTy (p : Program) (s : State) (fn v : Name) : Ty :=
  match refOf p fn v with
  | .loc => s.ty fn v
  | .special => .scalar
  | .glob => if s.decl v then s.ty 0 v else .unknown

inductive Err
  /-- "can't use %s %q as %s" -/
  | useAs (cur : Ty) (v : Name) (want : Ty)
  /-- "can't pass scalar %s as array param" -/
  | exprAsArray (f : Name) (i : Nat)
  /-- "can't pass %s %q as %s param" -/
  | passAs (cur : Ty) (v : Name) (want : Ty)
  /-- "too many iterations trying to resolve variable types" -/
  | tooMany
  deriving DecidableEq, Repr

abbrev StepR := Except Err (State × Bool)

/-- the two `if`s at the end of `recordVar` for an existing variable stored at `(fn, v)` with current type `cur` -/
def recordCore (s : State) (fn v : Name) (cur t : Ty) : StepR :=
  if cur ≠ t ∧ cur ≠ .unknown ∧ t ≠ .unknown then .error (.useAs cur v t)
  else if cur = .unknown ∧ t ≠ .unknown then .ok (s.setTy fn v t, true)
  else .ok (s, false)

/-- `resolver.recordVar`; the Bool is "r.updates was incremented" -/
def recordVar (p : Program) (s : State) (fn v : Name) (t : Ty) : StepR :=
  match refOf p fn v with
  | .loc => recordCore s fn v (s.ty fn v) t
  | .special => if t = .array then .error (.useAs .scalar v .array) else .ok (s, false)
  | .glob =>
    if s.decl v then recordCore s 0 v (s.ty 0 v) t
    else .ok ((s.setTy 0 v t).declare v, true)

/-- one visited node, inside function `fn` (0 = top level) -/
def step (p : Program) (fn : Name) (s : State) : Event → StepR
  | .call _ _ => .ok (s, false)
  | .use v t => recordVar p s fn v t
  | .exprArg f i => if s.ty f (p.param f i) = .array then .error (.exprAsArray f i) else .ok (s, false)
  | .varArg f i v =>
    let pn := p.param f i
    let pt := s.ty f pn
    let vt := getTy p s fn v
    if vt = .unknown ∧ pt ≠ .unknown then recordVar p s fn v pt
    else if vt ≠ .unknown ∧ pt = .unknown then recordVar p s f pn vt
    else if vt ≠ pt ∧ vt ≠ .unknown ∧ pt ≠ .unknown then .error (.passAs vt v pt)
    else recordVar p s fn v .unknown

/-- an error with the place it was raised: the function being walked and the index of the event in its body -/
abbrev LErr := Name × Nat × Err
abbrev PassR := Except LErr (State × Bool)

def runBody (p : Program) (fn : Name) : List Event → Nat → State → Bool → PassR
  | [], _, s, ch => .ok (s, ch)
  | e :: es, i, s, ch =>
    match step p fn s e with
    | .error er => .error (fn, i, er)
    | .ok (s', c) => runBody p fn es (i + 1) s' (ch || c)

/-- the first loop of `walkOrdered`: names that are `""` or not AWK functions are skipped -/
def runFuncs (p : Program) : List Name → State → Bool → PassR
  | [], s, ch => .ok (s, ch)
  | n :: ns, s, ch =>
    if n = 0 then runFuncs p ns s ch else
    match p.findFunc n with
    | none => runFuncs p ns s ch
    | some f =>
      match runBody p n f.body 0 s ch with
      | .error e => .error e
      | .ok (s', ch') => runFuncs p ns s' ch'

/-- `walkOrdered` -/
def pass (p : Program) (order : List Name) (s : State) : PassR :=
  match runFuncs p order s false with
  | .error e => .error e
  | .ok (s', ch) => runBody p 0 p.main 0 s' ch

/-- every name an event can make a global of -/
def eventNames : Event → List Name
  | .use v _ => [v]
  | .varArg _ _ v => [v]
  | _ => []

def Program.mentioned (p : Program) : List Name :=
  p.builtins ++ (p.funcs.flatMap fun f => f.body.flatMap eventNames) ++ p.main.flatMap eventNames

def Program.universe (p : Program) : List Name := p.mentioned.eraseDups

/-- `maxIterations`: the number of entries of `r.varInfo` after the first pass -/
def cap (p : Program) (s : State) : Nat :=
  (p.funcs.map fun f => f.params.length).sum + (p.universe.filter s.decl).length

/-- the `for i := 0; r.updates != updates; i++` loop; the fuel is `maxIterations - i` -/
def loop (p : Program) (order : List Name) : Nat → State → Bool → Except LErr State
  | 0, s, ch =>
    if ch then
      match pass p order s with
      | .error e => .error e
      | .ok _ => .error (0, 0, .tooMany)
    else .ok s
  | n + 1, s, ch =>
    if ch then
      match pass p order s with
      | .error e => .error e
      | .ok (s', ch') => loop p order n s' ch'
    else .ok s

/-- state after the three `recordVar("", "ARGV" …)` calls -/
def prelude (p : Program) : State :=
  p.builtins.foldl (fun s b => (s.setTy 0 b .array).declare b) State.init

/-- `Resolve` up to (not including) the defaulting of unknown types, for a given function order -/
def resolve (p : Program) (order : List Name) : Except LErr State :=
  match pass p order (prelude p) with
  | .error e => .error e
  | .ok (s1, ch) => loop p order (cap p s1) s1 ch

/-- "For any variables that are still unknown, set their type to scalar." -/
def dflt : Ty → Ty
  | .array => .array
  | _ => .scalar

def final (s : State) : Name → Name → Ty := fun fn v => dflt (s.ty fn v)

/-! ### index assignment and the printed type table -/

def insertSorted (a : Nat) : List Nat → List Nat
  | [] => [a]
  | x :: xs => if a ≤ x then a :: x :: xs else x :: insertSorted a xs

def sortNames (l : List Nat) : List Nat := l.foldr insertSorted []

/-- (name, type, index) for `names` in the given order: separate counters for scalars and arrays -/
def assignIdx (ty : Name → Ty) : List Name → Nat → Nat → List (Name × Ty × Nat)
  | [], _, _ => []
  | n :: ns, sc, ar =>
    if ty n = .array then (n, .array, ar) :: assignIdx ty ns sc (ar + 1)
    else (n, .scalar, sc) :: assignIdx ty ns (sc + 1) ar

/-- globals: indexes by name order; locals: by parameter order -/
def globalTable (p : Program) (s : State) : List (Name × Ty × Nat) :=
  assignIdx (final s 0) (sortNames (p.universe.filter s.decl)) 0 0

def localTable (s : State) (f : Func) : List (Name × Ty × Nat) :=
  assignIdx (final s f.name) f.params 0 0

/-! ### the call graph order (`topoSort` + "functions that weren't called", as repaired for F22) -/

/-- callees in first-occurrence order -/
def callees (es : List Event) : List Name :=
  (es.filterMap fun e => match e with | .call f _ => some f | _ => none).eraseDups

/-- `callGraph.calls` as a list of map entries: key = caller (0 = top level), only callers with at least one call.
Go walks Begin, Actions, Functions, End; the insertion order is irrelevant for a map, so any order of entries is allowed here. -/
def callGraph (p : Program) : List (Name × List Name) :=
  ((0, callees p.main) :: p.funcs.map fun f => (f.name, callees f.body)).filter fun e => !e.2.isEmpty

def graphLookup (g : List (Name × List Name)) (n : Name) : List Name :=
  match g.find? (fun e => e.1 == n) with
  | some e => e.2
  | none => []

structure TopoSt where
  perm : List Name
  temp : List Name
  sorted : List Name  -- in append order

mutual
/-- `visit(n)` of toposort.go; `iter` is "Go's iteration order of a map's keys" (any permutation), sorted before use -/
def visit (iter : List Name → List Name) (g : List (Name × List Name)) : Nat → Name → TopoSt → TopoSt
  | 0, _, st => st
  | fuel + 1, n, st =>
    if n ∈ st.perm then st
    else if n ∈ st.temp then st
    else
      let st1 := { st with temp := n :: st.temp }
      let st2 := visitAll iter g fuel (sortNames (iter (graphLookup g n))) st1
      { perm := n :: st2.perm, temp := st2.temp.erase n, sorted := st2.sorted ++ [n] }
def visitAll (iter : List Name → List Name) (g : List (Name × List Name)) : Nat → List Name → TopoSt → TopoSt
  | 0, _, st => st
  | _ + 1, [], st => st
  | fuel + 1, m :: ms, st => visitAll iter g fuel ms (visit iter g fuel m st)
end

def graphNodes (g : List (Name × List Name)) : List Name := (g.map (·.1)) ++ g.flatMap (·.2)

/-- `topoSort(graph)`; fuel: each `visit` that does work adds a temp mark, so depth ≤ number of nodes; list steps ≤ size -/
def topoSort (iter : List Name → List Name) (g : List (Name × List Name)) : List Name :=
  let fuel := 2 * (graphNodes g).length + 2
  (visitAll iter g (fuel * (fuel + 1)) (sortNames (iter (g.map (·.1)))) ⟨[], [], []⟩).sorted

/-- `orderedFuncs`: topological order, then the functions never called, in source order -/
def goOrder (iter : List Name → List Name) (p : Program) : List Name :=
  let o := topoSort iter (callGraph p)
  o ++ (p.funcs.map (·.name)).filter fun n => !(o.contains n)

/-- what `parser.ParseProgram` computes in the resolver, map iteration order made explicit -/
def parse (iter : List Name → List Name) (p : Program) : Except LErr State := resolve p (goOrder iter p)

end GoawkModel.C16
