import GoawkModel.Basic
/-!
# C12 — model of GoAWK's I/O dispatch under the deny flags

Mirrors, as the code is now: `getOutputStream`, `getInputScannerFile`, `getInputScannerPipe`, `nextLine` (operand
handling), `getline` (all three forms) in `interp/io.go` / `interp/vm.go`, `BuiltinSystem`, `BuiltinClose`,
`BuiltinFflush` in `interp/vm.go`, and the choice of the open function in `setExecuteConfig` (`interp/interp.go`).

The operating system is an effect log: each operation yields the list of things it does to the outside world.
The environment's answers (does the OS accept this open / start) are parameters of the operation; which files exist is
part of the state (a file exists once a write-open of its name succeeded).
-/
namespace GoawkModel.C12

structure Flags where
  noExec : Bool
  noWrites : Bool
  noReads : Bool
  hook : Bool          -- a custom Config.OpenFile is configured
deriving DecidableEq, Repr

/-- what an entry of `p.inputStreams` / `p.outputStreams` is -/
inductive Kind | inFile | inCmd | outFile | outCmd | outNull
deriving DecidableEq, Repr

inductive Mode | rd | wrTrunc | wrAppend
deriving DecidableEq, Repr

/-- who performs an open: the function stored in `p.openFile`, or a direct call of package `os` -/
inductive Opener | configured | osDirect
deriving DecidableEq, Repr

inductive Err
  | writeToReader | readFromWriter | noFileWrites | noExecPipeOut | noExecPipeIn | noExecSystem | noFileReads
  | redirect      -- "output redirection error": the OS refused a write-open
  | openFailed    -- an operand could not be opened
deriving DecidableEq, Repr

inductive Effect
  | useStdout | useStderr | useStdin
  | «open» (name : Bytes) (mode : Mode) (via : Opener) (ok : Bool)
  | exec (cmd : Bytes) (ok : Bool)
  | useStream (name : Bytes) (k : Kind)
  | closeStream (name : Bytes) (k : Kind)
  | soft                -- the operation reported failure (-1) to the program; the run goes on
  | error (e : Err)     -- run-time error: the run ends
deriving DecidableEq, Repr

structure St where
  streams : List (Bytes × Kind)   -- p.inputStreams ∪ p.outputStreams (the code keeps them disjoint)
  existing : List Bytes           -- names of files that exist
  args : List Bytes               -- ARGV operands not yet visited (var=value operands are not I/O and are left out)
  hadFiles : Bool
  cur : Nat                       -- records left in the main input's current scanner (0: exhausted / nil)
  stdinRecs : Nat                 -- records of standard input not yet pulled by a scanner (a scanner pulls them all)
deriving Repr

def St.init (existing args : List Bytes) (stdinRecs : Nat) : St :=
  { streams := [], existing := existing, args := args, hadFiles := false, cur := 0, stdinRecs := stdinRecs }

inductive IoOp
  | printGt (n : Bytes) (osOk : Bool)     -- print > n        (osOk: the OS accepts the open, if it gets that far)
  | printApp (n : Bytes) (osOk : Bool)    -- print >> n
  | printPipe (n : Bytes) (osOk : Bool)   -- print | n        (osOk: the shell can be started)
  | getlineFile (n : Bytes)               -- getline < n
  | getlineCmd (n : Bytes) (osOk : Bool)  -- n | getline
  | system (n : Bytes) (osOk : Bool)
  | getline                               -- un-redirected getline
  | mainLoop                              -- the pattern-action loop reading all remaining input
  | close (n : Bytes)
  | fflush (n : Bytes)
deriving DecidableEq, Repr

def find (n : Bytes) : List (Bytes × Kind) → Option Kind
  | [] => none
  | (m, k) :: rest => if m = n then some k else find n rest

def remove (n : Bytes) (l : List (Bytes × Kind)) : List (Bytes × Kind) := l.filter (fun p => p.1 ≠ n)

def Kind.isInput : Kind → Bool
  | .inFile | .inCmd => true
  | _ => false

def dash : Bytes := [45]
def devStdout : Bytes := [47, 100, 101, 118, 47, 115, 116, 100, 111, 117, 116]   -- "/dev/stdout" (literal so that `decide` can evaluate examples)
def devStderr : Bytes := [47, 100, 101, 118, 47, 115, 116, 100, 101, 114, 114]   -- "/dev/stderr"

/-- `getOutputStream` for `>` / `>>` -/
def outFile (f : Flags) (s : St) (n : Bytes) (mode : Mode) (osOk : Bool) : List Effect × St :=
  match find n s.streams with
  | some k => if k.isInput then ([.error .writeToReader], s) else ([.useStream n k], s)
  | none =>
    if n = dash then ([.useStdout], s)
    else if f.noWrites then ([.error .noFileWrites], s)
    else if n = devStderr then ([.useStderr], s)
    else if n = devStdout then ([.useStdout], s)
    else if osOk then
      ([.open n mode .configured true, .useStream n .outFile],
       { s with streams := (n, .outFile) :: s.streams, existing := n :: s.existing })
    else ([.open n mode .configured false, .error .redirect], s)

/-- `getOutputStream` for `|` -/
def outPipe (f : Flags) (s : St) (n : Bytes) (osOk : Bool) : List Effect × St :=
  match find n s.streams with
  | some k => if k.isInput then ([.error .writeToReader], s) else ([.useStream n k], s)
  | none =>
    if f.noExec then ([.error .noExecPipeOut], s)
    else if osOk then ([.exec n true, .useStream n .outCmd], { s with streams := (n, .outCmd) :: s.streams })
    else ([.exec n false, .useStream n .outNull], { s with streams := (n, .outNull) :: s.streams })

/-- `getInputScannerFile` + the `getline <` wrapper -/
def inFile (f : Flags) (s : St) (n : Bytes) : List Effect × St :=
  match find n s.streams with
  | some k => if k.isInput then ([.useStream n k], s) else ([.error .readFromWriter], s)
  | none =>
    if n = dash then ([.useStdin], { s with stdinRecs := 0 })
    else if f.noReads then ([.error .noFileReads], s)
    else if s.existing.contains n then
      ([.open n .rd .configured true, .useStream n .inFile], { s with streams := (n, .inFile) :: s.streams })
    else ([.open n .rd .configured false, .soft], s)

/-- `getInputScannerPipe` + the `| getline` wrapper -/
def inPipe (f : Flags) (s : St) (n : Bytes) (osOk : Bool) : List Effect × St :=
  match find n s.streams with
  | some k => if k.isInput then ([.useStream n k], s) else ([.error .readFromWriter], s)
  | none =>
    if f.noExec then ([.error .noExecPipeIn], s)
    else if osOk then ([.exec n true, .useStream n .inCmd], { s with streams := (n, .inCmd) :: s.streams })
    else ([.exec n false], s)

inductive Res | record | eof | err (e : Err)
deriving DecidableEq, Repr

/-- the operand walk of `nextLine` (scanner is nil): structural in the remaining operands -/
def nextOperand (f : Flags) (s : St) : List Bytes → List Effect × St × Res
  | [] =>
    if s.hadFiles then ([], { s with args := [] }, .eof)
    else if s.stdinRecs = 0 then ([.useStdin], { s with args := [], hadFiles := true, cur := 0, stdinRecs := 0 }, .eof)
    else ([.useStdin], { s with args := [], hadFiles := true, cur := s.stdinRecs - 1, stdinRecs := 0 }, .record)
  | a :: rest =>
    if a = [] then nextOperand f s rest
    else if a = dash then
      if s.stdinRecs = 0 then
        let r := nextOperand f { s with hadFiles := true, cur := 0, stdinRecs := 0 } rest
        (.useStdin :: r.1, r.2)
      else ([.useStdin], { s with args := rest, hadFiles := true, cur := s.stdinRecs - 1, stdinRecs := 0 }, .record)
    else if f.noReads then ([], { s with args := rest }, .err .noFileReads)
    else if s.existing.contains a then
      -- every operand file the harness uses holds exactly one record
      ([.open a .rd .configured true], { s with args := rest, hadFiles := true, cur := 0 }, .record)
    else ([.open a .rd .configured false], { s with args := rest }, .err .openFailed)

/-- `nextLine` -/
def nextLine (f : Flags) (s : St) : List Effect × St × Res :=
  if s.cur > 0 then ([], { s with cur := s.cur - 1 }, .record) else nextOperand f s s.args

/-- the pattern-action loop: `nextLine` until end of input or error -/
def mainLoop (f : Flags) : Nat → St → List Effect × St
  | 0, s => ([], s)
  | fuel + 1, s =>
    match nextLine f s with
    | (es, s', .record) => let r := mainLoop f fuel s'; (es ++ r.1, r.2)
    | (es, s', .eof) => (es, s')
    | (es, s', .err e) => (es ++ [.error e], s')

def mainFuel (s : St) : Nat := s.cur + s.stdinRecs + s.args.length + 2

def step (f : Flags) (s : St) : IoOp → List Effect × St
  | .printGt n ok => outFile f s n .wrTrunc ok
  | .printApp n ok => outFile f s n .wrAppend ok
  | .printPipe n ok => outPipe f s n ok
  | .getlineFile n => inFile f s n
  | .getlineCmd n ok => inPipe f s n ok
  | .system n ok => if f.noExec then ([.error .noExecSystem], s) else ([.exec n ok], s)
  | .getline =>
    match nextLine f s with
    | (es, s', .err .noFileReads) => (es ++ [.error .noFileReads], s')   -- errNoFileReads is propagated: the run ends
    | (es, s', .err _) => (es ++ [.soft], s')      -- any other nextLine error: getline returns -1
    | (es, s', _) => (es, s')
  | .mainLoop => mainLoop f (mainFuel s) s
  | .close n =>
    match find n s.streams with
    | some k => ([.closeStream n k], { s with streams := remove n s.streams })
    | none => ([.soft], s)
  | .fflush _ => ([], s)

def Effect.isError : Effect → Bool
  | .error _ => true
  | _ => false

/-- one group of effects per executed operation; the run ends with the first group containing an error -/
def trace (f : Flags) : St → List IoOp → List (List Effect)
  | _, [] => []
  | s, op :: ops =>
    let r := step f s op
    if r.1.any Effect.isError then [r.1] else r.1 :: trace f r.2 ops

def effects (f : Flags) (s : St) (ops : List IoOp) : List Effect := (trace f s ops).flatten

/-! ### what counts as touching a process / writing a file / reading a file -/

def Kind.isCmd : Kind → Bool
  | .inCmd | .outCmd => true
  | _ => false

def Effect.process : Effect → Bool
  | .exec _ _ => true
  | .useStream _ k => k.isCmd
  | .closeStream _ k => k.isCmd
  | _ => false

def Effect.fileWrite : Effect → Bool
  | .open _ .wrTrunc _ _ => true
  | .open _ .wrAppend _ _ => true
  | .useStream _ .outFile => true
  | .closeStream _ .outFile => true
  | _ => false

def Effect.fileRead : Effect → Bool
  | .open _ .rd _ _ => true
  | .useStream _ .inFile => true
  | _ => false

def Effect.viaHook : Effect → Bool
  | .open _ _ via _ => via == .configured
  | _ => true

/-- the invariant: the stream table only holds streams this run was allowed to open -/
def Kind.allowed (f : Flags) : Kind → Bool
  | .inCmd | .outCmd | .outNull => !f.noExec
  | .outFile => !f.noWrites
  | .inFile => !f.noReads

def Inv (f : Flags) (s : St) : Prop := ∀ p ∈ s.streams, p.2.allowed f = true

/-- the operation would, if permitted, start a process / write-open a file / read-open a file, and the flag forbids it -/
def denied (f : Flags) (s : St) : IoOp → Option Err
  | .printGt n _ | .printApp n _ =>
    if (find n s.streams).isNone && n ≠ dash && f.noWrites then some .noFileWrites else none
  | .printPipe n _ => if (find n s.streams).isNone && f.noExec then some .noExecPipeOut else none
  | .getlineFile n => if (find n s.streams).isNone && n ≠ dash && f.noReads then some .noFileReads else none
  | .getlineCmd n _ => if (find n s.streams).isNone && f.noExec then some .noExecPipeIn else none
  | .system _ _ => if f.noExec then some .noExecSystem else none
  | _ => none

/-! ### standard input is not a file; what is decided about a file depends on the flags and the open function's answer only -/

/-- an operand list that names standard input only: every entry is "" (skipped) or "-" -/
def onlyStdin (l : List Bytes) : Bool := l.all (fun a => a == [] || a == dash)

/-- what `getline < n`, `print > n`, `print >> n` do with a name that is not yet a stream, as a function of the flags alone:
use a standard stream, refuse, or ask the configured open function -/
inductive Decision | stdin | stdout | stderr | refuse (e : Err) | viaOpenFile (m : Mode)
deriving DecidableEq, Repr

def readDecision (f : Flags) (n : Bytes) : Decision :=
  if n = dash then .stdin else if f.noReads then .refuse .noFileReads else .viaOpenFile .rd

def writeDecision (f : Flags) (n : Bytes) (m : Mode) : Decision :=
  if n = dash then .stdout else if f.noWrites then .refuse .noFileWrites
  else if n = devStderr then .stderr else if n = devStdout then .stdout else .viaOpenFile m

/-! ### a reused Interpreter

`setExecuteConfig` copies the three flags and the open function from the Config of EACH `Execute` call, and `closeAll`
leaves no stream behind, so every call starts from the initial state under its own configuration. -/

structure RunCfg where
  flags : Flags
  existing : List Bytes
  args : List Bytes
  stdinRecs : Nat
  ops : List IoOp

def execute (r : RunCfg) : List (List Effect) := trace r.flags (St.init r.existing r.args r.stdinRecs) r.ops

/-- the effect traces of successive `Execute` calls on one Interpreter -/
def session (runs : List RunCfg) : List (List (List Effect)) := runs.map execute

end GoawkModel.C12
