import GoawkModel.Basic
/-!
# C13 — model of GoAWK's output machinery: destinations as logs

Mirrors, as the code is now: `print`/`printf` with and without redirect (`interp/vm.go` Print/Printf, `getOutputStream`),
`close`, `fflush`, `system` (`interp/vm.go`), the buffered stream types (`interp/iostream.go`), `flushOutputAndError`,
`flushAll`, `flushStream`, `printErrorf`, `closeAll` (`interp/io.go`) and the end of `executeAll` (`interp/interp.go`).

State = what has reached each destination (`out`, `fs`, `procs`) + what is still buffered inside the interpreter
(`outBuf`, the `buf` of every stream). Ghost fields (`outLog`, `base`, `log` of a stream) record what the program wrote;
they never influence behaviour and exist so that the property can be stated.

A command is run when its stream is closed (it sees its whole standard input then); what it does is a parameter `beh`.
-/
namespace GoawkModel.C13

abbrev Name := Bytes

inductive Redir | gt | app | pipe
deriving DecidableEq, Repr

inductive SKind | file | cmd | rd
deriving DecidableEq, Repr

structure Stream where
  kind : SKind
  buf : Bytes      -- file/cmd: accepted from the program, not yet handed to the OS; rd: the unread rest of the file
  sent : Bytes     -- cmd: already written to the command's standard input
  base : Bytes     -- ghost, file: the file's content right after the open ([] for >, the old content for >>)
  log : Bytes      -- ghost: everything the program wrote to this stream since the open
deriving DecidableEq, Repr

/-- a finished process: command, its whole standard input (for `system`: what it observed), exit status -/
abbrev Proc := Name × Bytes × Nat

structure St where
  buffered : Bool            -- Config.Output has a Flush method (bufio.Writer)
  failAt : Option Nat        -- the underlying standard output accepts this many bytes, then fails
  broken : Bool              -- the buffered writer's sticky error
  out : Bytes                -- what reached the underlying standard output (program and children)
  outBuf : Bytes             -- program output waiting in the buffered writer
  flushes : List Bytes       -- one entry per call of Flush on Config.Output: what was waiting at that moment
  outLog : Bytes             -- ghost: everything written to standard output, in order (program and children)
  streams : List (Name × Stream)
  fs : List (Name × Bytes)
  procs : List Proc
deriving Repr

def St.init (buffered : Bool) (failAt : Option Nat) (fs : List (Name × Bytes)) : St :=
  { buffered, failAt, broken := false, out := [], outBuf := [], flushes := [], outLog := [], streams := [], fs, procs := [] }

inductive Err | writeToReader | readFromWriter | stdoutWrite | divZero
deriving DecidableEq, Repr

inductive Ret
  | none
  | num (v : Int)
  | line (r : Int) (l : Bytes)
  | err (e : Err)
  | exit (code : Nat)
deriving DecidableEq, Repr

inductive Op
  | print (c : Bytes)                         -- print / printf to standard output; c = the bytes it produces
  | printTo (r : Redir) (n : Name) (c : Bytes)
  | close (n : Name)
  | fflush (n : Name)                         -- fflush(n), n ≠ ""
  | fflushAll                                 -- fflush() / fflush("")
  | system (c : Name)
  | getlineFile (n : Name)
  | exit (code : Nat)
  | fail                                      -- a run-time error (division by zero)
deriving DecidableEq, Repr

/-- behaviour of commands: `(command, input) ↦ (what it writes to the shared standard output, exit status)`.
For a `|` command `input` is its standard input; for `system` it is the file system the command can look at. -/
structure Beh where
  pipe : Name → Bytes → Bytes × Nat
  sys : Name → List (Name × Bytes) → Bytes × Bytes × Nat     -- (what it observed, its output, status)

/-! ### association lists -/

def find {α : Type} (n : Name) : List (Name × α) → Option α
  | [] => none
  | (m, v) :: rest => if m = n then some v else find n rest

def remove {α : Type} (n : Name) (l : List (Name × α)) : List (Name × α) := l.filter (fun p => p.1 ≠ n)

def set {α : Type} (n : Name) (v : α) (l : List (Name × α)) : List (Name × α) := (n, v) :: remove n l

def content (fs : List (Name × Bytes)) (n : Name) : Bytes := (find n fs).getD []

/-! ### standard output -/

/-- a write on the underlying standard output -/
def rawOut (s : St) (c : Bytes) : St × Bool :=
  match s.failAt with
  | none => ({ s with out := s.out ++ c }, true)
  | some k =>
    if s.out.length + c.length ≤ k then ({ s with out := s.out ++ c }, true)
    else ({ s with out := (s.out ++ c).take k }, false)

/-- `Flush()` on Config.Output (a no-op when it is not a flusher) -/
def flushOut (s : St) : St × Bool :=
  if !s.buffered then (s, true)
  else
    let s := { s with flushes := s.flushes ++ [s.outBuf] }
    if s.broken then (s, false)
    else if s.outBuf = [] then (s, true)
    else
      let r := rawOut s s.outBuf
      if r.2 then ({ r.1 with outBuf := [] }, true) else ({ r.1 with outBuf := [], broken := true }, false)

/-- the program writes `c` to standard output -/
def writeOut (s : St) (c : Bytes) : St × Bool :=
  let s := { s with outLog := s.outLog ++ c }
  if s.buffered then
    if s.broken then (s, false) else ({ s with outBuf := s.outBuf ++ c }, true)
  else rawOut s c

/-- a child process (whose stdout is Config.Output) writes `c`; the interpreter is blocked in Wait meanwhile -/
def childOut (s : St) (c : Bytes) : St :=
  let s := { s with outLog := s.outLog ++ c }
  if s.buffered then (if s.broken then s else { s with outBuf := s.outBuf ++ c })
  else (rawOut s c).1

/-! ### streams -/

def dash : Name := [45]
def devStdout : Name := [47, 100, 101, 118, 47, 115, 116, 100, 111, 117, 116]
def devStderr : Name := [47, 100, 101, 118, 47, 115, 116, 100, 101, 114, 114]

/-- hand the buffered bytes of an output stream to the OS (`Flush` of the stream's bufio.Writer) -/
def deliver (s : St) (n : Name) (st : Stream) : St × Stream :=
  match st.kind with
  | .file => ({ s with fs := set n (content s.fs n ++ st.buf) s.fs }, { st with buf := [] })
  | .cmd => (s, { st with sent := st.sent ++ st.buf, buf := [] })
  | .rd => (s, st)

/-- `stream.Close()` for an entry that has been taken out of the table -/
def closeStream (b : Beh) (s : St) (n : Name) (st : Stream) : St × Int :=
  match st.kind with
  | .rd => (s, 0)
  | .file => ((deliver s n st).1, 0)
  | .cmd =>
    let input := st.sent ++ st.buf
    let r := b.pipe n input
    (childOut { s with procs := s.procs ++ [(n, input, r.2)] } r.1, r.2)

/-- flush every output stream (map order does not matter: the destinations are distinct) -/
def deliverAll (s : St) : List (Name × Stream) → St × List (Name × Stream)
  | [] => (s, [])
  | (n, st) :: rest =>
    let r := deliver s n st
    let r2 := deliverAll r.1 rest
    (r2.1, (n, r.2) :: r2.2)

/-- `flushAll`: all streams, then standard output; a failing flush is reported through `printErrorf`, which flushes again -/
def flushAll (s : St) : St × Bool :=
  let r := deliverAll s s.streams
  let s := { r.1 with streams := r.2 }
  let f := flushOut s
  if f.2 then (f.1, true) else ((flushOut f.1).1, false)

/-- first line of `b` (without the newline) and the rest -/
def splitLine : Bytes → Bytes × Bytes
  | [] => ([], [])
  | c :: rest => if c = 10 then ([], rest) else let r := splitLine rest; (c :: r.1, r.2)

/-- `bufio.ScanLines` (the record splitter for RS = "\n") drops one CR at the end of a line -/
def dropCR (l : Bytes) : Bytes := if l.getLast? = some 13 then l.dropLast else l

def step (b : Beh) (s : St) : Op → St × Ret
  | .print c =>
    let r := writeOut s c
    (r.1, if r.2 then .none else .err .stdoutWrite)
  | .printTo rd n c =>
    match find n s.streams with
    | some st =>
      if st.kind = .rd then (s, .err .writeToReader)
      else ({ s with streams := set n { st with buf := st.buf ++ c, log := st.log ++ c } s.streams }, .none)
    | none =>
      if rd = .pipe then
        let s := (flushOut s).1
        ({ s with streams := (n, { kind := .cmd, buf := c, sent := [], base := [], log := c }) :: s.streams }, .none)
      else if n = dash then
        let r := writeOut s c
        (r.1, if r.2 then .none else .err .stdoutWrite)
      else
        let s := (flushOut s).1
        if n = devStderr then (s, .none)
        else if n = devStdout then
          let r := writeOut s c
          (r.1, if r.2 then .none else .err .stdoutWrite)
        else
          let old := if rd = .gt then [] else content s.fs n
          ({ s with fs := set n old s.fs,
                    streams := (n, { kind := .file, buf := c, sent := [], base := old, log := c }) :: s.streams }, .none)
  | .close n =>
    match find n s.streams with
    | none => (s, .num (-1))
    | some st =>
      let r := closeStream b { s with streams := remove n s.streams } n st
      (r.1, .num r.2)
  | .fflush n =>
    match find n s.streams with
    | some st =>
      if st.kind = .rd then ((flushOut s).1, .num (-1))
      else
        let r := deliver s n st
        ({ r.1 with streams := set n r.2 r.1.streams }, .num 0)
    | none => ((flushOut s).1, .num (-1))         -- printErrorf flushes standard output first
  | .fflushAll =>
    let r := flushAll s
    (r.1, .num (if r.2 then 0 else -1))
  | .system c =>
    let s := (flushAll s).1
    let r := b.sys c s.fs
    (childOut { s with procs := s.procs ++ [(c, r.1, r.2.2)] } r.2.1, .num r.2.2)
  | .getlineFile n =>
    match find n s.streams with
    | some st =>
      if st.kind = .rd then
        if st.buf = [] then (s, .line 0 [])
        else
          let l := splitLine st.buf
          ({ s with streams := set n { st with buf := l.2 } s.streams }, .line 1 (dropCR l.1))
      else (s, .err .readFromWriter)
    | none =>
      match find n s.fs with
      | none => (s, .line (-1) [])
      | some data =>
        if data = [] then
          ({ s with streams := (n, { kind := .rd, buf := [], sent := [], base := [], log := [] }) :: s.streams }, .line 0 [])
        else
          let l := splitLine data
          ({ s with streams := (n, { kind := .rd, buf := l.2, sent := [], base := [], log := [] }) :: s.streams }, .line 1 (dropCR l.1))
  | .exit code => (s, .exit code)
  | .fail => (s, .err .divZero)

/-- `closeAll` on the streams in table order, then the final flush of standard output (its error is discarded) -/
def closeList (b : Beh) (s : St) : List (Name × Stream) → St
  | [] => s
  | (n, st) :: rest => closeList b (closeStream b s n st).1 rest

def finish (b : Beh) (s : St) : St :=
  (flushOut (closeList b { s with streams := [] } s.streams)).1

/-- how a run ends -/
inductive Outcome | ok (status : Nat) | error (e : Err)
deriving DecidableEq, Repr

/-- the whole run: the value each executed operation returned, the outcome, the final state (after `closeAll`) -/
def run (b : Beh) : St → List Op → List Ret × Outcome × St
  | s, [] => ([], .ok 0, finish b s)
  | s, op :: ops =>
    match step b s op with
    | (s', .err e) => ([.err e], .error e, finish b s')
    | (s', .exit code) => ([.exit code], .ok code, finish b s')
    | (s', r) => let t := run b s' ops; (r :: t.1, t.2)

end GoawkModel.C13
