import GoawkModel.Basic
import GoawkModel.Generated.Consts
/-!
# C06 model: the record state of `interp/interp.go` + `interp/io.go` (`$0`, fields, NF; lazy splitting)

`Rec` mirrors the fields of `type interp struct` that make up the record (`line`, `lineIsTrueStr`, `fields`,
`fieldsIsTrueStr`, `numFields`, `haveFields`, `savedFieldSep`, `savedFieldSepRegex`) plus the variables the record
operations consult (`fieldSep`, `fieldSepRegex`, `outputFieldSep`, `outputMode`/`csvOutputConfig.Separator`, `recordSep == ""`).
`Spec` is the eager specification: fields are always split, NF is their number.
The regular-expression engine is a parameter: `ρ` is the type of compiled regexes and `M r line` the list of
`FindAllStringIndex` matches.
-/
namespace GoawkModel.C06

/-! ## Numbers as the VM hands them to the record operations -/

/-- a float64 value reduced to what the index conversions look at: an exact rational, NaN or ±Inf -/
inductive Num where
  | rat (n : Int) (d : Nat)
  | nan
  | inf (neg : Bool)
  deriving Repr, DecidableEq, Inhabited

def minInt : Int := -9223372036854775808
def maxInt : Int := 9223372036854775807
def maxFieldIndex : Int := (Generated.Consts.maxFieldIndex : Nat)

/-- `floatToInt` of `interp/value.go` (clamping; `int(NaN)` is the amd64 result) -/
def floatToInt : Num → Int
  | .rat n d =>
    let t := Int.tdiv n (d : Int)
    if t ≥ maxInt then maxInt else if t ≤ minInt then minInt else t
  | .nan => minInt
  | .inf neg => if neg then minInt else maxInt

/-- Go's `int(f)` on amd64 (used by `setSpecial(V_NF)`): truncation, out of range or NaN gives `minInt` -/
def goInt : Num → Int
  | .rat n d =>
    let t := Int.tdiv n (d : Int)
    if t > maxInt then minInt else if t < minInt then minInt else t
  | .nan => minInt
  | .inf _ => minInt

/-! ## UTF-8 (`utf8.DecodeRune`, `utf8.RuneCountInString`, `strings.Split(s, "")`) -/

def isCont (b : UInt8) : Bool := 0x80 ≤ b && b ≤ 0xBF

/-- `utf8.DecodeRune`: (code point, width); invalid or short encodings give (U+FFFD, 1); empty input (U+FFFD, 0) -/
def decodeRune : Bytes → Nat × Nat
  | [] => (0xFFFD, 0)
  | b0 :: rest =>
    if b0 < 0x80 then (b0.toNat, 1)
    else if 0xC2 ≤ b0 && b0 ≤ 0xDF then
      match rest with
      | b1 :: _ => if isCont b1 then ((b0.toNat - 0xC0) * 64 + (b1.toNat - 0x80), 2) else (0xFFFD, 1)
      | [] => (0xFFFD, 1)
    else if 0xE0 ≤ b0 && b0 ≤ 0xEF then
      match rest with
      | b1 :: b2 :: _ =>
        let lo : UInt8 := if b0 = 0xE0 then 0xA0 else 0x80
        let hi : UInt8 := if b0 = 0xED then 0x9F else 0xBF
        if lo ≤ b1 && b1 ≤ hi && isCont b2 then
          ((b0.toNat - 0xE0) * 4096 + (b1.toNat - 0x80) * 64 + (b2.toNat - 0x80), 3)
        else (0xFFFD, 1)
      | _ => (0xFFFD, 1)
    else if 0xF0 ≤ b0 && b0 ≤ 0xF4 then
      match rest with
      | b1 :: b2 :: b3 :: _ =>
        let lo : UInt8 := if b0 = 0xF0 then 0x90 else 0x80
        let hi : UInt8 := if b0 = 0xF4 then 0x8F else 0xBF
        if lo ≤ b1 && b1 ≤ hi && isCont b2 && isCont b3 then
          ((b0.toNat - 0xF0) * 262144 + (b1.toNat - 0x80) * 4096 + (b2.toNat - 0x80) * 64 + (b3.toNat - 0x80), 4)
        else (0xFFFD, 1)
      | _ => (0xFFFD, 1)
    else (0xFFFD, 1)

def runesAux : Nat → Bytes → List Bytes
  | 0, _ => []
  | _, [] => []
  | fuel + 1, b :: rest =>
    let w := (decodeRune (b :: rest)).2
    (b :: rest).take w :: runesAux fuel ((b :: rest).drop w)

/-- the UTF-8 sequences of `s`, an invalid byte standing alone (= `strings.Split(s, "")`) -/
def runes (s : Bytes) : List Bytes := runesAux s.length s

def runeCount (s : Bytes) : Nat := (runes s).length

/-- `unicode.IsSpace` -/
def isSpaceCp (c : Nat) : Bool :=
  (9 ≤ c && c ≤ 13) || c = 32 || c = 0x85 || c = 0xA0 || c = 0x1680 || (0x2000 ≤ c && c ≤ 0x200A) ||
  c = 0x2028 || c = 0x2029 || c = 0x202F || c = 0x205F || c = 0x3000

def isSpaceRune (r : Bytes) : Bool := isSpaceCp (decodeRune r).1

/-! ## Split functions -/

/-- split a list at every element satisfying `p` (the separators are dropped; `n` separators give `n+1` pieces) -/
def splitOnP {α : Type} (p : α → Bool) : List α → List (List α)
  | [] => [[]]
  | a :: as =>
    if p a then [] :: splitOnP p as
    else match splitOnP p as with
      | [] => [[a]]
      | g :: gs => (a :: g) :: gs

/-- `strings.Fields`: maximal runs of non-space runes -/
def fieldsSpace (s : Bytes) : List Bytes :=
  ((splitOnP isSpaceRune (runes s)).filter (fun g => !g.isEmpty)).map List.flatten

/-- `strings.Split(s, sep)` for non-empty `sep`; `skip` = bytes of an already matched separator still to pass -/
def splitSepAux (sep : Bytes) : Bytes → Nat → List Bytes
  | [], _ => [[]]
  | _ :: rest, skip + 1 => splitSepAux sep rest skip
  | b :: rest, 0 =>
    if sep.isPrefixOf (b :: rest) then [] :: splitSepAux sep rest (sep.length - 1)
    else match splitSepAux sep rest 0 with
      | [] => [[b]]
      | g :: gs => (b :: g) :: gs

def splitSep (sep s : Bytes) : List Bytes := splitSepAux sep s 0

/-- `splitOnFieldSepRegex`: the pieces between the non-empty matches -/
def splitRegexAux (line : Bytes) : List (Nat × Nat) → Nat → List Bytes
  | [], prev => [line.drop prev]
  | (s, e) :: ms, prev =>
    if s = e then splitRegexAux line ms prev
    else (line.drop prev).take (s - prev) :: splitRegexAux line ms e

def splitRegex (ms : List (Nat × Nat)) (line : Bytes) : List Bytes := splitRegexAux line ms 0

def trimCR (f : Bytes) : Bytes := if f.getLast? = some 13 then f.dropLast else f

/-- the body of `ensureFields` for the default input mode: `fs`/`re` are the *saved* separator and regex -/
def split {ρ : Type} (M : ρ → Bytes → List (Nat × Nat)) (rsEmpty : Bool) (fs : Bytes) (re : Option ρ) (line : Bytes) :
    List Bytes :=
  let base : List Bytes :=
    if fs = [32] then fieldsSpace line
    else if line = [] then []
    else if runeCount fs ≤ 1 then (if fs = [] then runes line else splitSep fs line)
    else match re with
      | some r => splitRegex (M r line) line
      | none => []
  if rsEmpty && runeCount fs = 1 then
    base.flatMap (fun f => (splitSep [10] f).map trimCR)
  else base

/-! ## Joining (`joinFields`, `writeCSV` = `encoding/csv.Writer.Write` with an ASCII separator, `UseCRLF = false`) -/

def intercalate (sep : Bytes) : List Bytes → Bytes
  | [] => []
  | [x] => x
  | x :: y :: rest => x ++ sep ++ intercalate sep (y :: rest)

def csvNeedsQuotes (sep : UInt8) (f : Bytes) : Bool :=
  if f = [] then false
  else if f = [92, 46] then true
  else if f.any (fun c => c = 10 || c = 13 || c = 34 || c = sep) then true
  else isSpaceCp (decodeRune f).1

def csvField (sep : UInt8) (f : Bytes) : Bytes :=
  if csvNeedsQuotes sep f then [34] ++ f.flatMap (fun c => if c = 34 then [34, 34] else [c]) ++ [34] else f

def lenNewline (b : Bytes) : Nat :=
  match b.reverse with
  | 10 :: 13 :: _ => 2
  | 10 :: _ => 1
  | _ => 0

/-- `writeCSV` into a buffer, final newline stripped; a record of exactly one empty field is written as `""`
(repair "CSV output writes a record of one empty field as \"\" so it is read back as a record") -/
def csvJoin (sep : UInt8) (fields : List Bytes) : Bytes :=
  let out := (if fields = [[]] then [34, 34] else intercalate [sep] (fields.map (csvField sep))) ++ [10]
  out.take (out.length - lenNewline out)

/-! ## State -/

/-- the variables the record operations consult -/
structure Env (ρ : Type) where
  fs : Bytes               -- fieldSep
  fsRe : Option ρ          -- fieldSepRegex (only updated when FS has more than one rune)
  ofs : Bytes              -- outputFieldSep
  csv : Option UInt8       -- outputMode CSV/TSV with this (ASCII) separator; none = default mode
  rsEmpty : Bool           -- recordSep == "" (fixed during a history)

abbrev Fld := Bytes × Bool   -- field text, fieldsIsTrueStr

/-- the stored NF value: its string form and its numeric value -/
structure NFv where
  shown : Bytes
  val : Num
  deriving DecidableEq

def natToDecAux : Nat → Nat → Bytes → Bytes
  | 0, _, acc => acc
  | fuel + 1, n, acc =>
    let acc' := UInt8.ofNat (48 + n % 10) :: acc
    if n / 10 = 0 then acc' else natToDecAux fuel (n / 10) acc'

/-- decimal digits of `n` (what `strconv.Itoa` prints for a non-negative count) -/
def natToDec (n : Nat) : Bytes := natToDecAux (n + 1) n []

def NFv.count (n : Nat) : NFv := ⟨natToDec n, .rat (n : Int) 1⟩

structure Rec (ρ : Type) where
  line : Bytes
  lineTrue : Bool
  fields : List Fld
  haveFields : Bool
  numFields : NFv
  savedFs : Bytes
  savedRe : Option ρ
  env : Env ρ

/-- eager specification: always split; NF is `fields.length` -/
structure Spec (ρ : Type) where
  line : Bytes
  lineTrue : Bool
  fields : List Fld
  env : Env ρ

def joinFields {ρ : Type} (env : Env ρ) (fields : List Fld) : Bytes :=
  match env.csv with
  | some sep => csvJoin sep (fields.map Prod.fst)
  | none => intercalate env.ofs (fields.map Prod.fst)

/-- state of a fresh interpreter (`newInterp` + `resetCore`) -/
def Env.init {ρ : Type} (rsEmpty : Bool) : Env ρ := ⟨[32], none, [32], none, rsEmpty⟩
def Rec.init {ρ : Type} (rsEmpty : Bool) : Rec ρ := ⟨[], false, [], false, NFv.count 0, [32], none, Env.init rsEmpty⟩
def Spec.init {ρ : Type} (rsEmpty : Bool) : Spec ρ := ⟨[], false, [], Env.init rsEmpty⟩

/-! ## Operations -/

inductive NFArg where
  | num (x : Num)                 -- a value of NUMBER type
  | str (s : Bytes) (x : Num)     -- a string (or numeric string) `s` whose numeric value is `x`

def NFArg.val : NFArg → Num
  | .num x => x
  | .str _ x => x

inductive OutMode where
  | default
  | csv (sep : UInt8)
  | invalid

inductive Op (ρ : Type) where
  | setLine (s : Bytes) (isTrue : Bool)   -- `$0 = s` (isTrue) or a record read from input (not isTrue)
  | getField (i : Num)
  | setField (i : Num) (v : Bytes)
  | getNF
  | setNF (a : NFArg)
  | setFS (fs : Bytes) (re : Option ρ)    -- `re` = result of compiling `fs` (none: does not compile)
  | setOFS (s : Bytes)
  | setOutMode (m : OutMode)

inductive Err where
  | fieldTooLarge (i : Int)
  | nfNegative (n : Int)
  | nfTooLarge (n : Int)
  | badRegex
  | badOutMode
  deriving DecidableEq, Repr

inductive Out where
  | none
  | val (b : Bytes) (isTrue : Bool)
  | nf (v : NFv)
  | err (e : Err)
  deriving DecidableEq

/-- resize to `n` fields, new ones being `pad` -/
def resize (fields : List Fld) (n : Nat) (pad : Fld) : List Fld :=
  fields.take n ++ List.replicate (n - fields.length) pad

/-- resolve a non-zero index against `len` fields: `none` = before the first field -/
def resolveIdx (len : Nat) (i : Int) : Option Nat :=
  let j := if i < 1 then (len : Int) + 1 + i else i
  if j < 1 then none else some j.toNat

section
variable {ρ : Type} (M : ρ → Bytes → List (Nat × Nat))

def splitFlds (env : Env ρ) (fs : Bytes) (re : Option ρ) (line : Bytes) : List Fld :=
  (split M env.rsEmpty fs re line).map (fun b => (b, false))

/-- `ensureFields` -/
def ensure (r : Rec ρ) : Rec ρ :=
  if r.haveFields then r
  else
    let fl := splitFlds M r.env r.savedFs r.savedRe r.line
    { r with haveFields := true, fields := fl, numFields := NFv.count fl.length }

/-- `setLine` -/
def setLine (r : Rec ρ) (s : Bytes) (isTrue : Bool) : Rec ρ :=
  { r with line := s, lineTrue := isTrue, haveFields := false, savedFs := r.env.fs, savedRe := r.env.fsRe }

/-- `getField` -/
def getField (r : Rec ρ) (i : Int) : Rec ρ × Out :=
  if i = 0 then (r, .val r.line r.lineTrue)
  else
    let r := ensure M r
    match resolveIdx r.fields.length i with
    | none => (r, .val [] true)
    | some k =>
      match r.fields[k - 1]? with
      | some f => (r, .val f.1 f.2)
      | none => (r, .val [] true)

/-- `setField` -/
def setField (r : Rec ρ) (i : Int) (v : Bytes) : Rec ρ × Out :=
  if i = 0 then (setLine r v true, .none)
  else if i > maxFieldIndex then (r, .err (.fieldTooLarge i))
  else
    let r := ensure M r
    match resolveIdx r.fields.length i with
    | none => (r, .none)
    | some k =>
      let fl := (resize r.fields (max k r.fields.length) ([], true)).set (k - 1) (v, true)
      ({ r with fields := fl, numFields := NFv.count fl.length, line := joinFields r.env fl, lineTrue := true }, .none)

/-- what `setSpecial(V_NF)` stores: a number reads back as the count (repaired F08), a string verbatim -/
def nfStored (a : NFArg) (n : Nat) : NFv :=
  match a with
  | .num _ => NFv.count n
  | .str s x => ⟨s, x⟩

/-- `setSpecial(V_NF, v)` -/
def setNF (r : Rec ρ) (a : NFArg) : Rec ρ × Out :=
  let n := goInt a.val
  if n < 0 then (r, .err (.nfNegative n))
  else if n > maxFieldIndex then (r, .err (.nfTooLarge n))
  else
    let r := ensure M r
    let fl := resize r.fields n.toNat ([], false)
    ({ r with numFields := nfStored a n.toNat, fields := fl, line := joinFields r.env fl, lineTrue := true }, .none)

def setFSEnv (env : Env ρ) (fs : Bytes) (re : Option ρ) : Env ρ :=
  { env with fs := fs, fsRe := if runeCount fs > 1 then re else env.fsRe }

def fsFails (fs : Bytes) (re : Option ρ) : Bool := runeCount fs > 1 && re.isNone

def setModeEnv (env : Env ρ) : OutMode → Env ρ
  | .default => { env with csv := none }
  | .csv sep => { env with csv := some sep }
  | .invalid => { env with csv := none }   -- `parseOutputMode` failed: `p.outputMode` has already been overwritten with DefaultMode

def step (r : Rec ρ) : Op ρ → Rec ρ × Out
  | .setLine s t => (setLine r s t, .none)
  | .getField i => getField M r (floatToInt i)
  | .setField i v => setField M r (floatToInt i) v
  | .getNF => let r := ensure M r; (r, .nf r.numFields)
  | .setNF a => setNF M r a
  | .setFS fs re => if fsFails fs re then (r, .err .badRegex) else ({ r with env := setFSEnv r.env fs re }, .none)
  | .setOFS s => ({ r with env := { r.env with ofs := s } }, .none)
  | .setOutMode m =>
    match m with
    | .invalid => ({ r with env := setModeEnv r.env .invalid }, .err .badOutMode)
    | m => ({ r with env := setModeEnv r.env m }, .none)

/-- a program aborts at the first runtime error -/
def run (r : Rec ρ) : List (Op ρ) → List Out
  | [] => []
  | op :: ops =>
    let (r', o) := step M r op
    match o with
    | .err e => [.err e]
    | o => o :: run r' ops

/-! ### the eager specification -/

def specSetLine (s : Spec ρ) (v : Bytes) (isTrue : Bool) : Spec ρ :=
  { s with line := v, lineTrue := isTrue, fields := splitFlds M s.env s.env.fs s.env.fsRe v }

def specGetField (s : Spec ρ) (i : Int) : Out :=
  if i = 0 then .val s.line s.lineTrue
  else
    match resolveIdx s.fields.length i with
    | none => .val [] true
    | some k =>
      match s.fields[k - 1]? with
      | some f => .val f.1 f.2
      | none => .val [] true

def specSetField (s : Spec ρ) (i : Int) (v : Bytes) : Spec ρ × Out :=
  if i = 0 then (specSetLine M s v true, .none)
  else if i > maxFieldIndex then (s, .err (.fieldTooLarge i))
  else
    match resolveIdx s.fields.length i with
    | none => (s, .none)
    | some k =>
      let fl := (resize s.fields (max k s.fields.length) ([], true)).set (k - 1) (v, true)
      ({ s with fields := fl, line := joinFields s.env fl, lineTrue := true }, .none)

def specSetNF (s : Spec ρ) (a : NFArg) : Spec ρ × Out :=
  let n := goInt a.val
  if n < 0 then (s, .err (.nfNegative n))
  else if n > maxFieldIndex then (s, .err (.nfTooLarge n))
  else
    let fl := resize s.fields n.toNat ([], false)
    ({ s with fields := fl, line := joinFields s.env fl, lineTrue := true }, .none)

def specStep (s : Spec ρ) : Op ρ → Spec ρ × Out
  | .setLine v t => (specSetLine M s v t, .none)
  | .getField i => (s, specGetField s (floatToInt i))
  | .setField i v => specSetField M s (floatToInt i) v
  | .getNF => (s, .nf (NFv.count s.fields.length))
  | .setNF a => specSetNF s a
  | .setFS fs re => if fsFails fs re then (s, .err .badRegex) else ({ s with env := setFSEnv s.env fs re }, .none)
  | .setOFS v => ({ s with env := { s.env with ofs := v } }, .none)
  | .setOutMode m =>
    match m with
    | .invalid => ({ s with env := setModeEnv s.env .invalid }, .err .badOutMode)
    | m => ({ s with env := setModeEnv s.env m }, .none)

def specRun (s : Spec ρ) : List (Op ρ) → List Out
  | [] => []
  | op :: ops =>
    let (s', o) := specStep M s op
    match o with
    | .err e => [.err e]
    | o => o :: specRun s' ops

/-- the abstraction: force the lazy split with the separator saved at `setLine` -/
def abs (r : Rec ρ) : Spec ρ :=
  { line := r.line, lineTrue := r.lineTrue, env := r.env,
    fields := if r.haveFields then r.fields else splitFlds M r.env r.savedFs r.savedRe r.line }

end

end GoawkModel.C06
