import GoawkModel.Basic
/-!
Model of the `bufio.Scanner` contract as GoAWK uses it (`interp/io.go` `newScanner`, Go `bufio/scan.go` `Scan`):
a buffer of unconsumed bytes, an `eof` flag (the reader has reported EOF), the chunks the reader will still
deliver, and a split function. Exactly as in `Scan`:
* the split function is called only when the buffer is non-empty or EOF was seen, with `atEOF = eof`;
* a token is delivered and the buffer advanced; a nil token falls through to "done if EOF, else read once more";
* a split function that returns a token without advancing, or advances beyond the data, stops the scan
  (Go: `ErrAdvanceTooFar` / the too-many-empty-tokens panic) — no GoAWK splitter does, see `C07.WellFormed`.
Buffer growth/shifting is not modelled (it does not change `buf[start:end]`); `maxRecordLength` is not modelled.
-/
namespace GoawkModel.Scanner

inductive Decision where
  | more                                  -- (0, nil, nil): request more data
  | skip (n : Nat)                        -- (n, nil, nil): advance without a token
  | token (n : Nat) (rec rt : Bytes)      -- (n, token, nil); rt is what the splitter stores in RT
deriving Repr, DecidableEq

abbrev SplitFn := Bytes → Bool → Decision

/-- The records (with their RT) a program sees when the reader delivers `chunks` one Read at a time and then EOF. -/
def scan (f : SplitFn) (buf : Bytes) (chunks : List Bytes) (eof : Bool) : List (Bytes × Bytes) :=
  if buf ≠ [] ∨ eof = true then
    match f buf eof with
    | .token n r t =>
      if h : 0 < n ∧ n ≤ buf.length then (r, t) :: scan f (buf.drop n) chunks eof else []
    | .skip n =>
      if eof then [] else if n ≤ buf.length then
        match chunks with
        | [] => scan f (buf.drop n) [] true
        | c :: cs => scan f (buf.drop n ++ c) cs false
      else []
    | .more =>
      if eof then [] else
        match chunks with
        | [] => scan f buf [] true
        | c :: cs => scan f (buf ++ c) cs false
  else
    match chunks with
    | [] => scan f buf [] true
    | c :: cs => scan f (buf ++ c) cs false
termination_by (chunks.length + (if eof then 0 else 1), buf.length)
decreasing_by
  all_goals simp_wf
  · exact Prod.Lex.right _ (by omega)
  all_goals (apply Prod.Lex.left; simp_all)

end GoawkModel.Scanner
