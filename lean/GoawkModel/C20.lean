import GoawkModel.C04
/-! C20 — model of the expression printer of `internal/ast/ast.go` (`String()` methods with `parenthesize`) on tokens.

`showE` mirrors the `String()` methods: a child is parenthesised exactly when its `precedence()` is lower than its
parent's. `addShow` is the same thing as a tree transformation (`showE e = render (addShow e)` is a theorem), which is
what the parser reads back. Byte-level matters (blank insertion between unary operators, string/regex quoting) are in
`C20Quote` and in the harness oracle. -/
namespace GoawkModel.C20
open GoawkModel.C04

/-- `precedence()` of ast.go: the `prec*` constants, `precAssign = 0 … precGrouping = 16` -/
def bopPrec : BOp → Nat
  | .or => 2 | .and => 3 | .match_ => 5 | .notMatch => 5 | .cmp _ => 6 | .concat => 7
  | .add => 8 | .sub => 8 | .mul => 9 | .div => 9 | .mod => 9 | .pow => 11

def goPrec : Expr → Nat
  | .assign .. => 0
  | .cond .. => 1
  | .binary op _ _ => bopPrec op
  | .inArr .. => 4
  | .unary .. => 10
  | .incr pre _ _ => if pre then 12 else 13
  | .field _ => 14
  | .namedField _ => 14
  | .group _ => 16
  | _ => 15

def parenT (child parent : Expr) (s : List Tok) : List Tok :=
  if goPrec child < goPrec parent then .lparen :: s ++ [.rparen] else s

/-- `Expr.String()` as tokens -/
def showE : Expr → List Tok
  | .none => []
  | .num i => [.num i]
  | .var i => [.name i]
  | .str i => [.str i]
  | .group e => .lparen :: showE e ++ [.rparen]
  | .unary op v => uopTok op :: parenT v (.unary op v) (showE v)
  | .binary op l r => parenT l (.binary op l r) (showE l) ++ bopToks op ++ parenT r (.binary op l r) (showE r)
  | .cond c t f =>
    parenT c (.cond c t f) (showE c) ++ .question :: parenT t (.cond c t f) (showE t) ++ .colon :: parenT f (.cond c t f) (showE f)
  | .assign op l r => parenT l (.assign op l r) (showE l) ++ .asg op :: parenT r (.assign op l r) (showE r)
  | .inArr e a => parenT e (.inArr e a) (showE e) ++ [.in_, .name a]
  | .incr pre dec e =>
    if pre then (if dec then Tok.decr else Tok.incr) :: parenT e (.incr pre dec e) (showE e)
    else parenT e (.incr pre dec e) (showE e) ++ [if dec then Tok.decr else Tok.incr]
  | .field e => .dollar :: parenT e (.field e) (showE e)
  | .namedField e => .at :: parenT e (.namedField e) (showE e)
  | .index a i => .name a :: .lbracket :: showE i ++ [.rbracket]
  | .getline cmd target file =>
    (if cmd = .none then [] else parenT cmd (.getline cmd target file) (showE cmd) ++ [.pipe]) ++ .getline :: showE target ++
    (if file = .none then [] else .cmp .lt :: parenT file (.getline cmd target file) (showE file))

/-- wrap a printed child the way `parenthesize` does, on trees -/
def pg (parentPrec : Nat) (child shown : Expr) : Expr :=
  if goPrec child < parentPrec then .group shown else shown

/-- `pg` for the optional parts of a getline (absent stays absent) -/
def pgOpt (parentPrec : Nat) (child shown : Expr) : Expr :=
  if child = .none then .none else pg parentPrec child shown

/-- the tree the printed text denotes: `group` nodes where `parenthesize` writes parentheses -/
def addShow : Expr → Expr
  | .group e => .group (addShow e)
  | .unary op v => .unary op (pg 10 v (addShow v))
  | .binary op l r => .binary op (pg (bopPrec op) l (addShow l)) (pg (bopPrec op) r (addShow r))
  | .cond c t f => .cond (pg 1 c (addShow c)) (pg 1 t (addShow t)) (pg 1 f (addShow f))
  | .assign op l r => .assign op (pg 0 l (addShow l)) (pg 0 r (addShow r))
  | .inArr e a => .inArr (pg 4 e (addShow e)) a
  | .incr pre dec e => .incr pre dec (pg (if pre then 12 else 13) e (addShow e))
  | .field e => .field (pg 14 e (addShow e))
  | .namedField e => .namedField (pg 14 e (addShow e))
  | .index a i => .index a (addShow i)
  | .getline c t f => .getline (pgOpt 15 c (addShow c)) (addShow t) (pgOpt 15 f (addShow f))
  | e => e

end GoawkModel.C20
