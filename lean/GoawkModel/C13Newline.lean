import GoawkModel.Basic
import GoawkModel.C13
/-!
# C13 — the newline-output mode of `print` / `printf` (`interp/io.go` writeOutput, printLine, printArgs; `interp/vm.go` Printf)

Every piece a `print` statement produces is handed to `writeOutput` ON ITS OWN: `print a, b` makes the writes
`a`, `OFS`, `b`, `ORS`; a bare `print` makes `$0`, `ORS`; `printf` makes one write (the formatted string).
`writeOutput(w, s, crlf)` transforms its argument PER WRITE: when `crlf` is set (Config.NewlineOutput = CRLFNewlineMode, or
the smart mode on Windows) it first replaces every `"\r\n"` by `"\n"` (left to right, non-overlapping) and then every
`"\n"` by `"\r\n"`; otherwise the bytes go out unchanged. What a destination receives for a statement is the
concatenation of its transformed writes.
-/
namespace GoawkModel.C13

/-- `strings.ReplaceAll(s, "\r\n", "\n")` -/
def normCRLF : Bytes → Bytes
  | [] => []
  | [a] => [a]
  | a :: b :: r => if a = 13 ∧ b = 10 then 10 :: normCRLF r else a :: normCRLF (b :: r)

/-- `strings.ReplaceAll(s, "\n", "\r\n")` -/
def expandLF : Bytes → Bytes
  | [] => []
  | a :: r => if a = 10 then 13 :: 10 :: expandLF r else a :: expandLF r

/-- one call of `writeOutput`: the bytes that reach the writer -/
def xfWrite (crlf : Bool) (w : Bytes) : Bytes := if crlf then expandLF (normCRLF w) else w

/-- a sequence of `writeOutput` calls on one writer -/
def xfWrites (crlf : Bool) : List Bytes → Bytes
  | [] => []
  | w :: ws => xfWrite crlf w ++ xfWrites crlf ws

/-- the writes of a `print` statement with arguments (already converted to strings): args separated by OFS, then ORS -/
def printArgWrites (ofs ors : Bytes) : List Bytes → List Bytes
  | [] => [ors]
  | [a] => [a, ors]
  | a :: rest => a :: ofs :: printArgWrites ofs ors rest

/-- the writes of a `print` statement: without arguments `$0` then ORS -/
def printWrites (line ofs ors : Bytes) (args : List Bytes) : List Bytes :=
  if args.isEmpty then [line, ors] else printArgWrites ofs ors args

/-- what a destination receives for one `print` statement -/
def printBytes (crlf : Bool) (line ofs ors : Bytes) (args : List Bytes) : Bytes :=
  xfWrites crlf (printWrites line ofs ors args)

/-! ### statements: what the program says, lowered to the operations of the output model -/

/-- the interpreter state a `print` depends on -/
structure Fmt where
  crlf : Bool
  line : Bytes     -- `$0`
  ofs : Bytes
  ors : Bytes
deriving Repr

/-- initial state inside BEGIN: `$0 = ""`, `OFS = " "`, `ORS = "\n"` -/
def Fmt.init (crlf : Bool) : Fmt := { crlf, line := [], ofs := [32], ors := [10] }

inductive Stmt
  | setOFS (v : Bytes)
  | setORS (v : Bytes)
  | setRec (v : Bytes)
  | print (dest : Option (Redir × Name)) (args : List Bytes)   -- `print a, b [> n]`
  | printf (dest : Option (Redir × Name)) (s : Bytes)          -- `printf fmt, … [> n]`; s = the formatted string: ONE write
  | other (op : Op)
deriving Repr

def emit (dest : Option (Redir × Name)) (c : Bytes) : Op :=
  match dest with
  | none => .print c
  | some (r, n) => .printTo r n c

/-- statements to model operations: a print becomes the concatenation of its writes as the mode transforms each of them -/
def lower : Fmt → List Stmt → List Op
  | _, [] => []
  | f, .setOFS v :: rest => lower { f with ofs := v } rest
  | f, .setORS v :: rest => lower { f with ors := v } rest
  | f, .setRec v :: rest => lower { f with line := v } rest
  | f, .print d args :: rest => emit d (printBytes f.crlf f.line f.ofs f.ors args) :: lower f rest
  | f, .printf d s :: rest => emit d (xfWrite f.crlf s) :: lower f rest
  | f, .other op :: rest => op :: lower f rest

end GoawkModel.C13
