import GoawkModel.Basic
import GoawkModel.C13
/-!
# C13 — the newline-output mode of `print` / `printf` (`interp/io.go` writeOutput, printLine, printArgs; `interp/vm.go` Printf)

Every piece a `print` statement produces is handed to `writeOutput` ON ITS OWN: `print a, b` makes the writes
`a`, `OFS`, `b`, `ORS`; a bare `print` makes `$0`, `ORS`; `printf` makes one write (the formatted string).
`writeOutput(w, s, crlf)` transforms its argument PER WRITE: when `crlf` is set (Config.NewlineOutput = CRLFNewlineMode, or
the smart mode on Windows) it first replaces every `"\r\n"` by `"\n"` (left to right, non-overlapping) and then every
`"\n"` by `"\r\n"`; otherwise the bytes go out unchanged. What a destination receives for a statement is the
concatenation of its transformed writes.
-/
namespace GoawkModel.C13

/-- `strings.ReplaceAll(s, "\r\n", "\n")` -/
def normCRLF : Bytes → Bytes
  | [] => []
  | [a] => [a]
  | a :: b :: r => if a = 13 ∧ b = 10 then 10 :: normCRLF r else a :: normCRLF (b :: r)

/-- `strings.ReplaceAll(s, "\n", "\r\n")` -/
def expandLF : Bytes → Bytes
  | [] => []
  | a :: r => if a = 10 then 13 :: 10 :: expandLF r else a :: expandLF r

/-- one call of `writeOutput`: the bytes that reach the writer -/
def xfWrite (crlf : Bool) (w : Bytes) : Bytes := if crlf then expandLF (normCRLF w) else w

/-- a sequence of `writeOutput` calls on one writer -/
def xfWrites (crlf : Bool) : List Bytes → Bytes
  | [] => []
  | w :: ws => xfWrite crlf w ++ xfWrites crlf ws

/-- the writes of a `print` statement with arguments (already converted to strings): args separated by OFS, then ORS -/
def printArgWrites (ofs ors : Bytes) : List Bytes → List Bytes
  | [] => [ors]
  | [a] => [a, ors]
  | a :: rest => a :: ofs :: printArgWrites ofs ors rest

/-- the writes of a `print` statement: without arguments `$0` then ORS -/
def printWrites (line ofs ors : Bytes) (args : List Bytes) : List Bytes :=
  if args.isEmpty then [line, ors] else printArgWrites ofs ors args

/-- what a destination receives for one `print` statement -/
def printBytes (crlf : Bool) (line ofs ors : Bytes) (args : List Bytes) : Bytes :=
  xfWrites crlf (printWrites line ofs ors args)

/-! ### CSV / TSV output mode (`interp/io.go` printArgs, writeCSV; `encoding/csv` Writer.Write)

In OUTPUTMODE csv / tsv a `print` WITH arguments writes one record through `csv.Writer`: the fields joined by the separator and
ended by LF (CR LF when the newline mode is CRLF); a field is quoted when it contains the separator, a double quote, CR or LF,
starts with white space, or is `\.`; inside quotes `"` is doubled (CRLF mode: LF goes out as CR LF, CR is dropped); the record
of one empty field is `""`. The record goes to the writer as encoded (no `writeOutput`); OFS and ORS play no part; a bare `print`
and `printf` are not affected. -/

/-- does `p` occur in `s` (as a substring)? -/
def hasSub (p : Bytes) : Bytes → Bool
  | [] => p.isEmpty
  | c :: r => p.isPrefixOf (c :: r) || hasSub p r

/-- Unicode White_Space (what `unicode.IsSpace` accepts), as UTF-8 -/
def spaces : List Bytes :=
  [[9], [10], [11], [12], [13], [32], [0xC2, 0x85], [0xC2, 0xA0], [0xE1, 0x9A, 0x80],
   [0xE2, 0x80, 0x80], [0xE2, 0x80, 0x81], [0xE2, 0x80, 0x82], [0xE2, 0x80, 0x83], [0xE2, 0x80, 0x84], [0xE2, 0x80, 0x85],
   [0xE2, 0x80, 0x86], [0xE2, 0x80, 0x87], [0xE2, 0x80, 0x88], [0xE2, 0x80, 0x89], [0xE2, 0x80, 0x8A],
   [0xE2, 0x80, 0xA8], [0xE2, 0x80, 0xA9], [0xE2, 0x80, 0xAF], [0xE2, 0x81, 0x9F], [0xE3, 0x80, 0x80]]

/-- `fieldNeedsQuotes` -/
def csvNeedsQuotes (sep f : Bytes) : Bool :=
  if f.isEmpty then false
  else f == [92, 46] || hasSub sep f || f.any (fun c => c == 34 || c == 13 || c == 10) || spaces.any (fun p => p.isPrefixOf f)

/-- the inside of a quoted field -/
def csvQuoteBody (crlf : Bool) : Bytes → Bytes
  | [] => []
  | c :: r =>
    (if c = 34 then [34, 34] else if c = 13 then (if crlf then [] else [13]) else if c = 10 then (if crlf then [13, 10] else [10])
     else [c]) ++ csvQuoteBody crlf r

def csvField (sep : Bytes) (crlf : Bool) (f : Bytes) : Bytes :=
  if csvNeedsQuotes sep f then 34 :: (csvQuoteBody crlf f ++ [34]) else f

def csvJoin (sep : Bytes) : List Bytes → Bytes
  | [] => []
  | [a] => a
  | a :: b :: rest => a ++ sep ++ csvJoin sep (b :: rest)

def csvEol (crlf : Bool) : Bytes := if crlf then [13, 10] else [10]

/-- what `writeCSV` hands to the writer for one record -/
def csvRecord (sep : Bytes) (crlf : Bool) (fields : List Bytes) : Bytes :=
  if fields == [[]] then [34, 34] ++ csvEol crlf
  else csvJoin sep (fields.map (csvField sep crlf)) ++ csvEol crlf

/-! ### statements: what the program says, lowered to the operations of the output model -/

/-- the interpreter state a `print` depends on -/
structure Fmt where
  crlf : Bool
  line : Bytes     -- `$0`
  ofs : Bytes
  ors : Bytes
  csv : Option Bytes := none    -- OUTPUTMODE: `none` = default, `some sep` = csv / tsv with this separator (UTF-8)
deriving Repr

/-- initial state inside BEGIN: `$0 = ""`, `OFS = " "`, `ORS = "\n"`, default output mode -/
def Fmt.init (crlf : Bool) : Fmt := { crlf, line := [], ofs := [32], ors := [10] }

/-- what a destination receives for `print args` (args may be empty) in the state `f` -/
def printStmtBytes (f : Fmt) (args : List Bytes) : Bytes :=
  match f.csv with
  | some sep => if args.isEmpty then printBytes f.crlf f.line f.ofs f.ors args else csvRecord sep f.crlf args
  | none => printBytes f.crlf f.line f.ofs f.ors args

inductive Stmt
  | setOFS (v : Bytes)
  | setORS (v : Bytes)
  | setRec (v : Bytes)
  | setOM (sep : Option Bytes)                                 -- `OUTPUTMODE = …` (also: the mode the run starts in)
  | print (dest : Option (Redir × Name)) (args : List Bytes)   -- `print a, b [> n]`
  | printf (dest : Option (Redir × Name)) (s : Bytes)          -- `printf fmt, … [> n]`; s = the formatted string: ONE write
  | other (op : Op)
deriving Repr

def emit (dest : Option (Redir × Name)) (c : Bytes) : Op :=
  match dest with
  | none => .print c
  | some (r, n) => .printTo r n c

/-- statements to model operations: a print becomes the concatenation of its writes as the mode transforms each of them -/
def lower : Fmt → List Stmt → List Op
  | _, [] => []
  | f, .setOFS v :: rest => lower { f with ofs := v } rest
  | f, .setORS v :: rest => lower { f with ors := v } rest
  | f, .setRec v :: rest => lower { f with line := v } rest
  | f, .setOM m :: rest => lower { f with csv := m } rest
  | f, .print d args :: rest => emit d (printStmtBytes f args) :: lower f rest
  | f, .printf d s :: rest => emit d (xfWrite f.crlf s) :: lower f rest
  | f, .other op :: rest => op :: lower f rest

end GoawkModel.C13
