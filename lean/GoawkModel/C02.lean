import GoawkModel.Basic
import GoawkModel.Generated.Opcodes
import GoawkModel.Generated.Consts
import GoawkModel.Generated.C02Arity
/-!
C02 — running any accepted program never crashes the host.

Part 1: an abstract stack machine over the FULL opcode set at the level of *shape* (inline operands, jump targets, table indexes,
stack effect), a bytecode verifier `verify`, and the machine's `stuck` outcome = what is a Go panic (or a broken stack discipline)
in `interp/vm.go`: stack underflow, ip outside the block, an index outside a table, an unbalanced block exit.

Part 2: the partial functions on script-controlled numbers: `floatToInt` (value.go), `getField` / `setField` / NF and ARGC setters
(interp.go), with Go's slice-index panic modelled as `stuck`.

Opcode numbering is `Generated.Opcodes.opcodes` (the model dispatches on the *name* at that position); scope / token / special
numbering and the constants are `Generated.C02Arity` / `Generated.Consts`.
-/
namespace GoawkModel.C02
open GoawkModel.Generated

abbrev Code := List Int

structure FuncInfo where
  numScalars : Nat
  numArrays : Nat
  body : Code

/-- Sizes of the program's tables plus the function table (compiler.Program). -/
structure Tables where
  nNums : Nat
  nStrs : Nat
  nRegexes : Nat
  nScalars : Nat
  nArrays : Nat
  nNative : Nat
  funcs : List FuncInfo

/-- What a block may refer to: locals exist only inside a function body. -/
structure Ctx where
  inFunc : Bool
  nLocals : Nat
  nLocalArrays : Nat
deriving DecidableEq, Repr

def topCtx : Ctx := ⟨false, 0, 0⟩
def funcCtx (f : FuncInfo) : Ctx := ⟨true, f.numScalars, f.numArrays⟩

/-- A decoded instruction, reduced to what matters for stack / jump / index discipline. `len` includes the opcode word. -/
inductive Instr
  | simple (len pops pushes : Nat)                      -- falls through
  | jump (len pops : Nat) (cond : Bool) (target : Nat)  -- target is an absolute pc of the same block, ≤ block length
  | halt (pops : Nat)                                   -- Next, Nextfile, Exit, ExitStatus: the whole run ends
  | ret (pops : Nat)                                    -- Return, ReturnNull
  | brk                                                 -- BreakForIn
  | forIn (len bodyLen : Nat)                           -- body = the next bodyLen words, run as a nested block
  | call (len f : Nat)                                  -- CallUser
deriving Repr, DecidableEq

/-! ### shape table -/

/-- number of fixed inline operands per opcode name (CallUser has 2·nArrayArgs more) -/
def operandCount : String → Option Nat
  | "Nop" | "Dupe" | "Drop" | "Swap" | "Rote" | "Field" | "FieldByName" | "AssignField" | "AssignFieldSub"
  | "Add" | "Subtract" | "Multiply" | "Divide" | "Power" | "Modulo" | "Equals" | "NotEquals" | "Less" | "Greater"
  | "LessOrEqual" | "GreaterOrEqual" | "Concat" | "Match" | "NotMatch" | "Not" | "UnaryMinus" | "UnaryPlus" | "Boolean"
  | "Next" | "Nextfile" | "Exit" | "ExitStatus" | "BreakForIn" | "Return" | "ReturnNull" => some 0
  | "Num" | "Str" | "FieldInt" | "FieldByNameStr" | "Global" | "Local" | "Special" | "ArrayGlobal" | "ArrayLocal"
  | "InGlobal" | "InLocal" | "AssignGlobal" | "AssignLocal" | "AssignSpecial" | "AssignArrayGlobal" | "AssignArrayLocal"
  | "IncrField" | "AugAssignField" | "Regex" | "IndexMulti" | "ConcatMulti" | "Jump" | "JumpFalse" | "JumpTrue"
  | "JumpEquals" | "JumpNotEquals" | "JumpLess" | "JumpGreater" | "JumpLessOrEqual" | "JumpGreaterOrEqual"
  | "CallBuiltin" | "CallSprintf" | "Nulls" | "Getline" | "GetlineField" => some 1
  | "Delete" | "DeleteAll" | "IncrGlobal" | "IncrLocal" | "IncrSpecial" | "IncrArrayGlobal" | "IncrArrayLocal"
  | "AugAssignGlobal" | "AugAssignLocal" | "AugAssignSpecial" | "AugAssignArrayGlobal" | "AugAssignArrayLocal"
  | "CallLengthArray" | "CallSplit" | "CallUser" | "CallNative" | "Print" | "Printf"
  | "GetlineGlobal" | "GetlineLocal" | "GetlineSpecial" => some 2
  | "CallSplitSep" | "GetlineArray" => some 3
  | "ForIn" => some 5
  | _ => none

/-- (pops, pushes) of the opcodes whose stack effect does not depend on operands; pops = the height the helpers need -/
def fixedEffect : String → Option (Nat × Nat)
  | "Nop" => some (0, 0)
  | "Num" | "Str" | "FieldInt" | "FieldByNameStr" | "Global" | "Local" | "Special" | "Regex" | "CallLengthArray" => some (0, 1)
  | "Dupe" => some (1, 2)
  | "Drop" => some (1, 0)
  | "Swap" => some (2, 2)
  | "Rote" => some (3, 3)
  | "Field" | "FieldByName" | "ArrayGlobal" | "ArrayLocal" | "InGlobal" | "InLocal" | "Not" | "UnaryMinus" | "UnaryPlus"
  | "Boolean" | "CallSplit" => some (1, 1)
  | "AssignField" | "AssignArrayGlobal" | "AssignArrayLocal" | "AugAssignField" | "AugAssignArrayGlobal"
  | "AugAssignArrayLocal" => some (2, 0)
  | "AssignFieldSub" => some (3, 1)
  | "AssignGlobal" | "AssignLocal" | "AssignSpecial" | "Delete" | "IncrField" | "IncrArrayGlobal" | "IncrArrayLocal"
  | "AugAssignGlobal" | "AugAssignLocal" | "AugAssignSpecial" => some (1, 0)
  | "DeleteAll" | "IncrGlobal" | "IncrLocal" | "IncrSpecial" => some (0, 0)
  | "Add" | "Subtract" | "Multiply" | "Divide" | "Power" | "Modulo" | "Equals" | "NotEquals" | "Less" | "Greater"
  | "LessOrEqual" | "GreaterOrEqual" | "Concat" | "Match" | "NotMatch" | "CallSplitSep" => some (2, 1)
  | _ => none

/-- (pops, pushes) per builtin name -/
def builtinEffect : String → Option (Nat × Nat)
  | "BuiltinFflushAll" | "BuiltinLength" | "BuiltinRand" | "BuiltinSrand" => some (0, 1)
  | "BuiltinClose" | "BuiltinCos" | "BuiltinExp" | "BuiltinFflush" | "BuiltinInt" | "BuiltinLengthArg" | "BuiltinLog"
  | "BuiltinSin" | "BuiltinSqrt" | "BuiltinSrandSeed" | "BuiltinSystem" | "BuiltinTolower" | "BuiltinToupper" => some (1, 1)
  | "BuiltinAtan2" | "BuiltinIndex" | "BuiltinMatch" | "BuiltinSubstr" => some (2, 1)
  | "BuiltinGsub" | "BuiltinSub" => some (3, 2)
  | "BuiltinSubstrLength" => some (3, 1)
  | _ => none

def inRange (x : Int) (bound : Nat) : Bool := decide (0 ≤ x) && decide (x.toNat < bound)

def specialOK (x : Int) : Bool := decide (1 ≤ x) && decide (x.toNat ≤ C02Arity.numSpecials)

def arrayOK (t : Tables) (cx : Ctx) (scope idx : Int) : Bool :=
  if scope = C02Arity.scopeGlobal then inRange idx t.nArrays
  else if scope = C02Arity.scopeLocal then cx.inFunc && inRange idx cx.nLocalArrays
  else false

def varOK (t : Tables) (cx : Ctx) (scope idx : Int) : Bool :=
  if scope = C02Arity.scopeGlobal then inRange idx t.nScalars
  else if scope = C02Arity.scopeLocal then cx.inFunc && inRange idx cx.nLocals
  else if scope = C02Arity.scopeSpecial then specialOK idx
  else false

def outRedirect (r : Int) : Option Nat :=
  if r = C02Arity.tokILLEGAL then some 0
  else if r = C02Arity.tokGREATER || r = C02Arity.tokAPPEND || r = C02Arity.tokPIPE then some 1
  else none

def inRedirect (r : Int) : Option Nat :=
  if r = C02Arity.tokILLEGAL then some 0
  else if r = C02Arity.tokPIPE || r = C02Arity.tokLESS then some 1
  else none

/-- do all `(scope, index)` pairs name an existing array? -/
def arrayArgsOK (t : Tables) (cx : Ctx) : List Int → Bool
  | s :: i :: rest => arrayOK t cx s i && arrayArgsOK t cx rest
  | [] => true
  | [_] => false

/-- operand index checks of the fixed-effect opcodes -/
def indexOK (t : Tables) (cx : Ctx) (name : String) (a0 a1 : Int) : Bool :=
  match name with
  | "Num" => inRange a0 t.nNums
  | "Str" | "FieldByNameStr" => inRange a0 t.nStrs
  | "Regex" => inRange a0 t.nRegexes
  | "Global" | "AssignGlobal" => inRange a0 t.nScalars
  | "IncrGlobal" => inRange a1 t.nScalars
  | "AugAssignGlobal" => inRange a0 C02Arity.numAugOps && inRange a1 t.nScalars
  | "Local" | "AssignLocal" => cx.inFunc && inRange a0 cx.nLocals
  | "IncrLocal" => cx.inFunc && inRange a1 cx.nLocals
  | "AugAssignLocal" => inRange a0 C02Arity.numAugOps && cx.inFunc && inRange a1 cx.nLocals
  | "Special" | "AssignSpecial" => specialOK a0
  | "IncrSpecial" => specialOK a1
  | "AugAssignSpecial" => inRange a0 C02Arity.numAugOps && specialOK a1
  | "ArrayGlobal" | "InGlobal" | "AssignArrayGlobal" => inRange a0 t.nArrays
  | "IncrArrayGlobal" => inRange a1 t.nArrays
  | "AugAssignArrayGlobal" => inRange a0 C02Arity.numAugOps && inRange a1 t.nArrays
  | "ArrayLocal" | "InLocal" | "AssignArrayLocal" => cx.inFunc && inRange a0 cx.nLocalArrays
  | "IncrArrayLocal" => cx.inFunc && inRange a1 cx.nLocalArrays
  | "AugAssignArrayLocal" => inRange a0 C02Arity.numAugOps && cx.inFunc && inRange a1 cx.nLocalArrays
  | "AugAssignField" => inRange a0 C02Arity.numAugOps
  | "Delete" | "DeleteAll" | "CallLengthArray" | "CallSplit" | "CallSplitSep" => arrayOK t cx a0 a1
  | _ => true

/-- The instruction `name` with inline operands `a` (`n` of them) at `pc` of a block of `codeLen` words; `rest` = the words after
the fixed operands (CallUser's array arguments). `none` = a jump that leaves the block, an index outside its table, … -/
def decodeNamed (t : Tables) (cx : Ctx) (codeLen pc : Nat) (rest : List Int) (name : String) (n : Nat) (a : List Int) : Option Instr :=
  let a0 := a.getD 0 0
  let a1 := a.getD 1 0
  let len := 1 + n
  match fixedEffect name with
  | some (pops, pushes) => if indexOK t cx name a0 a1 then some (.simple len pops pushes) else none
  | none =>
    match name with
    | "IndexMulti" | "ConcatMulti" => if 0 ≤ a0 then some (.simple len a0.toNat 1) else none
    | "CallSprintf" => if 1 ≤ a0 then some (.simple len a0.toNat 1) else none
    | "Nulls" => if 0 ≤ a0 then some (.simple len 0 a0.toNat) else none
    | "CallNative" => if inRange a0 t.nNative && decide (0 ≤ a1) then some (.simple len a1.toNat 1) else none
    | "CallBuiltin" =>
      if a0 < 0 then none else
      match Opcodes.builtinOps[a0.toNat]? with
      | none => none
      | some b => match builtinEffect b with
        | none => none
        | some (pops, pushes) => some (.simple len pops pushes)
    | "Print" =>
      match outRedirect a1 with
      | none => none
      | some r => if 0 ≤ a0 then some (.simple len (a0.toNat + r) 0) else none
    | "Printf" =>
      match outRedirect a1 with
      | none => none
      | some r => if 1 ≤ a0 then some (.simple len (a0.toNat + r) 0) else none
    | "Getline" => (inRedirect a0).map fun r => .simple len r 1
    | "GetlineField" => (inRedirect a0).map fun r => .simple len (r + 1) 1
    | "GetlineGlobal" => if inRange a1 t.nScalars then (inRedirect a0).map fun r => .simple len r 1 else none
    | "GetlineLocal" => if cx.inFunc && inRange a1 cx.nLocals then (inRedirect a0).map fun r => .simple len r 1 else none
    | "GetlineSpecial" => if specialOK a1 then (inRedirect a0).map fun r => .simple len r 1 else none
    | "GetlineArray" => if arrayOK t cx a1 (a.getD 2 0) then (inRedirect a0).map fun r => .simple len (r + 1) 1 else none
    | "Jump" | "JumpFalse" | "JumpTrue" | "JumpEquals" | "JumpNotEquals" | "JumpLess" | "JumpGreater"
    | "JumpLessOrEqual" | "JumpGreaterOrEqual" =>
      let tgt : Int := (pc + len : Nat) + a0
      if 0 ≤ tgt && decide (tgt.toNat ≤ codeLen) then
        some (.jump len (if name = "Jump" then 0 else if name = "JumpFalse" || name = "JumpTrue" then 1 else 2)
          (name != "Jump") tgt.toNat)
      else none
    | "Next" | "Nextfile" | "Exit" => some (.halt 0)
    | "ExitStatus" => some (.halt 1)
    | "Return" => some (.ret 1)
    | "ReturnNull" => some (.ret 0)
    | "BreakForIn" => some .brk
    | "ForIn" =>
      let off := a.getD 4 0
      if varOK t cx a0 a1 && arrayOK t cx (a.getD 2 0) (a.getD 3 0) && decide (0 ≤ off)
          && decide (pc + len + off.toNat ≤ codeLen) then some (.forIn len off.toNat) else none
    | "CallUser" =>
      match t.funcs[a0.toNat]? with
      | none => none
      | some f =>
        if a0 < 0 || a1 < 0 then none else
        let k := a1.toNat
        if k > f.numArrays || pc + len + 2 * k > codeLen then none else
        if arrayArgsOK t cx (rest.take (2 * k)) then some (.call (len + 2 * k) a0.toNat) else none
    | _ => none

/-- Decode the instruction at `pc` of a block: `none` = undecodable (unknown opcode, operands run past the end of the block, a jump
that leaves the block, an index outside its table). -/
def decode (t : Tables) (cx : Ctx) (code : Code) (pc : Nat) : Option Instr :=
  match code[pc]? with
  | none => none
  | some opv =>
    if opv < 0 then none else
    match Opcodes.opcodes[opv.toNat]? with
    | none => none
    | some name =>
      match operandCount name with
      | none => none
      | some n =>
        if pc + 1 + n > code.length then none else
        decodeNamed t cx code.length pc (code.drop (pc + 1 + n)) name n ((code.drop (pc + 1)).take n)

/-! ### the abstract machine -/

inductive Kind
  | top
  | loop
  | func (nScalars : Nat)
deriving DecidableEq, Repr

/-- One activation of `(*interp).execute`: the block, the pc, the stack height relative to the height at entry. -/
structure Frame where
  code : Code
  cx : Ctx
  pc : Nat
  h : Nat
  kind : Kind
  endH : Nat   -- the height the caller expects when the block runs off its end (1 for a pattern, else 0)

abbrev State := List Frame   -- innermost activation first

inductive Res
  | next (s : State)
  | done       -- the run ended: block finished, next/nextfile/exit
  | error      -- a run-time error value is returned (*interp.Error): division by zero, call depth, …
  | stuck      -- what is a Go panic / a corrupted stack in the implementation

/-- nondeterministic outcome of data-dependent behaviour: `a` = fall through / enter or repeat the loop body,
`b` = jump taken / skip or leave the loop, `fail` = the instruction returns a run-time error -/
inductive Choice
  | a | b | fail
deriving DecidableEq, Repr

def isFunc (fr : Frame) : Bool := match fr.kind with | .func _ => true | _ => false
def callDepth (s : State) : Nat := (s.filter isFunc).length

/-- a function activation ends: the caller pops the scalar arguments and pushes the result -/
def popFunc (n : Nat) : State → Res
  | [] => .stuck
  | p :: rest => if p.h < n then .stuck else .next ({ p with h := p.h - n + 1 } :: rest)

/-- `return`: every enclosing for-in activation of the function is left, then the function activation itself; all of them must be at
their base height (else `popSlice(NumScalars)` in CallUser pops the wrong values) -/
def unwind : State → Res
  | [] => .stuck
  | fr :: rest =>
    if fr.h ≠ 0 then .stuck else
    match fr.kind with
    | .top => .stuck
    | .loop => unwind rest
    | .func n => popFunc n rest

def blockEnd (fr : Frame) (rest : State) (c : Choice) : Res :=
  if fr.h ≠ fr.endH then .stuck else
  match fr.kind with
  | .top => .done
  | .loop => if c = .a then .next ({ fr with pc := 0 } :: rest) else (if rest.isEmpty then .stuck else .next rest)
  | .func n => popFunc n rest

def exec (t : Tables) (fr : Frame) (rest : State) (c : Choice) : Instr → Res
  | .simple len pops pushes =>
    if fr.h < pops then .stuck else
    if c = .fail then .error else .next ({ fr with pc := fr.pc + len, h := fr.h - pops + pushes } :: rest)
  | .jump len pops cond target =>
    if fr.h < pops then .stuck else
    if cond && c = .a then .next ({ fr with pc := fr.pc + len, h := fr.h - pops } :: rest)
    else .next ({ fr with pc := target, h := fr.h - pops } :: rest)
  | .halt pops => if fr.h < pops then .stuck else .done
  | .ret pops => if fr.h < pops then .stuck else unwind ({ fr with h := fr.h - pops } :: rest)
  | .brk =>
    if fr.h ≠ 0 then .stuck else
    match fr.kind with
    | .loop => if rest.isEmpty then .stuck else .next rest
    | _ => .stuck
  | .forIn len bodyLen =>
    if fr.h ≠ 0 then .stuck else
    let after := { fr with pc := fr.pc + len + bodyLen }
    if c = .fail then .error else
    if c = .b then .next (after :: rest) else
    .next ({ code := (fr.code.drop (fr.pc + len)).take bodyLen, cx := fr.cx, pc := 0, h := 0, kind := .loop, endH := 0 }
            :: after :: rest)
  | .call len f =>
    match t.funcs[f]? with
    | none => .stuck
    | some fi =>
      if fr.h < fi.numScalars then .stuck else
      if callDepth (fr :: rest) ≥ Consts.maxCallDepth then .error else
      .next ({ code := fi.body, cx := funcCtx fi, pc := 0, h := 0, kind := .func fi.numScalars, endH := 0 }
              :: { fr with pc := fr.pc + len } :: rest)

def step (t : Tables) (s : State) (c : Choice) : Res :=
  match s with
  | [] => .stuck
  | fr :: rest =>
    if fr.pc = fr.code.length then blockEnd fr rest c else
    match decode t fr.cx fr.code fr.pc with
    | none => .stuck
    | some i => exec t fr rest c i

def run (t : Tables) : State → List Choice → Res
  | s, [] => .next s
  | s, c :: cs =>
    match step t s c with
    | .next s' => run t s' cs
    | r => r

def initState (code : Code) (endH : Nat) : State := [{ code := code, cx := topCtx, pc := 0, h := 0, kind := .top, endH := endH }]

/-! ### the verifier -/

abbrev Heights := List (Option Nat)   -- indexed by pc, 0 … length; `none` = not reachable

def hAt (H : Heights) (pc : Nat) : Option Nat := H.getD pc none

/-- the local condition at one pc; `sub` decides nested for-in bodies -/
def checkAt (t : Tables) (cx : Ctx) (inLoop : Bool) (code : Code) (H : Heights) (sub : Code → Bool) (pc : Nat) : Bool :=
  match hAt H pc with
  | none => true
  | some h =>
    match decode t cx code pc with
    | none => false
    | some (.simple len pops pushes) => decide (pops ≤ h) && (hAt H (pc + len) == some (h - pops + pushes))
    | some (.jump len pops cond target) =>
      decide (pops ≤ h) && (hAt H target == some (h - pops)) && (!cond || hAt H (pc + len) == some (h - pops))
    | some (.halt pops) => decide (pops ≤ h)
    | some (.ret pops) => cx.inFunc && decide (pops ≤ h) && decide (h - pops = 0)
    | some .brk => inLoop && decide (h = 0)
    | some (.forIn len bodyLen) =>
      decide (h = 0) && (hAt H (pc + len + bodyLen) == some 0) && sub ((code.drop (pc + len)).take bodyLen)
    | some (.call len f) =>
      match t.funcs[f]? with
      | none => false
      | some fi => decide (fi.numScalars ≤ h) && (hAt H (pc + len) == some (h - fi.numScalars + 1))

def instrLen : Instr → Nat
  | .simple len _ _ => len
  | .jump len _ _ _ => len
  | .halt _ => 1
  | .ret _ => 1
  | .brk => 1
  | .forIn len bodyLen => len + bodyLen
  | .call len _ => len

def setIfNone (H : Array (Option Nat)) (pc : Nat) (h : Nat) : Array (Option Nat) :=
  match H.getD pc none with
  | none => if pc < H.size then H.set! pc (some h) else H
  | some _ => H

/-- one forward pass of height inference over the instruction boundaries (untrusted: `checkAt` re-checks its result) -/
def inferPass (t : Tables) (cx : Ctx) (code : Code) : Nat → Nat → Array (Option Nat) → Array (Option Nat)
  | 0, _, H => H
  | fuel + 1, pc, H =>
    if pc ≥ code.length then H else
    match decode t cx code pc with
    | none => H
    | some i =>
      let H' := match H.getD pc none with
        | none => H
        | some h =>
          match i with
          | .simple len pops pushes => setIfNone H (pc + len) (h - pops + pushes)
          | .jump len pops cond target =>
            let H1 := setIfNone H target (h - pops)
            if cond then setIfNone H1 (pc + len) (h - pops) else H1
          | .forIn len bodyLen => setIfNone H (pc + len + bodyLen) h
          | .call len f => match t.funcs[f]? with
            | none => H
            | some fi => setIfNone H (pc + len) (h - fi.numScalars + 1)
          | _ => H
      inferPass t cx code fuel (pc + instrLen i) H'

def infer (t : Tables) (cx : Ctx) (code : Code) : Heights :=
  let H0 := (Array.replicate (code.length + 1) (none : Option Nat)).set! 0 (some 0)
  let n := code.length + 1
  let H1 := inferPass t cx code n 0 H0
  let H2 := inferPass t cx code n 0 H1
  (inferPass t cx code n 0 H2).toList

/-- the instruction boundaries of a block by linear scan (for-in bodies skipped: they are blocks of their own) -/
def boundaries (t : Tables) (cx : Ctx) (code : Code) : Nat → Nat → List Nat
  | 0, _ => []
  | fuel + 1, pc =>
    if pc ≥ code.length then [pc] else
    match decode t cx code pc with
    | none => [pc]
    | some i => pc :: boundaries t cx code fuel (pc + instrLen i)

/-- `H` is a consistent height assignment for the block and every nested for-in body is accepted by `sub` -/
def checkBlock (t : Tables) (cx : Ctx) (inLoop : Bool) (endH : Nat) (code : Code) (H : Heights) (sub : Code → Bool) : Bool :=
  decide (H.length = code.length + 1) && (hAt H 0 == some 0)
    && (hAt H code.length == none || hAt H code.length == some endH)
    && (List.range code.length).all (checkAt t cx inLoop code H sub)

/-- verify one block (fuel bounds the nesting depth of for-in bodies) -/
def verifyBlock (t : Tables) (cx : Ctx) : Nat → Bool → Nat → Code → Bool
  | 0, _, _, _ => false
  | fuel + 1, inLoop, endH, code =>
    let H := infer t cx code
    -- every height the inference assigned sits on an instruction boundary of the linear scan
    let bs := boundaries t cx code (code.length + 1) 0
    ((List.range (code.length + 1)).all fun pc => (hAt H pc).isNone || bs.contains pc)
      && checkBlock t cx inLoop endH code H (verifyBlock t cx fuel true 0)

/-- The emitted code of one program: table sizes + functions, and the top-level blocks with their expected end height
(BEGIN, END and action bodies 0, patterns 1). -/
structure Prog where
  tables : Tables
  blocks : List (Code × Nat)

def verifyTop (t : Tables) (b : Code × Nat) : Bool := verifyBlock t topCtx (b.1.length + 1) false b.2 b.1
def verifyFunc (t : Tables) (f : FuncInfo) : Bool := verifyBlock t (funcCtx f) (f.body.length + 1) false 0 f.body

def verify (p : Prog) : Bool :=
  p.blocks.all (verifyTop p.tables) && p.tables.funcs.all (verifyFunc p.tables)

/-! ### Part 2: numbers that reach field indexes, NF and ARGC -/

/-- an IEEE double as the interpreter sees it: NaN, ±Inf, or ±m·2^e -/
inductive Num
  | nan
  | inf (neg : Bool)
  | fin (neg : Bool) (m : Nat) (e : Int)
deriving Repr, DecidableEq

def maxInt : Int := 9223372036854775807
def minInt : Int := -9223372036854775808

/-- truncation toward zero of ±m·2^e -/
def Num.trunc (neg : Bool) (m : Nat) (e : Int) : Int :=
  let mag : Nat := if 0 ≤ e then m * 2 ^ e.toNat else m / 2 ^ (-e).toNat
  if neg then -(mag : Int) else mag

/-- Go's `int(f)` on amd64: values that do not fit (and NaN) give 0x8000000000000000 -/
def goInt : Num → Int
  | .nan => minInt
  | .inf _ => minInt
  | .fin neg m e => let v := Num.trunc neg m e; if v < minInt || v > maxInt then minInt else v

/-- `floatToInt` of interp/value.go: clamp first, then convert (`f >= math.MaxInt` compares with 2^63 as a float) -/
def floatToInt : Num → Int
  | .nan => minInt           -- both comparisons are false; int(NaN)
  | .inf neg => if neg then minInt else maxInt
  | .fin neg m e => let v := Num.trunc neg m e; if v > maxInt then maxInt else if v ≤ minInt then minInt else v

inductive FieldRes
  | line                      -- $0
  | empty                     -- the empty string
  | field (i : Nat)           -- fields[i] (0-based)
  | stuck                     -- slice index out of range
deriving Repr, DecidableEq

/-- `getField(index)` against a record with `n` split fields -/
def getField (n : Nat) (index : Int) : FieldRes :=
  if index = 0 then .line else
  let index := if index < 1 then (n : Int) + 1 + index else index
  if index < 1 then .empty else
  if index > n then .empty else
  if index.toNat - 1 < n then .field (index.toNat - 1) else .stuck

inductive SetRes
  | setLine
  | ok (nFields : Nat) (slot : Nat)   -- the record now has nFields fields; fields[slot] was assigned
  | ignored                            -- a negative index before the first field: silently ignored
  | error                              -- *interp.Error
  | stuck
deriving Repr, DecidableEq

/-- `setField(index, value)` against a record with `n` split fields -/
def setField (n : Nat) (index : Int) : SetRes :=
  if index = 0 then .setLine else
  if index > Consts.maxFieldIndex then .error else
  let index := if index < 1 then (n : Int) + 1 + index else index
  if index < 1 then .ignored else
  let n' := if n < index.toNat then index.toNat else n   -- the append loop
  if index.toNat - 1 < n' then .ok n' (index.toNat - 1) else .stuck

/-- `setSpecial(V_NF, v)`: the new number of fields or an error -/
def setNF (v : Num) : Option Nat :=
  let k := goInt v
  if k < 0 then none else if k > Consts.maxFieldIndex then none else some k.toNat

/-- `setSpecial(V_ARGC, v)`: accepted or an error -/
def setARGC (v : Num) : Bool := !(goInt v > Consts.maxFieldIndex)

/-- decode IEEE-754 binary64 bits -/
def Num.ofBits (b : Nat) : Num :=
  let neg := b / 2 ^ 63 % 2 = 1
  let ex : Nat := b / 2 ^ 52 % 2 ^ 11
  let fr : Nat := b % 2 ^ 52
  if ex = 2047 then (if fr = 0 then .inf neg else .nan)
  else if ex = 0 then .fin neg fr (-1074)
  else .fin neg (fr + 2 ^ 52) ((ex : Int) - 1075)

end GoawkModel.C02
