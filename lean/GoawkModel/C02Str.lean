import GoawkModel.Basic
import GoawkModel.C02
/-!
C02, part 3 — `substr()` in byte mode and in character mode (`Config.Chars` / `-c`): the clamping arithmetic of
`BuiltinSubstr` / `BuiltinSubstrLength` (interp/vm.go), the two counting loops of `substrChars` / `substrLengthChars`
(interp/functions.go: Go's `for i = range s`, which steps by the width `utf8.DecodeRuneInString` reports — 1 for every byte that
does not start a well-formed sequence) and the final slice expression `s[lo:hi]`, whose run-time check
`0 ≤ lo ≤ hi ≤ len(s)` is the Go panic "slice bounds out of range" = `stuck` here.

Strings are arbitrary bytes (no UTF-8 assumption); positions and lengths are arbitrary integers (what `floatToInt` returns for
NaN, ±Inf, huge and negative doubles included).
-/
namespace GoawkModel.C02

def isCont (b : UInt8) : Bool := 0x80 ≤ b && b ≤ 0xBF

/-- the width `utf8.DecodeRuneInString` reports at the head of a string: 0 for the empty string, 1 for ASCII and for every byte
that does not start a well-formed, shortest-form, non-surrogate, in-range sequence, else 2, 3 or 4 -/
def runeWidth : Bytes → Nat
  | [] => 0
  | b0 :: rest =>
    if b0 < 0x80 then 1
    else if 0xC2 ≤ b0 && b0 ≤ 0xDF then
      match rest with
      | b1 :: _ => if isCont b1 then 2 else 1
      | [] => 1
    else if 0xE0 ≤ b0 && b0 ≤ 0xEF then
      match rest with
      | b1 :: b2 :: _ =>
        let lo : UInt8 := if b0 = 0xE0 then 0xA0 else 0x80
        let hi : UInt8 := if b0 = 0xED then 0x9F else 0xBF
        if lo ≤ b1 && b1 ≤ hi && isCont b2 then 3 else 1
      | _ => 1
    else if 0xF0 ≤ b0 && b0 ≤ 0xF4 then
      match rest with
      | b1 :: b2 :: b3 :: _ =>
        let lo : UInt8 := if b0 = 0xF0 then 0x90 else 0x80
        let hi : UInt8 := if b0 = 0xF4 then 0x8F else 0xBF
        if lo ≤ b1 && b1 ≤ hi && isCont b2 && isCont b3 then 4 else 1
      | _ => 1
    else 1

/-- the byte offsets `for i = range s` visits, `off` = offset of the head of `s` in the whole string -/
def runeStartsAux : Nat → Nat → Bytes → List Nat
  | 0, _, _ => []
  | _, _, [] => []
  | fuel + 1, off, b :: rest =>
    off :: runeStartsAux fuel (off + runeWidth (b :: rest)) ((b :: rest).drop (runeWidth (b :: rest)))

def runeStarts (s : Bytes) : List Nat := runeStartsAux s.length 0 s

/-- `for start = range s { chars++; if chars > limit { break } }` over the offsets still to visit: (start, chars) afterwards -/
def rangeLoop (limit : Int) : List Nat → Nat → Int → Nat × Int
  | [], start, chars => (start, chars)
  | i :: is, _, chars => if chars + 1 > limit then (i, chars + 1) else rangeLoop limit is i (chars + 1)

inductive SliceRes
  | ok (b : Bytes)
  | stuck          -- panic: slice bounds out of range
deriving Repr, DecidableEq

/-- the slice expression `s[lo:hi]` with Go's run-time check -/
def slice (s : Bytes) (lo hi : Int) : SliceRes :=
  if 0 ≤ lo ∧ lo ≤ hi ∧ hi ≤ (s.length : Int) then .ok ((s.drop lo.toNat).take (hi.toNat - lo.toNat)) else .stuck

/-- `BuiltinSubstr`, byte mode -/
def substrBytes (s : Bytes) (pos : Int) : SliceRes :=
  let n : Int := s.length
  let pos := if pos > n then n + 1 else pos
  let pos := if pos < 1 then 1 else pos
  let length := n - pos + 1
  slice s (pos - 1) (pos - 1 + length)

/-- `BuiltinSubstrLength`, byte mode -/
def substrLengthBytes (s : Bytes) (pos length : Int) : SliceRes :=
  let n : Int := s.length
  let pos := if pos > n then n + 1 else pos
  let pos := if pos < 1 then 1 else pos
  let maxLength := n - pos + 1
  let length := if length < 0 then 0 else length
  let length := if length > maxLength then maxLength else length
  slice s (pos - 1) (pos - 1 + length)

/-- where the first counting loop of `substrChars` / `substrLengthChars` leaves `start` -/
def charStart (s : Bytes) (pos : Int) : Nat :=
  let r := rangeLoop pos (runeStarts s) 0 1
  if pos ≥ r.2 then s.length else r.1

/-- `substrChars` -/
def substrChars (s : Bytes) (pos : Int) : SliceRes :=
  slice s (charStart s pos) s.length

/-- `substrLengthChars`: the second loop runs over `s[start:]` (itself a slice expression) -/
def substrLengthChars (s : Bytes) (pos length : Int) : SliceRes :=
  let start := charStart s pos
  if start > s.length then .stuck else
  let r := rangeLoop length (runeStarts (s.drop start)) 0 0
  let e : Nat := if length ≥ r.2 then s.length else r.1 + start
  slice s start e

/-- `substr(s, x)` / `substr(s, x, y)` as the VM runs it: the doubles go through `floatToInt` first -/
def substr (chars : Bool) (s : Bytes) (x : Num) (y : Option Num) : SliceRes :=
  match chars, y with
  | false, none => substrBytes s (floatToInt x)
  | false, some y => substrLengthBytes s (floatToInt x) (floatToInt y)
  | true, none => substrChars s (floatToInt x)
  | true, some y => substrLengthChars s (floatToInt x) (floatToInt y)

end GoawkModel.C02
