import GoawkModel.C05
/-!
# C05 — stores that may not happen (`interp/vm.go`: the getline opcodes, `AssignFieldSub`, `BuiltinSub`/`BuiltinGsub`,
`ForIn`; `interp/functions.go`: `split`)

What comparisons and truth tests see in a variable is what the last store that HAPPENED left there. Each operation below
stores only under a condition; the model gives the value of the target after the operation as a function of the status
the operation returned and of the value the target had before.
-/
namespace GoawkModel.C05
open GoawkModel

/-- `getline t` for a variable, function local, special variable or array element
(`GetlineGlobal` / `GetlineLocal` / `GetlineSpecial` / `GetlineArray`): `if ret == 1 { t = numStr(line) }`.
`ret` is 1 (a record was read), 0 (end of input) or -1 (error). -/
def getlineStore (ret : Int) (line : Bytes) (old : Val) : Val :=
  if ret = 1 then .numstr line else old

/-- `sub`/`gsub` with a variable or array element as target: the builtin pushes the original value `in` when it made
no substitution and `str(out)` otherwise; the compiled code stores what was pushed -/
def subStore (n : Nat) (out : Bytes) (old : Val) : Val :=
  if n = 0 then old else .str out

/-- `sub`/`gsub` on a field (`AssignFieldSub`): `if n > 0 { setField(index, out) }`; the flag is the field's
"assigned by the program" flag of `GoawkModel.C05Rec` (`true` = string) -/
def subStoreField (n : Nat) (out : Bytes) (old : Bytes × Bool) : Bytes × Bool :=
  if n > 0 then (out, true) else old

/-- `for (t in a)`: the loop variable is assigned `str(key)` once per key and nowhere else; `keys` is the iteration
order, whatever it is -/
def forInStore (keys : List Bytes) (old : Val) : Val :=
  keys.foldl (fun _ k => Val.str k) old

/-- `split(s, a, …)` replaces the array by a fresh one holding `numStr(part)` under `i+1`; reading element `k+1`
afterwards (a missing element reads as the unset value) -/
def splitElem (parts : List Bytes) (k : Nat) : Val :=
  match parts[k]? with
  | some p => .numstr p
  | none => .null

end GoawkModel.C05
