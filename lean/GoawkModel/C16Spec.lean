import GoawkModel.C16
/-! Specification side of C16: the usage constraints of a program and what it means for a total scalar/array typing to
satisfy them. "Some variable would have to be both a scalar and an array" is `¬ Consistent p`. -/
namespace GoawkModel.C16

/-- a total assignment of types to (scope, variable) pairs; scope 0 = globals -/
abbrev Typing := Name → Name → Ty

/-- the type a reference to `v` inside `fn` has under `σ` (special variables are scalars) -/
def tyOf (p : Program) (σ : Typing) (fn v : Name) : Ty :=
  match refOf p fn v with
  | .loc => σ fn v
  | .special => .scalar
  | .glob => σ 0 v

/-- the usage constraint one visited node imposes -/
def EventSat (p : Program) (σ : Typing) (fn : Name) : Event → Prop
  | .use v t => t = .unknown ∨ tyOf p σ fn v = t
  | .call _ _ => True
  | .exprArg f i => σ f (p.param f i) = .scalar
  | .varArg f i v => tyOf p σ fn v = σ f (p.param f i)

structure Sat (p : Program) (σ : Typing) : Prop where
  total : ∀ fn v, σ fn v ≠ .unknown
  builtins : ∀ b ∈ p.builtins, σ 0 b = .array
  funcs : ∀ f ∈ p.funcs, ∀ e ∈ f.body, EventSat p σ f.name e
  main : ∀ e ∈ p.main, EventSat p σ 0 e

/-- a consistent scalar/array typing exists -/
def Consistent (p : Program) : Prop := ∃ σ, Sat p σ

/-- arguments are passed to defined AWK functions, no more than they have parameters -/
def ArgOK (p : Program) : Event → Prop
  | .exprArg f i => f ≠ 0 ∧ i < (p.paramsOf f).length
  | .varArg f i _ => f ≠ 0 ∧ i < (p.paramsOf f).length
  | _ => True

/-- the programs the property speaks about (see the header of `GoawkModel.C16`) -/
structure WF (p : Program) : Prop where
  mainArgs : ∀ e ∈ p.main, ArgOK p e
  funcArgs : ∀ f ∈ p.funcs, ∀ e ∈ f.body, ArgOK p e
  builtinsGlobal : ∀ b ∈ p.builtins, b ∉ p.specials
  names : ∀ f ∈ p.funcs, f.name ≠ 0 ∧ p.findFunc f.name = some f

/-- the order walks every function (Go: topological order plus the functions never called) -/
def Covers (order : List Name) (p : Program) : Prop := ∀ f ∈ p.funcs, f.name ∈ order

/-- `v` is referred to as a global somewhere (or is one of ARGV, ENVIRON, FIELDS) -/
def GlobMention (p : Program) (v : Name) : Prop :=
  v ∈ p.builtins ∨ (∃ e ∈ p.main, v ∈ eventNames e ∧ refOf p 0 v = .glob) ∨
    ∃ f ∈ p.funcs, ∃ e ∈ f.body, v ∈ eventNames e ∧ refOf p f.name v = .glob

end GoawkModel.C16
