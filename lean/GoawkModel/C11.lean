import GoawkModel.Basic
/-!
# C11 model — the main-loop machine of `interp/interp.go` (`executeAll`, `execActions`), `interp/io.go` `nextLine`
and the getline / next / nextfile / exit opcodes of `interp/vm.go`.

World: ARGV/ARGC (as the program may edit them), a file-system oracle `name ↦ record list`, the records of stdin.
Programs: a tiny rule language — rules with patterns (always | predicate | range) whose bodies are lists of abstract
operations (emit, next, nextfile, exit, the getline forms, nested calls / loops / conditionals, ARGV/ARGC edits).
Records are abstract byte strings (record *splitting* is C07's business).

Ghost fields (never read by the machine, only written): `iters`, `gl`, `glv` count the records taken by the main loop,
by plain `getline` and by `getline var` — at the *call sites*, while `nr`/`fnr` are incremented inside `nextLine` as in
the Go code; `consumed` logs every ARGV operand fetched; `takes` logs every record taken from the main input; `edited` records whether
the program has assigned ARGV / ARGC / FILENAME or executed nextfile; `walkEdited` the same without FILENAME (only what can
change the operand walk).

Two special variables can be written by everybody: a `FILENAME=x` / `FS=x` operand (or `-v`, i.e. the initial state) through
`setVarByName`, the program through `Op.setFilename` / `Op.setFs`.
* Nothing in the operand walk READS `filename`: whether stdin is the default input is decided by `hadFiles`, which only
  `setFile` sets.
* `fsep` is the current FS; `recFs` is the FS saved when `$0` was last set (`savedFieldSep` in `setLine`): NF of the current
  record is computed from `recFs`, so an assignment to FS — by the program, or by an operand reached while looking for the
  next record or for the end of the input — changes the splitting of the records read afterwards and of none read before.
-/
namespace GoawkModel.C11

abbrev Rec := Bytes

/-! ## operand classification (`varRegex` = `^([_a-zA-Z][_a-zA-Z0-9]*)=(.*)`, then `""`, `"-"`, file name) -/

def isNameStart (c : UInt8) : Bool := c == 95 || (65 ≤ c && c ≤ 90) || (97 ≤ c && c ≤ 122)
def isNameChar (c : UInt8) : Bool := isNameStart c || (48 ≤ c && c ≤ 57)

def splitAssign (o : Bytes) : Option (Bytes × Bytes) :=
  match o with
  | [] => none
  | c :: _ =>
    if !isNameStart c then none else
    match o.dropWhile isNameChar with
    | 61 :: val => some (o.takeWhile isNameChar, val)
    | _ => none

inductive Operand
  | assign (name val : Bytes)
  | empty
  | dash
  | file (name : Bytes)
  deriving Repr, DecidableEq

def classify (o : Bytes) : Operand :=
  match splitAssign o with
  | some (n, v) => .assign n v
  | none => if o = [] then .empty else if o = [45] then .dash else .file o

/-! ## state -/

/-- what a pattern may look at -/
structure View where
  line : Bytes
  nr : Nat
  fnr : Nat
  filename : Bytes
  vars : List Bytes

/-- default-FS field count (runs of non-blank bytes; blank = space, tab, newline) -/
def isBlank (c : UInt8) : Bool := c == 32 || c == 9 || c == 10

def nfAux : Bytes → Bool → Nat
  | [], _ => 0
  | c :: cs, inWord =>
    if isBlank c then nfAux cs false
    else if inWord then nfAux cs true else 1 + nfAux cs true

def nfOf (l : Bytes) : Nat := nfAux l false

def countByte (c : UInt8) : Bytes → Nat
  | [] => 0
  | x :: xs => (if x = c then 1 else 0) + countByte c xs

/-- field count under a given FS (`ensureFields`): `" "` = the default splitting; a single other byte splits at every
occurrence, the empty record having no fields (multi-byte FS = regex splitting is not modelled) -/
def nfWith (fs line : Bytes) : Nat :=
  if fs = [32] then nfOf line else
  match fs with
  | [c] => if line = [] then 0 else countByte c line + 1
  | _ => nfOf line

inductive Event
  /-- `emit tag`: NR FNR FILENAME $0 NF vars; `ghost` = iters+gl+glv at that moment -/
  | emit (tag nr fnr : Nat) (filename line : Bytes) (nf : Nat) (vars : List Bytes) (ghost : Nat)
  /-- return value (1, 0, -1) of a getline; form 0 = `getline`, 1 = `getline var`, 2 = `getline < f`, 3 = `getline var < f` -/
  | gl (form : Nat) (ret : Int)
  /-- a rule without action printed `$0` -/
  | print (line : Bytes)
  /-- marker left by a control statement: 1 = next, 2 = nextfile, 3 = exit (with its value, if any) -/
  | ctl (kind : Nat) (arg : Option Nat)
  deriving Repr, DecidableEq

/-- one record taken from the main input: the record, NR/FNR/FILENAME right after it was taken, and whether it came from stdin -/
structure TakeInfo where
  record : Rec
  nr : Nat
  fnr : Nat
  filename : Bytes
  fromStdin : Bool
  deriving Repr, DecidableEq

/-- ghost: one entry of the unified input log — an ARGV operand was fetched, or a record was delivered -/
inductive LogEntry
  | op (o : Bytes)
  | record (filename : Bytes) (fnr : Nat) (r : Rec)
  deriving Repr, DecidableEq

/-- ghost: one evaluation of a range rule — its position, the values of its two patterns, the decision taken -/
structure Visit where
  rule : Nat
  b : Bool
  e : Bool
  matched : Bool
  deriving Repr, DecidableEq

structure St where
  -- world
  fs : List (Bytes × List Rec)
  stdin : List Rec
  argv : List Bytes
  argc : Nat
  varNames : List Bytes
  -- input position (`filenameIndex`, `hadFiles`, `scanner`)
  idx : Nat := 1
  hadFiles : Bool := false
  cur : Option (List Rec) := none
  onStdin : Bool := false
  streams : List (Bytes × List Rec) := []
  -- AWK-visible
  nr : Nat := 0
  fnr : Nat := 0
  filename : Bytes := []
  line : Bytes := []
  vars : List Bytes := []
  status : Nat := 0
  out : List Event := []        -- newest first
  -- ghost
  iters : Nat := 0
  gl : Nat := 0
  glv : Nat := 0
  consumed : List Bytes := []   -- newest first
  takes : List TakeInfo := []   -- newest first
  edited : Bool := false        -- the program has assigned ARGV / ARGC or executed nextfile
  walkEdited : Bool := false    -- the program has assigned ARGV / ARGC or executed nextfile
  -- field splitting: FS now, and FS as it was when `$0` was last set (`savedFieldSep`)
  fsep : Bytes := [32]
  recFs : Bytes := [32]
  visits : List Visit := []     -- newest first
  ilog : List LogEntry := []    -- newest first: operand fetches and record deliveries in one sequence
  -- `callDepth`: the number of user-function calls in progress
  depth : Nat := 0

def St.view (s : St) : View := ⟨s.line, s.nr, s.fnr, s.filename, s.vars⟩

def lookup (k : Bytes) : List (Bytes × List Rec) → Option (List Rec)
  | [] => none
  | (k', v) :: rest => if k' = k then some v else lookup k rest

def setAssoc (k : Bytes) (v : List Rec) : List (Bytes × List Rec) → List (Bytes × List Rec)
  | [] => [(k, v)]
  | (k', v') :: rest => if k' = k then (k, v) :: rest else (k', v') :: setAssoc k v rest

def indexOf (k : Bytes) : List Bytes → Nat → Option Nat
  | [], _ => none
  | x :: xs, i => if x = k then some i else indexOf k xs (i + 1)

/-- `list[i] := v`, padding with empty strings (an AWK array assignment creates the element) -/
def setPad : List Bytes → Nat → Bytes → List Bytes
  | [], 0, v => [v]
  | [], i + 1, v => [] :: setPad [] i v
  | _ :: xs, 0, v => v :: xs
  | x :: xs, i + 1, v => x :: setPad xs i v

/-! ## primitive state transformers (everything the machine does to the state goes through these) -/

/-- `setFile` -/
def St.setFile (s : St) (name : Bytes) (stdin : Bool) (rs : List Rec) : St :=
  { s with filename := name, fnr := 0, hadFiles := true, cur := some rs, onStdin := stdin }

/-- the bytes of `FILENAME` -/
def fileNameVar : Bytes := [70, 73, 76, 69, 78, 65, 77, 69]

/-- the bytes of `FS` -/
def fsVar : Bytes := [70, 83]

/-- `setVarByName`: the special variables FILENAME and FS (`setSpecial` stores the value and nothing else), else the
program's global scalars (unknown names are ignored, as in the Go code) -/
def St.setVarByName (s : St) (name val : Bytes) : St :=
  if name = fileNameVar then { s with filename := val } else
  if name = fsVar then { s with fsep := val } else
  match indexOf name s.varNames 0 with
  | some i => { s with vars := setPad s.vars i val }
  | none => s

/-- the program assigns FILENAME (`setSpecial(V_FILENAME)`): the value is stored; `hadFiles` and the operand cursor are not
touched -/
def St.assignFilename (s : St) (v : Bytes) : St := { s with filename := v, edited := true }

/-- the program assigns FS (`setSpecial(V_FS)`): the current record keeps the FS it was read with -/
def St.assignFs (s : St) (v : Bytes) : St := { s with fsep := v }

def St.setVar (s : St) (i : Nat) (val : Bytes) : St := { s with vars := setPad s.vars i val }

/-- the tail of `nextLine`: a record was scanned -/
def St.took (s : St) (r : Rec) (rest : List Rec) : St :=
  { s with cur := some rest, nr := s.nr + 1, fnr := s.fnr + 1,
           takes := ⟨r, s.nr + 1, s.fnr + 1, s.filename, s.onStdin⟩ :: s.takes,
           ilog := .record s.filename (s.fnr + 1) r :: s.ilog }

def St.fetch (s : St) : Bytes × St :=
  let o := s.argv.getD s.idx []
  (o, { s with idx := s.idx + 1, consumed := o :: s.consumed, ilog := .op o :: s.ilog })

def St.setLine (s : St) (l : Bytes) : St := { s with line := l, recFs := s.fsep }

def St.emitEv (s : St) (e : Event) : St := { s with out := e :: s.out }

/-- the main loop took record `r`: count it (ghost) and make it `$0` -/
def St.beginRecord (s : St) (r : Rec) : St := { s with iters := s.iters + 1, line := r, recFs := s.fsep }

/-- `p.scanner = nil` (nextfile) -/
def St.dropScanner (s : St) : St := { s with cur := none, edited := true, walkEdited := true }

def St.setStatus (s : St) (n : Nat) : St := { s with status := n }
def St.setArgv (s : St) (i : Nat) (v : Bytes) : St := { s with argv := setPad s.argv i v, edited := true, walkEdited := true }
def St.setArgc (s : St) (n : Nat) : St := { s with argc := n, edited := true, walkEdited := true }

/-- `maxCallDepth` of `interp/interp.go` -/
def maxCallDepth : Nat := 1000

/-- `p.callDepth++` / `p.callDepth--` around the body of a user function (CallUser) — the decrement happens on every way
out of the body, also when it is left by next / nextfile / exit -/
def St.enterCall (s : St) : St := { s with depth := s.depth + 1 }
def St.leaveCall (s : St) : St := { s with depth := s.depth - 1 }

def eraseAssoc (k : Bytes) : List (Bytes × List Rec) → List (Bytes × List Rec)
  | [] => []
  | (k', v) :: rest => if k' = k then rest else (k', v) :: eraseAssoc k rest

/-- `close(file)`: forget the getline stream of that name (the next `getline < file` reopens it from the start) -/
def St.closeStream (s : St) (f : Bytes) : St := { s with streams := eraseAssoc f s.streams }

inductive Take
  | got (r : Rec)
  | eof
  | err
  deriving Repr, DecidableEq

/-- the operand walk of `nextLine`, entered with `scanner == nil`; `n` is `ARGC - filenameIndex` -/
def openWalk : Nat → St → Take × St
  | 0, s =>
    if s.hadFiles then (.eof, s)
    else
      let s1 := { s.setFile [45] true s.stdin with stdin := [] }
      match s.stdin with
      | [] => (.eof, { s1 with cur := none })
      | r :: rs => (.got r, s1.took r rs)
  | n + 1, s =>
    let (o, s1) := s.fetch
    match classify o with
    | .assign name val => openWalk n (s1.setVarByName name val)
    | .empty => openWalk n s1
    | .dash =>
      let s2 := { s1.setFile [45] true s1.stdin with stdin := [] }
      match s1.stdin with
      | [] => openWalk n { s2 with cur := none }
      | r :: rs => (.got r, s2.took r rs)
    | .file name =>
      match lookup name s1.fs with
      | none => (.err, s1)
      | some [] => openWalk n { s1.setFile name false [] with cur := none }
      | some (r :: rs) => (.got r, (s1.setFile name false (r :: rs)).took r rs)

/-- `nextLine` -/
def nextLine (s : St) : Take × St :=
  match s.cur with
  | some (r :: rs) => (.got r, s.took r rs)
  | _ => openWalk (s.argc - s.idx) { s with cur := none }

/-- `getline < file`: the stream of that name, opened on first use and kept -/
def readStream (s : St) (f : Bytes) : Int × Option Rec × St :=
  let cur := match lookup f s.streams with
    | some rs => some rs
    | none => lookup f s.fs
  match cur with
  | none => (-1, none, s)
  | some [] => (0, none, { s with streams := setAssoc f [] s.streams })
  | some (r :: rs) => (1, some r, { s with streams := setAssoc f rs s.streams })

/-! ## operations -/

inductive Op
  | emit (tag : Nat)
  | next
  | nextfile
  | exit (n : Option Nat)
  | getline
  | getlineVar (v : Nat)
  | getlineFile (f : Bytes)
  | getlineVarFile (v : Nat) (f : Bytes)
  /-- a function call or a nested block -/
  | call (body : List Op)
  /-- a counted loop -/
  | loop (n : Nat) (body : List Op)
  /-- `if (cond) { body }` -/
  | cond (c : View → Bool) (body : List Op)
  | setArgv (i : Nat) (v : Bytes)
  | setArgc (n : Nat)
  /-- `close(file)` -/
  | close (f : Bytes)
  /-- `FILENAME = v` -/
  | setFilename (v : Bytes)
  /-- `FS = v` -/
  | setFs (v : Bytes)

inductive Sig
  | normal | next | nextfile | exit | fatal
  deriving Repr, DecidableEq

/-- NF of the current record: split with the FS saved when the record was set -/
def St.nf (s : St) : Nat := nfWith s.recFs s.line

def St.doEmit (s : St) (tag : Nat) : St :=
  s.emitEv (.emit tag s.nr s.fnr s.filename s.line s.nf s.vars (s.iters + s.gl + s.glv))

def doGetline (s : St) : St :=
  match nextLine s with
  | (.got r, s1) => ({ s1 with gl := s1.gl + 1 }.setLine r).emitEv (.gl 0 1)
  | (.eof, s1) => s1.emitEv (.gl 0 0)
  | (.err, s1) => s1.emitEv (.gl 0 (-1))

def doGetlineVar (s : St) (v : Nat) : St :=
  match nextLine s with
  | (.got r, s1) => ({ s1 with glv := s1.glv + 1 }.setVar v r).emitEv (.gl 1 1)
  | (.eof, s1) => s1.emitEv (.gl 1 0)
  | (.err, s1) => s1.emitEv (.gl 1 (-1))

def doGetlineFile (s : St) (f : Bytes) : St :=
  match readStream s f with
  | (ret, some r, s1) => (s1.setLine r).emitEv (.gl 2 ret)
  | (ret, none, s1) => s1.emitEv (.gl 2 ret)

def doGetlineVarFile (s : St) (v : Nat) (f : Bytes) : St :=
  match readStream s f with
  | (ret, some r, s1) => (s1.setVar v r).emitEv (.gl 3 ret)
  | (ret, none, s1) => s1.emitEv (.gl 3 ret)

/-- repeat `f` up to `n` times, stopping at the first non-normal signal -/
def iter (f : St → Sig × St) : Nat → St → Sig × St
  | 0, s => (.normal, s)
  | n + 1, s =>
    match f s with
    | (.normal, s1) => iter f n s1
    | r => r

mutual
def execOp : Op → St → Sig × St
  | .emit tag, s => (.normal, s.doEmit tag)
  | .next, s => (.next, s.emitEv (.ctl 1 none))
  | .nextfile, s => (.nextfile, s.emitEv (.ctl 2 none))
  | .exit none, s => (.exit, s.emitEv (.ctl 3 none))
  | .exit (some n), s => (.exit, (s.setStatus n).emitEv (.ctl 3 (some n)))
  | .getline, s => (.normal, doGetline s)
  | .getlineVar v, s => (.normal, doGetlineVar s v)
  | .getlineFile f, s => (.normal, doGetlineFile s f)
  | .getlineVarFile v f, s => (.normal, doGetlineVarFile s v f)
  | .call body, s =>
    if s.depth ≥ maxCallDepth then (.fatal, s) else
    match execOps body s.enterCall with
    | (sig, s1) => (sig, s1.leaveCall)
  | .loop n body, s => iter (fun s => execOps body s) n s
  | .cond c body, s => if c s.view then execOps body s else (.normal, s)
  | .setArgv i v, s => (.normal, s.setArgv i v)
  | .setArgc n, s => (.normal, s.setArgc n)
  | .close f, s => (.normal, s.closeStream f)
  | .setFilename v, s => (.normal, s.assignFilename v)
  | .setFs v, s => (.normal, s.assignFs v)
def execOps : List Op → St → Sig × St
  | [], s => (.normal, s)
  | o :: os, s =>
    match execOp o s with
    | (.normal, s1) => execOps os s1
    | r => r
end

/-! ## rules and the main loop -/

/-- result of evaluating a pattern expression: a value, or — when the expression calls a function that executes `next` /
`nextfile` — that signal (`execActions` then abandons the record / file: `isNext`) -/
inductive PRes
  | val (b : Bool)
  | next
  | nextfile

def PRes.toBool : PRes → Bool
  | .val b => b
  | _ => false

def PRes.sig? : PRes → Option Sig
  | .val _ => none
  | .next => some .next
  | .nextfile => some .nextfile

inductive Pat
  | always
  | pred (c : View → PRes)
  | range (b e : View → PRes)

structure Rule where
  pat : Pat
  body : Option (List Op)     -- `none`: no action = print $0

/-- the range-pattern step of `execActions`: old flag, value of the begin pattern, value of the end pattern
(the code evaluates `b` only when the range is closed and `e` only when it is open after that) ↦ (matched, new flag) -/
def rangeStep (inRange b e : Bool) : Bool × Bool :=
  let r1 := if !inRange then b else inRange
  (r1, if r1 then !e else r1)

/-- (matched, new flag) from the pattern values (a pattern expression that raised a signal counts as "no value": false) -/
def matchPat (p : Pat) (flag : Bool) (v : View) : Bool × Bool :=
  match p with
  | .always => (true, flag)
  | .pred c => ((c v).toBool, flag)
  | .range b e => rangeStep flag (b v).toBool (e v).toBool

/-- the signal raised while evaluating the pattern, if any — mirroring which expressions `execActions` evaluates: the begin
pattern only when the range is closed, the end pattern only when it is open after that -/
def patSignal (p : Pat) (flag : Bool) (v : View) : Option Sig :=
  match p with
  | .always => none
  | .pred c => (c v).sig?
  | .range b e =>
    if flag then (e v).sig?
    else
      match (b v).sig? with
      | some sg => some sg
      | none => if (b v).toBool then (e v).sig? else none

/-- the signal came from the begin pattern of a closed range: `inRange[i]` has not been assigned -/
def beginRaises (p : Pat) (flag : Bool) (v : View) : Bool :=
  match p with
  | .range b _ => !flag && (b v).sig?.isSome
  | _ => false

/-- ghost: log the evaluation of a range rule at position `i` -/
def St.logVisit (s : St) (i : Nat) (p : Pat) (flag : Bool) : St :=
  match p with
  | .range b e =>
    { s with visits := ⟨i, (b s.view).toBool, (e s.view).toBool,
                         (rangeStep flag (b s.view).toBool (e s.view).toBool).1⟩ :: s.visits }
  | _ => s

/-- the inner `for i, action := range actions` loop of `execActions` for one record; flags run in lockstep with rules;
`i` is the position of the head rule -/
def runRules : Nat → List Rule → List Bool → St → Sig × List Bool × St
  | _, [], fl, s => (.normal, fl, s)
  | _, _ :: _, [], s => (.fatal, [], s)
  | i, r :: rs, f :: fl, s0 =>
    match patSignal r.pat f s0.view with
    | some sg =>
      -- next / nextfile raised by a function called from the pattern: the record is abandoned here. When the end pattern
      -- raised, the begin pattern had already opened the range (`inRange[i]` was assigned).
      if beginRaises r.pat f s0.view then (sg, f :: fl, s0)
      else (sg, (matchPat r.pat f s0.view).2 :: fl, s0.logVisit i r.pat f)
    | none =>
    let (matched, f') := matchPat r.pat f s0.view
    let s := s0.logVisit i r.pat f
    if !matched then
      let (sig, fl', s') := runRules (i + 1) rs fl s
      (sig, f' :: fl', s')
    else
      match r.body with
      | none =>
        let (sig, fl', s') := runRules (i + 1) rs fl (s.emitEv (.print s.line))
        (sig, f' :: fl', s')
      | some ops =>
        match execOps ops s with
        | (.normal, s1) =>
          let (sig, fl', s') := runRules (i + 1) rs fl s1
          (sig, f' :: fl', s')
        | (sig, s1) => (sig, f' :: fl, s1)

inductive Outcome
  | done | fatal | fuel
  deriving Repr, DecidableEq

/-- `execActions`: fuel bounds the number of records (the driver passes more than the world can deliver) -/
def mainLoop : Nat → List Rule → List Bool → St → Sig × St
  | 0, _, _, s => (.fatal, s)
  | fuel + 1, rules, fl, s =>
    match nextLine s with
    | (.eof, s1) => (.normal, s1)
    | (.err, s1) => (.fatal, s1)
    | (.got r, s1) =>
      match runRules 0 rules fl (s1.beginRecord r) with
      | (.normal, fl', s3) => mainLoop fuel rules fl' s3
      | (.next, fl', s3) => mainLoop fuel rules fl' s3
      | (.nextfile, fl', s3) => mainLoop fuel rules fl' s3.dropScanner
      | (.exit, _, s3) => (.exit, s3)
      | (.fatal, _, s3) => (.fatal, s3)

structure Prog where
  begin : List Op
  rules : List Rule
  end_ : Option (List Op)

/-- the END phase of `executeAll`: an error (or a stray next / nextfile, which the Go code returns as an error) fails the run -/
def endPhase (p : Prog) (s2 : St) : Bool × St :=
  match execOps (p.end_.getD []) s2 with
  | (.fatal, s3) => (false, s3)
  | (.next, s3) => (false, s3)
  | (.nextfile, s3) => (false, s3)
  | (_, s3) => (true, s3)

/-- the main-loop phase: skipped when BEGIN exited -/
def mainPhase (fuel : Nat) (p : Prog) (sigB : Sig) (s1 : St) : Sig × St :=
  if sigB = .exit then (.exit, s1) else mainLoop fuel p.rules (p.rules.map fun _ => false) s1

/-- `executeAll`. Result: `false` when the run ended with an error (the Go code returns `0, err`), and the final state. -/
def run (fuel : Nat) (p : Prog) (s : St) : Bool × St :=
  match execOps p.begin s with
  | (.fatal, s1) => (false, s1)
  | (.next, s1) => (false, s1)
  | (.nextfile, s1) => (false, s1)
  | (sigB, s1) =>
    if p.rules.isEmpty && p.end_.isNone then (true, s1) else
    match mainPhase fuel p sigB s1 with
    | (.fatal, s2) => (false, s2)
    | (_, s2) => endPhase p s2

end GoawkModel.C11
