import GoawkModel.Generated.C14Fields
/-!
# C14, field level: every field of `type interp struct` classified, and the reset functions as effect lists

The effect lists (`Generated.C14Fields.*Effects`) are regenerated from /repo on every check run. The model of a reset
function is *defined from* its generated effect list (`applyEffects`), so the theorems in `Proofs/C14Fields.lean`
are re-checked against what the Go source says now.

An abstract state maps every field name to a token describing its value (`("zero","")`, `("emptymap","")`,
`("set", "<go expression>")`, …). What running the program does with a state is an abstract parameter (`Sem`).
-/
namespace GoawkModel.C14F
open GoawkModel.Generated.C14Fields

/-- How a field of the interpreter state takes part in re-use. -/
inductive Class
  | perRun      -- must be re-initialised at the start of every Execute (resetCore)
  | fromConfig  -- overwritten from the Config by setExecuteConfig on every run
  | vars        -- the program's variables: reset only by ResetVars; may carry over otherwise
  | rand        -- random number generator: reset only by ResetRand; may carry over otherwise
  | immutable   -- fixed by New (program, constants, name→index maps); never written afterwards
  | cache       -- memo of a pure function of its key: a hit returns what a miss would compute
  | scratch     -- buffer / register whose content is dead at the start of a run (always written before it is read)
  | ctx         -- `checkCtx`: assigned by both Execute and ExecuteContext before anything runs
  | ctxAux      -- `ctx`, `ctxDone`, `ctxOps`: assigned by ExecuteContext; only read when `checkCtx` is true
  deriving DecidableEq, Repr

/-- The hand classification (field, class, one-line justification). A field added to the Go struct is missing here and
breaks `all_classified`; a field removed from the struct breaks `table_current`. -/
def classTable : List (String × Class × String) := [
  ("output", .fromConfig, "Config.Output (or a new stdout writer)"),
  ("errorOutput", .fromConfig, "Config.Error (or os.Stderr)"),
  ("scanner", .perRun, "scanner of the current main input; nil = open next file"),
  ("scanners", .perRun, "getline scanners by name"),
  ("stdin", .fromConfig, "Config.Stdin (or os.Stdin)"),
  ("filenameIndex", .fromConfig, "next ARGV index; set to 1 by setExecuteConfig"),
  ("hadFiles", .fromConfig, "set to false by setExecuteConfig"),
  ("input", .perRun, "current main input reader"),
  ("inputBuffer", .scratch, "scanner buffer, handed to a new bufio.Scanner which overwrites it before reading"),
  ("inputStreams", .perRun, "open getline files / commands"),
  ("outputStreams", .perRun, "open print redirections"),
  ("noExec", .fromConfig, "Config.NoExec"),
  ("noFileWrites", .fromConfig, "Config.NoFileWrites"),
  ("noFileReads", .fromConfig, "Config.NoFileReads"),
  ("shellCommand", .fromConfig, "Config.ShellCommand or default"),
  ("csvOutput", .scratch, "bufio.Writer re-targeted with Reset(output) before every use and flushed after it"),
  ("noArgVars", .fromConfig, "Config.NoArgVars"),
  ("splitBuffer", .scratch, "scanner buffer for split() in CSV mode"),
  ("openFile", .fromConfig, "Config.OpenFile or os.OpenFile"),
  ("globals", .vars, "global scalars"),
  ("stack", .scratch, "VM stack: cells at or above sp are dead; sp is perRun"),
  ("sp", .perRun, "stack pointer; an aborted run leaves it non-zero"),
  ("frame", .scratch, "slice of the stack for the current call; assigned by CallUser before a function body reads it; top-level code has no locals"),
  ("arrays", .vars, "global arrays (first len(arrayIndexes) entries; CallUser truncates its local ones on every exit path)"),
  ("localArrays", .perRun, "stack of local-array index lists"),
  ("callDepth", .perRun, "user-call depth"),
  ("nativeFuncs", .immutable, "built once from Config.Funcs on the first run (documented: Funcs must not change between calls)"),
  ("scalarIndexes", .immutable, "name → global index, from the program"),
  ("arrayIndexes", .immutable, "name → array index, from the program"),
  ("filename", .perRun, "FILENAME"),
  ("line", .perRun, "$0"),
  ("lineIsTrueStr", .perRun, "$0 was assigned, not read"),
  ("lineNum", .perRun, "NR"),
  ("fileLineNum", .perRun, "FNR"),
  ("fields", .perRun, "$1…"),
  ("fieldsIsTrueStr", .perRun, "per field: assigned, not read"),
  ("numFields", .perRun, "NF"),
  ("haveFields", .perRun, "fields are split"),
  ("fieldNames", .perRun, "CSV header names (F18: fixed in 984841d)"),
  ("fieldIndexes", .perRun, "CSV header name → index (F18)"),
  ("csvFields", .perRun, "fields of the last row a csvSplitter produced (F13 repair c7bccbd); execActions installs it into `fields` whenever the mode is CSV/TSV, also when the current scanner is not a csvSplitter, so it must be cleared by resetCore (G14-1, repaired in d5c3fe1)"),
  ("reparseCSV", .scratch, "only read by ensureFields when haveFields=false; every setLine sets it to true; before the first setLine $0 is empty and both values give no fields"),
  ("argc", .fromConfig, "ARGC = len(Config.Args)+1 (resetCore also zeroes it)"),
  ("convertFormat", .vars, "CONVFMT"),
  ("outputFormat", .vars, "OFMT"),
  ("fieldSep", .vars, "FS"),
  ("fieldSepRegex", .vars, "compiled FS (stale when FS is a single char: not read then)"),
  ("recordSep", .vars, "RS"),
  ("recordSepRegex", .vars, "compiled RS"),
  ("recordTerminator", .vars, "RT"),
  ("outputFieldSep", .vars, "OFS"),
  ("outputRecordSep", .vars, "ORS"),
  ("subscriptSep", .vars, "SUBSEP"),
  ("matchLength", .perRun, "RLENGTH"),
  ("matchStart", .perRun, "RSTART"),
  ("inputMode", .fromConfig, "Config.InputMode (INPUTMODE assignments are per run)"),
  ("csvInputConfig", .fromConfig, "Config.CSVInput"),
  ("outputMode", .fromConfig, "Config.OutputMode"),
  ("csvOutputConfig", .fromConfig, "Config.CSVOutput"),
  ("savedFieldSep", .vars, "FS at the time $0 was read"),
  ("savedFieldSepRegex", .vars, "compiled FS at the time $0 was read"),
  ("savedInputMode", .perRun, "input mode at the time $0 was set (G06-1 repair 7d0fcb7): written by setLine, read by the lazy field split, reset by resetCore"),
  ("savedCSVConfig", .perRun, "CSV input configuration at the time $0 was set (G06-1 repair)"),
  ("savedParagraphMode", .perRun, "RS was empty at the time $0 was set (G06-1 repair)"),
  ("program", .immutable, "the parsed program"),
  ("functions", .immutable, "compiled functions"),
  ("nums", .immutable, "number constants"),
  ("strs", .immutable, "string constants"),
  ("regexes", .immutable, "regex constants"),
  ("checkCtx", .ctx, "poll the context?"),
  ("ctx", .ctxAux, "the context"),
  ("ctxDone", .ctxAux, "its Done channel"),
  ("ctxOps", .ctxAux, "instructions since the last poll"),
  ("random", .rand, "math/rand generator"),
  ("randSeed", .rand, "last seed (returned by srand)"),
  ("exitStatus", .perRun, "exit status"),
  ("regexCache", .cache, "regex source → compiled regex (pure function of the key)"),
  ("formatCache", .cache, "printf format → (go format, types) (pure function of the key)"),
  ("csvJoinFieldsBuf", .scratch, "Reset() before every use"),
  ("chars", .fromConfig, "Config.Chars"),
  ("newlineOutputCRLF", .fromConfig, "Config.NewlineOutput")]

def classOf (f : String) : Option Class :=
  (classTable.find? (fun e => e.1 == f)).map (fun e => e.2.1)

/-! ## Abstract states and effect lists -/

abbrev Eff := String × String × String × Bool
abbrev Tok := String × String
abbrev FState := String → Tok

/-- `rand.New(rand.NewSource(s))` and `r.Seed(s)` put a math/rand generator into the same state (math/rand contract;
trusted) — both spellings are the same token, as long as the seed expression is the one expected here. -/
def seededForms : List Tok := [
  ("set", "rand.New(rand.NewSource(int64(seed)))"),
  ("call", "Seed(int64(math.Float64bits(p.interp.randSeed)))")]

def canonTok (t : Tok) : Tok :=
  if seededForms.contains t then ("seeded", "bits(randSeed)")
  else if t.1 == "set" || t.1 == "call" || t.1 == "setsub" then t
  else (t.1, "")

def effTok (e : Eff) : Tok := canonTok (e.2.1, e.2.2.1)

/-- the token a function leaves in field `f`: its last effect on `f` (all effects of the reset functions are
unconditional — `resets_unconditional`) -/
def resetTok (effs : List Eff) (f : String) : Option Tok :=
  ((effs.filter (fun e => e.1 == f)).getLast?).map effTok

def applyEffects (effs : List Eff) (s : FState) : FState :=
  fun f => (resetTok effs f).getD (s f)

def zeroState : FState := fun _ => ("zero", "")

/-- the state `newInterp` builds -/
def freshState : FState := applyEffects newInterpEffects zeroState

/-- Execute / ExecuteContext -/
inductive Entry | plain | withCtx
  deriving DecidableEq, Repr

def entryEffects : Entry → List Eff
  | .plain => resetCoreEffects ++ executeEffects
  | .withCtx => resetCoreEffects ++ executeContextEffects

/-- What the rest of the interpreter does is a parameter. -/
structure Sem (Cfg Result : Type) where
  /-- the value `setExecuteConfig` assigns to a definitely-assigned field: a function of the Config alone -/
  cfgVal : Cfg → String → Tok
  /-- what `setExecuteConfig` does to a variable-class field (Config.Vars, ARGV, ENVIRON): a function of the Config and the
  field's previous value -/
  cfgVars : Cfg → String → Tok → Tok
  /-- `executeAll` -/
  run : Cfg → FState → FState × Result

variable {Cfg Result : Type}

def setCfg (S : Sem Cfg Result) (cfg : Cfg) (s : FState) : FState := fun f =>
  if setExecuteConfigMust.contains f then S.cfgVal cfg f
  else if classOf f = some .vars then S.cfgVars cfg f (s f)
  else s f

def observable : Class → Bool
  | .cache => false
  | .scratch => false
  | .ctxAux => false
  | _ => true

/-- Agreement on everything a run can observe: all fields except caches and scratch; the context fields only when the
context is polled at all. `X` lists fields left out of the comparison (the fields whose reset obligation fails on the
current source — `leaks` in Proofs/C14Fields.lean; empty when the source is sound). -/
def ObsEq (X : List String) (s₁ s₂ : FState) : Prop :=
  ∀ f c, classOf f = some c → f ∉ X →
    (observable c = true ∨ (c = .ctxAux ∧ s₁ "checkCtx" ≠ ("zero", ""))) → s₁ f = s₂ f

/-- The assumptions on the rest of the interpreter (validated by the history oracle, not proved):
the result of a run depends only on observable fields, and so does what it leaves in the variables and the generator;
immutable fields are not written. -/
structure Sem.Ok (X : List String) (S : Sem Cfg Result) : Prop where
  run_obs : ∀ cfg s₁ s₂, ObsEq X s₁ s₂ → (S.run cfg s₁).2 = (S.run cfg s₂).2
  run_immutable : ∀ cfg s f, classOf f = some .immutable → (S.run cfg s).1 f = s f

/-- state just before `executeAll` -/
def preRun (S : Sem Cfg Result) (e : Entry) (cfg : Cfg) (s : FState) : FState :=
  setCfg S cfg (applyEffects (entryEffects e) s)

/-- `Interpreter.Execute` / `ExecuteContext` on state `s` -/
def exec (S : Sem Cfg Result) (e : Entry) (cfg : Cfg) (s : FState) : FState × Result :=
  S.run cfg (preRun S e cfg s)

/-- `interp.ExecProgram`: newInterp, setExecuteConfig, executeAll -/
def execProgram (S : Sem Cfg Result) (cfg : Cfg) : FState × Result :=
  S.run cfg (setCfg S cfg freshState)

inductive Step (Cfg : Type)
  | exec (e : Entry) (cfg : Cfg)
  | resetVars
  | resetRand

def stepState (S : Sem Cfg Result) : Step Cfg → FState → FState
  | .exec e cfg, s => (exec S e cfg s).1
  | .resetVars, s => applyEffects resetVarsEffects s
  | .resetRand, s => applyEffects resetRandEffects s

/-- the state of an Interpreter after `New` and any sequence of Execute / ExecuteContext / ResetVars / ResetRand calls -/
def runHistory (S : Sem Cfg Result) (h : List (Step Cfg)) (s : FState) : FState :=
  h.foldl (fun s st => stepState S st s) s

/-- what is allowed to carry over without ResetVars/ResetRand: variables and the generator, nothing else -/
def carryOnly (s : FState) : FState := fun f =>
  if classOf f = some .vars ∨ classOf f = some .rand then s f else freshState f

end GoawkModel.C14F
