import GoawkModel.Basic
/-! Line-protocol handler for property C11: one request line (already split into words, without the leading `c11`) → one answer line. -/
namespace GoawkModel.Drv.C11

def handle (_args : List String) : String := "unimplemented"

end GoawkModel.Drv.C11
