import GoawkModel.Basic
import GoawkModel.C11
/-!
Line-protocol handler for property C11.

`run <fuel> A <n> <hex>*n  S <n> <hex>*n  F <k> (<name> <n> <hex>*n)*k  V <n> <name>*n  B <ops> ;  R <k> (<pat> <body>)*k  E (0 | 1 <ops> ;)`

* `A` ARGV[1..n] (ARGV[0] is implicit, ARGC = n+1), `S` the records of stdin, `F` the files, `V` the program's global scalar names
* ops: `e <tag>` | `n` | `nf` | `x <n>` | `x -` | `g` | `gv <v>` | `gf <file>` | `gvf <v> <file>` | `c <ops> ;` | `l <n> <ops> ;` |
  `i <cond> <ops> ;` | `sa <i> <hex>` | `sc <n>` | `cl <file>` | `sf <hex>` (FILENAME = …) | `sfs <hex>` (FS = …)
* pat: `a` | `p <pcond>` | `r <pcond> <pcond>`;  body: `0` (no action) | `1 <ops> ;`
* pcond: `<cond>` | `q n <when> <cond>` | `q nf <when> <cond>` (a function that executes next / nextfile when `when` holds, else returns `cond`)
* cond: `t` | `f` | `h <byte>` | `nr <n>` | `fnr <n>` | `nrge <n>` | `nrmod <n> <k>` | `not <cond>` | `veq <v> <hex>` | `and <cond> <cond>`

answer: `ok|err <status> <event>*` with events `E:tag:nr:fnr:filename:line:nf:v0,v1,v2`, `G:form:ret`, `P:line`, `X:kind[:value]`

`runv <fuel> I <n> (<hex name> <hex value>)*n A …` (the rest as for `run`): one execution whose `Config.Vars` are the given
pairs, applied in order through `setVarByName` before BEGIN (as `setExecuteConfig` does). The answer is prefixed with
`o:<r>:<g>:<m> ` — what the execution left open when it ended: `r` range rules whose flag is set, `g` getline streams with
unread records, `m` = 1 when the main input has unread records in the current file (the histories stream of the harness prints
that as its distribution; nothing of it may be visible to the next execution of the same interpreter).
-/
namespace GoawkModel.Drv.C11
open GoawkModel GoawkModel.C11

abbrev Toks := List String

def pNat (t : Toks) : Option (Nat × Toks) :=
  match t with
  | x :: r => x.toNat?.map (·, r)
  | [] => none

def pHex (t : Toks) : Option (Bytes × Toks) :=
  match t with
  | x :: r => (fromHex x).map (·, r)
  | [] => none

def pHexN : Nat → Toks → Option (List Bytes × Toks)
  | 0, t => some ([], t)
  | n + 1, t => do
    let (x, t) ← pHex t
    let (xs, t) ← pHexN n t
    pure (x :: xs, t)

def pList (t : Toks) : Option (List Bytes × Toks) := do
  let (n, t) ← pNat t
  pHexN n t

def pFiles : Nat → Toks → Option (List (Bytes × List Rec) × Toks)
  | 0, t => some ([], t)
  | k + 1, t => do
    let (name, t) ← pHex t
    let (recs, t) ← pList t
    let (rest, t) ← pFiles k t
    pure ((name, recs) :: rest, t)

def pCond : Nat → Toks → Option ((View → Bool) × Toks)
  | 0, _ => none
  | fuel + 1, t =>
    match t with
    | "t" :: r => some (fun _ => true, r)
    | "f" :: r => some (fun _ => false, r)
    | "h" :: r => do
      let (c, r) ← pNat r
      pure (fun v => v.line.contains (UInt8.ofNat c), r)
    | "nr" :: r => do
      let (n, r) ← pNat r
      pure (fun v => v.nr == n, r)
    | "fnr" :: r => do
      let (n, r) ← pNat r
      pure (fun v => v.fnr == n, r)
    | "nrmod" :: r => do
      let (n, r) ← pNat r
      let (k, r) ← pNat r
      pure (fun v => v.nr % n == k, r)
    | "nrge" :: r => do
      let (n, r) ← pNat r
      pure (fun v => decide (v.nr ≥ n), r)
    | "not" :: r => do
      let (c, r) ← pCond fuel r
      pure (fun v => !c v, r)
    | "and" :: r => do
      let (c1, r) ← pCond fuel r
      let (c2, r) ← pCond fuel r
      pure (fun v => c1 v && c2 v, r)
    | "veq" :: r => do
      let (i, r) ← pNat r
      let (x, r) ← pHex r
      pure (fun v => v.vars.getD i [] == x, r)
    | _ => none

def pOps : Nat → Toks → Option (List Op × Toks)
  | 0, _ => none
  | fuel + 1, t =>
    let one (o : Op) (r : Toks) : Option (List Op × Toks) := do
      let (os, r) ← pOps fuel r
      pure (o :: os, r)
    match t with
    | ";" :: r => some ([], r)
    | "e" :: r => do
      let (n, r) ← pNat r
      one (.emit n) r
    | "n" :: r => one .next r
    | "nf" :: r => one .nextfile r
    | "x" :: "-" :: r => one (.exit none) r
    | "x" :: r => do
      let (n, r) ← pNat r
      one (.exit (some n)) r
    | "g" :: r => one .getline r
    | "gv" :: r => do
      let (v, r) ← pNat r
      one (.getlineVar v) r
    | "gf" :: r => do
      let (f, r) ← pHex r
      one (.getlineFile f) r
    | "gvf" :: r => do
      let (v, r) ← pNat r
      let (f, r) ← pHex r
      one (.getlineVarFile v f) r
    | "c" :: r => do
      let (b, r) ← pOps fuel r
      one (.call b) r
    | "l" :: r => do
      let (n, r) ← pNat r
      let (b, r) ← pOps fuel r
      one (.loop n b) r
    | "i" :: r => do
      let (c, r) ← pCond fuel r
      let (b, r) ← pOps fuel r
      one (.cond c b) r
    | "sa" :: r => do
      let (i, r) ← pNat r
      let (v, r) ← pHex r
      one (.setArgv i v) r
    | "sc" :: r => do
      let (n, r) ← pNat r
      one (.setArgc n) r
    | "cl" :: r => do
      let (f, r) ← pHex r
      one (.close f) r
    | "sf" :: r => do
      let (v, r) ← pHex r
      one (.setFilename v) r
    | "sfs" :: r => do
      let (v, r) ← pHex r
      one (.setFs v) r
    | _ => none

/-- a pattern expression: a plain condition, or `q n|nf <when> <cond>` = a call of
`function f() { if (when) next|nextfile; return cond }` -/
def pPatCond (fuel : Nat) (t : Toks) : Option ((View → PRes) × Toks) :=
  match t with
  | "q" :: kind :: r => do
    let (w, r) ← pCond fuel r
    let (c, r) ← pCond fuel r
    let sg : PRes := if kind = "nf" then .nextfile else .next
    pure (fun v => if w v then sg else .val (c v), r)
  | _ => do
    let (c, r) ← pCond fuel t
    pure (fun v => .val (c v), r)

def pRules (fuel : Nat) : Nat → Toks → Option (List Rule × Toks)
  | 0, t => some ([], t)
  | k + 1, t => do
    let (pat, t) ← (match t with
      | "a" :: r => some (Pat.always, r)
      | "p" :: r => do
        let (c, r) ← pPatCond fuel r
        pure (Pat.pred c, r)
      | "r" :: r => do
        let (b, r) ← pPatCond fuel r
        let (e, r) ← pPatCond fuel r
        pure (Pat.range b e, r)
      | _ => none)
    let (body, t) ← (match t with
      | "0" :: r => some (none, r)
      | "1" :: r => do
        let (os, r) ← pOps fuel r
        pure (some os, r)
      | _ => none)
    let (rest, t) ← pRules fuel k t
    pure (⟨pat, body⟩ :: rest, t)

def expect (s : String) (t : Toks) : Option Toks :=
  match t with
  | x :: r => if x = s then some r else none
  | [] => none

def pad3 (l : List Bytes) : List Bytes := (l ++ [[], [], []]).take 3

def showEvent : Event → String
  | .emit tag nr fnr fn line nf vars _ =>
    s!"E:{tag}:{nr}:{fnr}:{toHex fn}:{toHex line}:{nf}:" ++ String.intercalate "," ((pad3 vars).map toHex)
  | .gl form ret => s!"G:{form}:{ret}"
  | .print line => s!"P:{toHex line}"
  | .ctl k none => s!"X:{k}"
  | .ctl k (some n) => s!"X:{k}:{n}"

def pPairs : Nat → Toks → Option (List (Bytes × Bytes) × Toks)
  | 0, t => some ([], t)
  | n + 1, t => do
    let (k, t) ← pHex t
    let (v, t) ← pHex t
    let (rest, t) ← pPairs n t
    pure ((k, v) :: rest, t)

/-- range rules left open at the end of a run: the last logged evaluation of the rule selected the record and its end
pattern did not hold (`visits` is newest first) -/
def openRanges (rules : List Rule) (visits : List Visit) : Nat :=
  ((List.range rules.length).filter fun i =>
    match visits.find? (fun v => v.rule == i) with
    | some v => v.matched && !v.e
    | none => false).length

def openSummary (rules : List Rule) (s : St) : String :=
  let g := (s.streams.filter fun p => !p.2.isEmpty).length
  let m := match s.cur with
    | some (_ :: _) => 1
    | _ => 0
  s!"o:{openRanges rules s.visits}:{g}:{m}"

def handleRun (withVars : Bool) (t : Toks) : Option String := do
  let fuel0 := t.length + 1
  let (fuel, t) ← pNat t
  let (pairs, t) ← (if withVars then do
      let t ← expect "I" t
      let (n, t) ← pNat t
      pPairs n t
    else some ([], t))
  let t ← expect "A" t
  let (args, t) ← pList t
  let t ← expect "S" t
  let (stdin, t) ← pList t
  let t ← expect "F" t
  let (k, t) ← pNat t
  let (files, t) ← pFiles k t
  let t ← expect "V" t
  let (names, t) ← pList t
  let t ← expect "B" t
  let (begin, t) ← pOps fuel0 t
  let t ← expect "R" t
  let (k, t) ← pNat t
  let (rules, t) ← pRules fuel0 k t
  let t ← expect "E" t
  let (end_, t) ← (match t with
    | "0" :: r => some (none, r)
    | "1" :: r => do
      let (os, r) ← pOps fuel0 r
      pure (some os, r)
    | _ => none)
  if t ≠ [] then none else
  let s00 : St := { fs := files, stdin := stdin, argv := [] :: args, argc := args.length + 1, varNames := names }
  let s0 := pairs.foldl (fun s kv => s.setVarByName kv.1 kv.2) s00
  let (ok, s) := run fuel ⟨begin, rules, end_⟩ s0
  let evs := s.out.reverse.map showEvent
  let pre := if withVars then [openSummary rules s] else []
  pure (String.intercalate " " (pre ++ (if ok then "ok" else "err") :: toString s.status :: evs))

def handle (args : List String) : String :=
  match args with
  | "run" :: t => (handleRun false t).getD "bad-request"
  | "runv" :: t => (handleRun true t).getD "bad-request"
  | _ => "bad-request"

end GoawkModel.Drv.C11
