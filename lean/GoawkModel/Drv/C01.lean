import GoawkModel.Basic
/-! Line-protocol handler for property C01: one request line (already split into words, without the leading `c01`) → one answer line. -/
namespace GoawkModel.Drv.C01

def handle (_args : List String) : String := "unimplemented"

end GoawkModel.Drv.C01
