import GoawkModel.Basic
import GoawkModel.C01
import GoawkModel.C01Conc
import GoawkModel.Generated.Opcodes
/-!
Line-protocol handler for property C01.

* `compile s|e <nums> ; <strs> ; <term>` → `ok <opcode words>`: Lean `cStmt 0 0` / `cExpr` of the block, encoded with the
  generated opcode numbering and the real constant tables.
* `run <input hex> <item>*` → `<eval outcome> <vm outcome> <exact|inexact>`: the program run by the reference evaluator
  and by compiler+VM under the concrete semantics `semC`.

Terms are prefix token streams produced by the harness from the real resolved syntax tree.
-/
namespace GoawkModel.Drv.C01
open GoawkModel GoawkModel.C01

abbrev P (α : Type) := List String → Option (α × List String)

def pArith : String → Option ArithOp
  | "+" => some .add | "-" => some .sub | "*" => some .mul | "/" => some .div | "^" => some .pow | "%" => some .mod | _ => none
def pCmp : String → Option CmpOp
  | "==" => some .eq | "!=" => some .ne | "<" => some .lt | "<=" => some .le | ">" => some .gt | ">=" => some .ge | _ => none
def pVScope : String → Option VScope
  | "g" => some .global | "l" => some .loc | "s" => some .special | _ => none
def pAScope : String → Option AScope
  | "g" => some .global | "l" => some .loc | _ => none

def pRefs : Nat → List String → Option (List (AScope × Nat) × List String)
  | 0, r => some ([], r)
  | k+1, sc :: i :: r => do
    let sc ← pAScope sc
    let i ← i.toNat?
    let (rest, r) ← pRefs k r
    some ((sc, i) :: rest, r)
  | _, _ => none

mutual
def pExpr : Nat → P Expr
  | 0, _ => none
  | n+1, toks =>
    match toks with
    | "N" :: "i" :: v :: r => v.toNat?.map fun k => (Expr.num ⟨true, k⟩, r)
    | "N" :: "f" :: v :: r => v.toNat?.map fun k => (Expr.num ⟨false, k⟩, r)
    | "S" :: h :: r => (fromHex h).map fun b => (Expr.str b, r)
    | "V" :: sc :: i :: r => do
      let sc ← pVScope sc
      let i ← i.toNat?
      some (Expr.var sc i, r)
    | "F" :: r => do
      let (e, r) ← pExpr n r
      some (Expr.field e, r)
    | "I" :: sc :: a :: "1" :: r => do
      let sc ← pAScope sc
      let a ← a.toNat?
      let (i, r) ← pExpr n r
      some (Expr.index sc a i, r)
    | "I" :: sc :: a :: "2" :: r => do
      let sc ← pAScope sc
      let a ← a.toNat?
      let (i, r) ← pExpr n r
      let (j, r) ← pExpr n r
      some (Expr.index sc a (.multi i j), r)
    | "IN" :: sc :: a :: "1" :: r => do
      let sc ← pAScope sc
      let a ← a.toNat?
      let (i, r) ← pExpr n r
      some (Expr.inArr i sc a, r)
    | "IN" :: sc :: a :: "2" :: r => do
      let sc ← pAScope sc
      let a ← a.toNat?
      let (i, r) ← pExpr n r
      let (j, r) ← pExpr n r
      some (Expr.inArr (.multi i j) sc a, r)
    | "B" :: op :: r => do
      let (l, r) ← pExpr n r
      let (x, r) ← pExpr n r
      match pArith op, pCmp op with
      | some a, _ => some (Expr.arith a l x, r)
      | _, some c => some (Expr.cmp c l x, r)
      | _, _ =>
        if op = "cat" then some (Expr.concat l x, r)
        else if op = "&&" then some (Expr.and l x, r)
        else if op = "||" then some (Expr.or l x, r)
        else none
    | "U" :: op :: r => do
      let (e, r) ← pExpr n r
      match op with
      | "-" => some (Expr.unary .neg e, r)
      | "+" => some (Expr.unary .plus e, r)
      | "!" => some (Expr.unary .not e, r)
      | _ => none
    | "C" :: r => do
      let (c, r) ← pExpr n r
      let (t, r) ← pExpr n r
      let (f, r) ← pExpr n r
      some (Expr.cond c t f, r)
    | "=" :: r => do
      let (lv, r) ← pExpr n r
      let (x, r) ← pExpr n r
      some (Expr.assign lv x, r)
    | "A" :: op :: r => do
      let op ← pArith op
      let (lv, r) ← pExpr n r
      let (x, r) ← pExpr n r
      some (Expr.augAssign lv op x, r)
    | "++" :: pre :: r => do
      let (lv, r) ← pExpr n r
      some (Expr.incr lv false (pre = "pre"), r)
    | "--" :: pre :: r => do
      let (lv, r) ← pExpr n r
      some (Expr.incr lv true (pre = "pre"), r)
    | "G" :: r => do
      let (e, r) ← pExpr n r
      some (Expr.group e, r)
    | "K" :: f :: nsc :: k :: r => do
      let f ← f.toNat?
      let nsc ← nsc.toNat?
      let k ← k.toNat?
      let (args, r) ← pArgs n k r
      match r with
      | m :: r => do
        let m ← m.toNat?
        let (refs, r) ← pRefs m r
        some (Expr.call f nsc args refs, r)
      | [] => none
    | _ => none

def pArgs : Nat → Nat → P (List Expr)
  | 0, _, _ => none
  | _, 0, r => some ([], r)
  | n+1, k+1, r => do
    let (e, r) ← pExpr n r
    let (es, r) ← pArgs n k r
    some (e :: es, r)
end

def pExprs (n : Nat) : Nat → P (List Expr)
  | 0, r => some ([], r)
  | k+1, r => do
    let (e, r) ← pExpr n r
    let (es, r) ← pExprs n k r
    some (e :: es, r)

mutual
def pStmt : Nat → P Stmt
  | 0, _ => none
  | n+1, toks =>
    match toks with
    | "e" :: r => do
      let (e, r) ← pExpr 10000 r
      some (Stmt.expr e, r)
    | "p" :: k :: r => do
      let k ← k.toNat?
      let (es, r) ← pExprs 10000 k r
      some (Stmt.print es, r)
    | "if" :: r => do
      let (c, r) ← pExpr 10000 r
      let (b, r) ← pList n r
      match r with
      | "L" :: "0" :: r => some (Stmt.ifThen c b, r)
      | _ => do
        let (e, r) ← pList n r
        some (Stmt.ifElse c b e, r)
    | "w" :: r => do
      let (c, r) ← pExpr 10000 r
      let (b, r) ← pList n r
      some (Stmt.while c b, r)
    | "d" :: r => do
      let (b, r) ← pList n r
      let (c, r) ← pExpr 10000 r
      some (Stmt.doWhile b c, r)
    | "f" :: r => do
      let (pre, r) ← match r with
        | "_" :: r => some (Stmt.skip, r)
        | _ => pStmt n r
      let (c, r) ← match r with
        | "_" :: r => some (none, r)
        | _ => (pExpr 10000 r).map fun (e, r) => (some e, r)
      let (post, r) ← match r with
        | "_" :: r => some (Stmt.skip, r)
        | _ => pStmt n r
      let (b, r) ← pList n r
      some (Stmt.for pre c post b, r)
    | "b" :: r => some (Stmt.brk, r)
    | "c" :: r => some (Stmt.cont, r)
    | "n" :: r => some (Stmt.next, r)
    | "x" :: "_" :: r => some (Stmt.exit none, r)
    | "x" :: r => do
      let (e, r) ← pExpr 10000 r
      some (Stmt.exit (some e), r)
    | "k" :: r => do
      let (b, r) ← pList n r
      some (Stmt.block b, r)
    | "r" :: "_" :: r => some (Stmt.ret none, r)
    | "r" :: r => do
      let (e, r) ← pExpr 10000 r
      some (Stmt.ret (some e), r)
    | _ => none

/-- `L <n> stmt*n` → right-nested `seq … skip` -/
def pList : Nat → P Stmt
  | 0, _ => none
  | n+1, toks =>
    match toks with
    | "L" :: k :: r => do
      let k ← k.toNat?
      pSeq n k r
    | _ => none

def pSeq : Nat → Nat → P Stmt
  | 0, _, _ => none
  | _, 0, r => some (Stmt.skip, r)
  | n+1, k+1, r => do
    let (s, r) ← pStmt n r
    let (t, r) ← pSeq n k r
    some (Stmt.seq s t, r)
end

def pNumC (s : String) : Option NumC :=
  match s.splitOn ":" with
  | ["i", v] => v.toNat?.map fun k => ⟨true, k⟩
  | ["f", v] => v.toNat?.map fun k => ⟨false, k⟩
  | _ => none

def splitSemi (toks : List String) : List String × List String :=
  (toks.takeWhile (· ≠ ";"), (toks.dropWhile (· ≠ ";")).drop 1)

def showInts (l : List Int) : String := String.intercalate " " (l.map toString)

def tables (nums strs : List String) : Option Tables := do
  let ns ← nums.mapM pNumC
  let ss ← strs.mapM fromHex
  some ⟨Generated.Opcodes.opcodes, Generated.Opcodes.augOps, ns, ss⟩

/-! ### running whole programs under `semC` -/

inductive Item
  | begin (s : Stmt) | action (pat : Option Expr) (body : Option Stmt) | end_ (s : Stmt)

def pItems : Nat → List String → Option (List Item)
  | 0, _ => none
  | _, [] => some []
  | n+1, "B" :: r => do
    let (s, r) ← pList 10000 r
    let rest ← pItems n r
    some (.begin s :: rest)
  | n+1, "E" :: r => do
    let (s, r) ← pList 10000 r
    let rest ← pItems n r
    some (.end_ s :: rest)
  | n+1, "A" :: r => do
    let (pat, r) ← match r with
      | "_" :: r => some (none, r)
      | _ => (pExpr 10000 r).map fun (e, r) => (some e, r)
    let (body, r) ← match r with
      | "_" :: r => some (none, r)
      | _ => (pList 10000 r).map fun (s, r) => (some s, r)
    let rest ← pItems n r
    some (.action pat body :: rest)
  | _, _ => none

inductive BlockOut (W : Type) | normal (w : W) | next (w : W) | exit (w : W) | error (w : W)

section Run
variable (S : Sem) (useVM : Bool)

def runStmt (s : Stmt) (w : S.W) : BlockOut S.W :=
  if useVM then
    match run S (cStmt 0 0 s) 2000000 ⟨0, [], w⟩ with
    | .normal w => .normal w | .next w => .next w | .exit w => .exit w | _ => .error w
  else
    match exec S 100000 s w with
    | some (.normal w) | some (.brk w) | some (.cont w) | some (.ret _ w) => .normal w
    | some (.next w) => .next w
    | some (.exit w) => .exit w
    | none => .error w

/-- evaluate a pattern: `some (matched, world)`; the VM runs `cExpr` and pops the result -/
def runPattern (e : Expr) (w : S.W) : Option (Bool × S.W) :=
  if useVM then
    let C := cExpr e
    let rec go : Nat → St S → Option (Bool × S.W)
      | 0, _ => none
      | n+1, st =>
        if st.pc = csize C then
          match st.stk with
          | [v] => some (S.toBool v, st.w)
          | _ => none
        else match stepTo S C st with
          | some st' => go n st'
          | none => none
    go 1000000 ⟨0, [], w⟩
  else (eval S e w).map fun (v, w) => (S.toBool v, w)

end Run

def splitLines (b : Bytes) : List Bytes :=
  let rec go : Bytes → Bytes → List Bytes → List Bytes
    | [], cur, acc => (if cur = [] then acc else cur.reverse :: acc).reverse
    | c :: rest, cur, acc => if c = 10 then go rest [] (cur.reverse :: acc) else go rest (c :: cur) acc
  go b [] []

/-- run a program under `semC bounded`; result: (error?, world) -/
def runProgram (bounded useVM : Bool) (items : List Item) (input : Bytes) : Bool × CW :=
  let S := semC bounded
  let begins := items.filterMap fun | .begin s => some s | _ => none
  let ends := items.filterMap fun | .end_ s => some s | _ => none
  let actions := items.filterMap fun | .action p b => some (p, b) | _ => none
  -- BEGIN blocks: `(err, exited, w)`
  let runBlocks (bs : List Stmt) (w : CW) : Bool × Bool × CW :=
    bs.foldl (fun (acc : Bool × Bool × CW) s =>
      let (err, ex, w) := acc
      if err || ex then acc else
      match runStmt S useVM s w with
      | .normal w | .next w => (false, false, w)
      | .exit w => (false, true, w)
      | .error w => (true, false, w)) (false, false, w)
  let w0 : CW := {}
  let (err, exited, w) := runBlocks begins w0
  if err then (true, w) else
  if actions.isEmpty ∧ ends.isEmpty then (false, w) else
  let (err, w) :=
    if exited then (false, w) else
    let lines := splitLines input
    let r := lines.foldl (fun (acc : Bool × Bool × CW) line =>
      let (err, ex, w) := acc
      if err || ex then acc else
      let w := Conc.setLine { w with nr := .num (Conc.toNum w.nr + 1) } line false
      -- actions of this record: `(err, exited, skipRest, w)`
      let r := actions.foldl (fun (a : Bool × Bool × Bool × CW) (pb : Option Expr × Option Stmt) =>
        let (err, ex, skip, w) := a
        if err || ex || skip then a else
        let m : Option (Bool × CW) := match pb.1 with
          | none => some (true, w)
          | some p => runPattern S useVM p w
        match m with
        | none => (true, false, false, w)
        | some (false, w) => (false, false, false, w)
        | some (true, w) =>
          match pb.2 with
          | none => (false, false, false, Conc.printVals [] w)
          | some body =>
            match runStmt S useVM body w with
            | .normal w => (false, false, false, w)
            | .next w => (false, false, true, w)
            | .exit w => (false, true, false, w)
            | .error w => (true, false, false, w)) (false, false, false, w)
      (r.1, r.2.1, r.2.2.2)) (false, false, w)
    (r.1, r.2.2)
  if err then (true, w) else
  let (err, _, w) := runBlocks ends w
  (err, w)

/-- several END blocks one after the other: each gets a Nop when it compiles to nothing; the codes are concatenated -/
def compileEnds (t : Tables) : Nat → List String → Option (List Int)
  | 0, _ => none
  | _, [] => some []
  | n+1, toks =>
    match pList 10000 toks with
    | some (s, rest) =>
      let c := encode t (cStmt 0 0 s)
      (compileEnds t n rest).map fun more => (if c.isEmpty then [opNum t.opcodes "Nop"] else c) ++ more
    | none => none

def showRun (r : Bool × CW) : String :=
  if r.1 then "error" else s!"ok:{toHex r.2.out}:{r.2.exit}"

def handle (args : List String) : String :=
  match args with
  | "compile" :: kind :: rest =>
    let (nums, rest) := splitSemi rest
    let (strs, term) := splitSemi rest
    match tables nums strs with
    | none => "bad-tables"
    | some t =>
      if kind = "s" then
        match pList 10000 term with
        | some (s, []) => "ok " ++ showInts (encode t (cStmt 0 0 s))
        | _ => "unsupported"
      else if kind = "E" then
        match compileEnds t 1000 term with
        | some c => "ok " ++ showInts c
        | none => "unsupported"
      else if kind = "a" then
        -- a pattern-action body: `Compile` adds a Nop when the statements compile to no instruction (`/a/ { { } }`)
        match pList 10000 term with
        | some (s, []) =>
          let c := encode t (cStmt 0 0 s)
          "ok " ++ showInts (if c.isEmpty then [opNum t.opcodes "Nop"] else c)
        | _ => "unsupported"
      else
        match pExpr 10000 term with
        | some (e, []) => "ok " ++ showInts (encode t (cExpr e))
        | _ => "unsupported"
  | "run" :: input :: items =>
    match fromHex input, pItems 10000 items with
    | some inp, some its =>
      -- always the bounded semantics: arithmetic fails once a magnitude reaches 2^53, so values stay small (an unbounded
      -- run of `x *= x` in a loop would build astronomically large integers). An `error` outcome may therefore be a real
      -- runtime error or the bound; the harness compares it only with an error of the real interpreter.
      let e := runProgram true false its inp
      let v := runProgram true true its inp
      s!"{showRun e} {showRun v} exact"
    | _, _ => "unsupported"
  | _ => "bad-request"

end GoawkModel.Drv.C01
