import GoawkModel.Basic
import GoawkModel.C07
/-! Line-protocol handler for property C07: `scan <mode> <rs> <chunk>*` → `ok (<record>:<rt>)*` -/
namespace GoawkModel.Drv.C07
open GoawkModel GoawkModel.Scanner GoawkModel.C07

def render (rs : List (Bytes × Bytes)) : String :=
  String.intercalate " " ("ok" :: rs.map fun (r, t) => toHex r ++ ":" ++ toHex t)

def handle (args : List String) : String :=
  match args with
  | "scan" :: mode :: rs :: chunks =>
    match fromHex rs, chunks.mapM fromHex with
    | some rs, some cs =>
      let cs := cs.filter (· ≠ [])
      match mode, rs with
      | "nl", _ => render (scan splitNewline [] cs false)
      | "byte", [c] => render (scan (splitByte c) [] cs false)
      | "blank", _ => render (scan splitBlank [] cs false)
      | "lit", _ => if rs = [] then "unsupported" else render (scan (splitRegex (fun d => findLit rs d 0)) [] cs false)
      | _, _ => "unsupported"
    | _, _ => "bad-hex"
  | _ => "bad-request"

end GoawkModel.Drv.C07
