import GoawkModel.Basic
import GoawkModel.C12
import GoawkModel.C12Entry
/-! Line-protocol handler for property C12.

`run <flags> <existing> <args> <stdinRecs> <op>*` → one group of effects per executed operation, groups separated by `|`.
* `<flags>`: four characters `0|1` = noExec noWrites noReads hook
* `<existing>`, `<args>`: comma-separated hex names, `.` for the empty list (`-` is the empty name)
* ops: `gt:<n>:<ok>` `app:<n>:<ok>` `pipe:<n>:<ok>` `gf:<n>` `gc:<n>:<ok>` `sys:<n>:<ok>` `gl` `main` `close:<n>` `ff:<n>`

`exec <entry> <ctxDone> <flags> <existing> <args> <stdinRecs> <op>*` → `executeAll` through the given entry point
(`execprogram` `execute` `ctx-background` `ctx-todo` `ctx-other`; `<ctxDone>` = `0|1`): the operations before `main` are BEGIN's,
those after it END's; the answer is the groups as for `run`, then ` ## ` and the outcome `finished` | `failed:<code>` | `ctxfailed`.
* effects: `stdout` `stderr` `stdin` `open:<n>:<rd|tr|ap>:<c|o>:<ok>` `exec:<n>:<ok>` `use:<n>:<kind>` `cl:<n>:<kind>` `soft` `err:<code>`
-/
namespace GoawkModel.Drv.C12
open GoawkModel GoawkModel.C12

def bit (c : Char) : Option Bool := if c = '1' then some true else if c = '0' then some false else none

def parseFlags (s : String) : Option Flags :=
  match s.toList with
  | [a, b, c, d] => do
    let a ← bit a; let b ← bit b; let c ← bit c; let d ← bit d
    pure { noExec := a, noWrites := b, noReads := c, hook := d }
  | _ => none

def parseList (s : String) : Option (List Bytes) :=
  if s = "." then some [] else (s.splitOn ",").mapM fromHex

def parseBool (s : String) : Option Bool := if s = "1" then some true else if s = "0" then some false else none

def parseOp (s : String) : Option IoOp :=
  match s.splitOn ":" with
  | ["gt", n, ok] => do pure (.printGt (← fromHex n) (← parseBool ok))
  | ["app", n, ok] => do pure (.printApp (← fromHex n) (← parseBool ok))
  | ["pipe", n, ok] => do pure (.printPipe (← fromHex n) (← parseBool ok))
  | ["gf", n] => do pure (.getlineFile (← fromHex n))
  | ["gc", n, ok] => do pure (.getlineCmd (← fromHex n) (← parseBool ok))
  | ["sys", n, ok] => do pure (.system (← fromHex n) (← parseBool ok))
  | ["gl"] => some .getline
  | ["main"] => some .mainLoop
  | ["close", n] => do pure (.close (← fromHex n))
  | ["ff", n] => do pure (.fflush (← fromHex n))
  | _ => none

def showKind : Kind → String
  | .inFile => "inFile" | .inCmd => "inCmd" | .outFile => "outFile" | .outCmd => "outCmd" | .outNull => "outNull"

def showErr : Err → String
  | .writeToReader => "writeToReader" | .readFromWriter => "readFromWriter" | .noFileWrites => "noFileWrites"
  | .noExecPipeOut => "noExecPipeOut" | .noExecPipeIn => "noExecPipeIn" | .noExecSystem => "noExecSystem"
  | .noFileReads => "noFileReads" | .redirect => "redirect" | .openFailed => "openFailed"

def showB (b : Bool) : String := if b then "1" else "0"

def showEffect : Effect → String
  | .useStdout => "stdout" | .useStderr => "stderr" | .useStdin => "stdin"
  | .open n m via ok =>
    "open:" ++ toHex n ++ ":" ++ (match m with | .rd => "rd" | .wrTrunc => "tr" | .wrAppend => "ap") ++ ":" ++
      (match via with | .configured => "c" | .osDirect => "o") ++ ":" ++ showB ok
  | .exec n ok => "exec:" ++ toHex n ++ ":" ++ showB ok
  | .useStream n k => "use:" ++ toHex n ++ ":" ++ showKind k
  | .closeStream n k => "cl:" ++ toHex n ++ ":" ++ showKind k
  | .soft => "soft"
  | .error e => "err:" ++ showErr e

def parseEntry : String → Option Entry
  | "execprogram" => some .execProgram
  | "execute" => some .execute
  | "ctx-background" => some .ctxBackground
  | "ctx-todo" => some .ctxTodo
  | "ctx-other" => some .ctxOther
  | _ => none

def showOutcome : Outcome → String
  | .finished => "finished"
  | .failed e => "failed:" ++ showErr e
  | .ctxFailed => "ctxfailed"

def showGroups (groups : List (List Effect)) : String :=
  String.intercalate " | " (groups.map fun g => if g.isEmpty then "none" else String.intercalate " " (g.map showEffect))

/-- the operations before the first `main` and those after it -/
def splitMain : List IoOp → Option (List IoOp × List IoOp)
  | [] => none
  | .mainLoop :: rest => some ([], rest)
  | op :: rest => (splitMain rest).map fun p => (op :: p.1, p.2)

def handle (args : List String) : String :=
  match args with
  | "exec" :: entry :: done :: flags :: existing :: operands :: recs :: ops =>
    match parseEntry entry, parseBool done, parseFlags flags, parseList existing, parseList operands, recs.toNat?, ops.mapM parseOp with
    | some e, some d, some f, some ex, some as, some r, some ops =>
      match splitMain ops with
      | some (b, en) =>
        let res := executeAll e d f (St.init ex as r) { begin := b, hasRest := true, endOps := en }
        "ok " ++ showGroups res.1 ++ " ## " ++ showOutcome res.2
      | none => "bad-request"
    | _, _, _, _, _, _, _ => "bad-request"
  | "run" :: flags :: existing :: operands :: recs :: ops =>
    match parseFlags flags, parseList existing, parseList operands, recs.toNat?, ops.mapM parseOp with
    | some f, some ex, some as, some r, some ops =>
      let groups := trace f (St.init ex as r) ops
      "ok " ++ String.intercalate " | " (groups.map fun g => if g.isEmpty then "none" else String.intercalate " " (g.map showEffect))
    | _, _, _, _, _ => "bad-request"
  | _ => "bad-request"

end GoawkModel.Drv.C12
