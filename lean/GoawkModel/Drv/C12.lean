import GoawkModel.Basic
/-! Line-protocol handler for property C12: one request line (already split into words, without the leading `c12`) → one answer line. -/
namespace GoawkModel.Drv.C12

def handle (_args : List String) : String := "unimplemented"

end GoawkModel.Drv.C12
