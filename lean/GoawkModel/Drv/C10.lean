import GoawkModel.Basic
import GoawkModel.C10
/-!
Line-protocol handler for property C10. Bytes travel as hex (`-` = empty), numbers as `nan | pinf | ninf | <mant>p<exp>`
(the exact value mant·2^exp of a float64), results as `num/den`, match lists as `a:b` words.

  int <num>                          → <numout>
  f2i <num>                          → <int>
  substr <chars> <s> <num>           → ok <hex> | panic
  substr3 <chars> <s> <num> <num>    → ok <hex> | panic
  length <chars> <s>                 → <int>
  runes <s>                          → <hex>*
  index <chars> <s> <t>              → <int>
  match <chars> <s> none|<a:b>       → <RSTART> <RLENGTH> ok <hex>|panic     (substr(s, RSTART, RLENGTH) in the same mode)
  sub <global> <s> <repl> <a:b>*     → <count> <hex>
  expand <match> <repl>              → <hex>
  split <s> <sep>                    → <n> <hex>*            (sep 20 = strings.Fields)
  case <upper> <s> <from:to>*        → <hex>                 (tolower/toupper; from:to = Go's mapping of the valid multi-byte runes)
  rsplit <s> <a:b>*                  → <n> <hex>*
  laws <s> <a:b>*                    → wf=<0|1> aligned=<0|1>
-/
namespace GoawkModel.Drv.C10
open GoawkModel GoawkModel.C10

def pow2 (n : Nat) : Int := (2 : Int) ^ n

def parseNum (w : String) : Option Num :=
  match w with
  | "nan" => some .nan
  | "pinf" => some .pinf
  | "ninf" => some .ninf
  | _ =>
    match w.splitOn "p" with
    | [m, e] =>
      match m.toInt?, e.toInt? with
      | some m, some e =>
        if e ≥ 0 then some (.fin ((m * pow2 e.toNat : Int) : Rat)) else some (.fin (mkRat m (pow2 (-e).toNat).toNat))
      | _, _ => none
    | _ => none

def showNum : Num → String
  | .nan => "nan"
  | .pinf => "pinf"
  | .ninf => "ninf"
  | .fin q => toString q.num ++ "/" ++ toString q.den

def parseBool (w : String) : Option Bool :=
  match w with
  | "0" => some false
  | "1" => some true
  | _ => none

def parsePair (w : String) : Option (Nat × Nat) :=
  match w.splitOn ":" with
  | [a, b] => match a.toNat?, b.toNat? with
    | some a, some b => some (a, b)
    | _, _ => none
  | _ => none

def parseHexPair (w : String) : Option (Bytes × Bytes) :=
  match w.splitOn ":" with
  | [a, b] => match fromHex a, fromHex b with
    | some a, some b => some (a, b)
    | _, _ => none
  | _ => none

def showOpt : Option Bytes → String
  | some b => "ok " ++ toHex b
  | none => "panic"

def showList (l : List Bytes) : String :=
  String.intercalate " " (toString l.length :: l.map toHex)

/-- every match boundary is a boundary of Go's rune decomposition of `s` -/
def boundaries (s : Bytes) : List Nat :=
  (runes s).foldl (fun acc r => (acc.head! + r.length) :: acc) [0]

def aligned (s : Bytes) (ms : List (Nat × Nat)) : Bool :=
  let bs := boundaries s
  ms.all fun (a, b) => bs.contains a && bs.contains b

def handle (args : List String) : String :=
  match args with
  | ["int", x] =>
    match parseNum x with
    | some x => showNum (awkInt x)
    | none => "bad-request"
  | ["f2i", x] =>
    match parseNum x with
    | some x => toString (floatToInt x)
    | none => "bad-request"
  | ["substr", c, s, m] =>
    match parseBool c, fromHex s, parseNum m with
    | some c, some s, some m => showOpt (awkSubstr c s m)
    | _, _, _ => "bad-request"
  | ["substr3", c, s, m, n] =>
    match parseBool c, fromHex s, parseNum m, parseNum n with
    | some c, some s, some m, some n => showOpt (awkSubstrLen c s m n)
    | _, _, _, _ => "bad-request"
  | ["length", c, s] =>
    match parseBool c, fromHex s with
    | some c, some s => toString (awkLength c s)
    | _, _ => "bad-request"
  | ["runes", s] =>
    match fromHex s with
    | some s => String.intercalate " " ((runes s).map toHex)
    | _ => "bad-request"
  | ["index", c, s, t] =>
    match parseBool c, fromHex s, fromHex t with
    | some c, some s, some t => toString (awkIndex c s t)
    | _, _, _ => "bad-request"
  | ["match", c, s, loc] =>
    match parseBool c, fromHex s with
    | some c, some s =>
      let l : Option (Option (Nat × Nat)) := if loc = "none" then some none else (parsePair loc).map some
      match l with
      | some l =>
        let r := awkMatch c s l
        toString r.1 ++ " " ++ toString r.2 ++ " " ++ showOpt (awkSubstrLen c s (ofInt r.1) (ofInt r.2))
      | none => "bad-request"
    | _, _ => "bad-request"
  | "sub" :: g :: s :: repl :: ms =>
    match parseBool g, fromHex s, fromHex repl, ms.mapM parsePair with
    | some g, some s, some repl, some ms =>
      let r := awkSub s repl g ms
      toString r.2 ++ " " ++ toHex r.1
    | _, _, _, _ => "bad-request"
  | ["expand", m, repl] =>
    match fromHex m, fromHex repl with
    | some m, some repl => toHex (expand m repl)
    | _, _ => "bad-request"
  | ["split", s, sep] =>
    match fromHex s, fromHex sep with
    | some s, some sep =>
      if sep = [32] then showList (stringsFields s)
      else if (runes sep).length > 1 then "unsupported" else showList (awkSplitLit s sep)
    | _, _ => "bad-request"
  | "case" :: up :: s :: pairs =>
    match parseBool up, fromHex s, pairs.mapM parseHexPair with
    | some up, some s, some pairs =>
      let uni : Bytes → Bytes := fun r => match pairs.find? (·.1 == r) with
        | some p => p.2
        | none => r
      toHex (mapCase (if up then asciiUpper else asciiLower) uni s)
    | _, _, _ => "bad-request"
  | "rsplit" :: s :: ms =>
    match fromHex s, ms.mapM parsePair with
    | some s, some ms => showList (awkSplitRegex s ms)
    | _, _ => "bad-request"
  | "laws" :: s :: ms =>
    match fromHex s, ms.mapM parsePair with
    | some s, some ms =>
      "wf=" ++ (if matchesWF s 0 ms then "1" else "0") ++ " aligned=" ++ (if aligned s ms then "1" else "0")
    | _, _ => "bad-request"
  | _ => "bad-request"

end GoawkModel.Drv.C10
