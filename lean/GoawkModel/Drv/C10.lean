import GoawkModel.Basic
/-! Line-protocol handler for property C10: one request line (already split into words, without the leading `c10`) → one answer line. -/
namespace GoawkModel.Drv.C10

def handle (_args : List String) : String := "unimplemented"

end GoawkModel.Drv.C10
