import GoawkModel.Basic
import GoawkModel.C04
/-! Line-protocol handler for property C04 (request already split into words, without the leading `c04`):

  `parse <pc> tok*`   → `ok <#tokens left> <tree>` | `err syntax` | `err unsupported`     (`parseExpr`; pc = 0 plain, 1 print argument)
  `min <pc> tok*`     → `ok tok*`   the model's minimal rendering of the (group-stripped) parse of the tokens
  `full <pc> tok*`    → `ok tok*`   the model's fully parenthesised rendering of the (group-stripped) parse

Token words: `n<i>` number, `v<i>` name, `s<i>` string, `f<i>` builtin; operators by their AWK spelling; `nl` newline, `eof`. -/
namespace GoawkModel.Drv.C04
open GoawkModel GoawkModel.C04

def aopWord : AOp → String
  | .set => "=" | .add => "+=" | .sub => "-=" | .mul => "*=" | .div => "/=" | .mod => "%=" | .pow => "^="
def cmpWord : Cmp → String
  | .eq => "==" | .ne => "!=" | .lt => "<" | .le => "<=" | .gt => ">" | .ge => ">="

def tokWord : Tok → String
  | .num i => s!"n{i}" | .name i => s!"v{i}" | .str i => s!"s{i}" | .func i => s!"f{i}"
  | .lparen => "(" | .rparen => ")" | .lbracket => "[" | .rbracket => "]" | .comma => "," | .question => "?" | .colon => ":"
  | .asg op => aopWord op
  | .or => "||" | .and => "&&" | .in_ => "in" | .match_ false => "~" | .match_ true => "!~" | .cmp c => cmpWord c
  | .add => "+" | .sub => "-" | .mul => "*" | .div => "/" | .mod => "%" | .pow => "^" | .not => "!"
  | .incr => "++" | .decr => "--" | .dollar => "$" | .at => "@" | .getline => "getline" | .pipe => "|" | .append => ">>"
  | .newline => "nl" | .semi => ";" | .rbrace => "}" | .eof => "eof" | .other => "other"

def wordTok (w : String) : Option Tok :=
  match w with
  | "(" => some .lparen | ")" => some .rparen | "[" => some .lbracket | "]" => some .rbracket | "," => some .comma
  | "?" => some .question | ":" => some .colon
  | "=" => some (.asg .set) | "+=" => some (.asg .add) | "-=" => some (.asg .sub) | "*=" => some (.asg .mul)
  | "/=" => some (.asg .div) | "%=" => some (.asg .mod) | "^=" => some (.asg .pow)
  | "||" => some .or | "&&" => some .and | "in" => some .in_ | "~" => some (.match_ false) | "!~" => some (.match_ true)
  | "==" => some (.cmp .eq) | "!=" => some (.cmp .ne) | "<" => some (.cmp .lt) | "<=" => some (.cmp .le)
  | ">" => some (.cmp .gt) | ">=" => some (.cmp .ge)
  | "+" => some .add | "-" => some .sub | "*" => some .mul | "/" => some .div | "%" => some .mod | "^" => some .pow
  | "!" => some .not | "++" => some .incr | "--" => some .decr | "$" => some .dollar | "@" => some .at
  | "getline" => some .getline | "|" => some .pipe | ">>" => some .append
  | "nl" => some .newline | ";" => some .semi | "}" => some .rbrace | "eof" => some .eof | "other" => some .other
  | _ =>
    match w.toList with
    | c :: ds =>
      match (String.ofList ds).toNat? with
      | some i =>
        if c == 'n' then some (.num i) else if c == 'v' then some (.name i) else if c == 's' then some (.str i)
        else if c == 'f' then some (.func i) else none
      | none => none
    | [] => none

def uopWord : UOp → String
  | .neg => "-" | .pos => "+" | .not => "!"
def bopWord : BOp → String
  | .or => "||" | .and => "&&" | .match_ => "~" | .notMatch => "!~" | .cmp c => cmpWord c | .concat => "cat"
  | .add => "+" | .sub => "-" | .mul => "*" | .div => "/" | .mod => "%" | .pow => "^"

def showTree : Expr → String
  | .none => "nil"
  | .num i => s!"n{i}"
  | .var i => s!"v{i}"
  | .str i => s!"s{i}"
  | .group e => "(grp " ++ showTree e ++ ")"
  | .unary op e => "(un " ++ uopWord op ++ " " ++ showTree e ++ ")"
  | .binary op l r => "(bin " ++ bopWord op ++ " " ++ showTree l ++ " " ++ showTree r ++ ")"
  | .cond c t f => "(cond " ++ showTree c ++ " " ++ showTree t ++ " " ++ showTree f ++ ")"
  | .assign op l r => "(asg " ++ aopWord op ++ " " ++ showTree l ++ " " ++ showTree r ++ ")"
  | .inArr e a => "(in " ++ showTree e ++ s!" v{a})"
  | .incr pre dec e => "(incr " ++ (if pre then "pre" else "post") ++ " " ++ (if dec then "--" else "++") ++ " " ++ showTree e ++ ")"
  | .field e => "(fld " ++ showTree e ++ ")"
  | .namedField e => "(nfld " ++ showTree e ++ ")"
  | .index a i => s!"(idx v{a} " ++ showTree i ++ ")"
  | .getline c t f => "(getline " ++ showTree c ++ " " ++ showTree t ++ " " ++ showTree f ++ ")"

def showToks (ts : List Tok) : String := String.intercalate " " (ts.map tokWord)

def errWord : Err → String
  | .syntax => "err syntax"
  | .unsupported => "err unsupported"

def handle (args : List String) : String :=
  match args with
  | cmd :: pcw :: ws =>
    let pc := pcw == "1"
    match ws.mapM wordTok with
    | none => "bad-token"
    | some ts =>
      if cmd == "print" then
        match parsePrint ts with
        | .error x => errWord x
        | .ok (a, none, rest) => s!"ok {rest.length} (print " ++ showTree a ++ " - nil)"
        | .ok (a, some (t, d), rest) => s!"ok {rest.length} (print " ++ showTree a ++ " " ++ tokWord t ++ " " ++ showTree d ++ ")"
      else
      match parseExpr pc ts with
      | .error x => errWord x
      | .ok (e, rest) =>
        if cmd == "parse" then s!"ok {rest.length} " ++ showTree e
        else if cmd == "min" then "ok " ++ showToks (renderMin pc (strip e))
        else if cmd == "full" then "ok " ++ showToks (renderFull (strip e))
        else "bad-request"
  | _ => "bad-request"

end GoawkModel.Drv.C04
