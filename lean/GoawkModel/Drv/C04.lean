import GoawkModel.Basic
/-! Line-protocol handler for property C04: one request line (already split into words, without the leading `c04`) → one answer line. -/
namespace GoawkModel.Drv.C04

def handle (_args : List String) : String := "unimplemented"

end GoawkModel.Drv.C04
