import GoawkModel.Basic
import GoawkModel.C14
/-!
Line-protocol handler for property C14.

`hist <call>*` where a call is `RV` (ResetVars), `RR` (ResetRand) or
`X <flags> <varG|-> <input> <b> <m> <e>`: flags = five 0/1 digits (csv, header, Vars FS=",", bad Vars entry, ExecuteContext);
input = records joined by `/` with `_` for a space (`-` = empty); b/m/e = scripts, operations joined by `;` (`-` = empty).
Answer: `ok` followed by one word `<status>:<error kind>:<hex of the output>` per X call.
-/
namespace GoawkModel.Drv.C14
open GoawkModel GoawkModel.C14

def parseOp (w : String) : Option Op :=
  match w.splitOn ":" with
  | ["g", i, v] => i.toNat?.map (fun i => Op.setG i v)
  | ["a", k, v] => some (.setA k v)
  | ["d", k] => some (.delA k)
  | ["ofs", v] => some (.setOfs v)
  | ["cf", v] => some (.setCf v)
  | ["fs", "c"] => some (.setFs true)
  | ["fs", "s"] => some (.setFs false)
  | ["nr", n] => n.toNat?.map Op.setNR
  | ["rec", v] => some (.setRec v)
  | ["gl"] => some .getline
  | ["gd"] => some .getDash
  | ["m", n] => n.toNat?.map Op.matchOp
  | ["rx", k] => some (.rx k)
  | ["sr", n] => n.toNat?.map Op.srand
  | ["rn"] => some .rand
  | ["nm", k] => some (.name k)
  | ["x", n] => n.toNat?.map Op.exit
  | ["err"] => some .err
  | ["cn"] => some .cancel
  | ["p"] => some .probe
  | _ => none

def parseScript (w : String) : Option (List Op) :=
  if w == "-" then some [] else (w.splitOn ";").mapM parseOp

def parseInput (w : String) : List String :=
  if w == "-" then [] else (w.splitOn "/").map (fun l => l.replace "_" " ")

def parseCalls : List String → Option (List Call)
  | [] => some []
  | "RV" :: rest => (parseCalls rest).map (Call.resetVars :: ·)
  | "RR" :: rest => (parseCalls rest).map (Call.resetRand :: ·)
  | "X" :: flags :: varG :: input :: b :: m :: e :: rest =>
    match flags.toList, parseScript b, parseScript m, parseScript e, parseCalls rest with
    | [f1, f2, f3, f4, f5], some b, some m, some e, some rest =>
      some (Call.exec ⟨f1 == '1', f2 == '1', parseInput input, f3 == '1', if varG == "-" then none else some varG,
        f4 == '1', f5 == '1', b, m, e⟩ :: rest)
    | _, _, _, _, _ => none
  | _ => none

def errName : ErrKind → String
  | .none => "none" | .divzero => "divzero" | .nonames => "nonames" | .cancelled => "cancelled" | .config => "config"

def renderResult (r : Result) : String :=
  toString r.status ++ ":" ++ errName r.err ++ ":" ++ toHex (ofString (String.intercalate "\n" r.out))

def handle (args : List String) : String :=
  match args with
  | "hist" :: calls =>
    match parseCalls calls with
    | some cs => String.intercalate " " ("ok" :: (historyResults cs fresh).map renderResult)
    | none => "bad-request"
  | _ => "bad-request"

end GoawkModel.Drv.C14
