import GoawkModel.Basic
/-! Line-protocol handler for property C14: one request line (already split into words, without the leading `c14`) → one answer line. -/
namespace GoawkModel.Drv.C14

def handle (_args : List String) : String := "unimplemented"

end GoawkModel.Drv.C14
