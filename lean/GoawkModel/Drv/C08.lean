import GoawkModel.Basic
/-! Line-protocol handler for property C08: one request line (already split into words, without the leading `c08`) → one answer line. -/
namespace GoawkModel.Drv.C08

def handle (_args : List String) : String := "unimplemented"

end GoawkModel.Drv.C08
