import GoawkModel.Basic
import GoawkModel.C08
import GoawkModel.C08Scan
/-!
Line-protocol handler for property C08 (bytes in hex, `-` = empty):
* `read <sep> <comment> <header:0|1> <data>`   → `ok <hdr> <rec>*` with `<hdr>` = `H` + fields joined by `,` or `none`,
  `<rec>` = fields joined by `,` + `|` + `$0`  (the specification reader `csvRecords`)
* `scan <sep> <comment> <header:0|1> <eofWithLastChunk:0|1> <chunk>*` → same answer format, from the scanner model
  (`csvScanAll`: `csvSplitter.scan` driven by the `bufio.Scanner` loop over that delivery schedule)
* `write <sep> <field>*`                      → `ok <bytes>`      (`csvWrite`)
* `join <sep> <field>*`                       → `ok <bytes>`      (`joinFields`)
* `reparse <sep> <comment> <line>`            → `ok <fields joined by ,>` / `ok none` for no fields
-/
namespace GoawkModel.Drv.C08
open GoawkModel GoawkModel.C08

def renderFields (fs : List Bytes) : String := String.intercalate "," (fs.map toHex)

def renderRec (r : List Bytes × Bytes) : String := renderFields r.1 ++ "|" ++ toHex r.2

def renderRecs (hdr : Option (List Bytes)) (rs : List (List Bytes × Bytes)) : String :=
  let h := match hdr with
    | some fs => "H" ++ renderFields fs
    | none => "none"
  String.intercalate " " ("ok" :: h :: rs.map renderRec)

def handle (args : List String) : String :=
  match args with
  | ["read", sep, comment, header, data] =>
    match fromHex sep, fromHex comment, fromHex data with
    | some sep, some comment, some data =>
      let cfg : Cfg := { sep := sep, comment := comment, header := header == "1" }
      renderRecs (csvHeader cfg data) (csvRecords cfg data)
    | _, _, _ => "bad-hex"
  | "scan" :: sep :: comment :: header :: eofWith :: chunks =>
    match fromHex sep, fromHex comment, chunks.mapM fromHex with
    | some sep, some comment, some cs =>
      let cfg : Cfg := { sep := sep, comment := comment, header := header == "1" }
      let out := csvScanAll cfg (eofWith == "1") (cs.filter (· ≠ []))
      renderRecs out.names out.recs
    | _, _, _ => "bad-hex"
  | "write" :: sep :: fields =>
    match fromHex sep, fields.mapM fromHex with
    | some sep, some fs => "ok " ++ toHex (csvWrite sep fs)
    | _, _ => "bad-hex"
  | "join" :: sep :: fields =>
    match fromHex sep, fields.mapM fromHex with
    | some sep, some fs => "ok " ++ toHex (joinFields sep fs)
    | _, _ => "bad-hex"
  | ["reparse", sep, comment, line] =>
    match fromHex sep, fromHex comment, fromHex line with
    | some sep, some comment, some line =>
      match reparse { sep := sep, comment := comment } line with
      | [] => "ok none"
      | fs => "ok " ++ renderFields fs
    | _, _, _ => "bad-hex"
  | _ => "bad-request"

end GoawkModel.Drv.C08
