import GoawkModel.Basic
/-! Line-protocol handler for property C02: one request line (already split into words, without the leading `c02`) → one answer line. -/
namespace GoawkModel.Drv.C02

def handle (_args : List String) : String := "unimplemented"

end GoawkModel.Drv.C02
