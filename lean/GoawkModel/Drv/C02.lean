import GoawkModel.Basic
import GoawkModel.C02
import GoawkModel.C02Str
/-! Line-protocol handler for property C02: one request line (already split into words) → one answer line.

  verify <nNums> <nStrs> <nRegexes> <nScalars> <nArrays> <nNative> <nFuncs> (F <numScalars> <numArrays> <len> <word>*)*
         (B <endHeight> <len> <word>*)*                      → ok | bad <which block> <pc> <reason>
  field get <nFields> <bits16hex> | field set <nFields> <bits> | field nf <bits> | field argc <bits>
  consts                                                     → <maxCallDepth> <maxFieldIndex> <numOpcodes>
  depth <n>                                                  → outcome of n nested calls of a one-function program
  substr b|c <hex string> <bits16hex pos> [<bits16hex length>] → ok <hex> | stuck   (b = byte mode, c = character mode)
-/
namespace GoawkModel.Drv.C02
open GoawkModel GoawkModel.C02 GoawkModel.Generated

def parseInts (ws : List String) : Option (List Int) := ws.mapM String.toInt?

/-- split `n` ints off the front -/
def takeN (n : Nat) (xs : List Int) : Option (List Int × List Int) :=
  if xs.length < n then none else some (xs.take n, xs.drop n)

/-- parse `count` sections, each introduced by a marker word already turned into a number by the caller -/
partial def parseFuncs : Nat → List String → Option (List FuncInfo × List String)
  | 0, ws => some ([], ws)
  | k + 1, "F" :: ns :: na :: len :: rest =>
    match ns.toNat?, na.toNat?, len.toNat? with
    | some ns, some na, some len =>
      match parseInts (rest.take len) with
      | some body =>
        if body.length ≠ len then none else
        match parseFuncs k (rest.drop len) with
        | some (fs, ws) => some ({ numScalars := ns, numArrays := na, body := body } :: fs, ws)
        | none => none
      | none => none
    | _, _, _ => none
  | _, _ => none

partial def parseBlocks : List String → Option (List (Code × Nat))
  | [] => some []
  | "B" :: e :: len :: rest =>
    match e.toNat?, len.toNat? with
    | some e, some len =>
      match parseInts (rest.take len) with
      | some body =>
        if body.length ≠ len then none else
        match parseBlocks (rest.drop len) with
        | some bs => some ((body, e) :: bs)
        | none => none
      | none => none
    | _, _ => none
  | _ => none

def parseProg (ws : List String) : Option Prog :=
  match ws with
  | a :: b :: c :: d :: e :: f :: g :: rest =>
    match a.toNat?, b.toNat?, c.toNat?, d.toNat?, e.toNat?, f.toNat?, g.toNat? with
    | some a, some b, some c, some d, some e, some f, some g =>
      match parseFuncs g rest with
      | some (fs, ws') =>
        match parseBlocks ws' with
        | some bs => some { tables := { nNums := a, nStrs := b, nRegexes := c, nScalars := d, nArrays := e, nNative := f, funcs := fs }, blocks := bs }
        | none => none
      | none => none
    | _, _, _, _, _, _, _ => none
  | _ => none

/-- diagnosis of a rejected block (untrusted; only for the message) -/
partial def diagBlock (t : Tables) (cx : Ctx) (inLoop : Bool) (endH : Nat) (code : Code) : String :=
  let H := infer t cx code
  let bs := boundaries t cx code (code.length + 1) 0
  match (List.range (code.length + 1)).find? (fun pc => !((hAt H pc).isNone || bs.contains pc)) with
  | some pc => s!"{pc} height-off-boundary"
  | none =>
    if !(hAt H code.length == none || hAt H code.length == some endH) then s!"{code.length} end-height-{repr (hAt H code.length)}-want-{endH}" else
    match (List.range code.length).find? (fun pc => !checkAt t cx inLoop code H (fun _ => true) pc) with
    | some pc =>
      match decode t cx code pc with
      | none => s!"{pc} undecodable-op-{code.getD pc 0}"
      | some i => s!"{pc} stack-or-jump-{(reprStr i).replace " " "_"}-at-height-{repr (hAt H pc)}"
    | none =>
      match (List.range code.length).find? (fun pc => !checkAt t cx inLoop code H (fun body => verifyBlock t cx (body.length + 1) true 0 body) pc) with
      | some pc =>
        match decode t cx code pc with
        | some (.forIn len bodyLen) => s!"{pc} forin-body: " ++ diagBlock t cx true 0 ((code.drop (pc + len)).take bodyLen)
        | _ => s!"{pc} ?"
      | none => "0 fuel"

def diag (p : Prog) : String :=
  let t := p.tables
  match (List.range p.blocks.length).find? (fun i => match p.blocks[i]? with | some b => !verifyTop t b | none => false) with
  | some i => match p.blocks[i]? with
    | some b => s!"bad block {i} " ++ diagBlock t topCtx false b.2 b.1
    | none => "bad ?"
  | none =>
    match (List.range t.funcs.length).find? (fun i => match t.funcs[i]? with | some f => !verifyFunc t f | none => false) with
    | some i => match t.funcs[i]? with
      | some f => s!"bad func {i} " ++ diagBlock t (funcCtx f) false 0 f.body
      | none => "bad ?"
    | none => "bad ?"

def hexNat (s : String) : Option Nat :=
  s.toList.foldlM (fun acc c => (hexVal c).map fun v => acc * 16 + v) 0

def showField : FieldRes → String
  | .line => "line" | .empty => "empty" | .field i => s!"field:{i}" | .stuck => "stuck"
def showSet : SetRes → String
  | .setLine => "setline" | .ok n s => s!"ok:{n}:{s}" | .ignored => "ignored" | .error => "error" | .stuck => "stuck"

/-- n nested calls of `function f(x) { return f(x) }`-shaped code in the abstract machine: Num, CallUser f 0, Return -/
def depthProbe (n : Nat) : String :=
  let op (n : String) : Int := ((Opcodes.opcodes.idxOf n : Nat) : Int)
  let body : Code := [op "Local", 0, op "CallUser", 0, 0, op "Return"]
  let f : FuncInfo := { numScalars := 1, numArrays := 0, body := body }
  let t : Tables := { nNums := 1, nStrs := 0, nRegexes := 0, nScalars := 0, nArrays := 0, nNative := 0, funcs := [f] }
  let main : Code := [op "Num", 0, op "CallUser", 0, 0, op "Drop"]
  match run t (initState main 0) (List.replicate (2 * n + 1) Choice.a) with
  | .next s => s!"running depth={callDepth s}"
  | .done => "done"
  | .error => "error"
  | .stuck => "stuck"

def handle (args : List String) : String :=
  match args with
  | "verify" :: rest =>
    match parseProg rest with
    | none => "bad-request"
    | some p => if verify p then "ok" else diag p
  | ["field", "get", n, bits] =>
    match n.toNat?, hexNat bits with
    | some n, some b => showField (getField n (floatToInt (Num.ofBits b)))
    | _, _ => "bad-request"
  | ["field", "set", n, bits] =>
    match n.toNat?, hexNat bits with
    | some n, some b => showSet (setField n (floatToInt (Num.ofBits b)))
    | _, _ => "bad-request"
  | ["field", "nf", bits] =>
    match hexNat bits with
    | some b => match setNF (Num.ofBits b) with | some k => s!"ok:{k}" | none => "error"
    | none => "bad-request"
  | ["field", "argc", bits] =>
    match hexNat bits with
    | some b => if setARGC (Num.ofBits b) then "ok" else "error"
    | none => "bad-request"
  | "substr" :: mode :: sh :: pb :: rest =>
    let lenBits : Option (Option Nat) := match rest with
      | [] => some none
      | [lb] => (hexNat lb).map some
      | _ => none
    match fromHex sh, hexNat pb, lenBits with
    | some s, some p, some lb =>
      match substr (mode == "c") s (Num.ofBits p) (lb.map Num.ofBits) with
      | .ok b => "ok " ++ toHex b
      | .stuck => "stuck"
    | _, _, _ => "bad-request"
  | ["consts"] => s!"{Consts.maxCallDepth} {Consts.maxFieldIndex} {C02Arity.numOpcodes}"
  | ["depth", n] => match n.toNat? with | some n => depthProbe n | none => "bad-request"
  | _ => "bad-request"

end GoawkModel.Drv.C02
