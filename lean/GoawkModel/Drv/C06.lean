import GoawkModel.Basic
import GoawkModel.C06
import GoawkModel.C06Regex
/-!
Line-protocol handler for property C06.

Request `rec <rsEmpty 0|1> <op>*`, ops:
`L:<hex>` (`$0 = s`), `R:<hex>` (record read from input), `G:<num>` (read `$i`), `S:<num>:<hex>` (`$i = v`), `N` (read NF),
`Mn:<num>` (NF = number), `Ms:<hex>:<num>` (NF = string with numeric value), `F:<hex>:<re|!>` (FS), `O:<hex>` (OFS),
`C:<hex byte>` / `C:-` / `C:!` (OUTPUTMODE csv with separator / default / invalid), `D` (dump: NF, `$0`, `$1..$NF`),
`A~<v|g|m>~<hex record|->~<op word>` (a `var=value` operand performing that op, reached by `getline var` / `getline` / the main
loop; answer `g:1`, `g:-1` (rejected, program continues) or, for the main loop, `_` / the error),
`I:<num>:<hex>` (`$i++`, `$i op= k`: read `$i`, then assign the given result), `J:<int>` (`NF++`, `NF += d`: read NF, assign NF+d).
`<num>` is `n`, `n/d`, `nan`, `inf`, `-inf`.  Answer: one token per observation:
`_` (no output), `v:<isTrueStr>:<hex>`, `n:<hex shown>:<num>`, `e:<kind>:<int>` (then the history stops).
-/
namespace GoawkModel.Drv.C06
open GoawkModel GoawkModel.C06

def parseInt (s : String) : Option Int :=
  if s.startsWith "-" then (s.drop 1).toNat?.map (fun n => - Int.ofNat n) else s.toNat?.map Int.ofNat

def parseNum (s : String) : Option Num :=
  if s = "nan" then some .nan
  else if s = "inf" then some (.inf false)
  else if s = "-inf" then some (.inf true)
  else match s.splitOn "/" with
    | [a] => (parseInt a).map (fun n => .rat n 1)
    | [a, b] => match parseInt a, b.toNat? with
      | some n, some d => some (.rat n d)
      | _, _ => none
    | _ => none

def showNum : Num → String
  | .rat n d => toString n ++ "/" ++ toString d
  | .nan => "nan"
  | .inf neg => if neg then "-inf" else "inf"

def showErr : Err → String
  | .fieldTooLarge i => "e:fieldTooLarge:" ++ toString i
  | .nfNegative n => "e:nfNegative:" ++ toString n
  | .nfTooLarge n => "e:nfTooLarge:" ++ toString n
  | .badRegex => "e:badRegex:0"
  | .badOutMode => "e:badOutMode:0"

def showOut : Out → String
  | .none => "_"
  | .val b t => "v:" ++ (if t then "1" else "0") ++ ":" ++ toHex b
  | .nf v => "n:" ++ toHex v.shown ++ ":" ++ showNum v.val
  | .err e => showErr e

inductive Item where
  | op (o : Op Re)
  | dump
  | rmw (i : Num) (v : Bytes)   -- `$i++`, `$i += k` …: `getField i` (value used by the VM), then `setField i v`
  | nfIncr (d : Int)            -- `NF++`, `NF += d`: `getSpecial(NF)`, then `setSpecial(NF, num(v + d))`
  | noop                        -- `getline var` / `getline var < file`: reads a record into a variable, the current record is untouched
  | operand (route : String) (rec : Option Bytes) (o : Op Re)
    -- a `var=value` command-line operand reached by `getline var` ("v"), plain `getline` ("g") or the main loop ("m");
    -- `rec` = the record that the reader then delivers when the assignment is accepted ("g", "m")

def parseOpColon (w : String) : Option Item :=
  match w.splitOn ":" with
  | ["L", h] => (fromHex h).map (fun b => .op (.setLine b true))
  | ["R", h] => (fromHex h).map (fun b => .op (.setLine b false))
  | ["G", n] => (parseNum n).map (fun x => .op (.getField x))
  | ["S", n, h] => match parseNum n, fromHex h with
    | some x, some b => some (.op (.setField x b))
    | _, _ => none
  | ["N"] => some (.op .getNF)
  | ["Mn", n] => (parseNum n).map (fun x => .op (.setNF (.num x)))
  | ["Ms", h, n] => match fromHex h, parseNum n with
    | some b, some x => some (.op (.setNF (.str b x)))
    | _, _ => none
  | ["F", h, re] => match fromHex h with
    | some b => if re = "!" then some (.op (.setFS b none)) else (parseReWord re).map (fun r => .op (.setFS b (some r)))
    | none => none
  | ["O", h] => (fromHex h).map (fun b => .op (.setOFS b))
  | ["C", h] =>
    if h = "-" then some (.op (.setOutMode .default))
    else if h = "!" then some (.op (.setOutMode .invalid))
    else match fromHex h with
      | some [c] => some (.op (.setOutMode (.csv c)))
      | _ => none
  | ["D"] => some .dump
  | ["K"] => some .noop
  | ["I", n, h] => match parseNum n, fromHex h with
    | some x, some b => some (.rmw x b)
    | _, _ => none
  | ["J", d] => (parseInt d).map .nfIncr
  | _ => none

/-- `A~<route>~<hex record|->~<op word>` wraps the op word of the assignment the operand performs -/
def parseOp (w : String) : Option Item :=
  match w.splitOn "~" with
  | ["A", route, rec, opw] =>
    match parseOpColon opw with
    | some (.op o) =>
      if route = "v" then some (.operand route none o)
      else (fromHex rec).map (fun b => .operand route (some b) o)
    | _ => none
  | [w'] => parseOpColon w'
  | _ => none

def isErr : Out → Bool
  | .err _ => true
  | _ => false

/-- run the items; a dump is NF, `$0`, then `$1..$NF` (NF taken as the count the model reports numerically) -/
def runItems (r : Rec Re) : List Item → List String → List String
  | [], acc => acc.reverse
  | .op o :: rest, acc =>
    let (r', out) := step findAll r o
    if isErr out then (showOut out :: acc).reverse else runItems r' rest (showOut out :: acc)
  | .rmw i v :: rest, acc =>
    let (r1, _) := step findAll r (.getField i)
    let (r2, out) := step findAll r1 (.setField i v)
    if isErr out then (showOut out :: acc).reverse else runItems r2 rest (showOut out :: acc)
  | .nfIncr d :: rest, acc =>
    let (r1, o1) := step findAll r .getNF
    let x : Num := match o1 with
      | .nf v => (match v.val with
        | .rat n dn => .rat (n + d * (dn : Int)) dn
        | other => other)
      | _ => .nan
    let (r2, out) := step findAll r1 (.setNF (.num x))
    if isErr out then (showOut out :: acc).reverse else runItems r2 rest (showOut out :: acc)
  | .noop :: rest, acc => runItems r rest ("g:1" :: acc)
  | .operand route rec o :: rest, acc =>
    let (r1, out) := step findAll r o
    if isErr out then
      -- rejected: fatal in the main loop; `getline` turns it into the return value -1 and the program goes on
      if route = "m" then (showOut out :: acc).reverse else runItems r1 rest ("g:-1" :: acc)
    else
      let r2 := match rec with
        | some b => (step findAll r1 (.setLine b false)).1
        | none => r1
      runItems r2 rest ((if route = "m" then "_" else "g:1") :: acc)
  | .dump :: rest, acc =>
    let (r1, o1) := step findAll r .getNF
    let (r2, o2) := step findAll r1 (.getField (.rat 0 1))
    let n := r2.fields.length
    let (r3, outs) := (List.range n).foldl (fun (st : Rec Re × List String) k =>
      let (r', o) := step findAll st.1 (.getField (.rat (Int.ofNat (k + 1)) 1))
      (r', showOut o :: st.2)) (r2, [])
    runItems r3 rest (outs ++ (showOut o2 :: showOut o1 :: acc))

def handle (args : List String) : String :=
  match args with
  | "rec" :: rs :: ops =>
    match ops.mapM parseOp with
    | some items => String.intercalate " " ("ok" :: runItems (Rec.init (rs = "1")) items [])
    | none => "bad-op"
  | _ => "bad-request"

end GoawkModel.Drv.C06
