import GoawkModel.Basic
/-! Line-protocol handler for property C06: one request line (already split into words, without the leading `c06`) → one answer line. -/
namespace GoawkModel.Drv.C06

def handle (_args : List String) : String := "unimplemented"

end GoawkModel.Drv.C06
