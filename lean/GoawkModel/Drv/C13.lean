import GoawkModel.Basic
/-! Line-protocol handler for property C13: one request line (already split into words, without the leading `c13`) → one answer line. -/
namespace GoawkModel.Drv.C13

def handle (_args : List String) : String := "unimplemented"

end GoawkModel.Drv.C13
