import GoawkModel.Basic
import GoawkModel.C13
import GoawkModel.C13Newline
import GoawkModel.C13Csv
/-! Line-protocol handler for property C13.

`run <buffered 0|1> <failAt | -> <fs> <op>*`
* `<fs>`: `name=content` pairs (hex), comma separated, `.` for none
* ops: `p:<c>` `gt:<n>:<c>` `app:<n>:<c>` `pipe:<n>:<c>` `close:<n>` `ff:<n>` `ffa` `sys:<n>` `gf:<n>` `exit:<k>` `fail`
* commands by (symbolic) name: `sink<k>…` swallows its input, exit status k; `echo…` copies its input to stdout at EOF;
  system: `snap_<file>` looks at a file, `say_<tok>` prints `<tok>\n`, `rc<k>` exits with k
`runx <crlf 0|1> <buffered 0|1> <failAt | -> <fs> <stmt>*` — the same with the newline-output mode and print statements:
* `ofs:<v>` `ors:<v>` `rec:<v>` (assignments to OFS, ORS, $0; no return value, not an operation of the output model)
* `om:<sep>` (OUTPUTMODE: the separator of a CSV / TSV mode, `-` = the default mode; also sent first for the mode a run starts in)
* in `p:` `gt:` `app:` `pipe:` the content is `P` (bare print), `P<arg>+<arg>…` (print with arguments) or `F<s>` / `<s>`
  (printf: one write of the formatted string); lowered by `GoawkModel.C13.lower`
`csvread <sep> <text>` — the specification-side CSV reader (`GoawkModel.C13.csvRead`, one-byte separator) on a text (hex):
answer `ok <record>;<record>…` (a record = its fields in hex, comma separated) or `none`
answer: `ok <ret>* ; <outcome> ; <out> ; <flush,…> ; <name=content,…> ; <cmd:input:status,…>` -/
namespace GoawkModel.Drv.C13
open GoawkModel GoawkModel.C13

def isPrefix : Bytes → Bytes → Bool
  | [], _ => true
  | _ :: _, [] => false
  | a :: p, b :: n => a == b && isPrefix p n

def digitAt (n : Bytes) (i : Nat) : Nat := ((n.getD i 48).toNat - 48) % 10

def beh : Beh where
  pipe := fun n input =>
    if isPrefix (ofString "sink") n then ([], digitAt n 4)
    else if isPrefix (ofString "echo") n then (input, 0)
    else ([], 0)
  sys := fun c fs =>
    if isPrefix (ofString "snap_") c then (content fs (c.drop 5), [], 0)
    else if isPrefix (ofString "say_") c then ([], c.drop 4 ++ [10], 0)
    else if isPrefix (ofString "rc") c then ([], [], digitAt c 2)
    else ([], [], 0)

def parsePair (s : String) : Option (Name × Bytes) :=
  match s.splitOn "=" with
  | [a, b] => do pure (← fromHex a, ← fromHex b)
  | _ => none

def parseFs (s : String) : Option (List (Name × Bytes)) :=
  if s = "." then some [] else (s.splitOn ",").mapM parsePair

def parseOp (s : String) : Option Op :=
  match s.splitOn ":" with
  | ["p", c] => do pure (.print (← fromHex c))
  | ["gt", n, c] => do pure (.printTo .gt (← fromHex n) (← fromHex c))
  | ["app", n, c] => do pure (.printTo .app (← fromHex n) (← fromHex c))
  | ["pipe", n, c] => do pure (.printTo .pipe (← fromHex n) (← fromHex c))
  | ["close", n] => do pure (.close (← fromHex n))
  | ["ff", n] => do pure (.fflush (← fromHex n))
  | ["ffa"] => some .fflushAll
  | ["sys", n] => do pure (.system (← fromHex n))
  | ["gf", n] => do pure (.getlineFile (← fromHex n))
  | ["exit", k] => do pure (.exit (← k.toNat?))
  | ["fail"] => some .fail
  | _ => none

def parseBody (d : Option (Redir × Name)) (c : String) : Option Stmt :=
  match c.toList with
  | 'P' :: [] => some (.print d [])
  | 'P' :: rest => do pure (.print d (← ((String.ofList rest).splitOn "+").mapM fromHex))
  | 'F' :: rest => do pure (.printf d (← fromHex (String.ofList rest)))
  | _ => do pure (.printf d (← fromHex c))

def parseStmt (s : String) : Option Stmt :=
  match s.splitOn ":" with
  | ["ofs", v] => do pure (.setOFS (← fromHex v))
  | ["ors", v] => do pure (.setORS (← fromHex v))
  | ["rec", v] => do pure (.setRec (← fromHex v))
  | ["om", v] => do let sep ← fromHex v; pure (.setOM (if sep.isEmpty then none else some sep))
  | ["p", c] => parseBody none c
  | ["gt", n, c] => do parseBody (some (.gt, ← fromHex n)) c
  | ["app", n, c] => do parseBody (some (.app, ← fromHex n)) c
  | ["pipe", n, c] => do parseBody (some (.pipe, ← fromHex n)) c
  | _ => do pure (.other (← parseOp s))

def showErr : Err → String
  | .writeToReader => "writeToReader" | .readFromWriter => "readFromWriter" | .stdoutWrite => "stdoutWrite" | .divZero => "divZero"

def showRet : Ret → String
  | .none => "-"
  | .num v => "n" ++ toString v
  | .line r l => "l" ++ toString r ++ ":" ++ toHex l
  | .err e => "e" ++ showErr e
  | .exit c => "x" ++ toString c

def showOutcome : Outcome → String
  | .ok st => "ok" ++ toString st
  | .error e => "error:" ++ showErr e

def commaOr (l : List String) : String := if l.isEmpty then "." else String.intercalate "," l

def handleCsvRead (sep text : String) : String :=
  match fromHex sep, fromHex text with
  | some [c], some t =>
    match csvRead c t .fieldStart [] [] [] with
    | some recs => "ok " ++ String.intercalate ";" (recs.map fun r => String.intercalate "," (r.map toHex))
    | none => "none"
  | _, _ => "bad-request"

def handleRun (args : List String) : String :=
  let parsed : Option (String × String × String × List Op) :=
    match args with
    | "run" :: buffered :: failAt :: fs :: ops => do pure (buffered, failAt, fs, ← ops.mapM parseOp)
    | "runx" :: crlf :: buffered :: failAt :: fs :: stmts => do
      pure (buffered, failAt, fs, lower (Fmt.init (crlf = "1")) (← stmts.mapM parseStmt))
    | _ => none
  match parsed with
  | some (buffered, failAt, fs, ops) =>
    match parseFs fs with
    | some fs =>
      let fa : Option Nat := if failAt = "-" then none else failAt.toNat?
      let r := run beh (St.init (buffered = "1") fa fs) ops
      let s := r.2.2
      String.intercalate " " ["ok", commaOr (r.1.map showRet), showOutcome r.2.1, toHex s.out, commaOr (s.flushes.map toHex),
        commaOr (s.fs.map fun p => toHex p.1 ++ "=" ++ toHex p.2),
        commaOr (s.procs.map fun p => toHex p.1 ++ ":" ++ toHex p.2.1 ++ ":" ++ toString p.2.2),
        toHex s.outLog]
    | none => "bad-request"
  | none => "bad-request"

def handle (args : List String) : String :=
  match args with
  | ["csvread", sep, text] => handleCsvRead sep text
  | _ => handleRun args

end GoawkModel.Drv.C13
