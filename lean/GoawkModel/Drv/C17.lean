import GoawkModel.Basic
/-! Line-protocol handler for property C17: one request line (already split into words, without the leading `c17`) → one answer line. -/
namespace GoawkModel.Drv.C17

def handle (_args : List String) : String := "unimplemented"

end GoawkModel.Drv.C17
