import GoawkModel.Basic
import GoawkModel.C17
/-! Line-protocol handler for property C17.

Types: `Int8`, `n.Int8` (named), `s.<ty>` / `ns.<ty>` (slice / named slice), `error`.
* `call <nil01> <variadic01> P <ty>* R <ty>* A <num16hex:t|f:strhex>* B <nval> <nil|e<hex>>`
    → `<ok null f|ok n<16hex> <t|f>|ok s<hex> <t|f>|err <hex>|panic> (norecv | recv <nval>*)`
* `check <namehex> <fval>` → `ok | err <class> | panic`      fval = `func <nil01> <variadic01> P <ty>* R <ty>*` | `other <Kind>` | `nil`
* `resolve <nargs> <fval>` → `ok | notfunc | toomany`
nval = `b0|b1|i<dec>|f<8hex>|d<16hex>|s<hex>|nil` -/
namespace GoawkModel.Drv.C17
open GoawkModel GoawkModel.C17

def hexNat (s : String) : Option Nat :=
  s.toList.foldlM (fun acc c => (hexVal c).map (acc * 16 + ·)) 0

def natHex (width n : Nat) : String :=
  String.ofList ((List.range width).reverse.map fun i => hexDigit ((n >>> (4 * i)) % 16))

def parseTyToks : List String → Option Ty
  | ["error"] => some .error
  | [k] => (RKind.ofName k).map (Ty.prim · false)
  | ["n", k] => (RKind.ofName k).map (Ty.prim · true)
  | "s" :: rest => (parseTyToks rest).map (Ty.slice · false)
  | "ns" :: rest => (parseTyToks rest).map (Ty.slice · true)
  | _ => none

def parseTy (s : String) : Option Ty := parseTyToks (s.splitOn ".")

def parseNVal (s : String) : Option NVal :=
  if s == "nil" then some .nilSlice else
  match s.toList with
  | 'b' :: ['0'] => some (.b false)
  | 'b' :: ['1'] => some (.b true)
  | 'i' :: r => (String.ofList r).toInt?.map .i
  | 'f' :: r => (hexNat (String.ofList r)).map .f32
  | 'd' :: r => (hexNat (String.ofList r)).map .f64
  | 's' :: r => (fromHex (String.ofList r)).map .s
  | _ => none

def showNVal : NVal → String
  | .b x => if x then "b1" else "b0"
  | .i x => "i" ++ toString x
  | .f32 x => "f" ++ natHex 8 (if (x >>> 23) % 256 == 255 && x % 2 ^ 23 != 0 then 0x7fc00001 else x)
  | .f64 x => "d" ++ natHex 16 (canon64 x)
  | .s x => "s" ++ toHex x
  | .nilSlice => "nil"

def parseAVal (s : String) : Option AVal :=
  match s.splitOn ":" with
  | [n, t, x] =>
    match hexNat n, fromHex x with
    | some n, some x => some ⟨n, t == "t", x⟩
    | _, _ => none
  | _ => none

def tf (b : Bool) : String := if b then "t" else "f"

/-- split `P … R … <rest>` -/
def parseSig (variadic : Bool) (ws : List String) : Option (Sig × List String) :=
  match ws with
  | "P" :: rest =>
    let ps := rest.takeWhile (· != "R")
    match rest.dropWhile (· != "R") with
    | "R" :: rest2 =>
      let rs := rest2.takeWhile fun w => w != "A"
      let tail := rest2.dropWhile fun w => w != "A"
      match ps.mapM parseTy, rs.mapM parseTy with
      | some ps, some rs => some (⟨ps, variadic, rs⟩, tail)
      | _, _ => none
    | _ => none
  | _ => none

def parseFVal (ws : List String) : Option FVal :=
  match ws with
  | ["nil"] => some .untypedNil
  | ["other", k] => (RKind.ofName k).map .other
  | "func" :: n :: v :: rest => (parseSig (v == "1") rest).map fun p => .func p.1 (n == "1")
  | _ => none

def showCheckErr : CheckErr → String
  | .keyword => "keyword" | .notFunc => "notfunc" | .nilFunc => "nilfunc" | .param i => s!"param{i}" | .ret => "ret" | .ret1 => "ret1"
  | .ret2NotError => "ret2" | .tooManyResults => "toomany"

/-- `C (<namehex> <fval…> E)*` repeated: the Funcs map of each call of a history -/
partial def parseHistory (ws : List String) : Option (List (List (Bytes × FVal))) :=
  let rec entries (ws : List String) (acc : List (Bytes × FVal)) : Option (List (Bytes × FVal) × List String) :=
    match ws with
    | [] => some (acc.reverse, [])
    | "C" :: _ => some (acc.reverse, ws)
    | name :: rest =>
      let fv := rest.takeWhile (· != "E")
      match fromHex name, parseFVal fv, rest.dropWhile (· != "E") with
      | some n, some f, "E" :: tail => entries tail ((n, f) :: acc)
      | _, _, _ => none
  match ws with
  | [] => some []
  | "C" :: rest =>
    match entries rest [] with
    | some (m, tail) => (parseHistory tail).map (m :: ·)
    | none => none
  | _ => none

def showHistory (cache : Option Table) : List (List (Bytes × FVal)) → List String
  | [] => []
  | m :: rest =>
    let (e, c') := setupStep cache m
    (match e, cache with
      | some e, _ => "err:" ++ showCheckErr e
      | none, some _ => "cached"
      | none, none => "ok") :: showHistory c' rest

def handle (args : List String) : String :=
  match args with
  | ["disp", awk, funcs, name] =>
    let csv := fun (x : String) => if x == "-" then some [] else (x.splitOn ",").mapM fromHex
    match csv awk, csv funcs, fromHex name with
    | some a, some f, some n =>
      match dispatch f f a n with
      | .awk m => "awk " ++ toHex m
      | .native m => "native " ++ toHex m
      | .undefined => "undefined"
    | _, _, _ => "bad-request"
  | "hist" :: rest =>
    match parseHistory rest with
    | some h => String.intercalate " " (showHistory none h)
    | none => "bad-request"
  | "call" :: n :: v :: rest =>
    match parseSig (v == "1") rest with
    | some (sig, "A" :: tail) =>
      let as := tail.takeWhile (· != "B")
      match tail.dropWhile (· != "B"), as.mapM parseAVal with
      | ["B", bv, be], some as =>
        match parseNVal bv, (if be == "nil" then some none else (fromHex (be.drop 1).toString).map some) with
        | some bv, some be =>
          let (out, recv) := callNative sig (n == "1") as (fun _ => (bv, be))
          let o := match out with
            | .ok .null => "ok null f"
            | .ok (.num b) => s!"ok n{natHex 16 (canon64 b)} {tf (RVal.num b).truth}"
            | .ok (.str x) => s!"ok s{toHex x} {tf (RVal.str x).truth}"
            | .err m => "err " ++ toHex m
            | .panic _ => "panic"
          let r := match recv with
            | none => "norecv"
            | some vs => String.intercalate " " ("recv" :: vs.map fun p => showNVal p.2)
          o ++ " " ++ r
        | _, _ => "bad-body"
      | _, _ => "bad-args"
    | _ => "bad-sig"
  | "check" :: name :: rest =>
    match fromHex name, parseFVal rest with
    | some name, some f =>
      match checkNativeFunc (isKeyword name) f with
      | (.ok _, _) => "ok"
      | (.panic _, _) => "panic"
      | (.err _, some e) => "err " ++ showCheckErr e
      | (.err _, none) => "err ?"
    | _, _ => "bad-request"
  | "resolve" :: n :: rest =>
    match n.toNat?, parseFVal rest with
    | some n, some f =>
      match resolveCall f n with
      | .ok => "ok" | .notFunc => "notfunc" | .tooManyArgs => "toomany"
    | _, _ => "bad-request"
  | _ => "bad-request"

end GoawkModel.Drv.C17
