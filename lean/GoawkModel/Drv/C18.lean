import GoawkModel.Basic
import GoawkModel.C18
import GoawkModel.C18Idiom
/-! Line-protocol handler for property C18.

Statement: `s <id>` | `j <id> <break|continue|next|exit|return>` | `if <id> <body> <body>` | `wh|for|fi|do|bl <id> <body>`;
body: `nil` | `[ <stmt>* ]`.
* `ann <body>*` (Begin blocks, actions, End blocks, function bodies in that order)
    → `blocks <id,id,…>* ; flat <tokens of the annotated program in printing order> ; erased <ok|DIFF>`
* `run <fuel> <script as d,d,…|-> <body>` → `<signal> ; <ctr counts k=n…> ; erasedtrace <ok|DIFF> ; starts <id=n…>` for the annotated body,
  compared inside the model with the run of the original
* `forin <order k,k,…|-> <keys of A|-> <keys of B|-> <loop variable before: u|number> <body statement>*` (for-in idiom model, keys are numbers)
    → `k=<u|n> x=<u|n> a=<length> b=<length> n=<n> m=<m> s=<length> it=<iterations> annotated <ok|DIFF>` where `annotated` compares,
    inside the model, the run with a counter at the head of the body: same visible state, counter fired once per iteration -/
namespace GoawkModel.Drv.C18
open GoawkModel GoawkModel.C18

mutual
partial def parseStmt : List String → Option (Stmt × List String)
  | "s" :: i :: r => i.toNat?.map fun i => (.simple i, r)
  | "j" :: i :: k :: r =>
    let j := if k == "break" then some Jump.brk else if k == "continue" then some .cont else if k == "next" then some .next
      else if k == "exit" then some .exit else if k == "return" then some .ret else none
    match i.toNat?, j with
    | some i, some j => some (.jump i j, r)
    | _, _ => none
  | "if" :: i :: r =>
    match i.toNat?, parseBody r with
    | some i, some (b, r1) => (parseBody r1).map fun (e, r2) => (.ifS i b e, r2)
    | _, _ => none
  | "wh" :: i :: r => match i.toNat?, parseBody r with | some i, some (b, r1) => some (.whileS i b, r1) | _, _ => none
  | "for" :: i :: r => match i.toNat?, parseBody r with | some i, some (b, r1) => some (.forS i b, r1) | _, _ => none
  | "fi" :: i :: r => match i.toNat?, parseBody r with | some i, some (b, r1) => some (.forIn i b, r1) | _, _ => none
  | "do" :: i :: r => match i.toNat?, parseBody r with | some i, some (b, r1) => some (.doWhile i b, r1) | _, _ => none
  | "bl" :: i :: r => match i.toNat?, parseBody r with | some i, some (b, r1) => some (.block i b, r1) | _, _ => none
  | _ => none
partial def parseList : List String → Option (Stmts × List String)
  | "]" :: r => some (.nil false, r)
  | ws => match parseStmt ws with
    | some (s, r) => (parseList r).map fun (ss, r2) => (.cons s ss, r2)
    | none => none
partial def parseBody : List String → Option (Stmts × List String)
  | "nil" :: r => some (.nil true, r)
  | "[" :: r => parseList r
  | _ => none
end

partial def parseBodies (ws : List String) : Option (List Stmts) :=
  if ws.isEmpty then some [] else
  match parseBody ws with
  | some (b, r) => (parseBodies r).map (b :: ·)
  | none => none

def showCounts (xs : List (Nat × Nat)) : String :=
  String.intercalate "," (xs.map fun (k, n) => s!"{k}={n}")

def sigName : Signal → String
  | .normal => "normal" | .brk => "break" | .cont => "continue" | .next => "next" | .exit => "exit" | .ret => "return"

def dedup (xs : List Nat) : List Nat := xs.foldl (fun acc x => if acc.contains x then acc else acc ++ [x]) []

def parseKeys (s : String) : List Nat := if s == "-" then [] else (s.splitOn ",").filterMap String.toNat?

def parseBSt : String → Option Idiom.BSt
  | "delOwn" => some .delOwn | "delOther" => some .delOther | "clearOwn" => some .clearOwn | "clearOther" => some .clearOther
  | "incN" => some .incN | "incM" => some .incM | "copyKey" => some .copyKey | "touchOther" => some .touchOther | "catS" => some .catS
  | "nop" => some .nop | "brk" => some .brk | "cont" => some .cont | "ifBrk" => some .ifBrk | "ifCont" => some .ifCont
  | _ => none

def showOpt : Option Nat → String
  | none => "u"
  | some n => toString n

def handleForIn (order a b k : String) (body : List String) : String :=
  match body.mapM parseBSt with
  | none => "bad-body"
  | some bd =>
    let σ : Idiom.St := ⟨if k == "u" then none else k.toNat?, none, parseKeys a, parseKeys b, 0, 0, 0, []⟩
    let ks := parseKeys order
    let r := Idiom.forIn bd ks σ
    let ra := Idiom.forIn (.cover 1 :: bd) ks σ
    let it := Idiom.iterations bd ks σ
    let ok := Idiom.vis ra == Idiom.vis r && ra.cover == List.replicate it 1
    s!"k={showOpt r.k} x={showOpt r.x} a={r.a.length} b={r.b.length} n={r.n} m={r.m} s={r.s} it={it} annotated {if ok then "ok" else "DIFF"}"

def handle (args : List String) : String :=
  match args with
  | "forin" :: order :: a :: b :: k :: body => handleForIn order a b k body
  | "ann" :: rest =>
    match parseBodies rest with
    | none => "bad-program"
    | some bodies =>
      let (st, out) := annotate bodies ⟨[]⟩
      let blocks := st.blocks.map fun b => String.intercalate "," (b.ids.map toString)
      let flat := out.map fun b => String.intercalate " " ((if b.isGoNil then ["nil"] else ["["]) ++ flatStmts b ++ (if b.isGoNil then [] else ["]"]))
      let erasedOk := (out.map fun b => flatStmts (eraseStmts b)) == bodies.map flatStmts && (out.map Stmts.isGoNil) == bodies.map Stmts.isGoNil
      "blocks " ++ String.intercalate " " blocks ++ " ; flat " ++ String.intercalate " " flat ++ " ; erased " ++ (if erasedOk then "ok" else "DIFF")
  | "run" :: fuel :: script :: rest =>
    match fuel.toNat?, parseBody rest with
    | some fuel, some (body, _) =>
      let sc := if script == "-" then [] else (script.splitOn ",").filterMap String.toNat?
      let (st, ab) := annStmts ⟨[]⟩ body
      match execStmts fuel ab sc [], execStmts fuel body sc [] with
      | some ra, some ro =>
        let ks := List.range st.blocks.length |>.map (· + 1)
        let ctrs := ks.map fun k => (k, countCtr k ra.trace)
        let firsts := (st.blocks.map fun b => b.ids.headD 0)
        let starts := firsts.map fun i => (i, countStart i ro.trace)
        let same := eraseTrace ra.trace == ro.trace && ra.sig == ro.sig && ra.script == ro.script
        s!"{sigName ra.sig} ; {showCounts ctrs} ; erasedtrace {if same then "ok" else "DIFF"} ; starts {showCounts starts}"
      | none, none => "fuel"
      | _, _ => "fuel-mismatch"
    | _, _ => "bad-request"
  | _ => "bad-request"

end GoawkModel.Drv.C18
