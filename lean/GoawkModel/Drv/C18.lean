import GoawkModel.Basic
/-! Line-protocol handler for property C18: one request line (already split into words, without the leading `c18`) → one answer line. -/
namespace GoawkModel.Drv.C18

def handle (_args : List String) : String := "unimplemented"

end GoawkModel.Drv.C18
