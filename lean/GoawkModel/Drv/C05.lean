import GoawkModel.Basic
import GoawkModel.C05
import GoawkModel.C05Float
import GoawkModel.C05Cmp
import GoawkModel.C05Store
/-!
Line-protocol handler for property C05 (bytes in hex, `-` = empty; bit patterns as decimal naturals).

* `a <hex>` → `<whole> <prefix> <bool>`: `parseFloat` (`T` = error/true string, else a result), `parseFloatPrefix`, `numStr(s).boolean()`;
  a result is `nan` | `inf+` | `inf-` | `zero:0` | `conv:<hex text>:<bits>`
* `s <bits>` → hex of `num(f).str("%.6g")`
* `c <opcode> <val> <val>` → `0` | `1` | `none` (unfused opcode: Boolean pushed; fused opcode: jumps?)
* `j <token> <invert 0/1> <val> <val>` → whether the jump emitted by `condition()` is taken
  values: `u` null, `s<hex>` string, `f<hex>` numeric string, `n<bits>` number
* `g <op> <arg> <hex> <val>` → `<16 probe bits>|<hex of the text>` of the target after a store that may not happen
  (`GoawkModel.C05Store`): `getline <status> <line> <old>`, `sub <count> <out> <old>`, `forin <0|1> <key> <old>`,
  `split <index k> <the one piece, or none> u`; the probe bits are those of the harness function Q
-/
namespace GoawkModel.Drv.C05
open GoawkModel GoawkModel.C05

def renderRes : Res → String
  | .nan => "nan"
  | .inf true => "inf-"
  | .inf false => "inf+"
  | .zero => "zero:0"
  | .conv t => "conv:" ++ toHex t ++ ":" ++ toString (textBits t)

def parseVal (w : String) : Option Val :=
  match w.toList with
  | 'u' :: [] => some .null
  | 's' :: h => (fromHex (String.ofList h)).map .str
  | 'f' :: h => (fromHex (String.ofList h)).map .numstr
  | 'n' :: d => (String.ofList d).toNat?.map fun b => .num (numOfBits b)
  | _ => none

def renderOB : Option Bool → String
  | some true => "1"
  | some false => "0"
  | none => "none"

def b01 (b : Bool) : String := if b then "1" else "0"

/-- the sixteen comparison / truth probes of the harness function `Q` (f1 f2 f3 = the input texts 10, 9, abc) -/
def qBits (v : Val) : String :=
  let cmp (op : CmpOp) (r : Val) := compareWith exactStrconv fmtG6 op op v r
  let n (i : Int) : Val := .num (.ofInt i)
  let f1 : Val := .numstr [49, 48]
  let f2 : Val := .numstr [57]
  let f3 : Val := .numstr [97, 98, 99]
  let t := toBool exactStrconv v
  let z := cmp .eq (n 0)
  let e := cmp .eq (.str [])
  String.join [b01 (cmp .lt (n 9)), b01 (cmp .eq (n 10)), b01 (cmp .lt (.str [57])), b01 (cmp .eq (n 5)), b01 (cmp .lt (n 10)),
    b01 (cmp .ge (n 10)), b01 (cmp .ne (n 5)), b01 t, b01 z, b01 e, b01 (!t),
    b01 (cmp .eq f1), b01 (cmp .lt f2), b01 (cmp .lt f3), b01 (cmp .gt f1), b01 (z && e)]

def storeResult (op arg : String) (h : Bytes) (old : Val) : Option Val :=
  match op with
  | "getline" => arg.toInt?.map fun r => getlineStore r h old
  | "sub" => arg.toNat?.map fun n => subStore n h old
  | "forin" => arg.toNat?.map fun n => forInStore (List.replicate n h) old
  | _ => none

def handle (args : List String) : String :=
  match args with
  | ["a", h] =>
    match fromHex h with
    | some s =>
      let w := match scanWhole exactStrconv.ovf s with
        | none => "T"
        | some r => renderRes r
      w ++ " " ++ renderRes (scanPrefix s) ++ " " ++ (if toBool exactStrconv (.numstr s) then "1" else "0")
    | none => "bad-hex"
  | ["s", b] =>
    match b.toNat? with
    | some b => toHex (numToStr fmtG6 (numOfBits b))
    | none => "bad-bits"
  | ["c", opcode, l, r] =>
    match parseVal l, parseVal r with
    | some l, some r =>
      match pushes exactStrconv fmtG6 opcode l r with
      | some b => renderOB (some b)
      | none => renderOB (jumps exactStrconv fmtG6 opcode l r)
    | _, _ => "bad-val"
  | ["j", tok, inv, l, r] =>
    match parseVal l, parseVal r with
    | some l, some r => renderOB (condJumps exactStrconv fmtG6 tok (inv == "1") l r)
    | _, _ => "bad-val"
  | ["g", "split", k, piece, _] =>
    match k.toNat?, (if piece == "none" then some [] else (fromHex piece).map fun p => [p]) with
    | some k, some parts => let v := splitElem parts k; qBits v ++ "|" ++ toHex (toStr fmtG6 v)
    | _, _ => "bad-split"
  | ["g", op, arg, h, old] =>
    match fromHex h, parseVal old with
    | some h, some old =>
      match storeResult op arg h old with
      | some v => qBits v ++ "|" ++ toHex (toStr fmtG6 v)
      | none => "bad-store"
    | _, _ => "bad-val"
  | _ => "bad-request"

end GoawkModel.Drv.C05
