import GoawkModel.Basic
/-! Line-protocol handler for property C05: one request line (already split into words, without the leading `c05`) → one answer line. -/
namespace GoawkModel.Drv.C05

def handle (_args : List String) : String := "unimplemented"

end GoawkModel.Drv.C05
