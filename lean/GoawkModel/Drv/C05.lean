import GoawkModel.Basic
import GoawkModel.C05
import GoawkModel.C05Float
import GoawkModel.C05Cmp
/-!
Line-protocol handler for property C05 (bytes in hex, `-` = empty; bit patterns as decimal naturals).

* `a <hex>` → `<whole> <prefix> <bool>`: `parseFloat` (`T` = error/true string, else a result), `parseFloatPrefix`, `numStr(s).boolean()`;
  a result is `nan` | `inf+` | `inf-` | `zero:0` | `conv:<hex text>:<bits>`
* `s <bits>` → hex of `num(f).str("%.6g")`
* `c <opcode> <val> <val>` → `0` | `1` | `none` (unfused opcode: Boolean pushed; fused opcode: jumps?)
* `j <token> <invert 0/1> <val> <val>` → whether the jump emitted by `condition()` is taken
  values: `u` null, `s<hex>` string, `f<hex>` numeric string, `n<bits>` number
-/
namespace GoawkModel.Drv.C05
open GoawkModel GoawkModel.C05

def renderRes : Res → String
  | .nan => "nan"
  | .inf true => "inf-"
  | .inf false => "inf+"
  | .zero => "zero:0"
  | .conv t => "conv:" ++ toHex t ++ ":" ++ toString (textBits t)

def parseVal (w : String) : Option Val :=
  match w.toList with
  | 'u' :: [] => some .null
  | 's' :: h => (fromHex (String.ofList h)).map .str
  | 'f' :: h => (fromHex (String.ofList h)).map .numstr
  | 'n' :: d => (String.ofList d).toNat?.map fun b => .num (numOfBits b)
  | _ => none

def renderOB : Option Bool → String
  | some true => "1"
  | some false => "0"
  | none => "none"

def handle (args : List String) : String :=
  match args with
  | ["a", h] =>
    match fromHex h with
    | some s =>
      let w := match scanWhole exactStrconv.ovf s with
        | none => "T"
        | some r => renderRes r
      w ++ " " ++ renderRes (scanPrefix s) ++ " " ++ (if toBool exactStrconv (.numstr s) then "1" else "0")
    | none => "bad-hex"
  | ["s", b] =>
    match b.toNat? with
    | some b => toHex (numToStr fmtG6 (numOfBits b))
    | none => "bad-bits"
  | ["c", opcode, l, r] =>
    match parseVal l, parseVal r with
    | some l, some r =>
      match pushes exactStrconv fmtG6 opcode l r with
      | some b => renderOB (some b)
      | none => renderOB (jumps exactStrconv fmtG6 opcode l r)
    | _, _ => "bad-val"
  | ["j", tok, inv, l, r] =>
    match parseVal l, parseVal r with
    | some l, some r => renderOB (condJumps exactStrconv fmtG6 tok (inv == "1") l r)
    | _, _ => "bad-val"
  | _ => "bad-request"

end GoawkModel.Drv.C05
