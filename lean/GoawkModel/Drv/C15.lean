import GoawkModel.Basic
/-! Line-protocol handler for property C15: one request line (already split into words, without the leading `c15`) → one answer line. -/
namespace GoawkModel.Drv.C15

def handle (_args : List String) : String := "unimplemented"

end GoawkModel.Drv.C15
