import GoawkModel.Basic
import GoawkModel.C15
import GoawkModel.C15Wait
/-!
Line-protocol handler for property C15.

`loop <P>` (N = Generated.Consts.checkContextOps) / `loop <N> <P>`  — the loop shape cancelled in iteration P with poll interval N: answers `err <ticks> <ticksAfter> <at>`
`pre <N> <ticksEvery> <len>` — a pre-cancelled context on a trace of `len` dispatches with a tick every `ticksEvery`: `err <ticks> <at>` / `fin <ticks>`
`wait <none|yields|blocked> <d> <orphan 0|1> <started 0|1> <tau>` — `print; <wait for a 21 s command>; while (1) tick()` under a context that is done at `tau` ms
(started 0: the context was already done when the command was to be started): `stuck <dispatch>` / `err <clock> <after>` / `fin <clock> <after>`
-/
namespace GoawkModel.Drv.C15
open GoawkModel GoawkModel.C15

def render : Outcome → String
  | .ctxErr i _ k => s!"err {k.ticks} {k.ticksAfter} {i}"
  | .finished _ k => s!"fin {k.ticks} {k.ticksAfter}"

def handle (args : List String) : String :=
  match args with
  | ["loop", n, p] =>
    match n.toNat?, p.toNat? with
    | some n, some p =>
      if n == 0 || p == 0 then "bad-request" else
      -- enough iterations to get past the poll that follows the cancellation
      let iters := p + n / 11 + 2
      render (run n (some (loopCancelIndex p + 1)) (loopTrace p iters) 0 0 ⟨0, 0⟩)
    | _, _ => "bad-request"
  | ["loop", p] =>
    -- poll interval = the regenerated constant
    match p.toNat? with
    | some p =>
      let n := GoawkModel.Generated.Consts.checkContextOps
      if n == 0 || p == 0 then "bad-request" else
      render (run n (some (loopCancelIndex p + 1)) (loopTrace p (p + n / 11 + 2)) 0 0 ⟨0, 0⟩)
    | none => "bad-request"
  | ["never", n, p, iters] =>
    match n.toNat?, p.toNat?, iters.toNat? with
    | some n, some p, some iters => render (run n none (loopTrace p iters) 0 0 ⟨0, 0⟩)
    | _, _, _ => "bad-request"
  | ["wait", copy, d, orphan, started, tau] =>
    match d.toNat?, tau.toNat? with
    | some d, some tau =>
      let cp : Option StdinCopy := match copy with
        | "none" => some .none
        | "yields" => some (.yieldsAfter d)
        | "blocked" => some .blocked
        | _ => none
      match cp with
      | none => "bad-request"
      | some cp =>
        let n := GoawkModel.Generated.Consts.checkContextOps
        let w : Cmd := ⟨some 21000, cp, orphan == "1"⟩
        -- a command that is not started is a wait under a context that is done from the beginning
        let τ := if started == "1" then tau else 0
        let trace : List Step := [.d .plain, .d .plain, .wait w] ++ List.replicate (2 * n) (.d .tick)
        match runW n none (some τ) trace 0 0 0 0 ⟨0, 0⟩ with
        | .stuck i => s!"stuck {i}"
        | .ctxErr _ clk a _ => s!"err {clk} {a}"
        | .finished clk a _ => s!"fin {clk} {a}"
    | _, _ => "bad-request"
  | _ => "bad-request"

end GoawkModel.Drv.C15
