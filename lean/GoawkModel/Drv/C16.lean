import GoawkModel.Basic
/-! Line-protocol handler for property C16: one request line (already split into words, without the leading `c16`) → one answer line. -/
namespace GoawkModel.Drv.C16

def handle (_args : List String) : String := "unimplemented"

end GoawkModel.Drv.C16
