import GoawkModel.Basic
import GoawkModel.C16
import GoawkModel.C16Locals
import GoawkModel.C16Stack
/-! Line-protocol handler for property C16 (and, through `GoawkModel.Drv.C19`, C19).

request : `resolve <order> S <name>* B <name>* (F <name> P <param>* E <event>*)* M <event>*`
  `<order>` : `auto` (the model of topoSort, map iteration = identity), `rev` (map iteration reversed), or `o:<n>,<n>,…`
  `<event>` : `r:<v>:<u|s|a>` | `c:<f>:<nargs>` | `x:<f>:<i>` | `v:<f>:<i>:<v>`
answer  : `ok G <n>:<t>:<idx>* (F <fname> <n>:<t>:<idx>*)*`   (functions by name, variables by name — what DebugTypes prints)
          `err <fn> <eventIndex> <kind> …`  with kind `useAs <cur> <v> <want>` | `exprAsArray <f> <i>` | `passAs <cur> <v> <want>` | `tooMany`
`order …` with the same program syntax answers the model's function order.

request : `locals <fuel> <nGlobals> (F <nArr> <stmt>*)* (P <stmt>*)*`   (`GoawkModel.C16.Locals`: functions by number, then the top-level
  pieces in execution order);  `<stmt>` : `f:<slot>:<key>` | `c:<fn>` | `l:<n|r|x|t|T|e>` (normal, return, exit, next, nextfile, error)
answer  : `ok <entries> <outs> <table>` — entries: per function entry the sizes of its local arrays (`,`-joined, `-` = none), `;`-joined;
  outs: one letter per piece; table: sizes of the maps left in the table, `,`-joined

request : `frames <cap0> <ev>*`   (`GoawkModel.C16.Stack`); `<ev>` : `p<v>` push | `o` pop | `w<i>:<v>` write | `r<i>` read | `e<k>` enter |
  `l<v>` leave
answer  : `ok <obs> ref=<same|differs|invalid> policies=<same|differs> offset=<same|differs> reslice=<same|differs>` — obs: what the
  code as it is (saved slices) observes on a stack of `cap0` cells that doubles, `,`-joined (`-` = nothing); ref: against the
  reference semantics; policies: against a 1-cell stack growing by one and a 7-cell stack; offset / reslice: the other two modes -/
namespace GoawkModel.Drv.C16
open GoawkModel GoawkModel.C16

def tyOfStr : String → Option Ty
  | "u" => some .unknown | "s" => some .scalar | "a" => some .array | _ => none

def tyStr : Ty → String
  | .unknown => "u" | .scalar => "s" | .array => "a"

def parseEvent (w : String) : Option Event :=
  match w.splitOn ":" with
  | ["r", v, t] => do some (.use (← v.toNat?) (← tyOfStr t))
  | ["c", f, n] => do some (.call (← f.toNat?) (← n.toNat?))
  | ["x", f, i] => do some (.exprArg (← f.toNat?) (← i.toNat?))
  | ["v", f, i, v] => do some (.varArg (← f.toNat?) (← i.toNat?) (← v.toNat?))
  | _ => none

structure PState where
  prog : Program := ⟨[], [], [], []⟩
  mode : String := ""
  cur : Option Func := none
  bad : Bool := false

def flushFunc (st : PState) : PState :=
  match st.cur with
  | some f => { st with prog := { st.prog with funcs := st.prog.funcs ++ [f] }, cur := none }
  | none => st

def feed (st : PState) (w : String) : PState :=
  if w == "S" || w == "B" || w == "M" then { flushFunc st with mode := w }
  else if w == "F" then { flushFunc st with mode := "F" }
  else if w == "P" || w == "E" then { st with mode := w }
  else
    match st.mode with
    | "S" => match w.toNat? with
      | some n => { st with prog := { st.prog with specials := st.prog.specials ++ [n] } }
      | none => { st with bad := true }
    | "B" => match w.toNat? with
      | some n => { st with prog := { st.prog with builtins := st.prog.builtins ++ [n] } }
      | none => { st with bad := true }
    | "F" => match w.toNat? with
      | some n => { st with cur := some ⟨n, [], []⟩, mode := "F!" }
      | none => { st with bad := true }
    | "P" => match w.toNat?, st.cur with
      | some n, some f => { st with cur := some { f with params := f.params ++ [n] } }
      | _, _ => { st with bad := true }
    | "E" => match parseEvent w, st.cur with
      | some e, some f => { st with cur := some { f with body := f.body ++ [e] } }
      | _, _ => { st with bad := true }
    | "M" => match parseEvent w with
      | some e => { st with prog := { st.prog with main := st.prog.main ++ [e] } }
      | none => { st with bad := true }
    | _ => { st with bad := true }

def parseProgram (ws : List String) : Option Program :=
  let st := flushFunc (ws.foldl feed {})
  if st.bad then none else some st.prog

def parseOrder (spec : String) (p : Program) : Option (List Name) :=
  if spec == "auto" then some (goOrder id p)
  else if spec == "rev" then some (goOrder List.reverse p)
  else if spec.startsWith "o:" then
    let body := (spec.drop 2).toString
    if body == "" then some [] else (body.splitOn ",").mapM String.toNat?
  else none

def showEntries (l : List (Name × Ty × Nat)) : String :=
  String.intercalate " " (l.map fun (n, t, i) => s!"{n}:{tyStr t}:{i}")

def sortByName (l : List (Name × Ty × Nat)) : List (Name × Ty × Nat) :=
  (sortNames (l.map (·.1))).filterMap fun n => l.find? (fun e => e.1 == n)

def showTable (p : Program) (s : State) : String :=
  let fs := (sortNames (p.funcs.map (·.name))).filterMap p.findFunc
  let parts := ("G " ++ showEntries (globalTable p s)) ::
    fs.map fun f => s!"F {f.name} " ++ showEntries (sortByName (localTable s f))
  String.intercalate " " parts

def showErr : LErr → String
  | (fn, i, .useAs c v w) => s!"err {fn} {i} useAs {tyStr c} {v} {tyStr w}"
  | (fn, i, .exprAsArray f k) => s!"err {fn} {i} exprAsArray {f} {k}"
  | (fn, i, .passAs c v w) => s!"err {fn} {i} passAs {tyStr c} {v} {tyStr w}"
  | (fn, i, .tooMany) => s!"err {fn} {i} tooMany"

namespace LocalsDrv
open GoawkModel.C16.Locals

def outOf : String → Option Out
  | "n" => some .normal | "r" => some .ret | "x" => some .exit | "t" => some .next | "T" => some .nextfile | "e" => some .err
  | _ => none

def outStr : Out → String
  | .normal => "n" | .ret => "r" | .exit => "x" | .next => "t" | .nextfile => "T" | .err => "e"

def parseStmt (w : String) : Option Stmt :=
  match w.splitOn ":" with
  | ["f", a, b] => do some (.fill (← a.toNat?) (← b.toNat?))
  | ["c", f] => do some (.call (← f.toNat?))
  | ["l", o] => do some (.leave (← outOf o))
  | _ => none

structure P where
  fns : List Fn := []
  pieces : List (List Stmt) := []
  mode : String := ""
  bad : Bool := false

def feed (st : P) (w : String) : P :=
  if w == "F" then { st with mode := "F" }
  else if w == "P" then { st with mode := "P", pieces := st.pieces ++ [[]] }
  else match st.mode with
    | "F" => match w.toNat? with
      | some n => { st with fns := st.fns ++ [⟨n, []⟩], mode := "B" }
      | none => { st with bad := true }
    | "B" => match parseStmt w, st.fns.reverse with
      | some x, f :: fs => { st with fns := (({ f with body := f.body ++ [x] } : Fn) :: fs).reverse }
      | _, _ => { st with bad := true }
    | "P" => match parseStmt w, st.pieces.reverse with
      | some x, ph :: phs => { st with pieces := ((ph ++ [x]) :: phs).reverse }
      | _, _ => { st with bad := true }
    | _ => { st with bad := true }

def sizes (l : List Nat) : String := if l.isEmpty then "-" else String.intercalate "," (l.map toString)

def handle (fuel nGlob : Nat) (ws : List String) : String :=
  let st := ws.foldl feed {}
  if st.bad then "bad-locals" else
  let r := phases st.fns fuel nGlob st.pieces ⟨List.replicate nGlob [], []⟩
  let es := if r.1.entries.isEmpty then "-" else String.intercalate ";" (r.1.entries.map sizes)
  let os := if r.2.isEmpty then "-" else String.join (r.2.map outStr)
  s!"ok {es} {os} {sizes (r.1.tab.map List.length)}"

end LocalsDrv

namespace StackDrv
open GoawkModel.C16.Stack

def num (r : List Char) : Option Nat := (String.ofList r).toNat?

def parseEv (w : String) : Option Ev :=
  match w.toList with
  | ['o'] => some .pop
  | 'p' :: r => (num r).map Ev.push
  | 'r' :: r => (num r).map Ev.read
  | 'e' :: r => (num r).map Ev.enter
  | 'l' :: r => (num r).map Ev.leave
  | 'w' :: r =>
    match (String.ofList r).splitOn ":" with
    | [i, v] => do some (.write (← i.toNat?) (← v.toNat?))
    | _ => none
  | _ => none

def showObs (l : List Nat) : String := if l.isEmpty then "-" else String.intercalate "," (l.map toString)

def same (b : Bool) : String := if b then "same" else "differs"

def handle (cap0 : Nat) (ws : List String) : String :=
  match ws.mapM parseEv with
  | none => "bad-frames"
  | some es =>
    let dbl : Nat → Nat := fun c => 2 * c + 1
    let o := run .savedSlice dbl (init cap0) es
    let rf := match refRun refInit es with
      | none => "invalid"
      | some r => same (r == o)
    let pol := o == run .savedSlice (fun c => c + 1) (init 1) es && o == run .savedSlice dbl (init 7) es
    s!"ok {showObs o} ref={rf} policies={same pol} offset={same (o == run .offset dbl (init cap0) es)} reslice={same (o == run .reslice dbl (init cap0) es)}"

end StackDrv

def handle (args : List String) : String :=
  match args with
  | "frames" :: cap :: rest =>
    match cap.toNat? with
    | some c => StackDrv.handle c rest
    | none => "bad-request"
  | "locals" :: fuel :: ng :: rest =>
    match fuel.toNat?, ng.toNat? with
    | some f, some n => LocalsDrv.handle f n rest
    | _, _ => "bad-request"

  | "resolve" :: spec :: rest =>
    match parseProgram rest with
    | none => "bad-program"
    | some p =>
      match parseOrder spec p with
      | none => "bad-order"
      | some o =>
        match resolve p o with
        | .ok s => "ok " ++ showTable p s
        | .error e => showErr e
  | "order" :: spec :: rest =>
    match parseProgram rest with
    | none => "bad-program"
    | some p =>
      match parseOrder spec p with
      | none => "bad-order"
      | some o => "order " ++ String.intercalate " " (o.map toString)
  | _ => "bad-request"

end GoawkModel.Drv.C16
