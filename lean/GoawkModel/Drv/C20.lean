import GoawkModel.Basic
/-! Line-protocol handler for property C20: one request line (already split into words, without the leading `c20`) → one answer line. -/
namespace GoawkModel.Drv.C20

def handle (_args : List String) : String := "unimplemented"

end GoawkModel.Drv.C20
