import GoawkModel.Basic
import GoawkModel.C20
import GoawkModel.C20Quote
import GoawkModel.Drv.C04
/-! Line-protocol handler for property C20 (request already split into words, without the leading `c20`):

  `show <pc> tok*`  → `ok tok*` : parse the tokens with the C04 model parser (the last token is the terminator and must be
                      the only one left), print the tree with `showE`;  `err …` when the model rejects / does not cover it
  `quote <hex> <cp>*`, `unquote <hex>`, `fmtre <hex>`, `lexre <hex>` → see `GoawkModel.C20Quote.handleQuote` -/
namespace GoawkModel.Drv.C20
open GoawkModel GoawkModel.C04 GoawkModel.C20

def handle (args : List String) : String :=
  match args with
  | "show" :: pcw :: ws =>
    match ws.mapM Drv.C04.wordTok with
    | none => "bad-token"
    | some ts =>
      match parseExpr (pcw == "1") ts with
      | .error x => Drv.C04.errWord x
      | .ok (e, rest) => if rest.length == 1 then "ok " ++ Drv.C04.showToks (showE e) else "err rest"
  | _ =>
    match C20Quote.handleQuote args with
    | some s => s
    | none => "bad-request"

end GoawkModel.Drv.C20
