import GoawkModel.Basic
import GoawkModel.C20
import GoawkModel.C20Quote
import GoawkModel.Drv.C04
import GoawkModel.C20Stmt
/-! Line-protocol handler for property C20 (request already split into words, without the leading `c20`):

  `show <pc> tok*`  → `ok tok*` : parse the tokens with the C04 model parser (the last token is the terminator and must be
                      the only one left), print the tree with `showE`;  `err …` when the model rejects / does not cover it
  `quote <hex> <cp>*`, `unquote <hex>`, `fmtre <hex>`, `lexre <hex>` → see `GoawkModel.C20Quote.handleQuote` -/
namespace GoawkModel.Drv.C20
open GoawkModel GoawkModel.C04 GoawkModel.C20

/-! statement level: `stmt tok*` → `ok <#left> <tree>` | `reject`;  `showstmt tok*` → `ok tok*` (print of the parse).
Token words: `if else while do for { } ( ) ; nl e<k> s<k> in<k>`. -/
open GoawkModel.C20Stmt in
def stokWord : STok → String
  | .kIf => "if" | .kElse => "else" | .kWhile => "while" | .kDo => "do" | .kFor => "for"
  | .lbrace => "{" | .rbrace => "}" | .lparen => "(" | .rparen => ")" | .semi => ";" | .nl => "nl"
  | .expr c => s!"e{c}" | .simple k => s!"s{k}" | .forin k => s!"in{k}" | .eof => "eof"

open GoawkModel.C20Stmt in
def wordSTok (w : String) : Option STok :=
  match w with
  | "if" => some .kIf | "else" => some .kElse | "while" => some .kWhile | "do" => some .kDo | "for" => some .kFor
  | "{" => some .lbrace | "}" => some .rbrace | "(" => some .lparen | ")" => some .rparen | ";" => some .semi | "nl" => some .nl
  | _ =>
    if w.startsWith "in" then ((w.drop 2).toString.toNat?).map STok.forin
    else if w.startsWith "e" then ((w.drop 1).toString.toNat?).map STok.expr
    else if w.startsWith "s" then ((w.drop 1).toString.toNat?).map STok.simple
    else none

open GoawkModel.C20Stmt in
def showOptNat : Option Nat → String
  | some k => toString k
  | none => "-"

open GoawkModel.C20Stmt in
def showSTree : S → String
  | .skip => "skip"
  | .seq s r => "(seq " ++ showSTree s ++ " " ++ showSTree r ++ ")"
  | .simple k => s!"(simple {k})"
  | .ifS c b e => s!"(if {c} " ++ showSTree b ++ " " ++ showSTree e ++ ")"
  | .whileS c b => s!"(while {c} " ++ showSTree b ++ ")"
  | .doS b c => "(do " ++ showSTree b ++ s!" {c})"
  | .forS p c q b => "(for " ++ showOptNat p ++ " " ++ showOptNat c ++ " " ++ showOptNat q ++ " " ++ showSTree b ++ ")"
  | .forIn k b => s!"(forin {k} " ++ showSTree b ++ ")"
  | .block b => "(block " ++ showSTree b ++ ")"

open GoawkModel.C20Stmt in
def handleStmt (cmd : String) (ws : List String) : String :=
  match ws.mapM wordSTok with
  | none => "bad-token"
  | some ts =>
    match parseStmt ts with
    | none => "reject"
    | some (s, rest, _) =>
      if cmd == "stmt" then s!"ok {rest.length} " ++ showSTree s
      else "ok " ++ String.intercalate " " ((showS s).map stokWord)

def handle (args : List String) : String :=
  match args with
  | "show" :: pcw :: ws =>
    match ws.mapM Drv.C04.wordTok with
    | none => "bad-token"
    | some ts =>
      match parseExpr (pcw == "1") ts with
      | .error x => Drv.C04.errWord x
      | .ok (e, rest) => if rest.length == 1 then "ok " ++ Drv.C04.showToks (showE e) else "err rest"
  | "stmt" :: ws => handleStmt "stmt" ws
  | "showstmt" :: ws => handleStmt "showstmt" ws
  | _ =>
    match C20Quote.handleQuote args with
    | some s => s
    | none => "bad-request"

end GoawkModel.Drv.C20
