import GoawkModel.Basic
import GoawkModel.C20
import GoawkModel.C20Quote
import GoawkModel.Drv.C04
import GoawkModel.C20Stmt
import GoawkModel.C20Simple
/-! Line-protocol handler for property C20 (request already split into words, without the leading `c20`):

  `show <pc> tok*`  → `ok tok*` : parse the tokens with the C04 model parser (the last token is the terminator and must be
                      the only one left), print the tree with `showE`;  `err …` when the model rejects / does not cover it
  `quote <hex> <cp>*`, `unquote <hex>`, `fmtre <hex>`, `lexre <hex>` → see `GoawkModel.C20Quote.handleQuote` -/
namespace GoawkModel.Drv.C20
open GoawkModel GoawkModel.C04 GoawkModel.C20

/-! statement level: `stmt tok*` → `ok <#left> <tree>` | `reject`;  `showstmt tok*` → `ok tok*` (print of the parse).
Token words: `if else while do for { } ( ) ; nl e<k> s<k> in<k>`. -/
open GoawkModel.C20Stmt in
def stokWord : STok → String
  | .kIf => "if" | .kElse => "else" | .kWhile => "while" | .kDo => "do" | .kFor => "for"
  | .lbrace => "{" | .rbrace => "}" | .lparen => "(" | .rparen => ")" | .semi => ";" | .nl => "nl"
  | .expr c => s!"e{c}" | .simple k => s!"s{k}" | .forin k => s!"in{k}" | .eof => "eof"
  | .kBegin => "BEGIN" | .kEnd => "END" | .kFunction => "function" | .comma => "," | .fname k => s!"fn{k}" | .param k => s!"p{k}"

open GoawkModel.C20Stmt in
def wordSTok (w : String) : Option STok :=
  match w with
  | "if" => some .kIf | "else" => some .kElse | "while" => some .kWhile | "do" => some .kDo | "for" => some .kFor
  | "{" => some .lbrace | "}" => some .rbrace | "(" => some .lparen | ")" => some .rparen | ";" => some .semi | "nl" => some .nl
  | "BEGIN" => some .kBegin | "END" => some .kEnd | "function" => some .kFunction | "," => some .comma
  | _ =>
    if w.startsWith "fn" then ((w.drop 2).toString.toNat?).map STok.fname
    else if w.startsWith "p" then ((w.drop 1).toString.toNat?).map STok.param
    else if w.startsWith "in" then ((w.drop 2).toString.toNat?).map STok.forin
    else if w.startsWith "e" then ((w.drop 1).toString.toNat?).map STok.expr
    else if w.startsWith "s" then ((w.drop 1).toString.toNat?).map STok.simple
    else none

open GoawkModel.C20Stmt in
def showOptNat : Option Nat → String
  | some k => toString k
  | none => "-"

open GoawkModel.C20Stmt in
def showSTree : S → String
  | .skip => "skip"
  | .seq s r => "(seq " ++ showSTree s ++ " " ++ showSTree r ++ ")"
  | .simple k => s!"(simple {k})"
  | .ifS c b e => s!"(if {c} " ++ showSTree b ++ " " ++ showSTree e ++ ")"
  | .whileS c b => s!"(while {c} " ++ showSTree b ++ ")"
  | .doS b c => "(do " ++ showSTree b ++ s!" {c})"
  | .forS p c q b => "(for " ++ showOptNat p ++ " " ++ showOptNat c ++ " " ++ showOptNat q ++ " " ++ showSTree b ++ ")"
  | .forIn k b => s!"(forin {k} " ++ showSTree b ++ ")"
  | .block b => "(block " ++ showSTree b ++ ")"

open GoawkModel.C20Stmt in
def handleStmt (cmd : String) (ws : List String) : String :=
  match ws.mapM wordSTok with
  | none => "bad-token"
  | some ts =>
    match parseStmt ts with
    | none => "reject"
    | some (s, rest, _) =>
      if cmd == "stmt" then s!"ok {rest.length} " ++ showSTree s
      else "ok " ++ String.intercalate " " ((showS s).map stokWord)

/-! simple statements: `simple tok*` → `ok <#left> <tree>` | `err …`; `showsimple tok*` → `ok tok*`.
Token words: the C04 expression token words plus `print printf delete exit return next nextfile break continue`. -/
open GoawkModel.C20Simple in
def wordPTok (w : String) : Option PTok :=
  match w with
  | "print" => some .kPrint | "printf" => some .kPrintf | "delete" => some .kDelete | "exit" => some .kExit
  | "return" => some .kReturn | "next" => some .kNext | "nextfile" => some .kNextfile | "break" => some .kBreak
  | "continue" => some .kContinue
  | _ => (Drv.C04.wordTok w).map PTok.t

open GoawkModel.C20Simple in
def ptokWord : PTok → String
  | .t x => Drv.C04.tokWord x
  | .kPrint => "print" | .kPrintf => "printf" | .kDelete => "delete" | .kExit => "exit" | .kReturn => "return"
  | .kNext => "next" | .kNextfile => "nextfile" | .kBreak => "break" | .kContinue => "continue"

def showOptTree : Option Expr → String
  | some e => Drv.C04.showTree e
  | none => "nil"

open GoawkModel.C20Simple in
def showSimpleTree : Simple → String
  | .print f args redir =>
    "(" ++ (if f then "printf" else "print") ++ " [" ++ String.intercalate " " (args.map Drv.C04.showTree) ++ "] " ++
      (match redir with
       | none => "- nil"
       | some (t, d) => Drv.C04.tokWord t ++ " " ++ Drv.C04.showTree d) ++ ")"
  | .delete a idx => s!"(delete v{a} " ++ showOptTree idx ++ ")"
  | .exit e => "(exit " ++ showOptTree e ++ ")"
  | .ret e => "(return " ++ showOptTree e ++ ")"
  | .next => "(next)" | .nextfile => "(nextfile)" | .brk => "(break)" | .cont => "(continue)"
  | .exprS e => "(expr " ++ Drv.C04.showTree e ++ ")"

open GoawkModel.C20Simple in
def handleSimple (cmd : String) (ws : List String) : String :=
  match ws.mapM wordPTok with
  | none => "bad-token"
  | some ts =>
    match parseSimple ts with
    | .error x => Drv.C04.errWord x
    | .ok (s, rest) =>
      if cmd == "simple" then s!"ok {rest.length} " ++ showSimpleTree s
      else "ok " ++ String.intercalate " " ((showSimple s).map ptokWord)

open GoawkModel.C20Stmt in
def showItemTree : Item → String
  | .begin b => "(begin " ++ showSTree b ++ ")"
  | .end_ b => "(end " ++ showSTree b ++ ")"
  | .func k ps b => s!"(func {k} [" ++ String.intercalate " " (ps.map toString) ++ "] " ++ showSTree b ++ ")"
  | .action pats body => "(action [" ++ String.intercalate " " (pats.map toString) ++ "] " ++
      (match body with | some b => showSTree b | none => "nil") ++ ")"

open GoawkModel.C20Stmt in
/-- `prog tok*` → `ok item*` | `reject`; `showprog tok*` → `ok tok*` -/
def handleProg (cmd : String) (ws : List String) : String :=
  match ws.mapM wordSTok with
  | none => "bad-token"
  | some ts =>
    match parseProg ts with
    | none => "reject"
    | some is =>
      if cmd == "prog" then "ok " ++ String.intercalate " " (is.map showItemTree)
      else "ok " ++ String.intercalate " " ((showProg is).map stokWord)

def handle (args : List String) : String :=
  match args with
  | "show" :: pcw :: ws =>
    match ws.mapM Drv.C04.wordTok with
    | none => "bad-token"
    | some ts =>
      match parseExpr (pcw == "1") ts with
      | .error x => Drv.C04.errWord x
      | .ok (e, rest) => if rest.length == 1 then "ok " ++ Drv.C04.showToks (showE e) else "err rest"
  | "simple" :: ws => handleSimple "simple" ws
  | "showsimple" :: ws => handleSimple "showsimple" ws
  | "prog" :: ws => handleProg "prog" ws
  | "showprog" :: ws => handleProg "showprog" ws
  | "stmt" :: ws => handleStmt "stmt" ws
  | "showstmt" :: ws => handleStmt "showstmt" ws
  | _ =>
    match C20Quote.handleQuote args with
    | some s => s
    | none => "bad-request"

end GoawkModel.Drv.C20
