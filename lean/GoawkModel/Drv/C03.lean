import GoawkModel.Basic
import GoawkModel.C03
/-! Line-protocol handler for property C03.
`lex <bits> <src>` → `ok (<line>:<col>:<tok>:<off>:<val>)*` — `bits` is a string of 0/1 (`-` = none): the decision, per DIV/DIV_ASSIGN
token, whether the client calls ScanRegex next.  `pos <src> <off>` → `<line>:<col>` (trueLineCol). -/
namespace GoawkModel.Drv.C03
open GoawkModel GoawkModel.C03

def renderTok (t : Token) : String :=
  s!"{t.pos.line}:{t.pos.col}:{t.tok}:{t.off}:{toHex t.val}"

def parseBits (s : String) : List Bool :=
  if s == "-" then [] else s.toList.map (· == '1')

def handle (args : List String) : String :=
  match args with
  | ["lex", bits, src] =>
    match fromHex src with
    | some src => String.intercalate " " ("ok" :: (lex src (parseBits bits)).map renderTok)
    | none => "bad-hex"
  | ["pos", src, off] =>
    match fromHex src, off.toNat? with
    | some src, some off => let p := trueLineCol src off; s!"{p.line}:{p.col}"
    | _, _ => "bad-request"
  | _ => "bad-request"

end GoawkModel.Drv.C03
