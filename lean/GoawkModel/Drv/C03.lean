import GoawkModel.Basic
/-! Line-protocol handler for property C03: one request line (already split into words, without the leading `c03`) → one answer line. -/
namespace GoawkModel.Drv.C03

def handle (_args : List String) : String := "unimplemented"

end GoawkModel.Drv.C03
