import GoawkModel.Basic
/-! Line-protocol handler for property C09: one request line (already split into words, without the leading `c09`) → one answer line. -/
namespace GoawkModel.Drv.C09

def handle (_args : List String) : String := "unimplemented"

end GoawkModel.Drv.C09
