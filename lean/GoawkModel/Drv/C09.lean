import GoawkModel.Basic
import GoawkModel.C09
import GoawkModel.C09Digits
import GoawkModel.C09Spec
import GoawkModel.C09Cache
import GoawkModel.C09Chars
/-!
Line-protocol handler for property C09.

* `sprintf <chars 0|1> <fmt hex> (<isStr 0|1>:<str hex>:<float bits, 16 hex digits>)*`
      → `ok <hex>` | `err noverb` | `err badverb <code>` | `err argcount <got> <expected>` | `unmodelled <why>`
* `cfmt <chars 0|1> <flag chars hex> <width | -> <precision | -> <verb code> <arg>`   (width/precision as resolved integers; a
  negative width/precision stands for a negative `*` argument)
      → `ok <hex>` | `outside` (not a combination ISO C defines) | `none`
* `numtostr <ofmt hex> <bits>` → like `sprintf`
* `table` → the generated verb table as text
* `charspec <str hex>` → `<k> <chars>`: k = the length (1-4) of the prefix that is a well-formed UTF-8 sequence by the declarative
  table `wellFormedSeq`, 0 when there is none; chars = `charsOf` (hex, comma separated; `-` when empty)
* `cfmtschars <flag chars hex> <width | -> <precision | -> <str hex>` → `ok <hex>`: `%s` stated on characters (`cFmtStrChars`)
-/
namespace GoawkModel.Drv.C09
open GoawkModel GoawkModel.C09

def hexNat (s : String) : Option Nat :=
  s.toList.foldlM (fun acc c => (hexVal c).map (fun v => acc * 16 + v)) 0

def parseArg (s : String) : Option Arg :=
  match s.splitOn ":" with
  | [k, h, b] =>
    match fromHex h, hexNat b with
    | some bs, some bits => some ⟨k == "1", bs, ofBits bits⟩
    | _, _ => none
  | _ => none

def renderRes : Res → String
  | .ok b => "ok " ++ toHex b
  | .err .noVerb => "err noverb"
  | .err (.badVerb c) => "err badverb " ++ toString c.toNat
  | .err (.argCount g e) => "err argcount " ++ toString g ++ " " ++ toString e
  | .unmodelled w => "unmodelled " ++ w.replace " " "_"

def optInt (s : String) : Option (Option Int) :=
  if s == "-" then some none else (s.toInt?).map some

def handle (args : List String) : String :=
  match args with
  | "sprintf" :: chars :: fmt :: rest =>
    match fromHex fmt, rest.mapM parseArg with
    | some f, some as => renderRes (awkSprintf exactGen (chars == "1") f as)
    | _, _ => "bad-request"
  | ["cfmt", chars, flags, w, p, verb, arg] =>
    match fromHex flags, optInt w, optInt p, verb.toNat?, parseArg arg with
    | some fc, some w, some p, some v, some a =>
      let sp := resolveSpec (goFlags fc) w p (UInt8.ofNat v)
      if !inCDomain sp then "outside" else
      match awkConvert (chars == "1") sp.verb a with
      | none => "none"
      | some ca =>
        match cFormat exactGen sp ca with
        | some b => "ok " ++ toHex b
        | none => "none"
    | _, _, _, _, _ => "bad-request"
  | ["numtostr", ofmt, bits] =>
    match fromHex ofmt, hexNat bits with
    | some f, some b => renderRes (numToStr exactGen f (ofBits b))
    | _, _ => "bad-request"
  | "printargs" :: mode :: ofmt :: ofs :: ors :: rest =>
    let m : Option OutMode := if mode == "default" then some .default else if mode == "csv" then some .csv else if mode == "tsv" then some .tsv else none
    let parseVal (s : String) : Option Val :=
      match s.splitOn ":" with
      | ["n", b] => (hexNat b).map (fun bits => Val.num (ofBits bits))
      | ["s", h] => (fromHex h).map Val.str
      | _ => none
    match m, fromHex ofmt, fromHex ofs, fromHex ors, rest.mapM parseVal with
    | some m, some f, some fs, some rs, some vs => renderRes (printArgs exactGen m f fs rs vs)
    | _, _, _, _, _ => "bad-request"
  | "seq" :: chars :: uses =>
    let parseUse (u : String) : Option (Bytes × List Arg) :=
      match u.splitOn "," with
      | f :: as =>
        match fromHex f, as.mapM parseArg with
        | some fb, some args => some (fb, args)
        | _, _ => none
      | [] => none
    match uses.mapM parseUse with
    | some us => String.intercalate "|" ((runUses exactGen (chars == "1") [] us).map (fun r => (renderRes r).replace " " ":"))
    | none => "bad-request"
  | ["table"] => Generated.C09Verbs.verbTableText
  | ["charspec", h] =>
    match fromHex h with
    | some b =>
      let k := ([1, 2, 3, 4].find? (fun k => k ≤ b.length && wellFormedSeq (b.take k))).getD 0
      let cs := charsOf b
      toString k ++ " " ++ (if cs.isEmpty then "-" else String.intercalate "," (cs.map toHex))
    | none => "bad-request"
  | ["cfmtschars", flags, w, p, h] =>
    match fromHex flags, optInt w, optInt p, fromHex h with
    | some fc, some w, some p, some b => "ok " ++ toHex (cFmtStrChars (resolveSpec (goFlags fc) w p 115) b)
    | _, _, _, _ => "bad-request"
  | _ => "bad-request"

end GoawkModel.Drv.C09
