import GoawkModel.Basic
import GoawkModel.Drv.C16
import GoawkModel.C19Passes
/-! Line-protocol handler for property C19. Same program syntax as C16 (see `GoawkModel.Drv.C16`):
`parse <iter> <program>` runs `GoawkModel.C16.parse` — the resolver with the model of Go's `orderedFuncs` — where `<iter>` names
the simulated map iteration order (`id`, `rev`, `rot`); the answer is the full result: type table with indexes, or the error with
the place it was raised. `order <spec> <program>` answers the function walk order. `passes <iter> <program>` answers the number
of resolver passes made until the verdict (`passes 2` = the error is raised in, or nothing more is determined by, the second pass). -/
namespace GoawkModel.Drv.C19
open GoawkModel GoawkModel.C16 GoawkModel.Drv.C16

def rot (l : List Name) : List Name :=
  match l with
  | [] => []
  | x :: xs => xs ++ [x]

def iterOf : String → Option (List Name → List Name)
  | "id" => some id
  | "rev" => some List.reverse
  | "rot" => some rot
  | _ => none

def handle (args : List String) : String :=
  match args with
  | "parse" :: it :: rest =>
    match iterOf it, parseProgram rest with
    | some iter, some p =>
      match parse iter p with
      | .ok s => "ok " ++ showTable p s
      | .error e => showErr e
    | _, _ => "bad-request"
  | "passes" :: it :: rest =>
    match iterOf it, parseProgram rest with
    | some iter, some p => "passes " ++ toString (passesRun p (goOrder iter p))
    | _, _ => "bad-request"
  | _ => GoawkModel.Drv.C16.handle args

end GoawkModel.Drv.C19
