import GoawkModel.Basic
/-! Line-protocol handler for property C19: one request line (already split into words, without the leading `c19`) → one answer line. -/
namespace GoawkModel.Drv.C19

def handle (_args : List String) : String := "unimplemented"

end GoawkModel.Drv.C19
