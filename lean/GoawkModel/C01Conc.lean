import GoawkModel.C01
/-!
# C01 — a concrete semantics (`semC`) for the behaviour correspondence, and the flat opcode encoding

`semC` implements `Sem` with exact integer / byte-string values: AWK values `null | num | str | numstr`, globals, global
arrays, the record (`$0`, fields with their "true string" flags, `NF`), `NR`, an output log and the exit status. It is exact
for programs whose numbers stay integers below 2^53 in magnitude and whose strings use digits, `a b c`, space and `-`
(the harness generates only such programs for this tie and `bounded` detects overflow). Division, power and modulo, local
variables and special variables other than `NF`/`NR` are outside (`none`).
-/
namespace GoawkModel.C01

inductive CV
  | null | num (n : Int) | str (b : Bytes) | numstr (b : Bytes)
  deriving Repr, Inhabited, DecidableEq

structure CW where
  globals : List CV := []
  arrays : List (List (Bytes × CV)) := []
  line : Bytes := []
  lineTrue : Bool := false
  fields : List (Bytes × Bool) := []   -- text, isTrueStr
  nf : CV := .num 0
  nr : CV := .num 0
  out : Bytes := []
  exit : Int := 0
  deriving Inhabited

namespace Conc

def isSpace (c : UInt8) : Bool := c == 32 || c == 9 || c == 10 || c == 11 || c == 12 || c == 13
def isDigit (c : UInt8) : Bool := 48 ≤ c && c ≤ 57

def digitsVal (ds : Bytes) : Nat := ds.foldl (fun a d => a * 10 + (d.toNat - 48)) 0

/-- `parseFloatPrefix` restricted to the integer syntax: spaces, optional sign, digits -/
def numPrefix (b : Bytes) : Int :=
  let b := b.dropWhile isSpace
  let (neg, b) := match b with
    | 45 :: r => (true, r)
    | 43 :: r => (false, r)
    | _ => (false, b)
  let n : Int := digitsVal (b.takeWhile isDigit)
  if neg then -n else n

/-- `parseFloat` (whole string, ASCII space trimmed) restricted to the integer syntax -/
def numWhole (b : Bytes) : Option Int :=
  let b := (b.dropWhile isSpace).reverse.dropWhile isSpace |>.reverse
  let (neg, d) := match b with
    | 45 :: r => (true, r)
    | 43 :: r => (false, r)
    | _ => (false, b)
  if d ≠ [] ∧ d.all isDigit then some (if neg then -(digitsVal d : Int) else digitsVal d) else none

def intBytes (n : Int) : Bytes :=
  if n < 0 then 45 :: decBytes n.natAbs else decBytes n.natAbs

def toStr : CV → Bytes
  | .null => []
  | .num n => intBytes n
  | .str b | .numstr b => b

def toNum : CV → Int
  | .null => 0
  | .num n => n
  | .str b | .numstr b => numPrefix b

/-- `isTrueStr`: `none` = true string, `some n` = number -/
def asNumber : CV → Option Int
  | .null => some 0
  | .num n => some n
  | .str _ => none
  | .numstr b => numWhole b

def toBool : CV → Bool
  | .null => false
  | .num n => n ≠ 0
  | .str b => b ≠ []
  | .numstr b =>
    match numWhole b with
    | some n => n ≠ 0
    | none => b ≠ []

def bytesLt : Bytes → Bytes → Bool
  | [], [] => false
  | [], _ :: _ => true
  | _ :: _, [] => false
  | a :: as, b :: bs => if a < b then true else if b < a then false else bytesLt as bs

def cmpWith (op : CmpOp) (lt eq : Bool) : Bool :=
  match op with
  | .eq => eq | .ne => !eq | .lt => lt | .le => lt || eq | .gt => !(lt || eq) | .ge => !lt

def cmp (op : CmpOp) (l r : CV) : Bool :=
  match asNumber l, asNumber r with
  | some a, some b => cmpWith op (a < b) (a = b)
  | _, _ => let a := toStr l; let b := toStr r; cmpWith op (bytesLt a b) (a = b)

def big : Int := 9007199254740992

def arith (bounded : Bool) (op : ArithOp) (l r : CV) : Option CV :=
  let a := toNum l
  let b := toNum r
  let res : Option Int := match op with
    | .add => some (a + b) | .sub => some (a - b) | .mul => some (a * b) | _ => none
  match res with
  | none => none
  | some n => if bounded ∧ (n ≥ big ∨ n ≤ -big ∨ a ≥ big ∨ a ≤ -big ∨ b ≥ big ∨ b ≤ -big) then none else some (.num n)

def getNth {α} [Inhabited α] (l : List α) (i : Nat) : α := l.getD i default

def setNth {α} [Inhabited α] : List α → Nat → α → List α
  | [], 0, x => [x]
  | [], n+1, x => default :: setNth [] n x
  | _ :: l, 0, x => x :: l
  | y :: l, n+1, x => y :: setNth l n x

/-- `strings.Fields` -/
def splitFields (b : Bytes) : List Bytes :=
  let rec go : Bytes → Bytes → List Bytes → List Bytes
    | [], cur, acc => (if cur = [] then acc else cur.reverse :: acc).reverse
    | c :: rest, cur, acc =>
      if isSpace c then go rest [] (if cur = [] then acc else cur.reverse :: acc) else go rest (c :: cur) acc
  go b [] []

def joinFields (fs : List Bytes) : Bytes := (fs.intersperse [32]).flatten

def setLine (w : CW) (line : Bytes) (isTrue : Bool) : CW :=
  let fs := splitFields line
  { w with line := line, lineTrue := isTrue, fields := fs.map (·, false), nf := .num fs.length }

def maxField : Int := 1000000

def getFieldN (w : CW) (index : Int) : CV :=
  if index = 0 then (if w.lineTrue then .str w.line else .numstr w.line) else
  let index := if index < 1 then (w.fields.length : Int) + 1 + index else index
  if index < 1 ∨ index > w.fields.length then .str [] else
  let (b, t) := getNth w.fields (index.toNat - 1)
  if t then .str b else .numstr b

def setFieldN (w : CW) (index : Int) (value : Bytes) : Option CW :=
  if index = 0 then some (setLine w value true) else
  if index > maxField then none else
  let index := if index < 1 then (w.fields.length : Int) + 1 + index else index
  if index < 1 then some w else
  let n := index.toNat
  let fs := w.fields ++ List.replicate (n - w.fields.length) ([], true)
  let fs := fs.set (n - 1) (value, true)
  some { w with fields := fs, nf := .num fs.length, line := joinFields (fs.map (·.1)), lineTrue := true }

def setNF (w : CW) (v : CV) : Option CW :=
  let n := toNum v
  if n < 0 ∨ n > maxField then none else
  let k := n.toNat
  let fs := if k < w.fields.length then w.fields.take k else w.fields ++ List.replicate (k - w.fields.length) ([], false)
  some { w with nf := v, fields := fs, line := joinFields (fs.map (·.1)), lineTrue := true }

def arrLookup (a : List (Bytes × CV)) (k : Bytes) : Option CV := (a.find? (·.1 = k)).map (·.2)
def arrSet (a : List (Bytes × CV)) (k : Bytes) (v : CV) : List (Bytes × CV) :=
  if a.any (·.1 = k) then a.map fun p => if p.1 = k then (k, v) else p else a ++ [(k, v)]

def printVals (vs : List CV) (w : CW) : CW :=
  let text := if vs = [] then w.line else joinFields (vs.map toStr)
  { w with out := w.out ++ text ++ [10] }

end Conc

open Conc in
/-- the concrete semantics; `bounded` makes arithmetic fail once a magnitude reaches 2^53 (used to detect inexactness) -/
def semC (bounded : Bool) : Sem where
  V := CV
  W := CW
  numV c := if c.isInt then .num c.val else .null
  strV b := .str b
  ofBool b := .num (if b then 1 else 0)
  toBool := toBool
  arith := arith bounded
  augOp := arith bounded
  incrBy dec v := .num (if dec then toNum v - 1 else toNum v + 1)
  cmp op l r _ := cmp op l r
  concat l r _ := .str (toStr l ++ toStr r)
  concatMulti vs _ := .str (vs.map toStr).flatten
  unop op v := match op with
    | .neg => .num (-toNum v)
    | .plus => .num (toNum v)
    | .not => .num (if toBool v then 0 else 1)
  getVar sc i w := match sc with
    | .global => getNth w.globals i
    | .loc => .null
    | .special => if i = 7 then w.nf else if i = 8 then w.nr else .null
  setVar sc i v w := match sc with
    | .global => some { w with globals := setNth w.globals i v }
    | .loc => none
    | .special => if i = 7 then setNF w v else if i = 8 then some { w with nr := v } else none
  getField iv w := getFieldN w (toNum iv)
  getFieldInt n w := getFieldN w n
  setField iv v w := setFieldN w (toNum iv) (toStr v)
  getArr sc a iv w := match sc with
    | .global =>
      let arr := getNth w.arrays a
      let k := toStr iv
      match arrLookup arr k with
      | some v => (v, w)
      | none => (.null, { w with arrays := setNth w.arrays a (arrSet arr k .null) })
    | .loc => (.null, w)
  setArr sc a iv v w := match sc with
    | .global => { w with arrays := setNth w.arrays a (arrSet (getNth w.arrays a) (toStr iv) v) }
    | .loc => w
  inArr sc a iv w := match sc with
    | .global => (arrLookup (getNth w.arrays a) (toStr iv)).isSome
    | .loc => false
  multiIndex vs _ := .str ((vs.map toStr).intersperse [28]).flatten
  print vs w := some (printVals vs w)
  setExit v w := { w with exit := toNum v }
  nullV := .null
  call _ _ _ _ := none

/-! ## Flat encoding into opcode words (numbers from the generated opcode list; constants looked up in the real tables) -/

def opNum (names : List String) (name : String) : Int :=
  match names.idxOf? name with
  | some i => i
  | none => -1

def ArithOp.opName : ArithOp → String
  | .add => "Add" | .sub => "Subtract" | .mul => "Multiply" | .div => "Divide" | .pow => "Power" | .mod => "Modulo"
def ArithOp.augName : ArithOp → String
  | .add => "AugOpAdd" | .sub => "AugOpSub" | .mul => "AugOpMul" | .div => "AugOpDiv" | .pow => "AugOpPow" | .mod => "AugOpMod"
def CmpOp.opName : CmpOp → String
  | .eq => "Equals" | .ne => "NotEquals" | .lt => "Less" | .le => "LessOrEqual" | .gt => "Greater" | .ge => "GreaterOrEqual"
def CmpOp.jumpName (op : CmpOp) : String := "Jump" ++ op.opName
def VScope.suffix : VScope → String
  | .global => "Global" | .loc => "Local" | .special => "Special"
def AScope.suffix : AScope → String
  | .global => "Global" | .loc => "Local"

/-- opcode name of an instruction -/
def Instr.opName : Instr → String
  | .num _ => "Num" | .str _ => "Str" | .dupe => "Dupe" | .drop => "Drop" | .swap => "Swap" | .rote => "Rote"
  | .field => "Field" | .fieldInt _ => "FieldInt"
  | .getVar sc _ => sc.suffix
  | .arrGet sc _ => "Array" ++ sc.suffix | .arrIn sc _ => "In" ++ sc.suffix
  | .assignField => "AssignField" | .assignVar sc _ => "Assign" ++ sc.suffix | .arrAssign sc _ => "AssignArray" ++ sc.suffix
  | .incrField _ => "IncrField" | .incrVar sc _ _ => "Incr" ++ sc.suffix | .arrIncr sc _ _ => "IncrArray" ++ sc.suffix
  | .augField _ => "AugAssignField" | .augVar sc _ _ => "AugAssign" ++ sc.suffix | .arrAug sc _ _ => "AugAssignArray" ++ sc.suffix
  | .indexMulti _ => "IndexMulti" | .concatMulti _ => "ConcatMulti"
  | .arith op => op.opName | .cmp op => op.opName | .concat => "Concat" | .not => "Not" | .neg => "UnaryMinus"
  | .plus => "UnaryPlus" | .boolean => "Boolean"
  | .jump _ => "Jump" | .jumpFalse _ => "JumpFalse" | .jumpTrue _ => "JumpTrue" | .jumpCmp op _ => op.jumpName
  | .next => "Next" | .exit => "Exit" | .exitStatus => "ExitStatus" | .print _ => "Print"
  | .nulls _ => "Nulls" | .callUser _ _ _ => "CallUser" | .ret => "Return" | .retNull => "ReturnNull"

structure Tables where
  opcodes : List String
  augOps : List String
  nums : List NumC
  strs : List Bytes

def amount (dec : Bool) : Int := if dec then -1 else 1

def Instr.operands (t : Tables) : Instr → List Int
  | .num c => [match t.nums.idxOf? c with | some i => (i : Int) | none => -1]
  | .str s => [match t.strs.idxOf? s with | some i => (i : Int) | none => -1]
  | .fieldInt n => [n]
  | .getVar _ i | .assignVar _ i => [i]
  | .arrGet _ a | .arrIn _ a | .arrAssign _ a => [a]
  | .incrField dec => [amount dec]
  | .incrVar _ dec i => [amount dec, i]
  | .arrIncr _ dec a => [amount dec, a]
  | .augField op => [opNum t.augOps op.augName]
  | .augVar _ op i => [opNum t.augOps op.augName, i]
  | .arrAug _ op a => [opNum t.augOps op.augName, a]
  | .indexMulti n | .concatMulti n => [n]
  | .jump off | .jumpFalse off | .jumpTrue off | .jumpCmp _ off => [off]
  | .print n => [n, 0]
  | .nulls k => [k]
  | .callUser f _ arrs => [(f : Int), (arrs.length : Int)] ++ arrs.flatMap fun a => [(match a.1 with | .loc => (1 : Int) | .global => 3), (a.2 : Int)]
  | _ => []

def encode (t : Tables) (c : Code) : List Int :=
  c.flatMap fun i => opNum t.opcodes i.opName :: i.operands t

end GoawkModel.C01
