/-! Shared basics for all GoAWK models: byte strings, hex line protocol helpers. Core Lean only. -/
namespace GoawkModel

abbrev Bytes := List UInt8

def hexDigit (n : Nat) : Char :=
  if n < 10 then Char.ofNat (48 + n) else Char.ofNat (87 + n)

def hexVal (c : Char) : Option Nat :=
  if '0' ≤ c ∧ c ≤ '9' then some (c.toNat - 48)
  else if 'a' ≤ c ∧ c ≤ 'f' then some (c.toNat - 87)
  else if 'A' ≤ c ∧ c ≤ 'F' then some (c.toNat - 55)
  else none

/-- bytes → lowercase hex, `-` for the empty string (line-protocol convention) -/
def toHex (b : Bytes) : String :=
  if b.isEmpty then "-" else
  String.ofList (b.flatMap fun x => [hexDigit (x.toNat / 16), hexDigit (x.toNat % 16)])

def fromHexAux : List Char → Bytes → Option Bytes
  | [], acc => some acc.reverse
  | [_], _ => none
  | a :: b :: rest, acc =>
    match hexVal a, hexVal b with
    | some x, some y => fromHexAux rest (UInt8.ofNat (x * 16 + y) :: acc)
    | _, _ => none

def fromHex (s : String) : Option Bytes :=
  if s == "-" then some [] else fromHexAux s.toList []

def ofString (s : String) : Bytes := s.toUTF8.toList

def words (line : String) : List String :=
  (line.splitOn " ").filter (· ≠ "")

/-- The driver loop shared by every `drv_cNN` executable: read a line, split into words, answer with one line, flush. -/
partial def driverLoop (handle : List String → String) (hin hout : IO.FS.Stream) : IO Unit := do
  let line ← hin.getLine
  if line.isEmpty then return ()
  let l := if line.endsWith "\n" then (line.dropEnd 1).toString else line
  hout.putStrLn (handle (words l))
  hout.flush
  driverLoop handle hin hout

def runDriver (handle : List String → String) : IO Unit := do
  driverLoop handle (← IO.getStdin) (← IO.getStdout)

end GoawkModel
