import GoawkModel.C01Frames
/-!
# C01 — the value of a user-function call by the way the callee is left

* `Stmt.NoValRet` : the statement contains no `return expr` (its expressions, and the calls in them, are arbitrary).
* `Ret` : a trace model of "which value does a call evaluate to". A run is a well-bracketed sequence of events — an
  activation starts, is left by `return v`, by a bare `return`, or by falling off the end. `Ret.spec` is direct evaluation of
  the syntax tree (and what vm.go does: the value travels inside the `returnValue` error of the activation that is being
  left): `return v` gives `v`, the other two give the uninitialised value. `Ret.slotRun` is the variant with ONE slot shared
  by all activations (`p.retVal`): nulled when a call starts, written by `return v`, read when an activation is left by any
  `return` (seeded change C01-q3).
-/
namespace GoawkModel.C01

/-- no `return expr` statement anywhere in the statement -/
def Stmt.NoValRet : Stmt → Prop
  | .seq s t => s.NoValRet ∧ t.NoValRet
  | .ifThen _ b => b.NoValRet
  | .ifElse _ b e => b.NoValRet ∧ e.NoValRet
  | .while _ b => b.NoValRet
  | .doWhile b _ => b.NoValRet
  | .for pre _ post b => pre.NoValRet ∧ post.NoValRet ∧ b.NoValRet
  | .block b => b.NoValRet
  | .ret (some _) => False
  | _ => True

namespace Ret

inductive Ev (V : Type)
  | enter
  | retVal (v : V)
  | retBare
  | fallOff
  deriving DecidableEq

/-- the values the calls of a run evaluate to, in the order in which the activations are left -/
def spec {V : Type} (null : V) : List (Ev V) → List V
  | [] => []
  | .enter :: t => spec null t
  | .retVal v :: t => v :: spec null t
  | .retBare :: t => null :: spec null t
  | .fallOff :: t => null :: spec null t

/-- the same with one shared slot: `enter` nulls it, `return v` writes it, every `return` hands back what it holds -/
def slotRun {V : Type} (null : V) : V → List (Ev V) → List V
  | _, [] => []
  | _, .enter :: t => slotRun null null t
  | _, .retVal v :: t => v :: slotRun null v t
  | s, .retBare :: t => s :: slotRun null s t
  | s, .fallOff :: t => null :: slotRun null s t

/-- no bare `return` leaves an activation after a `return v` of an activation that started later (i.e. of a call it made) -/
def NoBareAfterValue {V : Type} : Bool → List (Ev V) → Prop
  | _, [] => True
  | _, .enter :: t => NoBareAfterValue false t
  | _, .retVal _ :: t => NoBareAfterValue true t
  | dirty, .retBare :: t => dirty = false ∧ NoBareAfterValue dirty t
  | dirty, .fallOff :: t => NoBareAfterValue dirty t

end Ret
end GoawkModel.C01
