import GoawkModel.C05
/-!
# C05 — an exact executable instance of the abstract `Strconv` parameter

`textBits` evaluates a text accepted by `readFloat` (decimal or hexadecimal floating point) to the IEEE-754 binary64 bit
pattern of the correctly rounded value (round to nearest, ties to even; overflow → ±Inf), with big-number arithmetic.
`fmtG6` is `strconv.FormatFloat(f, 'g', 6, 64)` (= `%.6g`, the default CONVFMT/OFMT).
Nothing is proved about these functions; they are compared with the real `strconv` bit for bit / byte for byte by the
harness. The property theorems quantify over every `Strconv`, so they do not depend on them.
-/
namespace GoawkModel.C05
open GoawkModel

/-- round the positive rational `num/den` to the nearest binary64 (ties to even); bits without sign -/
def roundPos (num den : Nat) : Nat :=
  if num == 0 then 0 else
  let l := (Nat.log2 num : Int) - (Nat.log2 den : Int)
  let e0 : Int := l - 52
  let scaleBy (e : Int) : Nat × Nat :=
    if e ≥ 0 then (num, den * 2 ^ e.toNat) else (num * 2 ^ (-e).toNat, den)
  let fix (e : Int) : Int :=
    let (n, d) := scaleBy e
    let q := n / d
    if q < 2 ^ 52 then e - 1 else if q ≥ 2 ^ 53 then e + 1 else e
  let e1 := fix e0
  let e := if e1 < -1074 then -1074 else e1
  let (n, d) := scaleBy e
  let q := n / d
  let r := n % d
  let q' := if 2 * r > d then q + 1 else if 2 * r < d then q else (if q % 2 == 1 then q + 1 else q)
  let (q'', e') := if q' == 2 ^ 53 then (2 ^ 52, e + 1) else (q', e)
  if q'' < 2 ^ 52 then q''
  else
    let ex := e' + 1075
    if ex ≥ 0x7ff then 0x7ff * 2 ^ 52
    else q'' - 2 ^ 52 + ex.toNat * 2 ^ 52

def infBits : Nat := 0x7ff * 2 ^ 52
def signBit : Nat := 2 ^ 63
def nanBits : Nat := 0x7ff8000000000001   -- math.NaN()

def digitVal (c : UInt8) : Nat :=
  if isDigit c then c.toNat - 48
  else if decide (97 ≤ c) && decide (c ≤ 102) then c.toNat - 87
  else if decide (65 ≤ c) && decide (c ≤ 70) then c.toNat - 55
  else 0

def natOfDigits (base : Nat) (ds : Bytes) : Nat := ds.foldl (fun acc c => acc * base + digitVal c) 0

/-- a signed exponent `[+-]?digits` -/
def expOf (s : Bytes) : Int :=
  let es := (optSign s).1
  let n : Int := natOfDigits 10 ((optSign s).2.takeWhile isDigit)
  if es == [45] then -n else n

/-- m · 10^e10, correctly rounded -/
def decBits (m : Nat) (e10 : Int) : Nat :=
  if m == 0 then 0 else
  let nd : Int := (Nat.toDigits 10 m).length
  if nd + e10 > 330 then infBits
  else if nd + e10 < -345 then 0
  else if e10 ≥ 0 then roundPos (m * 10 ^ e10.toNat) 1 else roundPos m (10 ^ (-e10).toNat)

/-- m · 2^e2, correctly rounded -/
def binBits (m : Nat) (e2 : Int) : Nat :=
  if m == 0 then 0 else
  let nb : Int := Nat.log2 m + 1
  if nb + e2 > 1100 then infBits
  else if nb + e2 < -1100 then 0
  else if e2 ≥ 0 then roundPos (m * 2 ^ e2.toNat) 1 else roundPos m (2 ^ (-e2).toNat)

/-- value of a text of the `readFloat` grammar (after the sign) in base 10 -/
def decTextBits (s : Bytes) : Nat :=
  let d1 := s.takeWhile isDigit
  let r2 := (optDot (s.dropWhile isDigit)).2
  let d2 := r2.takeWhile isDigit
  let r3 := r2.dropWhile isDigit
  let e : Int := match r3 with
    | c :: r4 => if isE c then expOf r4 else 0
    | [] => 0
  decBits (natOfDigits 10 (d1 ++ d2)) (e - d2.length)

/-- … in base 16 (after the sign and `0x`) -/
def hexTextBits (s : Bytes) : Nat :=
  let d1 := s.takeWhile isHexDigit
  let r2 := (optDot (s.dropWhile isHexDigit)).2
  let d2 := r2.takeWhile isHexDigit
  let r3 := r2.dropWhile isHexDigit
  let e : Int := match r3 with
    | c :: r4 => if isP c then expOf r4 else 0
    | [] => 0
  binBits (natOfDigits 16 (d1 ++ d2)) (e - 4 * d2.length)

/-- `strconv.ParseFloat(text, 64)` for a text of the `readFloat` grammar: bit pattern of the result
(±Inf when `ErrRange` is reported) -/
def textBits (t : Bytes) : Nat :=
  let neg := (optSign t).1 == [45]
  let r := (optSign t).2
  let b := match r with
    | a :: b :: rest => if hasHexPrefix [a, b] then hexTextBits rest else decTextBits r
    | _ => decTextBits r
  if neg then b + signBit else b

/-- decode a bit pattern into the value layer -/
def numOfBits (b : Nat) : Num :=
  let neg := b / 2 ^ 63 % 2 == 1
  let ex := b / 2 ^ 52 % 2048
  let fr := b % 2 ^ 52
  if ex == 2047 then (if fr != 0 then .nan else if neg then .ninf else .pinf)
  else
    let k : Nat := if ex == 0 then fr else (fr + 2 ^ 52) * 2 ^ (ex - 1)
    .fin (if neg then -(k : Int) else (k : Int))

def resBits : Res → Nat
  | .nan => nanBits
  | .inf true => infBits + signBit
  | .inf false => infBits
  | .zero => 0
  | .conv t => textBits t

/-- the exact instance -/
def exactStrconv : Strconv Num where
  val t := numOfBits (textBits t)
  ovf t := textBits t % signBit == infBits

/-! ### `%.6g` -/

/-- `p` significant decimal digits of `m · 2^e` (round half even on the exact value) and the decimal exponent -/
def sigDigits (m : Nat) (e : Int) (p : Nat) : Nat × Int :=
  let (n, d) : Nat × Nat := if e ≥ 0 then (m * 2 ^ e.toNat, 1) else (m, 2 ^ (-e).toNat)
  let est : Int := (((Nat.log2 n : Int) - (Nat.log2 d : Int)) * 30103) / 100000
  let pow10 (k : Int) (n d : Nat) : Nat × Nat := if k ≥ 0 then (n, d * 10 ^ k.toNat) else (n * 10 ^ (-k).toNat, d)
  let adjust (x : Int) : Int :=
    let (a, b) := pow10 x n d
    if a < b then x - 1 else if a ≥ 10 * b then x + 1 else x
  let x := adjust (adjust est)
  let (a, b) := pow10 (x - (p : Int) + 1) n d
  let q := a / b
  let r := a % b
  let q' := if 2 * r > b then q + 1 else if 2 * r < b then q else (if q % 2 == 1 then q + 1 else q)
  if q' == 10 ^ p then (10 ^ (p - 1), x + 1) else (q', x)

def stripZeros (ds : Bytes) : Bytes := (ds.reverse.dropWhile (· == 48)).reverse

/-- `strconv.FormatFloat(f, 'g', 6, 64)` of the finite value `k · 2^-1074` (sign of zero is not represented: `0`) -/
def fmtG6Fin (k : Int) : Bytes :=
  let p := 6
  let sign : Bytes := if k < 0 then [45] else []
  let m := k.natAbs
  if m == 0 then [48] else
  let (ds, x) := sigDigits m (-1074) p
  let s := digitsOfNat ds
  if x < -4 || x ≥ (p : Int) then
    let mant := stripZeros (s.drop 1)
    let mantS := s.take 1 ++ (if mant.isEmpty then [] else 46 :: mant)
    let ax := x.natAbs
    let es : Bytes := (if x < 0 then [45] else [43]) ++ (if ax < 10 then [48] else []) ++ digitsOfNat ax
    sign ++ mantS ++ [101] ++ es
  else if x ≥ 0 then
    let ip := s.take (x.toNat + 1)
    let fp := stripZeros (s.drop (x.toNat + 1))
    sign ++ ip ++ (if fp.isEmpty then [] else 46 :: fp)
  else
    let zeros := List.replicate ((-x).toNat - 1) (48 : UInt8)
    let fp := stripZeros (zeros ++ s)
    sign ++ [48, 46] ++ fp

def fmtG6 : Num → Bytes
  | .fin k => fmtG6Fin k
  | .nan => [78, 97, 78]
  | .pinf => [43, 73, 110, 102]
  | .ninf => [45, 73, 110, 102]

end GoawkModel.C05
