import GoawkModel.C15
import GoawkModel.Generated.C15Cmds
/-!
# C15 — waiting for a command: the wait state of the cancellation model

`system()`, `close()` of a piped command and the implicit close at the end of a run call `(*exec.Cmd).Wait` (regenerated
fact `waitCallSites`). Every command is made by `execShell`: `exec.CommandContext(p.ctx, …)` when the run has a
cancellable context, `cmd.WaitDelay = 250 ms` (regenerated facts `execShellBody`, `waitDelayMs`). What `Wait` does is
os/exec's business (go1.23 `Cmd.Wait` / `awaitGoroutines`, read by hand — trusted):

* the child is dead when it ends on its own, or when the context becomes done (CommandContext kills it);
* `Wait` then awaits the goroutines that copy the command's standard streams. The copies of stdout / stderr end when the
  child is dead, or — when a grandchild that survived the kill still holds the pipe — when the descriptors are closed
  `WaitDelay` after the death. The copy of standard INPUT exists when `cmd.Stdin` is not an `*os.File`; the commands of
  `system()` and `cmd | getline` get `cmd.Stdin = p.stdin` (regenerated fact `cmdStdinWrites`), i.e. `Config.Stdin`.
  That goroutine ends when a `Read` of `Config.Stdin` returns and the following write to the pipe fails: the first Read
  that returns after the child's death — or, when a surviving grandchild still holds the pipe's read end, the first that
  returns after the descriptors were closed, `WaitDelay` later. `Wait` awaits it without limit: closing the descriptors
  does not interrupt a `Read` of the caller's reader.

Time is in milliseconds. Dispatches take no time in this model (they are counted, as in `GoawkModel.C15`); only waits
move the clock.
-/
namespace GoawkModel.C15

/-- `cmd.WaitDelay`, in ms (regenerated from execShell) -/
abbrev waitDelay : Nat := Generated.C15Cmds.waitDelayMs

/-- the goroutine that copies `Config.Stdin` to the command -/
inductive StdinCopy
  | none                   -- there is none: `Config.Stdin` is an `*os.File` (the child gets the descriptor), or the command is a `print | cmd`
  | yieldsAfter (d : Nat)  -- a Read of the reader returns (data, EOF or error) within `d` ms; the goroutine ends with the first Read that returns after its pipe was torn down
  | blocked                -- its Read never returns: an io.Pipe nobody writes to, an idle connection (finding G15-1)
  deriving DecidableEq, Repr

/-- the stdin copy ends within `d` ms of the child's death -/
def StdinCopy.terminatesWithin (d : Nat) : StdinCopy → Prop
  | .none => True
  | .yieldsAfter d' => d' ≤ d
  | .blocked => False

instance (d : Nat) (s : StdinCopy) : Decidable (s.terminatesWithin d) := by
  cases s <;> simp only [StdinCopy.terminatesWithin] <;> infer_instance

/-- one command the interpreter waits for -/
structure Cmd where
  exits : Option Nat      -- it ends on its own this many ms after its start (`none`: never, e.g. `cat` on an idle pipe)
  copy : StdinCopy
  orphan : Bool           -- a grandchild that survives the kill keeps the command's output pipe open (`trap '' TERM; sleep 30`)
  deriving DecidableEq, Repr

/-- when the child is dead: its own end, or the moment the context is done (not before the start) — whichever is first -/
def deadAt (w : Cmd) (start : Nat) (τ : Option Nat) : Option Nat :=
  match w.exits, τ with
  | some e, some τ => some (min (start + e) (max τ start))
  | some e, none => some (start + e)
  | none, some τ => some (max τ start)
  | none, none => none

/-- when `cmd.Wait()`, called at `start`, returns (`none`: never); `τ` = when the context becomes done -/
def waitReturns (w : Cmd) (start : Nat) (τ : Option Nat) : Option Nat :=
  match deadAt w start τ with
  | none => none
  | some dead =>
    let outEnd := if w.orphan then dead + waitDelay else dead
    match w.copy with
    | .none => some outEnd
    | .yieldsAfter d => some (if w.orphan then dead + waitDelay + d else dead + d)
    | .blocked => none

/-- a step of a run: a dispatch, or a dispatch that waits for a command -/
inductive Step
  | d (x : D)
  | wait (w : Cmd)
  deriving DecidableEq, Repr

inductive OutcomeW
  | ctxErr (idx clock after : Nat) (k : Counts)   -- the poll of dispatch `idx` returned ctx.Err() at time `clock`; `after` dispatches ran under the done context
  | finished (clock after : Nat) (k : Counts)
  | stuck (idx : Nat)                             -- the `Wait` of dispatch `idx` never returns
  deriving DecidableEq, Repr

/-- the context is done: the script cancelled it at dispatch `τi`, or a timer / deadline at time `τc` -/
def cancelledW (τi τc : Option Nat) (i clk : Nat) : Bool := cancelledBy τi i || cancelledBy τc clk

/-- the dispatch loop with the poll, with waits. A command is not started under a context that is already done
(`exec.Cmd.Start` returns the context's error at once). -/
def runW (N : Nat) (τi τc : Option Nat) : List Step → Nat → Nat → Nat → Nat → Counts → OutcomeW
  | [], _, clk, _, a, k => .finished clk a k
  | s :: ss, i, clk, c, a, k =>
    if (poll N c).2 && cancelledW τi τc i clk then .ctxErr i clk a k
    else
      let a' := if cancelledW τi τc i clk then a + 1 else a
      match s with
      | .d .plain => runW N τi τc ss (i + 1) clk (poll N c).1 a' k
      | .d .tick => runW N τi τc ss (i + 1) clk (poll N c).1 a'
          ⟨k.ticks + 1, if cancelledW τi τc i clk then k.ticksAfter + 1 else k.ticksAfter⟩
      | .wait w =>
        if cancelledW τi τc i clk then runW N τi τc ss (i + 1) clk (poll N c).1 a' k
        else
          match waitReturns w clk τc with
          | none => .stuck i
          | some r => runW N τi τc ss (i + 1) r (poll N c).1 a' k

/-- what `run` (the model without waits) shows of an outcome -/
def OutcomeW.forget : OutcomeW → Option Outcome
  | .ctxErr i _ _ k => some (.ctxErr i 0 k)
  | .finished _ _ k => some (.finished 0 k)
  | .stuck _ => none

def Outcome.dropCounter : Outcome → Outcome
  | .ctxErr i _ k => .ctxErr i 0 k
  | .finished _ k => .finished 0 k

/-- the commands still open when the run returns are closed one after the other (closeAll): the time the last `Wait`
returns, `none` if one of them never does. All of them were started before `now`; `τ` as above. -/
def closeAllReturns (τ : Option Nat) : List (Cmd × Nat) → Nat → Option Nat
  | [], now => some now
  | (w, start) :: rest, now =>
    match waitReturns w start τ with
    | none => none
    | some r => closeAllReturns τ rest (max now r)

end GoawkModel.C15
