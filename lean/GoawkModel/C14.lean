import GoawkModel.Basic
/-!
# C14 — a reused Interpreter behaves like a fresh one: executable state-machine model

The interpreter state is a record of per-class components (the classes of `GoawkModel.C14Fields`):

* `PerRun`  — NR, FNR, $0, RSTART, CSV header names, scanner position, exit status, the stream table (the `"-"` scanner
  and whether Stdin was drained), the range-pattern flag (cleared by `resetCore`)
* `FromCfg` — input mode, header flag, stdin, context flag (overwritten by `setExecuteConfig`)
* `Vars`    — globals, one array, OFS, CONVFMT, FS and the FS saved with $0 (cleared only by `resetVars`)
* `Rand`    — seed and number of draws (reset only by `resetRand`)
* `cache`   — the dynamic-regex cache (never cleared)

The program run by the model is the fixed AWK program of `harness/c14/main.go` (`c14OpsProg`): an interpreter for small
scripts of operations passed through ENVIRON, one script for BEGIN, one executed per record, one for END. The harness
runs the same histories on the real `interp.Interpreter` and compares output, status and error kind.
-/
namespace GoawkModel.C14

inductive Op
  | setG (i : Nat) (v : String)      -- g<i> = v                         (global scalar)
  | setA (k v : String)              -- A[k] = v
  | delA (k : String)                -- delete A[k]
  | setOfs (v : String)              -- OFS = v
  | setCf (v : String)               -- CONVFMT = v
  | setFs (comma : Bool)             -- FS = "," / " "
  | setNR (n : Nat)                  -- NR = n
  | setRec (v : String)              -- $0 = v
  | getline                          -- plain getline from the main input
  | getDash                          -- getline g2 < "-"   (standard input through its own scanner, kept in the stream table)
  | matchOp (n : Nat)                -- match(...) so that RSTART = n
  | rx (k : String)                  -- a dynamic regex match (goes through the regex cache)
  | srand (n : Nat)                  -- srand(n)
  | rand                             -- print rand()
  | name (k : String)                -- print @"k"   (run-time error without header names)
  | exit (n : Nat)                   -- exit n
  | err                              -- division by zero inside a recursive function with a live local array
  | cancel                           -- native cancel(), then spin until the poll notices
  | probe                            -- print everything observable
  deriving Repr, DecidableEq

inductive ErrKind | none | divzero | nonames | cancelled | config
  deriving Repr, DecidableEq

structure Cfg where
  csv : Bool
  header : Bool
  input : List String
  varsFs : Bool             -- Vars: FS=","
  varG : Option String      -- Vars: g1=<v>
  badVar : Bool             -- Vars end with INPUTMODE=bogus: setExecuteConfig fails after the earlier Vars were applied
  useCtx : Bool             -- ExecuteContext (cancellable) instead of Execute
  b : List Op
  m : List Op
  e : List Op
  deriving Repr

structure PerRun where
  nr : Nat
  fnr : Nat
  line : String
  rstart : Nat
  names : Option (List String)
  scannerOpen : Bool
  rest : List String
  exitStatus : Nat
  rawTaken : Bool                    -- the Stdin reader has been drained into some scanner's buffer
  dash : Option (List String)        -- stream table entry "-": unread records of that scanner (none = not open)
  inRange : Bool                     -- the range-pattern rule is between its start and its stop record
  deriving Repr, DecidableEq

structure FromCfg where
  csv : Bool
  header : Bool
  input : List String
  useCtx : Bool
  deriving Repr, DecidableEq

structure Vars where
  g : List String
  arr : List (String × String)
  ofs : String
  convfmt : String
  fs : String
  savedFs : String
  deriving Repr, DecidableEq

structure Rand where
  seed : Nat
  count : Nat
  deriving Repr, DecidableEq

structure Core where
  perRun : PerRun
  cfg : FromCfg
  vars : Vars
  rand : Rand
  deriving Repr, DecidableEq

structure State where
  core : Core
  cache : List (String × String)
  deriving Repr

def PerRun.init : PerRun := ⟨0, 0, "", 0, none, false, [], 0, false, none, false⟩
def FromCfg.init : FromCfg := ⟨false, false, [], false⟩
def Vars.init : Vars := ⟨["", "", ""], [], " ", "%.6g", " ", " "⟩
def Rand.init : Rand := ⟨1, 0⟩

/-- `newInterp` -/
def fresh : State := ⟨⟨PerRun.init, FromCfg.init, Vars.init, Rand.init⟩, []⟩

/-- `resetCore` -/
def resetCore (s : State) : State := { s with core := { s.core with perRun := PerRun.init } }
/-- `ResetVars` -/
def resetVars (s : State) : State := { s with core := { s.core with vars := Vars.init } }
/-- `ResetRand` -/
def resetRand (s : State) : State := { s with core := { s.core with rand := Rand.init } }

/-! ## The run -/

def countChar (c : Char) (s : String) : Nat := (s.toList.filter (· == c)).length

/-- NF of the current record: CSV mode splits on commas; otherwise on the FS saved when $0 was set -/
def nf (c : Core) : Nat :=
  if c.perRun.line.isEmpty then 0
  else if c.cfg.csv then countChar ',' c.perRun.line + 1
  else if c.vars.savedFs == "," then countChar ',' c.perRun.line + 1
  else countChar ' ' c.perRun.line + 1

def setLine (c : Core) (l : String) : Core :=
  { c with perRun := { c.perRun with line := l }, vars := { c.vars with savedFs := c.vars.fs } }

/-- open the main input if it is not open yet; in CSV header mode the first row becomes the field names -/
def openInput (c : Core) : Core :=
  if c.perRun.scannerOpen then c
  else
    -- the first scanner that reads drains the whole (small) Stdin into its buffer; a second one sees end of input
    let rest0 : List String := if c.perRun.rawTaken then [] else c.cfg.input
    let c1 : Core := { c with perRun := { c.perRun with scannerOpen := true, rawTaken := true, rest := rest0 } }
    if c1.cfg.csv && c1.cfg.header then
      match c1.perRun.rest with
      | [] => c1
      | h :: t => { c1 with perRun := { c1.perRun with names := some (h.splitOn ","), rest := t } }
    else c1

/-- read one record of the main input (`nextLine` + `setLine`); `false` = end of input -/
def readRecord (c : Core) : Core × Bool :=
  let c2 := openInput c
  match c2.perRun.rest with
  | [] => (c2, false)
  | l :: t =>
    (setLine { c2 with perRun := { c2.perRun with rest := t, nr := c2.perRun.nr + 1, fnr := c2.perRun.fnr + 1 } } l, true)

/-- open the `"-"` scanner if it is not in the stream table yet (same splitter as the main input: header row in CSV
header mode) -/
def openDash (c : Core) : Core × List String :=
  match c.perRun.dash with
  | some ls => (c, ls)
  | none =>
    let ls0 := if c.perRun.rawTaken then [] else c.cfg.input
    let c1 : Core := { c with perRun := { c.perRun with rawTaken := true } }
    if c1.cfg.csv && c1.cfg.header then
      match ls0 with
      | [] => (c1, [])
      | h :: t => ({ c1 with perRun := { c1.perRun with names := some (h.splitOn ",") } }, t)
    else (c1, ls0)

/-- `getline g2 < "-"` -/
def getDash (c : Core) : Core :=
  match openDash c with
  | (c1, []) => { c1 with perRun := { c1.perRun with dash := some [] } }
  | (c1, l :: t) => { c1 with perRun := { c1.perRun with dash := some t }, vars := { c1.vars with g := c1.vars.g.set 2 l } }

/-- the rule `/^s/, /^e/ { print "R " NR }`, evaluated for every record before the per-record script (it reads $0 only,
so it does not depend on FS or the input mode) -/
def rangeRule (c : Core) : Core × List String :=
  let h := c.perRun.line.toList.head?
  let matched := c.perRun.inRange || h == some 's'
  ({ c with perRun := { c.perRun with inRange := matched && !(h == some 'e') } },
   if matched then ["R " ++ toString c.perRun.nr] else [])

def lookupArr (a : List (String × String)) (k : String) : String :=
  match a.find? (·.1 == k) with
  | some p => p.2
  | none => "-"

def setArr (a : List (String × String)) (k v : String) : List (String × String) :=
  (k, v) :: a.filter (·.1 != k)

def probeLine (c : Core) : String :=
  "P " ++ toString c.perRun.nr ++ " " ++ toString c.perRun.fnr ++ " " ++ toString (nf c) ++ " " ++ c.perRun.line ++ "|" ++
    String.intercalate "|" c.vars.g ++ "|" ++ lookupArr c.vars.arr "1" ++ "|" ++ lookupArr c.vars.arr "2" ++ "|" ++
    c.vars.ofs ++ "|" ++ c.vars.convfmt ++ "|" ++ toString c.perRun.rstart ++ "|" ++
    (if c.cfg.csv then (if c.cfg.header then "csv header" else "csv") else "")

def fieldByName (c : Core) (names : List String) (k : String) : String :=
  match names.idxOf? k with
  | none => ""
  | some i => ((c.perRun.line.splitOn ",")[i]?).getD ""

inductive Ctl | cont | exit | error (k : ErrKind)
  deriving Repr, DecidableEq

/-- the compiled form of a dynamic regex: a pure function of its source -/
def compile (k : String) : String := "re(" ++ k ++ ")"

/-- one operation on the cache-free part of the state; `compiled` is what the regex cache / compiler returned for `rx` -/
def stepCore (op : Op) (compiled : String) (c : Core) : Core × List String × Ctl :=
  match op with
  | .setG i v => ({ c with vars := { c.vars with g := c.vars.g.set i v } }, [], .cont)
  | .setA k v => ({ c with vars := { c.vars with arr := setArr c.vars.arr k v } }, [], .cont)
  | .delA k => ({ c with vars := { c.vars with arr := c.vars.arr.filter (·.1 != k) } }, [], .cont)
  | .setOfs v => ({ c with vars := { c.vars with ofs := v } }, [], .cont)
  | .setCf v => ({ c with vars := { c.vars with convfmt := v } }, [], .cont)
  | .setFs comma => ({ c with vars := { c.vars with fs := if comma then "," else " " } }, [], .cont)
  | .setNR n => ({ c with perRun := { c.perRun with nr := n } }, [], .cont)
  | .setRec v => (setLine c v, [], .cont)
  | .getline => ((readRecord c).1, [], .cont)
  | .getDash => (getDash c, [], .cont)
  | .matchOp n => ({ c with perRun := { c.perRun with rstart := n } }, [], .cont)
  | .rx k => (c, ["rx " ++ (if compiled == compile k then "1" else "0")], .cont)
  | .srand n => ({ c with rand := ⟨n, 0⟩ }, [], .cont)
  | .rand => ({ c with rand := { c.rand with count := c.rand.count + 1 } },
      ["rnd " ++ toString c.rand.seed ++ "." ++ toString c.rand.count], .cont)
  | .name k =>
    match c.perRun.names with
    | none => (c, [], .error .nonames)
    | some ns => (c, ["N " ++ fieldByName c ns k], .cont)
  | .exit n => ({ c with perRun := { c.perRun with exitStatus := n } }, [], .exit)
  | .err => (c, [], .error .divzero)
  | .cancel => (c, [], if c.cfg.useCtx then .error .cancelled else .cont)
  | .probe => (c, ["Q" ++ c.vars.ofs ++ "r", probeLine c], .cont)

def cacheLookup (cache : List (String × String)) (k : String) : Option String :=
  (cache.find? (·.1 == k)).map (·.2)

/-- one operation on the full state: `rx` consults the cache first and fills it on a miss (first 100 entries only) -/
def stepOp (op : Op) (s : State) : State × List String × Ctl :=
  match op with
  | .rx k =>
    match cacheLookup s.cache k with
    | some v => let r := stepCore op v s.core; (⟨r.1, s.cache⟩, r.2)
    | none =>
      let v := compile k
      let r := stepCore op v s.core
      (⟨r.1, if s.cache.length < 100 then (k, v) :: s.cache else s.cache⟩, r.2)
  | _ => let r := stepCore op "" s.core; (⟨r.1, s.cache⟩, r.2)

def runScript : List Op → State → State × List String × Ctl
  | [], s => (s, [], .cont)
  | op :: rest, s =>
    match stepOp op s with
    | (s1, o1, .cont) => let r := runScript rest s1; (r.1, o1 ++ r.2.1, r.2.2)
    | r => r

/-- the pattern-action loop: read a record, run the per-record script -/
def mainLoop (m : List Op) : Nat → State → State × List String × Ctl
  | 0, s => (s, [], .cont)
  | fuel + 1, s =>
    match readRecord s.core with
    | (c, false) => (⟨c, s.cache⟩, [], .cont)
    | (c, true) =>
      match runScript m ⟨(rangeRule c).1, s.cache⟩ with
      | (s1, o1, .cont) => let r := mainLoop m fuel s1; (r.1, (rangeRule c).2 ++ o1 ++ r.2.1, r.2.2)
      | (s1, o1, ctl) => (s1, (rangeRule c).2 ++ o1, ctl)

structure Result where
  out : List String
  status : Nat
  err : ErrKind
  deriving Repr, DecidableEq

/-- END block and final status (generic in the state type) -/
def finishG {σ : Type} (runE : σ → σ × List String × Ctl) (status : σ → Nat) (o : List String) (s2 : σ) : σ × Result :=
  match runE s2 with
  | (s3, o3, .error k) => (s3, ⟨o ++ o3, 0, k⟩)
  | (s3, o3, _) => (s3, ⟨o ++ o3, status s3, .none⟩)

/-- what follows BEGIN: an error ends everything; `exit` skips the records but not END; otherwise records, then END
(END also runs after `exit` in a rule) -/
def afterBeginG {σ : Type} (loop runE : σ → σ × List String × Ctl) (status : σ → Nat) (o1 : List String) (c1 : Ctl)
    (s1 : σ) : σ × Result :=
  match c1 with
  | .error k => (s1, ⟨o1, 0, k⟩)
  | .exit => finishG runE status o1 s1
  | .cont =>
    match loop s1 with
    | (s2, o2, .error k) => (s2, ⟨o1 ++ o2, 0, k⟩)
    | (s2, o2, _) => finishG runE status (o1 ++ o2) s2

/-- `executeAll`, generic in the state type: BEGIN, records, END -/
def executeAllG {σ : Type} (runB loop runE : σ → σ × List String × Ctl) (status : σ → Nat) (s : σ) : σ × Result :=
  match runB s with
  | (s1, o1, c1) => afterBeginG loop runE status o1 c1 s1

def executeAll (cfg : Cfg) (s : State) : State × Result :=
  executeAllG (runScript cfg.b) (mainLoop cfg.m (cfg.input.length + 1)) (runScript cfg.e)
    (fun s => s.core.perRun.exitStatus) s

/-- `setExecuteConfig`: modes first, then Vars in order (FS, g1, the bad one), then stdin. `none` = it returned an error
(the state then keeps what was assigned before the error). -/
def setExecuteConfig (cfg : Cfg) (s : State) : State × Bool :=
  let c := s.core
  let c1 : Core := { c with cfg := { c.cfg with csv := cfg.csv, header := cfg.header } }
  let c2 : Core := if cfg.varsFs then { c1 with vars := { c1.vars with fs := "," } } else c1
  let c3 : Core := match cfg.varG with
    | some v => { c2 with vars := { c2.vars with g := c2.vars.g.set 1 v } }
    | none => c2
  if cfg.badVar then (⟨c3, s.cache⟩, false)
  else (⟨{ c3 with cfg := { c3.cfg with input := cfg.input, useCtx := cfg.useCtx } }, s.cache⟩, true)

/-- `Interpreter.Execute` / `ExecuteContext` -/
def execute (cfg : Cfg) (s : State) : State × Result :=
  match setExecuteConfig cfg (resetCore s) with
  | (s1, false) => (s1, ⟨[], 0, .config⟩)
  | (s1, true) => executeAll cfg s1

/-- `interp.ExecProgram` / `New` + `Execute` on a fresh interpreter -/
def execFresh (cfg : Cfg) : Result := (execute cfg fresh).2

/-- one call on an Interpreter -/
inductive Call
  | exec (cfg : Cfg)
  | resetVars
  | resetRand
  deriving Repr

def callState : Call → State → State
  | .exec cfg, s => (execute cfg s).1
  | .resetVars, s => resetVars s
  | .resetRand, s => resetRand s

def runHistory (h : List Call) (s : State) : State := h.foldl (fun s c => callState c s) s

/-- the results of all `exec` calls of a history, in order -/
def historyResults : List Call → State → List Result
  | [], _ => []
  | .exec cfg :: rest, s => (execute cfg s).2 :: historyResults rest (execute cfg s).1
  | c :: rest, s => historyResults rest (callState c s)

/-- what may carry over without ResetVars / ResetRand: the variables and the generator -/
def carryOnly (s : State) : State := ⟨{ fresh.core with vars := s.core.vars, rand := s.core.rand }, []⟩

/-- every cache entry is what compiling its key gives -/
def CacheOk (cache : List (String × String)) : Prop := ∀ p ∈ cache, p.2 = compile p.1

end GoawkModel.C14
