import GoawkModel.C13Newline
/-!
# C13 — a reader for what the CSV / TSV output mode writes

`csvRead` is a specification-side reader of CSV text (it is not part of GoAWK's output path): it exists so that "every record
printed in CSV output mode reaches the destination completely and in order" can be stated as a round trip
(`Props.C13.csv_mode_complete`).
-/
namespace GoawkModel.C13

/-- states of a CSV reader -/
inductive CsvSt | fieldStart | plain | quoted | afterQuote
deriving DecidableEq, Repr

/-- A reader of CSV text (RFC 4180 with a one-byte separator `c`, records ended by LF): a field that starts with `"` runs to the
closing `"` (`""` inside stands for one `"`), any other field runs to the next separator or LF. `fld` = the current field so
far, `rec` = the finished fields of the current record, `recs` = the finished records. The text must end after a record. -/
def csvRead (c : UInt8) : Bytes → CsvSt → Bytes → List Bytes → List (List Bytes) → Option (List (List Bytes))
  | [], st, _, rec, recs => if st = .fieldStart ∧ rec = [] then some recs else none
  | x :: r, .fieldStart, _, rec, recs =>
    if x = 34 then csvRead c r .quoted [] rec recs
    else if x = c then csvRead c r .fieldStart [] (rec ++ [[]]) recs
    else if x = 10 then csvRead c r .fieldStart [] [] (recs ++ [rec ++ [[]]])
    else csvRead c r .plain [x] rec recs
  | x :: r, .plain, fld, rec, recs =>
    if x = c then csvRead c r .fieldStart [] (rec ++ [fld]) recs
    else if x = 10 then csvRead c r .fieldStart [] [] (recs ++ [rec ++ [fld]])
    else csvRead c r .plain (fld ++ [x]) rec recs
  | x :: r, .quoted, fld, rec, recs =>
    if x = 34 then csvRead c r .afterQuote fld rec recs else csvRead c r .quoted (fld ++ [x]) rec recs
  | x :: r, .afterQuote, fld, rec, recs =>
    if x = 34 then csvRead c r .quoted (fld ++ [34]) rec recs
    else if x = c then csvRead c r .fieldStart [] (rec ++ [fld]) recs
    else if x = 10 then csvRead c r .fieldStart [] [] (recs ++ [rec ++ [fld]])
    else none

end GoawkModel.C13
