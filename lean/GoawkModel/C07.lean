import GoawkModel.Scanner
/-! C07 models: the record split functions of `interp/io.go` (and `bufio.ScanLines`, which GoAWK uses for RS="\n"). -/
namespace GoawkModel.C07
open GoawkModel.Scanner

def indexByte (c : UInt8) : Bytes → Option Nat
  | [] => none
  | b :: bs => if b = c then some 0 else (indexByte c bs).map (· + 1)

/-- `dropCR` of `interp/io.go` / `bufio` -/
def dropCR (d : Bytes) : Bytes := if d.getLast? = some 13 then d.dropLast else d

/-- `bufio.ScanLines`; RT is RS ("\n") because `nextLine` presets `recordTerminator = recordSep`. -/
def splitNewline : SplitFn := fun d eof =>
  if eof = true ∧ d = [] then .more else
  match indexByte 10 d with
  | some i => .token (i + 1) (dropCR (d.take i)) [10]
  | none => if eof then .token d.length (dropCR d) [10] else .more

/-- `byteSplitter.scan` -/
def splitByte (c : UInt8) : SplitFn := fun d eof =>
  if eof = true ∧ d = [] then .more else
  match indexByte c d with
  | some i => .token (i + 1) (d.take i) [c]
  | none => if eof then .token d.length d [c] else .more

def isNL (b : UInt8) : Bool := b = 10 || b = 13

def dropLF (d : Bytes) : Bytes := if d.getLast? = some 10 then d.dropLast else d

/-- first `k` with `x[k] = '\n'` followed by `'\n'` (→ `(k, k+2)`) or by `"\r\n"` (→ `(k, k+3)`): the loop of
`blankLineSplitter.scan`; positions are relative to the start of the list, offset by `k0`. -/
def findBlank : Bytes → Nat → Option (Nat × Nat)
  | [], _ => none
  | b :: rest, k =>
    if b = 10 then
      match rest with
      | c :: rest2 =>
        if c = 10 then some (k, k + 2)
        else if c = 13 then
          match rest2 with
          | e :: _ => if e = 10 then some (k, k + 3) else findBlank rest (k + 1)
          | [] => findBlank rest (k + 1)
        else findBlank rest (k + 1)
      | [] => none
    else findBlank rest (k + 1)

/-- the part of `blankLineSplitter.scan` after the leading newlines were skipped: `body` starts with a non-newline byte;
advance and positions are relative to `body` -/
def blankBody (body : Bytes) (eof : Bool) : Decision :=
  match findBlank body 0 with
  | some (e, a) =>
    let i := a + ((body.drop a).takeWhile isNL).length
    if i ≥ body.length ∧ eof = false then .more
    else .token i (dropCR (body.take e)) ((body.drop e).take (i - e))
  | none =>
    if eof then
      let tok := dropCR (dropLF body)
      .token body.length tok (body.drop tok.length)
    else .more

def shift (k : Nat) : Decision → Decision
  | .token n r t => .token (k + n) r t
  | d => d

/-- `blankLineSplitter.scan` (RS=""), as repaired by "fix: RT for RS=\"\" doesn't depend on input chunking" -/
def splitBlank : SplitFn := fun d eof =>
  if eof = true ∧ d = [] then .more else
  let lead := (d.takeWhile isNL).length
  if lead ≥ d.length then .skip lead else shift lead (blankBody (d.drop lead) eof)

/-- `regexSplitter.scan` over an abstract matcher `m` (= `(*regexp.Regexp).FindIndex` after `Longest()`), as repaired by
"fix: regex RS reads more input when a match touches the end of the buffer". -/
def splitRegex (m : Bytes → Option (Nat × Nat)) : SplitFn := fun d eof =>
  if eof = true ∧ d = [] then .more else
  match m d with
  | some (a, b) =>
    if a ≠ b then
      if b = d.length ∧ eof = false then .more
      else .token b (d.take a) ((d.drop a).take (b - a))
    else if eof then .token d.length d [] else .more
  | none => if eof then .token d.length d [] else .more

/-- leftmost occurrence of a non-empty literal: the matcher of a literal RS (e.g. one multi-byte character) -/
def findLit (lit : Bytes) : Bytes → Nat → Option (Nat × Nat)
  | [], _ => none
  | b :: rest, k => if lit.isPrefixOf (b :: rest) then some (k, k + lit.length) else findLit lit rest (k + 1)

end GoawkModel.C07
