import GoawkModel.C09
/-!
The format cache of `interp.parseFmtTypes` as explicit state: `p.formatCache` maps a format string to its rewritten format and
type letters; a hit returns the stored pair, a miss parses and stores the result — only when parsing succeeded and fewer than
`maxCachedFormats` formats are stored. The cache lives as long as the interpreter (it is not reset between `Execute` calls).
-/
namespace GoawkModel.C09
open GoawkModel

abbrev FmtCache := List (Bytes × (Bytes × List UInt8))

/-- `parseFmtTypes` with the cache -/
def parseFmtTypesC (c : FmtCache) (s : Bytes) : Except FmtErr (Bytes × List UInt8) × FmtCache :=
  match c.lookup s with
  | some r => (.ok r, c)
  | none =>
    match parseFmtTypes s with
    | .ok r => (.ok r, if c.length < Generated.C09Verbs.maxCachedFormats then (s, r) :: c else c)
    | .error e => (.error e, c)

/-- what `sprintf` does once the format is parsed: error, argument-count check, conversion, `fmt.Sprintf` -/
def sprintfTail (dg : DigitGen) (chars : Bool) (parsed : Except FmtErr (Bytes × List UInt8)) (args : List Arg) : Res :=
  match parsed with
  | .error e => .err e
  | .ok (gofmt, types) =>
    if types.length > args.length then .err (.argCount args.length types.length)
    else
      match convertArgs chars types args with
      | none => .unmodelled "type letter without conversion"
      | some gargs => goPrintf dg gofmt gargs

/-- `interp.sprintf` on an interpreter whose cache is `c`: result and new cache -/
def awkSprintfC (dg : DigitGen) (chars : Bool) (c : FmtCache) (fmt : Bytes) (args : List Arg) : Res × FmtCache :=
  let r := parseFmtTypesC c fmt
  (sprintfTail dg chars r.1 args, r.2)

/-- a sequence of uses on one interpreter (any number of `Execute` calls) -/
def runUses (dg : DigitGen) (chars : Bool) : FmtCache → List (Bytes × List Arg) → List Res
  | _, [] => []
  | c, (f, args) :: rest =>
    let r := awkSprintfC dg chars c f args
    r.1 :: runUses dg chars r.2 rest

end GoawkModel.C09
