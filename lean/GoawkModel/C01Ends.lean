import GoawkModel.Basic
/-!
# C01, file output: buffered streams closed when execution ends, however it ends

Model of the part of `interp` that decides what is in the files after a run (`interp/io.go` getOutputStream / closeAll,
`interp/iostream.go` outFileStream = bufio.Writer over the file, `interp/interp.go` executeAll with its deferred `closeAll()`).

* Direct evaluation of the syntax tree (`spec*`): destinations are LOGS — a `print > dest` appends to the file at once.
* The interpreter (`impl*`): every open stream has a buffer; a write appends to the buffer and then hands over to the file as
  many bytes as the buffering POLICY says (any function — bufio's "when more than 64 KiB are buffered" is one instance);
  `fflush`/`close` empty the buffer; when execution ends — normally, by `exit`, or by a run-time error — `closeAll` closes every
  stream that is still open.

A program is abstracted to the sequence of its output actions in execution order (`Act`), ending at the first `fail` (a run-time
error) or `exit`; streams are named by numbers. `executeAllP3` is the seeded change C01-p3 (closeAll on the success path only).
Core Lean only.
-/
namespace GoawkModel.C01.Ends
open GoawkModel

/-- how a run ends -/
inductive Ending where
  | normal | exit | error
  deriving DecidableEq, Repr

/-- an output action of the running program -/
inductive Act where
  | print (dest : Nat) (trunc : Bool) (b : Bytes)  -- `print b > dest` (trunc) / `print b >> dest`
  | fflush (dest : Nat)
  | fflushAll
  | close (dest : Nat)
  | fail                                            -- a run-time error (division by zero, bad regex, ...)
  | exit
  deriving Repr

/-- specification state of one destination: the file, and whether the stream is open (a `>` re-opened after close truncates) -/
structure SpecSt where
  file : Bytes
  opened : Bool
  deriving Repr

/-- interpreter state of one destination: the file, the stream's buffer, whether the stream is open -/
structure St where
  file : Bytes
  buf : Bytes
  opened : Bool
  deriving Repr

/-- a buffering policy: how many of the `n` buffered bytes go to the file after a write -/
abbrev Policy := Nat → Nat

-- ---- one destination ----------------------------------------------------------------------------------------------------------

def specPrint (trunc : Bool) (b : Bytes) (s : SpecSt) : SpecSt :=
  let file := if s.opened then s.file else (if trunc then [] else s.file)
  ⟨file ++ b, true⟩

def specClose (s : SpecSt) : SpecSt := ⟨s.file, false⟩

def implPrint (pol : Policy) (trunc : Bool) (b : Bytes) (s : St) : St :=
  let file := if s.opened then s.file else (if trunc then [] else s.file)
  let buf := (if s.opened then s.buf else []) ++ b
  let k := pol buf.length
  ⟨file ++ buf.take k, buf.drop k, true⟩

def implFlush (s : St) : St := if s.opened then ⟨s.file ++ s.buf, [], true⟩ else s

def implClose (s : St) : St := if s.opened then ⟨s.file ++ s.buf, [], false⟩ else s

-- ---- all destinations -----------------------------------------------------------------------------------------------------------

def upd {α : Type} (σ : Nat → α) (n : Nat) (v : α) : Nat → α := fun m => if m = n then v else σ m

def specStep : Act → (Nat → SpecSt) → (Nat → SpecSt)
  | .print d t b, σ => upd σ d (specPrint t b (σ d))
  | .close d, σ => upd σ d (specClose (σ d))
  | _, σ => σ

def implStep (pol : Policy) : Act → (Nat → St) → (Nat → St)
  | .print d t b, σ => upd σ d (implPrint pol t b (σ d))
  | .fflush d, σ => upd σ d (implFlush (σ d))
  | .fflushAll, σ => fun m => implFlush (σ m)
  | .close d, σ => upd σ d (implClose (σ d))
  | _, σ => σ

/-- direct evaluation: run the actions up to the first `fail` / `exit` -/
def specRun : List Act → (Nat → SpecSt) → (Nat → SpecSt) × Ending
  | [], σ => (σ, .normal)
  | .fail :: _, σ => (σ, .error)
  | .exit :: _, σ => (σ, .exit)
  | a :: rest, σ => specRun rest (specStep a σ)

def implRun (pol : Policy) : List Act → (Nat → St) → (Nat → St) × Ending
  | [], σ => (σ, .normal)
  | .fail :: _, σ => (σ, .error)
  | .exit :: _, σ => (σ, .exit)
  | a :: rest, σ => implRun pol rest (implStep pol a σ)

/-- `closeAll`: every stream that is still open is flushed and closed -/
def closeAll (σ : Nat → St) : Nat → St := fun m => implClose (σ m)

/-- `executeAll`: run, then (deferred, so on every path) `closeAll` -/
def executeAll (pol : Policy) (acts : List Act) (σ : Nat → St) : (Nat → St) × Ending :=
  let r := implRun pol acts σ
  (closeAll r.1, r.2)

/-- the seeded change C01-p3: `closeAll` only when execution did not end with a run-time error -/
def executeAllP3 (pol : Policy) (acts : List Act) (σ : Nat → St) : (Nat → St) × Ending :=
  let r := implRun pol acts σ
  (if r.2 = .error then r.1 else closeAll r.1, r.2)

/-- before a run: no stream is open, the files hold whatever they hold -/
def initImpl (files : Nat → Bytes) : Nat → St := fun m => ⟨files m, [], false⟩
def initSpec (files : Nat → Bytes) : Nat → SpecSt := fun m => ⟨files m, false⟩

end GoawkModel.C01.Ends
