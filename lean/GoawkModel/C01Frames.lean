import GoawkModel.C01
import GoawkModel.Generated.Consts
/-!
# C01 — user functions: frames in the reference semantics and in the VM

* `Base` : the semantics of everything except local variables and calls (a `Sem` whose arrays are addressed by absolute
  id through `AScope.global`) plus the allocation primitives of the array store (`len(p.arrays)`, append, truncate).
* `FS B FT n` : the **framed reference semantics** — a `Sem` whose world is (frame, base world). Local scalars live in the
  frame, local arrays are resolved through the frame's id list, and `call` runs the function's body by direct evaluation
  of its syntax tree (`exec`) in a fresh frame: scalar arguments by value (missing ones are nulls: the evaluator pads them),
  array arguments by reference (their absolute ids), missing array parameters are freshly allocated empty arrays, the
  callee's frame is discarded on return and the array store truncated, the depth limit is an error. `n` bounds the call
  nesting (fuel). `next` / `exit` / `break` / `continue` escaping a function body are outside the model (`none`).
* `RBig` : the **VM with frames exactly as vm.go's `CallUser`**: one value stack; the frame of a call is the slice of the
  stack holding the pushed arguments and `Nulls`; `Local i` reads/writes that slot; the callee's code runs as a nested
  `execute`; on return the slots are popped and the result pushed; `localArrays` / `p.arrays` handled as in Go.
-/
namespace GoawkModel.C01

structure Fn where
  numScalars : Nat
  numArrays : Nat
  body : Stmt

abbrev FunTable := List Fn

structure Base where
  S : Sem
  /-- `len(p.arrays)` -/
  arrCount : S.W → Nat
  /-- `p.arrays = append(p.arrays, make(map[string]value))` -/
  arrPush : S.W → S.W
  /-- `p.arrays = p.arrays[:n]` -/
  arrTrunc : Nat → S.W → S.W

structure Frame (V : Type) where
  locals : List V
  larrs : List Nat
  depth : Nat

def maxDepth : Nat := Generated.Consts.maxCallDepth

/-- absolute id of an array reference (`interp.arrayIndex`) -/
def arrIdOf (larrs : List Nat) : AScope → Nat → Nat
  | .global, a => a
  | .loc, a => larrs.getD a 0

abbrev FW (B : Base) := Frame B.S.V × B.S.W

/-- the framed semantics over `B`, with the call primitive given -/
def mkSem (B : Base) (callf : Nat → List B.S.V → List (AScope × Nat) → FW B → Option (B.S.V × FW B)) : Sem where
  V := B.S.V
  W := FW B
  numV := B.S.numV
  strV := B.S.strV
  ofBool := B.S.ofBool
  toBool := B.S.toBool
  arith := B.S.arith
  augOp := B.S.augOp
  incrBy := B.S.incrBy
  cmp op a b fw := B.S.cmp op a b fw.2
  concat a b fw := B.S.concat a b fw.2
  concatMulti vs fw := B.S.concatMulti vs fw.2
  unop := B.S.unop
  getVar sc i fw := match sc with
    | .loc => fw.1.locals.getD i B.S.nullV
    | sc => B.S.getVar sc i fw.2
  setVar sc i v fw := match sc with
    | .loc => some ({ fw.1 with locals := fw.1.locals.set i v }, fw.2)
    | sc => (B.S.setVar sc i v fw.2).map fun w => (fw.1, w)
  getField iv fw := B.S.getField iv fw.2
  getFieldInt n fw := B.S.getFieldInt n fw.2
  setField iv v fw := (B.S.setField iv v fw.2).map fun w => (fw.1, w)
  getArr sc a iv fw := ((B.S.getArr .global (arrIdOf fw.1.larrs sc a) iv fw.2).1, (fw.1, (B.S.getArr .global (arrIdOf fw.1.larrs sc a) iv fw.2).2))
  setArr sc a iv v fw := (fw.1, B.S.setArr .global (arrIdOf fw.1.larrs sc a) iv v fw.2)
  inArr sc a iv fw := B.S.inArr .global (arrIdOf fw.1.larrs sc a) iv fw.2
  multiIndex vs fw := B.S.multiIndex vs fw.2
  print vs fw := (B.S.print vs fw.2).map fun w => (fw.1, w)
  setExit v fw := (fw.1, B.S.setExit v fw.2)
  nullV := B.S.nullV
  call := callf

/-- allocate `k` fresh arrays one after the other: their ids and the new world -/
def allocArrays (B : Base) : Nat → B.S.W → List Nat × B.S.W
  | 0, w => ([], w)
  | k+1, w =>
    let r := allocArrays B k (B.arrPush w)
    (B.arrCount w :: r.1, r.2)

/-- `CallUser`, as direct evaluation: the body runs under the semantics whose own calls are `callf`, with `k` fuel. -/
def callBody (B : Base) (FT : FunTable) (callf : Nat → List B.S.V → List (AScope × Nat) → FW B → Option (B.S.V × FW B))
    (k : Nat) (f : Nat) (vals : List B.S.V) (refs : List (AScope × Nat)) (fw : FW B) : Option (B.S.V × FW B) :=
  match FT[f]? with
  | none => none
  | some fn =>
    if maxDepth ≤ fw.1.depth ∨ vals.length ≠ fn.numScalars ∨ fn.numArrays < refs.length then none else
    let al := allocArrays B (fn.numArrays - refs.length) fw.2
    let ids := refs.map (fun r => arrIdOf fw.1.larrs r.1 r.2) ++ al.1
    match exec (mkSem B callf) k fn.body (⟨vals, ids, fw.1.depth + 1⟩, al.2) with
    | some (.ret v fw2) => some (v, (fw.1, B.arrTrunc (B.arrCount fw.2) fw2.2))
    | some (.normal fw2) => some (B.S.nullV, (fw.1, B.arrTrunc (B.arrCount fw.2) fw2.2))
    | _ => none

/-- the call primitive with nesting fuel `n` -/
def callN (B : Base) (FT : FunTable) : Nat → Nat → List B.S.V → List (AScope × Nat) → FW B → Option (B.S.V × FW B)
  | 0 => fun _ _ _ _ => none
  | n+1 => callBody B FT (callN B FT n) n

/-- the framed reference semantics with call-nesting fuel `n` -/
@[reducible] def FS (B : Base) (FT : FunTable) (n : Nat) : Sem := mkSem B (callN B FT n)

/-! ## The VM with frames on the value stack -/

/-- the current frame: `fb` stack slots lie below it, it has `fsz` slots (`p.frame = p.stack[sp-n:]`), `larrs` =
`p.localArrays[top]`, `depth` = `p.callDepth` -/
structure FInfo where
  fb : Nat
  fsz : Nat
  larrs : List Nat
  depth : Nat

section Real
variable (B : Base)

/-- `p.frame[k]` (head of the list = top of the stack, so slot `fb + k` counted from the bottom) -/
def getLocal (stk : List B.S.V) (fi : FInfo) (k : Nat) : B.S.V :=
  if k < fi.fsz then stk.reverse.getD (fi.fb + k) B.S.nullV else B.S.nullV

/-- `p.frame[k] = v` -/
def setLocal (stk : List B.S.V) (fi : FInfo) (k : Nat) (v : B.S.V) : List B.S.V :=
  if k < fi.fsz then (stk.reverse.set (fi.fb + k) v).reverse else stk

/-- array instructions address `p.arrays[arrayIndex(scope, index)]` -/
def resolveInstr (fi : FInfo) : Instr → Instr
  | .arrGet sc a => .arrGet .global (arrIdOf fi.larrs sc a)
  | .arrIn sc a => .arrIn .global (arrIdOf fi.larrs sc a)
  | .arrAssign sc a => .arrAssign .global (arrIdOf fi.larrs sc a)
  | .arrIncr sc dec a => .arrIncr .global dec (arrIdOf fi.larrs sc a)
  | .arrAug sc op a => .arrAug .global op (arrIdOf fi.larrs sc a)
  | i => i

/-- one instruction other than `CallUser`: locals are stack slots of the frame, everything else is the base semantics -/
def execInstrR (fi : FInfo) : Instr → List B.S.V → B.S.W → Option (Eff B.S)
  | .getVar .loc k, s, w => some (.next (getLocal B s fi k :: s) w)
  | .assignVar .loc k, v :: s, w => some (.next (setLocal B s fi k v) w)
  | .assignVar .loc _, [], _ => none
  | .incrVar .loc dec k, s, w => some (.next (setLocal B s fi k (B.S.incrBy dec (getLocal B s fi k))) w)
  | .augVar .loc op k, r :: s, w => (B.S.augOp op (getLocal B s fi k) r).map fun v => .next (setLocal B s fi k v) w
  | .augVar .loc _ _, [], _ => none
  | .callUser _ _ _, _, _ => none
  | i, s, w => execInstr B.S (resolveInstr fi i) s w

structure RSt where
  pc : Nat
  stk : List B.S.V
  fi : FInfo
  w : B.S.W

inductive ROut
  | normal (stk : List B.S.V) (w : B.S.W)
  | ret (v : B.S.V) (stk : List B.S.V) (w : B.S.W)
  | next (w : B.S.W)
  | exit (w : B.S.W)

/-- the callee's entry state for `CallUser f … refs` executed in `st` (`fn = FT[f]`) -/
def calleeSt (fn : Fn) (refs : List (AScope × Nat)) (st : RSt B) : RSt B :=
  let al := allocArrays B (fn.numArrays - refs.length) st.w
  ⟨0, st.stk, ⟨st.stk.length - fn.numScalars, fn.numScalars,
    refs.map (fun r => arrIdOf st.fi.larrs r.1 r.2) ++ al.1, st.fi.depth + 1⟩, al.2⟩

/-- the caller's state after the callee came back with stack `stk2`, world `w2` and result `r` -/
def afterCall (fn : Fn) (i : Instr) (st : RSt B) (r : B.S.V) (stk2 : List B.S.V) (w2 : B.S.W) : RSt B :=
  ⟨st.pc + i.size, r :: stk2.drop fn.numScalars, st.fi, B.arrTrunc (B.arrCount st.w) w2⟩

/-- big-step execution of one activation of `interp.execute` on code `C` (nested activations for calls) -/
inductive RBig (FT : FunTable) : Code → RSt B → ROut B → Prop
  | done {C st} : st.pc = csize C → RBig FT C st (.normal st.stk st.w)
  | step {C st i s' w' out} : fetch C st.pc = some i → execInstrR B st.fi i st.stk st.w = some (.next s' w') →
      RBig FT C ⟨st.pc + i.size, s', st.fi, w'⟩ out → RBig FT C st out
  | jump {C st i off s' w' out} : fetch C st.pc = some i → execInstrR B st.fi i st.stk st.w = some (.jump off s' w') →
      RBig FT C ⟨((st.pc + i.size : Nat) + off).toNat, s', st.fi, w'⟩ out → RBig FT C st out
  | stopNext {C st i w'} : fetch C st.pc = some i → execInstrR B st.fi i st.stk st.w = some (.stopNext w') →
      RBig FT C st (.next w')
  | stopExit {C st i w'} : fetch C st.pc = some i → execInstrR B st.fi i st.stk st.w = some (.stopExit w') →
      RBig FT C st (.exit w')
  | ret {C st v s} : fetch C st.pc = some .ret → st.stk = v :: s → RBig FT C st (.ret v s st.w)
  | retNull {C st} : fetch C st.pc = some .retNull → RBig FT C st (.ret B.S.nullV st.stk st.w)
  | callRet {C st f nsc refs fn v stk2 w2 out} : fetch C st.pc = some (.callUser f nsc refs) → FT[f]? = some fn →
      st.fi.depth < maxDepth → fn.numScalars ≤ st.stk.length → refs.length ≤ fn.numArrays →
      RBig FT (cStmt 0 0 fn.body) (calleeSt B fn refs st) (.ret v stk2 w2) →
      RBig FT C (afterCall B fn (.callUser f nsc refs) st v stk2 w2) out → RBig FT C st out
  | callNormal {C st f nsc refs fn stk2 w2 out} : fetch C st.pc = some (.callUser f nsc refs) → FT[f]? = some fn →
      st.fi.depth < maxDepth → fn.numScalars ≤ st.stk.length → refs.length ≤ fn.numArrays →
      RBig FT (cStmt 0 0 fn.body) (calleeSt B fn refs st) (.normal stk2 w2) →
      RBig FT C (afterCall B fn (.callUser f nsc refs) st B.S.nullV stk2 w2) out → RBig FT C st out
  | callNext {C st f nsc refs fn w2} : fetch C st.pc = some (.callUser f nsc refs) → FT[f]? = some fn →
      st.fi.depth < maxDepth → fn.numScalars ≤ st.stk.length → refs.length ≤ fn.numArrays →
      RBig FT (cStmt 0 0 fn.body) (calleeSt B fn refs st) (.next w2) → RBig FT C st (.next w2)
  | callExit {C st f nsc refs fn w2} : fetch C st.pc = some (.callUser f nsc refs) → FT[f]? = some fn →
      st.fi.depth < maxDepth → fn.numScalars ≤ st.stk.length → refs.length ≤ fn.numArrays →
      RBig FT (cStmt 0 0 fn.body) (calleeSt B fn refs st) (.exit w2) → RBig FT C st (.exit w2)

end Real

/-! ## `pushNulls` on the stack memory (an array with a stack pointer; slots at and above `sp` hold stale values) -/

/-- `interp.pushNulls`: grow the array while `sp + num - 1 ≥ len`, then overwrite `num` slots from `sp` with null -/
def growTo {V} (d : V) (mem : List V) (n : Nat) : List V := mem ++ List.replicate (n - mem.length) d

def fillNulls {V} (d : V) : List V → Nat → Nat → List V
  | mem, _, 0 => mem
  | mem, sp, k+1 => fillNulls d (mem.set sp d) (sp + 1) k

def pushNullsMem {V} (d : V) (mem : List V) (sp num : Nat) : List V × Nat :=
  (fillNulls d (growTo d mem (sp + num)) sp num, sp + num)

end GoawkModel.C01
