import GoawkModel.Basic
import GoawkModel.Generated.C09Verbs
/-!
C09 model: `printf`/`sprintf` of GoAWK, as the code is.

* `parseFmtTypes`, `addPrecG`  — `interp/functions.go` `parseFmtTypes` / `addDefaultPrecisionG` (verb table from the generated file)
* `convertArg`                — the argument conversion switch of `interp.sprintf`
* `goPrintf`, `goFormat`       — what `fmt.Sprintf` (Go 1.23 `fmt/print.go` `doPrintf`, `fmt/format.go` `fmtInteger`, `fmtS`, `fmtBs`,
                                 `fmtFloat`, `pad`) does for the verbs, flags and argument types GoAWK can hand it
* `awkSprintf`                — the pipeline
* `cFormat`, `cPrintf`         — ISO C `printf` semantics for `d i o x X u c s e E f g G`, written from the standard's text
* `numToStr`                  — `value.str` (print / OFMT)

Digit generation of floating-point conversions is a parameter (`DigitGen`) shared by both sides; the driver instantiates it with
the exact generator of `C09Digits.lean`.
-/
namespace GoawkModel.C09
open GoawkModel

/-! ## numbers -/

/-- a binary64 value: `fin neg m e` is `(-1)^neg * m * 2^e` -/
inductive F64
  | nan (neg : Bool)
  | inf (neg : Bool)
  | fin (neg : Bool) (m : Nat) (e : Int)
deriving DecidableEq, Repr

/-- truncation toward zero of `m * 2^e` -/
def truncMag (m : Nat) (e : Int) : Nat :=
  if e ≥ 0 then m * 2 ^ e.toNat else m / 2 ^ (-e).toNat

def two63 : Nat := 9223372036854775808
def two64 : Nat := 18446744073709551616
def two31 : Nat := 2147483648

/-- Go `int64(f)` on amd64 (CVTTSD2SQ): truncation; NaN, infinities and out-of-range values give `-2^63` -/
def toInt64 : F64 → Int
  | .nan _ => -(two63 : Int)
  | .inf _ => -(two63 : Int)
  | .fin neg m e =>
    let t := truncMag m e
    if neg then (if t ≤ two63 then -(t : Int) else -(two63 : Int))
    else (if t < two63 then (t : Int) else -(two63 : Int))

/-- Go `int32(f)` on amd64 (CVTTSD2SL): truncation; out-of-range gives `-2^31` -/
def toInt32 : F64 → Int
  | .nan _ => -(two31 : Int)
  | .inf _ => -(two31 : Int)
  | .fin neg m e =>
    let t := truncMag m e
    if neg then (if t ≤ two31 then -(t : Int) else -(two31 : Int))
    else (if t < two31 then (t : Int) else -(two31 : Int))

/-- Go `uint64(x)` for `x : int64` -/
def toUint64 (v : Int) : Nat := (v % (two64 : Int)).toNat

/-! ## small byte helpers -/

def spaces (n : Nat) : Bytes := List.replicate n 32
def zeros (n : Nat) : Bytes := List.replicate n 48

def digitChar (upper : Bool) (d : Nat) : UInt8 :=
  if d < 10 then UInt8.ofNat (48 + d) else if upper then UInt8.ofNat (55 + d) else UInt8.ofNat (87 + d)

/-- digits of `n` in `base`, most significant first, at least one digit -/
def natDigitsAux (base : Nat) (upper : Bool) : Nat → Nat → Bytes → Bytes
  | 0, _, acc => acc
  | fuel + 1, n, acc =>
    if n < base then digitChar upper n :: acc
    else natDigitsAux base upper fuel (n / base) (digitChar upper (n % base) :: acc)

def natDigits (base : Nat) (upper : Bool) (n : Nat) : Bytes := natDigitsAux base upper (n + 1) n []

def decimal (n : Nat) : Bytes := natDigits 10 false n

def intDecimal (v : Int) : Bytes := if v < 0 then 45 :: decimal v.natAbs else decimal v.natAbs

/-! ## UTF-8 (Go `unicode/utf8`) -/

def isCont (b : UInt8) : Bool := 0x80 ≤ b && b ≤ 0xBF

/-- width of the first rune as `utf8.DecodeRune` reports it (1 for an invalid or truncated sequence; 0 only for the empty string) -/
def runeSize : Bytes → Nat
  | [] => 0
  | b0 :: rest =>
    if b0 < 0x80 then 1
    else if 0xC2 ≤ b0 && b0 ≤ 0xDF then
      match rest with
      | b1 :: _ => if isCont b1 then 2 else 1
      | _ => 1
    else if 0xE0 ≤ b0 && b0 ≤ 0xEF then
      match rest with
      | b1 :: b2 :: _ =>
        let lo : UInt8 := if b0 = 0xE0 then 0xA0 else 0x80
        let hi : UInt8 := if b0 = 0xED then 0x9F else 0xBF
        if lo ≤ b1 && b1 ≤ hi && isCont b2 then 3 else 1
      | _ => 1
    else if 0xF0 ≤ b0 && b0 ≤ 0xF4 then
      match rest with
      | b1 :: b2 :: b3 :: _ =>
        let lo : UInt8 := if b0 = 0xF0 then 0x90 else 0x80
        let hi : UInt8 := if b0 = 0xF4 then 0x8F else 0xBF
        if lo ≤ b1 && b1 ≤ hi && isCont b2 && isCont b3 then 4 else 1
      | _ => 1
    else 1

/-- `utf8.RuneCount` -/
def runeCountAux : Nat → Bytes → Nat
  | 0, _ => 0
  | _, [] => 0
  | fuel + 1, b => 1 + runeCountAux fuel (b.drop (runeSize b))

def runeCount (b : Bytes) : Nat := runeCountAux b.length b

/-- `fmt.truncate`: the first `n` runes -/
def truncRunesAux : Nat → Nat → Bytes → Bytes
  | 0, _, _ => []
  | _, 0, _ => []
  | _, _, [] => []
  | fuel + 1, n + 1, b => b.take (runeSize b) ++ truncRunesAux fuel n (b.drop (runeSize b))

def truncRunes (n : Nat) (b : Bytes) : Bytes := truncRunesAux b.length n b

/-- `utf8.EncodeRune` of an `int32` value (invalid runes become U+FFFD) -/
def encodeRune (r : Int) : Bytes :=
  let bad : Bytes := [0xEF, 0xBF, 0xBD]
  if r < 0 then bad else
  let n := r.toNat
  if n < 0x80 then [UInt8.ofNat n]
  else if n < 0x800 then [UInt8.ofNat (0xC0 + n / 64), UInt8.ofNat (0x80 + n % 64)]
  else if 0xD800 ≤ n && n ≤ 0xDFFF then bad
  else if n < 0x10000 then [UInt8.ofNat (0xE0 + n / 4096), UInt8.ofNat (0x80 + n / 64 % 64), UInt8.ofNat (0x80 + n % 64)]
  else if n ≤ 0x10FFFF then
    [UInt8.ofNat (0xF0 + n / 262144), UInt8.ofNat (0x80 + n / 4096 % 64), UInt8.ofNat (0x80 + n / 64 % 64), UInt8.ofNat (0x80 + n % 64)]
  else bad

/-! ## format scanning (GoAWK side) -/

inductive FmtErr
  | noVerb                 -- "expected type specifier after %"
  | badVerb (c : UInt8)    -- "invalid format type %q"
  | argCount (got expected : Nat)
deriving DecidableEq, Repr

def inCodes (cs : List Nat) (c : UInt8) : Bool := cs.contains c.toNat

/-- the characters `parseFmtTypes` skips between `%` and the verb (generated from the source) -/
def isSpecChar (c : UInt8) : Bool := inCodes Generated.C09Verbs.specChars c
def isSpecCharG (c : UInt8) : Bool := inCodes Generated.C09Verbs.specCharsG c

/-- look a verb up in the generated table: `(type letter, Go verb)` -/
def lookupVerb (c : UInt8) : Option (UInt8 × UInt8) :=
  match Generated.C09Verbs.verbTable.find? (fun r => r.1 == c.toNat) with
  | some (_, t, g) => some (UInt8.ofNat t, UInt8.ofNat g)
  | none => none

def starTypes (spec : Bytes) : List UInt8 :=
  (spec.filter (· == 42)).map (fun _ => UInt8.ofNat Generated.C09Verbs.starType)

/-- the loop of `parseFmtTypes` (without the cache and without `addDefaultPrecisionG`): rewritten format and type letters -/
def parseFmtAux : Nat → Bytes → Except FmtErr (Bytes × List UInt8)
  | 0, _ => .ok ([], [])
  | _, [] => .ok ([], [])
  | fuel + 1, c :: rest =>
    if c ≠ 37 then
      match parseFmtAux fuel rest with
      | .ok (out, ts) => .ok (c :: out, ts)
      | .error e => .error e
    else
      match rest with
      | [] => .error .noVerb
      | c1 :: rest1 =>
        if c1 = 37 then
          match parseFmtAux fuel rest1 with
          | .ok (out, ts) => .ok (37 :: 37 :: out, ts)
          | .error e => .error e
        else
          let spec := rest.takeWhile isSpecChar
          match rest.dropWhile isSpecChar with
          | [] => .error .noVerb
          | v :: rest2 =>
            match lookupVerb v with
            | none => .error (.badVerb v)
            | some (t, g) =>
              match parseFmtAux fuel rest2 with
              | .ok (out, ts) => .ok (37 :: spec ++ g :: out, starTypes spec ++ t :: ts)
              | .error e => .error e

/-- `addDefaultPrecisionG` -/
def addPrecGAux : Nat → Bytes → Bytes
  | 0, b => b
  | _, [] => []
  | fuel + 1, c :: rest =>
    if c ≠ 37 then c :: addPrecGAux fuel rest
    else
      let spec := rest.takeWhile isSpecCharG
      match rest.dropWhile isSpecCharG with
      | [] => 37 :: spec
      | v :: rest2 =>
        if inCodes Generated.C09Verbs.precGVerbs v && !spec.contains 46 then
          37 :: spec ++ Generated.C09Verbs.precGInsert.map UInt8.ofNat ++ v :: addPrecGAux fuel rest2
        else 37 :: spec ++ v :: addPrecGAux fuel rest2

def addPrecG (b : Bytes) : Bytes := addPrecGAux b.length b

def parseFmtTypes (fmt : Bytes) : Except FmtErr (Bytes × List UInt8) :=
  match parseFmtAux fmt.length fmt with
  | .ok (out, ts) => .ok (addPrecG out, ts)
  | .error e => .error e

/-! ## arguments -/

/-- the three views `sprintf` takes of an AWK value -/
structure Arg where
  isStr : Bool     -- `a.isTrueStr()` says "string"
  s : Bytes        -- `p.toString(a)` (CONVFMT applied for numbers)
  n : F64          -- `a.num()`
deriving DecidableEq, Repr

/-- what reaches `fmt.Sprintf` -/
inductive GoArg
  | i64 (v : Int)
  | u64 (v : Nat)
  | f64 (x : F64)
  | str (s : Bytes)
  | bytes (s : Bytes)
deriving DecidableEq, Repr

/-- the `%c` argument: the `case 'c'` block of `sprintf` -/
def charBytes (chars : Bool) (a : Arg) : Bytes :=
  if a.isStr then
    match a.s with
    | [] => [0]
    | b :: _ => if chars then a.s.take (runeSize a.s) else [b]
  else
    if chars then encodeRune (toInt32 a.n)
    else [UInt8.ofNat ((toInt32 a.n) % 256).toNat]

/-- the conversion switch of `sprintf`, by type letter -/
def convertArg (chars : Bool) (t : UInt8) (a : Arg) : Option GoArg :=
  if t = 115 then some (.str a.s)
  else if t = 100 then some (.i64 (toInt64 a.n))
  else if t = 102 then some (.f64 a.n)
  else if t = 117 then some (.u64 (toUint64 (toInt64 a.n)))
  else if t = 99 then some (.bytes (charBytes chars a))
  else none

def convertArgs (chars : Bool) : List UInt8 → List Arg → Option (List GoArg)
  | [], _ => some []
  | _ :: _, [] => none
  | t :: ts, a :: as =>
    match convertArg chars t a, convertArgs chars ts as with
    | some g, some gs => some (g :: gs)
    | _, _ => none

/-! ## Go `fmt` -/

structure Flags where
  minus : Bool := false
  plus : Bool := false
  space : Bool := false
  sharp : Bool := false
  zero : Bool := false
deriving DecidableEq, Repr

/-- parsed conversion as `fmt` holds it (`widPresent/wid`, `precPresent/prec`) -/
structure GoSpec where
  fl : Flags
  wid : Option Nat
  prec : Option Nat
  verb : UInt8
deriving DecidableEq, Repr

/-- digit generation for floating point, shared by the Go and the C side: `gen verb sharp prec m e` is the unsigned text of
`m * 2^e` (finite) in style `verb ∈ {e,E,f,g,G}` with `prec` digits as C produces it; `sharp = false` is also what
`strconv.AppendFloat` produces (Go derives the `#` form by post-processing, see `goSharpFloat`). -/
structure DigitGen where
  gen : UInt8 → Bool → Nat → Nat → Int → Bytes

/-- `fmt.pad` / `writePadding`: pad to `wid` runes, left unless `minus`; `zeroPad` is `f.zero` at the time of the call -/
def goPad (fl : Flags) (zeroPad : Bool) (wid : Option Nat) (b : Bytes) : Bytes :=
  match wid with
  | none => b
  | some 0 => b
  | some w =>
    let n := w - runeCount b
    if !fl.minus then (if zeroPad then zeros n else spaces n) ++ b
    else b ++ spaces n

/-- `fmt.fmtInteger` for bases 8, 10, 16 (`neg`, `u` = sign and magnitude after the `int64(u) < 0` test) -/
def goFmtInteger (fl : Flags) (wid prec : Option Nat) (neg : Bool) (u : Nat) (base : Nat) (upper : Bool) : Bytes :=
  if prec = some 0 ∧ u = 0 then spaces (wid.getD 0)
  else
    let p : Nat := match prec with
      | some p => p
      | none =>
        if fl.zero && !fl.minus && wid.isSome then
          (wid.getD 0) - (if neg || fl.plus || fl.space then 1 else 0)
        else 0
    let ds := natDigits base upper u
    let ds := zeros (p - ds.length) ++ ds
    let ds :=
      if fl.sharp then
        if base = 8 then (if ds.head? = some 48 then ds else 48 :: ds)
        else if base = 16 then 48 :: (if upper then 88 else 120) :: ds
        else ds
      else ds
    let ds := if neg then 45 :: ds else if fl.plus then 43 :: ds else if fl.space then 32 :: ds else ds
    goPad fl false wid ds

/-- the `#` post-processing of `fmt.fmtFloat` on `num` (sign stripped): returns the digits with restored zeros/point -/
def goSharpFloat (verb : UInt8) (prec : Nat) (num : Bytes) : Bytes :=
  let isG := verb = 103 || verb = 71
  let body := num.takeWhile (fun c => c ≠ 101 && c ≠ 69)
  let tail := num.dropWhile (fun c => c ≠ 101 && c ≠ 69)
  let hasPoint := body.contains 46
  -- significant digits counted after the first non-zero digit
  let sig := ((body.filter (· ≠ 46)).dropWhile (· == 48)).length
  let digits : Int := (if isG then (prec : Int) else 0) - sig
  let digits := if !hasPoint && body = [48] then digits - 1 else digits
  let body := if hasPoint then body else body ++ [46]
  body ++ zeros digits.toNat ++ tail

/-- `fmt.fmtFloat` for verbs `e E f g G`; `prec` already defaulted by the caller (`6` for `e E f`; GoAWK inserts `.6` for `g G`) -/
def goFmtFloat (dg : DigitGen) (fl : Flags) (wid : Option Nat) (prec : Nat) (verb : UInt8) (x : F64) : Bytes :=
  match x with
  | .nan _ =>
    let num : Bytes := [78, 97, 78]
    let num := if fl.plus then 43 :: num else if fl.space then 32 :: num else num
    goPad fl false wid num
  | .inf neg =>
    let sgn : UInt8 := if neg then 45 else if fl.space && !fl.plus then 32 else 43
    goPad fl false wid [sgn, 73, 110, 102]
  | .fin neg m e =>
    let digs := dg.gen verb false prec m e
    let digs := if fl.sharp then goSharpFloat verb prec digs else digs
    let sgn : UInt8 := if neg then 45 else if fl.space && !fl.plus then 32 else 43
    if fl.plus || sgn ≠ 43 then
      let num := sgn :: digs
      -- `f.zero && !f.minus && f.widPresent && f.wid > len(num)`; `f.wid` is 0 when no width is present
      if fl.zero && !fl.minus && decide (wid.getD 0 > num.length) then sgn :: zeros (wid.getD 0 - num.length) ++ digs
      else goPad fl fl.zero wid num
    else goPad fl fl.zero wid digs

/-- `fmtS` / `fmtBs` -/
def goFmtS (fl : Flags) (wid prec : Option Nat) (s : Bytes) : Bytes :=
  let s := match prec with
    | some p => truncRunes p s
    | none => s
  goPad fl fl.zero wid s

/-- `printArg` for the (verb, argument type) pairs GoAWK produces; `none` = a pair GoAWK cannot produce or that is not modelled
(`%x`/`%X` of a float, i.e. AWK `%a`/`%A`) -/
def goFormat (dg : DigitGen) (sp : GoSpec) : GoArg → Option Bytes
  | .i64 v =>
    if sp.verb = 100 then some (goFmtInteger sp.fl sp.wid sp.prec (v < 0) v.natAbs 10 false) else none
  | .u64 u =>
    if sp.verb = 100 then some (goFmtInteger sp.fl sp.wid sp.prec false u 10 false)
    else if sp.verb = 111 then some (goFmtInteger sp.fl sp.wid sp.prec false u 8 false)
    else if sp.verb = 120 then some (goFmtInteger sp.fl sp.wid sp.prec false u 16 false)
    else if sp.verb = 88 then some (goFmtInteger sp.fl sp.wid sp.prec false u 16 true)
    else none
  | .f64 x =>
    if sp.verb = 101 || sp.verb = 69 || sp.verb = 102 then some (goFmtFloat dg sp.fl sp.wid (sp.prec.getD 6) sp.verb x)
    else if sp.verb = 103 || sp.verb = 71 then
      match sp.prec with
      | some p => some (goFmtFloat dg sp.fl sp.wid p sp.verb x)
      | none => none     -- shortest representation: cannot arise, GoAWK inserts `.6`
    else none
  | .str s => if sp.verb = 115 then some (goFmtS sp.fl sp.wid sp.prec s) else none
  | .bytes s => if sp.verb = 115 then some (goFmtS sp.fl sp.wid sp.prec s) else none

def isGoFlag (c : UInt8) : Bool := c = 35 || c = 48 || c = 43 || c = 45 || c = 32

def goFlags (cs : Bytes) : Flags :=
  { minus := cs.contains 45, plus := cs.contains 43, space := cs.contains 32, sharp := cs.contains 35, zero := cs.contains 48 }

def isDigit (c : UInt8) : Bool := 48 ≤ c && c ≤ 57

def numVal (ds : Bytes) : Nat := ds.foldl (fun acc d => acc * 10 + (d.toNat - 48)) 0

/-- `tooLarge` is tested before each further digit is accumulated, so a literal is rejected iff its value without the last
digit exceeds 10^6 -/
def litTooLarge (ds : Bytes) : Bool := numVal ds / 10 > 1000000

/-- result of formatting: the text, or `unmodelled` where `fmt` would emit one of its `%!…` error texts that this model does
not spell out (cannot happen for formats inside the C grammar) -/
inductive Res
  | ok (b : Bytes)
  | err (e : FmtErr)
  | unmodelled (why : String)
deriving DecidableEq, Repr

def badWidth : Bytes := [37, 33, 40, 66, 65, 68, 87, 73, 68, 84, 72, 41]   -- "%!(BADWIDTH)"
def badPrec : Bytes := [37, 33, 40, 66, 65, 68, 80, 82, 69, 67, 41]   -- "%!(BADPREC)"

/-- `intFromArg`: the value of a `*` argument, `none` when it is not an integer of at most 10^6 in magnitude -/
def intFromArg : GoArg → Option Int
  | .i64 v => if v.natAbs > 1000000 then none else some v
  | .u64 u => if u > 1000000 then none else some (u : Int)
  | _ => none

/-- result of the width stage of `doPrintf`: text emitted (`%!(BADWIDTH)`), flags, width, remaining format and arguments,
and whether a literal was too large -/
structure WidthRes where
  pre : Bytes
  fl : Flags
  wid : Option Nat
  rest : Bytes
  args : List GoArg
  bad : Bool

/-- "Do we have width?" -/
def goParseWidth (fl : Flags) (r1 : Bytes) (args : List GoArg) : WidthRes :=
  match r1 with
  | 42 :: r =>
    match args with
    | [] => ⟨badWidth, fl, none, r, [], false⟩
    | a :: as =>
      match intFromArg a with
      | none => ⟨badWidth, fl, none, r, as, false⟩
      | some v =>
        if v < 0 then ⟨[], { fl with minus := true, zero := false }, some v.natAbs, r, as, false⟩
        else ⟨[], fl, some v.toNat, r, as, false⟩
  | _ =>
    let ds := r1.takeWhile isDigit
    if ds.isEmpty then ⟨[], fl, none, r1, args, false⟩
    else ⟨[], fl, some (numVal ds), r1.dropWhile isDigit, args, litTooLarge ds⟩

structure PrecRes where
  pre : Bytes
  prec : Option Nat
  rest : Bytes
  args : List GoArg
  bad : Bool

/-- "Do we have precision?" -/
def goParsePrec (r2 : Bytes) (args1 : List GoArg) : PrecRes :=
  match r2 with
  | 46 :: r =>
    if r.isEmpty then ⟨[], none, r2, args1, false⟩
    else match r with
      | 42 :: r' =>
        match args1 with
        | [] => ⟨badPrec, none, r', [], false⟩
        | a :: as =>
          match intFromArg a with
          | none => ⟨badPrec, none, r', as, false⟩
          | some v => if v < 0 then ⟨badPrec, none, r', as, false⟩ else ⟨[], some v.toNat, r', as, false⟩
      | _ =>
        let ds := r.takeWhile isDigit
        ⟨[], some (numVal ds), r.dropWhile isDigit, args1, litTooLarge ds⟩
  | _ => ⟨[], none, r2, args1, false⟩

/-- prepend text to a successful result -/
def Res.prepend (pre : Bytes) : Res → Res
  | .ok b => .ok (pre ++ b)
  | r => r

/-- `doPrintf` on the rewritten format -/
def goPrintfAux (dg : DigitGen) : Nat → Bytes → List GoArg → Res
  | 0, _, _ => .ok []
  | _, [], [] => .ok []
  | _, [], _ :: _ => .unmodelled "EXTRA"
  | fuel + 1, c :: rest, args =>
    if c ≠ 37 then (goPrintfAux dg fuel rest args).prepend [c]
    else
      let w := goParseWidth (goFlags (rest.takeWhile isGoFlag)) (rest.dropWhile isGoFlag) args
      if w.bad then .unmodelled "NOVERB (width literal too large)" else
      let p := goParsePrec w.rest w.args
      if p.bad then .unmodelled "NOVERB (precision literal too large)" else
      match p.rest with
      | [] => .unmodelled "NOVERB"
      | verb :: r4 =>
        if verb = 37 then (goPrintfAux dg fuel r4 p.args).prepend (w.pre ++ p.pre ++ [37])
        else if verb ≥ 128 then .unmodelled "non-ASCII verb"
        else
          match p.args with
          | [] => .unmodelled "MISSING"
          | a :: as =>
            match goFormat dg ⟨w.fl, w.wid, p.prec, verb⟩ a with
            | none => .unmodelled "bad verb for argument type"
            | some b => (goPrintfAux dg fuel r4 as).prepend (w.pre ++ p.pre ++ b)

def goPrintf (dg : DigitGen) (fmt : Bytes) (args : List GoArg) : Res := goPrintfAux dg (fmt.length + 1) fmt args

/-- `interp.sprintf` -/
def awkSprintf (dg : DigitGen) (chars : Bool) (fmt : Bytes) (args : List Arg) : Res :=
  match parseFmtTypes fmt with
  | .error e => .err e
  | .ok (gofmt, types) =>
    if types.length > args.length then .err (.argCount args.length types.length)
    else
      match convertArgs chars types args with
      | none => .unmodelled "type letter without conversion"
      | some gargs => goPrintf dg gofmt gargs

/-! ## ISO C `printf` (C11 7.21.6.1), for the argument already converted the AWK way -/

inductive CArg
  | int (v : Int)        -- `long long` for `d i`
  | uint (u : Nat)       -- `unsigned long long` for `o u x X`
  | dbl (x : F64)
  | str (s : Bytes)
  | chr (c : Bytes)      -- the character (one byte, or one multi-byte character in character mode)
deriving DecidableEq, Repr

/-- a conversion specification after `*` has been resolved -/
structure CSpec where
  fl : Flags
  width : Option Nat
  prec : Option Nat
  verb : UInt8
deriving DecidableEq, Repr

/-- pad `body` to the field width: spaces on the right with `-`, else spaces on the left -/
def cPadSpaces (fl : Flags) (width : Option Nat) (len : Nat) (body : Bytes) : Bytes :=
  let n := (width.getD 0) - len
  if fl.minus then body ++ spaces n else spaces n ++ body

/-- integer conversions. `neg`/`mag` is the value; the result is sign/prefix, then digits extended to the precision
(default 1; value 0 with precision 0 has no digits), `#` as the standard says; the `0` flag pads with zeros after the
sign/prefix unless `-` or a precision is given. -/
def cFmtInteger (sp : CSpec) (neg : Bool) (mag : Nat) : Bytes :=
  let signed := sp.verb = 100 || sp.verb = 105
  let base : Nat := if sp.verb = 111 then 8 else if sp.verb = 120 || sp.verb = 88 then 16 else 10
  let upper := sp.verb = 88
  let p := sp.prec.getD 1
  let ds : Bytes := if mag = 0 ∧ p = 0 then [] else natDigits base upper mag
  let ds := zeros (p - ds.length) ++ ds
  -- `#` with o: increase the precision, if and only if necessary, to force the first digit to be zero
  let ds := if sp.fl.sharp && sp.verb = 111 && ds.head? ≠ some 48 then 48 :: ds else ds
  let sign : Bytes :=
    if signed then (if neg then [45] else if sp.fl.plus then [43] else if sp.fl.space then [32] else []) else []
  -- `#` with x/X: a nonzero result has 0x/0X prefixed
  let pre : Bytes := if sp.fl.sharp && base = 16 && mag ≠ 0 then [48, if upper then 88 else 120] else []
  let len := sign.length + pre.length + ds.length
  if sp.fl.zero && !sp.fl.minus && sp.prec.isNone then
    sign ++ pre ++ zeros ((sp.width.getD 0) - len) ++ ds
  else cPadSpaces sp.fl sp.width len (sign ++ pre ++ ds)

def cInfNan (upper : Bool) (x : F64) : Bytes :=
  match x with
  | .nan _ => if upper then [78, 65, 78] else [110, 97, 110]
  | _ => if upper then [73, 78, 70] else [105, 110, 102]

/-- floating conversions (digit text from the shared generator) -/
def cFmtFloat (dg : DigitGen) (sp : CSpec) (x : F64) : Bytes :=
  let neg := match x with | .nan n => n | .inf n => n | .fin n _ _ => n
  let sign : Bytes := if neg then [45] else if sp.fl.plus then [43] else if sp.fl.space then [32] else []
  match x with
  | .fin _ m e =>
    let p := sp.prec.getD 6
    let ds := dg.gen sp.verb sp.fl.sharp p m e
    let len := sign.length + ds.length
    if sp.fl.zero && !sp.fl.minus then sign ++ zeros ((sp.width.getD 0) - len) ++ ds
    else cPadSpaces sp.fl sp.width len (sign ++ ds)
  | _ =>
    let ds := cInfNan (sp.verb = 69 || sp.verb = 71) x
    cPadSpaces sp.fl sp.width (sign.length + ds.length) (sign ++ ds)

/-- `%s`: at most `prec` bytes; `%c`: the character; both padded with spaces (a character counts as one column) -/
def cFmtStr (sp : CSpec) (s : Bytes) : Bytes :=
  let s := match sp.prec with | some p => s.take p | none => s
  cPadSpaces sp.fl sp.width s.length s

def cFmtChr (sp : CSpec) (c : Bytes) : Bytes := cPadSpaces sp.fl sp.width 1 c

def cFormat (dg : DigitGen) (sp : CSpec) : CArg → Option Bytes
  | .int v => if sp.verb = 100 || sp.verb = 105 then some (cFmtInteger sp (v < 0) v.natAbs) else none
  | .uint u => if sp.verb = 111 || sp.verb = 117 || sp.verb = 120 || sp.verb = 88 then some (cFmtInteger sp false u) else none
  | .dbl x =>
    if sp.verb = 101 || sp.verb = 69 || sp.verb = 102 || sp.verb = 103 || sp.verb = 71 then some (cFmtFloat dg sp x) else none
  | .str s => if sp.verb = 115 then some (cFmtStr sp s) else none
  | .chr c => if sp.verb = 99 then some (cFmtChr sp c) else none

/-- the combinations ISO C defines (and DESIGN.md claims): `#` only with `o x X e E f g G`; `0` not with `c s`; `+` and space
only with the signed conversions; no precision with `c` -/
def inCDomain (sp : CSpec) : Bool :=
  let v := sp.verb
  let isInt := v = 100 || v = 105 || v = 111 || v = 117 || v = 120 || v = 88
  let isFlt := v = 101 || v = 69 || v = 102 || v = 103 || v = 71
  let signedV := v = 100 || v = 105 || isFlt
  (isInt || isFlt || v = 115 || v = 99) &&
  (!sp.fl.sharp || (v = 111 || v = 120 || v = 88 || isFlt)) &&
  (!sp.fl.zero || (v ≠ 99 && v ≠ 115)) &&
  (!(sp.fl.plus || sp.fl.space) || signedV) &&
  (v ≠ 99 || sp.prec.isNone)

def InCDomain (sp : CSpec) : Prop := inCDomain sp = true

instance (sp : CSpec) : Decidable (InCDomain sp) := by unfold InCDomain; exact inferInstance

/-- the AWK conversion of an argument for an AWK verb (type letter from the generated table) -/
def awkConvert (chars : Bool) (verb : UInt8) (a : Arg) : Option CArg :=
  match lookupVerb verb with
  | none => none
  | some (t, _) =>
    if t = 115 then some (.str a.s)
    else if t = 100 then some (.int (toInt64 a.n))
    else if t = 117 then some (.uint (toUint64 (toInt64 a.n)))
    else if t = 102 then some (.dbl a.n)
    else if t = 99 then some (.chr (charBytes chars a))
    else none

/-! ## `print` / OFMT (`value.str`) -/

/-- `value.str` for a number; `fmtOther` is the result of formatting with a non-default OFMT/CONVFMT (through the same
`sprintf` machinery: `fmt.Sprintf(addDefaultPrecisionG(floatFormat), n)`) -/
def numToStr (dg : DigitGen) (ofmt : Bytes) (x : F64) : Res :=
  match x with
  | .nan _ => .ok (ofString "nan")
  | .inf neg => .ok (ofString (if neg then "-inf" else "inf"))
  | .fin neg m e =>
    let t := truncMag m e
    let integral := if e ≥ 0 then true else t * 2 ^ (-e).toNat = m
    let inRange := if neg then t ≤ two63 else t < two63
    if integral && inRange then .ok (if neg && t ≠ 0 then 45 :: decimal t else decimal t)
    else goPrintf dg (addPrecG ofmt) [.f64 x]

/-! ## `print` in the three output modes (`interp/io.go` `printArgs`) -/

/-- a print argument: a number, or anything that already has a text (string constants, input fields, null) -/
inductive Val
  | num (x : F64)
  | str (s : Bytes)
deriving DecidableEq, Repr

/-- `value.str(floatFormat)` -/
def valToStr (dg : DigitGen) (floatFormat : Bytes) : Val → Res
  | .num x => numToStr dg floatFormat x
  | .str s => .ok s

inductive OutMode | default | csv | tsv
deriving DecidableEq, Repr

/-- `encoding/csv` `fieldNeedsQuotes` for a one-byte separator; `true` also for a first byte >= 0x80 (could be a Unicode space) -/
def csvNeedsQuotes (sep : UInt8) (f : Bytes) : Bool :=
  match f with
  | [] => false
  | b :: _ =>
    f = [92, 46] || f.any (fun c => c = 10 || c = 13 || c = 34 || c = sep) ||
      b = 32 || (9 ≤ b && b ≤ 13) || b ≥ 128

def joinWith (sep : Bytes) : List Bytes → Bytes
  | [] => []
  | [x] => x
  | x :: rest => x ++ sep ++ joinWith sep rest

/-- what is written once every argument has its text: OFS-joined plus ORS, or one CSV/TSV record (quoting is property C08's
business: a field that needs quotes is `unmodelled` here) -/
def emitRecord (mode : OutMode) (ofs ors : Bytes) (texts : List Bytes) : Res :=
  match mode with
  | .default => .ok (joinWith ofs texts ++ ors)
  | m =>
    let sep : UInt8 := if m = .csv then 44 else 9
    if texts = [[]] then .ok [34, 34, 10]
    else if texts.any (csvNeedsQuotes sep) then .unmodelled "csv quoting"
    else .ok (joinWith [sep] texts ++ [10])

def collectTexts : List Res → Except Res (List Bytes)
  | [] => .ok []
  | .ok b :: rest =>
    match collectTexts rest with
    | .ok bs => .ok (b :: bs)
    | .error r => .error r
  | r :: _ => .error r

/-- `printArgs`: every argument is converted with `p.outputFormat` (OFMT) — in all three output modes; CONVFMT does not occur -/
def printArgs (dg : DigitGen) (mode : OutMode) (ofmt ofs ors : Bytes) (args : List Val) : Res :=
  match collectTexts (args.map (valToStr dg ofmt)) with
  | .ok texts => emitRecord mode ofs ors texts
  | .error r => r

/-- `p.toString(v)`: the conversion used everywhere else (concatenation, subscripts, string comparison, builtins, `%s`) -/
def toStringConv (dg : DigitGen) (convfmt : Bytes) (v : Val) : Res := valToStr dg convfmt v

end GoawkModel.C09
