import GoawkModel.Basic
/-!
# C01 — model of the bytecode compiler (`internal/compiler/compiler.go`) and of the VM dispatch (`interp/vm.go`)

* `Sem` : values and primitive operations, shared by the reference evaluator and the VM (parameters; no order law assumed
  for `cmp`, so NaN-like behaviour is covered).
* `Expr` / `Stmt` : resolved syntax (variables and arrays carry scope and index).
* `eval` / `exec` : reference semantics, a direct evaluation of the syntax tree.
* `cExpr` / `cCond` / `cStmt` : the compiler, including the statement-position shortcuts, fused compare-and-branch,
  `FieldInt`, constant array index and `ConcatMulti`; relative jump offsets in opcode words exactly as Go's patching
  computes them.
* `stepTo` / `run` : the VM, small-step over `(pc, stack, world)`; `pc` counts opcode words like Go's `ip`.
-/
namespace GoawkModel.C01

inductive ArithOp | add | sub | mul | div | pow | mod
  deriving DecidableEq, Repr, Inhabited
inductive CmpOp | eq | ne | lt | le | gt | ge
  deriving DecidableEq, Repr, Inhabited
inductive UnOp | neg | plus | not
  deriving DecidableEq, Repr, Inhabited
inductive VScope | global | loc | special
  deriving DecidableEq, Repr, Inhabited
inductive AScope | global | loc
  deriving DecidableEq, Repr, Inhabited

/-- A numeric literal: `isInt` = the float64 value is an integer in `[0, 2^63)` and `val` is that integer; otherwise `val`
is the IEEE bit pattern. -/
structure NumC where
  isInt : Bool
  val : Nat
  deriving DecidableEq, Repr, Inhabited

def NumC.one : NumC := ⟨true, 1⟩
/-- `index.Value == float64(Opcode(index.Value))` (Opcode = int32) -/
def NumC.int32? (c : NumC) : Option Nat := if c.isInt ∧ c.val < 2147483648 then some c.val else none
/-- `e.Value == float64(int64(e.Value))` -/
def NumC.int64? (c : NumC) : Option Nat := if c.isInt then some c.val else none

/-- decimal digits of a natural number as bytes (`strconv.FormatInt` for non-negative values) -/
def decBytes (n : Nat) : Bytes := (Nat.repr n).toList.map fun ch => UInt8.ofNat ch.toNat

def CmpOp.isOrdering : CmpOp → Bool
  | .eq | .ne => false
  | _ => true
def CmpOp.negate : CmpOp → CmpOp
  | .eq => .ne | .ne => .eq | .lt => .ge | .le => .gt | .gt => .le | .ge => .lt

/-- Values, worlds and the primitive operations used by BOTH the reference evaluator and the VM. `none` = runtime error. -/
structure Sem where
  V : Type
  W : Type
  numV : NumC → V
  strV : Bytes → V
  ofBool : Bool → V
  toBool : V → Bool
  arith : ArithOp → V → V → Option V
  /-- `augAssignOp` of vm.go (a separate copy of the arithmetic in the Go code) -/
  augOp : ArithOp → V → V → Option V
  /-- `num(v.num() + amount)` of the `Incr*` opcodes; `true` = decrement -/
  incrBy : Bool → V → V
  cmp : CmpOp → V → V → W → Bool
  concat : V → V → W → V
  concatMulti : List V → W → V
  unop : UnOp → V → V
  getVar : VScope → Nat → W → V
  setVar : VScope → Nat → V → W → Option W
  getField : V → W → V
  getFieldInt : Nat → W → V
  setField : V → V → W → Option W
  getArr : AScope → Nat → V → W → V × W
  setArr : AScope → Nat → V → V → W → W
  inArr : AScope → Nat → V → W → Bool
  multiIndex : List V → W → V
  print : List V → W → Option W
  setExit : V → W → W
  /-- the value of an unset variable / of a function that ends without `return` -/
  nullV : V
  /-- a user-function call as a primitive of the semantics: function index, the scalar arguments (already padded with nulls
  to the number of scalar parameters), the array arguments as (scope, index) references. The framed semantics of
  `GoawkModel.C01Frames` defines it by running the function's body. -/
  call : Nat → List V → List (AScope × Nat) → W → Option (V × W)

inductive Expr
  | num (c : NumC)
  | str (s : Bytes)
  | var (sc : VScope) (i : Nat)
  | field (e : Expr)
  | index (sc : AScope) (a : Nat) (i : Expr)
  | multi (i j : Expr)                       -- a two-dimensional subscript list `i, j` (only meaningful as an index)
  | inArr (i : Expr) (sc : AScope) (a : Nat)
  | arith (op : ArithOp) (l r : Expr)
  | cmp (op : CmpOp) (l r : Expr)
  | concat (l r : Expr)
  | and (l r : Expr)
  | or (l r : Expr)
  | unary (op : UnOp) (e : Expr)
  | cond (c t f : Expr)
  | assign (lv r : Expr)
  | augAssign (lv : Expr) (op : ArithOp) (r : Expr)
  | incr (lv : Expr) (dec pre : Bool)
  | group (e : Expr)
  /-- user call `f(args…)`: `nsc` = number of scalar parameters of `f`; scalar arguments in order, array arguments as
  (scope, index) of the caller's arrays in order -/
  | call (f nsc : Nat) (args : List Expr) (arrs : List (AScope × Nat))
  deriving Inhabited

inductive Stmt
  | skip
  | seq (s t : Stmt)
  | expr (e : Expr)
  | print (args : List Expr)
  | ifThen (c : Expr) (b : Stmt)
  | ifElse (c : Expr) (b e : Stmt)
  | while (c : Expr) (b : Stmt)
  | doWhile (b : Stmt) (c : Expr)
  | for (pre : Stmt) (c : Option Expr) (post : Stmt) (b : Stmt)
  | brk
  | cont
  | next
  | exit (e : Option Expr)
  | block (b : Stmt)
  | ret (e : Option Expr)
  deriving Inhabited

/-! ## Reference semantics: direct evaluation of the syntax tree -/
section Eval
variable (S : Sem)

def incrArith (dec : Bool) : ArithOp := if dec then .sub else .add

mutual
/-- Evaluate an expression. Operands left to right; for assignments the right side first, then the lvalue's subscript,
then the read (for `op=`, `++`, `--`) and the store. `none` = runtime error (or an ill-formed lvalue). -/
def eval : Expr → S.W → Option (S.V × S.W)
  | .num c, w => some (S.numV c, w)
  | .str s, w => some (S.strV s, w)
  | .var sc i, w => some (S.getVar sc i w, w)
  | .field e, w => do
    let (iv, w1) ← eval e w
    some (S.getField iv w1, w1)
  | .index sc a i, w => do
    let (iv, w1) ← eval i w
    some (S.getArr sc a iv w1)
  | .multi i j, w => do
    let (iv, w1) ← eval i w
    let (jv, w2) ← eval j w1
    some (S.multiIndex [iv, jv] w2, w2)
  | .inArr i sc a, w => do
    let (iv, w1) ← eval i w
    some (S.ofBool (S.inArr sc a iv w1), w1)
  | .arith op l r, w => do
    let (lv, w1) ← eval l w
    let (rv, w2) ← eval r w1
    let v ← S.arith op lv rv
    some (v, w2)
  | .cmp op l r, w => do
    let (lv, w1) ← eval l w
    let (rv, w2) ← eval r w1
    some (S.ofBool (S.cmp op lv rv w2), w2)
  | .concat l r, w => do
    let (lv, w1) ← eval l w
    let (rv, w2) ← eval r w1
    some (S.concat lv rv w2, w2)
  | .and l r, w => do
    let (lv, w1) ← eval l w
    if S.toBool lv then do
      let (rv, w2) ← eval r w1
      some (S.ofBool (S.toBool rv), w2)
    else some (S.ofBool (S.toBool lv), w1)
  | .or l r, w => do
    let (lv, w1) ← eval l w
    if S.toBool lv then some (S.ofBool (S.toBool lv), w1)
    else do
      let (rv, w2) ← eval r w1
      some (S.ofBool (S.toBool rv), w2)
  | .unary .not e, w => do
    let (v, w1) ← eval e w
    some (S.ofBool (!S.toBool v), w1)
  | .unary op e, w => do
    let (v, w1) ← eval e w
    some (S.unop op v, w1)
  | .cond c t f, w => do
    let (cv, w1) ← eval c w
    if S.toBool cv then eval t w1 else eval f w1
  | .assign (.var sc i) r, w => do
    let (v, w1) ← eval r w
    let w2 ← S.setVar sc i v w1
    some (v, w2)
  | .assign (.field ie) r, w => do
    let (v, w1) ← eval r w
    let (iv, w2) ← eval ie w1
    let w3 ← S.setField iv v w2
    some (v, w3)
  | .assign (.index sc a ie) r, w => do
    let (v, w1) ← eval r w
    let (iv, w2) ← eval ie w1
    some (v, S.setArr sc a iv v w2)
  | .assign _ _, _ => none
  | .augAssign (.var sc i) op r, w => do
    let (rv, w1) ← eval r w
    let v ← S.arith op (S.getVar sc i w1) rv
    let w2 ← S.setVar sc i v w1
    some (v, w2)
  | .augAssign (.field ie) op r, w => do
    let (rv, w1) ← eval r w
    let (iv, w2) ← eval ie w1
    let v ← S.arith op (S.getField iv w2) rv
    let w3 ← S.setField iv v w2
    some (v, w3)
  | .augAssign (.index sc a ie) op r, w => do
    let (rv, w1) ← eval r w
    let (iv, w2) ← eval ie w1
    let (cur, w3) := S.getArr sc a iv w2
    let v ← S.arith op cur rv
    some (v, S.setArr sc a iv v w3)
  | .augAssign _ _ _, _ => none
  | .incr (.var sc i) dec pre, w => do
    let cur := S.getVar sc i w
    let old := if pre then cur else S.unop .plus cur
    let v ← S.arith (incrArith dec) old (S.numV .one)
    let w1 ← S.setVar sc i v w
    some (if pre then v else old, w1)
  | .incr (.field ie) dec pre, w => do
    let (iv, w1) ← eval ie w
    let cur := S.getField iv w1
    let old := if pre then cur else S.unop .plus cur
    let v ← S.arith (incrArith dec) old (S.numV .one)
    let w2 ← S.setField iv v w1
    some (if pre then v else old, w2)
  | .incr (.index sc a ie) dec pre, w => do
    let (iv, w1) ← eval ie w
    let (cur, w2) := S.getArr sc a iv w1
    let old := if pre then cur else S.unop .plus cur
    let v ← S.arith (incrArith dec) old (S.numV .one)
    some (if pre then v else old, S.setArr sc a iv v w2)
  | .incr _ _ _, _ => none
  | .group e, w => eval e w
  | .call f nsc args arrs, w => do
    let (vs, w1) ← evalList args w
    if vs.length ≤ nsc then S.call f (vs ++ List.replicate (nsc - vs.length) S.nullV) arrs w1 else none

def evalList : List Expr → S.W → Option (List S.V × S.W)
  | [], w => some ([], w)
  | e :: es, w => do
    let (v, w1) ← eval e w
    let (vs, w2) ← evalList es w1
    some (v :: vs, w2)
end

/-- Outcome of executing a statement. -/
inductive Out (V W : Type)
  | normal (w : W) | brk (w : W) | cont (w : W) | next (w : W) | exit (w : W) | ret (v : V) (w : W)

/-- One pass of a loop whose condition was just found true: run the body, then `post`, then the rest of the loop
(`ex` is the evaluator with the remaining fuel). `break` ends the loop normally, `continue` goes on with `post`. -/
def loopBody (ex : Stmt → S.W → Option (Out S.V S.W)) (c : Option Expr) (b post : Stmt) (w : S.W) : Option (Out S.V S.W) :=
  match ex b w with
  | none => none
  | some (.normal w1) | some (.cont w1) =>
    match ex post w1 with
    | none => none
    | some (.normal w2) => ex (.for .skip c post b) w2
    | some o => some o
  | some (.brk w1) => some (.normal w1)
  | some o => some o

/-- Execute a statement with a fuel bound on nesting depth + loop iterations (`none` = runtime error or fuel exhausted). -/
def exec : Nat → Stmt → S.W → Option (Out S.V S.W)
  | 0, _, _ => none
  | n+1, s, w =>
    match s with
    | .skip => some (.normal w)
    | .seq s t =>
      match exec n s w with
      | none => none
      | some (.normal w1) => exec n t w1
      | some o => some o
    | .expr e =>
      match eval S e w with
      | none => none
      | some (_, w1) => some (.normal w1)
    | .print args =>
      match evalList S args w with
      | none => none
      | some (vs, w1) =>
        match S.print vs w1 with
        | none => none
        | some w2 => some (.normal w2)
    | .ifThen c b =>
      match eval S c w with
      | none => none
      | some (cv, w1) => if S.toBool cv then exec n b w1 else some (.normal w1)
    | .ifElse c b e =>
      match eval S c w with
      | none => none
      | some (cv, w1) => if S.toBool cv then exec n b w1 else exec n e w1
    | .while c b => exec n (.for .skip (some c) .skip b) w
    | .doWhile b c =>
      match exec n b w with
      | none => none
      | some (.normal w1) | some (.cont w1) =>
        match eval S c w1 with
        | none => none
        | some (cv, w2) => if S.toBool cv then exec n (.doWhile b c) w2 else some (.normal w2)
      | some (.brk w1) => some (.normal w1)
      | some o => some o
    | .for pre c post b =>
      match exec n pre w with
      | none => none
      | some (.normal w0) =>
        match c with
        | none => loopBody S (exec n) none b post w0
        | some ce =>
          match eval S ce w0 with
          | none => none
          | some (cv, w1) => if S.toBool cv then loopBody S (exec n) c b post w1 else some (.normal w1)
      | some o => some o
    | .brk => some (.brk w)
    | .cont => some (.cont w)
    | .next => some (.next w)
    | .exit none => some (.exit w)
    | .exit (some e) =>
      match eval S e w with
      | none => none
      | some (v, w1) => some (.exit (S.setExit v w1))
    | .block b => exec n b w
    | .ret none => some (.ret S.nullV w)
    | .ret (some e) =>
      match eval S e w with
      | none => none
      | some (v, w1) => some (.ret v w1)

end Eval

/-! ## Instructions (one constructor per opcode family; `size` = opcode word + inline operands) -/

inductive Instr
  | num (c : NumC) | str (s : Bytes) | dupe | drop | swap | rote
  | field | fieldInt (n : Nat)
  | getVar (sc : VScope) (i : Nat)
  | arrGet (sc : AScope) (a : Nat) | arrIn (sc : AScope) (a : Nat)
  | assignField | assignVar (sc : VScope) (i : Nat) | arrAssign (sc : AScope) (a : Nat)
  | incrField (dec : Bool) | incrVar (sc : VScope) (dec : Bool) (i : Nat) | arrIncr (sc : AScope) (dec : Bool) (a : Nat)
  | augField (op : ArithOp) | augVar (sc : VScope) (op : ArithOp) (i : Nat) | arrAug (sc : AScope) (op : ArithOp) (a : Nat)
  | indexMulti (n : Nat) | concatMulti (n : Nat)
  | arith (op : ArithOp) | cmp (op : CmpOp) | concat | not | neg | plus | boolean
  | jump (off : Int) | jumpFalse (off : Int) | jumpTrue (off : Int) | jumpCmp (op : CmpOp) (off : Int)
  | next | exit | exitStatus
  | print (n : Nat)
  | nulls (k : Nat) | callUser (f nsc : Nat) (arrs : List (AScope × Nat)) | ret | retNull
  deriving Repr, Inhabited, DecidableEq

def Instr.size : Instr → Nat
  | .num _ | .str _ | .fieldInt _ | .getVar _ _ | .arrGet _ _ | .arrIn _ _ | .assignVar _ _ | .arrAssign _ _ => 2
  | .incrField _ | .augField _ | .indexMulti _ | .concatMulti _ => 2
  | .incrVar _ _ _ | .arrIncr _ _ _ | .augVar _ _ _ | .arrAug _ _ _ | .print _ => 3
  | .jump _ | .jumpFalse _ | .jumpTrue _ | .jumpCmp _ _ => 2
  | .nulls _ => 2
  | .callUser _ _ arrs => 3 + 2 * arrs.length
  | _ => 1

abbrev Code := List Instr

def csize : Code → Nat
  | [] => 0
  | i :: c => i.size + csize c

/-! ## The compiler -/

/-- `compiler.index` for one subscript, given the subscript's ordinary code: an integer constant becomes the string
constant of its decimal digits (`strconv.FormatInt`). -/
def cIdxOf (e : Expr) (code : Code) : Code :=
  match e with
  | .num c =>
    match c.int64? with
    | some n => [.str (decBytes n)]
    | none => code
  | _ => code

/-- the code of `c ? t : f` / of an `if`, given the condition code and the inverted jump -/
def mkCond (cc : Code) (j : Int → Instr) (ct cf : Code) : Code :=
  cc ++ [j (csize ct + 2)] ++ ct ++ [.jump (csize cf)] ++ cf

mutual
/-- `compiler.expr`. Returns the code of the expression and, for `concatOp`, the view of the expression as a left-nested
concatenation chain: (number of operands, code pushing the operands left to right). -/
def cE : Expr → Code × Nat × Code
  | .num c => let k := [.num c]; (k, 1, k)
  | .str s => let k := [.str s]; (k, 1, k)
  | .var sc i => let k := [.getVar sc i]; (k, 1, k)
  | .field (.num c) =>
    let k := match c.int32? with
      | some n => [Instr.fieldInt n]
      | none => [.num c, .field]
    (k, 1, k)
  | .field e => let k := (cE e).1 ++ [.field]; (k, 1, k)
  | .index sc a i => let k := cIdxOf i (cE i).1 ++ [.arrGet sc a]; (k, 1, k)
  | .multi i j => let k := cIdxOf i (cE i).1 ++ cIdxOf j (cE j).1 ++ [.indexMulti 2]; (k, 1, k)
  | .inArr i sc a => let k := cIdxOf i (cE i).1 ++ [.arrIn sc a]; (k, 1, k)
  | .arith op l r => let k := (cE l).1 ++ (cE r).1 ++ [.arith op]; (k, 1, k)
  | .cmp op l r => let k := (cE l).1 ++ (cE r).1 ++ [.cmp op]; (k, 1, k)
  | .concat l r =>
    -- concatOp: flatten the left spine; two operands -> Concat, more -> ConcatMulti
    let (n, ops) := (cE l).2
    let ops' := ops ++ (cE r).1
    (if n = 1 then ops' ++ [.concat] else ops' ++ [.concatMulti (n + 1)], n + 1, ops')
  | .and l r =>
    let cr := (cE r).1
    let k := (cE l).1 ++ [.dupe, .jumpFalse (1 + csize cr)] ++ [.drop] ++ cr ++ [.boolean]; (k, 1, k)
  | .or l r =>
    let cr := (cE r).1
    let k := (cE l).1 ++ [.dupe, .jumpTrue (1 + csize cr)] ++ [.drop] ++ cr ++ [.boolean]; (k, 1, k)
  | .unary .neg e => let k := (cE e).1 ++ [.neg]; (k, 1, k)
  | .unary .plus e => let k := (cE e).1 ++ [.plus]; (k, 1, k)
  | .unary .not e => let k := (cE e).1 ++ [.not]; (k, 1, k)
  | .cond (.cmp .eq l r) t f => let k := mkCond ((cE l).1 ++ (cE r).1) (.jumpCmp .ne) (cE t).1 (cE f).1; (k, 1, k)
  | .cond (.cmp .ne l r) t f => let k := mkCond ((cE l).1 ++ (cE r).1) (.jumpCmp .eq) (cE t).1 (cE f).1; (k, 1, k)
  | .cond c t f => let k := mkCond (cE c).1 .jumpFalse (cE t).1 (cE f).1; (k, 1, k)
  | .assign (.var sc i) r => let k := (cE r).1 ++ [.dupe, .assignVar sc i]; (k, 1, k)
  | .assign (.field ie) r => let k := (cE r).1 ++ [.dupe] ++ (cE ie).1 ++ [.assignField]; (k, 1, k)
  | .assign (.index sc a ie) r => let k := (cE r).1 ++ [.dupe] ++ cIdxOf ie (cE ie).1 ++ [.arrAssign sc a]; (k, 1, k)
  | .assign _ r => let k := (cE r).1 ++ [.dupe]; (k, 1, k)
  | .augAssign (.var sc i) op r => let k := (cE r).1 ++ [.getVar sc i, .swap, .arith op, .dupe, .assignVar sc i]; (k, 1, k)
  | .augAssign (.field ie) op r =>
    let k := (cE r).1 ++ (cE ie).1 ++ [.dupe, .field, .rote, .arith op, .dupe, .rote, .assignField]; (k, 1, k)
  | .augAssign (.index sc a ie) op r =>
    let k := (cE r).1 ++ cIdxOf ie (cE ie).1 ++ [.dupe, .arrGet sc a, .rote, .arith op, .dupe, .rote, .arrAssign sc a]; (k, 1, k)
  | .augAssign _ _ _ => ([], 1, [])
  | .incr (.var sc i) dec true => let k := [.getVar sc i, .num .one, .arith (incrArith dec), .dupe, .assignVar sc i]; (k, 1, k)
  | .incr (.var sc i) dec false =>
    let k := [.getVar sc i, .plus, .dupe, .num .one, .arith (incrArith dec), .assignVar sc i]; (k, 1, k)
  | .incr (.field ie) dec true =>
    let k := (cE ie).1 ++ [.dupe, .field, .num .one, .arith (incrArith dec), .dupe, .rote, .assignField]; (k, 1, k)
  | .incr (.field ie) dec false =>
    let k := (cE ie).1 ++ [.dupe, .field, .plus, .dupe, .num .one, .arith (incrArith dec), .rote, .assignField]; (k, 1, k)
  | .incr (.index sc a ie) dec true =>
    let k := cIdxOf ie (cE ie).1 ++ [.dupe, .arrGet sc a, .num .one, .arith (incrArith dec), .dupe, .rote, .arrAssign sc a]; (k, 1, k)
  | .incr (.index sc a ie) dec false =>
    let k := cIdxOf ie (cE ie).1 ++ [.dupe, .arrGet sc a, .plus, .dupe, .num .one, .arith (incrArith dec), .rote, .arrAssign sc a]
    (k, 1, k)
  | .incr _ dec true => let k := [.num .one, .arith (incrArith dec), .dupe]; (k, 1, k)
  | .incr _ dec false => let k := [.plus, .dupe, .num .one, .arith (incrArith dec)]; (k, 1, k)
  | .group e => let k := (cE e).1; (k, 1, k)
  | .call f nsc args arrs =>
    -- UserCallExpr: push the scalar arguments, pad the missing ones with `Nulls`, then `CallUser f #arrays (scope index)*`
    let k := cEs args ++ (if args.length < nsc then [Instr.nulls (nsc - args.length)] else []) ++ [.callUser f nsc arrs]
    (k, 1, k)

/-- the code of an expression list (arguments of `print`, of a user call): left to right -/
def cEs : List Expr → Code
  | [] => []
  | e :: es => (cE e).1 ++ cEs es
end

/-- `compiler.expr` -/
def cExpr (e : Expr) : Code := (cE e).1

/-- `compiler.index` for one subscript -/
def cIdx (e : Expr) : Code := cIdxOf e (cExpr e)

/-- `compiler.condition(expr, invert = true)`: the code part -/
def cCondT : Expr → Code
  | .cmp .eq l r => cExpr l ++ cExpr r
  | .cmp .ne l r => cExpr l ++ cExpr r
  | e => cExpr e

/-- `compiler.condition(expr, invert = true)`: the returned jump opcode, which jumps when the condition is FALSE -/
def cJumpT : Expr → Int → Instr
  | .cmp .eq _ _ => .jumpCmp .ne
  | .cmp .ne _ _ => .jumpCmp .eq
  | _ => .jumpFalse

/-- `compiler.condition(expr, invert = false)`: code and jump opcode, which jumps when the condition is TRUE -/
def cCondF : Expr → Code
  | .cmp _ l r => cExpr l ++ cExpr r
  | e => cExpr e

def cJumpF : Expr → Int → Instr
  | .cmp op _ _ => .jumpCmp op
  | _ => .jumpTrue

def cExprs (es : List Expr) : Code := cEs es

/-- code of a statement-position expression (`compiler.stmt`, case `*ast.ExprStmt`) -/
def cExprStmt : Expr → Code
  | .assign (.var sc i) r => cExpr r ++ [.assignVar sc i]
  | .assign (.field ie) r => cExpr r ++ cExpr ie ++ [.assignField]
  | .assign (.index sc a ie) r => cExpr r ++ cIdx ie ++ [.arrAssign sc a]
  | .assign _ r => cExpr r
  | .incr (.var sc i) dec _ => [.incrVar sc dec i]
  | .incr (.field ie) dec _ => cExpr ie ++ [.incrField dec]
  | .incr (.index sc a ie) dec _ => cIdx ie ++ [.arrIncr sc dec a]
  | .incr _ _ _ => []
  | .augAssign (.var sc i) op r => cExpr r ++ [.augVar sc op i]
  | .augAssign (.field ie) op r => cExpr r ++ cExpr ie ++ [.augField op]
  | .augAssign (.index sc a ie) op r => cExpr r ++ cIdx ie ++ [.arrAug sc op a]
  | .augAssign _ _ r => cExpr r
  | e => cExpr e ++ [.drop]

/-- number of opcode words of a statement's code (independent of the jump targets) -/
def stmtSize : Stmt → Nat
  | .skip => 0
  | .seq s t => stmtSize s + stmtSize t
  | .expr e => csize (cExprStmt e)
  | .print args => csize (cExprs args) + 3
  | .ifThen c b => csize (cCondT c) + 2 + stmtSize b
  | .ifElse c b e => csize (cCondT c) + 2 + stmtSize b + 2 + stmtSize e
  | .while c b => csize (cCondT c) + 2 + stmtSize b + csize (cCondF c) + 2
  | .doWhile b c => stmtSize b + csize (cCondF c) + 2
  | .for pre (some c) post b => stmtSize pre + csize (cCondT c) + 2 + stmtSize b + stmtSize post + csize (cCondF c) + 2
  | .for pre none post b => stmtSize pre + stmtSize b + stmtSize post + 2
  | .brk | .cont => 2
  | .next => 1
  | .exit none => 1
  | .exit (some e) => csize (cExpr e) + 1
  | .block b => stmtSize b
  | .ret none => 1
  | .ret (some e) => csize (cExpr e) + 1

/-- `compiler.stmt`. `brk` / `cont` = distance in opcode words from the END of this statement's code to the place the
enclosing loop patches its `break` / `continue` jumps to (Go records marks and patches them later; the offsets are equal). -/
def cStmt (brk cont : Nat) : Stmt → Code
  | .skip => []
  | .seq s t => cStmt (brk + stmtSize t) (cont + stmtSize t) s ++ cStmt brk cont t
  | .expr e => cExprStmt e
  | .print args => cExprs args ++ [.print args.length]
  | .ifThen c b => cCondT c ++ [cJumpT c (stmtSize b)] ++ cStmt brk cont b
  | .ifElse c b e =>
    cCondT c ++ [cJumpT c (stmtSize b + 2)] ++ cStmt (brk + 2 + stmtSize e) (cont + 2 + stmtSize e) b
      ++ [.jump (stmtSize e)] ++ cStmt brk cont e
  | .while c b =>
    let tail := csize (cCondF c) + 2
    cCondT c ++ [cJumpT c (stmtSize b + tail)] ++ cStmt tail 0 b ++ cCondF c ++ [cJumpF c (-(stmtSize b + tail : Nat))]
  | .doWhile b c =>
    let tail := csize (cCondF c) + 2
    cStmt tail 0 b ++ cCondF c ++ [cJumpF c (-(stmtSize b + tail : Nat))]
  | .for pre (some c) post b =>
    let tail := csize (cCondF c) + 2
    cStmt 0 0 pre ++ cCondT c ++ [cJumpT c (stmtSize b + stmtSize post + tail)] ++ cStmt (stmtSize post + tail) 0 b
      ++ cStmt 0 0 post ++ cCondF c ++ [cJumpF c (-(stmtSize b + stmtSize post + tail : Nat))]
  | .for pre none post b =>
    cStmt 0 0 pre ++ cStmt (stmtSize post + 2) 0 b ++ cStmt 0 0 post ++ [.jump (-(stmtSize b + stmtSize post + 2 : Nat))]
  | .brk => [.jump brk]
  | .cont => [.jump cont]
  | .next => [.next]
  | .exit none => [.exit]
  | .exit (some e) => cExpr e ++ [.exitStatus]
  | .block b => cStmt brk cont b
  | .ret none => [.retNull]
  | .ret (some e) => cExpr e ++ [.ret]

/-! ## The VM -/
section VM
variable (S : Sem)

/-- effect of one instruction on (stack, world): fall through, relative jump (from the end of the instruction), or stop -/
inductive Eff
  | next (stk : List S.V) (w : S.W)
  | jump (off : Int) (stk : List S.V) (w : S.W)
  | stopNext (w : S.W)
  | stopExit (w : S.W)
  | stopRet (v : S.V) (w : S.W)

def condJump (b : Bool) (off : Int) (stk : List S.V) (w : S.W) : Eff S := if b then .jump off stk w else .next stk w

/-- `interp.execute`, one case of the dispatch switch per instruction family. Head of the list = top of the stack. -/
def execInstr : Instr → List S.V → S.W → Option (Eff S)
  | .num c, s, w => some (.next (S.numV c :: s) w)
  | .str b, s, w => some (.next (S.strV b :: s) w)
  | .dupe, v :: s, w => some (.next (v :: v :: s) w)
  | .drop, _ :: s, w => some (.next s w)
  | .swap, r :: l :: s, w => some (.next (l :: r :: s) w)
  | .rote, v2 :: v1 :: v0 :: s, w => some (.next (v0 :: v2 :: v1 :: s) w)
  | .field, i :: s, w => some (.next (S.getField i w :: s) w)
  | .fieldInt n, s, w => some (.next (S.getFieldInt n w :: s) w)
  | .getVar sc i, s, w => some (.next (S.getVar sc i w :: s) w)
  | .arrGet sc a, i :: s, w => let (v, w') := S.getArr sc a i w; some (.next (v :: s) w')
  | .arrIn sc a, i :: s, w => some (.next (S.ofBool (S.inArr sc a i w) :: s) w)
  | .assignField, i :: v :: s, w => (S.setField i v w).map fun w' => .next s w'
  | .assignVar sc i, v :: s, w => (S.setVar sc i v w).map fun w' => .next s w'
  | .arrAssign sc a, i :: v :: s, w => some (.next s (S.setArr sc a i v w))
  | .incrField dec, i :: s, w => (S.setField i (S.incrBy dec (S.getField i w)) w).map fun w' => .next s w'
  | .incrVar sc dec i, s, w => (S.setVar sc i (S.incrBy dec (S.getVar sc i w)) w).map fun w' => .next s w'
  | .arrIncr sc dec a, i :: s, w => some (.next s (S.setArr sc a i (S.incrBy dec (S.getArr sc a i w).1) w))
  | .augField op, i :: r :: s, w => do
    let v ← S.augOp op (S.getField i w) r
    let w' ← S.setField i v w
    some (.next s w')
  | .augVar sc op i, r :: s, w => do
    let v ← S.augOp op (S.getVar sc i w) r
    let w' ← S.setVar sc i v w
    some (.next s w')
  | .arrAug sc op a, i :: r :: s, w => do
    let v ← S.augOp op (S.getArr sc a i w).1 r
    some (.next s (S.setArr sc a i v w))
  | .indexMulti n, s, w => if n ≤ s.length then some (.next (S.multiIndex (s.take n).reverse w :: s.drop n) w) else none
  | .concatMulti n, s, w => if n ≤ s.length then some (.next (S.concatMulti (s.take n).reverse w :: s.drop n) w) else none
  | .arith op, r :: l :: s, w => (S.arith op l r).map fun v => .next (v :: s) w
  | .cmp op, r :: l :: s, w => some (.next (S.ofBool (S.cmp op l r w) :: s) w)
  | .concat, r :: l :: s, w => some (.next (S.concat l r w :: s) w)
  | .not, v :: s, w => some (.next (S.ofBool (!S.toBool v) :: s) w)
  | .neg, v :: s, w => some (.next (S.unop .neg v :: s) w)
  | .plus, v :: s, w => some (.next (S.unop .plus v :: s) w)
  | .boolean, v :: s, w => some (.next (S.ofBool (S.toBool v) :: s) w)
  | .jump off, s, w => some (.jump off s w)
  | .jumpFalse off, v :: s, w => some (condJump S (!S.toBool v) off s w)
  | .jumpTrue off, v :: s, w => some (condJump S (S.toBool v) off s w)
  | .jumpCmp op off, r :: l :: s, w => some (condJump S (S.cmp op l r w) off s w)
  | .next, _, w => some (.stopNext w)
  | .exit, _, w => some (.stopExit w)
  | .exitStatus, v :: _, w => some (.stopExit (S.setExit v w))
  | .print n, s, w => if n ≤ s.length then (S.print (s.take n).reverse w).map fun w' => .next (s.drop n) w' else none
  | .nulls k, s, w => some (.next (List.replicate k S.nullV ++ s) w)
  | .callUser f nsc arrs, s, w =>
    if nsc ≤ s.length then (S.call f (s.take nsc).reverse arrs w).map fun r => .next (r.1 :: s.drop nsc) r.2 else none
  | .ret, v :: _, w => some (.stopRet v w)
  | .retNull, _, w => some (.stopRet S.nullV w)
  | _, _, _ => none

/-- the instruction that starts at opcode word `pc` (`none` when `pc` is past the end or inside an instruction) -/
def fetch : Code → Nat → Option Instr
  | [], _ => none
  | i :: c, pc => if pc = 0 then some i else if pc < i.size then none else fetch c (pc - i.size)

structure St where
  pc : Nat
  stk : List S.V
  w : S.W

/-- one VM step that keeps running -/
def stepTo (C : Code) (st : St S) : Option (St S) :=
  match fetch C st.pc with
  | none => none
  | some i =>
    match execInstr S i st.stk st.w with
    | some (.next s w) => some ⟨st.pc + i.size, s, w⟩
    | some (.jump off s w) => some ⟨((st.pc + i.size : Nat) + off).toNat, s, w⟩
    | _ => none

inductive VmOut
  | normal (w : S.W) | next (w : S.W) | exit (w : S.W) | ret (v : S.V) (w : S.W) | fail | timeout

/-- run the VM for at most `n` instructions -/
def run (C : Code) : Nat → St S → VmOut S
  | 0, _ => .timeout
  | n+1, st =>
    if st.pc = csize C then .normal st.w else
    match fetch C st.pc with
    | none => .fail
    | some i =>
      match execInstr S i st.stk st.w with
      | none => .fail
      | some (.next s w) => run C n ⟨st.pc + i.size, s, w⟩
      | some (.jump off s w) => run C n ⟨((st.pc + i.size : Nat) + off).toNat, s, w⟩
      | some (.stopNext w) => .next w
      | some (.stopExit w) => .exit w
      | some (.stopRet v w) => .ret v w

end VM

end GoawkModel.C01
