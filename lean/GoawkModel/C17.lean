import GoawkModel.Basic
import GoawkModel.Generated.C17Kinds
/-!
# C17 — model of native (Go-defined) function calls: `interp/functions.go` `checkNativeFunc`, `validNativeType`,
`toNative`, `fromNative`, `callNative`, and the resolver's argument-count rule (`internal/resolver/resolve.go`).

Go types are described by `Ty` (reflect kind, named or not, element type of slices, the predeclared `error`).
An AWK argument value is given by its three projections `num()` (IEEE bits), `boolean()`, `toString()` — how those are
computed from a value is property C05's subject, not this one's. `Outcome.panic` stands for a Go panic (what `reflect.Call`,
`reflect.Value.Convert`, an index expression or a `default:` branch would raise).
Core Lean only.
-/
namespace GoawkModel.C17

/-- `reflect.Kind` -/
inductive RKind
  | invalid | bool | int | int8 | int16 | int32 | int64 | uint | uint8 | uint16 | uint32 | uint64 | uintptr
  | float32 | float64 | complex64 | complex128 | array | chan | func | interface | map | pointer | slice | string
  | struct | unsafePointer
  deriving DecidableEq, Repr, Inhabited

def RKind.all : List RKind :=
  [.invalid, .bool, .int, .int8, .int16, .int32, .int64, .uint, .uint8, .uint16, .uint32, .uint64, .uintptr,
   .float32, .float64, .complex64, .complex128, .array, .chan, .func, .interface, .map, .pointer, .slice, .string,
   .struct, .unsafePointer]

/-- the name of the Go constant (`reflect.Bool` …) -/
def RKind.name : RKind → String
  | .invalid => "Invalid" | .bool => "Bool" | .int => "Int" | .int8 => "Int8" | .int16 => "Int16" | .int32 => "Int32"
  | .int64 => "Int64" | .uint => "Uint" | .uint8 => "Uint8" | .uint16 => "Uint16" | .uint32 => "Uint32"
  | .uint64 => "Uint64" | .uintptr => "Uintptr" | .float32 => "Float32" | .float64 => "Float64"
  | .complex64 => "Complex64" | .complex128 => "Complex128" | .array => "Array" | .chan => "Chan" | .func => "Func"
  | .interface => "Interface" | .map => "Map" | .pointer => "Pointer" | .slice => "Slice" | .string => "String"
  | .struct => "Struct" | .unsafePointer => "UnsafePointer"

def RKind.ofName (s : String) : Option RKind := RKind.all.find? (·.name == s)

/-- A Go type as far as this code looks at it. `prim` is any type whose element type is never inspected. -/
inductive Ty
  | prim (k : RKind) (named : Bool)
  | slice (elem : Ty) (named : Bool)
  | error
  deriving DecidableEq, Repr, Inhabited

def Ty.kind : Ty → RKind
  | .prim k _ => k
  | .slice _ _ => .slice
  | .error => .interface

/-- `typ.Elem().Kind()` for a slice; `none` when the model does not know an element type -/
def Ty.elemKind? : Ty → Option RKind
  | .slice e _ => some e.kind
  | _ => none

/-- `validNativeType` -/
def validNativeType (t : Ty) : Bool :=
  match t.kind with
  | .bool => true
  | .int | .int8 | .int16 | .int32 | .int64 => true
  | .uint | .uint8 | .uint16 | .uint32 | .uint64 => true
  | .float32 | .float64 => true
  | .string => true
  | .slice => t.elemKind? == some .uint8
  | _ => false

structure Sig where
  params : List Ty
  variadic : Bool
  results : List Ty
  deriving DecidableEq, Repr, Inhabited

/-- what `reflect.FuncOf` / the Go type system guarantee: a variadic function's last parameter is a slice -/
def Sig.WF (s : Sig) : Bool :=
  !s.variadic || (match s.params.getLast? with | some (.slice _ _) => true | _ => false)

/-- a value of the `Funcs` map -/
inductive FVal
  | func (sig : Sig) (isNil : Bool)   -- a value of function type (possibly a nil function)
  | other (k : RKind)                  -- a non-nil value of a non-function type
  | untypedNil                         -- `nil` (reflect.TypeOf gives a nil Type)
  deriving Repr, Inhabited

inductive Outcome (α : Type)
  | ok (a : α)
  | err (msg : Bytes)       -- an error value returned to the caller
  | panic (why : String)
  deriving Repr, DecidableEq

/-- classes of `checkNativeFunc` errors (the messages name them) -/
inductive CheckErr
  | keyword | notFunc | nilFunc | param (i : Nat) | ret | ret1 | ret2NotError | tooManyResults
  deriving DecidableEq, Repr

/-- `param = typ.In(i)`, with `param.Elem()` for the last parameter of a variadic function -/
def effParam (s : Sig) (i : Nat) (p : Ty) : Ty :=
  if s.variadic && i == s.params.length - 1 then
    match p with
    | .slice e _ => e
    | _ => .prim .invalid false      -- unreachable for WF signatures
  else p

def checkParams (s : Sig) : List Ty → Nat → Option CheckErr
  | [], _ => none
  | p :: rest, i => if validNativeType (effParam s i p) then checkParams s rest (i + 1) else some (.param i)

def checkResults : List Ty → Option CheckErr
  | [] => none
  | [r] => if validNativeType r then none else some .ret
  | [r, e] => if !validNativeType r then some .ret1 else if e != .error then some .ret2NotError else none
  | _ => some .tooManyResults

/-- `checkNativeFunc name f`; `isKeyword` = `lexer.KeywordToken(name) != ILLEGAL`. An untyped nil (`typ == nil`) is "not a
function"; a nil value of function type is rejected before the signature is looked at. -/
def checkNativeFunc (isKeyword : Bool) (f : FVal) : Outcome Unit × Option CheckErr :=
  if isKeyword then (.err [], some .keyword) else
  match f with
  | .untypedNil => (.err [], some .notFunc)
  | .other _ => (.err [], some .notFunc)
  | .func s isNil =>
    if isNil then (.err [], some .nilFunc) else
    match checkParams s s.params 0 with
    | some e => (.err [], some e)
    | none =>
      match checkResults s.results with
      | some e => (.err [], some e)
      | none => (.ok (), none)

/-- `lexer.KeywordToken(name) != lexer.ILLEGAL`, over the regenerated keyword table -/
def isKeyword (name : Bytes) : Bool := Generated.C17Kinds.keywordBytes.any fun k => k == name

/-- the resolver's check of a call `name(args…)` with `nargs` arguments -/
inductive ResolveRes | ok | notFunc | tooManyArgs
  deriving DecidableEq, Repr

def variadicCap : Nat := Generated.C17Kinds.resolverVariadicCap

def resolveCall (f : FVal) (nargs : Nat) : ResolveRes :=
  match f with
  | .untypedNil => .notFunc
  | .other _ => .notFunc
  | .func s _ =>
    let numParams := if s.variadic then variadicCap else s.params.length
    if nargs > numParams then .tooManyArgs else .ok


/-! ## set-up as a step on a reusable interpreter: the cached native-function table

`setExecuteConfig` runs `initNativeFuncs` only while `p.nativeFuncs == nil`; `initNativeFuncs` validates every entry of
`Config.Funcs` first and assigns the table only when all passed. (The table is sorted by name in Go; the order plays no role
in what is stated about it.) -/

abbrev Table := List (Bytes × Sig)

/-- the validation loop of `initNativeFuncs`: the first entry that does not pass `checkNativeFunc` -/
def checkAll : List (Bytes × FVal) → Option CheckErr
  | [] => none
  | (n, f) :: rest =>
    match checkNativeFunc (isKeyword n) f with
    | (.ok _, _) => checkAll rest
    | (_, some e) => some e
    | (_, none) => some .notFunc      -- unreachable: an error outcome always carries its class

def buildTable (funcs : List (Bytes × FVal)) : Table :=
  funcs.filterMap fun
    | (n, .func s _) => some (n, s)
    | _ => none

/-- one `Execute` / `ExecuteContext`: set-up error (if any) and the cache afterwards -/
def setupStep (cache : Option Table) (funcs : List (Bytes × FVal)) : Option CheckErr × Option Table :=
  match cache with
  | some t => (none, some t)                 -- `p.nativeFuncs != nil`: nothing is looked at
  | none =>
    match checkAll funcs with
    | some e => (some e, none)               -- rejected: `p.nativeFuncs` is not assigned
    | none => (none, some (buildTable funcs))

/-- the cache after a history of calls -/
def runHistory (cache : Option Table) : List (List (Bytes × FVal)) → Option Table
  | [] => cache
  | m :: rest => runHistory (setupStep cache m).2 rest

/-! ## which function a call reaches: the two index tables -/

def bytesLe : Bytes → Bytes → Bool
  | [], _ => true
  | _ :: _, [] => false
  | a :: as, b :: bs => a < b || (a == b && bytesLe as bs)

/-- `sort.Strings` of the keys of the Funcs map: the index table both the resolver and the interpreter build -/
def insertBy (a : Bytes) : List Bytes → List Bytes
  | [] => [a]
  | b :: r => if bytesLe a b then a :: b :: r else b :: insertBy a r

def indexTable (names : List Bytes) : List Bytes := names.foldr insertBy []

inductive Callee | awk (n : Bytes) | native (n : Bytes) | undefined
  deriving DecidableEq, Repr

/-- resolver: an AWK-defined function takes precedence; otherwise the index is the position in the sorted key list of
`ParserConfig.Funcs` (every key, overridden or not). interpreter: `p.nativeFuncs[index]` over the sorted key list of `Config.Funcs`. -/
def dispatch (parseFuncs runFuncs awkDefined : List Bytes) (n : Bytes) : Callee :=
  if n ∈ awkDefined then .awk n
  else if n ∈ parseFuncs then
    match (indexTable runFuncs)[(indexTable parseFuncs).idxOf n]? with
    | some m => .native m
    | none => .undefined
  else .undefined


/-! ## numbers: IEEE-754 bit patterns as `Nat` -/

def bitLen : Nat → Nat := Nat.log2 ∘ (· * 2)   -- number of significant bits; bitLen 0 = 0

/-- `n / 2^sh` rounded to nearest, ties to even (`sh ≤ 0` shifts left, exactly) -/
def roundShift (n : Nat) (sh : Int) : Nat :=
  if sh ≤ 0 then n <<< sh.natAbs else
    let s := sh.toNat
    let q := n >>> s
    let r := n % 2 ^ s
    let half := 2 ^ (s - 1)
    if r > half || (r == half && q % 2 == 1) then q + 1 else q

structure F64Parts where
  neg : Bool
  exp : Nat     -- biased
  mant : Nat
  deriving Repr

def f64Parts (b : Nat) : F64Parts := ⟨(b >>> 63) % 2 == 1, (b >>> 52) % 2048, b % 2 ^ 52⟩

def f64IsNaN (b : Nat) : Bool := let p := f64Parts b; p.exp == 2047 && p.mant != 0
def f64IsInf (b : Nat) : Bool := let p := f64Parts b; p.exp == 2047 && p.mant == 0

def canonNaN64 : Nat := 0x7ff8000000000001
def canon64 (b : Nat) : Nat := if f64IsNaN b then canonNaN64 else b

/-- truncation toward zero of a finite double; `none` for NaN and ±Inf -/
def f64Trunc (b : Nat) : Option Int :=
  let p := f64Parts b
  if p.exp == 2047 then none else
  let m := if p.exp == 0 then p.mant else p.mant + 2 ^ 52
  let e : Int := (if p.exp == 0 then 1 else (p.exp : Int)) - 1075
  let a : Nat := if e ≥ 0 then m <<< e.toNat else m >>> (-e).toNat
  some (if p.neg then -(a : Int) else a)

/-- amd64 `CVTTSD2SQ`: out of range, NaN, Inf give the "integer indefinite" value -2^63 -/
def cvt64 (b : Nat) : Int :=
  match f64Trunc b with
  | some t => if -(2 ^ 63 : Int) ≤ t ∧ t < 2 ^ 63 then t else -(2 ^ 63)
  | none => -(2 ^ 63)

/-- amd64 `CVTTSD2SL` -/
def cvt32 (b : Nat) : Int :=
  match f64Trunc b with
  | some t => if -(2 ^ 31 : Int) ≤ t ∧ t < 2 ^ 31 then t else -(2 ^ 31)
  | none => -(2 ^ 31)

def wrapUnsigned (w : Nat) (x : Int) : Int := x % (2 ^ w : Int)
def wrapSigned (w : Nat) (x : Int) : Int :=
  let u := x % (2 ^ w : Int)
  if u ≥ 2 ^ (w - 1) then u - 2 ^ w else u

/-- `float32(f)` : binary64 → binary32, round to nearest even -/
def f64to32 (b : Nat) : Nat :=
  let p := f64Parts b
  let s := if p.neg then 2 ^ 31 else 0
  if p.exp == 2047 then
    (if p.mant == 0 then s + 0x7f800000 else s + 0x7fc00000 + (p.mant >>> 29) % 2 ^ 22)
  else
    let m := if p.exp == 0 then p.mant else p.mant + 2 ^ 52
    if m == 0 then s else
    let e : Int := (if p.exp == 0 then 1 else (p.exp : Int)) - 1075       -- value = m * 2^e
    let len := bitLen m
    let ex : Int := e + len - 1                                           -- floor(log2 value)
    if ex ≥ -126 then
      let q := roundShift m ((len : Int) - 24)
      let bits : Int := (ex + 127) * 2 ^ 23 + ((q : Int) - 2 ^ 23)
      if bits ≥ 0x7f800000 then s + 0x7f800000 else s + bits.toNat
    else
      s + roundShift m (-149 - e)

/-- `float64(f32)` : exact widening -/
def f32to64 (b : Nat) : Nat :=
  let s := if (b >>> 31) % 2 == 1 then 2 ^ 63 else 0
  let e := (b >>> 23) % 256
  let m := b % 2 ^ 23
  if e == 255 then s + 2047 * 2 ^ 52 + m * 2 ^ 29
  else if e == 0 then
    if m == 0 then s else
      let len := bitLen m
      s + (1023 - 149 + len - 1) * 2 ^ 52 + ((m <<< (53 - len)) - 2 ^ 52)
  else s + (e + 896) * 2 ^ 52 + m * 2 ^ 29

/-- `float64(i)` for an integer (int64 or uint64 range): round to nearest even -/
def intToF64 (x : Int) : Nat :=
  let n := x.natAbs
  if n == 0 then 0 else
  let s := if x < 0 then 2 ^ 63 else 0
  let len := bitLen n
  let q := roundShift n ((len : Int) - 53)
  s + (1023 + len - 1) * 2 ^ 52 + (q - 2 ^ 52)

/-! ## values -/

/-- an AWK value seen through its projections -/
structure AVal where
  num : Nat          -- `v.num()` as IEEE-754 binary64 bits
  truth : Bool       -- `v.boolean()`
  str : Bytes        -- `p.toString(v)`
  deriving Repr, Inhabited

/-- payload of a Go value -/
inductive NVal
  | b (x : Bool)
  | i (x : Int)          -- any integer kind
  | f32 (bits : Nat)
  | f64 (bits : Nat)
  | s (x : Bytes)        -- string or non-nil byte slice
  | nilSlice
  deriving DecidableEq, Repr, Inhabited

/-- the AWK `value` a call returns -/
inductive RVal
  | null
  | num (bits : Nat)
  | str (x : Bytes)
  deriving DecidableEq, Repr, Inhabited

/-- `toNative`: the reflect.Value built (its Go type and payload) -/
def toNative (v : AVal) (typ : Ty) : Outcome (Ty × NVal) :=
  match typ.kind with
  | .bool => .ok (.prim .bool false, .b v.truth)
  | .int => .ok (.prim .int false, .i (cvt64 v.num))
  | .int8 => .ok (.prim .int8 false, .i (wrapSigned 8 (cvt32 v.num)))
  | .int16 => .ok (.prim .int16 false, .i (wrapSigned 16 (cvt32 v.num)))
  | .int32 => .ok (.prim .int32 false, .i (cvt32 v.num))
  | .int64 => .ok (.prim .int64 false, .i (cvt64 v.num))
  | .uint => .ok (.prim .uint false, .i (wrapUnsigned 64 (cvt64 v.num)))
  | .uint8 => .ok (.prim .uint8 false, .i (wrapUnsigned 8 (cvt64 v.num)))
  | .uint16 => .ok (.prim .uint16 false, .i (wrapUnsigned 16 (cvt64 v.num)))
  | .uint32 => .ok (.prim .uint32 false, .i (wrapUnsigned 32 (cvt64 v.num)))
  | .uint64 => .ok (.prim .uint64 false, .i (wrapUnsigned 64 (cvt64 v.num)))
  | .float32 => .ok (.prim .float32 false, .f32 (f64to32 v.num))
  | .float64 => .ok (.prim .float64 false, .f64 v.num)
  | .string => .ok (.prim .string false, .s v.str)
  | .slice =>
    if typ.elemKind? != some .uint8 then .panic "unexpected argument slice"
    else .ok (typ, .s v.str)          -- reflect.MakeSlice(typ, …): already of the parameter's type
  | _ => .panic "unexpected argument type"

/-- `if arg.Type() != argType { arg = arg.Convert(argType) }` — Convert between types of one basic kind always succeeds,
anything else would panic -/
def convertTo (x : Ty × NVal) (argType : Ty) : Outcome (Ty × NVal) :=
  if x.1 = argType then .ok x
  else if x.1.kind = argType.kind ∧ argType.kind ≠ .slice ∧ argType.kind ≠ .interface then .ok (argType, x.2)
  else .panic "reflect.Value.Convert: value cannot be converted"

/-- `reflect.Zero(t)` -/
def zeroOf (t : Ty) : NVal :=
  match t.kind with
  | .bool => .b false
  | .float32 => .f32 0
  | .float64 => .f64 0
  | .string => .s []
  | .slice => .nilSlice
  | _ => .i 0

/-- the type argument `i` is converted to; `none` = index out of range (`f.in[i]` panics) -/
def argType? (s : Sig) (i : Nat) : Option Ty :=
  if !s.variadic || i < s.params.length - 1 then s.params[i]?
  else match s.params.getLast? with
    | some (.slice e _) => some e
    | _ => none

def convArgs (s : Sig) : List AVal → Nat → Outcome (List (Ty × NVal))
  | [], _ => .ok []
  | a :: rest, i =>
    match argType? s i with
    | none => .panic "index out of range: f.in[i]"
    | some t =>
      match toNative a t with
      | .ok x =>
        match convertTo x t with
        | .ok y =>
          match convArgs s rest (i + 1) with
          | .ok ys => .ok (y :: ys)
          | .err m => .err m
          | .panic w => .panic w
        | .err m => .err m
        | .panic w => .panic w
      | .err m => .err m
      | .panic w => .panic w

/-- `for i := len(args); i < minIn; i++ { values = append(values, reflect.Zero(f.in[i])) }` -/
def zeroFill (s : Sig) (nargs : Nat) : List (Ty × NVal) :=
  let minIn := if s.variadic then s.params.length - 1 else s.params.length
  ((s.params.take minIn).drop nargs).map fun t => (t, zeroOf t)

/-- the `values` slice handed to `reflect.Value.Call` -/
def buildValues (s : Sig) (args : List AVal) : Outcome (List (Ty × NVal)) :=
  match convArgs s args 0 with
  | .ok vs => .ok (vs ++ zeroFill s args.length)
  | .err m => .err m
  | .panic w => .panic w

/-- `reflect.Value.Call`'s checks: non-nil function, enough / not too many values, each value's type is the
parameter's type (identical types are the only assignability this code relies on) -/
def callAccepts (s : Sig) (isNil : Bool) (vs : List (Ty × NVal)) : Bool :=
  !isNil &&
  (if s.variadic then vs.length ≥ s.params.length - 1 else vs.length == s.params.length) &&
  ((List.range vs.length).all fun i =>
    match vs[i]?, argType? s i with
    | some v, some t => v.1 == t
    | _, _ => false)

/-- `fromNative` on a value of static type `t` -/
def fromNative (t : Ty) (v : NVal) : Outcome RVal :=
  match t.kind, v with
  | .bool, .b x => .ok (.num (if x then 0x3ff0000000000000 else 0))
  | .int, .i x | .int8, .i x | .int16, .i x | .int32, .i x | .int64, .i x => .ok (.num (intToF64 x))
  | .uint, .i x | .uint8, .i x | .uint16, .i x | .uint32, .i x | .uint64, .i x => .ok (.num (intToF64 x))
  | .float32, .f32 x => .ok (.num (f32to64 x))
  | .float64, .f64 x => .ok (.num x)
  | .string, .s x => .ok (.str x)
  | .slice, .s x => if t.elemKind? == some .uint8 then .ok (.str x) else .panic "unexpected return slice"
  | .slice, .nilSlice => if t.elemKind? == some .uint8 then .ok (.str []) else .panic "unexpected return slice"
  | .bool, _ | .int, _ | .int8, _ | .int16, _ | .int32, _ | .int64, _ | .uint, _ | .uint8, _ | .uint16, _
  | .uint32, _ | .uint64, _ | .float32, _ | .float64, _ | .string, _ | .slice, _ =>
    .panic "ill-typed Go value (excluded by the Go type system)"
  | _, _ => .panic "unexpected return type"

/-- does a payload have the shape of type `t` (what the Go type system guarantees of a function's results) -/
def NVal.fits (t : Ty) (v : NVal) : Bool :=
  match t.kind, v with
  | .bool, .b _ => true
  | .int, .i _ | .int8, .i _ | .int16, .i _ | .int32, .i _ | .int64, .i _ => true
  | .uint, .i _ | .uint8, .i _ | .uint16, .i _ | .uint32, .i _ | .uint64, .i _ => true
  | .float32, .f32 _ => true
  | .float64, .f64 _ => true
  | .string, .s _ => true
  | .slice, .s _ | .slice, .nilSlice => true
  | _, _ => false

/-- what the Go function does: from the values it receives to its first result's payload and its error result
(`none` = nil error; ignored unless the signature has two results) -/
abbrev Body := List (Ty × NVal) → NVal × Option Bytes

/-- `callNative`: result, and what the Go function received (`none` if it was never entered) -/
def callNative (s : Sig) (isNil : Bool) (args : List AVal) (body : Body) : Outcome RVal × Option (List (Ty × NVal)) :=
  match buildValues s args with
  | .err m => (.err m, none)
  | .panic w => (.panic w, none)
  | .ok vs =>
    if !callAccepts s isNil vs then (.panic "reflect.Value.Call rejects the call", none) else
    let out := body vs
    match s.results with
    | [] => (.ok .null, some vs)
    | [r] => (fromNative r out.1, some vs)
    | [r, _] =>
      match out.2 with
      | some e => (.err e, some vs)
      | none => (fromNative r out.1, some vs)
    | _ => (.panic "unexpected number of return values", some vs)

/-- `boolean()` of the returned AWK value (a `str` result is a string, not a numeric string) -/
def RVal.truth : RVal → Bool
  | .null => false
  | .num b => !(b % 2 ^ 63 == 0) -- ±0 are false; NaN is true
  | .str x => !x.isEmpty

end GoawkModel.C17
