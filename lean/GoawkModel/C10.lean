import GoawkModel.Basic
/-!
# C10 — model of GoAWK's string / regex / int() builtins (interp/vm.go `callBuiltin`, interp/functions.go, value.go `floatToInt`)

Core Lean only. AWK strings are `Bytes`; Go `int` values are `Int` (the code only does arithmetic on values it has clamped
into `[0, len s + 1]`, so there is no wrap-around to model — the raw position/length arguments are only *compared*);
float64 values are `Num` (non-finite cases explicit, finite ones carry their exact rational value).
A Go slice expression `s[a:b]` is `slice`, which is `none` where Go would panic.
-/
namespace GoawkModel.C10

/-! ## numbers -/

/-- a float64 seen from outside: NaN, ±Inf, or a finite value (exact rational) -/
inductive Num where
  | nan | ninf | pinf
  | fin (q : Rat)
  deriving DecidableEq, Repr

def maxInt : Int := 9223372036854775807
def minInt : Int := -9223372036854775808

/-- truncation toward zero -/
def trunc (q : Rat) : Int := if 0 ≤ q then q.floor else -((-q).floor)

/-- `floatToInt` (value.go): clamp, then Go's `int(f)`. NaN fails both comparisons and reaches `int(f)`, whose amd64
result (CVTTSD2SQ "integer indefinite") is `minInt`. -/
def floatToInt : Num → Int
  | .nan => minInt
  | .pinf => maxInt
  | .ninf => minInt
  | .fin q => if (maxInt : Rat) ≤ q then maxInt else if q ≤ (minInt : Rat) then minInt else trunc q

/-- `BuiltinInt`: `if math.Abs(f) < 1<<63 || math.IsNaN(f) { f = float64(int64(f)) }` -/
def awkInt : Num → Num
  | .nan => .fin (minInt : Int)
  | .pinf => .pinf
  | .ninf => .ninf
  | .fin q => if -(9223372036854775808 : Rat) < q ∧ q < (9223372036854775808 : Rat) then .fin (trunc q : Int) else .fin q

/-- an integer pushed as an AWK number (`num(float64(n))`; exact below 2^53) -/
def ofInt (n : Int) : Num := .fin (n : Rat)

/-! ## UTF-8 as Go decodes it (`utf8.DecodeRuneInString`, range-over-string): a valid sequence, or one invalid byte alone -/

def isCont (b : UInt8) : Bool := 0x80 ≤ b && b ≤ 0xBF

/-- byte width of the first "rune" of a non-empty string (0 for the empty string) -/
def runeLen : Bytes → Nat
  | [] => 0
  | b0 :: rest =>
    if b0 < 0xC2 then 1                      -- ASCII; stray continuation bytes; overlong C0 C1
    else if b0 < 0xE0 then
      match rest with
      | b1 :: _ => if isCont b1 then 2 else 1
      | _ => 1
    else if b0 < 0xF0 then
      match rest with
      | b1 :: b2 :: _ =>
        if (if b0 = 0xE0 then 0xA0 else 0x80) ≤ b1 && b1 ≤ (if b0 = 0xED then 0x9F else 0xBF) && isCont b2 then 3 else 1
      | _ => 1
    else if b0 < 0xF5 then
      match rest with
      | b1 :: b2 :: b3 :: _ =>
        if (if b0 = 0xF0 then 0x90 else 0x80) ≤ b1 && b1 ≤ (if b0 = 0xF4 then 0x8F else 0xBF) && isCont b2 && isCont b3 then 4 else 1
      | _ => 1
    else 1

def runesF : Nat → Bytes → List Bytes
  | 0, _ => []
  | _ + 1, [] => []
  | f + 1, b :: bs => (b :: bs).take (runeLen (b :: bs)) :: runesF f ((b :: bs).drop (runeLen (b :: bs)))

/-- Go's decomposition of a string by `for i := range s` -/
def runes (s : Bytes) : List Bytes := runesF s.length s

/-- `utf8.RuneCountInString` -/
def runeCount (s : Bytes) : Nat := (runes s).length

/-- `BuiltinLength` / `BuiltinLengthArg` -/
def awkLength (chars : Bool) (s : Bytes) : Int := if chars then runeCount s else s.length

/-! ## substr -/

/-- Go `s[a:b]`; `none` = run-time panic (slice bounds out of range) -/
def slice (s : Bytes) (a b : Int) : Option Bytes :=
  if 0 ≤ a ∧ a ≤ b ∧ b ≤ s.length then some ((s.drop a.toNat).take (b - a).toNat) else none

/-- `BuiltinSubstr`, byte mode -/
def substrBytes (s : Bytes) (pos : Int) : Option Bytes :=
  let n : Int := s.length
  let pos := if pos > n then n + 1 else pos
  let pos := if pos < 1 then 1 else pos
  let length := n - pos + 1
  slice s (pos - 1) (pos - 1 + length)

/-- `BuiltinSubstrLength`, byte mode -/
def substrLenBytes (s : Bytes) (pos length : Int) : Option Bytes :=
  let n : Int := s.length
  let pos := if pos > n then n + 1 else pos
  let pos := if pos < 1 then 1 else pos
  let maxLength := n - pos + 1
  let length := if length < 0 then 0 else length
  let length := if length > maxLength then maxLength else length
  slice s (pos - 1) (pos - 1 + length)

/-- the loop `for idx = range s { chars++; if chars > lim { break } }` over the remaining runes `rs`;
`off` is the byte offset of the next rune, `idx` the loop variable's current value. Returns the final `(chars, idx)`. -/
def countLoop : List Bytes → Nat → Int → Nat → Int → Int × Nat
  | [], _, chars, idx, _ => (chars, idx)
  | r :: rest, off, chars, _, lim =>
    if chars + 1 > lim then (chars + 1, off) else countLoop rest (off + r.length) (chars + 1) off lim

/-- the start offset computed by `substrChars` / `substrLengthChars` -/
def charStart (s : Bytes) (pos : Int) : Nat :=
  let r := countLoop (runes s) 0 1 0 pos
  if pos ≥ r.1 then s.length else r.2

/-- `substrChars` (functions.go) -/
def substrChars (s : Bytes) (pos : Int) : Option Bytes :=
  slice s (charStart s pos) s.length

/-- the end offset computed by `substrLengthChars` -/
def charEnd (s : Bytes) (start : Nat) (length : Int) : Nat :=
  let r := countLoop (runes (s.drop start)) 0 0 0 length
  if length ≥ r.1 then s.length else r.2 + start

/-- `substrLengthChars` (functions.go) -/
def substrLenChars (s : Bytes) (pos length : Int) : Option Bytes :=
  let start := charStart s pos
  slice s start (charEnd s start length)

/-- `substr(s, m)` as the VM runs it -/
def awkSubstr (chars : Bool) (s : Bytes) (m : Num) : Option Bytes :=
  if chars then substrChars s (floatToInt m) else substrBytes s (floatToInt m)

/-- `substr(s, m, n)` as the VM runs it -/
def awkSubstrLen (chars : Bool) (s : Bytes) (m n : Num) : Option Bytes :=
  if chars then substrLenChars s (floatToInt m) (floatToInt n) else substrLenBytes s (floatToInt m) (floatToInt n)

/-! ## specification side of substr: what the property's sentence says, over any list of units -/

/-- how many units `substr(s, m, …)` skips: `max 1 ⌊m⌋ - 1`; `+∞` skips everything (`L` = number of units) -/
def skipCount (L : Nat) : Num → Nat
  | .pinf => L
  | .ninf => 0
  | .nan => 0
  | .fin q => (trunc q - 1).toNat

/-- how many units `substr(s, m, n)` takes at most: `⌊n⌋`, none if negative; `+∞` takes all that is left -/
def takeCount (L : Nat) : Num → Nat
  | .pinf => L
  | .ninf => 0
  | .nan => 0
  | .fin q => (trunc q).toNat

/-- the units positions and lengths count: bytes, or in character mode Go's rune decomposition -/
def units (chars : Bool) (s : Bytes) : List Bytes := if chars then runes s else s.map fun b => [b]

/-- both ends of `s[a:b]` are boundaries of the rune decomposition of `s`: it is the run of `l` whole runes after the first `k` -/
def Aligned (s : Bytes) (a b : Nat) : Prop :=
  ∃ k l, a = ((runes s).take k).flatten.length ∧ b = ((runes s).take (k + l)).flatten.length ∧ k + l ≤ (runes s).length

/-- pieces joined by a separator (AWK's loop `j = j sep arr[i]`) -/
def joinWith (sep : Bytes) : List Bytes → Bytes
  | [] => []
  | [x] => x
  | x :: y :: rest => x ++ sep ++ joinWith sep (y :: rest)

/-- replacement texts as token lists: `&`, `\\&`, `\\\\`, a backslash before any other byte, a backslash at the very end,
any other byte -/
inductive RTok where
  | amp | escAmp | escBs
  | text (b : UInt8)
  | bsOther (c : UInt8)
  | bsEnd
  deriving DecidableEq, Repr

def RTok.render : RTok → Bytes
  | .amp => [38]
  | .escAmp => [92, 38]
  | .escBs => [92, 92]
  | .text b => [b]
  | .bsOther c => [92, c]
  | .bsEnd => [92]

/-- what the token contributes to the replacement: the match, a literal `&`, one backslash; every other token stands
for itself (the backslash of `\\c` and a final backslash are kept) -/
def RTok.meaning (m : Bytes) : RTok → Bytes
  | .amp => m
  | .escAmp => [38]
  | .escBs => [92]
  | .text b => [b]
  | .bsOther c => [92, c]
  | .bsEnd => [92]

/-- a token that may stand anywhere in a token list: `text`/`bsOther` carry a byte other than `&` and `\\`;
`bsEnd` is excluded (it is only a token at the very end — `tokenize` puts it there) -/
def RTok.ok : RTok → Prop
  | .text b => b ≠ 38 ∧ b ≠ 92
  | .bsOther c => c ≠ 38 ∧ c ≠ 92
  | .bsEnd => False
  | _ => True

/-- the tokenisation of an arbitrary replacement text (total; same scan as the callback's loop) -/
def tokenize : Bytes → List RTok
  | [] => []
  | 38 :: r => .amp :: tokenize r
  | [92] => [.bsEnd]
  | 92 :: 38 :: r => .escAmp :: tokenize r
  | 92 :: 92 :: r => .escBs :: tokenize r
  | 92 :: c :: r => .bsOther c :: tokenize r
  | c :: r => .text c :: tokenize r

/-- (a superset of) the finite float64 values m·2^e, |m| < 2^53: the integers, and the dyadic fractions with a 53-bit numerator -/
def IsFloat64Value (q : Rat) : Prop :=
  (∃ z : Int, q = (z : Rat)) ∨
  (∃ (m : Int) (e : Nat), -9007199254740992 < m ∧ m < 9007199254740992 ∧ q = (m : Rat) / ((2 ^ e : Nat) : Rat))

/-! ## compileRegex and its cache (interp.go) — the regex engine is abstract: `compile` is `regexp.Compile`, `longest` is
`(*Regexp).Longest()`, `R` the compiled form -/

/-- `compiler.AddRegexFlags`: "(?s:" ++ regex ++ ")" -/
def addRegexFlags (regex : Bytes) : Bytes := [40, 63, 115, 58] ++ regex ++ [41]

def cacheLookup {R : Type} : List (Bytes × R) → Bytes → Option R
  | [], _ => none
  | (k, v) :: rest, x => if k = x then some v else cacheLookup rest x

/-- `p.compileRegex(regex)`: (result — `none` is the "invalid regex" error —, cache afterwards). `limit` = maxCachedRegexes. -/
def compileRegex {R : Type} (compile : Bytes → Option R) (longest : R → R) (limit : Nat)
    (cache : List (Bytes × R)) (regex : Bytes) : Option R × List (Bytes × R) :=
  match cacheLookup cache regex with
  | some re => (some re, cache)
  | none =>
    match compile (addRegexFlags regex) with
    | none => (none, cache)
    | some re =>
      let re := longest re
      (some re, if cache.length < limit then (regex, re) :: cache else cache)

/-- a run of the interpreter as far as the cache is concerned: the regex sources it compiles, in order -/
def compileAll {R : Type} (compile : Bytes → Option R) (longest : R → R) (limit : Nat) :
    List (Bytes × R) → List Bytes → List (Option R) × List (Bytes × R)
  | cache, [] => ([], cache)
  | cache, x :: xs =>
    let r := compileRegex compile longest limit cache x
    let rest := compileAll compile longest limit r.2 xs
    (r.1 :: rest.1, rest.2)

/-- pieces and separators alternately: `p0 ++ m1 ++ p1 ++ m2 ++ …`; a list that runs out contributes nothing more -/
def weave : List Bytes → List Bytes → Bytes
  | p :: ps, m :: ms => p ++ m ++ weave ps ms
  | ps, [] => ps.flatten
  | [], ms => ms.flatten

/-- the texts of the matches `regexp.Split` cuts at: every match except one that ends at offset 0 (an empty match at the
very start produces no piece) -/
def cutTexts (s : Bytes) (ms : List (Nat × Nat)) : List Bytes :=
  (ms.filter fun p => p.2 ≠ 0).map fun p => (s.drop p.1).take (p.2 - p.1)

/-- where the last match starts (`e` when there is none) -/
def lastStart (e : Nat) : List (Nat × Nat) → Nat
  | [] => e
  | (a, _) :: ms => lastStart a ms

/-! ## split with `" "` (`strings.Fields`) and tolower / toupper (`strings.ToLower/ToUpper`) -/

/-- `unicode.IsSpace` on one element of the rune decomposition: the six ASCII blanks, U+0085, U+00A0, U+1680, U+2000–U+200A,
U+2028, U+2029, U+202F, U+205F, U+3000. An invalid byte decodes to U+FFFD, which is not a space. -/
def isSpaceRune (r : Bytes) : Bool :=
  match r with
  | [b] => (9 ≤ b && b ≤ 13) || b == 32
  | [0xC2, b] => b == 0x85 || b == 0xA0
  | [0xE1, 0x9A, 0x80] => true
  | [0xE2, 0x80, b] => (0x80 ≤ b && b ≤ 0x8A) || b == 0xA8 || b == 0xA9 || b == 0xAF
  | [0xE2, 0x81, 0x9F] => true
  | [0xE3, 0x80, 0x80] => true
  | _ => false

/-- the field loop of `strings.FieldsFunc`: maximal runs of elements that are not separators (`cur` = the run being built) -/
def groupsLoop {α : Type} (p : α → Bool) : List α → List α → List (List α)
  | [], cur => if cur.isEmpty then [] else [cur]
  | x :: xs, cur =>
    if p x then (if cur.isEmpty then groupsLoop p xs [] else cur :: groupsLoop p xs [])
    else groupsLoop p xs (cur ++ [x])

/-- `strings.Fields(s)` — what `split(s, a, " ")` stores (the ASCII fast path of Go agrees with the general one) -/
def stringsFields (s : Bytes) : List Bytes := (groupsLoop isSpaceRune (runes s) []).map List.flatten

def asciiLower (b : UInt8) : UInt8 := if 65 ≤ b ∧ b ≤ 90 then b + 32 else b
def asciiUpper (b : UInt8) : UInt8 := if 97 ≤ b ∧ b ≤ 122 then b - 32 else b

/-- one element of the rune decomposition under `strings.Map(unicode.ToLower/ToUpper)`: ASCII by the table, an invalid byte
becomes U+FFFD (EF BF BD), a valid multi-byte rune whatever Go's Unicode tables say (`uni`, abstract) -/
def caseRune (tbl : UInt8 → UInt8) (uni : Bytes → Bytes) : Bytes → Bytes
  | [b] => if b < 0x80 then [tbl b] else [0xEF, 0xBF, 0xBD]
  | r => uni r

/-- `strings.ToLower` / `strings.ToUpper` (used by tolower/toupper in byte mode and in character mode alike):
all-ASCII strings bytewise, anything else rune by rune -/
def mapCase (tbl : UInt8 → UInt8) (uni : Bytes → Bytes) (s : Bytes) : Bytes :=
  if s.all (· < 0x80) then s.map tbl else ((runes s).map (caseRune tbl uni)).flatten

/-! ## how split stores its pieces (the tail of `p.split`) -/

/-- an array key: `idx n` stands for the decimal string of `n` (`strconv.Itoa`, injective), `other` for any other string -/
inductive Key where
  | idx (n : Nat)
  | other (b : Bytes)
  deriving DecidableEq, Repr

/-- an AWK array as its list of (key, value) pairs -/
abbrev AwkArray := List (Key × Bytes)

def storeFrom : Nat → List Bytes → AwkArray
  | _, [] => []
  | i, p :: ps => (.idx i, p) :: storeFrom (i + 1) ps

/-- `array := make(map…); for i, part := range parts { array[Itoa(i+1)] = part }; p.arrays[…] = array; return len(array)`:
a NEW map replaces the target array — `old`, the target's previous content, is not consulted -/
def splitStore (_old : AwkArray) (parts : List Bytes) : AwkArray × Nat :=
  let array := storeFrom 1 parts
  (array, array.length)

def arrayGet (a : AwkArray) (k : Key) : Option Bytes := (a.find? fun p => p.1 == k).map (·.2)

/-! ## index -/

/-- `strings.Index`: byte offset of the first occurrence -/
def indexOf : Bytes → Bytes → Option Nat
  | [], t => if t = [] then some 0 else none
  | b :: s, t => if t.isPrefixOf (b :: s) then some 0 else (indexOf s t).map (· + 1)

/-- `BuiltinIndex` -/
def awkIndex (chars : Bool) (s t : Bytes) : Int :=
  match indexOf s t with
  | none => 0
  | some i => if chars then (runeCount (s.take i) : Int) + 1 else (i : Int) + 1

/-! ## match — the regex engine is abstract: `loc` is what `re.FindStringIndex(s)` returned -/

/-- `BuiltinMatch`: the pair (RSTART, RLENGTH) -/
def awkMatch (chars : Bool) (s : Bytes) (loc : Option (Nat × Nat)) : Int × Int :=
  match loc with
  | none => (0, -1)
  | some (a, b) =>
    if chars then ((runeCount (s.take a) : Int) + 1, (runeCount ((s.drop a).take (b - a)) : Int))
    else ((a : Int) + 1, (b : Int) - (a : Int))

/-! ## sub / gsub — `ms` is the list of matches for which `ReplaceAllStringFunc` calls the callback -/

/-- the callback's expansion of the replacement text: `&` is the match, `\&` a literal `&`, `\\` a backslash,
a backslash before anything else (or at the end) stays -/
def expand (m : Bytes) : Bytes → Bytes
  | [] => []
  | 38 :: r => m ++ expand m r
  | [92] => [92]
  | 92 :: 38 :: r => 38 :: expand m r
  | 92 :: 92 :: r => 92 :: expand m r
  | 92 :: c :: r => 92 :: c :: expand m r
  | c :: r => c :: expand m r

/-- `ReplaceAllStringFunc` with GoAWK's callback (`count` is the captured counter): text between matches is copied,
each match is replaced by the callback's result; `sub` stops replacing after the first. -/
def subLoop (s repl : Bytes) (global : Bool) : List (Nat × Nat) → Nat → Nat → Bytes × Nat
  | [], last, count => (s.drop last, count)
  | (a, b) :: ms, last, count =>
    let mt := (s.drop a).take (b - a)
    let pc : Bytes × Nat := if !global && count > 0 then (mt, count) else (expand mt repl, count + 1)
    let r := subLoop s repl global ms b pc.2
    ((s.drop last).take (a - last) ++ pc.1 ++ r.1, r.2)

/-- `p.sub(regex, repl, in, global)`: (new text, count) -/
def awkSub (s repl : Bytes) (global : Bool) (ms : List (Nat × Nat)) : Bytes × Nat := subLoop s repl global ms 0 0

/-- the shape of a match list as `regexp` delivers it: ordered, non-overlapping, inside the string -/
def MatchesWF (s : Bytes) : Nat → List (Nat × Nat) → Prop
  | _, [] => True
  | last, (a, b) :: ms => last ≤ a ∧ a ≤ b ∧ b ≤ s.length ∧ MatchesWF s b ms

def matchesWF (s : Bytes) : Nat → List (Nat × Nat) → Bool
  | _, [] => true
  | last, (a, b) :: ms => decide (last ≤ a) && decide (a ≤ b) && decide (b ≤ s.length) && matchesWF s b ms

/-! ## split with a literal separator (`!sepIsRegex && utf8.RuneCountInString(sep) <= 1`, sep ≠ " ") -/

/-- `strings.Split(s, sep)` for non-empty `sep`: cut at each successive first occurrence -/
def splitF (sep : Bytes) : Nat → Bytes → List Bytes
  | 0, s => [s]
  | f + 1, s =>
    match indexOf s sep with
    | none => [s]
    | some i => s.take i :: splitF sep f (s.drop (i + sep.length))

/-- `strings.Split`: an empty separator explodes the string into UTF-8 sequences -/
def stringsSplit (s sep : Bytes) : List Bytes :=
  if sep = [] then runes s else splitF sep s.length s

/-- `p.split` on its literal-separator path (also the `s == ""` case that precedes it) -/
def awkSplitLit (s sep : Bytes) : List Bytes :=
  if s = [] then [] else stringsSplit s sep

/-- `regexp.Split(s, -1)` given the matches `FindAllStringIndex` delivered (non-empty expression) -/
def regexSplitLoop (s : Bytes) : List (Nat × Nat) → Nat → Nat → List Bytes
  | [], beg, e => if e ≠ s.length then [s.drop beg] else []
  | (a, b) :: ms, beg, _ =>
    if b ≠ 0 then (s.drop beg).take (a - beg) :: regexSplitLoop s ms b a else regexSplitLoop s ms b a

def awkSplitRegex (s : Bytes) (ms : List (Nat × Nat)) : List Bytes :=
  if s = [] then [] else regexSplitLoop s ms 0 0

end GoawkModel.C10
