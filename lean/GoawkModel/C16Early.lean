import GoawkModel.C16
/-! A variant of `resolve` that differs from resolve.go in ONE respect: the pass cap is computed before the first pass, when only
the parameters and ARGV / ENVIRON / FIELDS have been recorded (the first pass then runs inside the loop). `Props.C16` shows by a
witness that this cap rejects a consistently typed program, and that the verdict then depends on the order of the top-level items:
`maxIterations` has to be taken after the first pass has recorded the globals (`passes_bound` is about exactly that cap). -/
namespace GoawkModel.C16

/-- `maxIterations` taken before any pass -/
def capEarly (p : Program) : Nat := cap p (prelude p)

/-- `for i := 0; r.updates != updates; i++ { walk; if i > maxIterations { panic } }` starting with the first pass:
passes `0 … capEarly` may report updates, the next one is one too many -/
def resolveEarly (p : Program) (order : List Name) : Except LErr State :=
  loop p order (capEarly p + 1) (prelude p) true

/-! witness: `function f1(p1) {} … function f5(p5) {}`, the chain y0 - p1 - y1 - … - p5 - y5 made of the call sites `fi(y(i-1))`,
`fi(yi)`, and `y0[1] = 1; length(y0); length(y5)`. ARGV=1 ENVIRON=2 FIELDS=3, fi = 10+i, pi = 20+i, yi = 30+i. -/

def zigSites : List Event :=
  [.call 11 1, .varArg 11 0 30, .call 11 1, .varArg 11 0 31,
   .call 12 1, .varArg 12 0 31, .call 12 1, .varArg 12 0 32,
   .call 13 1, .varArg 13 0 32, .call 13 1, .varArg 13 0 33,
   .call 14 1, .varArg 14 0 33, .call 14 1, .varArg 14 0 34,
   .call 15 1, .varArg 15 0 34, .call 15 1, .varArg 15 0 35]

/-- the same call sites, last first -/
def zigSitesRev : List Event :=
  [.call 15 1, .varArg 15 0 35, .call 15 1, .varArg 15 0 34,
   .call 14 1, .varArg 14 0 34, .call 14 1, .varArg 14 0 33,
   .call 13 1, .varArg 13 0 33, .call 13 1, .varArg 13 0 32,
   .call 12 1, .varArg 12 0 32, .call 12 1, .varArg 12 0 31,
   .call 11 1, .varArg 11 0 31, .call 11 1, .varArg 11 0 30]

def zigUses : List Event := [.use 30 .array, .use 30 .unknown, .use 35 .unknown]

def zigFuncs : List Func := [⟨11, [21], []⟩, ⟨12, [22], []⟩, ⟨13, [23], []⟩, ⟨14, [24], []⟩, ⟨15, [25], []⟩]

/-- items listed along the direction of type flow -/
def zigAlong : Program := { funcs := zigFuncs, main := zigUses ++ zigSites, specials := [], builtins := [1, 2, 3] }
/-- the same items in reverse order: against the flow, every pass learns one type -/
def zigAgainst : Program := { funcs := zigFuncs, main := zigSitesRev ++ zigUses, specials := [], builtins := [1, 2, 3] }

def zigOrder : List Name := [11, 12, 13, 14, 15]

end GoawkModel.C16
