import GoawkModel.C05
import GoawkModel.Generated.C05Cmp
/-!
# C05 — semantics of the comparison opcodes and of compiled conditions, read off the GENERATED tables

`Generated.C05Cmp` is rewritten from `compiler.go` / `vm.go` on every run. This file gives the tables a meaning:
`pushes op l r` = the Boolean an unfused comparison opcode pushes, `jumps op l r` = whether a fused jump opcode jumps,
`condJumps tok invert l r` = whether the conditional jump that `condition(l tok r, invert)` emits is taken.
-/
namespace GoawkModel.C05
open GoawkModel GoawkModel.Generated.C05Cmp

def goOp : String → Option CmpOp
  | "==" => some .eq
  | "!=" => some .ne
  | "<" => some .lt
  | ">" => some .gt
  | "<=" => some .le
  | ">=" => some .ge
  | _ => none

/-- what a comparison token means (the specification the tables are checked against) -/
def tokOp : String → Option CmpOp
  | "EQUALS" => some .eq
  | "NOT_EQUALS" => some .ne
  | "LESS" => some .lt
  | "GREATER" => some .gt
  | "LTE" => some .le
  | "GTE" => some .ge
  | _ => none

def cmpTokens : List String := ["EQUALS", "NOT_EQUALS", "LESS", "LTE", "GREATER", "GTE"]

def lookup5 (k : String) : List (String × String × String × String × String) → Option (String × String × String × String)
  | [] => none
  | (a, b) :: rest => if a == k then some b else lookup5 k rest

def lookup2 (k : String) : List (String × String) → Option String
  | [] => none
  | (a, b) :: rest => if a == k then some b else lookup2 k rest

/-- the operand wiring every comparison case of vm.go must have: strings of `l`,`r` in that order, numbers `ln`,`rn` -/
def expectedOperands : String := "str:l,r;num:ln,rn"

/-- (string operator, numeric operator) of a comparison opcode of vm.go of the given kind (`push` / `jump`) -/
def opcodeOps (kind opcode : String) : Option (CmpOp × CmpOp) :=
  match lookup5 opcode vmCompare with
  | some (k, so, no, operands) =>
    if k == kind && operands == expectedOperands then
      match goOp so, goOp no with
      | some a, some b => some (a, b)
      | _, _ => none
    else none
  | none => none

/-- the Boolean whose `boolean(·)` an unfused comparison opcode leaves on the stack -/
def pushes (sc : Strconv Num) (fmt : Num → Bytes) (opcode : String) (l r : Val) : Option Bool :=
  (opcodeOps "push" opcode).map fun (so, no) => compareWith sc fmt so no l r

/-- whether a fused comparison-and-jump opcode jumps -/
def jumps (sc : Strconv Num) (fmt : Num → Bytes) (opcode : String) (l r : Val) : Option Bool :=
  (opcodeOps "jump" opcode).map fun (so, no) => compareWith sc fmt so no l r

/-- `JumpTrue` / `JumpFalse` on a popped value -/
def jumpsOnValue (sc : Strconv Num) (opcode : String) (v : Val) : Option Bool :=
  if opcode == "JumpTrue" then some (toBool sc v)
  else if opcode == "JumpFalse" then some (!toBool sc v)
  else none

/-- compile the whole expression `l tok r` (`binaryOp`), then jump on its value with `j` -/
def unfusedJumps (sc : Strconv Num) (fmt : Num → Bytes) (tok j : String) (l r : Val) : Option Bool :=
  match lookup2 tok binaryOps with
  | some opc => (pushes sc fmt opc l r).bind fun b => jumpsOnValue sc j (.num (boolNum b))
  | none => none

/-- whether the conditional jump emitted by `condition(l tok r, invert)` is taken -/
def condJumps (sc : Strconv Num) (fmt : Num → Bytes) (tok : String) (invert : Bool) (l r : Val) : Option Bool :=
  match lookup5 tok condFused with
  | some (jn, kind, ji, order) =>
    if order != "Left,Right" then none
    else if !invert then jumps sc fmt jn l r
    else if kind == "fused" then jumps sc fmt ji l r
    else if kind == "unfused" then unfusedJumps sc fmt tok ji l r
    else none
  | none => unfusedJumps sc fmt tok (if invert then condFallback.2.1 else condFallback.1) l r

/-- the value of the expression `l tok r` as compiled by `binaryOp` -/
def exprValue (sc : Strconv Num) (fmt : Num → Bytes) (tok : String) (l r : Val) : Option Bool :=
  match lookup2 tok binaryOps with
  | some opc => pushes sc fmt opc l r
  | none => none

end GoawkModel.C05
